import JjModel.Model.Diff
/-!
  Lemmas about slices and the hunk iterator of `Model/Diff.lean` (C03 reconstruction).
-/
namespace JjModel.Diff

theorem slice_append {β : Type} (t : List β) (a b c : Nat) (h1 : a ≤ b) (h2 : b ≤ c) :
    slice t ⟨a, b⟩ ++ slice t ⟨b, c⟩ = slice t ⟨a, c⟩ := by
  simp only [slice]
  have e1 : c - a = (b - a) + (c - b) := by omega
  have e2 : List.drop b t = List.drop (b - a) (List.drop a t) := by
    rw [List.drop_drop]; congr 1; omega
  rw [e1, List.take_add, e2]

theorem slice_empty {β : Type} (t : List β) (a : Nat) : slice t ⟨a, a⟩ = [] := by
  simp [slice]

theorem slice_full {β : Type} (t : List β) : slice t ⟨0, t.length⟩ = t := by
  simp [slice]

theorem getD_zipWith {β γ δ : Type} (f : β → γ → δ) (l : List β) (m : List γ) (i : Nat) (db : β) (dc : γ) (dd : δ)
    (h1 : i < l.length) (h2 : i < m.length) :
    (List.zipWith f l m).getD i dd = f (l.getD i db) (m.getD i dc) := by
  simp [List.getD, List.getElem?_zipWith, List.getElem?_eq_getElem h1, List.getElem?_eq_getElem h2]

/-- the range of side `i` -/
abbrev Region.at (r : Region) (i : Nat) : Rng := r.getD i ⟨0, 0⟩

theorem between_at (prev cur : Region) (i : Nat) (h1 : i < prev.length) (h2 : i < cur.length) :
    (between prev cur).getD i ⟨0, 0⟩ = ⟨(prev.getD i ⟨0, 0⟩).hi, (cur.getD i ⟨0, 0⟩).lo⟩ := by
  unfold between
  rw [getD_zipWith _ _ _ _ ⟨0, 0⟩ ⟨0, 0⟩ _ h1 h2]

theorem chainOK_le (len : Nat) (l : List Rng) (pos : Nat) (h : chainOK len pos l = true) : pos ≤ len := by
  induction l generalizing pos with
  | nil => simp [chainOK] at h; omega
  | cons r rest ih =>
    simp [chainOK] at h
    have := ih r.hi h.2
    omega

theorem isAllEmpty_at (r : Region) (i : Nat) (hi : i < r.length) (h : isAllEmpty r = true) :
    (r.getD i ⟨0, 0⟩).hi ≤ (r.getD i ⟨0, 0⟩).lo := by
  simp only [isAllEmpty, List.all_eq_true] at h
  have hm : r[i] ∈ r := List.getElem_mem hi
  have := h _ hm
  simp [Rng.isEmpty] at this
  simpa [List.getD, List.getElem?_eq_getElem hi] using this

/-- the bytes of side `i` named by a list of hunks -/
def sideBytes (input : Bytes) (i : Nat) (hs : List HunkRange) : Bytes :=
  hs.flatMap fun h => slice input (h.ranges.getD i ⟨0, 0⟩)

theorem hunksFrom_side (input : Bytes) (i : Nat) (rest : List Region) (prev : Region)
    (hp : i < prev.length) (hr : ∀ r ∈ rest, i < r.length)
    (hc : chainOK input.length (prev.getD i ⟨0, 0⟩).hi (side i rest) = true) :
    sideBytes input i (hunksFrom prev rest) = slice input ⟨(prev.getD i ⟨0, 0⟩).hi, input.length⟩ := by
  induction rest generalizing prev with
  | nil =>
    simp [side, chainOK] at hc
    simp [hunksFrom, sideBytes, hc, slice_empty]
  | cons cur rest ih =>
    have hcl : i < cur.length := hr cur (by simp)
    simp only [side, List.map_cons, chainOK, Bool.and_eq_true, decide_eq_true_eq] at hc
    obtain ⟨⟨h1, h2⟩, h3⟩ := hc
    have ih' := ih cur hcl (fun r hr' => hr r (by simp [hr'])) h3
    have hle := chainOK_le _ _ _ h3
    have key : slice input ⟨(prev.getD i ⟨0, 0⟩).hi, (cur.getD i ⟨0, 0⟩).lo⟩ ++
        (slice input ⟨(cur.getD i ⟨0, 0⟩).lo, (cur.getD i ⟨0, 0⟩).hi⟩ ++
         slice input ⟨(cur.getD i ⟨0, 0⟩).hi, input.length⟩) =
        slice input ⟨(prev.getD i ⟨0, 0⟩).hi, input.length⟩ := by
      rw [slice_append _ _ _ _ h2 hle, slice_append _ _ _ _ h1 (by omega)]
    unfold sideBytes at ih' ⊢
    by_cases he : isAllEmpty cur = true
    · have := isAllEmpty_at cur i hcl he
      have heq : (cur.getD i ⟨0, 0⟩).lo = (cur.getD i ⟨0, 0⟩).hi := by omega
      rw [hunksFrom, if_pos he, List.flatMap_cons, ih', between_at prev cur i hp hcl, ← key, heq, slice_empty]
      rfl
    · rw [hunksFrom, if_neg he, List.flatMap_cons, List.flatMap_cons, ih', between_at prev cur i hp hcl, ← key]

theorem flatMap_congr_mem {β γ : Type} (l : List β) (f g : β → List γ) (h : ∀ x ∈ l, f x = g x) :
    l.flatMap f = l.flatMap g := by
  induction l with
  | nil => rfl
  | cons x xs ih =>
    simp only [List.flatMap_cons]
    rw [h x (by simp), ih (fun y hy => h y (by simp [hy]))]

/-- the whole iterator, one side -/
theorem hunkRangesOf_side (input : Bytes) (i : Nat) (regions : List Region)
    (ha : ∀ r ∈ regions, i < r.length) (hs : sideOK input.length (side i regions) = true) :
    sideBytes input i (hunkRangesOf regions) = input := by
  cases regions with
  | nil => simp [side, sideOK] at hs
  | cons first rest =>
    have hf : i < first.length := ha first (by simp)
    simp only [side, List.map_cons, sideOK, Bool.and_eq_true, decide_eq_true_eq] at hs
    obtain ⟨⟨h0, h1⟩, h2⟩ := hs
    have hrest := hunksFrom_side input i rest first hf (fun r hr => ha r (by simp [hr])) h2
    have hle := chainOK_le _ _ _ h2
    have key : slice input ⟨0, (first.getD i ⟨0, 0⟩).hi⟩ ++
        slice input ⟨(first.getD i ⟨0, 0⟩).hi, input.length⟩ = input := by
      rw [slice_append _ _ _ _ (by omega) hle, slice_full]
    unfold sideBytes at hrest ⊢
    by_cases he : isAllEmpty first = true
    · have := isAllEmpty_at first i hf he
      have heq : (first.getD i ⟨0, 0⟩).hi = 0 := by omega
      rw [hunkRangesOf, if_pos he, hrest]
      rw [heq] at key ⊢
      rw [slice_empty] at key
      exact key
    · rw [hunkRangesOf, if_neg he, List.flatMap_cons, hrest]
      have e : first.getD i ⟨0, 0⟩ = ⟨0, (first.getD i ⟨0, 0⟩).hi⟩ := by
        generalize first.getD i ⟨0, 0⟩ = r at h0
        cases r; simp_all
      show slice input (first.getD i ⟨0, 0⟩) ++ _ = input
      rw [e]
      exact key

theorem length_between (p c : Region) (n : Nat) (hp : p.length = n) (hc : c.length = n) :
    (between p c).length = n := by
  simp [between, List.length_zipWith, hp, hc]

theorem hunksFrom_arity (n : Nat) (rest : List Region) (prev : Region) (hp : prev.length = n)
    (hr : ∀ r ∈ rest, r.length = n) : ∀ h ∈ hunksFrom prev rest, h.ranges.length = n := by
  induction rest generalizing prev with
  | nil => simp [hunksFrom]
  | cons cur rest ih =>
    have hc : cur.length = n := hr cur (by simp)
    have ih' := ih cur hc (fun r hr' => hr r (by simp [hr']))
    intro h hh
    rw [hunksFrom] at hh
    split at hh
    · simp only [List.mem_cons] at hh
      rcases hh with rfl | hh
      · exact length_between _ _ _ hp hc
      · exact ih' h hh
    · simp only [List.mem_cons] at hh
      rcases hh with rfl | rfl | hh
      · exact length_between _ _ _ hp hc
      · exact hc
      · exact ih' h hh

theorem hunkRangesOf_arity (n : Nat) (regions : List Region) (hr : ∀ r ∈ regions, r.length = n) :
    ∀ h ∈ hunkRangesOf regions, h.ranges.length = n := by
  cases regions with
  | nil => simp [hunkRangesOf]
  | cons first rest =>
    have hf : first.length = n := hr first (by simp)
    have hrest := hunksFrom_arity n rest first hf (fun r hr' => hr r (by simp [hr']))
    intro h hh
    rw [hunkRangesOf] at hh
    split at hh
    · exact hrest h hh
    · simp only [List.mem_cons] at hh
      rcases hh with rfl | hh
      · exact hf
      · exact hrest h hh

/-! ### adjacency, alternation, non-emptiness -/

theorem all_zipWith_iff {β γ : Type} (f : β → γ → Bool) (l : List β) (m : List γ) (db : β) (dc : γ) :
    (List.zipWith f l m).all id = true ↔
      ∀ i, i < l.length → i < m.length → f (l.getD i db) (m.getD i dc) = true := by
  induction l generalizing m with
  | nil => simp
  | cons x xs ih =>
    cases m with
    | nil => simp
    | cons y ys =>
      simp only [List.zipWith_cons_cons, List.all_cons, id, Bool.and_eq_true, ih ys, List.length_cons]
      constructor
      · rintro ⟨h0, hr⟩ i h1 h2
        cases i with
        | zero => simpa using h0
        | succ k => simpa using hr k (by omega) (by omega)
      · intro h
        refine ⟨by simpa using h 0 (by omega) (by omega), fun i h1 h2 => ?_⟩
        simpa using h (i + 1) (by omega) (by omega)

theorem adjacent_iff (p c : Region) :
    adjacent p c = true ↔ ∀ i, i < p.length → i < c.length → (p.getD i ⟨0,0⟩).hi = (c.getD i ⟨0,0⟩).lo := by
  unfold adjacent
  rw [all_zipWith_iff _ _ _ ⟨0,0⟩ ⟨0,0⟩]
  simp

theorem isAllEmpty_between_iff (p c : Region) :
    isAllEmpty (between p c) = true ↔
      ∀ i, i < p.length → i < c.length → (c.getD i ⟨0,0⟩).lo ≤ (p.getD i ⟨0,0⟩).hi := by
  have : isAllEmpty (between p c) = (List.zipWith (fun a b => decide (b.lo ≤ a.hi)) p c).all id := by
    unfold isAllEmpty between
    induction p generalizing c with
    | nil => simp
    | cons x xs ih =>
      cases c with
      | nil => simp
      | cons y ys => simp [Rng.isEmpty, ih ys]
  rw [this, all_zipWith_iff _ _ _ ⟨0,0⟩ ⟨0,0⟩]
  simp

/-- no two consecutive hunks have the same kind -/
def Alternates : List HunkRange → Prop
  | [] => True
  | [_] => True
  | a :: b :: rest => a.kind ≠ b.kind ∧ Alternates (b :: rest)

theorem hunksFrom_alternates (rest : List Region) (prev : Region)
    (h : ∀ r ∈ rest.dropLast, isAllEmpty r = false) :
    Alternates (hunksFrom prev rest) ∧ ∀ x ∈ (hunksFrom prev rest).head?, x.kind = .different := by
  induction rest generalizing prev with
  | nil => simp [hunksFrom, Alternates]
  | cons cur rest ih =>
    cases rest with
    | nil =>
      rw [hunksFrom]
      split <;> simp [hunksFrom, Alternates]
    | cons nxt rest' =>
      have hcur : isAllEmpty cur = false := h cur (by simp [List.dropLast])
      have ih' := ih cur (fun r hr => h r (by simp [List.dropLast] at hr ⊢; exact Or.inr hr))
      rw [hunksFrom, hcur]
      simp only [Bool.false_eq_true, if_false]
      refine ⟨?_, by simp⟩
      obtain ⟨ia, ib⟩ := ih'
      generalize hunksFrom cur (nxt :: rest') = tl at ia ib
      cases tl with
      | nil => simp [Alternates]
      | cons y ys =>
        have : y.kind = .different := ib y (by simp)
        simp [Alternates, this, ia]

theorem hunkRangesOf_alternates (regions : List Region) (h : interiorNonEmptyb regions = true) :
    Alternates (hunkRangesOf regions) := by
  cases regions with
  | nil => simp [hunkRangesOf, Alternates]
  | cons first rest =>
    simp only [interiorNonEmptyb, List.all_eq_true, Bool.not_eq_eq_eq_not, Bool.not_true] at h
    obtain ⟨ia, ib⟩ := hunksFrom_alternates rest first h
    rw [hunkRangesOf]
    split
    · exact ia
    · generalize hunksFrom first rest = tl at ia ib
      cases tl with
      | nil => simp [Alternates]
      | cons y ys =>
        have : y.kind = .different := ib y (by simp)
        simp [Alternates, this, ia]

theorem hunksFrom_nonempty (n : Nat) (len : Nat → Nat) (rest : List Region) (prev : Region)
    (hp : prev.length = n) (hr : ∀ r ∈ rest, r.length = n)
    (hch : ∀ i, i < n → chainOK (len i) (prev.getD i ⟨0, 0⟩).hi (side i rest) = true)
    (hc : compactedb (prev :: rest) = true) :
    ∀ h ∈ hunksFrom prev rest, isAllEmpty h.ranges = false := by
  induction rest generalizing prev with
  | nil => simp [hunksFrom]
  | cons cur rest ih =>
    have hcl : cur.length = n := hr cur (by simp)
    simp only [compactedb, Bool.and_eq_true, Bool.not_eq_eq_eq_not, Bool.not_true] at hc
    obtain ⟨hna, hc'⟩ := hc
    have hch' : ∀ i, i < n → chainOK (len i) (cur.getD i ⟨0, 0⟩).hi (side i rest) = true := by
      intro i hi
      have := hch i hi
      simp only [side, List.map_cons, chainOK, Bool.and_eq_true, decide_eq_true_eq] at this
      exact this.2
    have ih' := ih cur hcl (fun r h => hr r (by simp [h])) hch' hc'
    have hbetween : isAllEmpty (between prev cur) = false := by
      cases hb : isAllEmpty (between prev cur) with
      | false => rfl
      | true =>
        exfalso
        rw [isAllEmpty_between_iff] at hb
        have : adjacent prev cur = true := by
          rw [adjacent_iff]
          intro i h1 h2
          have h3 := hch i (by omega)
          simp only [side, List.map_cons, chainOK, Bool.and_eq_true, decide_eq_true_eq] at h3
          have := hb i h1 h2
          omega
        rw [this] at hna
        cases hna
    intro h hh
    rw [hunksFrom] at hh
    split at hh
    · simp only [List.mem_cons] at hh
      rcases hh with rfl | hh
      · exact hbetween
      · exact ih' h hh
    · rename_i hne
      simp only [List.mem_cons] at hh
      rcases hh with rfl | rfl | hh
      · exact hbetween
      · simpa using hne
      · exact ih' h hh

/-- Well-formed unchanged regions for the given inputs: every region has one range per input, and on
every side the ranges start at `0`, satisfy `lo ≤ hi`, do not overlap, are sorted, and the last one
ends at the input's length.  (`regionsWFb` is the same thing as a Boolean; the driver evaluates it
on the model's regions for every request of the correspondence run.) -/
structure RegionsWF (inputs : List Bytes) (regions : List Region) : Prop where
  arity : ∀ r ∈ regions, r.length = inputs.length
  sides : ∀ i, i < inputs.length → sideOK (inputs.getD i []).length (side i regions) = true

theorem regionsWF_iff (inputs : List Bytes) (regions : List Region) :
    RegionsWF inputs regions ↔ regionsWFb inputs regions = true := by
  simp only [regionsWFb, Bool.and_eq_true, List.all_eq_true, List.mem_range, beq_iff_eq]
  exact ⟨fun h => ⟨h.arity, h.sides⟩, fun h => ⟨h.1, h.2⟩⟩

instance (inputs : List Bytes) (regions : List Region) : Decidable (RegionsWF inputs regions) :=
  decidable_of_iff _ (regionsWF_iff inputs regions).symm

end JjModel.Diff
