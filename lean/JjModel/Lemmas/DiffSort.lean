import JjModel.Model.Diff
/-!
  `sortByFst`, `withSerialFrom`, `idxOfSerial`, `leftIndexByRightIndex`.
-/
namespace JjModel.Diff

theorem mem_insertByFst (x y : Nat × Nat) (l : List (Nat × Nat)) :
    y ∈ insertByFst x l ↔ y = x ∨ y ∈ l := by
  induction l with
  | nil => simp [insertByFst]
  | cons z zs ih =>
    rw [insertByFst]
    split
    · simp
    · simp only [List.mem_cons, ih]
      constructor
      · rintro (h | h | h) <;> simp [h]
      · rintro (h | h | h) <;> simp [h]

theorem mem_sortByFst (y : Nat × Nat) (l : List (Nat × Nat)) : y ∈ sortByFst l ↔ y ∈ l := by
  induction l with
  | nil => simp [sortByFst]
  | cons x xs ih =>
    have : sortByFst (x :: xs) = insertByFst x (sortByFst xs) := rfl
    rw [this, mem_insertByFst, ih]; simp

theorem length_insertByFst (x : Nat × Nat) (l : List (Nat × Nat)) :
    (insertByFst x l).length = l.length + 1 := by
  induction l with
  | nil => simp [insertByFst]
  | cons z zs ih =>
    rw [insertByFst]
    split <;> simp [ih]

theorem length_sortByFst (l : List (Nat × Nat)) : (sortByFst l).length = l.length := by
  induction l with
  | nil => simp [sortByFst]
  | cons x xs ih =>
    have : sortByFst (x :: xs) = insertByFst x (sortByFst xs) := rfl
    rw [this, length_insertByFst, ih]; simp

/-- strictly sorted by the first component -/
def StrictFst (l : List (Nat × Nat)) : Prop := l.Pairwise (fun a b => a.1 < b.1)

theorem insertByFst_strict (x : Nat × Nat) (l : List (Nat × Nat)) (h : StrictFst l)
    (hx : ∀ y ∈ l, y.1 ≠ x.1) : StrictFst (insertByFst x l) := by
  induction l with
  | nil => simp [insertByFst, StrictFst]
  | cons z zs ih =>
    unfold StrictFst at h ⊢
    rw [List.pairwise_cons] at h
    rw [insertByFst]
    split
    · rename_i hle
      have hne := hx z (by simp)
      have hlt : x.1 < z.1 := by omega
      rw [List.pairwise_cons, List.pairwise_cons]
      refine ⟨?_, h.1, h.2⟩
      intro y hy
      simp only [List.mem_cons] at hy
      rcases hy with rfl | hy
      · exact hlt
      · have := h.1 y hy; omega
    · rename_i hle
      rw [List.pairwise_cons]
      refine ⟨?_, ih h.2 (fun y hy => hx y (by simp [hy]))⟩
      intro y hy
      rw [mem_insertByFst] at hy
      rcases hy with rfl | hy
      · omega
      · exact h.1 y hy

theorem sortByFst_strict (l : List (Nat × Nat)) (h : (l.map Prod.fst).Nodup) :
    StrictFst (sortByFst l) := by
  induction l with
  | nil => simp [sortByFst, StrictFst]
  | cons x xs ih =>
    have e : sortByFst (x :: xs) = insertByFst x (sortByFst xs) := rfl
    simp only [List.map_cons, List.nodup_cons] at h
    rw [e]
    apply insertByFst_strict _ _ (ih h.2)
    intro y hy hyx
    rw [mem_sortByFst] at hy
    exact h.1 (by rw [← hyx]; exact List.mem_map_of_mem hy)

/-! ### serials -/

theorem mem_withSerialFrom (s : Nat) (l : List Nat) (p t : Nat) :
    (p, t) ∈ withSerialFrom s l ↔ ∃ k, l[k]? = some p ∧ t = s + k := by
  induction l generalizing s with
  | nil => simp [withSerialFrom]
  | cons x xs ih =>
    simp only [withSerialFrom, List.mem_cons, Prod.mk.injEq, ih]
    constructor
    · rintro (⟨rfl, rfl⟩ | ⟨k, hk, rfl⟩)
      · exact ⟨0, by simp, by simp⟩
      · exact ⟨k + 1, by simpa using hk, by omega⟩
    · rintro ⟨k, hk, rfl⟩
      cases k with
      | zero => left; simp at hk; simp [hk]
      | succ k => right; exact ⟨k, by simpa using hk, by omega⟩

theorem map_fst_withSerialFrom (s : Nat) (l : List Nat) : (withSerialFrom s l).map Prod.fst = l := by
  induction l generalizing s with
  | nil => rfl
  | cons x xs ih => simp [withSerialFrom, ih]

theorem length_withSerialFrom (s : Nat) (l : List Nat) : (withSerialFrom s l).length = l.length := by
  induction l generalizing s with
  | nil => rfl
  | cons x xs ih => simp [withSerialFrom, ih]

/-- a serial that occurs in `l` is found, at an index whose entry carries that serial -/
theorem idxOfSerial_spec (s : Nat) (l : List (Nat × Nat)) (h : ∃ p, (p, s) ∈ l) :
    ∃ p, l[idxOfSerial s l]? = some (p, s) := by
  induction l with
  | nil => simp at h
  | cons x xs ih =>
    obtain ⟨x1, x2⟩ := x
    rw [idxOfSerial]
    split
    · rename_i heq; subst heq; exact ⟨x1, by simp⟩
    · rename_i hne
      obtain ⟨p, hp⟩ := h
      simp only [List.mem_cons, Prod.mk.injEq] at hp
      rcases hp with ⟨_, rfl⟩ | hp
      · exact absurd rfl hne
      · obtain ⟨q, hq⟩ := ih ⟨p, hp⟩
        exact ⟨q, by simpa using hq⟩

end JjModel.Diff
