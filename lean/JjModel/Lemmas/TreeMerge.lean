import JjModel.Lemmas.Tree
/-!
  Lemmas about `mergeTreesF`: what the merged trees contain at one directory level, the shape of
  kept conflicts, single-tree path values.
-/
namespace JjModel.Trees
open JjModel.Merge
set_option linter.unusedSimpArgs false

/-! ### constant lists resolve to their value -/

theorem scount_const {α β : Type} [DecidableEq β] (l : List α) (x : β) (s : Int) (w : β) :
    scount (l.map (fun _ => x)) s w = if l.length % 2 = 1 then s * ind x w else 0 := by
  induction l generalizing s with
  | nil => simp [scount]
  | cons a l ih =>
    simp only [List.map_cons, scount, ih, List.length_cons]
    split <;> split <;> first | omega | (simp only [Int.neg_mul]; omega)

open JjModel.C02 in
theorem trivialMerge_const {α β : Type} [DecidableEq β] (l : List α) (x : β) (hodd : l.length % 2 = 1) (sc : SameChange) :
    trivialMerge (l.map (fun _ => x)) sc = some x := by
  rw [trivial_merge_spec _ (by simpa using hodd)]
  left
  have hc : ∀ w, count (l.map (fun _ => x)) w = ind x w := by
    intro w; rw [count_eq_scount, scount_const, if_pos hodd]; omega
  refine ⟨by rw [hc]; simp [ind], fun w hw => ?_⟩
  rw [hc] at hw
  by_cases h : x = w
  · exact h.symm
  · simp [ind, h] at hw

theorem mergeEntry_of_trivial (sc : SameChange) (cm : ContentMerge) (recur : List Tree → List Tree) (vals : MVal)
    (v : Option Value) (h : trivialMerge vals sc = some v) : mergeEntry sc cm recur vals = .resolved v := by
  simp [mergeEntry, h]

theorem trivialMerge_single {α : Type} [DecidableEq α] (x : α) (sc : SameChange) : trivialMerge [x] sc = some x := rfl

/-! ### one directory level of the merged trees -/

theorem lookupE_filterMap_names (names : List Nat) (hnd : names.Nodup) (g : Nat → Option Value) (k : Nat) :
    lookupE (names.filterMap (fun n => (g n).map (fun v => (n, v)))) k = if k ∈ names then g k else none := by
  induction names with
  | nil => simp [lookupE]
  | cons n names ih =>
    rw [List.nodup_cons] at hnd
    rw [List.filterMap_cons]
    cases hg : g n with
    | none =>
      simp only [Option.map_none, ih hnd.2, List.mem_cons]
      by_cases hk : k = n
      · subst hk; simp [hnd.1, hg]
      · simp [hk]
    | some v =>
      simp only [Option.map_some, lookupE, List.mem_cons]
      by_cases hk : n = k
      · subst hk; simp [hg]
      · simp [hk, ih hnd.2, Ne.symm hk]

theorem lookup_buildTree (names : List Nat) (hnd : names.Nodup) (E : Nat → Merged) (i k : Nat) :
    (buildTree (names.map (fun n => (n, E n))) i).lookup k = if k ∈ names then (E k).term i else none := by
  simp only [Tree.lookup, buildTree, entries_ofEntries, List.filterMap_map, Function.comp_def]
  exact lookupE_filterMap_names names hnd (fun n => (E n).term i) k

theorem valueAt_of_length (sc : SameChange) (ts : List Tree) (h : 1 < ts.length) (n : Nat) :
    valueAt sc ts n = match trivialMerge (ts.map (·.lookup n)) sc with
      | some v => [v]
      | none => ts.map (·.lookup n) := by
  match ts, h with
  | [], h => simp at h
  | [_], h => simp at h
  | _ :: _ :: _, _ => rfl

theorem markCompleted_conflict {sc : SameChange} {value c : MVal} (h : markCompleted sc value = .conflict c) :
    c = value ∧ trivialMerge value sc = none := by
  unfold markCompleted at h
  split at h
  · cases h
  · next hn => injection h with h; exact ⟨h.symm, hn⟩

theorem mergeEntry_conflict {sc : SameChange} {cm : ContentMerge} {recur : List Tree → List Tree} {vals c : MVal}
    (h : mergeEntry sc cm recur vals = .conflict c) :
    trivialMerge c sc = none ∧ trivialMerge vals sc = none ∧
      (c = vals ∨ (vals.all isTreeOrNone = true ∧ c = (recur (vals.map treeOrEmpty)).map treeToVal)) := by
  unfold mergeEntry at h
  split at h
  · cases h
  · next hv =>
    split at h
    · next hall =>
      obtain ⟨rfl, hn⟩ := markCompleted_conflict h
      exact ⟨hn, hv, Or.inr ⟨hall, rfl⟩⟩
    · split at h
      · obtain ⟨rfl, hn⟩ := markCompleted_conflict h
        simp [trivialMerge] at hn
      · obtain ⟨rfl, hn⟩ := markCompleted_conflict h
        exact ⟨hn, hv, Or.inl rfl⟩

theorem length_assemble (N : Nat) (es : List (Nat × Merged)) :
    (assemble N es).length = 1 ∨ (assemble N es).length = N := by
  unfold assemble; split <;> simp

theorem length_mergeTreesF (sc : SameChange) (cm : ContentMerge) (f : Nat) (ts : List Tree) :
    (mergeTreesF sc cm f ts).length = 1 ∨ (mergeTreesF sc cm f ts).length = ts.length := by
  cases f with
  | zero => left; rfl
  | succ f => exact length_assemble _ _

/-- a conflict kept for a basename has as many terms as the merge -/
theorem mergeEntry_conflict_length {sc : SameChange} {cm : ContentMerge} {f : Nat} {vals c : MVal}
    (h : mergeEntry sc cm (mergeTreesF sc cm f) vals = .conflict c) : c.length = vals.length := by
  obtain ⟨hc, _, rfl | ⟨_, rfl⟩⟩ := mergeEntry_conflict h
  · rfl
  · rcases length_mergeTreesF sc cm f (vals.map treeOrEmpty) with h1 | h1
    · -- a single result tree would have been trivially resolved
      match hs : mergeTreesF sc cm f (vals.map treeOrEmpty), h1 with
      | [t], _ => rw [hs] at hc; simp [trivialMerge] at hc
    · simpa using h1

theorem map_getElem?_range_join (c : MVal) : (List.range c.length).map (fun i => (c[i]?).join) = c := by
  apply List.ext_getElem?
  intro i
  by_cases h : i < c.length
  · simp [h]
  · simp [h, Nat.not_lt.mp h]

/-- **One level.** The merged trees, looked up at basename `n`, give exactly the per-entry merge of the
inputs' entries at `n`. -/
theorem valueAt_mergeTreesF (sc : SameChange) (cm : ContentMerge) (f : Nat) (ts : List Tree)
    (hodd : ts.length % 2 = 1) (hlen : 1 < ts.length) (n : Nat) :
    valueAt sc (mergeTreesF sc cm (f + 1) ts) n
      = (mergeEntry sc cm (mergeTreesF sc cm f) (ts.map (·.lookup n))).toMVal := by
  let E := fun n => mergeEntry sc cm (mergeTreesF sc cm f) (ts.map (·.lookup n))
  have hE : ∀ k, mergeEntry sc cm (mergeTreesF sc cm f) (ts.map (·.lookup k)) = E k := fun _ => rfl
  have hnd := nodup_allNames ts
  -- a name that occurs nowhere merges to "absent"
  have habsent : n ∉ allNames ts → E n = .resolved none := by
    intro hn
    have : ts.map (·.lookup n) = ts.map (fun _ => (none : Option Value)) :=
      List.map_congr_left (fun t ht => lookup_none_of_not_mem_allNames hn ht)
    simp only [E, this]
    exact mergeEntry_of_trivial _ _ _ _ _ (trivialMerge_const ts none hodd sc)
  simp only [mergeTreesF, hE, assemble]
  split
  · next hall =>
    -- no conflicts: a single tree
    simp only [valueAt, lookup_buildTree _ hnd]
    by_cases hn : n ∈ allNames ts
    · have : (E n).isConflict = false := by
        simp only [List.all_map, List.all_eq_true, Function.comp] at hall
        simpa using hall n hn
      cases hEn : E n with
      | resolved v => simp [hn, Merged.term, Merged.toMVal]
      | conflict c => simp [hEn, Merged.isConflict] at this
    · simp [hn, habsent hn, Merged.toMVal]
  · -- conflicts: one tree per term
    rw [valueAt_of_length _ _ (by simpa using hlen)]
    have hvals : ((List.range ts.length).map (buildTree ((allNames ts).map fun n => (n, E n)))).map (·.lookup n)
        = (List.range ts.length).map (fun i => if n ∈ allNames ts then (E n).term i else none) := by
      simp only [List.map_map, Function.comp_def, lookup_buildTree _ hnd]
    rw [hvals]
    have hrodd : (List.range ts.length).length % 2 = 1 := by simpa using hodd
    by_cases hn : n ∈ allNames ts
    · simp only [hn, if_true]
      cases hEn : E n with
      | resolved v =>
        simp only [Merged.term, Merged.toMVal]
        rw [trivialMerge_const _ v hrodd sc]
      | conflict c =>
        have hlenc : c.length = ts.length := by simpa using mergeEntry_conflict_length hEn
        have : (List.range ts.length).map (fun i => (Merged.conflict c).term i) = c := by
          rw [← hlenc]; exact map_getElem?_range_join c
        rw [this, (mergeEntry_conflict hEn).1]
        rfl
    · simp only [hn, if_false, habsent hn, Merged.toMVal]
      rw [trivialMerge_const _ none hrodd sc]

/-! ### path values -/

theorem getFrom_nontree (v : Option Value) (hv : ∀ t, v ≠ some (.tree t)) (n : Nat) (p : List Nat) :
    getFrom v (n :: p) = none := by
  rw [getFrom_cons]
  have : descend v n = none := by
    unfold descend
    split
    · next s => exact absurd rfl (hv s)
    · rfl
  rw [this, getFrom_none]

theorem get_single (t : Tree) (n : Nat) : t.get [n] = t.lookup n := rfl

/-- in a single tree `path_value` is the plain lookup -/
theorem pathValue_single (sc : SameChange) (t : Tree) (p : List Nat) (hp : p ≠ []) :
    pathValue sc [t] p = [t.get p] := by
  induction p generalizing t with
  | nil => exact absurd rfl hp
  | cons n p ih =>
    cases p with
    | nil => rfl
    | cons m q =>
      simp only [pathValue, subTree, valueAt]
      cases hl : t.lookup n with
      | none => simp [get_cons, hl]
      | some v =>
        cases v with
        | tree s => simp only [get_cons, hl]; exact ih s (by simp)
        | file id x => simp only [get_cons, hl]; rw [getFrom_nontree _ (by simp)]
        | symlink id => simp only [get_cons, hl]; rw [getFrom_nontree _ (by simp)]

/-- If the merge keeps conflicts, its result trees are not trivially resolvable as a whole. -/
theorem mergeTreesF_conflict_not_trivial (sc : SameChange) (cm : ContentMerge) (f : Nat) (ts : List Tree)
    (hodd : ts.length % 2 = 1) (hlen : 1 < ts.length)
    (hc : (mergeTreesF sc cm (f + 1) ts).length ≠ 1) :
    trivialMerge ((mergeTreesF sc cm (f + 1) ts).map treeToVal) sc = none := by
  have hlenR : (mergeTreesF sc cm (f + 1) ts).length = ts.length := by
    rcases length_mergeTreesF sc cm (f + 1) ts with h | h
    · exact absurd h hc
    · exact h
  cases htm : trivialMerge ((mergeTreesF sc cm (f + 1) ts).map treeToVal) sc with
  | none => rfl
  | some v =>
    exfalso
    -- some basename is a conflict
    have hex : ∃ n, ∃ c, mergeEntry sc cm (mergeTreesF sc cm f) (ts.map (·.lookup n)) = .conflict c := by
      apply Classical.byContradiction
      intro hno
      apply hc
      have hall : (((allNames ts).map fun n => (n, mergeEntry sc cm (mergeTreesF sc cm f) (ts.map (·.lookup n)))).all
          (fun e => !e.2.isConflict)) = true := by
        simp only [List.all_map, List.all_eq_true, Function.comp]
        intro n _
        cases hE : mergeEntry sc cm (mergeTreesF sc cm f) (ts.map (·.lookup n)) with
        | resolved v => rfl
        | conflict c => exact absurd ⟨n, c, hE⟩ hno
      simp only [mergeTreesF, assemble, hall, if_true, List.length_singleton]
    obtain ⟨n, c, hE⟩ := hex
    have h1 := valueAt_mergeTreesF sc cm f ts hodd hlen n
    rw [hE, valueAt_of_length _ _ (by omega)] at h1
    have hmap : (mergeTreesF sc cm (f + 1) ts).map (·.lookup n)
        = ((mergeTreesF sc cm (f + 1) ts).map treeToVal).map (fun v => descend v n) := by
      simp only [List.map_map, Function.comp_def, descend_treeToVal]
    rw [hmap, trivialMerge_map _ _ (by simpa [hlenR] using hodd) sc v htm] at h1
    have hl := mergeEntry_conflict_length hE
    have : c.length = 1 := by simp only [Merged.toMVal] at h1; rw [← h1]; rfl
    simp at hl; omega

end JjModel.Trees
