import JjModel.Model.Alias
/-!
  Termination of alias expansion (C36 `alias_expansion_terminates`).

  Measure of `expand … stack … e`: `e.size + remaining m stack * (maxDefn m + 2)`, where
  `remaining m stack` counts the alias ids of the map that are not on the recursion-detection
  stack.  `expandDefn` either finds the id on the stack (error) or pushes it, which makes
  `remaining` strictly smaller, so at most `m.ids.length` definitions are ever nested.
-/
namespace JjModel.Alias

theorem le_maxNat : ∀ {l : List Nat} {x : Nat}, x ∈ l → x ≤ maxNat l := by
  intro l
  induction l with
  | nil => intro x h; cases h
  | cons a l ih =>
    intro x h
    simp only [maxNat]
    cases h with
    | head => omega
    | tail _ h => have := ih h; omega

theorem getSymbol_mem : ∀ {l : List (Nat × Option Ast)} {x : Nat} {id : AliasId} {d : Option Ast},
    getSymbol l x = some (id, d) →
    id ∈ l.map (fun y => AliasId.symbol y.1) ∧ defnSize d ∈ l.map (fun y => defnSize y.2) := by
  intro l
  induction l with
  | nil => intro x id d h; simp [getSymbol] at h
  | cons a l ih =>
    intro x id d h
    obtain ⟨k, dd⟩ := a
    simp only [getSymbol] at h
    split at h
    · simp only [Option.some.injEq, Prod.mk.injEq] at h
      obtain ⟨h1, h2⟩ := h
      subst h1; subst h2; simp
    · have := ih h
      simp only [List.map_cons, List.mem_cons]
      exact ⟨Or.inr this.1, Or.inr this.2⟩

theorem getPattern_mem : ∀ {l : List (Nat × Nat × Option Ast)} {x : Nat} {id : AliasId} {p : Nat} {d : Option Ast},
    getPattern l x = some (id, p, d) →
    id ∈ l.map (fun y => AliasId.pattern y.1 y.2.1) ∧ defnSize d ∈ l.map (fun y => defnSize y.2.2) := by
  intro l
  induction l with
  | nil => intro x id p d h; simp [getPattern] at h
  | cons a l ih =>
    intro x id p d h
    obtain ⟨k, pp, dd⟩ := a
    simp only [getPattern] at h
    split at h
    · simp only [Option.some.injEq, Prod.mk.injEq] at h
      obtain ⟨h1, h2, h3⟩ := h
      subst h1; subst h2; subst h3; simp
    · have := ih h
      simp only [List.map_cons, List.mem_cons]
      exact ⟨Or.inr this.1, Or.inr this.2⟩

theorem getFunction_mem : ∀ {l : List (Nat × List Nat × Option Ast)} {x ar : Nat} {id : AliasId} {ps : List Nat} {d : Option Ast},
    getFunction l x ar = some (id, ps, d) →
    id ∈ l.map (fun y => AliasId.function y.1 y.2.1) ∧ defnSize d ∈ l.map (fun y => defnSize y.2.2) := by
  intro l
  induction l with
  | nil => intro x ar id ps d h; simp [getFunction] at h
  | cons a l ih =>
    intro x ar id ps d h
    obtain ⟨k, pp, dd⟩ := a
    simp only [getFunction] at h
    split at h
    · simp only [Option.some.injEq, Prod.mk.injEq] at h
      obtain ⟨h1, h2, h3⟩ := h
      subst h1; subst h2; subst h3; simp
    · have := ih h
      simp only [List.map_cons, List.mem_cons]
      exact ⟨Or.inr this.1, Or.inr this.2⟩

theorem symbol_ok {m : Aliases} {x : Nat} {id : AliasId} {d : Option Ast}
    (h : getSymbol m.symbols x = some (id, d)) : id ∈ m.ids ∧ defnSize d ≤ m.maxDefn := by
  have := getSymbol_mem h
  constructor
  · simp only [Aliases.ids, List.mem_append]; exact Or.inl (Or.inl this.1)
  · apply le_maxNat; simp only [List.mem_append]; exact Or.inl (Or.inl this.2)

theorem pattern_ok {m : Aliases} {x p : Nat} {id : AliasId} {d : Option Ast}
    (h : getPattern m.patterns x = some (id, p, d)) : id ∈ m.ids ∧ defnSize d ≤ m.maxDefn := by
  have := getPattern_mem h
  constructor
  · simp only [Aliases.ids, List.mem_append]; exact Or.inl (Or.inr this.1)
  · apply le_maxNat; simp only [List.mem_append]; exact Or.inl (Or.inr this.2)

theorem function_ok {m : Aliases} {x ar : Nat} {ps : List Nat} {id : AliasId} {d : Option Ast}
    (h : getFunction m.functions x ar = some (id, ps, d)) : id ∈ m.ids ∧ defnSize d ≤ m.maxDefn := by
  have := getFunction_mem h
  constructor
  · simp only [Aliases.ids, List.mem_append]; exact Or.inr this.1
  · apply le_maxNat; simp only [List.mem_append]; exact Or.inr this.2

/-- pushing an id that is in `l` and not on the stack removes at least one candidate -/
theorem filter_push_lt (id : AliasId) (stack : List AliasId) (hs : stack.contains id = false) :
    ∀ l : List AliasId,
      (l.filter fun i => !(id :: stack).contains i).length ≤ (l.filter fun i => !stack.contains i).length ∧
      (id ∈ l → (l.filter fun i => !(id :: stack).contains i).length < (l.filter fun i => !stack.contains i).length) := by
  intro l
  induction l with
  | nil => simp
  | cons a l ih =>
    by_cases ha : a = id
    · subst ha
      have e1 : (!(a :: stack).contains a) = false := by simp
      have e2 : (!stack.contains a) = true := by rw [hs]; rfl
      simp only [List.filter_cons, e1, e2, if_true, List.length_cons]
      constructor
      · have := ih.1; simp at this ⊢; omega
      · intro _; have := ih.1; simp at this ⊢; omega
    · have e1 : (!(id :: stack).contains a) = (!stack.contains a) := by
        simp only [List.contains_cons]
        have : (a == id) = false := by simpa using ha
        simp [this]
      simp only [List.filter_cons, e1]
      constructor
      · split
        · simp only [List.length_cons]; have := ih.1; omega
        · exact ih.1
      · intro hm
        have hm' : id ∈ l := by
          cases hm with
          | head => exact absurd rfl ha
          | tail _ h => exact h
        split
        · simp only [List.length_cons]; have := ih.2 hm'; omega
        · exact ih.2 hm'

theorem remaining_push {m : Aliases} {id : AliasId} {stack : List AliasId}
    (hid : id ∈ m.ids) (hs : stack.contains id = false) : remaining m (id :: stack) < remaining m stack :=
  (filter_push_lt id stack hs m.ids).2 hid

theorem remaining_le (m : Aliases) (stack : List AliasId) : remaining m stack ≤ m.ids.length := by
  simp only [remaining]; exact List.length_filter_le _ _

theorem Ast.size_pos (e : Ast) : 0 < e.size := by cases e <;> simp [Ast.size] <;> omega

theorem Ast.sizeList_pos (l : List Ast) : 0 < Ast.sizeList l := by cases l <;> simp [Ast.sizeList] <;> omega

/-- the three mutually recursive functions never run out of fuel above their measure -/
theorem expand_no_oof (m : Aliases) : ∀ n : Nat,
    (∀ stack locals e, e.size + remaining m stack * (m.maxDefn + 2) < n → expand m n stack locals e ≠ .oof) ∧
    (∀ stack locals l, Ast.sizeList l + remaining m stack * (m.maxDefn + 2) ≤ n → expandList m n stack locals l ≠ .oof) ∧
    (∀ stack id defn locals, id ∈ m.ids → defnSize defn ≤ m.maxDefn → 0 < n →
       remaining m stack * (m.maxDefn + 2) ≤ n → expandDefn m n stack id defn locals ≠ .oof) := by
  intro n
  induction n with
  | zero =>
    refine ⟨fun _ _ _ h => by omega, ?_, fun _ _ _ _ _ _ h _ => by omega⟩
    intro stack locals l h
    cases l <;> simp [Ast.sizeList] at h <;> omega
  | succ n ih =>
    obtain ⟨ih1, ih2, ih3⟩ := ih
    refine ⟨?_, ?_, ?_⟩
    · intro stack locals e h
      cases e with
      | ident x =>
        simp only [Ast.size] at h
        simp only [expand]
        split
        · simp
        · split
          · rename_i id defn hg
            have := symbol_ok hg
            exact ih3 stack id defn [] this.1 this.2 (by omega) (by omega)
          · simp
      | pat name value =>
        simp only [Ast.size] at h
        simp only [expand]
        have hv := ih1 stack locals value (by omega)
        split
        · rename_i id param defn hg
          have := pattern_ok hg
          generalize hr : expand m n stack locals value = r at hv
          cases r with
          | oof => exact absurd rfl hv
          | err t e => simp
          | ok arg => simp only; exact ih3 stack id defn _ this.1 this.2 (by have := Ast.size_pos value; omega) (by omega)
        · generalize hr : expand m n stack locals value = r at hv
          cases r with
          | oof => exact absurd rfl hv
          | err t e => simp
          | ok arg => simp
      | call name args =>
        simp only [Ast.size] at h
        simp only [expand]
        have hl := ih2 stack locals args (by omega)
        have hpos : 0 < Ast.sizeList args := by cases args <;> simp [Ast.sizeList] <;> omega
        split
        · split
          · simp
          · rename_i id params defn hg
            have := function_ok hg
            generalize hr : expandList m n stack locals args = r at hl
            cases r with
            | oof => exact absurd rfl hl
            | err t e => simp
            | ok args' => simp only; exact ih3 stack id defn _ this.1 this.2 (by omega) (by omega)
        · generalize hr : expandList m n stack locals args = r at hl
          cases r with
          | oof => exact absurd rfl hl
          | err t e => simp
          | ok args' => simp
      | bin l r =>
        simp only [Ast.size] at h
        simp only [expand]
        have hl := ih1 stack locals l (by omega)
        have hr' := ih1 stack locals r (by omega)
        generalize hq : expand m n stack locals l = q at hl
        cases q with
        | oof => exact absurd rfl hl
        | err t e => simp
        | ok l' =>
          simp only
          generalize hq2 : expand m n stack locals r = q2 at hr'
          cases q2 with
          | oof => exact absurd rfl hr'
          | err t e => simp
          | ok r' => simp
      | expanded id subst =>
        simp only [Ast.size] at h
        simp only [expand]
        have hs := ih1 stack locals subst (by omega)
        generalize hq : expand m n stack locals subst = q at hs
        cases q with
        | oof => exact absurd rfl hs
        | err t e => simp
        | ok s' => simp
    · intro stack locals l h
      cases l with
      | nil => simp [expandList]
      | cons a as =>
        simp only [Ast.sizeList] at h
        simp only [expandList]
        have hp := Ast.sizeList_pos as
        have ha := ih1 stack locals a (by omega)
        have has := ih2 stack locals as (by omega)
        generalize hq : expand m n stack locals a = q at ha
        cases q with
        | oof => exact absurd rfl ha
        | err t e => simp
        | ok a' =>
          simp only
          generalize hq2 : expandList m n stack locals as = q2 at has
          cases q2 with
          | oof => exact absurd rfl has
          | err t e => simp
          | ok as' => simp
    · intro stack id defn locals hid hd _ h
      simp only [expandDefn]
      split
      · simp
      · rename_i hc
        have hc' : stack.contains id = false := by simpa using hc
        have hrem := remaining_push hid hc'
        cases defn with
        | none => simp
        | some d =>
          simp only
          simp only [defnSize] at hd
          have h2 : (remaining m (id :: stack) + 1) * (m.maxDefn + 2) ≤ remaining m stack * (m.maxDefn + 2) :=
            Nat.mul_le_mul_right _ hrem
          rw [Nat.succ_mul] at h2
          have hd' := ih1 (id :: stack) locals d (by omega)
          generalize hq : expand m n (id :: stack) locals d = q at hd'
          cases q with
          | oof => exact absurd rfl hd'
          | err t e => simp
          | ok a => simp

end JjModel.Alias
