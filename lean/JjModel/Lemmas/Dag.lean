import JjModel.Model.Dag
/-!
  Lemmas about the commit-DAG model: the memo table, the ancestor relation `Anc` (reflexive
  transitive closure of the parent relation) and its executable decision `isAnc`, `descFilter`,
  `headsOf`, `rootsOf`.
-/
namespace JjModel.Dag

/-! ### memo table -/
section memo
variable {β : Type}

@[simp] theorem memo_length (f : List β → Nat → β) (k : Nat) : (memo f k).length = k := by
  induction k with
  | zero => rfl
  | succ k ih => simp [memo, ih]

theorem memo_getElem? (f : List β → Nat → β) {i k : Nat} (h : i < k) :
    (memo f k)[i]? = some (f (memo f i) i) := by
  induction k with
  | zero => omega
  | succ k ih =>
    simp only [memo]
    by_cases hik : i < k
    · rw [List.getElem?_append_left (by simpa using hik)]; exact ih hik
    · have : i = k := by omega
      subst this
      rw [List.getElem?_append_right (by simp)]
      simp

theorem memo_getD (f : List β → Nat → β) {i k : Nat} (h : i < k) (d : β) :
    (memo f k).getD i d = f (memo f i) i := by
  simp [List.getD_eq_getElem?_getD, memo_getElem? f h]

theorem memo_getD_ge (f : List β → Nat → β) {i k : Nat} (h : k ≤ i) (d : β) :
    (memo f k).getD i d = d := by
  have : (memo f k)[i]? = none := List.getElem?_eq_none (by simpa using h)
  simp [List.getD_eq_getElem?_getD, this]

end memo

/-! ### duplicate-free union -/

theorem mem_insertNew {x y : Nat} {l : List Nat} : x ∈ insertNew y l ↔ x ∈ l ∨ x = y := by
  unfold insertNew
  split
  · rename_i h
    have : y ∈ l := by simpa using h
    constructor
    · intro hx; exact Or.inl hx
    · rintro (hx | hx)
      · exact hx
      · subst hx; exact this
  · simp

theorem mem_unionNew {x : Nat} {l m : List Nat} : x ∈ unionNew l m ↔ x ∈ l ∨ x ∈ m := by
  induction m generalizing l with
  | nil => simp [unionNew]
  | cons y ys ih =>
    simp only [unionNew, ih, mem_insertNew, List.mem_cons]
    constructor
    · rintro ((h | h) | h)
      · exact Or.inl h
      · exact Or.inr (Or.inl h)
      · exact Or.inr (Or.inr h)
    · rintro (h | h | h)
      · exact Or.inl (Or.inl h)
      · exact Or.inl (Or.inr h)
      · exact Or.inr h

theorem mem_foldl_unionNew {x : Nat} (g : Nat → List Nat) (ps : List Nat) (acc : List Nat) :
    x ∈ ps.foldl (fun acc p => unionNew acc (g p)) acc ↔ x ∈ acc ∨ ∃ p ∈ ps, x ∈ g p := by
  induction ps generalizing acc with
  | nil => simp
  | cons p ps ih =>
    simp only [List.foldl_cons, ih, mem_unionNew, List.mem_cons]
    constructor
    · rintro ((h | h) | ⟨q, hq, h⟩)
      · exact Or.inl h
      · exact Or.inr ⟨p, Or.inl rfl, h⟩
      · exact Or.inr ⟨q, Or.inr hq, h⟩
    · rintro (h | ⟨q, hq | hq, h⟩)
      · exact Or.inl (Or.inl h)
      · subst hq; exact Or.inl (Or.inr h)
      · exact Or.inr ⟨q, hq, h⟩

theorem mem_ancRow {G : Graph} {t : List (List Nat)} {i x : Nat} :
    x ∈ ancRow G t i ↔ x = i ∨ ∃ p ∈ parents G i, x ∈ t.getD p [] := by
  unfold ancRow
  rw [mem_foldl_unionNew (fun p => t.getD p [])]
  simp

/-! ### ancestry -/

/-- `Anc G a d`: `a` is `d` or an ancestor of `d` -/
inductive Anc (G : Graph) : Nat → Nat → Prop
  | refl (a : Nat) : Anc G a a
  | step {a p d : Nat} : p ∈ parents G d → Anc G a p → Anc G a d

/-- parents have smaller positions than their children -/
def WF (G : Graph) : Prop := ∀ i p, p ∈ parents G i → p < i

theorem parents_of_ge {G : Graph} {i : Nat} (h : G.length ≤ i) : parents G i = [] := by
  simp [parents, List.getD_eq_getElem?_getD, List.getElem?_eq_none h]

theorem wfB_iff {G : Graph} : wfB G = true ↔ WF G := by
  unfold wfB WF
  simp only [List.all_eq_true, List.mem_range, decide_eq_true_eq]
  constructor
  · intro h i p hp
    by_cases hi : i < G.length
    · exact h i hi p hp
    · rw [parents_of_ge (by omega)] at hp; cases hp
  · intro h i _ p hp; exact h i p hp

theorem Anc.trans {G : Graph} {a b c : Nat} (h1 : Anc G a b) (h2 : Anc G b c) : Anc G a c := by
  induction h2 with
  | refl => exact h1
  | step hp _ ih => exact Anc.step hp ih

theorem Anc.le {G : Graph} (hwf : WF G) {a d : Nat} (h : Anc G a d) : a ≤ d := by
  induction h with
  | refl => exact Nat.le_refl _
  | step hp _ ih => have := hwf _ _ hp; omega

theorem Anc.parent {G : Graph} {p d : Nat} (h : p ∈ parents G d) : Anc G p d :=
  Anc.step h (Anc.refl p)

theorem anc_iff {G : Graph} {a d : Nat} : Anc G a d ↔ a = d ∨ ∃ p ∈ parents G d, Anc G a p := by
  constructor
  · intro h
    cases h with
    | refl => exact Or.inl rfl
    | step hp h' => exact Or.inr ⟨_, hp, h'⟩
  · rintro (h | ⟨p, hp, h⟩)
    · subst h; exact Anc.refl _
    · exact Anc.step hp h

theorem Anc.antisymm {G : Graph} (hwf : WF G) {a d : Nat} (h1 : Anc G a d) (h2 : Anc G d a) : a = d := by
  have := h1.le hwf; have := h2.le hwf; omega

/-- rows of the memo table are the ancestor sets -/
theorem mem_ancTable_row {G : Graph} (hwf : WF G) (k : Nat) :
    ∀ i, i < k → ∀ x, x ∈ (memo (ancRow G) k).getD i [] ↔ Anc G x i := by
  intro i
  induction i using Nat.strongRecOn generalizing k with
  | _ i ih =>
    intro hik x
    rw [memo_getD _ hik, mem_ancRow, anc_iff]
    constructor
    · rintro (h | ⟨p, hp, h⟩)
      · exact Or.inl h
      · exact Or.inr ⟨p, hp, (ih p (hwf _ _ hp) i (hwf _ _ hp) x).1 h⟩
    · rintro (h | ⟨p, hp, h⟩)
      · exact Or.inl h
      · exact Or.inr ⟨p, hp, (ih p (hwf _ _ hp) i (hwf _ _ hp) x).2 h⟩

/-- the executable ancestry test decides `Anc` -/
theorem isAnc_iff {G : Graph} (hwf : WF G) {a d : Nat} : isAnc (ancTable G) a d = true ↔ Anc G a d := by
  unfold isAnc ancTable
  by_cases hd : d < G.length
  · simp only [Bool.or_eq_true, beq_iff_eq, List.contains_iff_mem, mem_ancTable_row hwf _ d hd]
    constructor
    · rintro (h | h)
      · subst h; exact Anc.refl _
      · exact h
    · intro h; exact Or.inr h
  · rw [memo_getD_ge _ (by omega)]
    simp only [List.contains_nil, Bool.or_false, beq_iff_eq]
    constructor
    · intro h; subst h; exact Anc.refl _
    · intro h
      rcases anc_iff.1 h with h | ⟨p, hp, _⟩
      · exact h
      · rw [parents_of_ge (by omega)] at hp; cases hp

theorem isAnc_refl (A : List (List Nat)) (a : Nat) : isAnc A a a = true := by simp [isAnc]

theorem isAncOfAny_iff {G : Graph} (hwf : WF G) {X : List Nat} {a : Nat} :
    isAncOfAny (ancTable G) X a = true ↔ ∃ x ∈ X, Anc G a x := by
  simp [isAncOfAny, isAnc_iff hwf]

theorem isAncOfAny_of_mem (A : List (List Nat)) {X : List Nat} {a : Nat} (h : a ∈ X) :
    isAncOfAny A X a = true := by
  simp only [isAncOfAny, List.any_eq_true]
  exact ⟨a, h, isAnc_refl A a⟩

/-! ### descending filters -/

theorem mem_descFilter {n : Nat} {p : Nat → Bool} {x : Nat} :
    x ∈ descFilter n p ↔ x < n ∧ p x = true := by
  simp [descFilter]

theorem range_reverse_pairwise (n : Nat) : ((List.range n).reverse).Pairwise (· > ·) := by
  rw [List.pairwise_reverse]
  have := List.pairwise_lt_range (n := n)
  exact this.imp (fun h => h)

theorem descFilter_pairwise (n : Nat) (p : Nat → Bool) : (descFilter n p).Pairwise (· > ·) :=
  (range_reverse_pairwise n).filter _

theorem descFilter_nodup (n : Nat) (p : Nat → Bool) : (descFilter n p).Nodup :=
  (descFilter_pairwise n p).imp (fun h => by omega)

theorem descFilter_sub {n : Nat} {p q : Nat → Bool} (h : ∀ x, x < n → p x = true → q x = true) :
    ∀ x, x ∈ descFilter n p → x ∈ descFilter n q := by
  intro x hx
  rw [mem_descFilter] at *
  exact ⟨hx.1, h x hx.1 hx.2⟩

theorem mem_headsOf {G : Graph} (hwf : WF G) {n : Nat} {X : List Nat} {x : Nat} :
    x ∈ headsOf (ancTable G) n X ↔ x < n ∧ x ∈ X ∧ ∀ y ∈ X, Anc G x y → y = x := by
  unfold headsOf
  rw [mem_descFilter]
  simp only [Bool.and_eq_true, List.contains_iff_mem, Bool.not_eq_true', List.any_eq_false,
    bne_iff_ne, ne_eq, Bool.and_eq_true, isAnc_iff hwf, not_and]
  constructor
  · rintro ⟨h1, h2, h3⟩
    refine ⟨h1, h2, fun y hy ha => ?_⟩
    by_cases hyx : y = x
    · exact hyx
    · exact absurd ha (h3 y hy hyx)
  · rintro ⟨h1, h2, h3⟩
    exact ⟨h1, h2, fun y hy hne ha => hne (h3 y hy ha)⟩

theorem mem_rootsOf {G : Graph} (hwf : WF G) {n : Nat} {X : List Nat} {x : Nat} :
    x ∈ rootsOf (ancTable G) n X ↔ x < n ∧ x ∈ X ∧ ∀ y ∈ X, Anc G y x → y = x := by
  unfold rootsOf
  rw [mem_descFilter]
  simp only [Bool.and_eq_true, List.contains_iff_mem, Bool.not_eq_true', List.any_eq_false,
    bne_iff_ne, ne_eq, Bool.and_eq_true, isAnc_iff hwf, not_and]
  constructor
  · rintro ⟨h1, h2, h3⟩
    refine ⟨h1, h2, fun y hy ha => ?_⟩
    by_cases hyx : y = x
    · exact hyx
    · exact absurd ha (h3 y hy hyx)
  · rintro ⟨h1, h2, h3⟩
    exact ⟨h1, h2, fun y hy hne ha => hne (h3 y hy ha)⟩

/-- every element of `X` (below `n`) has a descendant-or-self among the heads of `X` -/
theorem exists_head_above {G : Graph} (hwf : WF G) {n : Nat} {X : List Nat} (hX : ∀ x ∈ X, x < n) :
    ∀ x ∈ X, ∃ h ∈ headsOf (ancTable G) n X, Anc G x h := by
  intro x
  -- induction on the distance to `n`
  generalize hk : n - x = k
  induction k using Nat.strongRecOn generalizing x with
  | _ k ih =>
    intro hx
    by_cases hh : ∀ y ∈ X, Anc G x y → y = x
    · exact ⟨x, (mem_headsOf hwf).2 ⟨hX x hx, hx, hh⟩, Anc.refl x⟩
    · have : ∃ y, y ∈ X ∧ Anc G x y ∧ y ≠ x := by
        apply Classical.byContradiction
        intro hne
        apply hh
        intro y hy ha
        apply Classical.byContradiction
        intro hyx
        exact hne ⟨y, hy, ha, hyx⟩
      obtain ⟨y, hy, ha, hyx⟩ := this
      have hle := ha.le hwf
      have hyn := hX y hy
      have hxn := hX x hx
      obtain ⟨h, hh', hah⟩ := ih (n - y) (by omega) y rfl hy
      exact ⟨h, hh', ha.trans hah⟩

/-- every element of `X` (below `n`) has an ancestor-or-self among the roots of `X` -/
theorem exists_root_below {G : Graph} (hwf : WF G) {n : Nat} {X : List Nat} (hX : ∀ x ∈ X, x < n) :
    ∀ x ∈ X, ∃ r ∈ rootsOf (ancTable G) n X, Anc G r x := by
  intro x
  induction x using Nat.strongRecOn with
  | _ x ih =>
    intro hx
    by_cases hh : ∀ y ∈ X, Anc G y x → y = x
    · exact ⟨x, (mem_rootsOf hwf).2 ⟨hX x hx, hx, hh⟩, Anc.refl x⟩
    · have : ∃ y, y ∈ X ∧ Anc G y x ∧ y ≠ x := by
        apply Classical.byContradiction
        intro hne
        apply hh
        intro y hy ha
        apply Classical.byContradiction
        intro hyx
        exact hne ⟨y, hy, ha, hyx⟩
      obtain ⟨y, hy, ha, hyx⟩ := this
      have hle := ha.le hwf
      obtain ⟨r, hr, har⟩ := ih y (by omega) hy
      exact ⟨r, hr, har.trans ha⟩

end JjModel.Dag
