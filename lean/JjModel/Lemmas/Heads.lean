import JjModel.Model.Heads
/-!
  Lemmas for C10 about head-set normalisation (`Model/Heads.lean`): `Index::heads` keeps the maximal
  candidates and covers every candidate; `View::normalize_heads` specification; the incremental
  `replace_heads` fast path of `MutableRepo::add_heads`.
-/
namespace JjModel.Heads

/-- `anc` is a partial order (the index's `is_ancestor` on the commits of the repo) -/
structure PO (anc : Nat → Nat → Bool) : Prop where
  refl : ∀ a, anc a a = true
  trans : ∀ a b c, anc a b = true → anc b c = true → anc a c = true
  antisymm : ∀ a b, anc a b = true → anc b a = true → a = b

theorem mem_setInsert (x y : Nat) (s : List Nat) : y ∈ setInsert x s ↔ y = x ∨ y ∈ s := by
  unfold setInsert
  split
  · rename_i h; simp at h; constructor
    · exact Or.inr
    · rintro (rfl | h') <;> assumption
  · simp [or_comm]

theorem mem_setRemove (x y : Nat) (s : List Nat) : y ∈ setRemove x s ↔ y ∈ s ∧ y ≠ x := by
  simp [setRemove]

theorem nodup_setInsert (x : Nat) (s : List Nat) (h : s.Nodup) : (setInsert x s).Nodup := by
  unfold setInsert
  split
  · exact h
  · rename_i hc; simp at hc
    rw [List.nodup_append]
    refine ⟨h, by simp, ?_⟩
    intro a ha b hb
    simp at hb; subst hb
    rintro rfl; exact hc ha

theorem nodup_setRemove (x : Nat) (s : List Nat) (h : s.Nodup) : (setRemove x s).Nodup :=
  List.Nodup.sublist List.filter_sublist h

variable (anc : Nat → Nat → Bool)

theorem mem_indexHeads (cs : List Nat) (x : Nat) :
    x ∈ indexHeads anc cs ↔ x ∈ cs ∧ ∀ d ∈ cs, anc x d = true → d = x := by
  simp only [indexHeads, List.mem_filter, Bool.not_eq_eq_eq_not, Bool.not_true, List.any_eq_false,
    Bool.and_eq_true, bne_iff_ne, ne_eq, not_and, Bool.not_eq_true]
  constructor
  · rintro ⟨h1, h2⟩
    refine ⟨h1, fun d hd ha => ?_⟩
    by_cases hdx : d = x
    · exact hdx
    · have := h2 d hd hdx; rw [ha] at this; cases this
  · rintro ⟨h1, h2⟩
    refine ⟨h1, fun d hd hdx => ?_⟩
    cases ha : anc x d
    · rfl
    · exact absurd (h2 d hd ha) hdx

theorem length_filter_le {α : Type} (l : List α) (p q : α → Bool) (hpq : ∀ a ∈ l, p a = true → q a = true) :
    (l.filter p).length ≤ (l.filter q).length := by
  induction l with
  | nil => simp
  | cons c l ih =>
    have h1 := ih (fun a ha => hpq a (List.mem_cons_of_mem _ ha))
    have h2 := hpq c (by simp)
    simp only [List.filter_cons]
    cases hp : p c <;> cases hq : q c <;> simp_all <;> omega

theorem length_filter_lt {α : Type} (l : List α) (p q : α → Bool) (hpq : ∀ a ∈ l, p a = true → q a = true)
    (hex : ∃ a ∈ l, q a = true ∧ p a = false) : (l.filter p).length < (l.filter q).length := by
  induction l with
  | nil => obtain ⟨a, ha, _⟩ := hex; cases ha
  | cons b l ih =>
    have hle := length_filter_le l p q (fun a ha => hpq a (List.mem_cons_of_mem _ ha))
    obtain ⟨a, ha, hqa, hpa⟩ := hex
    simp only [List.filter_cons]
    rcases List.mem_cons.mp ha with rfl | ha'
    · rw [hqa, hpa]; simp; omega
    · have := ih (fun a ha => hpq a (List.mem_cons_of_mem _ ha)) ⟨a, ha', hqa, hpa⟩
      have h2 := hpq b (by simp)
      cases hp : p b <;> cases hq : q b <;> simp_all <;> omega

/-- every candidate is below (or equal to) a maximal candidate -/
theorem indexHeads_covers (hpo : PO anc) (cs : List Nat) (x : Nat) (hx : x ∈ cs) :
    ∃ h ∈ indexHeads anc cs, anc x h = true := by
  generalize hn : (cs.filter fun d => d != x && anc x d).length = n
  induction n using Nat.strongRecOn generalizing x with
  | _ n ih =>
    by_cases hmax : x ∈ indexHeads anc cs
    · exact ⟨x, hmax, hpo.refl x⟩
    · have : ∃ d ∈ cs, anc x d = true ∧ d ≠ x := by
        simp only [indexHeads, List.mem_filter, hx, true_and, Bool.not_eq_eq_eq_not, Bool.not_true,
          List.any_eq_false, Bool.and_eq_true, bne_iff_ne, ne_eq, not_and, Bool.not_eq_true] at hmax
        apply Classical.byContradiction
        intro hne
        apply hmax
        intro d hd hdx
        cases ha : anc x d
        · rfl
        · exact absurd ⟨d, hd, ha, hdx⟩ hne
      obtain ⟨d, hd, had, hdx⟩ := this
      have hlt : (cs.filter fun e => e != d && anc d e).length < n := by
        rw [← hn]
        apply length_filter_lt
        · intro a _ ha
          simp only [Bool.and_eq_true, bne_iff_ne, ne_eq] at ha ⊢
          refine ⟨?_, hpo.trans _ _ _ had ha.2⟩
          rintro rfl
          exact hdx (hpo.antisymm _ _ ha.2 had)
        · exact ⟨d, hd, by simp [hdx, had], by simp⟩
      obtain ⟨h, hh, hdh⟩ := ih _ hlt d hd rfl
      exact ⟨h, hh, hpo.trans _ _ _ had hdh⟩

/-- a normalized head set: non-empty, duplicate-free, an antichain, root only alone -/
structure Normal (root : Nat) (hs : List Nat) : Prop where
  nonempty : hs ≠ []
  nodup : hs.Nodup
  antichain : ∀ x ∈ hs, ∀ y ∈ hs, anc x y = true → x = y
  rootAlone : root ∈ hs → hs = [root]

theorem nodup_indexHeads (cs : List Nat) (h : cs.Nodup) : (indexHeads anc cs).Nodup :=
  List.Nodup.sublist List.filter_sublist h

/-- **`normalize_heads_spec`**: for a non-empty duplicate-free head set, `View::normalize_heads`
keeps exactly the maximal elements (the root is below everything, so it survives only alone). -/
theorem normalize_heads_spec (hpo : PO anc) (root : Nat) (hs : List Nat)
    (hroot : ∀ x ∈ hs, anc root x = true) (hne : hs ≠ []) (hnd : hs.Nodup) (x : Nat) :
    x ∈ normalizeHeadIds anc root hs ↔ x ∈ hs ∧ ∀ d ∈ hs, anc x d = true → d = x := by
  unfold normalizeHeadIds
  have he : hs.isEmpty = false := by cases hs <;> simp_all
  rw [he]; simp only [Bool.false_eq_true, if_false]
  split
  · rename_i hlen
    rw [mem_indexHeads]
    simp only [mem_setRemove]
    constructor
    · rintro ⟨⟨h1, h2⟩, h3⟩
      refine ⟨h1, fun d hd ha => ?_⟩
      by_cases hdr : d = root
      · subst hdr; exact absurd (hpo.antisymm _ _ ha (hroot x h1)) h2
      · exact h3 d ⟨hd, hdr⟩ ha
    · rintro ⟨h1, h2⟩
      refine ⟨⟨h1, ?_⟩, fun d hd ha => h2 d hd.1 ha⟩
      rintro rfl
      -- some other element exists
      match hs, hlen, hnd, h1, h2, hroot with
      | [a], hlen, _, _, _, _ => simp at hlen
      | a :: b :: rest, _, hnd, h1, h2, hroot =>
        have hab : a ≠ b := by intro e; subst e; simp at hnd
        by_cases hxa : x = a
        · subst hxa; exact hab (h2 b (by simp) (hroot b (by simp))).symm
        · exact hxa (h2 a (by simp) (hroot a (by simp))).symm
  · rename_i hlen
    match hs, hne, hlen with
    | [a], _, _ =>
      simp only [List.mem_singleton]
      constructor
      · rintro rfl; exact ⟨rfl, fun d hd _ => hd⟩
      · exact fun h => h.1
    | a :: b :: rest, _, hlen => simp at hlen

theorem normalizeHeadIds_nil (root : Nat) : normalizeHeadIds anc root [] = [root] := rfl

theorem nodup_normalizeHeadIds (root : Nat) (hs : List Nat) (hnd : hs.Nodup) :
    (normalizeHeadIds anc root hs).Nodup := by
  unfold normalizeHeadIds
  split
  · simp
  · split
    · exact nodup_indexHeads anc _ (nodup_setRemove _ _ hnd)
    · exact hnd

/-- the result of `normalize_heads` is a normalized head set -/
theorem normal_normalizeHeadIds (hpo : PO anc) (root : Nat) (hs : List Nat)
    (hroot : ∀ x ∈ hs, anc root x = true) (hnd : hs.Nodup) : Normal anc root (normalizeHeadIds anc root hs) := by
  by_cases hne : hs = []
  · subst hne
    exact ⟨by simp [normalizeHeadIds], by simp [normalizeHeadIds],
      by simp [normalizeHeadIds], by simp [normalizeHeadIds]⟩
  have spec := normalize_heads_spec anc hpo root hs hroot hne hnd
  have hcov : ∀ x ∈ hs, ∃ h ∈ normalizeHeadIds anc root hs, anc x h = true := by
    intro x hx
    obtain ⟨h, hh, hxh⟩ := indexHeads_covers anc hpo hs x hx
    exact ⟨h, (spec h).mpr ((mem_indexHeads anc hs h).mp hh), hxh⟩
  refine ⟨?_, nodup_normalizeHeadIds anc root hs hnd, ?_, ?_⟩
  · obtain ⟨a, ha⟩ := List.exists_mem_of_ne_nil hs hne
    obtain ⟨h, hh, _⟩ := hcov a ha
    exact List.ne_nil_of_mem hh
  · intro x hx y hy hxy
    exact ((spec x).mp hx).2 y ((spec y).mp hy).1 hxy |>.symm
  · intro hr
    have hmax := ((spec root).mp hr).2
    -- every element equals root
    have hall : ∀ y ∈ normalizeHeadIds anc root hs, y = root :=
      fun y hy => hmax y ((spec y).mp hy).1 (hroot y ((spec y).mp hy).1)
    have hnd' := nodup_normalizeHeadIds anc root hs hnd
    generalize normalizeHeadIds anc root hs = l at hr hall hnd'
    match l, hr, hall, hnd' with
    | [a], hr, hall, _ => simp at hr; rw [hr]
    | a :: b :: rest, _, hall, hnd' =>
      have h1 := hall a (by simp); have h2 := hall b (by simp)
      subst h1; subst h2; simp at hnd'

/-- everything that was (ancestor-or-equal of) a head candidate is below a normalized head -/
theorem normalizeHeadIds_covers (hpo : PO anc) (root : Nat) (hs : List Nat)
    (hroot : ∀ x ∈ hs, anc root x = true) (hnd : hs.Nodup) (x : Nat) (hx : x ∈ hs) :
    ∃ h ∈ normalizeHeadIds anc root hs, anc x h = true := by
  have hne : hs ≠ [] := List.ne_nil_of_mem hx
  have spec := normalize_heads_spec anc hpo root hs hroot hne hnd
  obtain ⟨h, hh, hxh⟩ := indexHeads_covers anc hpo hs x hx
  exact ⟨h, (spec h).mpr ((mem_indexHeads anc hs h).mp hh), hxh⟩

theorem normalizeHeadIds_subset (root : Nat) (hs : List Nat) (hne : hs ≠ []) (x : Nat)
    (hx : x ∈ normalizeHeadIds anc root hs) : x ∈ hs := by
  unfold normalizeHeadIds at hx
  have he : hs.isEmpty = false := by cases hs <;> simp_all
  rw [he] at hx; simp only [Bool.false_eq_true, if_false] at hx
  split at hx
  · exact ((mem_setRemove _ _ _).mp (List.mem_filter.mp hx).1).1
  · exact hx

/-- a normalized head set is a fixpoint of `normalize_heads` (as a set) -/
theorem normalizeHeadIds_of_normal (hpo : PO anc) (root : Nat) (hs : List Nat)
    (hroot : ∀ x ∈ hs, anc root x = true) (hn : Normal anc root hs) (x : Nat) :
    x ∈ normalizeHeadIds anc root hs ↔ x ∈ hs := by
  rw [normalize_heads_spec anc hpo root hs hroot hn.nonempty hn.nodup]
  constructor
  · exact fun h => h.1
  · exact fun h => ⟨h, fun d hd ha => (hn.antichain x h d hd ha).symm⟩

theorem mem_foldl_setRemove (ps s : List Nat) (y : Nat) :
    y ∈ ps.foldl (fun hs p => setRemove p hs) s ↔ y ∈ s ∧ y ∉ ps := by
  induction ps generalizing s with
  | nil => simp
  | cons p ps ih => rw [List.foldl_cons, ih, mem_setRemove]; simp only [List.mem_cons, not_or, and_assoc, ne_eq]

theorem nodup_foldl_setRemove (ps s : List Nat) (h : s.Nodup) :
    (ps.foldl (fun hs p => setRemove p hs) s).Nodup := by
  induction ps generalizing s with
  | nil => exact h
  | cons p ps ih => exact ih _ (nodup_setRemove _ _ h)

theorem eq_singleton_of_mem_iff (l : List Nat) (a : Nat) (hnd : l.Nodup) (h : ∀ x, x ∈ l ↔ x = a) : l = [a] := by
  match l, hnd, h with
  | [], _, h => exact absurd ((h a).mpr rfl) (by simp)
  | [b], _, h => rw [(h b).mp (by simp)]
  | b :: c :: rest, hnd, h =>
    have h1 := (h b).mp (by simp); have h2 := (h c).mp (by simp)
    subst h1; subst h2; simp at hnd

theorem normal_of_mem_iff (root : Nat) (l₁ l₂ : List Nat) (h1 : Normal anc root l₁) (hnd : l₂.Nodup)
    (h : ∀ x, x ∈ l₂ ↔ x ∈ l₁) : Normal anc root l₂ := by
  refine ⟨?_, hnd, ?_, ?_⟩
  · obtain ⟨a, ha⟩ := List.exists_mem_of_ne_nil _ h1.nonempty
    exact List.ne_nil_of_mem ((h a).mpr ha)
  · exact fun x hx y hy hxy => h1.antichain x ((h x).mp hx) y ((h y).mp hy) hxy
  · intro hr
    have := h1.rootAlone ((h root).mp hr)
    exact eq_singleton_of_mem_iff l₂ root hnd (fun x => by rw [h x, this]; simp)

/-- heads after `View::replace_heads(c, ps)` -/
def fastHeads (hs : List Nat) (c : Nat) (ps : List Nat) : List Nat :=
  ps.foldl (fun hs p => setRemove p hs) (setInsert c hs)

/-- **`add_heads_fast_path_ok`**: when the current heads are normalized, every parent of `c` is a
current head and `c` has at least one parent, the incremental `replace_heads` produces exactly the
set that insertion followed by `normalize_heads` would produce. -/
theorem add_heads_fast_path_ok (hpo : PO anc) (root : Nat) (hs : List Nat) (c : Nat)
    (hroot : ∀ x ∈ setInsert c hs, anc root x = true) (hn : Normal anc root hs) (ps : List Nat) (hps : ps ≠ [])
    (hsub : ∀ p ∈ ps, p ∈ hs)
    (hpar : ∀ x, anc x c = true ↔ x = c ∨ ∃ p ∈ ps, anc x p = true)
    (hstrict : ∀ p ∈ ps, anc c p = false) (x : Nat) :
    x ∈ fastHeads hs c ps ↔ x ∈ normalizeHeadIds anc root (setInsert c hs) := by
  have hne : setInsert c hs ≠ [] := List.ne_nil_of_mem ((mem_setInsert c c hs).mpr (Or.inl rfl))
  rw [normalize_heads_spec anc hpo root _ hroot hne (nodup_setInsert c hs hn.nodup), fastHeads,
    mem_foldl_setRemove]
  simp only [mem_setInsert]
  have hcps : c ∉ ps := by
    intro hc; have := hstrict c hc; rw [hpo.refl c] at this; cases this
  -- no head is strictly above `c`
  have habove : ∀ h ∈ hs, anc c h = true → h = c := by
    intro h hh hch
    obtain ⟨p, hp⟩ := List.exists_mem_of_ne_nil ps hps
    have hpc : anc p c = true := (hpar p).mpr (Or.inr ⟨p, hp, hpo.refl p⟩)
    have hph : p = h := hn.antichain p (hsub p hp) h hh (hpo.trans _ _ _ hpc hch)
    subst hph
    have := hstrict p hp; rw [hch] at this; cases this
  constructor
  · rintro ⟨hx, hxps⟩
    refine ⟨hx, fun d hd ha => ?_⟩
    rcases hx with rfl | hx
    · rcases hd with rfl | hd
      · rfl
      · exact habove d hd ha
    · rcases hd with rfl | hd
      · rcases (hpar x).mp ha with rfl | ⟨p, hp, hxp⟩
        · rfl
        · have := hn.antichain x hx p (hsub p hp) hxp
          subst this; exact absurd hp hxps
      · exact (hn.antichain x hx d hd ha).symm
  · rintro ⟨hx, hmax⟩
    refine ⟨hx, fun hxps => ?_⟩
    have hxc : anc x c = true := (hpar x).mpr (Or.inr ⟨x, hxps, hpo.refl x⟩)
    have := hmax c (Or.inl rfl) hxc
    subst this; exact hcps hxps

/-- … hence the `head_normalized` flag may stay set after the fast path -/
theorem normal_fastHeads (hpo : PO anc) (root : Nat) (hs : List Nat) (c : Nat)
    (hroot : ∀ x ∈ setInsert c hs, anc root x = true) (hn : Normal anc root hs) (ps : List Nat) (hps : ps ≠ [])
    (hsub : ∀ p ∈ ps, p ∈ hs)
    (hpar : ∀ x, anc x c = true ↔ x = c ∨ ∃ p ∈ ps, anc x p = true)
    (hstrict : ∀ p ∈ ps, anc c p = false) : Normal anc root (fastHeads hs c ps) :=
  normal_of_mem_iff anc root _ _
    (normal_normalizeHeadIds anc hpo root _ hroot (nodup_setInsert c hs hn.nodup))
    (nodup_foldl_setRemove _ _ (nodup_setInsert c hs hn.nodup))
    (add_heads_fast_path_ok anc hpo root hs c hroot hn ps hps hsub hpar hstrict)

end JjModel.Heads
