import JjModel.Model.Repo
/-!
  Basic list facts about the set-like helpers of `Model/Repo.lean`
  (`insertNew`, `union`, `dedup`, `sortDesc`, `sortAsc`, `headsOf`, `normalizeHeads`, assoc lists).
-/
set_option linter.unusedSimpArgs false
namespace JjModel.Repo

theorem mem_insertNew {acc : List Nat} {x y : Nat} : y ∈ insertNew acc x ↔ y ∈ acc ∨ y = x := by
  unfold insertNew
  by_cases h : x ∈ acc <;> simp [h]
  intro h1; subst h1; exact h

theorem insertNew_of_mem {acc : List Nat} {x : Nat} (h : x ∈ acc) : insertNew acc x = acc := by
  unfold insertNew; simp [h]

theorem insertNew_of_not_mem {acc : List Nat} {x : Nat} (h : x ∉ acc) : insertNew acc x = acc ++ [x] := by
  unfold insertNew; simp [h]

theorem union_nil (a : List Nat) : union a [] = a := rfl

theorem union_cons (a : List Nat) (x : Nat) (b : List Nat) :
    union a (x :: b) = union (insertNew a x) b := rfl

theorem union_append (a b c : List Nat) : union a (b ++ c) = union (union a b) c := by
  unfold union
  rw [List.foldl_append]

theorem mem_union {a b : List Nat} {y : Nat} : y ∈ union a b ↔ y ∈ a ∨ y ∈ b := by
  induction b generalizing a with
  | nil => simp [union_nil]
  | cons x b ih =>
    rw [union_cons, ih, mem_insertNew]
    simp only [List.mem_cons]
    constructor
    · rintro ((h | h) | h)
      · exact Or.inl h
      · exact Or.inr (Or.inl h)
      · exact Or.inr (Or.inr h)
    · rintro (h | h | h)
      · exact Or.inl (Or.inl h)
      · exact Or.inl (Or.inr h)
      · exact Or.inr h

theorem union_of_subset {a b : List Nat} (h : ∀ x ∈ b, x ∈ a) : union a b = a := by
  induction b generalizing a with
  | nil => rfl
  | cons x b ih =>
    rw [union_cons, insertNew_of_mem (h x (by simp))]
    exact ih fun y hy => h y (by simp [hy])

theorem union_prefix (a b : List Nat) : ∃ t, union a b = a ++ t := by
  induction b generalizing a with
  | nil => exact ⟨[], by simp [union_nil]⟩
  | cons x b ih =>
    rw [union_cons]
    by_cases hx : x ∈ a
    · rw [insertNew_of_mem hx]; exact ih a
    · rw [insertNew_of_not_mem hx]
      obtain ⟨t, ht⟩ := ih (a ++ [x])
      exact ⟨x :: t, by rw [ht]; simp⟩

theorem mem_dedup {l : List Nat} {y : Nat} : y ∈ dedup l ↔ y ∈ l := by
  unfold dedup
  rw [mem_union]
  simp

theorem mem_insertDesc {x y : Nat} {l : List Nat} : y ∈ insertDesc x l ↔ y = x ∨ y ∈ l := by
  induction l with
  | nil => simp [insertDesc]
  | cons z zs ih =>
    unfold insertDesc
    by_cases h : x ≥ z
    · simp [h]
    · simp only [h, if_false, List.mem_cons, ih]
      constructor
      · rintro (h1 | h1 | h1)
        · exact Or.inr (Or.inl h1)
        · exact Or.inl h1
        · exact Or.inr (Or.inr h1)
      · rintro (h1 | h1 | h1)
        · exact Or.inr (Or.inl h1)
        · exact Or.inl h1
        · exact Or.inr (Or.inr h1)

theorem mem_sortDesc {l : List Nat} {y : Nat} : y ∈ sortDesc l ↔ y ∈ l := by
  unfold sortDesc
  induction l with
  | nil => simp
  | cons x xs ih => simp only [List.foldr_cons, mem_insertDesc, ih, List.mem_cons]

theorem mem_insertAsc {x y : Nat} {l : List Nat} : y ∈ insertAsc x l ↔ y = x ∨ y ∈ l := by
  induction l with
  | nil => simp [insertAsc]
  | cons z zs ih =>
    unfold insertAsc
    by_cases h : x ≤ z
    · simp [h]
    · simp only [h, if_false, List.mem_cons, ih]
      constructor
      · rintro (h1 | h1 | h1)
        · exact Or.inr (Or.inl h1)
        · exact Or.inl h1
        · exact Or.inr (Or.inr h1)
      · rintro (h1 | h1 | h1)
        · exact Or.inr (Or.inl h1)
        · exact Or.inl h1
        · exact Or.inr (Or.inr h1)

theorem mem_sortAsc {l : List Nat} {y : Nat} : y ∈ sortAsc l ↔ y ∈ l := by
  unfold sortAsc
  induction l with
  | nil => simp
  | cons x xs ih => simp only [List.foldr_cons, mem_insertAsc, ih, List.mem_cons]

/-- `Index::heads` returns a subset of its candidates. -/
theorem headsOf_subset {s : Store} {ids : List Nat} {y : Nat} (h : y ∈ headsOf s ids) : y ∈ ids := by
  unfold headsOf at h
  have := (List.mem_filter.mp h).1
  exact mem_dedup.mp (mem_sortDesc.mp this)

/-- `normalize_heads` only keeps given heads, or pads with the root. -/
theorem normalizeHeads_subset {s : Store} {hs : List Nat} {y : Nat} (h : y ∈ normalizeHeads s hs) :
    y ∈ hs ∨ (hs = [] ∧ y = 0) := by
  unfold normalizeHeads at h
  match hs, h with
  | [], h => right; simpa using h
  | [a], h => left; exact h
  | a :: b :: rest, h =>
    left
    have := headsOf_subset h
    exact (List.mem_filter.mp this).1

/-! ### association lists -/

theorem lookup_assocSet_self {β : Type} (k : Nat) (v : β) (l : List (Nat × β)) :
    (assocSet k v l).lookup k = some v := by
  induction l with
  | nil => simp [assocSet, List.lookup]
  | cons e rest ih =>
    obtain ⟨k', v'⟩ := e
    unfold assocSet
    by_cases h1 : k = k'
    · simp [h1, List.lookup]
    · by_cases h2 : k < k'
      · simp [h1, h2, List.lookup]
      · simp only [h1, h2, if_false, List.lookup]
        have : (k == k') = false := by simpa using h1
        simp [this, ih]

theorem lookup_assocSet_other {β : Type} (k k2 : Nat) (v : β) (l : List (Nat × β)) (hne : k2 ≠ k) :
    (assocSet k v l).lookup k2 = l.lookup k2 := by
  have hb : (k2 == k) = false := by simpa using hne
  induction l with
  | nil => simp [assocSet, List.lookup, hb]
  | cons e rest ih =>
    obtain ⟨k', v'⟩ := e
    unfold assocSet
    by_cases h1 : k = k'
    · subst h1; simp [List.lookup, hb]
    · by_cases h2 : k < k'
      · simp [h1, h2, List.lookup, hb]
      · simp only [h1, h2, if_false, List.lookup]
        cases hk : k2 == k' <;> simp [ih]

theorem lookup_assocErase_other {β : Type} (k k2 : Nat) (l : List (Nat × β)) (hne : k2 ≠ k) :
    (assocErase k l).lookup k2 = l.lookup k2 := by
  unfold assocErase
  induction l with
  | nil => rfl
  | cons e rest ih =>
    obtain ⟨k', v'⟩ := e
    by_cases h1 : k' = k
    · subst h1
      have : (k2 == k') = false := by simpa using hne
      simp [List.filter, List.lookup, this, ih]
    · have : (k' != k) = true := by simpa using h1
      simp only [List.filter, this, List.lookup]
      cases hk : k2 == k' <;> simp [ih]

theorem lookup_assocErase_self {β : Type} (k : Nat) (l : List (Nat × β)) :
    (assocErase k l).lookup k = none := by
  unfold assocErase
  induction l with
  | nil => rfl
  | cons e rest ih =>
    obtain ⟨k', v'⟩ := e
    by_cases h1 : k' = k
    · subst h1; simp [List.filter, ih]
    · have : (k' != k) = true := by simpa using h1
      have h2 : (k == k') = false := by simpa using (Ne.symm h1)
      simp [List.filter, this, List.lookup, h2, ih]

end JjModel.Repo
