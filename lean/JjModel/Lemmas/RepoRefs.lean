import JjModel.Lemmas.RepoRebase
/-! `update_local_bookmarks`: bookmarks follow rewrites / abandonments. -/
set_option linter.unusedSimpArgs false
namespace JjModel.Repo
open JjModel.Merge

/-! ### bookmarks follow -/

theorem mergeRefTargets_left_eq_base (s : Store) (b t : RefTarget) : mergeRefTargets s b b t = t := by
  unfold mergeRefTargets trivialMerge
  by_cases h : b = t
  · simp [h]
  · simp [h]

theorem getBookmark_set (r : Repo) (name : Nat) (t : RefTarget) :
    (r.setLocalBookmarkTarget name t).view.getBookmark name = t := by
  unfold Repo.setLocalBookmarkTarget View.getBookmark assocGet
  simp only
  by_cases h : t.isAbsent = true
  · simp only [h, if_true, lookup_assocErase_self]
    unfold RefTarget.isAbsent at h
    have : t = [none] := by simpa using h
    rw [this]; rfl
  · simp only [h, Bool.false_eq_true, if_false, lookup_assocSet_self]

theorem foldl_addHead_bookmarks (ids : List Nat) (v : View) :
    (ids.foldl View.addHead v).bookmarks = v.bookmarks ∧ (ids.foldl View.addHead v).wc = v.wc := by
  induction ids generalizing v with
  | nil => exact ⟨rfl, rfl⟩
  | cons i ids ih => simp only [List.foldl_cons]; rw [(ih _).1, (ih _).2]; exact ⟨rfl, rfl⟩

theorem getBookmark_set_other (r : Repo) (name n2 : Nat) (t : RefTarget) (hne : n2 ≠ name) :
    (r.setLocalBookmarkTarget name t).view.getBookmark n2 = r.view.getBookmark n2 := by
  unfold Repo.setLocalBookmarkTarget View.getBookmark assocGet
  simp only
  by_cases h : t.isAbsent = true
  · simp only [h, if_true, lookup_assocErase_other _ _ _ hne, (foldl_addHead_bookmarks _ _).1]
  · simp only [h, Bool.false_eq_true, if_false, lookup_assocSet_other _ _ _ _ hne, (foldl_addHead_bookmarks _ _).1]

theorem bookmarkStep_frame (opts : Options) (r : Repo) (e : Nat × Nat × List Nat) :
    (r.bookmarkStep opts e).store = r.store ∧ (r.bookmarkStep opts e).mapping = r.mapping ∧
    (r.bookmarkStep opts e).view.wc = r.view.wc := by
  unfold Repo.bookmarkStep Repo.mergeLocalBookmark Repo.setLocalBookmarkTarget
  exact ⟨rfl, rfl, (foldl_addHead_bookmarks _ _).2⟩

theorem bookmarkFold_frame (opts : Options) (l : List (Nat × Nat × List Nat)) (r : Repo) :
    (l.foldl (Repo.bookmarkStep opts) r).store = r.store ∧
    (l.foldl (Repo.bookmarkStep opts) r).mapping = r.mapping ∧
    (l.foldl (Repo.bookmarkStep opts) r).view.wc = r.view.wc := by
  induction l generalizing r with
  | nil => exact ⟨rfl, rfl, rfl⟩
  | cons e l ih =>
    simp only [List.foldl_cons]
    obtain ⟨h1, h2, h3⟩ := ih (r.bookmarkStep opts e)
    obtain ⟨g1, g2, g3⟩ := bookmarkStep_frame opts r e
    exact ⟨by rw [h1, g1], by rw [h2, g2], by rw [h3, g3]⟩

/-- folding the bookmark loop over entries none of which names `b` leaves `b` alone; if exactly the
    entries of `b` are `[(b, old, news)]` and `b` currently is `normal(old)`, `b` ends at the new target -/
theorem bookmarkFold_other (opts : Options) (b : Nat) (l : List (Nat × Nat × List Nat)) (r : Repo)
    (hl : ∀ e ∈ l, e.1 ≠ b) :
    (l.foldl (Repo.bookmarkStep opts) r).view.getBookmark b = r.view.getBookmark b := by
  induction l generalizing r with
  | nil => rfl
  | cons e l ih =>
    simp only [List.foldl_cons]
    rw [ih _ (fun e' he' => hl e' (by simp [he']))]
    unfold Repo.bookmarkStep Repo.mergeLocalBookmark
    exact getBookmark_set_other _ _ _ _ (Ne.symm (hl e (by simp)))

theorem bookmarkFold_one (opts : Options) (b old : Nat) (news : List Nat)
    (l1 l2 : List (Nat × Nat × List Nat)) (r : Repo)
    (h1 : ∀ e ∈ l1, e.1 ≠ b) (h2 : ∀ e ∈ l2, e.1 ≠ b)
    (hb : r.view.getBookmark b = RefTarget.normal old) :
    ((l1 ++ (b, old, news) :: l2).foldl (Repo.bookmarkStep opts) r).view.getBookmark b
      = bookmarkNewTarget r.mapping opts old news := by
  rw [List.foldl_append, List.foldl_cons, bookmarkFold_other opts b l2 _ h2]
  have hm := (bookmarkFold_frame opts l1 r).2.1
  have hbb := bookmarkFold_other opts b l1 r h1
  generalize l1.foldl (Repo.bookmarkStep opts) r = r1 at hm hbb
  unfold Repo.bookmarkStep Repo.mergeLocalBookmark
  rw [getBookmark_set]
  simp only
  rw [hbb, hb, hm, mergeRefTargets_left_eq_base]

theorem lookup_split {β : Type} (pre post : List (Nat × β)) (b : Nat) (t : β)
    (hpre : ∀ e ∈ pre, e.1 ≠ b) : (pre ++ (b, t) :: post).lookup b = some t := by
  induction pre with
  | nil => simp [List.lookup]
  | cons e pre ih =>
    obtain ⟨k, v⟩ := e
    have hk : (b == k) = false := by
      have := hpre (k, v) (by simp); simpa using (Ne.symm this)
    simp only [List.cons_append, List.lookup, hk]
    exact ih (fun e he => hpre e (by simp [he]))

theorem changed_names (rm : List (Nat × List Nat)) (l : List (Nat × RefTarget)) (b : Nat)
    (hl : ∀ e ∈ l, e.1 ≠ b) :
    ∀ e ∈ (l.flatMap fun (x : Nat × RefTarget) =>
        x.2.addedIds.filterMap fun i => (rm.lookup i).map fun news => (x.1, i, news)), e.1 ≠ b := by
  intro e he
  simp only [List.mem_flatMap, List.mem_filterMap, Option.map_eq_some_iff] at he
  obtain ⟨x, hx, i, _, news, _, rfl⟩ := he
  exact hl x hx

/-- **`bookmarks_follow`** (unconflicted bookmark).  A bookmark that points at a commit `old`
    which the resolved mapping sends to `news` ends, after `update_local_bookmarks`, at
    `[new₀, old, new₁, …]` merged against `old` — i.e. at `new₀` when there is one replacement, at a
    conflict of the replacements when there are several (abandoned merge, divergent rewrite) — or is
    deleted when `old` was abandoned and `delete_abandoned_bookmarks` is set. -/
theorem updateLocalBookmarks_follow (r : Repo) (rm : List (Nat × List Nat)) (opts : Options)
    (b old : Nat) (news : List Nat) (pre post : List (Nat × RefTarget))
    (hsplit : r.view.bookmarks = pre ++ (b, RefTarget.normal old) :: post)
    (hpre : ∀ e ∈ pre, e.1 ≠ b) (hpost : ∀ e ∈ post, e.1 ≠ b)
    (hrm : rm.lookup old = some news) :
    (r.updateLocalBookmarks rm opts).view.getBookmark b = bookmarkNewTarget r.mapping opts old news := by
  unfold Repo.updateLocalBookmarks changedBookmarks
  rw [hsplit, List.flatMap_append, List.flatMap_cons]
  have hmid : ((RefTarget.normal old).addedIds.filterMap fun i =>
      (rm.lookup i).map fun news => (b, i, news)) = [(b, old, news)] := by
    simp [RefTarget.normal, RefTarget.addedIds, adds, hrm]
  simp only [hmid, List.singleton_append]
  apply bookmarkFold_one
  · exact changed_names rm pre b hpre
  · exact changed_names rm post b hpost
  · unfold View.getBookmark assocGet
    rw [hsplit, lookup_split pre post b _ hpre]

/-- a bookmark at a commit that is not a key of the resolved mapping stays where it is -/
theorem updateLocalBookmarks_untouched (r : Repo) (rm : List (Nat × List Nat)) (opts : Options)
    (b old : Nat) (pre post : List (Nat × RefTarget))
    (hsplit : r.view.bookmarks = pre ++ (b, RefTarget.normal old) :: post)
    (hpre : ∀ e ∈ pre, e.1 ≠ b) (hpost : ∀ e ∈ post, e.1 ≠ b)
    (hrm : rm.lookup old = none) :
    (r.updateLocalBookmarks rm opts).view.getBookmark b = RefTarget.normal old := by
  unfold Repo.updateLocalBookmarks changedBookmarks
  rw [hsplit, List.flatMap_append, List.flatMap_cons]
  have hmid : ((RefTarget.normal old).addedIds.filterMap fun i =>
      (rm.lookup i).map fun news => (b, i, news)) = [] := by
    simp [RefTarget.normal, RefTarget.addedIds, adds, hrm]
  simp only [hmid, List.nil_append]
  rw [← List.flatMap_append, bookmarkFold_other opts b _ r]
  · unfold View.getBookmark assocGet
    rw [hsplit, lookup_split pre post b _ hpre]
  · exact changed_names rm (pre ++ post) b (by
      intro e he; simp only [List.mem_append] at he
      rcases he with he | he
      · exact hpre e he
      · exact hpost e he)

/-- the special cases of `bookmarkNewTarget` the property text names -/
theorem bookmarkNewTarget_rewritten (m : Mapping) (opts : Options) (old n : Nat)
    (h : isAbandonedKey m old = false) : bookmarkNewTarget m opts old [n] = RefTarget.normal n := by
  unfold bookmarkNewTarget; simp [h, intersperseOld, RefTarget.normal]

theorem bookmarkNewTarget_deleted (m : Mapping) (opts : Options) (old : Nat) (news : List Nat)
    (h : isAbandonedKey m old = true) (hd : opts.deleteAbandoned = true) :
    bookmarkNewTarget m opts old news = RefTarget.absent := by
  unfold bookmarkNewTarget; simp [h, hd]

theorem bookmarkNewTarget_abandoned_single (m : Mapping) (opts : Options) (old p : Nat)
    (hd : opts.deleteAbandoned = false) : bookmarkNewTarget m opts old [p] = RefTarget.normal p := by
  unfold bookmarkNewTarget; simp [hd, intersperseOld, RefTarget.normal]

end JjModel.Repo
