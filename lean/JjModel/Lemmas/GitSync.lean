import JjModel.Lemmas.GitPush
import JjModel.Lemmas.MergeMapping
/-! Lemmas about the import/export part of `Model/GitSync.lean` (C34). -/
namespace JjModel.GitSync
open JjModel.Merge

/-! ### generic: a left fold whose step writes one key of a pointwise-observed state -/

theorem foldl_pointwise_other {σ ι κ α : Type} (step : σ → ι → σ) (key : ι → κ) (proj : σ → κ → α)
    (hother : ∀ s i k, k ≠ key i → proj (step s i) k = proj s k)
    (l : List ι) (s : σ) (k : κ) (h : ∀ i ∈ l, key i ≠ k) :
    proj (l.foldl step s) k = proj s k := by
  induction l generalizing s with
  | nil => rfl
  | cons i l ih =>
    simp only [List.foldl_cons]
    rw [ih _ (fun j hj => h j (List.mem_cons_of_mem _ hj))]
    exact hother s i k (Ne.symm (h i List.mem_cons_self))

theorem foldl_pointwise_mem {σ ι κ α : Type} (step : σ → ι → σ) (key : ι → κ) (proj : σ → κ → α)
    (f : ι → α → α)
    (hother : ∀ s i k, k ≠ key i → proj (step s i) k = proj s k)
    (hsame : ∀ s i, proj (step s i) (key i) = f i (proj s (key i)))
    (l : List ι) (s : σ) (hnd : (l.map key).Nodup) (i : ι) (hi : i ∈ l) :
    proj (l.foldl step s) (key i) = f i (proj s (key i)) := by
  induction l generalizing s with
  | nil => cases hi
  | cons j l ih =>
    simp only [List.map_cons, List.nodup_cons, List.mem_map, not_exists, not_and] at hnd
    simp only [List.foldl_cons]
    rcases List.mem_cons.mp hi with rfl | hi'
    · rw [foldl_pointwise_other step key proj hother l _ (key i) (fun j hj heq => hnd.1 j hj heq)]
      exact hsame s i
    · rw [ih _ hnd.2 hi']
      have hne : key i ≠ key j := fun heq => hnd.1 i hi' heq
      rw [hother s j (key i) hne]

/-! ### targets -/

theorem not_isPresent_iff (t : Target) : isPresent t = false ↔ t = absent := by
  simp [isPresent]

theorem isPresent_iff (t : Target) : isPresent t = true ↔ t ≠ absent := by
  simp [isPresent]

@[simp] theorem isPresent_absent : isPresent absent = false := by simp [isPresent]
@[simp] theorem isPresent_normal (c : Nat) : isPresent (normal c) = true := by simp [isPresent, normal, absent]
@[simp] theorem hasConflict_ofOpt (o : Option Nat) : hasConflict (ofOpt o) = false := by simp [hasConflict, ofOpt]
@[simp] theorem hasConflict_normal (c : Nat) : hasConflict (normal c) = false := by simp [hasConflict, normal]
@[simp] theorem hasConflict_absent : hasConflict absent = false := by simp [hasConflict, absent]
@[simp] theorem ofOpt_none : ofOpt none = absent := rfl
@[simp] theorem ofOpt_some (c : Nat) : ofOpt (some c) = normal c := rfl
@[simp] theorem asNormal_ofOpt (o : Option Nat) : asNormal (ofOpt o) = o := by cases o <;> rfl

theorem normalize_absent (t : Target) : (if isPresent t then t else absent) = t := by
  split
  · rfl
  · next h => simp only [Bool.not_eq_true] at h; exact ((not_isPresent_iff t).mp h).symm

/-! ### `setLocal`, `mergeLocal` -/

@[simp] theorem setLocal_gitRefs (v : View) (n : Nat) (t : Target) : (v.setLocal n t).gitRefs = v.gitRefs := by
  unfold View.setLocal; split <;> rfl

theorem setLocal_locals_same (v : View) (n : Nat) (t : Target) : (v.setLocal n t).locals n = t := by
  unfold View.setLocal
  split
  · simp [setAt]
  · next h => simp only [Bool.not_eq_true] at h; simp [setAt, (not_isPresent_iff t).mp h]

theorem setLocal_locals_other (v : View) (n m : Nat) (t : Target) (h : m ≠ n) :
    (v.setLocal n t).locals m = v.locals m := by
  unfold View.setLocal; split <;> simp [setAt, h]

theorem setLocal_remotes_target (v : View) (n : Nat) (t : Target) (k : Key) :
    ((v.setLocal n t).remotes k).target = (v.remotes k).target := by
  unfold View.setLocal
  split
  · rfl
  · simp only
    split
    · next h => simp [RemoteRef.absentRef, h.2]
    · rfl

theorem setLocal_remotes_other_name (v : View) (n : Nat) (t : Target) (k : Key) (h : k.1 ≠ n) :
    (v.setLocal n t).remotes k = v.remotes k := by
  unfold View.setLocal
  split
  · rfl
  · simp [h]

/-! ### one import step (`applyRemoteUpdate`) -/

/-- does the update merge into the local bookmark? -/
def updTracked (auto : Bool) (u : RefUpdate) : Bool :=
  if u.old ≠ RemoteRef.absentRef then u.old.tracked else defaultTracked auto u.key

theorem applyRemoteUpdate_eq (anc : Nat → Nat → Bool) (auto : Bool) (v : View) (u : RefUpdate) :
    applyRemoteUpdate anc auto v u =
      (if updTracked auto u then v.mergeLocal anc u.key.1 u.old.trackedTarget u.new else v).setRemote
        u.key ⟨u.new, updTracked auto u⟩ := rfl

theorem applyRemoteUpdate_gitRefs (anc : Nat → Nat → Bool) (auto : Bool) (v : View) (u : RefUpdate) :
    (applyRemoteUpdate anc auto v u).gitRefs = v.gitRefs := by
  rw [applyRemoteUpdate_eq]
  cases updTracked auto u <;> simp [View.mergeLocal]

theorem applyRemoteUpdate_target_other (anc : Nat → Nat → Bool) (auto : Bool) (v : View) (u : RefUpdate)
    (k : Key) (h : k ≠ u.key) :
    ((applyRemoteUpdate anc auto v u).remotes k).target = (v.remotes k).target := by
  rw [applyRemoteUpdate_eq, setRemote_remotes_other _ _ _ _ h]
  cases updTracked auto u
  · rfl
  · exact setLocal_remotes_target _ _ _ _

theorem applyRemoteUpdate_target_same (anc : Nat → Nat → Bool) (auto : Bool) (v : View) (u : RefUpdate) :
    ((applyRemoteUpdate anc auto v u).remotes u.key).target = u.new := by
  rw [applyRemoteUpdate_eq]
  exact setRemote_target_same _ _ _

theorem applyRemoteUpdate_locals_other (anc : Nat → Nat → Bool) (auto : Bool) (v : View) (u : RefUpdate)
    (n : Nat) (h : n ≠ u.key.1) :
    (applyRemoteUpdate anc auto v u).locals n = v.locals n := by
  rw [applyRemoteUpdate_eq, setRemote_locals]
  cases updTracked auto u
  · rfl
  · exact setLocal_locals_other _ _ _ _ h

theorem applyRemoteUpdate_locals_same (anc : Nat → Nat → Bool) (auto : Bool) (v : View) (u : RefUpdate) :
    (applyRemoteUpdate anc auto v u).locals u.key.1 =
      if updTracked auto u then mergeRefTargets anc (v.locals u.key.1) u.old.trackedTarget u.new
      else v.locals u.key.1 := by
  rw [applyRemoteUpdate_eq, setRemote_locals]
  cases updTracked auto u
  · rfl
  · exact setLocal_locals_same _ _ _

/-! ### the diff lists -/

theorem diffRemote_key (v : View) (git : Git) (k : Key) (u : RefUpdate) (h : diffRemote v git k = some u) :
    u.key = k ∧ u.old = v.remotes k ∧ u.new = ofOpt (git k) := by
  unfold diffRemote at h
  simp only at h
  split at h
  · next c hc =>
    split at h
    · simp only [Option.some.injEq] at h; subst h; simp [hc]
    · cases h
  · next hc =>
    split at h
    · simp only [Option.some.injEq] at h; subst h; simp [hc]
    · cases h

theorem diffRemote_none (v : View) (git : Git) (k : Key) (h : diffRemote v git k = none) :
    (v.remotes k).target = ofOpt (git k) := by
  unfold diffRemote at h
  simp only at h
  split at h
  · next c hc =>
    split at h
    · cases h
    · next hne => simp only [ne_eq, Decidable.not_not] at hne; simp [hc, hne]
  · next hc =>
    split at h
    · cases h
    · next hp => simp only [Bool.not_eq_true] at hp; simp [hc, (not_isPresent_iff _).mp hp]

theorem diffRemote_of_target (v : View) (git : Git) (k : Key) (h : (v.remotes k).target = ofOpt (git k)) :
    diffRemote v git k = none := by
  unfold diffRemote
  simp only
  cases hc : git k with
  | none => simp [hc] at h; simp [h]
  | some c => simp [hc] at h; simp [h]

theorem diffGitRef_some (v : View) (git : Git) (k : Key) (t : Target) (h : diffGitRef v git k = some t) :
    t = ofOpt (git k) := by
  unfold diffGitRef at h
  split at h
  · next c hc =>
    split at h
    · simp only [Option.some.injEq] at h; simp [← h, hc]
    · cases h
  · next hc =>
    split at h
    · simp only [Option.some.injEq] at h; simp [← h, hc]
    · cases h

theorem diffGitRef_none (v : View) (git : Git) (k : Key) (h : diffGitRef v git k = none) :
    v.gitRefs k = ofOpt (git k) := by
  unfold diffGitRef at h
  split at h
  · next c hc =>
    split at h
    · cases h
    · next hne => simp only [ne_eq, Decidable.not_not] at hne; simp [← hne, hc]
  · next hc =>
    split at h
    · cases h
    · next hp => simp only [Bool.not_eq_true] at hp; simp [(not_isPresent_iff _).mp hp, hc]

theorem diffGitRef_of_eq (v : View) (git : Git) (k : Key) (h : v.gitRefs k = ofOpt (git k)) :
    diffGitRef v git k = none := by
  unfold diffGitRef
  cases hc : git k with
  | none => simp [hc] at h; simp [h]
  | some c => simp [hc] at h; simp [h]

/-- the keys of a `filterMap` whose results remember their key are a sublist of the keys -/
theorem map_key_filterMap_sublist {κ ι : Type} (keys : List κ) (f : κ → Option ι) (key : ι → κ)
    (hk : ∀ k i, f k = some i → key i = k) : ((keys.filterMap f).map key).Sublist keys := by
  induction keys with
  | nil => simp
  | cons k ks ih =>
    simp only [List.filterMap_cons]
    cases hf : f k with
    | none => exact ih.trans (List.sublist_cons_self _ _)
    | some i =>
      simp only [List.map_cons]
      rw [hk k i hf]
      exact ih.cons_cons _

theorem changedRemote_nodup (keys : List Key) (hnd : keys.Nodup) (v : View) (git : Git) :
    ((keys.filterMap (diffRemote v git)).map (·.key)).Nodup :=
  (map_key_filterMap_sublist keys _ _ (fun k u h => (diffRemote_key v git k u h).1)).nodup hnd

theorem changedGitRefs_nodup (keys : List Key) (hnd : keys.Nodup) (v : View) (git : Git) :
    ((keys.filterMap (fun k => (diffGitRef v git k).map (fun t => (k, t)))).map (·.1)).Nodup := by
  apply (map_key_filterMap_sublist keys _ _ _).nodup hnd
  intro k i h
  cases hd : diffGitRef v git k with
  | none => simp [hd] at h
  | some t => simp [hd] at h; simp [← h]

/-! ### what an import establishes -/

/-- jj's records agree with the Git repo on `keys` -/
def Synced (keys : List Key) (v : View) (git : Git) : Prop :=
  ∀ k ∈ keys, v.gitRefs k = ofOpt (git k) ∧ (v.remotes k).target = ofOpt (git k)

theorem foldl_applyRemoteUpdate_gitRefs (anc : Nat → Nat → Bool) (auto : Bool) (us : List RefUpdate) (v : View) :
    (us.foldl (applyRemoteUpdate anc auto) v).gitRefs = v.gitRefs := by
  induction us generalizing v with
  | nil => rfl
  | cons u us ih => simp only [List.foldl_cons]; rw [ih, applyRemoteUpdate_gitRefs]

theorem foldl_setGitRef_remotes (es : List (Key × Target)) (v : View) :
    (es.foldl (fun v e => v.setGitRef e.1 e.2) v).remotes = v.remotes ∧
    (es.foldl (fun v e => v.setGitRef e.1 e.2) v).locals = v.locals := by
  induction es generalizing v with
  | nil => exact ⟨rfl, rfl⟩
  | cons e es ih => simp only [List.foldl_cons]; rw [(ih _).1, (ih _).2]; exact ⟨rfl, rfl⟩

theorem importRefs_gitRefs (anc : Nat → Nat → Bool) (auto : Bool) (keys : List Key) (hnd : keys.Nodup)
    (v : View) (git : Git) (k : Key) :
    (importRefs anc auto keys v git).gitRefs k = if k ∈ keys then ofOpt (git k) else v.gitRefs k := by
  unfold importRefs importRefsInner diffRefsToImport
  simp only
  rw [foldl_applyRemoteUpdate_gitRefs]
  have hother : ∀ (s : View) (e : Key × Target) (k : Key), k ≠ e.1 → (s.setGitRef e.1 e.2).gitRefs k = s.gitRefs k :=
    fun s e k h => setGitRef_gitRefs_other s e.1 k e.2 h
  by_cases hex : ∃ t, diffGitRef v git k = some t ∧ k ∈ keys
  · obtain ⟨t, ht, hk⟩ := hex
    have hmem : (k, t) ∈ keys.filterMap (fun k => (diffGitRef v git k).map (fun t => (k, t))) :=
      List.mem_filterMap.mpr ⟨k, hk, by simp [ht]⟩
    have := foldl_pointwise_mem (fun (v : View) (e : Key × Target) => v.setGitRef e.1 e.2) (·.1)
      (fun s k => s.gitRefs k) (fun e _ => e.2) hother
      (fun s e => setGitRef_gitRefs_same s e.1 e.2) _ v (changedGitRefs_nodup keys hnd v git) (k, t) hmem
    simp only at this
    rw [this, if_pos hk, diffGitRef_some v git k t ht]
  · have hno : ∀ e ∈ keys.filterMap (fun k => (diffGitRef v git k).map (fun t => (k, t))), e.1 ≠ k := by
      intro e he heq
      obtain ⟨k', hk', hf⟩ := List.mem_filterMap.mp he
      cases hd : diffGitRef v git k' with
      | none => simp [hd] at hf
      | some t =>
        simp [hd] at hf
        subst hf
        simp only at heq
        subst heq
        exact hex ⟨t, hd, hk'⟩
    have := foldl_pointwise_other (fun (v : View) (e : Key × Target) => v.setGitRef e.1 e.2) (·.1)
      (fun s k => s.gitRefs k) hother _ v k hno
    rw [this]
    split
    · next hk =>
      cases hd : diffGitRef v git k with
      | none => exact diffGitRef_none v git k hd
      | some t => exact absurd ⟨t, hd, hk⟩ hex
    · rfl

theorem importRefs_remote_target (anc : Nat → Nat → Bool) (auto : Bool) (keys : List Key) (hnd : keys.Nodup)
    (v : View) (git : Git) (k : Key) :
    ((importRefs anc auto keys v git).remotes k).target =
      if k ∈ keys then ofOpt (git k) else (v.remotes k).target := by
  unfold importRefs importRefsInner diffRefsToImport
  simp only
  have hbase := (foldl_setGitRef_remotes (keys.filterMap (fun k => (diffGitRef v git k).map (fun t => (k, t)))) v).1
  have hother : ∀ (s : View) (u : RefUpdate) (k : Key), k ≠ u.key →
      ((applyRemoteUpdate anc auto s u).remotes k).target = (s.remotes k).target :=
    fun s u k h => applyRemoteUpdate_target_other anc auto s u k h
  by_cases hex : ∃ u, diffRemote v git k = some u ∧ k ∈ keys
  · obtain ⟨u, hu, hk⟩ := hex
    have hmem : u ∈ keys.filterMap (diffRemote v git) := List.mem_filterMap.mpr ⟨k, hk, hu⟩
    obtain ⟨hkey, _, hnew⟩ := diffRemote_key v git k u hu
    have := foldl_pointwise_mem (applyRemoteUpdate anc auto) (·.key)
      (fun s k => (s.remotes k).target) (fun u _ => u.new) hother
      (fun s u => applyRemoteUpdate_target_same anc auto s u) _
      (List.foldl (fun v e => v.setGitRef e.1 e.2) v (keys.filterMap (fun k => (diffGitRef v git k).map (fun t => (k, t)))))
      (changedRemote_nodup keys hnd v git) u hmem
    rw [hkey] at this
    rw [this, if_pos hk, hnew]
  · have hno : ∀ u ∈ keys.filterMap (diffRemote v git), u.key ≠ k := by
      intro u hu heq
      obtain ⟨k', hk', hf⟩ := List.mem_filterMap.mp hu
      have := (diffRemote_key v git k' u hf).1
      rw [heq] at this
      subst this
      exact hex ⟨u, hf, hk'⟩
    have := foldl_pointwise_other (applyRemoteUpdate anc auto) (·.key)
      (fun s k => (s.remotes k).target) hother _
      (List.foldl (fun v e => v.setGitRef e.1 e.2) v (keys.filterMap (fun k => (diffGitRef v git k).map (fun t => (k, t)))))
      k hno
    rw [this, hbase]
    split
    · next hk =>
      cases hd : diffRemote v git k with
      | none => exact diffRemote_none v git k hd
      | some u => exact absurd ⟨u, hd, hk⟩ hex
    · rfl

theorem importRefs_synced (anc : Nat → Nat → Bool) (auto : Bool) (keys : List Key) (hnd : keys.Nodup)
    (v : View) (git : Git) : Synced keys (importRefs anc auto keys v git) git := by
  intro k hk
  rw [importRefs_gitRefs anc auto keys hnd, importRefs_remote_target anc auto keys hnd]
  simp [hk]

/-- importing into a view whose records already agree with Git changes nothing -/
theorem importRefs_of_synced (anc : Nat → Nat → Bool) (auto : Bool) (keys : List Key)
    (v : View) (git : Git) (h : Synced keys v git) : importRefs anc auto keys v git = v := by
  unfold importRefs importRefsInner diffRefsToImport
  have h1 : keys.filterMap (fun k => (diffGitRef v git k).map (fun t => (k, t))) = [] := by
    apply List.filterMap_eq_nil_iff.mpr
    intro k hk
    simp [diffGitRef_of_eq v git k (h k hk).1]
  have h2 : keys.filterMap (diffRemote v git) = [] := by
    apply List.filterMap_eq_nil_iff.mpr
    intro k hk
    exact diffRemote_of_target v git k (h k hk).2
  simp only [h1, h2, List.foldl_nil]

end JjModel.GitSync

namespace JjModel.GitSync
open JjModel.Merge

/-! ### import: the local bookmark of one name -/

theorem nodup_of_nodup_map {α β : Type} (f : α → β) (l : List α) (h : (l.map f).Nodup) : l.Nodup := by
  induction l with
  | nil => exact List.nodup_nil
  | cons a l ih =>
    simp only [List.map_cons, List.nodup_cons, List.mem_map, not_exists, not_and] at h
    exact List.nodup_cons.mpr ⟨fun ha => h.1 a ha rfl, ih h.2⟩

theorem foldl_applyRemoteUpdate_locals_other (anc : Nat → Nat → Bool) (auto : Bool) (us : List RefUpdate)
    (v : View) (n : Nat) (h : ∀ u ∈ us, u.key.1 ≠ n) :
    (us.foldl (applyRemoteUpdate anc auto) v).locals n = v.locals n :=
  foldl_pointwise_other (applyRemoteUpdate anc auto) (fun u => u.key.1) (fun s n => s.locals n)
    (fun s u n hn => applyRemoteUpdate_locals_other anc auto s u n hn) us v n h

theorem foldl_applyRemoteUpdate_locals_single (anc : Nat → Nat → Bool) (auto : Bool) (us : List RefUpdate)
    (hnd : us.Nodup) (u0 : RefUpdate) (hu0 : u0 ∈ us)
    (huniq : ∀ u ∈ us, u.key.1 = u0.key.1 → u = u0) (v : View) :
    (us.foldl (applyRemoteUpdate anc auto) v).locals u0.key.1 =
      if updTracked auto u0 then mergeRefTargets anc (v.locals u0.key.1) u0.old.trackedTarget u0.new
      else v.locals u0.key.1 := by
  induction us generalizing v with
  | nil => cases hu0
  | cons u us ih =>
    simp only [List.foldl_cons]
    simp only [List.nodup_cons] at hnd
    by_cases heq : u = u0
    · subst heq
      rw [foldl_applyRemoteUpdate_locals_other anc auto us _ u.key.1]
      · exact applyRemoteUpdate_locals_same anc auto v u
      · intro u' hu' hk
        have := huniq u' (List.mem_cons_of_mem _ hu') hk
        subst this
        exact hnd.1 hu'
    · have hu0' : u0 ∈ us := by
        rcases List.mem_cons.mp hu0 with h | h
        · exact absurd h.symm heq
        · exact h
      have hne : u0.key.1 ≠ u.key.1 := fun hk => heq (huniq u List.mem_cons_self hk.symm)
      rw [ih hnd.2 hu0' (fun u' hu' => huniq u' (List.mem_cons_of_mem _ hu'))]
      rw [applyRemoteUpdate_locals_other anc auto v u u0.key.1 hne]

/-- import, seen from one bookmark name `n` for which exactly one ref (`k0`) changed in Git -/
theorem importRefs_locals_single (anc : Nat → Nat → Bool) (auto : Bool) (keys : List Key) (hnd : keys.Nodup)
    (v : View) (git : Git) (k0 : Key) (hk0 : k0 ∈ keys) (u0 : RefUpdate) (hu0 : diffRemote v git k0 = some u0)
    (hothers : ∀ k ∈ keys, k.1 = k0.1 → k ≠ k0 → diffRemote v git k = none) :
    (importRefs anc auto keys v git).locals k0.1 =
      if updTracked auto u0 then mergeRefTargets anc (v.locals k0.1) (v.remotes k0).trackedTarget (ofOpt (git k0))
      else v.locals k0.1 := by
  obtain ⟨hkey, hold, hnew⟩ := diffRemote_key v git k0 u0 hu0
  unfold importRefs importRefsInner diffRefsToImport
  simp only
  have hmem : u0 ∈ keys.filterMap (diffRemote v git) := List.mem_filterMap.mpr ⟨k0, hk0, hu0⟩
  have hnd' : (keys.filterMap (diffRemote v git)).Nodup := nodup_of_nodup_map (fun u => u.key) _ (changedRemote_nodup keys hnd v git)
  have huniq : ∀ u ∈ keys.filterMap (diffRemote v git), u.key.1 = u0.key.1 → u = u0 := by
    intro u hu hk
    obtain ⟨k', hk', hf⟩ := List.mem_filterMap.mp hu
    have hkey' := (diffRemote_key v git k' u hf).1
    by_cases hkk : k' = k0
    · subst hkk; rw [hu0] at hf; exact (Option.some.inj hf).symm
    · have := hothers k' hk' (by rw [← hkey', hk, hkey]) hkk
      rw [this] at hf; cases hf
  have := foldl_applyRemoteUpdate_locals_single anc auto _ hnd' u0 hmem huniq
    (List.foldl (fun v e => v.setGitRef e.1 e.2) v (keys.filterMap (fun k => (diffGitRef v git k).map (fun t => (k, t)))))
  rw [hkey] at this
  rw [this, (foldl_setGitRef_remotes _ v).2, hold, hnew]

theorem importRefs_locals_untouched (anc : Nat → Nat → Bool) (auto : Bool) (keys : List Key)
    (v : View) (git : Git) (n : Nat) (h : ∀ k ∈ keys, k.1 = n → diffRemote v git k = none) :
    (importRefs anc auto keys v git).locals n = v.locals n := by
  unfold importRefs importRefsInner diffRefsToImport
  simp only
  rw [foldl_applyRemoteUpdate_locals_other, (foldl_setGitRef_remotes _ v).2]
  intro u hu hk
  obtain ⟨k', hk', hf⟩ := List.mem_filterMap.mp hu
  have hkey' := (diffRemote_key v git k' u hf).1
  rw [h k' hk' (by rw [← hkey', hk])] at hf
  cases hf

end JjModel.GitSync

namespace JjModel.GitSync
open JjModel.Merge

/-! ### `merge_ref_targets` on the cases the property talks about -/

/-- only the other side changed: take it -/
theorem mergeRefTargets_left_unchanged (anc : Nat → Nat → Bool) (l r : Target) :
    mergeRefTargets anc l l r = r := by
  unfold mergeRefTargets trivialMerge
  by_cases h : l = r <;> simp [h]

/-- only this side changed: keep it -/
theorem mergeRefTargets_right_unchanged (anc : Nat → Nat → Bool) (l b : Target) :
    mergeRefTargets anc l b b = l := by
  unfold mergeRefTargets trivialMerge
  by_cases h : l = b <;> simp [h]

/-- both sides made the same change -/
theorem mergeRefTargets_same_change (anc : Nat → Nat → Bool) (x b : Target) :
    mergeRefTargets anc x b x = x := by
  unfold mergeRefTargets trivialMerge
  simp

/-- two commits neither of which is an ancestor of the other (an absent side is unrelated to
everything) -/
def Unrelated (anc : Nat → Nat → Bool) : Option Nat → Option Nat → Prop
  | some x, some y => anc x y = false ∧ anc y x = false
  | _, _ => True

theorem simplify_three_distinct (l b g : Option Nat) (hlb : l ≠ b) (hgb : g ≠ b) :
    simplify [l, b, g] = [l, b, g] := by
  have hsep : Sep [l, b, g] [l, b, g].length := by
    intro i j x hi hi0 hj1 hx
    simp only [List.length_cons, List.length_nil] at hi
    have hi' : i = 0 ∨ i = 2 := by omega
    intro hjx
    have hj : j = 1 := by
      by_cases hj3 : j < 3
      · omega
      · rw [List.getElem?_eq_none (by simp; omega)] at hjx; cases hjx
    subst hj
    simp only [List.getElem?_cons_succ, List.getElem?_cons_zero, Option.some.injEq] at hjx
    rcases hi' with rfl | rfl
    · simp only [List.getElem?_cons_zero, Option.some.injEq] at hx; exact hlb (hx.trans hjx.symm)
    · simp only [List.getElem?_cons_succ, List.getElem?_cons_zero, Option.some.injEq] at hx
      exact hgb (hx.trans hjx.symm)
  unfold simplify
  rw [simplifiedMapping_of_sep _ hsep]
  rfl

/-- changed differently on both sides, and the two new values are unrelated: the merge is the
three-term conflict holding both -/
theorem mergeRefTargets_conflict (anc : Nat → Nat → Bool) (l b g : Option Nat)
    (hlb : l ≠ b) (hgb : g ≠ b) (hlg : l ≠ g) (hun : Unrelated anc l g) :
    mergeRefTargets anc [l] [b] [g] = [l, b, g] := by
  have h1 : trivialMerge [[l], [b], [g]] SameChange.accept = none := by
    simp [trivialMerge, hlb, hgb, hlg]
  have h2 : flatten [[l], [b], [g]] = [l, b, g] := by
    simp [flatten, flattenFrom, negateTerm, swapPairs]
  have h3 : trivialMerge [l, b, g] SameChange.accept = none := by
    simp [trivialMerge, hlb, hgb, hlg]
  unfold mergeRefTargets
  rw [h1]
  simp only [h2, simplify_three_distinct l b g hlb hgb, h3]
  -- the non-trivial loop finds no pair to remove
  have hfind : findPairToRemove anc [l, b, g] = none := by
    unfold findPairToRemove
    simp only [adds, removes, outerLoop, innerLoop]
    cases l with
    | none => simp [pickAdd]
    | some x =>
      cases g with
      | none => simp [pickAdd]
      | some y =>
        have hxy : x ≠ y := fun h => hlg (by rw [h])
        simp only [Unrelated] at hun
        simp [pickAdd, hxy, hun.1, hun.2]
  simp [nonTrivialLoop, hfind]

end JjModel.GitSync
