import JjModel.Model.Graph
import JjModel.Lemmas.Dag
/-!
  Lemmas about the log-graph edge model: list plumbing (`dedupInto`, `mergeParts`,
  `removeTransitive`) and the row invariant `RowOK` (every edge is what its kind claims; every shown
  ancestor is covered by a non-missing edge), proved for the memo table of external commits and for
  the edges of shown commits.
-/
namespace JjModel.Graph
open JjModel.Dag

/-! ### `dedupInto` -/

theorem dedupInto_sub {known : List Nat} {es : List Edge} {e : Edge} :
    e ∈ (dedupInto known es).2 → e ∈ es := by
  induction es generalizing known with
  | nil => simp [dedupInto]
  | cons x xs ih =>
    unfold dedupInto
    split
    · intro h; exact List.mem_cons_of_mem _ (ih h)
    · intro h
      rcases List.mem_cons.1 h with h | h
      · subst h; simp
      · exact List.mem_cons_of_mem _ (ih h)

theorem dedupInto_known {known : List Nat} {es : List Edge} {x : Nat} :
    x ∈ (dedupInto known es).1 ↔ x ∈ known ∨ ∃ e ∈ es, e.target = x := by
  induction es generalizing known with
  | nil => simp [dedupInto]
  | cons y ys ih =>
    unfold dedupInto
    split
    · rename_i hk
      have hk' : y.target ∈ known := by simpa using hk
      rw [ih]
      constructor
      · rintro (h | ⟨e, he, h⟩)
        · exact Or.inl h
        · exact Or.inr ⟨e, List.mem_cons_of_mem _ he, h⟩
      · rintro (h | ⟨e, he, h⟩)
        · exact Or.inl h
        · rcases List.mem_cons.1 he with he | he
          · subst he; subst h; exact Or.inl hk'
          · exact Or.inr ⟨e, he, h⟩
    · simp only
      rw [ih]
      constructor
      · rintro (h | ⟨e, he, h⟩)
        · rcases List.mem_cons.1 h with h | h
          · exact Or.inr ⟨y, by simp, h.symm⟩
          · exact Or.inl h
        · exact Or.inr ⟨e, List.mem_cons_of_mem _ he, h⟩
      · rintro (h | ⟨e, he, h⟩)
        · exact Or.inl (List.mem_cons_of_mem _ h)
        · rcases List.mem_cons.1 he with he | he
          · subst he; subst h; exact Or.inl (by simp)
          · exact Or.inr ⟨e, he, h⟩

theorem dedupInto_cover {known : List Nat} {es : List Edge} {e : Edge} (he : e ∈ es) :
    e.target ∈ known ∨ ∃ e' ∈ (dedupInto known es).2, e'.target = e.target := by
  induction es generalizing known with
  | nil => cases he
  | cons y ys ih =>
    unfold dedupInto
    split
    · rename_i hk
      have hk' : y.target ∈ known := by simpa using hk
      rcases List.mem_cons.1 he with h | h
      · subst h; exact Or.inl hk'
      · exact ih h
    · simp only
      rcases List.mem_cons.1 he with h | h
      · subst h; exact Or.inr ⟨e, by simp, rfl⟩
      · rcases ih (known := y.target :: known) h with h' | ⟨e', he', h'⟩
        · rcases List.mem_cons.1 h' with h'' | h''
          · exact Or.inr ⟨y, by simp, h''.symm⟩
          · exact Or.inl h''
        · exact Or.inr ⟨e', List.mem_cons_of_mem _ he', h'⟩

/-! ### `mergeParts` -/

theorem mergeParts_sub {known : List Nat} {parts : List Part} {e : Edge} :
    e ∈ mergeParts known parts → ∃ part ∈ parts, e ∈ part.2 := by
  induction parts generalizing known with
  | nil => simp [mergeParts]
  | cons p ps ih =>
    obtain ⟨b, es⟩ := p
    cases b with
    | false =>
      simp only [mergeParts, List.mem_append]
      rintro (h | h)
      · exact ⟨(false, es), by simp, h⟩
      · obtain ⟨part, hp, he⟩ := ih h
        exact ⟨part, List.mem_cons_of_mem _ hp, he⟩
    | true =>
      simp only [mergeParts, List.mem_append]
      rintro (h | h)
      · exact ⟨(true, es), by simp, dedupInto_sub h⟩
      · obtain ⟨part, hp, he⟩ := ih h
        exact ⟨part, List.mem_cons_of_mem _ hp, he⟩

theorem mergeParts_cover {known : List Nat} {parts : List Part} {part : Part} {e : Edge}
    (hp : part ∈ parts) (he : e ∈ part.2) :
    e.target ∈ known ∨ ∃ e' ∈ mergeParts known parts, e'.target = e.target := by
  induction parts generalizing known with
  | nil => cases hp
  | cons p ps ih =>
    obtain ⟨b, es⟩ := p
    cases b with
    | false =>
      simp only [mergeParts]
      rcases List.mem_cons.1 hp with h | h
      · subst h
        exact Or.inr ⟨e, List.mem_append_left _ he, rfl⟩
      · rcases ih (known := known) h with h' | ⟨e', he', h'⟩
        · exact Or.inl h'
        · exact Or.inr ⟨e', List.mem_append_right _ he', h'⟩
    | true =>
      simp only [mergeParts]
      rcases List.mem_cons.1 hp with h | h
      · subst h
        rcases dedupInto_cover (known := known) he with h' | ⟨e', he', h'⟩
        · exact Or.inl h'
        · exact Or.inr ⟨e', List.mem_append_left _ he', h'⟩
      · rcases ih (known := (dedupInto known es).1) h with h' | ⟨e', he', h'⟩
        · rcases dedupInto_known.1 h' with h'' | ⟨e0, he0, h''⟩
          · exact Or.inl h''
          · rcases dedupInto_cover (known := known) he0 with h3 | ⟨e', he', h3⟩
            · exact Or.inl (h'' ▸ h3)
            · exact Or.inr ⟨e', List.mem_append_left _ he', by rw [h3, h'']⟩
        · exact Or.inr ⟨e', List.mem_append_right _ he', h'⟩

/-! ### `removeTransitive` -/

theorem removeTransitive_sub {A : List (List Nat)} {es : List Edge} {e : Edge} :
    e ∈ removeTransitive A es → e ∈ es := by
  unfold removeTransitive
  split
  · exact id
  · intro h; exact (List.mem_filter.1 h).1

theorem mem_reachableTargets {es : List Edge} {t : Nat} :
    t ∈ reachableTargets es ↔ ∃ e ∈ es, e.isMissing = false ∧ e.target = t := by
  simp [reachableTargets, and_assoc]

/-- every non-missing edge survives `removeTransitive` or is an ancestor of a surviving target -/
theorem removeTransitive_cover {G : Graph} (hwf : WF G) {es : List Edge} (N : Nat)
    (hN : ∀ e ∈ es, e.target ≤ N) {e : Edge} (he : e ∈ es) (hm : e.isMissing = false) :
    ∃ e' ∈ removeTransitive (ancTable G) es, e'.isMissing = false ∧ Anc G e.target e'.target := by
  unfold removeTransitive
  split
  · exact ⟨e, he, hm, Anc.refl _⟩
  · -- induction on the distance of the target to the bound
    generalize hk : N - e.target = k
    induction k using Nat.strongRecOn generalizing e with
    | _ k ih =>
      by_cases hkeep : ((reachableTargets es).any fun t => t != e.target && isAnc (ancTable G) e.target t) = true
      · simp only [List.any_eq_true, Bool.and_eq_true, bne_iff_ne, ne_eq, isAnc_iff hwf] at hkeep
        obtain ⟨t, ht, hne, hanc⟩ := hkeep
        obtain ⟨e2, he2, hm2, rfl⟩ := mem_reachableTargets.1 ht
        have hlt : e.target < e2.target := by
          have := hanc.le hwf
          omega
        have hb := hN e2 he2
        obtain ⟨e', he', hm', ha'⟩ := ih (N - e2.target) (by omega) he2 hm2 rfl
        exact ⟨e', he', hm', hanc.trans ha'⟩
      · refine ⟨e, List.mem_filter.2 ⟨he, ?_⟩, hm, Anc.refl _⟩
        simp only [Bool.not_eq_true] at hkeep
        simp [hm, hkeep]

/-! ### what the edges mean -/

/-- `ExtDesc G S c m`: `m` is a parent of `c`, or reached from `c` through commits outside `S` -/
inductive ExtDesc (G : Graph) (S : List Nat) : Nat → Nat → Prop
  | parent {c m : Nat} : m ∈ parents G c → ExtDesc G S c m
  | step {c q m : Nat} : q ∈ parents G c → q ∉ S → ExtDesc G S q m → ExtDesc G S c m

/-- `Via G S c t`: there is a path `c → x₁ → … → xₖ → t` with `k ≥ 1` and every `xᵢ` outside `S` -/
def Via (G : Graph) (S : List Nat) (c t : Nat) : Prop :=
  ∃ q ∈ parents G c, q ∉ S ∧ ExtDesc G S q t

/-- no ancestor of `t` (nor `t` itself) is shown -/
def NoShownAnc (G : Graph) (S : List Nat) (t : Nat) : Prop := ∀ a, Anc G a t → a ∉ S

theorem ExtDesc.anc {G : Graph} {S : List Nat} {c m : Nat} (h : ExtDesc G S c m) : Anc G m c := by
  induction h with
  | parent hp => exact Anc.parent hp
  | step hq _ _ ih => exact ih.trans (Anc.parent hq)

theorem ExtDesc.lt {G : Graph} (hwf : WF G) {S : List Nat} {c m : Nat} (h : ExtDesc G S c m) : m < c := by
  induction h with
  | parent hp => exact hwf _ _ hp
  | step hq _ _ ih => have := hwf _ _ hq; omega

theorem Via.anc {G : Graph} {S : List Nat} {c t : Nat} (h : Via G S c t) : Anc G t c := by
  obtain ⟨q, hq, _, hd⟩ := h
  exact hd.anc.trans (Anc.parent hq)

theorem Via.lt {G : Graph} (hwf : WF G) {S : List Nat} {c t : Nat} (h : Via G S c t) : t < c := by
  obtain ⟨q, hq, _, hd⟩ := h
  have := hd.lt hwf; have := hwf _ _ hq; omega

/-- the meaning of one edge `e` in the edge list of commit `i`, where `K` is the kind used for a
parent that is shown (`direct` for shown commits, `indirect` while walking external commits) -/
def EdgeOK (G : Graph) (S : List Nat) (K : Kind) (i : Nat) (e : Edge) : Prop :=
  (e.kind = .missing → e.target ∉ S ∧ NoShownAnc G S e.target ∧ ExtDesc G S i e.target) ∧
  (e.kind ≠ .missing →
    e.target ∈ S ∧ ((e.kind = K ∧ e.target ∈ parents G i) ∨ (e.kind = .indirect ∧ Via G S i e.target)))

/-- every shown proper ancestor of `i` is an ancestor-or-self of a non-missing edge target -/
def Covers (G : Graph) (S : List Nat) (i : Nat) (es : List Edge) : Prop :=
  ∀ a ∈ S, a ≠ i → Anc G a i → ∃ e ∈ es, e.isMissing = false ∧ Anc G a e.target

structure RowOK (G : Graph) (S : List Nat) (K : Kind) (i : Nat) (es : List Edge) : Prop where
  ok : ∀ e ∈ es, EdgeOK G S K i e
  covers : Covers G S i es

theorem isMissing_iff {e : Edge} : e.isMissing = true ↔ e.kind = .missing := by
  unfold Edge.isMissing; cases e.kind <;> simp

theorem isMissing_false_iff {e : Edge} : e.isMissing = false ↔ e.kind ≠ .missing := by
  unfold Edge.isMissing; cases e.kind <;> simp

theorem EdgeOK.missing_iff {G : Graph} {S : List Nat} {K : Kind} {i : Nat} {e : Edge}
    (h : EdgeOK G S K i e) : e.isMissing = true ↔ e.target ∉ S := by
  rw [isMissing_iff]
  constructor
  · intro hk; exact (h.1 hk).1
  · intro hn
    apply Classical.byContradiction
    intro hk
    exact hn (h.2 hk).1

theorem EdgeOK.anc {G : Graph} {S : List Nat} {K : Kind} {i : Nat} {e : Edge}
    (h : EdgeOK G S K i e) : Anc G e.target i := by
  by_cases hk : e.kind = .missing
  · exact (h.1 hk).2.2.anc
  · rcases (h.2 hk).2 with h' | h'
    · exact Anc.parent h'.2
    · exact h'.2.anc

theorem EdgeOK.lt {G : Graph} (hwf : WF G) {S : List Nat} {K : Kind} {i : Nat} {e : Edge}
    (h : EdgeOK G S K i e) : e.target < i := by
  by_cases hk : e.kind = .missing
  · exact (h.1 hk).2.2.lt hwf
  · rcases (h.2 hk).2 with h' | h'
    · exact hwf _ _ h'.2
    · exact h'.2.lt hwf

/-- lifting an edge of the external parent `p` to its child `i` -/
theorem EdgeOK.lift {G : Graph} {S : List Nat} {K : Kind} {i p : Nat} {e : Edge}
    (hp : p ∈ parents G i) (hpS : p ∉ S) (h : EdgeOK G S .indirect p e) : EdgeOK G S K i e := by
  refine ⟨fun hk => ?_, fun hk => ?_⟩
  · obtain ⟨h1, h2, h3⟩ := h.1 hk
    exact ⟨h1, h2, ExtDesc.step hp hpS h3⟩
  · obtain ⟨h1, h2⟩ := h.2 hk
    refine ⟨h1, Or.inr ?_⟩
    rcases h2 with h' | h'
    · exact ⟨h'.1, p, hp, hpS, ExtDesc.parent h'.2⟩
    · obtain ⟨q, hq, hqS, hd⟩ := h'.2
      exact ⟨h'.1, p, hp, hpS, ExtDesc.step hq hqS hd⟩

theorem allMissing_iff {es : List Edge} : allMissing es = true ↔ ∀ e ∈ es, e.isMissing = true := by
  simp [allMissing]

section rows
variable {G : Graph} {S : List Nat} {skipT : Bool}

/-- the part contributed by parent `p` of `i` consists of correct edges -/
theorem partOf_ok {K : Kind} (hK : K ≠ .missing) {i p : Nat} {ext : List (List Edge)}
    (hp : p ∈ parents G i) (hrow : RowOK G S .indirect p (ext.getD p [])) :
    ∀ e ∈ (partOf S K ext p).2, EdgeOK G S K i e := by
  intro e he
  unfold partOf at he
  by_cases hS : S.contains p = true
  · simp only [hS, if_true, List.mem_singleton] at he
    subst he
    have : p ∈ S := by simpa using hS
    exact ⟨fun hk => by simp only at hk; exact absurd hk hK, fun _ => ⟨this, Or.inl ⟨rfl, hp⟩⟩⟩
  · have hpS : p ∉ S := by simpa using hS
    simp only [hS] at he
    by_cases ham : allMissing (ext.getD p []) = true
    · simp only [ham, if_true, List.mem_singleton, Bool.false_eq_true, if_false] at he
      subst he
      refine ⟨fun _ => ⟨hpS, ?_, ExtDesc.parent hp⟩, fun hk => absurd rfl hk⟩
      intro a ha haS
      by_cases hap : a = p
      · subst hap; exact hpS haS
      · obtain ⟨e, he, hm, _⟩ := hrow.covers a haS hap ha
        have := allMissing_iff.1 ham e he
        rw [this] at hm; cases hm
    · simp only [ham, Bool.false_eq_true, if_false] at he
      exact (hrow.ok e he).lift hp hpS

/-- … and covers every shown ancestor that lies below `p` -/
theorem partOf_covers {K : Kind} (hK : K ≠ .missing) {p : Nat} {ext : List (List Edge)}
    (hrow : RowOK G S .indirect p (ext.getD p [])) {a : Nat} (haS : a ∈ S) (hap : Anc G a p) :
    ∃ e ∈ (partOf S K ext p).2, e.isMissing = false ∧ Anc G a e.target := by
  unfold partOf
  by_cases hS : S.contains p = true
  · simp only [hS, if_true]
    refine ⟨⟨p, K⟩, by simp, ?_, hap⟩
    exact isMissing_false_iff.2 hK
  · have hpS : p ∉ S := by simpa using hS
    have hne : a ≠ p := fun h => hpS (h ▸ haS)
    obtain ⟨e, he, hm, ha⟩ := hrow.covers a haS hne hap
    have ham : allMissing (ext.getD p []) = false := by
      cases hv : allMissing (ext.getD p []) with
      | false => rfl
      | true =>
        have := allMissing_iff.1 hv e he
        rw [this] at hm; cases hm
    simp only [hS, ham, Bool.false_eq_true, if_false]
    exact ⟨e, he, hm, ha⟩

/-- the row computed by `combine` for commit `i` from correct rows of its parents is correct -/
theorem combine_rowOK (hwf : WF G) {K : Kind} (hK : K ≠ .missing) {i : Nat} {ext : List (List Edge)}
    (hrows : ∀ p ∈ parents G i, RowOK G S .indirect p (ext.getD p [])) :
    RowOK G S K i (combine (ancTable G) S skipT K ext (parents G i)) := by
  -- the merged list before transitive-edge removal
  have merged : RowOK G S K i (mergeParts [] ((parents G i).map (partOf S K ext))) := by
    have hok : ∀ e ∈ mergeParts [] ((parents G i).map (partOf S K ext)), EdgeOK G S K i e := by
      intro e he
      obtain ⟨part, hpart, hin⟩ := mergeParts_sub he
      obtain ⟨p, hp, rfl⟩ := List.mem_map.1 hpart
      exact partOf_ok hK hp (hrows p hp) e hin
    refine ⟨hok, ?_⟩
    intro a haS hne hanc
    rcases anc_iff.1 hanc with h | ⟨p, hp, hap⟩
    · exact absurd h hne
    · obtain ⟨e, he, hm, hae⟩ := partOf_covers hK (hrows p hp) haS hap
      have heok := partOf_ok hK hp (hrows p hp) e he
      rcases mergeParts_cover (known := []) (List.mem_map.2 ⟨p, hp, rfl⟩) he with h | ⟨e', he', ht⟩
      · cases h
      · refine ⟨e', he', ?_, by rw [ht]; exact hae⟩
        have h1 : e.target ∈ S := by
          apply Classical.byContradiction
          intro hn
          have := heok.missing_iff.2 hn
          rw [this] at hm; cases hm
        cases hv : e'.isMissing with
        | false => rfl
        | true => exact absurd (ht ▸ h1) ((hok e' he').missing_iff.1 hv)
  unfold combine
  split
  · -- exactly one parent
    rename_i p hps
    have hp : p ∈ parents G i := by rw [hps]; simp
    refine ⟨partOf_ok hK hp (hrows p hp), ?_⟩
    intro a haS hne hanc
    rcases anc_iff.1 hanc with h | ⟨q, hq, haq⟩
    · exact absurd h hne
    · rw [hps] at hq
      have : q = p := by simpa using hq
      subst this
      exact partOf_covers hK (hrows q hp) haS haq
  · cases skipT with
    | false => simpa using merged
    | true =>
      simp only [if_true]
      refine ⟨fun e he => merged.ok e (removeTransitive_sub he), ?_⟩
      intro a haS hne hanc
      obtain ⟨e, he, hm, hae⟩ := merged.covers a haS hne hanc
      have hN : ∀ e ∈ mergeParts [] ((parents G i).map (partOf S K ext)), e.target ≤ i :=
        fun e he => Nat.le_of_lt ((merged.ok e he).lt hwf)
      obtain ⟨e', he', hm', ha'⟩ := removeTransitive_cover hwf i hN he hm
      exact ⟨e', he', hm', hae.trans ha'⟩

/-- every row of the table of external commits is correct -/
theorem extTable_row (hwf : WF G) (k : Nat) :
    ∀ i, i < k → RowOK G S .indirect i
      ((memo (fun t i => combine (ancTable G) S skipT .indirect t (parents G i)) k).getD i []) := by
  intro i
  induction i using Nat.strongRecOn generalizing k with
  | _ i ih =>
    intro hik
    rw [memo_getD _ hik]
    exact combine_rowOK hwf (by simp) (fun p hp => ih p (hwf _ _ hp) i (hwf _ _ hp))

/-- the edges of a shown commit are correct -/
theorem nodeEdges_rowOK (hwf : WF G) {c : Nat} (hc : c < G.length) :
    RowOK G S .direct c (nodeEdges G (ancTable G) S skipT (extTable G (ancTable G) S skipT) c) := by
  unfold nodeEdges
  refine combine_rowOK hwf (by simp) (fun p hp => ?_)
  exact extTable_row hwf G.length p (by have := hwf _ _ hp; omega)

theorem mem_graphOf {c : Nat} {es : List Edge} :
    (c, es) ∈ graphOf G S skipT ↔
      c < G.length ∧ c ∈ S ∧
        es = nodeEdges G (ancTable G) S skipT (extTable G (ancTable G) S skipT) c := by
  unfold graphOf
  simp only [List.mem_map, mem_descFilter, List.contains_iff_mem, Prod.mk.injEq]
  constructor
  · rintro ⟨c', ⟨h1, h2⟩, rfl, rfl⟩
    exact ⟨h1, h2, rfl⟩
  · rintro ⟨h1, h2, rfl⟩
    exact ⟨c, ⟨h1, h2⟩, rfl, rfl⟩

end rows

end JjModel.Graph
