import JjModel.Lemmas.IndexHeads
/-!
  Loop invariant of `common_ancestors_pos` (`gcaLoop`): the two heaps walk down the ancestors of
  the two input sets in lock step; every position where they meet is recorded (and *not* expanded
  further — `heads_pos` removes what is still dominated afterwards).
-/
namespace JjModel.Index

/-- `y` is an ancestor of some member of `S` -/
def AncOf (idx : Index) (S : List Nat) (y : Nat) : Prop := ∃ d ∈ S, Reach idx y d

/-- `y` is a common ancestor of the two sets -/
def Common (idx : Index) (s1 s2 : List Nat) (y : Nat) : Prop := AncOf idx s1 y ∧ AncOf idx s2 y

structure GcaInv (idx : Index) (s1 s2 h1 h2 res : List Nat) : Prop where
  sound1 : ∀ x ∈ h1, AncOf idx s1 x
  sound2 : ∀ x ∈ h2, AncOf idx s2 x
  resCommon : ∀ r ∈ res, Common idx s1 s2 r
  complete : ∀ y, Common idx s1 s2 y →
    ((∃ x1 ∈ h1, Reach idx y x1) ∧ (∃ x2 ∈ h2, Reach idx y x2)) ∨ ∃ r ∈ res, Reach idx y r
  below1 : ∀ r ∈ res, ∀ x ∈ h1, x < r
  below2 : ∀ r ∈ res, ∀ x ∈ h2, x < r
  sorted : res.Pairwise (· < ·)

/-- what the loop returns -/
structure GcaOut (idx : Index) (s1 s2 L : List Nat) : Prop where
  common : ∀ r ∈ L, Common idx s1 s2 r
  covers : ∀ y, Common idx s1 s2 y → ∃ r ∈ L, Reach idx y r
  sorted : L.Pairwise (· > ·)

theorem GcaInv.out_left {idx : Index} {s1 s2 h2 res : List Nat} (inv : GcaInv idx s1 s2 [] h2 res) :
    GcaOut idx s1 s2 res.reverse where
  common := fun r hr => inv.resCommon r (List.mem_reverse.mp hr)
  covers := fun y hy => by
    rcases inv.complete y hy with ⟨⟨x, hx, _⟩, _⟩ | ⟨r, hr, hrr⟩
    · simp at hx
    · exact ⟨r, List.mem_reverse.mpr hr, hrr⟩
  sorted := by
    rw [List.pairwise_reverse]
    exact inv.sorted.imp (fun h => h)

theorem GcaInv.out_right {idx : Index} {s1 s2 h1 res : List Nat} (inv : GcaInv idx s1 s2 h1 [] res) :
    GcaOut idx s1 s2 res.reverse where
  common := fun r hr => inv.resCommon r (List.mem_reverse.mp hr)
  covers := fun y hy => by
    rcases inv.complete y hy with ⟨_, ⟨x, hx, _⟩⟩ | ⟨r, hr, hrr⟩
    · simp at hx
    · exact ⟨r, List.mem_reverse.mpr hr, hrr⟩
  sorted := by
    rw [List.pairwise_reverse]
    exact inv.sorted.imp (fun h => h)

/-- `shift_to_parents` on the first heap when its maximum is above the other heap's maximum -/
theorem GcaInv.shift1 {idx : Index} (hwf : IndexWF idx) {s1 s2 h1 h2 res : List Nat} {p1 p2 : Nat}
    (inv : GcaInv idx s1 s2 h1 h2 res) (hp1 : peek h1 = some p1) (hp2 : peek h2 = some p2) (hgt : p1 > p2) :
    GcaInv idx s1 s2 (shiftToParents idx h1 p1) h2 res := by
  obtain ⟨hm1, hmax1⟩ := peek_some hp1
  obtain ⟨hm2, hmax2⟩ := peek_some hp2
  refine ⟨?_, inv.sound2, inv.resCommon, ?_, ?_, inv.below2, inv.sorted⟩
  · intro x hx
    rcases mem_shiftToParents.mp hx with hpar | ⟨hx', _⟩
    · obtain ⟨d, hd, hr⟩ := inv.sound1 p1 hm1
      exact ⟨d, hd, Reach.trans (Reach.step hpar (Reach.refl _)) hr⟩
    · exact inv.sound1 x hx'
  · intro y hy
    rcases inv.complete y hy with ⟨⟨x1, hx1, hr1⟩, ⟨x2, hx2, hr2⟩⟩ | hres
    · left
      refine ⟨?_, ⟨x2, hx2, hr2⟩⟩
      by_cases he : x1 = p1
      · subst he
        have := reach_le hwf hr2
        have := hmax2 x2 hx2
        rcases reach_cases hr1 with rfl | ⟨q, hq, hrq⟩
        · omega
        · exact ⟨q, mem_shiftToParents.mpr (Or.inl hq), hrq⟩
      · exact ⟨x1, mem_shiftToParents.mpr (Or.inr ⟨hx1, he⟩), hr1⟩
    · exact Or.inr hres
  · intro r hr x hx
    rcases mem_shiftToParents.mp hx with hpar | ⟨hx', _⟩
    · have := parentsOf_lt hwf hpar
      have := inv.below1 r hr p1 hm1
      omega
    · exact inv.below1 r hr x hx'

theorem GcaInv.shift2 {idx : Index} (hwf : IndexWF idx) {s1 s2 h1 h2 res : List Nat} {p1 p2 : Nat}
    (inv : GcaInv idx s1 s2 h1 h2 res) (hp1 : peek h1 = some p1) (hp2 : peek h2 = some p2) (hlt : p1 < p2) :
    GcaInv idx s1 s2 h1 (shiftToParents idx h2 p2) res := by
  obtain ⟨hm1, hmax1⟩ := peek_some hp1
  obtain ⟨hm2, hmax2⟩ := peek_some hp2
  refine ⟨inv.sound1, ?_, inv.resCommon, ?_, inv.below1, ?_, inv.sorted⟩
  · intro x hx
    rcases mem_shiftToParents.mp hx with hpar | ⟨hx', _⟩
    · obtain ⟨d, hd, hr⟩ := inv.sound2 p2 hm2
      exact ⟨d, hd, Reach.trans (Reach.step hpar (Reach.refl _)) hr⟩
    · exact inv.sound2 x hx'
  · intro y hy
    rcases inv.complete y hy with ⟨⟨x1, hx1, hr1⟩, ⟨x2, hx2, hr2⟩⟩ | hres
    · left
      refine ⟨⟨x1, hx1, hr1⟩, ?_⟩
      by_cases he : x2 = p2
      · subst he
        have := reach_le hwf hr1
        have := hmax1 x1 hx1
        rcases reach_cases hr2 with rfl | ⟨q, hq, hrq⟩
        · omega
        · exact ⟨q, mem_shiftToParents.mpr (Or.inl hq), hrq⟩
      · exact ⟨x2, mem_shiftToParents.mpr (Or.inr ⟨hx2, he⟩), hr2⟩
    · exact Or.inr hres
  · intro r hr x hx
    rcases mem_shiftToParents.mp hx with hpar | ⟨hx', _⟩
    · have := parentsOf_lt hwf hpar
      have := inv.below2 r hr p2 hm2
      omega
    · exact inv.below2 r hr x hx'

/-- both heaps have the same maximum: it is a common ancestor; it is recorded and dropped -/
theorem GcaInv.meet {idx : Index} {s1 s2 h1 h2 res : List Nat} {p : Nat}
    (inv : GcaInv idx s1 s2 h1 h2 res) (hp1 : peek h1 = some p) (hp2 : peek h2 = some p) :
    GcaInv idx s1 s2 (removeAll p h1) (removeAll p h2) (p :: res) := by
  obtain ⟨hm1, hmax1⟩ := peek_some hp1
  obtain ⟨hm2, hmax2⟩ := peek_some hp2
  refine ⟨?_, ?_, ?_, ?_, ?_, ?_, ?_⟩
  · exact fun x hx => inv.sound1 x (mem_removeAll.mp hx).1
  · exact fun x hx => inv.sound2 x (mem_removeAll.mp hx).1
  · intro r hr
    rcases List.mem_cons.mp hr with rfl | hr'
    · exact ⟨inv.sound1 _ hm1, inv.sound2 _ hm2⟩
    · exact inv.resCommon r hr'
  · intro y hy
    rcases inv.complete y hy with ⟨⟨x1, hx1, hr1⟩, ⟨x2, hx2, hr2⟩⟩ | ⟨r, hr, hrr⟩
    · by_cases he1 : x1 = p
      · subst he1; exact Or.inr ⟨x1, by simp, hr1⟩
      · by_cases he2 : x2 = p
        · subst he2; exact Or.inr ⟨x2, by simp, hr2⟩
        · exact Or.inl ⟨⟨x1, mem_removeAll.mpr ⟨hx1, he1⟩, hr1⟩, ⟨x2, mem_removeAll.mpr ⟨hx2, he2⟩, hr2⟩⟩
    · exact Or.inr ⟨r, by simp [hr], hrr⟩
  · intro r hr x hx
    obtain ⟨hx', hne⟩ := mem_removeAll.mp hx
    rcases List.mem_cons.mp hr with rfl | hr'
    · have := hmax1 x hx'; omega
    · exact inv.below1 r hr' x hx'
  · intro r hr x hx
    obtain ⟨hx', hne⟩ := mem_removeAll.mp hx
    rcases List.mem_cons.mp hr with rfl | hr'
    · have := hmax2 x hx'; omega
    · exact inv.below2 r hr' x hx'
  · exact List.pairwise_cons.mpr ⟨fun r hr => inv.below1 r hr p hm1, inv.sorted⟩

theorem gcaLoop_spec {idx : Index} (hwf : IndexWF idx) (s1 s2 : List Nat) :
    ∀ (fuel : Nat) (h1 h2 res : List Nat), GcaInv idx s1 s2 h1 h2 res →
      (∀ x ∈ h1, ∀ y ∈ h2, x + y + 1 ≤ fuel) →
      GcaOut idx s1 s2 (gcaLoop idx fuel h1 h2 res) := by
  intro fuel
  induction fuel with
  | zero =>
    intro h1 h2 res inv hf
    simp only [gcaLoop]
    cases h1 with
    | nil => exact inv.out_left
    | cons x xs =>
      cases h2 with
      | nil => exact inv.out_right
      | cons y ys => have := hf x (by simp) y (by simp); omega
  | succ fuel ih =>
    intro h1 h2 res inv hf
    unfold gcaLoop
    split
    · next p1 p2 hp1 hp2 =>
      obtain ⟨hm1, hmax1⟩ := peek_some hp1
      obtain ⟨hm2, hmax2⟩ := peek_some hp2
      have hfp := hf p1 hm1 p2 hm2
      by_cases hgt : p1 > p2
      · simp only [hgt, if_true]
        apply ih _ _ _ (inv.shift1 hwf hp1 hp2 hgt)
        intro x hx y hy
        have : x < p1 := by
          rcases mem_shiftToParents.mp hx with hpar | ⟨hx', hne⟩
          · exact parentsOf_lt hwf hpar
          · have := hmax1 x hx'; omega
        have := hmax2 y hy
        omega
      · simp only [hgt, if_false]
        by_cases hlt : p1 < p2
        · simp only [hlt, if_true]
          apply ih _ _ _ (inv.shift2 hwf hp1 hp2 hlt)
          intro x hx y hy
          have : y < p2 := by
            rcases mem_shiftToParents.mp hy with hpar | ⟨hy', hne⟩
            · exact parentsOf_lt hwf hpar
            · have := hmax2 y hy'; omega
          have := hmax1 x hx
          omega
        · simp only [hlt, if_false]
          have heq : p1 = p2 := by omega
          subst heq
          apply ih _ _ _ (inv.meet hp1 hp2)
          intro x hx y hy
          obtain ⟨hx', hnx⟩ := mem_removeAll.mp hx
          obtain ⟨hy', hny⟩ := mem_removeAll.mp hy
          have := hmax1 x hx'
          have := hmax2 y hy'
          omega
    · next hnone =>
      cases hq1 : peek h1 with
      | none =>
        have := peek_none.mp hq1
        subst this
        exact inv.out_left
      | some p1 =>
        cases hq2 : peek h2 with
        | none =>
          have := peek_none.mp hq2
          subst this
          exact inv.out_right
        | some p2 => exact absurd hq2 (hnone p1 p2 hq1)

theorem gcaInv_init (idx : Index) (s1 s2 : List Nat) : GcaInv idx s1 s2 s1 s2 [] where
  sound1 := fun x hx => ⟨x, hx, Reach.refl _⟩
  sound2 := fun x hx => ⟨x, hx, Reach.refl _⟩
  resCommon := by simp
  complete := fun y hy => Or.inl hy
  below1 := by simp
  below2 := by simp
  sorted := List.Pairwise.nil

end JjModel.Index
