import JjModel.Model.Refs
import JjModel.Lemmas.MergeCounts
/-!
  Lemmas about the model of `refs.rs` (`Model/Refs.lean`): index characterisation of adds/removes,
  `Vec::swap_remove` / `Merge::swap_remove`, soundness and completeness of `find_pair_to_remove`.
-/
namespace JjModel.Refs
open JjModel.Merge

section Structure_
variable {α : Type}

theorem adds_getElem? (l : List α) (k : Nat) : (adds l)[k]? = l[2 * k]? := by
  fun_induction adds l generalizing k with
  | case1 => simp
  | case2 a => cases k <;> simp
  | case3 a b rest ih =>
    cases k with
    | zero => simp
    | succ k => simp [ih k, Nat.mul_succ]

theorem removes_getElem? (l : List α) (k : Nat) : (removes l)[k]? = l[2 * k + 1]? := by
  fun_induction removes l generalizing k with
  | case1 => simp
  | case2 a => simp
  | case3 a b rest ih =>
    cases k with
    | zero => simp
    | succ k => simp [ih k, Nat.mul_succ]

theorem length_adds (l : List α) : (adds l).length = (l.length + 1) / 2 := by
  fun_induction adds l <;> simp_all <;> omega

theorem length_removes (l : List α) : (removes l).length = l.length / 2 := by
  fun_induction removes l <;> simp_all <;> omega

theorem length_vecSwapRemove (l : List α) (i : Nat) : (vecSwapRemove l i).length = l.length - 1 := by
  unfold vecSwapRemove
  cases h : l.getLast? with
  | none => simp at h; simp [h]
  | some x => simp

theorem vecSwapRemove_getElem? (l : List α) (i j : Nat) :
    (vecSwapRemove l i)[j]? = if j + 1 < l.length then (if j = i then l[l.length - 1]? else l[j]?) else none := by
  unfold vecSwapRemove
  cases h : l.getLast? with
  | none => simp at h; simp [h]
  | some x =>
    rw [List.getLast?_eq_getElem?] at h
    simp only [List.getElem?_dropLast, List.length_set, List.getElem?_set]
    grind

theorem adds_swapRemove (m : List α) (ri ai : Nat) (hodd : m.length % 2 = 1) :
    adds (swapRemove m ri ai) = vecSwapRemove (adds m) ai := by
  apply List.ext_getElem?
  intro k
  simp only [adds_getElem?, swapRemove, vecSwapRemove_getElem?, length_vecSwapRemove, length_adds]
  grind

theorem removes_swapRemove (m : List α) (ri ai : Nat) (hodd : m.length % 2 = 1) :
    removes (swapRemove m ri ai) = vecSwapRemove (removes m) ri := by
  apply List.ext_getElem?
  intro k
  simp only [removes_getElem?, swapRemove, vecSwapRemove_getElem?, length_vecSwapRemove, length_removes]
  grind

theorem mem_of_mem_vecSwapRemove (l : List α) (i : Nat) (a : α) (h : a ∈ vecSwapRemove l i) : a ∈ l := by
  obtain ⟨j, hj⟩ := List.getElem?_of_mem h
  rw [vecSwapRemove_getElem?] at hj
  split at hj
  · split at hj <;> exact List.mem_of_getElem? hj
  · cases hj

theorem mem_vecSwapRemove_of_ne (l : List α) (i j : Nat) (a : α) (hi : i < l.length) (hj : l[j]? = some a)
    (hne : j ≠ i) : a ∈ vecSwapRemove l i := by
  obtain ⟨hjl, _⟩ := List.getElem?_eq_some_iff.mp hj
  by_cases hlast : j + 1 < l.length
  · apply List.mem_of_getElem? (i := j)
    rw [vecSwapRemove_getElem?, if_pos hlast, if_neg hne, hj]
  · apply List.mem_of_getElem? (i := i)
    rw [vecSwapRemove_getElem?, if_pos (by omega), if_pos rfl, ← hj]
    congr 1; omega

end Structure_

section Totals
variable {α : Type} [DecidableEq α]
/-- sum of indicators -/
def tot (l : List α) (v : α) : Int := (l.map (ind · v)).sum

theorem tot_append (l₁ l₂ : List α) (v : α) : tot (l₁ ++ l₂) v = tot l₁ v + tot l₂ v := by
  simp [tot]

theorem tot_dropLast (l : List α) (x : α) (v : α) (h : l.getLast? = some x) :
    tot l.dropLast v = tot l v - ind x v := by
  have hne : l ≠ [] := by rintro rfl; simp at h
  have := List.dropLast_concat_getLast hne
  have hx : l.getLast hne = x := by
    rw [List.getLast?_eq_some_getLast hne] at h; exact Option.some.inj h
  have e : tot l v = tot (l.dropLast ++ [x]) v := by rw [← hx, this]
  rw [e, tot_append]; simp [tot]

theorem tot_set (l : List α) (i : Nat) (a x : α) (v : α) (h : l[i]? = some a) :
    tot (l.set i x) v = tot l v - ind a v + ind x v := by
  induction l generalizing i with
  | nil => simp at h
  | cons y ys ih =>
    cases i with
    | zero => simp at h; subst h; simp [tot]; omega
    | succ i =>
      simp at h
      have := ih i h
      simp only [tot, List.set_cons_succ, List.map_cons, List.sum_cons] at *
      omega

theorem tot_vecSwapRemove (l : List α) (i : Nat) (a v : α) (h : l[i]? = some a) :
    tot (vecSwapRemove l i) v = tot l v - ind a v := by
  obtain ⟨hi, _⟩ := List.getElem?_eq_some_iff.mp h
  unfold vecSwapRemove
  cases hl : l.getLast? with
  | none => simp at hl; subst hl; simp at hi
  | some last =>
    simp only
    have hlast' : (l.set i last).getLast? = some last := by
      rw [List.getLast?_eq_getElem?, List.length_set, List.getElem?_set]
      rw [List.getLast?_eq_getElem?] at hl
      split
      · simp
      · exact hl
    rw [tot_dropLast _ last v hlast', tot_set l i a last v h]
    omega

theorem count_eq_tot (m : List α) (v : α) : count m v = tot (adds m) v - tot (removes m) v := by
  fun_induction count m v with
  | case1 => simp [adds, removes, tot]
  | case2 a => simp [adds, removes, tot]
  | case3 a r rest ih => simp only [adds, removes, tot, List.map_cons, List.sum_cons] at *; omega
end Totals

section Search
variable {α : Type}

theorem position_some (p : α → Bool) (l : List α) (i k : Nat) (h : position p l i = some k) :
    ∃ j x, k = i + j ∧ l[j]? = some x ∧ p x = true := by
  fun_induction position p l i with
  | case1 => simp at h
  | case2 x xs i hp => simp at h; exact ⟨0, x, by simp [h, hp]⟩
  | case3 x xs i hp ih =>
    obtain ⟨j, y, h1, h2, h3⟩ := ih h
    exact ⟨j + 1, y, by omega, by simpa using h2, h3⟩

theorem position_none (p : α → Bool) (l : List α) (i : Nat) (h : position p l i = none) :
    ∀ x ∈ l, p x = false := by
  fun_induction position p l i with
  | case1 => simp
  | case2 x xs i hp => simp at h
  | case3 x xs i hp ih => simp_all

variable (anc : Nat → Nat → Bool)

/-- what a successful `pickAdd` means -/
theorem pickAdd_some (i1 i2 : Nat) (a1 a2 : Option Nat) (ai x : Nat) (h : pickAdd anc i1 i2 a1 a2 = some (ai, x)) :
    ∃ y, (x = y ∨ anc x y = true) ∧
      ((ai = i1 ∧ a1 = some x ∧ a2 = some y) ∨ (ai = i2 ∧ a2 = some x ∧ a1 = some y)) := by
  unfold pickAdd at h
  split at h
  · rename_i id1 id2
    split at h
    · simp at h; exact ⟨id2, by grind⟩
    · split at h
      · simp at h; exact ⟨id2, by grind⟩
      · split at h
        · simp at h; exact ⟨id1, by grind⟩
        · simp at h
  · simp at h

/-- A removable pair: the add at `ai` is `some x`, some *other* add `aj` is `some y` with `x = y`
or `x` an ancestor of `y`, and the remove at `ri` is absent or an ancestor of `x`. -/
def Justified (as rs : Target) (ri ai : Nat) : Prop :=
  ∃ aj x y rm, aj ≠ ai ∧ as[ai]? = some (some x) ∧ as[aj]? = some (some y) ∧
    (x = y ∨ anc x y = true) ∧ rs[ri]? = some rm ∧ removeOk anc x rm = true

theorem innerLoop_sound (rems L : Target) (i1 : Nat) (a1 : Option Nat) (rest : List (Option Nat)) (i2 : Nat)
    (h1 : L[i1]? = some a1) (hlt : i1 < i2) (hrest : ∀ j, rest[j]? = L[i2 + j]?)
    (ri ai : Nat) (h : innerLoop anc rems i1 a1 rest i2 = some (ri, ai)) :
    Justified anc L rems ri ai := by
  fun_induction innerLoop anc rems i1 a1 rest i2 with
  | case1 => simp at h
  | case2 a2 rest i2 addIndex addId hp removeIndex hpos =>
    simp at h
    obtain ⟨rfl, rfl⟩ := h
    obtain ⟨y, hxy, hcase⟩ := pickAdd_some anc _ _ _ _ _ _ hp
    obtain ⟨j, rm, hj, hrm, hok⟩ := position_some _ _ _ _ hpos
    have h2 : L[i2]? = some a2 := by have := hrest 0; simpa using this.symm
    rcases hcase with ⟨e1, e2, e3⟩ | ⟨e1, e2, e3⟩
    · exact ⟨i2, addId, y, rm, by omega, by rw [e1, h1, e2], by rw [h2, e3], hxy, by simpa [hj] using hrm, hok⟩
    · exact ⟨i1, addId, y, rm, by omega, by rw [e1, h2, e2], by rw [h1, e3], hxy, by simpa [hj] using hrm, hok⟩
  | case3 a2 rest i2 addIndex addId hp hpos ih =>
    exact ih (by omega) (fun j => by have := hrest (j + 1); simp at this; rw [this]; congr 1; omega) h
  | case4 a2 rest i2 hp ih =>
    exact ih (by omega) (fun j => by have := hrest (j + 1); simp at this; rw [this]; congr 1; omega) h

theorem outerLoop_sound (rems L : Target) (as : List (Option Nat)) (i1 : Nat)
    (has : ∀ j, as[j]? = L[i1 + j]?) (ri ai : Nat) (h : outerLoop anc rems as i1 = some (ri, ai)) :
    Justified anc L rems ri ai := by
  fun_induction outerLoop anc rems as i1 with
  | case1 => simp at h
  | case2 a1 rest i1 p hp =>
    simp at h; subst h
    exact innerLoop_sound anc rems L i1 a1 rest (i1 + 1) (by have := has 0; simpa using this.symm) (by omega)
      (fun j => by have := has (j + 1); simp at this; rw [this]; congr 1; omega) ri ai hp
  | case3 a1 rest i1 hp ih =>
    exact ih (fun j => by have := has (j + 1); simp at this; rw [this]; congr 1; omega) h

theorem findPair_sound (m : Target) (ri ai : Nat) (h : findPairToRemove anc m = some (ri, ai)) :
    Justified anc (adds m) (removes m) ri ai :=
  outerLoop_sound anc _ _ _ 0 (by simp) ri ai h


theorem pickAdd_some_some (i1 i2 x y : Nat) :
    pickAdd anc i1 i2 (some x) (some y) =
      if x = y ∨ anc x y = true then some (i1, x) else if anc y x = true then some (i2, y) else none := by
  unfold pickAdd
  by_cases h1 : x = y <;> by_cases h2 : anc x y = true <;> simp [h1, h2]

/-- no remove is absent or an ancestor of `x` -/
def Dead (rems : Target) (x : Nat) : Prop := ∀ r ∈ rems, removeOk anc x r = false

/-- the (ordered) pair of adds `a1` (earlier), `a2` (later) offers no removable pair -/
def PairDead (rems : Target) (a1 a2 : Option Nat) : Prop :=
  ∀ x y, a1 = some x → a2 = some y →
    ((x = y ∨ anc x y = true) → Dead anc rems x) ∧
    (¬ (x = y ∨ anc x y = true) → anc y x = true → Dead anc rems y)

theorem innerLoop_none (rems : Target) (i1 : Nat) (a1 : Option Nat) (rest : List (Option Nat)) (i2 : Nat)
    (h : innerLoop anc rems i1 a1 rest i2 = none) : ∀ a2 ∈ rest, PairDead anc rems a1 a2 := by
  fun_induction innerLoop anc rems i1 a1 rest i2 with
  | case1 => simp
  | case2 a2 rest i2 addIndex addId hp removeIndex hpos => simp at h
  | case3 a2 rest i2 addIndex addId hp hpos ih =>
    intro a hmem
    rcases List.mem_cons.mp hmem with rfl | hmem
    · intro x y hx hy
      subst hx hy
      rw [pickAdd_some_some] at hp
      have hd := position_none _ _ _ hpos
      constructor
      · intro hc; rw [if_pos hc] at hp; simp at hp; rw [← hp.2] at hd; exact hd
      · intro hc hyx; rw [if_neg hc, if_pos hyx] at hp; simp at hp; rw [← hp.2] at hd; exact hd
    · exact ih h a hmem
  | case4 a2 rest i2 hp ih =>
    intro a hmem
    rcases List.mem_cons.mp hmem with rfl | hmem
    · intro x y hx hy
      subst hx hy
      rw [pickAdd_some_some] at hp
      constructor
      · intro hc; rw [if_pos hc] at hp; simp at hp
      · intro hc hyx; rw [if_neg hc, if_pos hyx] at hp; simp at hp
    · exact ih h a hmem

theorem outerLoop_none (rems : Target) (as : List (Option Nat)) (i1 : Nat)
    (h : outerLoop anc rems as i1 = none) : as.Pairwise (PairDead anc rems) := by
  fun_induction outerLoop anc rems as i1 with
  | case1 => simp
  | case2 a1 rest i1 p hp => simp at h
  | case3 a1 rest i1 hp ih =>
    exact List.Pairwise.cons (innerLoop_none anc _ _ _ _ _ hp) (ih h)

theorem removeOk_trans (htrans : ∀ a b c, anc a b = true → anc b c = true → anc a c = true)
    (x y : Nat) (rm : Option Nat) (h : removeOk anc x rm = true) (hxy : anc x y = true) : removeOk anc y rm = true := by
  cases rm with
  | none => rfl
  | some z => exact htrans z x y h hxy

/-- Completeness of the search: when `find_pair_to_remove` returns `None`, no removable pair exists. -/
theorem findPair_complete (htrans : ∀ a b c, anc a b = true → anc b c = true → anc a c = true)
    (m : Target) (h : findPairToRemove anc m = none) (ri ai : Nat) :
    ¬ Justified anc (adds m) (removes m) ri ai := by
  rintro ⟨aj, x, y, rm, hne, hx, hy, hxy, hrm, hok⟩
  have hpw := outerLoop_none anc _ _ _ h
  rw [List.pairwise_iff_getElem] at hpw
  have hrmem : rm ∈ removes m := List.mem_of_getElem? hrm
  obtain ⟨hai, hxe⟩ := List.getElem?_eq_some_iff.mp hx
  obtain ⟨haj, hye⟩ := List.getElem?_eq_some_iff.mp hy
  rcases Nat.lt_or_gt_of_ne hne with hlt | hlt
  · -- aj < ai : `y` is the earlier add
    have hd := hpw aj ai haj hai hlt y x hye hxe
    by_cases hc : y = x ∨ anc y x = true
    · have := hd.1 hc rm hrmem
      rcases hc with rfl | hc
      · rw [hok] at this; cases this
      · rcases hxy with rfl | hxy
        · rw [hok] at this; cases this
        · rw [removeOk_trans anc htrans x y rm hok hxy] at this; cases this
    · have hxy' : anc x y = true := by
        rcases hxy with rfl | hxy
        · exact absurd (Or.inl rfl) hc
        · exact hxy
      have := hd.2 hc hxy' rm hrmem
      rw [hok] at this; cases this
  · have hd := hpw ai aj hai haj hlt x y hxe hye
    have := hd.1 hxy rm hrmem
    rw [hok] at this; cases this

end Search

section Reduction
variable (anc : Nat → Nat → Bool)

/-- `m` reduces to `m'` by dropping justified (remove, add) pairs with `Merge::swap_remove`. -/
inductive Reduces : Target → Target → Prop
  | refl (m : Target) : Reduces m m
  | step (m m' : Target) (ri ai : Nat) : Justified anc (adds m) (removes m) ri ai →
      Reduces (swapRemove m ri ai) m' → Reduces m m'

theorem loop_reduces (fuel : Nat) (m : Target) : Reduces anc m (nonTrivialLoop anc fuel m) := by
  fun_induction nonTrivialLoop anc fuel m with
  | case1 m => exact .refl m
  | case2 fuel m ri ai h ih => exact .step m _ ri ai (findPair_sound anc m ri ai h) ih
  | case3 fuel m h => exact .refl m

theorem length_swapRemove {α : Type} (m : List α) (ri ai : Nat) : (swapRemove m ri ai).length = m.length - 2 := by
  simp [swapRemove, length_vecSwapRemove]; omega

theorem findPair_short (m : Target) (h : m.length ≤ 1) : findPairToRemove anc m = none := by
  match m, h with
  | [], _ => simp [findPairToRemove, adds, outerLoop]
  | [a], _ => simp [findPairToRemove, adds, outerLoop, innerLoop]

/-- the loop has reached its fixpoint when the fuel is at least half the arity -/
theorem loop_fixpoint (fuel : Nat) (m : Target) (h : m.length ≤ 2 * fuel + 1) :
    findPairToRemove anc (nonTrivialLoop anc fuel m) = none := by
  fun_induction nonTrivialLoop anc fuel m with
  | case1 m => exact findPair_short anc m (by omega)
  | case2 fuel m ri ai hf ih => exact ih (by rw [length_swapRemove]; omega)
  | case3 fuel m hf => exact hf

theorem justified_bounds {as rs : Target} {ri ai : Nat} (h : Justified anc as rs ri ai) :
    ri < rs.length ∧ ai < as.length ∧ 2 ≤ as.length := by
  obtain ⟨aj, x, y, rm, hne, hx, hy, _, hr, _⟩ := h
  have h1 := (List.getElem?_eq_some_iff.mp hx).1
  have h2 := (List.getElem?_eq_some_iff.mp hy).1
  have h3 := (List.getElem?_eq_some_iff.mp hr).1
  omega

theorem reduces_odd (m m' : Target) (h : Reduces anc m m') (hodd : m.length % 2 = 1) : m'.length % 2 = 1 := by
  induction h with
  | refl m => exact hodd
  | step m m' ri ai hj _ ih =>
    apply ih
    have := (justified_bounds anc hj).1
    rw [length_removes] at this
    rw [length_swapRemove]; omega

theorem reduces_mem (m m' : Target) (h : Reduces anc m m') : ∀ t ∈ m', t ∈ m := by
  induction h with
  | refl m => exact fun t ht => ht
  | step m m' ri ai hj _ ih =>
    intro t ht
    exact mem_of_mem_vecSwapRemove _ _ _ (mem_of_mem_vecSwapRemove _ _ _ (ih t ht))

/-- `x` is an ancestor-or-equal of an add that survives in `m'` -/
def BelowSurvivor (m' : Target) (x : Nat) : Prop := ∃ s, some s ∈ adds m' ∧ (x = s ∨ anc x s = true)

theorem reduces_adds_covered (htrans : ∀ a b c, anc a b = true → anc b c = true → anc a c = true)
    (m m' : Target) (h : Reduces anc m m') (hodd : m.length % 2 = 1) :
    ∀ a ∈ adds m, a ∈ adds m' ∨ ∃ x, a = some x ∧ BelowSurvivor anc m' x := by
  induction h with
  | refl m => exact fun a ha => Or.inl ha
  | step m m' ri ai hj hr ih =>
    have hodd' : (swapRemove m ri ai).length % 2 = 1 := reduces_odd anc _ _ (.step m _ ri ai hj (.refl _)) hodd
    have ih := ih hodd'
    have hb := justified_bounds anc hj
    obtain ⟨aj, x, y, rm, hne, hx, hy, hxy, hrm, hok⟩ := hj
    intro a ha
    obtain ⟨j, hj⟩ := List.getElem?_of_mem ha
    by_cases hja : j = ai
    · subst hja
      rw [hx] at hj
      have hymem : some y ∈ adds (swapRemove m ri j) := by
        rw [adds_swapRemove m ri j hodd]
        exact mem_vecSwapRemove_of_ne _ _ _ _ hb.2.1 hy hne
      right
      refine ⟨x, (Option.some.inj hj).symm, ?_⟩
      rcases ih _ hymem with h1 | ⟨y', hy', s, hs, hys⟩
      · exact ⟨y, h1, hxy⟩
      · cases hy'
        refine ⟨s, hs, ?_⟩
        rcases hxy with rfl | hxy
        · exact hys
        · rcases hys with rfl | hys
          · exact Or.inr hxy
          · exact Or.inr (htrans _ _ _ hxy hys)
    · have : a ∈ adds (swapRemove m ri ai) := by
        rw [adds_swapRemove m ri ai hodd]
        exact mem_vecSwapRemove_of_ne _ _ _ _ hb.2.1 hj hja
      exact ih a this


/-- signed contribution of a list of dropped `(remove, add)` pairs -/
def droppedCount (ds : List (Option Nat × Nat)) (v : Option Nat) : Int :=
  (ds.map fun d => ind (some d.2) v - ind d.1 v).sum

theorem count_swapRemove (m : Target) (ri ai : Nat) (hodd : m.length % 2 = 1) (a rm : Option Nat)
    (ha : (adds m)[ai]? = some a) (hr : (removes m)[ri]? = some rm) (v : Option Nat) :
    count (swapRemove m ri ai) v = count m v - ind a v + ind rm v := by
  rw [count_eq_tot, count_eq_tot, adds_swapRemove m ri ai hodd, removes_swapRemove m ri ai hodd,
    tot_vecSwapRemove _ _ _ _ ha, tot_vecSwapRemove _ _ _ _ hr]
  omega

theorem reduces_spec (htrans : ∀ a b c, anc a b = true → anc b c = true → anc a c = true)
    (m m' : Target) (h : Reduces anc m m') (hodd : m.length % 2 = 1) :
    ∃ ds : List (Option Nat × Nat),
      (∀ v, count m v = count m' v + droppedCount ds v) ∧
      ∀ d ∈ ds, removeOk anc d.2 d.1 = true ∧ BelowSurvivor anc m' d.2 := by
  induction h with
  | refl m => exact ⟨[], by simp [droppedCount], by simp⟩
  | step m m' ri ai hj hr ih =>
    have hodd' : (swapRemove m ri ai).length % 2 = 1 := reduces_odd anc _ _ (.step m _ ri ai hj (.refl _)) hodd
    obtain ⟨ds, hcount, hds⟩ := ih hodd'
    have hcov := reduces_adds_covered anc htrans m m' (.step m m' ri ai hj hr) hodd
    obtain ⟨aj, x, y, rm, hne, hx, hy, hxy, hrm, hok⟩ := hj
    refine ⟨(rm, x) :: ds, ?_, ?_⟩
    · intro v
      have := count_swapRemove m ri ai hodd _ _ hx hrm v
      have := hcount v
      simp only [droppedCount, List.map_cons, List.sum_cons] at *
      omega
    · intro d hd
      rcases List.mem_cons.mp hd with rfl | hd
      · refine ⟨hok, ?_⟩
        rcases hcov (some x) (List.mem_of_getElem? hx) with h1 | ⟨x', hx', hbs⟩
        · exact ⟨x, h1, Or.inl rfl⟩
        · cases hx'; exact hbs
      · exact hds d hd

end Reduction

section TrivialMem
variable {α : Type} [DecidableEq α]

theorem keys_countsFrom (xs : List α) (s : Int) (acc : List (α × Int)) :
    ∀ k ∈ (countsFrom xs s acc).map Prod.fst, k ∈ xs ∨ k ∈ acc.map Prod.fst := by
  fun_induction countsFrom xs s acc with
  | case1 => intro k hk; exact Or.inr hk
  | case2 x xs s acc ih =>
    intro k hk
    rcases ih k hk with h | h
    · exact Or.inl (List.mem_cons_of_mem _ h)
    · rw [keys_bump] at h
      split at h
      · exact Or.inr h
      · rcases List.mem_append.mp h with h | h
        · exact Or.inr h
        · simp at h; subst h; exact Or.inl (List.mem_cons_self)

theorem mem_of_trivialMerge (vs : List α) (sc : SameChange) (v : α) (h : trivialMerge vs sc = some v) : v ∈ vs := by
  have key : ∀ (w : α) (c : Int), (w, c) ∈ (counts vs).filter (fun e => e.2 != 0) → w ∈ vs := by
    intro w c hw
    have h1 : (w, c) ∈ counts vs := (List.mem_filter.mp hw).1
    have h2 : w ∈ (counts vs).map Prod.fst := List.mem_map.mpr ⟨(w, c), h1, rfl⟩
    rcases keys_countsFrom vs 1 [] w h2 with h3 | h3
    · exact h3
    · simp at h3
  unfold trivialMerge at h
  split at h
  · simp at h; subst h; simp
  · split at h
    · simp at h; subst h; simp
    · split at h
      · simp at h; subst h; simp
      · split at h
        · simp at h; subst h; simp
        · simp at h
  · split at h
    · rename_i v' c' heq
      simp at h; subst h
      exact key v' c' (by rw [heq]; simp)
    · rename_i v1 c1 v2 c2 heq
      split at h
      · split at h
        · simp at h; subst h; exact key v1 c1 (by rw [heq]; simp)
        · simp at h; subst h; exact key v2 c2 (by rw [heq]; simp)
      · simp at h
    · simp at h
end TrivialMem

section Shape
variable {α : Type}

theorem mem_swapPairs (l : List α) (x : α) : x ∈ swapPairs l ↔ x ∈ l := by
  fun_induction swapPairs l <;> grind

theorem length_swapPairs (l : List α) : (swapPairs l).length = l.length := by
  fun_induction swapPairs l <;> grind

theorem mem_negateTerm (t : List α) (x : α) : x ∈ negateTerm t ↔ x ∈ t := by
  cases t with
  | nil => simp [negateTerm]
  | cons a rest => simp [negateTerm, mem_swapPairs, or_comm]

theorem length_negateTerm (t : List α) : (negateTerm t).length = t.length := by
  cases t with
  | nil => simp [negateTerm]
  | cons a rest => simp [negateTerm, length_swapPairs]

theorem flatten_three (l b r : List α) : flatten [l, b, r] = l ++ negateTerm b ++ r := by
  simp [flatten, flattenFrom]

variable [DecidableEq α]

theorem mem_simplify (vals : List α) (x : α) (h : x ∈ simplify vals) : x ∈ vals := by
  simp only [simplify, applyMapping, List.mem_filterMap] at h
  obtain ⟨i, _, hi⟩ := h
  exact List.mem_of_getElem? hi

/-! #### `simplify` keeps the arity odd -/

theorem findRemove_some (vals : List α) (add : α) (idx : List Nat) (pos r : Nat)
    (h : findRemove vals add idx pos = some r) : ∃ k, r = pos + 2 * k + 1 ∧ 2 * k + 1 < idx.length := by
  fun_induction findRemove vals add idx pos with
  | case1 => simp at h
  | case2 => simp at h
  | case3 => simp at h; exact ⟨0, by omega, by simp⟩
  | case4 _ _ _ _ _ _ _ ih =>
    obtain ⟨k, h1, h2⟩ := ih h
    exact ⟨k + 1, by omega, by simp; omega⟩
  | case5 _ _ _ _ _ ih =>
    obtain ⟨k, h1, h2⟩ := ih h
    exact ⟨k + 1, by omega, by simp; omega⟩

theorem length_swapIdx (l : List Nat) (i j : Nat) : (swapIdx l i j).length = l.length := by
  unfold swapIdx; split <;> simp

theorem mem_swapIdx (l : List Nat) (i j x : Nat) (h : x ∈ swapIdx l i j) : x ∈ l := by
  unfold swapIdx at h
  split at h
  · rename_i a b ha hb
    rcases List.mem_or_eq_of_mem_set h with h | h
    · rcases List.mem_or_eq_of_mem_set h with h | h
      · exact h
      · subst h; exact List.mem_of_getElem? hb
    · subst h; exact List.mem_of_getElem? ha
  · exact h

theorem mappingLoop_inv (vals : List α) (fuel : Nat) (idx : List Nat) (addIndex : Nat)
    (hodd : idx.length % 2 = 1) (hval : ∀ x ∈ idx, x < vals.length) :
    (mappingLoop vals fuel idx addIndex).length % 2 = 1 ∧
      ∀ x ∈ mappingLoop vals fuel idx addIndex, x < vals.length := by
  fun_induction mappingLoop vals fuel idx addIndex with
  | case1 => exact ⟨hodd, hval⟩
  | case2 fuel idx addIndex hlt hnone => exact ⟨hodd, hval⟩
  | case3 fuel idx addIndex hlt add hadd r hr idx' ih =>
    obtain ⟨k, hk, hk2⟩ := findRemove_some _ _ _ _ _ hr
    apply ih
    · simp only [idx', List.length_eraseIdx, length_swapIdx]
      grind
    · intro x hx
      exact hval x (mem_swapIdx _ _ _ _ (List.mem_of_mem_eraseIdx (List.mem_of_mem_eraseIdx hx)))
  | case4 fuel idx addIndex hlt add hadd hr ih => exact ih hodd hval
  | case5 fuel idx addIndex hlt => exact ⟨hodd, hval⟩

theorem length_simplify_odd (vals : List α) (hodd : vals.length % 2 = 1) : (simplify vals).length % 2 = 1 := by
  have := mappingLoop_inv vals (vals.length + 1) (List.range vals.length) 0 (by simpa using hodd)
    (by intro x hx; simpa using hx)
  obtain ⟨h1, h2⟩ := this
  simp only [simplify, applyMapping, simplifiedMapping]
  generalize mappingLoop vals (vals.length + 1) (List.range vals.length) 0 = m at h1 h2
  have : (m.filterMap (vals[·]?)).length = m.length := by
    clear h1
    induction m with
    | nil => rfl
    | cons a m ih =>
      have ha : a < vals.length := h2 a (by simp)
      simp only [List.filterMap_cons, List.getElem?_eq_getElem ha, List.length_cons]
      rw [ih (fun x hx => h2 x (List.mem_cons_of_mem _ hx))]
  rw [this]; exact h1
end Shape

section FlattenCount
variable {α : Type} [DecidableEq α]

theorem count_cons (y : α) (t : List α) (v : α) : count (y :: t) v = ind y v - count t v := by
  rw [count_eq_scount, count_eq_scount, scount, scount_neg]; omega

theorem scount_append (l m : List α) (s : Int) (v : α) :
    scount (l ++ m) s v = scount l s v + scount m (if l.length % 2 = 0 then s else -s) v := by
  induction l generalizing s with
  | nil => simp [scount]
  | cons a l ih =>
    simp only [List.cons_append, scount, ih, List.length_cons]
    have : (if (l.length + 1) % 2 = 0 then s else -s) = (if l.length % 2 = 0 then -s else - -s) := by
      split <;> split <;> first | rfl | omega | simp
    rw [this]; omega

theorem count_append_odd (l m : List α) (h : l.length % 2 = 1) (v : α) :
    count (l ++ m) v = count l v - count m v := by
  rw [count_eq_scount, scount_append, if_neg (by omega), scount_neg, ← count_eq_scount, ← count_eq_scount]; omega

theorem count_negateTerm (b : List α) (v : α) (h : b.length % 2 = 1) : count (negateTerm b) v = count b v := by
  match b, h with
  | [x], _ => simp [negateTerm, swapPairs]
  | [_, _], h => simp at h
  | [], h => simp at h
  | x :: r0 :: a1 :: rest, h =>
    have ih := count_negateTerm (x :: rest) v (by simp at h ⊢; omega)
    have e : negateTerm (x :: r0 :: a1 :: rest) = a1 :: r0 :: negateTerm (x :: rest) := by
      simp [negateTerm, swapPairs]
    rw [e, count, ih, count, count_cons x rest, count_cons a1 rest]; omega
termination_by b.length

/-- the flattened three-way merge has the signed counts `left − base + right` -/
theorem count_flatten_three (l b r : List α) (hl : l.length % 2 = 1) (hb : b.length % 2 = 1) (v : α) :
    count (flatten [l, b, r]) v = count l v - count b v + count r v := by
  rw [flatten_three, List.append_assoc, count_append_odd l _ hl,
    count_append_odd _ r (by rw [length_negateTerm]; exact hb), count_negateTerm b v hb]
  omega
end FlattenCount

end JjModel.Refs
