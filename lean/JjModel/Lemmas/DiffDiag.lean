import JjModel.Lemmas.DiffRefine
/-!
  `diff_self_diagonal` (weak form): diffing a token list against itself only produces diagonal
  matches (`unchangedWords_diag`); matched positions determine their partner.
-/
namespace JjModel.Diff
set_option linter.unusedSectionVars false
variable {α : Type} [DecidableEq α]

/-- all matches of a sequence against itself are on the diagonal -/
def DiagOK (rec : List α → List α → Nat → Nat → List (Nat × Nat)) : Prop :=
  ∀ l a, ∀ p ∈ rec l l a a, p.1 = p.2

theorem lcsWalk_diag (rec : List α → List α → Nat → Nat → List (Nat × Nat)) (hrec : DiagOK rec)
    (w : List α) (off : Nat) (LP RP : List (Nat × Nat)) (lcs : List (Nat × Nat))
    (hl : ∀ q ∈ lcs, (LP.getD q.1 (0, 0)).1 = (RP.getD q.2 (0, 0)).1) (pl : Nat) :
    ∀ p ∈ lcsWalk rec w w off off LP RP lcs pl pl, p.1 = p.2 := by
  induction lcs generalizing pl with
  | nil => intro p hp; rw [lcsWalk] at hp; exact hrec _ _ p hp
  | cons q rest ih =>
    obtain ⟨li, ri⟩ := q
    have hq := hl (li, ri) (by simp)
    simp only at hq
    intro p hp
    rw [lcsWalk] at hp
    simp only [List.mem_append, List.mem_cons] at hp
    rw [← hq] at hp
    rcases hp with hp | rfl | hp
    · exact hrec _ _ p hp
    · rfl
    · exact ih (fun q hq' => hl q (by simp [hq'])) _ p hp

theorem mem_zip_self {β : Type} (l : List β) (q : β × β) (h : q ∈ l.zip l) : q.1 = q.2 := by
  induction l with
  | nil => simp at h
  | cons x xs ih =>
    simp only [List.zip_cons_cons, List.mem_cons] at h
    rcases h with rfl | h
    · rfl
    · exact ih h

theorem hist_functional (h : Hist α) (hk : (h.map Prod.fst).Nodup) (k : α) (a b : List Nat)
    (ha : (k, a) ∈ h) (hb : (k, b) ∈ h) : a = b := by
  induction h with
  | nil => simp at ha
  | cons e rest ih =>
    simp only [List.map_cons, List.nodup_cons] at hk
    simp only [List.mem_cons] at ha hb
    rcases ha with rfl | ha
    · rcases hb with hb | hb
      · simpa using hb.symm
      · exact absurd (List.mem_map_of_mem (f := Prod.fst) hb) hk.1
    · rcases hb with rfl | hb
      · exact absurd (List.mem_map_of_mem (f := Prod.fst) ha) hk.1
      · exact ih hk.2 ha hb

theorem collectLcs_diag (rec : List α → List α → Nat → Nat → List (Nat × Nat)) (hrec : DiagOK rec)
    (w : List α) (off : Nat) : ∀ p ∈ collectLcs rec w w off off, p.1 = p.2 := by
  unfold collectLcs
  dsimp only
  have HL := histogram_ok maxOccurrences w
  cases hg : countToEntries (histogram maxOccurrences w) with
  | nil => simp
  | cons g0 grest =>
    obtain ⟨minCount, es0⟩ := g0
    dsimp only
    split
    · simp
    · cases hu : uncommonShared (histogram maxOccurrences w) ((minCount, es0) :: grest) with
      | none => simp
      | some both =>
        obtain ⟨c, es, hces, hboth⟩ := uncommonShared_some _ _ _ hu
        rw [← hg] at hces
        obtain ⟨hkeys, hsub⟩ := group_ok _ HL.keys c es hces
        obtain ⟨hT1, hT2⟩ := sharedEntries_ok (histogram maxOccurrences w) es hkeys
        rw [sharedPositions_eq] at hboth
        have hl : ∀ t ∈ sharedEntries (histogram maxOccurrences w) es,
            EntryOK w w.length (t.1, t.2.1) := fun t ht => HL.entries _ (hsub _ (hT2 t ht).1)
        have hr : ∀ t ∈ sharedEntries (histogram maxOccurrences w) es,
            EntryOK w w.length (t.1, t.2.2) := fun t ht => HL.entries _ (hT2 t ht).2.1
        obtain ⟨hp1, hp2, hp3⟩ := triples_pairs w w w.length w.length _ hT1 hl hr
        -- both position lists of a triple coincide, so the pairs are diagonal
        have hdiag : ∀ q ∈ pairsOf ((sharedEntries (histogram maxOccurrences w) es).map fun t => (t.2.1, t.2.2)),
            q.1 = q.2 := by
          intro q hq
          simp only [pairsOf, List.mem_flatMap, List.mem_map] at hq
          obtain ⟨pr, ⟨t, ht, rfl⟩, hqz⟩ := hq
          have heq : t.2.1 = t.2.2 :=
            hist_functional _ HL.keys t.1 _ _ (hsub _ (hT2 t ht).1) (hT2 t ht).2.1
          simp only [heq] at hqz
          exact mem_zip_self _ q hqz
        rw [← hboth] at hp1 hp2 hdiag
        unfold pairsOf at hp1 hp2 hdiag
        obtain ⟨_, hmem⟩ := lcs_positions_ok _ hp1 hp2
        apply lcsWalk_diag rec hrec w off
        intro q hq
        have := hdiag _ (hmem _ (List.mem_map_of_mem
          (f := fun q : Nat × Nat => ((_ : List (Nat × Nat)).getD q.1 (0, 0) |>.1, (_ : List (Nat × Nat)).getD q.2 (0, 0) |>.1)) hq))
        exact this

theorem leadingTrailing_diag (w : List α) (off : Nat) : ∀ p ∈ leadingTrailing w w off off, p.1 = p.2 := by
  intro p hp
  simp only [leadingTrailing, List.mem_append, List.mem_map, List.mem_range] at hp
  rcases hp with ⟨i, _, rfl⟩ | ⟨k, _, rfl⟩ <;> rfl

theorem collectUnchangedWords_diag (fuel : Nat) : DiagOK (collectUnchangedWords (α := α) fuel) := by
  induction fuel with
  | zero => intro l a p hp; simp [collectUnchangedWords] at hp
  | succ f ih =>
    intro l a p hp
    rw [collectUnchangedWords] at hp
    split at hp
    · simp at hp
    · dsimp only at hp
      split at hp
      · exact collectLcs_diag _ ih l a p hp
      · exact leadingTrailing_diag l a p hp

/-- **`diff_self_diagonal` (weak form)**: a token list diffed against itself is only matched on the
diagonal. -/
theorem unchangedWords_diag (w : List α) : ∀ p ∈ unchangedWords w w, p.1 = p.2 :=
  collectUnchangedWords_diag _ w 0

/-- matched positions determine their partner -/
theorem win_partner_unique (left right : List α) (l : List (Nat × Nat))
    (h : Win left right 0 0 0 0 left.length right.length l) (a b b' : Nat)
    (h1 : (a, b) ∈ l) (h2 : (a, b') ∈ l) : b = b' := by
  have hinc := h.1
  unfold Inc at hinc
  by_cases e : b = b'
  · exact e
  · exfalso
    have hne : (a, b) ≠ (a, b') := by intro h; exact e (by simpa using h)
    obtain ⟨i, hi⟩ := List.getElem?_of_mem h1
    obtain ⟨j, hj⟩ := List.getElem?_of_mem h2
    obtain ⟨hi', ei⟩ := List.getElem?_eq_some_iff.mp hi
    obtain ⟨hj', ej⟩ := List.getElem?_eq_some_iff.mp hj
    have hp := List.pairwise_iff_getElem.mp hinc
    rcases Nat.lt_trichotomy i j with hlt | heq | hgt
    · have := hp i j hi' hj' hlt; rw [ei, ej] at this; simp at this
    · subst heq; rw [ei] at ej; exact hne ej
    · have := hp j i hj' hi' hgt; rw [ei, ej] at this; simp at this

end JjModel.Diff
