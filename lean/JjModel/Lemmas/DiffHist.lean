import JjModel.Model.Diff
/-!
  Invariants of the histogram (`histogram`, `countToEntries`, `uncommonShared`): keys are distinct,
  every recorded position is an occurrence of its word, positions of an entry increase.
-/
namespace JjModel.Diff
set_option linter.unusedSectionVars false
variable {α : Type} [DecidableEq α]

/-- positions increase, are below `i`, and point at occurrences of the entry's word -/
def EntryOK (words : List α) (i : Nat) (e : α × List Nat) : Prop :=
  e.2.Pairwise (· < ·) ∧ ∀ p ∈ e.2, p < i ∧ words[p]? = some e.1

structure HistOK (words : List α) (i : Nat) (h : Hist α) : Prop where
  keys : (h.map Prod.fst).Nodup
  entries : ∀ e ∈ h, EntryOK words i e

theorem EntryOK.mono {words : List α} {i j : Nat} {e : α × List Nat} (h : EntryOK words i e) (hij : i ≤ j) :
    EntryOK words j e :=
  ⟨h.1, fun p hp => ⟨Nat.lt_of_lt_of_le (h.2 p hp).1 hij, (h.2 p hp).2⟩⟩

theorem histAdd_keys (maxOcc : Nat) (w : α) (pos : Nat) (h : Hist α) :
    ∀ v, v ∈ (histAdd maxOcc w pos h).map Prod.fst ↔ v = w ∨ v ∈ h.map Prod.fst := by
  induction h with
  | nil => intro v; simp [histAdd]
  | cons e rest ih =>
    obtain ⟨u, ps⟩ := e
    intro v
    rw [histAdd]
    split
    · rename_i heq; subst heq
      simp only [List.map_cons, List.mem_cons]
      constructor
      · intro h; exact Or.inr h
      · rintro (h | h)
        · exact Or.inl h
        · exact h
    · simp only [List.map_cons, List.mem_cons, ih v]
      constructor
      · rintro (h | h | h) <;> simp [h]
      · rintro (h | h | h) <;> simp [h]

theorem histAdd_nodup (maxOcc : Nat) (w : α) (pos : Nat) (h : Hist α) (hn : (h.map Prod.fst).Nodup) :
    ((histAdd maxOcc w pos h).map Prod.fst).Nodup := by
  induction h with
  | nil => simp [histAdd]
  | cons e rest ih =>
    obtain ⟨u, ps⟩ := e
    simp only [List.map_cons, List.nodup_cons] at hn
    rw [histAdd]
    split
    · simpa using hn
    · rename_i hne
      simp only [List.map_cons, List.nodup_cons]
      refine ⟨?_, ih hn.2⟩
      intro hmem
      rcases (histAdd_keys maxOcc w pos rest u).mp hmem with h | h
      · exact hne h
      · exact hn.1 h

theorem histAdd_entries (maxOcc : Nat) (words : List α) (w : α) (i : Nat) (h : Hist α)
    (hw : words[i]? = some w) (he : ∀ e ∈ h, EntryOK words i e) :
    ∀ e ∈ histAdd maxOcc w i h, EntryOK words (i + 1) e := by
  induction h with
  | nil =>
    intro e hmem
    simp only [histAdd, List.mem_singleton] at hmem
    subst hmem
    exact ⟨by simp, by intro p hp; simp at hp; subst hp; exact ⟨by omega, hw⟩⟩
  | cons x rest ih =>
    obtain ⟨u, ps⟩ := x
    have hx : EntryOK words i (u, ps) := he _ (by simp)
    have hrest : ∀ e ∈ rest, EntryOK words i e := fun e h => he e (by simp [h])
    intro e hmem
    rw [histAdd] at hmem
    split at hmem
    · rename_i heq; subst heq
      simp only [List.mem_cons] at hmem
      rcases hmem with rfl | hmem
      · split
        · refine ⟨?_, ?_⟩
          · rw [List.pairwise_append]
            refine ⟨hx.1, by simp, ?_⟩
            intro a ha b hb
            simp at hb; subst hb
            exact (hx.2 a ha).1
          · intro p hp
            simp only [List.mem_append, List.mem_singleton] at hp
            rcases hp with hp | rfl
            · exact ⟨by have := (hx.2 p hp).1; omega, (hx.2 p hp).2⟩
            · exact ⟨by omega, hw⟩
        · exact hx.mono (by omega)
      · exact (hrest e hmem).mono (by omega)
    · simp only [List.mem_cons] at hmem
      rcases hmem with rfl | hmem
      · exact hx.mono (by omega)
      · exact ih hrest e hmem

theorem histFrom_ok (maxOcc : Nat) (words pre ws : List α) (h : Hist α)
    (hw : words = pre ++ ws) (hh : HistOK words pre.length h) :
    HistOK words words.length (histFrom maxOcc ws pre.length h) := by
  induction ws generalizing pre h with
  | nil => simpa [histFrom, hw] using hh
  | cons w ws ih =>
    rw [histFrom]
    have hwi : words[pre.length]? = some w := by rw [hw]; simp
    have := ih (pre ++ [w]) (histAdd maxOcc w pre.length h) (by rw [hw]; simp)
      ⟨histAdd_nodup _ _ _ _ hh.keys, by simpa using histAdd_entries maxOcc words w pre.length h hwi hh.entries⟩
    simpa using this

theorem histogram_ok (maxOcc : Nat) (words : List α) :
    HistOK words words.length (histogram maxOcc words) :=
  histFrom_ok maxOcc words [] words [] rfl ⟨by simp, by simp⟩

theorem positionsByWord_mem (h : Hist α) (w : α) (ps : List Nat) (hp : positionsByWord h w = some ps) :
    (w, ps) ∈ h := by
  induction h with
  | nil => simp [positionsByWord] at hp
  | cons e rest ih =>
    obtain ⟨v, qs⟩ := e
    rw [positionsByWord] at hp
    split at hp
    · rename_i heq; subst heq; simp at hp; subst hp; simp
    · simp [ih hp]

/-! ### `build_count_to_entries` -/

/-- all entries of all groups -/
def allEntries (g : List (Nat × List (α × List Nat))) : List (α × List Nat) := g.flatMap (·.2)

theorem allEntries_groupInsert (e : α × List Nat) (g : List (Nat × List (α × List Nat))) :
    (allEntries (groupInsert e g)).Perm (e :: allEntries g) := by
  induction g with
  | nil => simp [groupInsert, allEntries]
  | cons x rest ih =>
    obtain ⟨c, es⟩ := x
    rw [groupInsert]
    split
    · simp [allEntries]
    · split
      · simp only [allEntries, List.flatMap_cons, List.append_assoc, List.singleton_append]
        exact List.perm_middle
      · simp only [allEntries, List.flatMap_cons] at ih ⊢
        exact (List.Perm.append_left es ih).trans List.perm_middle

theorem allEntries_foldl (h : Hist α) (g : List (Nat × List (α × List Nat))) :
    (allEntries (h.foldl (fun acc e => groupInsert e acc) g)).Perm (h ++ allEntries g) := by
  induction h generalizing g with
  | nil => simp
  | cons e rest ih =>
    simp only [List.foldl_cons]
    refine (ih _).trans ?_
    refine (List.Perm.append_left rest (allEntries_groupInsert e g)).trans ?_
    simp

theorem allEntries_countToEntries (h : Hist α) : (allEntries (countToEntries h)).Perm h := by
  simpa [countToEntries, allEntries] using allEntries_foldl h []

/-- one group of `build_count_to_entries`: distinct words, all entries come from the histogram -/
theorem group_ok (h : Hist α) (hk : (h.map Prod.fst).Nodup) (c : Nat) (es : List (α × List Nat))
    (hmem : (c, es) ∈ countToEntries h) : (es.map Prod.fst).Nodup ∧ ∀ e ∈ es, e ∈ h := by
  have hp := allEntries_countToEntries h
  have hsub : es.Sublist (allEntries (countToEntries h)) := by
    unfold allEntries
    rw [List.flatMap_def]
    exact List.sublist_flatten_of_mem (List.mem_map_of_mem (f := (·.2)) hmem)
  refine ⟨?_, fun e he => (hp.mem_iff).mp (hsub.subset he)⟩
  have : ((allEntries (countToEntries h)).map Prod.fst).Nodup :=
    ((hp.map Prod.fst).nodup_iff).mpr hk
  exact (hsub.map Prod.fst).nodup this

/-! ### `uncommonShared` -/

/-- `sharedPositions` with the word kept -/
def sharedEntries (rightHist : Hist α) (entries : List (α × List Nat)) : List (α × List Nat × List Nat) :=
  entries.filterMap fun e =>
    match positionsByWord rightHist e.1 with
    | some rps => if e.2.length = rps.length then some (e.1, e.2, rps) else none
    | none => none

theorem sharedPositions_eq (rightHist : Hist α) (entries : List (α × List Nat)) :
    sharedPositions rightHist entries = (sharedEntries rightHist entries).map (fun t => (t.2.1, t.2.2)) := by
  unfold sharedPositions sharedEntries
  rw [List.map_filterMap]
  congr 1
  funext e
  cases positionsByWord rightHist e.1 with
  | none => rfl
  | some rps => by_cases h : e.2.length = rps.length <;> simp [h]

theorem sharedEntries_ok (rightHist : Hist α) (entries : List (α × List Nat))
    (hk : (entries.map Prod.fst).Nodup) :
    ((sharedEntries rightHist entries).map (·.1)).Nodup ∧
    ∀ t ∈ sharedEntries rightHist entries, (t.1, t.2.1) ∈ entries ∧ (t.1, t.2.2) ∈ rightHist ∧
      t.2.1.length = t.2.2.length := by
  induction entries with
  | nil => simp [sharedEntries]
  | cons e rest ih =>
    simp only [List.map_cons, List.nodup_cons] at hk
    obtain ⟨ih1, ih2⟩ := ih hk.2
    have hkeys : ∀ t ∈ sharedEntries rightHist rest, t.1 ∈ rest.map Prod.fst := by
      intro t ht
      exact List.mem_map_of_mem (f := Prod.fst) (ih2 t ht).1
    unfold sharedEntries at ih1 ih2 hkeys ⊢
    rw [List.filterMap_cons]
    cases hp : positionsByWord rightHist e.1 with
    | none =>
      simp only
      exact ⟨ih1, fun t ht => by
        obtain ⟨a, b, c⟩ := ih2 t ht
        exact ⟨by simp [a], b, c⟩⟩
    | some rps =>
      simp only
      by_cases hl : e.2.length = rps.length
      · simp only [hl, if_true, List.map_cons, List.nodup_cons]
        refine ⟨⟨fun hmem => ?_, ih1⟩, ?_⟩
        · simp only [List.mem_map] at hmem
          obtain ⟨t, ht, hte⟩ := hmem
          exact hk.1 (by rw [← hte]; exact hkeys t ht)
        · intro t ht
          simp only [List.mem_cons] at ht
          rcases ht with rfl | ht
          · exact ⟨by simp, positionsByWord_mem _ _ _ hp, hl⟩
          · obtain ⟨a, b, c⟩ := ih2 t ht
            exact ⟨by simp [a], b, c⟩
      · simp only [hl, if_false]
        exact ⟨ih1, fun t ht => by
          obtain ⟨a, b, c⟩ := ih2 t ht
          exact ⟨by simp [a], b, c⟩⟩

theorem uncommonShared_some (rightHist : Hist α) (groups : List (Nat × List (α × List Nat)))
    (both : List (List Nat × List Nat)) (h : uncommonShared rightHist groups = some both) :
    ∃ c es, (c, es) ∈ groups ∧ both = sharedPositions rightHist es := by
  induction groups with
  | nil => simp [uncommonShared] at h
  | cons g rest ih =>
    obtain ⟨c, es⟩ := g
    rw [uncommonShared] at h
    split at h
    · obtain ⟨c', es', h1, h2⟩ := ih h
      exact ⟨c', es', by simp [h1], h2⟩
    · simp at h
      exact ⟨c, es, by simp, h.symm⟩

end JjModel.Diff
