import JjModel.Lemmas.MergeSigned
/-!
  Loop invariants of `get_simplified_mapping` (`mappingLoop`), for C01.
-/
namespace JjModel.Merge
set_option linter.unusedSectionVars false
set_option linter.unusedVariables false
variable {α : Type} [DecidableEq α]

/-! ### `adds` / `removes` by position -/

theorem mem_adds_iff (w : List α) (x : α) :
    x ∈ adds w ↔ ∃ i, i % 2 = 0 ∧ w[i]? = some x := by
  fun_induction adds w with
  | case1 => simp
  | case2 a =>
    constructor
    · intro h; exact ⟨0, rfl, by simp [List.mem_singleton.mp h]⟩
    · rintro ⟨i, hi, h⟩
      cases i with
      | zero => simp at h; simp [h]
      | succ i => simp at h
  | case3 a b rest ih =>
    rw [List.mem_cons, ih]
    constructor
    · rintro (h | ⟨i, hi, h⟩)
      · exact ⟨0, rfl, by simp [h]⟩
      · exact ⟨i + 2, by omega, by simpa using h⟩
    · rintro ⟨i, hi, h⟩
      match i, hi, h with
      | 0, _, h => left; simpa using h.symm
      | 1, hi, _ => omega
      | i + 2, hi, h => right; exact ⟨i, by omega, by simpa using h⟩

theorem mem_removes_iff (w : List α) (x : α) :
    x ∈ removes w ↔ ∃ j, j % 2 = 1 ∧ w[j]? = some x := by
  fun_induction removes w with
  | case1 => simp
  | case2 a =>
    constructor
    · intro h; simp at h
    · rintro ⟨j, hj, h⟩
      match j, hj, h with
      | 0, hj, _ => omega
      | j + 1, _, h => simp at h
  | case3 a b rest ih =>
    rw [List.mem_cons, ih]
    constructor
    · rintro (h | ⟨j, hj, h⟩)
      · exact ⟨1, rfl, by simp [h]⟩
      · exact ⟨j + 2, by omega, by simpa using h⟩
    · rintro ⟨j, hj, h⟩
      match j, hj, h with
      | 0, hj, _ => omega
      | 1, _, h => left; simpa using h.symm
      | j + 2, hj, h => right; exact ⟨j, by omega, by simpa using h⟩

/-! ### separation: adds below `a` differ from every remove -/

/-- every add at an even position `< a` differs from every remove -/
def Sep (w : List α) (a : Nat) : Prop :=
  ∀ i j x, i < a → i % 2 = 0 → j % 2 = 1 → w[i]? = some x → w[j]? ≠ some x

theorem Sep_zero (w : List α) : Sep w 0 := by
  intro i j x hi; omega

theorem Sep_mono (w : List α) (a b : Nat) (h : Sep w a) (hab : w.length ≤ a) : Sep w b := by
  intro i j x _ hi0 hj1 hx
  have : i < w.length := by
    by_cases hlt : i < w.length
    · exact hlt
    · rw [List.getElem?_eq_none (by omega)] at hx; cases hx
  exact h i j x (by omega) hi0 hj1 hx

theorem Sep_advance (w : List α) (a : Nat) (h : Sep w a) (hae : a % 2 = 0)
    (hnone : ∀ j x, j % 2 = 1 → w[a]? = some x → w[j]? ≠ some x) : Sep w (a + 2) := by
  intro i j x hi hi0 hj1 hx
  by_cases hia : i < a
  · exact h i j x hia hi0 hj1 hx
  · have hia' : i = a := by omega
    subst hia'; exact hnone j x hj1 hx

theorem Sep_step (w : List α) (r a : Nat) (h : Sep w a)
    (hr : r + 1 < w.length) (ha : a < w.length) (hro : r % 2 = 1) (hae : a % 2 = 0) :
    Sep (stepL w r a) a := by
  intro i j x hi hi0 hj1 hx hjx
  rw [getElem?_stepL _ _ _ _ hr ha] at hx hjx
  -- the remove: an old remove
  have hj' : ∃ j', j' % 2 = 1 ∧ w[j']? = some x := by
    split at hjx
    · split at hjx
      · omega
      · exact ⟨j, hj1, hjx⟩
    · split at hjx
      · omega
      · exact ⟨j + 2, by omega, hjx⟩
  obtain ⟨j', hj'1, hj'x⟩ := hj'
  -- the add: an old add below `a`
  have hi' : ∃ i', i' < a ∧ i' % 2 = 0 ∧ w[i']? = some x := by
    split at hx
    · split at hx
      · omega
      · exact ⟨i, hi, hi0, hx⟩
    · split at hx
      · exact ⟨r + 1, by omega, by omega, hx⟩
      · exact ⟨i + 2, by omega, by omega, hx⟩
  obtain ⟨i', hi'a, hi'0, hi'x⟩ := hi'
  exact h i' j' x hi'a hi'0 hj'1 hi'x hj'x

theorem Sep_disjoint (w : List α) (h : Sep w w.length) (x : α) :
    ¬ (x ∈ adds w ∧ x ∈ removes w) := by
  rintro ⟨ha, hr⟩
  obtain ⟨i, hi0, hix⟩ := (mem_adds_iff w x).mp ha
  obtain ⟨j, hj1, hjx⟩ := (mem_removes_iff w x).mp hr
  have : i < w.length := by
    by_cases hlt : i < w.length
    · exact hlt
    · rw [List.getElem?_eq_none (by omega)] at hix; cases hix
  exact h i j x this hi0 hj1 hix hjx

/-! ### `findRemove` -/

theorem findRemove_some (vals : List α) (add : α) (idx : List Nat) (pos r : Nat)
    (h : findRemove vals add idx pos = some r) :
    ∃ k i, r = pos + k ∧ k % 2 = 1 ∧ idx[k]? = some i ∧ vals[i]? = some add := by
  fun_induction findRemove vals add idx pos with
  | case1 => simp at h
  | case2 => simp at h
  | case3 pos a i rest hx =>
    simp at h
    exact ⟨1, i, by omega, rfl, by simp, hx⟩
  | case4 pos a i rest x hx hne ih =>
    obtain ⟨k, i', hk, hk1, hik, hv⟩ := ih h
    exact ⟨k + 2, i', by omega, by omega, by simpa using hik, hv⟩
  | case5 pos a i rest hx ih =>
    obtain ⟨k, i', hk, hk1, hik, hv⟩ := ih h
    exact ⟨k + 2, i', by omega, by omega, by simpa using hik, hv⟩

theorem findRemove_none (vals : List α) (add : α) (idx : List Nat) (pos : Nat)
    (h : findRemove vals add idx pos = none) :
    ∀ k i, k % 2 = 1 → idx[k]? = some i → vals[i]? ≠ some add := by
  fun_induction findRemove vals add idx pos with
  | case1 => intro k i _ hk; simp at hk
  | case2 a =>
    intro k i hk1 hk
    match k, hk1, hk with
    | 0, hk1, _ => omega
    | k + 1, _, hk => simp at hk
  | case3 pos a i rest hx => simp at h
  | case4 pos a i rest x hx hne ih =>
    intro k i' hk1 hk
    match k, hk1, hk with
    | 0, hk1, _ => omega
    | 1, _, hk =>
      simp at hk; subst hk; rw [hx]; intro hc; exact hne (by simpa using hc)
    | k + 2, hk1, hk => exact ih h k i' (by omega) (by simpa using hk)
  | case5 pos a i rest hx ih =>
    intro k i' hk1 hk
    match k, hk1, hk with
    | 0, hk1, _ => omega
    | 1, _, hk => simp at hk; subst hk; rw [hx]; simp
    | k + 2, hk1, hk => exact ih h k i' (by omega) (by simpa using hk)

/-! ### the index-vector invariant -/

structure Inv (n : Nat) (idx : List Nat) (a : Nat) : Prop where
  range : ∀ i ∈ idx, i < n
  odd : idx.length % 2 = 1
  even : a % 2 = 0
  nodup : idx.Nodup
  parity : ∀ k i, idx[k]? = some i → i % 2 = k % 2

theorem erase2_sublist {β : Type} (l : List β) (r : Nat) : (erase2 l r).Sublist l :=
  List.Sublist.trans (List.eraseIdx_sublist _ _) (List.eraseIdx_sublist _ _)

theorem mem_stepL {β : Type} (l : List β) (r a : Nat) (x : β) (h : x ∈ stepL l r a) : x ∈ l :=
  (swapL_perm l (r + 1) a).mem_iff.mp ((erase2_sublist _ _).subset h)

theorem Inv_init (n : Nat) (h : n % 2 = 1) : Inv n (List.range n) 0 where
  range := by simp
  odd := by simpa using h
  even := rfl
  nodup := List.nodup_range
  parity := by
    intro k i hk
    rw [List.getElem?_range] at hk <;> grind

theorem Inv_advance (n : Nat) (idx : List Nat) (a : Nat) (h : Inv n idx a) : Inv n idx (a + 2) :=
  { h with even := by have := h.even; omega }

theorem Inv_step (n : Nat) (idx : List Nat) (r a : Nat) (h : Inv n idx a)
    (hr : r + 1 < idx.length) (ha : a < idx.length) (hro : r % 2 = 1) :
    Inv n (stepL idx r a) a where
  range := fun i hi => h.range i (mem_stepL _ _ _ _ hi)
  odd := by rw [length_stepL _ _ _ hr]; have := h.odd; omega
  even := h.even
  nodup := ((swapL_perm idx (r + 1) a).nodup_iff.mpr h.nodup).sublist (erase2_sublist _ _)
  parity := by
    intro k i hk
    have hae := h.even
    rw [getElem?_stepL _ _ _ _ hr ha] at hk
    split at hk
    · split at hk
      · have := h.parity _ _ hk; omega
      · exact h.parity _ _ hk
    · split at hk
      · have := h.parity _ _ hk; omega
      · have := h.parity _ _ hk; omega

/-! ### values seen through the index vector -/

/-- total lookup (default `d` is never used for in-range indices) -/
def val (vals : List α) (d : α) (i : Nat) : α := vals[i]?.getD d

theorem val_of_some (vals : List α) (d : α) (i : Nat) (x : α) (h : vals[i]? = some x) :
    val vals d i = x := by simp [val, h]

theorem applyMapping_eq_map (vals : List α) (d : α) (idx : List Nat)
    (h : ∀ i ∈ idx, i < vals.length) : applyMapping vals idx = idx.map (val vals d) := by
  unfold applyMapping
  induction idx with
  | nil => rfl
  | cons i idx ih =>
    have hi : i < vals.length := h i (by simp)
    rw [List.filterMap_cons, List.getElem?_eq_getElem hi]
    simp only [List.map_cons]
    rw [ih (fun j hj => h j (by simp [hj]))]
    simp [val, List.getElem?_eq_getElem hi]

theorem applyMapping_range_take (vals : List α) (n : Nat) (hn : n ≤ vals.length) :
    (List.range n).filterMap (vals[·]?) = vals.take n := by
  induction n with
  | zero => simp
  | succ n ih =>
    rw [List.range_succ, List.filterMap_append, ih (by omega)]
    rw [List.take_add_one, List.filterMap_cons]
    cases vals[n]? <;> simp

theorem applyMapping_range (vals : List α) : applyMapping vals (List.range vals.length) = vals := by
  unfold applyMapping
  rw [applyMapping_range_take _ _ (Nat.le_refl _)]; simp

/-- facts about a successful `findRemove` under the invariant -/
theorem step_facts (vals : List α) (d : α) (idx : List Nat) (a r : Nat) (add : α)
    (hI : Inv vals.length idx a) (ha : a < idx.length)
    (hadd : (idx[a]? >>= (vals[·]?)) = some add)
    (hr : findRemove vals add idx 0 = some r) :
    r % 2 = 1 ∧ r + 1 < idx.length ∧
      (idx.map (val vals d))[r]? = some add ∧ (idx.map (val vals d))[a]? = some add := by
  obtain ⟨k, i, hk, hk1, hik, hv⟩ := findRemove_some _ _ _ _ _ hr
  have hrk : r = k := by omega
  subst hrk
  have hlt : r < idx.length := by
    by_cases hlt : r < idx.length
    · exact hlt
    · rw [List.getElem?_eq_none (by omega)] at hik; cases hik
  have hodd := hI.odd
  obtain ⟨ia, hia, hva⟩ := Option.bind_eq_some_iff.mp hadd
  refine ⟨hk1, by omega, ?_, ?_⟩
  · rw [List.getElem?_map, hik]; simp [val_of_some _ _ _ _ hv]
  · rw [List.getElem?_map, hia]; simp [val_of_some _ _ _ _ hva]

/-- facts about a failed `findRemove` -/
theorem none_facts (vals : List α) (d : α) (idx : List Nat) (a : Nat) (add : α)
    (hI : Inv vals.length idx a)
    (hadd : (idx[a]? >>= (vals[·]?)) = some add)
    (hr : findRemove vals add idx 0 = none) :
    ∀ j x, j % 2 = 1 → (idx.map (val vals d))[a]? = some x → (idx.map (val vals d))[j]? ≠ some x := by
  intro j x hj1 hax hjx
  obtain ⟨ia, hia, hva⟩ := Option.bind_eq_some_iff.mp hadd
  rw [List.getElem?_map, hia] at hax
  simp [val_of_some _ _ _ _ hva] at hax
  subst hax
  rw [List.getElem?_map] at hjx
  cases hij : idx[j]? with
  | none => simp [hij] at hjx
  | some ij =>
    simp [hij] at hjx
    have hlt : ij < vals.length := hI.range ij (List.mem_of_getElem? hij)
    have hne := findRemove_none _ _ _ _ hr j ij hj1 hij
    apply hne
    rw [List.getElem?_eq_getElem hlt]
    simp [val, List.getElem?_eq_getElem hlt] at hjx
    rw [hjx]

/-! ### the loop -/

/-- Everything the loop guarantees, by one induction along `mappingLoop`. -/
theorem loop_spec (vals : List α) (d : α) (fuel : Nat) (idx : List Nat) (a : Nat)
    (hI : Inv vals.length idx a) :
    let res := mappingLoop vals fuel idx a
    (∃ a', Inv vals.length res a') ∧
    (∀ s v, scount (res.map (val vals d)) s v = scount (idx.map (val vals d)) s v) ∧
    (2 * idx.length + 2 ≤ 2 * fuel + a → a ≤ idx.length + 1 → Sep (idx.map (val vals d)) a →
      Sep (res.map (val vals d)) res.length) := by
  fun_induction mappingLoop vals fuel idx a with
  | case1 idx a =>
    refine ⟨⟨a, hI⟩, fun _ _ => rfl, ?_⟩
    intro h1 h2; omega
  | case2 fuel idx a halt hnone =>
    refine ⟨⟨a, hI⟩, fun _ _ => rfl, ?_⟩
    intro _ _ _
    exfalso
    have hi : idx[a] < vals.length := hI.range _ (List.getElem_mem halt)
    simp [List.getElem?_eq_getElem halt, List.getElem?_eq_getElem hi] at hnone
  | case3 fuel idx a halt add hadd r hr idx' ih =>
    have hidx' : idx' = stepL idx r a := by
      simp only [idx', swapIdx_eq_swapL]; rfl
    obtain ⟨hr1, hrlt, hwr, hwa⟩ := step_facts vals d idx a r add hI halt hadd hr
    have hI' : Inv vals.length idx' a := by rw [hidx']; exact Inv_step _ _ _ _ hI hrlt halt hr1
    obtain ⟨ih1, ih2, ih3⟩ := ih hI'
    have hlen' : idx'.length = idx.length - 2 := by rw [hidx', length_stepL _ _ _ hrlt]
    have hmap : idx'.map (val vals d) = stepL (idx.map (val vals d)) r a := by
      rw [hidx', map_stepL]
    refine ⟨ih1, ?_, ?_⟩
    · intro s v
      rw [ih2 s v, hmap]
      apply scount_stepL _ _ _ _ _ (by simpa using hrlt) (by simpa using halt) hr1 hI.even
      have h1 : r < (idx.map (val vals d)).length := by simp; omega
      have h2 : a < (idx.map (val vals d)).length := by simpa using halt
      rw [List.getElem?_eq_getElem h1] at hwr
      rw [List.getElem?_eq_getElem h2] at hwa
      simp only [Option.some.injEq] at hwr hwa
      rw [hwr, hwa]
    · intro hf hle hsep
      have hev := hI.even
      have hod := hI.odd
      apply ih3 (by omega) (by omega)
      rw [hmap]
      exact Sep_step _ _ _ hsep (by simpa using hrlt) (by simpa using halt) hr1 hev
  | case4 fuel idx a halt add hadd hr ih =>
    obtain ⟨ih1, ih2, ih3⟩ := ih (Inv_advance _ _ _ hI)
    refine ⟨ih1, ih2, ?_⟩
    intro hf hle hsep
    have hev := hI.even
    have hod := hI.odd
    apply ih3 (by omega) (by omega)
    exact Sep_advance _ _ hsep hev (none_facts vals d idx a add hI hadd hr)
  | case5 fuel idx a hge =>
    refine ⟨⟨a, hI⟩, fun _ _ => rfl, ?_⟩
    intro _ _ hsep
    exact Sep_mono _ _ _ hsep (by simp; omega)

/-- Fuel adequacy: once `2·len + 2 ≤ 2·fuel + add_index`, extra fuel changes nothing — the
`while` loop of the source (no fuel) and the model's fuelled loop compute the same vector. -/
theorem loop_fuel (vals : List α) (fuel k : Nat) (idx : List Nat) (a : Nat)
    (hI : Inv vals.length idx a) (hf : 2 * idx.length + 2 ≤ 2 * fuel + a) (hle : a ≤ idx.length + 1) :
    mappingLoop vals (fuel + k) idx a = mappingLoop vals fuel idx a := by
  fun_induction mappingLoop vals fuel idx a with
  | case1 idx a => omega
  | case2 fuel idx a halt hnone =>
    rw [show fuel + 1 + k = (fuel + k) + 1 by omega, mappingLoop]
    simp only [halt, if_true, hnone]
  | case3 fuel idx a halt add hadd r hr idx' ih =>
    have hidx' : idx' = stepL idx r a := by
      simp only [idx', swapIdx_eq_swapL]; rfl
    obtain ⟨d⟩ : Nonempty α := ⟨add⟩
    obtain ⟨hr1, hrlt, _, _⟩ := step_facts vals d idx a r add hI halt hadd hr
    have hI' : Inv vals.length idx' a := by rw [hidx']; exact Inv_step _ _ _ _ hI hrlt halt hr1
    have hlen' : idx'.length = idx.length - 2 := by rw [hidx', length_stepL _ _ _ hrlt]
    have hev := hI.even
    have hod := hI.odd
    rw [show fuel + 1 + k = (fuel + k) + 1 by omega, mappingLoop]
    simp only [halt, if_true, hadd, hr]
    exact ih hI' (by omega) (by omega)
  | case4 fuel idx a halt add hadd hr ih =>
    have hev := hI.even
    have hod := hI.odd
    rw [show fuel + 1 + k = (fuel + k) + 1 by omega, mappingLoop]
    simp only [halt, if_true, hadd, hr]
    exact ih (Inv_advance _ _ _ hI) (by omega) (by omega)
  | case5 fuel idx a hge =>
    rw [show fuel + 1 + k = (fuel + k) + 1 by omega, mappingLoop]
    simp only [hge, if_false]

/-- The loop facts instantiated at the initial state of `get_simplified_mapping`. -/
theorem simplifiedMapping_facts (vals : List α) (d : α) (h : vals.length % 2 = 1) :
    (∃ a', Inv vals.length (simplifiedMapping vals) a') ∧
    simplify vals = (simplifiedMapping vals).map (val vals d) ∧
    (∀ s v, scount (simplify vals) s v = scount vals s v) ∧
    Sep (simplify vals) (simplify vals).length := by
  have hspec := loop_spec vals d (vals.length + 1) (List.range vals.length) 0 (Inv_init _ h)
  simp only at hspec
  obtain ⟨⟨a', hI⟩, h2, h3⟩ := hspec
  have hmap : simplify vals = (simplifiedMapping vals).map (val vals d) :=
    applyMapping_eq_map vals d _ hI.range
  have hrange : (List.range vals.length).map (val vals d) = vals := by
    rw [← applyMapping_eq_map vals d _ (by simp), applyMapping_range]
  rw [hrange] at h2 h3
  refine ⟨⟨a', hI⟩, hmap, ?_, ?_⟩
  · intro s v; rw [hmap]; exact h2 s v
  · rw [hmap]
    have := h3 (by simp; omega) (by omega) (Sep_zero _)
    simpa [simplifiedMapping] using this

/-- when no add ever finds an equal remove the loop returns its input -/
theorem mappingLoop_fix (w : List α) (fuel : Nat) (idx : List Nat) (a : Nat) (hae : a % 2 = 0)
    (h : ∀ a add, a % 2 = 0 → (idx[a]? >>= (w[·]?)) = some add → findRemove w add idx 0 = none) :
    mappingLoop w fuel idx a = idx := by
  fun_induction mappingLoop w fuel idx a with
  | case1 => rfl
  | case2 => rfl
  | case3 fuel idx a halt add hadd r hr idx' ih =>
    rw [h a add hae hadd] at hr; cases hr
  | case4 fuel idx a halt add hadd hr ih => exact ih (by omega) h
  | case5 => rfl

theorem simplifiedMapping_of_sep (w : List α) (h : Sep w w.length) :
    simplifiedMapping w = List.range w.length := by
  unfold simplifiedMapping
  apply mappingLoop_fix _ _ _ _ rfl
  intro a add hae hadd
  obtain ⟨ia, hia, hva⟩ := Option.bind_eq_some_iff.mp hadd
  have hia' : ia = a ∧ a < w.length := by
    by_cases hlt : a < w.length
    · rw [List.getElem?_range hlt] at hia; simp at hia; exact ⟨hia.symm, hlt⟩
    · rw [List.getElem?_eq_none (by simp; omega)] at hia; cases hia
  obtain ⟨rfl, halt⟩ := hia'
  cases hr : findRemove w add (List.range w.length) 0 with
  | none => rfl
  | some r =>
    exfalso
    obtain ⟨k, i, hk, hk1, hik, hv⟩ := findRemove_some _ _ _ _ _ hr
    have hik' : i = k := by
      by_cases hlt : k < w.length
      · rw [List.getElem?_range hlt] at hik; simp at hik; exact hik.symm
      · rw [List.getElem?_eq_none (by simp; omega)] at hik; cases hik
    subst hik'
    exact h ia i add halt hae hk1 hva hv

end JjModel.Merge
