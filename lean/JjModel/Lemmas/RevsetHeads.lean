import JjModel.Lemmas.RevsetDescGen
/-!
  C19 lemmas, part 6: `heads_pos` (with the generation-number pruning) and the `Roots` arm.
-/
namespace JjModel.Revset

/-! ### generation numbers -/

theorem le_foldl_max (l : List Nat) (init x : Nat) (h : x ∈ l ∨ x ≤ init) : x ≤ l.foldl max init := by
  induction l generalizing init with
  | nil => simpa using h
  | cons a l ih =>
    simp only [List.foldl_cons]
    apply ih
    simp only [List.mem_cons] at h
    rcases h with (rfl | h) | h
    · right; omega
    · left; exact h
    · right; omega

/-- invariant of `gensAux`: `acc` holds the generation numbers of the processed prefix `done`,
strictly larger than those of their (earlier) parents -/
def GensInv (done : List (List Nat)) (acc : List Nat) : Prop :=
  acc.length = done.length ∧
    ∀ i, i < done.length → ∀ q ∈ done.getD i [], q < i → acc.getD q 0 < acc.getD i 0

theorem gensAux_inv : ∀ (rest done : List (List Nat)) (acc : List Nat), GensInv done acc →
    GensInv (done ++ rest) (gensAux rest acc) := by
  intro rest
  induction rest with
  | nil => intro done acc h; simpa [gensAux] using h
  | cons ps rest ih =>
    intro done acc h
    rw [gensAux]
    have := ih (done ++ [ps]) (acc ++ [genOf acc ps]) ?_
    · simpa using this
    · obtain ⟨hlen, hinv⟩ := h
      refine ⟨by simp [hlen], ?_⟩
      intro i hi q hq hqi
      simp only [List.length_append, List.length_cons, List.length_nil] at hi
      by_cases hid : i < done.length
      · have h1 : (done ++ [ps]).getD i [] = done.getD i [] := by
          simp [List.getD_eq_getElem?_getD, List.getElem?_append_left hid]
        rw [h1] at hq
        have := hinv i hid q hq hqi
        have hq' : q < acc.length := by omega
        have hi' : i < acc.length := by omega
        simpa [List.getD_eq_getElem?_getD, List.getElem?_append_left hq', List.getElem?_append_left hi'] using this
      · have hie : i = done.length := by omega
        subst hie
        have h1 : (done ++ [ps]).getD done.length [] = ps := by
          simp [List.getD_eq_getElem?_getD]
        rw [h1] at hq
        have hq' : q < acc.length := by omega
        have h2 : (acc ++ [genOf acc ps]).getD q 0 = acc.getD q 0 := by
          simp [List.getD_eq_getElem?_getD, List.getElem?_append_left hq']
        have h3 : (acc ++ [genOf acc ps]).getD done.length 0 = genOf acc ps := by
          rw [← hlen]; simp [List.getD_eq_getElem?_getD]
        rw [h2, h3]
        cases ps with
        | nil => simp at hq
        | cons a ps =>
          have : acc.getD q 0 ≤ ((a :: ps).map fun q => acc.getD q 0).foldl max 0 :=
            le_foldl_max _ _ _ (Or.inl (List.mem_map.2 ⟨q, hq, rfl⟩))
          simp only [genOf]
          omega

/-- a parent has a strictly smaller generation number -/
theorem gens_lt (g : Graph) (ht : Topo g.par) {p q : Nat} (hq : q ∈ g.par p) :
    (gens g).getD q 0 < (gens g).getD p 0 := by
  have h := gensAux_inv g.parents [] [] ⟨rfl, by simp⟩
  simp only [List.nil_append] at h
  have hp : p < g.parents.length := by
    apply Classical.byContradiction
    intro hn
    have : g.par p = [] := by
      simp [Graph.par, List.getD_eq_getElem?_getD, List.getElem?_eq_none (Nat.le_of_not_lt hn)]
    rw [this] at hq; simp at hq
  exact h.2 p hp q hq (ht _ _ hq)

theorem gens_path_le (g : Graph) (ht : Topo g.par) {x y : Nat} (h : Path g.par x y) :
    (gens g).getD y 0 ≤ (gens g).getD x 0 := by
  obtain ⟨k, hk⟩ := h
  induction hk with
  | zero x => exact Nat.le_refl _
  | step hq _ ih => have := gens_lt g ht hq; omega

/-! ### `heads_pos` -/

/-- `p` is an ancestor of a pending item of the `parents` heap or of a larger candidate -/
def Blocked (g : Graph) (cands : List Nat) (n : Nat) (pq : List Nat) (p : Nat) : Prop :=
  (∃ x ∈ pq, x < n ∧ Path g.par x p) ∨ (∃ c ∈ cands, p < c ∧ c < n ∧ Path g.par c p)

theorem mem_headsScan (g : Graph) (ht : Topo g.par) (cands : List Nat) (m : Nat)
    (hm : ∀ c ∈ cands, m ≤ (gens g).getD c 0) :
    ∀ (n : Nat) (pq : List Nat) (p : Nat),
      p ∈ headsScan g (gens g) m n cands pq ↔ p < n ∧ p ∈ cands ∧ ¬ Blocked g cands n pq p := by
  intro n
  induction n with
  | zero => intro pq p; simp [headsScan]
  | succ k ih =>
    intro pq p
    rw [headsScan]
    by_cases hpq : pq.contains k
    · simp only [hpq, if_true]
      rw [ih]
      have hkpq : k ∈ pq := by simpa using hpq
      -- for smaller candidates the blocking predicate is unchanged
      have key : p < k → p ∈ cands →
          (Blocked g cands k (if (gens g).getD k 0 ≤ m then pq else g.par k ++ pq) p ↔
            Blocked g cands (k + 1) pq p) := by
        intro hpk hpc
        have hthrough : Path g.par k p →
            ∃ x ∈ (if (gens g).getD k 0 ≤ m then pq else g.par k ++ pq), x < k ∧ Path g.par x p := by
          intro hpath
          obtain ⟨q, hq, hqp⟩ := hpath.cases_ne (by omega)
          split
          · next hle =>
            have h1 := gens_path_le g ht hqp
            have h2 := gens_lt g ht hq
            have h3 := hm p hpc
            omega
          · exact ⟨q, by simp [hq], ht _ _ hq, hqp⟩
        constructor
        · rintro (⟨x, hx, hxk, hp⟩ | ⟨c, hc, h1, h2, h3⟩)
          · split at hx
            · exact Or.inl ⟨x, hx, by omega, hp⟩
            · simp only [List.mem_append] at hx
              rcases hx with hx | hx
              · exact Or.inl ⟨k, hkpq, by omega, Path.head hx hp⟩
              · exact Or.inl ⟨x, hx, by omega, hp⟩
          · exact Or.inr ⟨c, hc, h1, by omega, h3⟩
        · rintro (⟨x, hx, hxk, hp⟩ | ⟨c, hc, h1, h2, h3⟩)
          · by_cases e : x = k
            · subst e; exact Or.inl (hthrough hp)
            · refine Or.inl ⟨x, ?_, by omega, hp⟩
              split
              · exact hx
              · simp [hx]
          · by_cases e : c = k
            · subst e; exact Or.inl (hthrough h3)
            · exact Or.inr ⟨c, hc, h1, by omega, h3⟩
      constructor
      · rintro ⟨h1, h2, h3⟩
        exact ⟨by omega, h2, fun h => h3 ((key h1 h2).2 h)⟩
      · rintro ⟨h1, h2, h3⟩
        have hpk : p ≠ k := by
          rintro rfl
          exact h3 (Or.inl ⟨p, hkpq, by omega, Path.refl _ _⟩)
        have hpk' : p < k := by omega
        exact ⟨hpk', h2, fun h => h3 ((key hpk' h2).1 h)⟩
    · simp only [hpq, Bool.false_eq_true, if_false]
      have hkpq : k ∉ pq := by simpa using hpq
      by_cases hck : cands.contains k
      · simp only [hck, if_true, List.mem_cons]
        have hkc : k ∈ cands := by simpa using hck
        rw [ih]
        have key : p < k → (Blocked g cands k (g.par k ++ pq) p ↔ Blocked g cands (k + 1) pq p) := by
          intro hpk
          constructor
          · rintro (⟨x, hx, hxk, hp⟩ | ⟨c, hc, h1, h2, h3⟩)
            · simp only [List.mem_append] at hx
              rcases hx with hx | hx
              · exact Or.inr ⟨k, hkc, hpk, by omega, Path.head hx hp⟩
              · exact Or.inl ⟨x, hx, by omega, hp⟩
            · exact Or.inr ⟨c, hc, h1, by omega, h3⟩
          · rintro (⟨x, hx, hxk, hp⟩ | ⟨c, hc, h1, h2, h3⟩)
            · have : x ≠ k := by rintro rfl; exact hkpq hx
              exact Or.inl ⟨x, by simp [hx], by omega, hp⟩
            · by_cases e : c = k
              · subst e
                obtain ⟨q, hq, hqp⟩ := h3.cases_ne (by omega)
                exact Or.inl ⟨q, by simp [hq], ht _ _ hq, hqp⟩
              · exact Or.inr ⟨c, hc, h1, by omega, h3⟩
        constructor
        · rintro (rfl | ⟨h1, h2, h3⟩)
          · refine ⟨by omega, hkc, ?_⟩
            rintro (⟨x, hx, hxk, hp⟩ | ⟨c, _, h1, h2, _⟩)
            · have := hp.le ht
              have : x = p := by omega
              subst this; exact hkpq hx
            · omega
          · exact ⟨by omega, h2, fun h => h3 ((key h1).2 h)⟩
        · rintro ⟨h1, h2, h3⟩
          by_cases e : p = k
          · exact Or.inl e
          · have hpk : p < k := by omega
            exact Or.inr ⟨hpk, h2, fun h => h3 ((key hpk).1 h)⟩
      · simp only [hck, Bool.false_eq_true, if_false]
        have hkc : k ∉ cands := by simpa using hck
        rw [ih]
        have key : (Blocked g cands k pq p ↔ Blocked g cands (k + 1) pq p) := by
          constructor
          · rintro (⟨x, hx, hxk, hp⟩ | ⟨c, hc, h1, h2, h3⟩)
            · exact Or.inl ⟨x, hx, by omega, hp⟩
            · exact Or.inr ⟨c, hc, h1, by omega, h3⟩
          · rintro (⟨x, hx, hxk, hp⟩ | ⟨c, hc, h1, h2, h3⟩)
            · have : x ≠ k := by rintro rfl; exact hkpq hx
              exact Or.inl ⟨x, hx, by omega, hp⟩
            · have : c ≠ k := by rintro rfl; exact hkc hc
              exact Or.inr ⟨c, hc, h1, by omega, h3⟩
        constructor
        · rintro ⟨h1, h2, h3⟩; exact ⟨by omega, h2, fun h => h3 (key.2 h)⟩
        · rintro ⟨h1, h2, h3⟩
          have : p ≠ k := by rintro rfl; exact hkc h2
          exact ⟨by omega, h2, fun h => h3 (key.1 h)⟩

theorem desc_headsScan (g : Graph) (ht : Topo g.par) (cands : List Nat) (m : Nat)
    (hm : ∀ c ∈ cands, m ≤ (gens g).getD c 0) :
    ∀ (n : Nat) (pq : List Nat), Desc (headsScan g (gens g) m n cands pq) := by
  intro n
  induction n with
  | zero => intro pq; simp [headsScan, Desc]
  | succ k ih =>
    intro pq
    rw [headsScan]
    split
    · exact ih _
    · split
      · rw [desc_cons]
        refine ⟨fun b hb => ?_, ih _⟩
        rw [mem_headsScan g ht cands m hm] at hb
        exact hb.1
      · exact ih _

/-- `heads_pos`: the candidates that have no other candidate among their descendants. -/
theorem mem_headsPos (g : Graph) (ht : Topo g.par) (cands : List Nat) (hc : ∀ c ∈ cands, c < g.size)
    (p : Nat) : p ∈ headsPos g cands ↔ HeadsOf g (· ∈ cands) p := by
  unfold headsPos HeadsOf
  simp only []
  split
  · next hn =>
    have := minList_none hn
    simp only [List.map_eq_nil_iff] at this
    subst this; simp
  · next m hm =>
    have hmin : ∀ c ∈ cands, m ≤ (gens g).getD c 0 :=
      fun c hcc => (minList_some hm).2 _ (List.mem_map.2 ⟨c, hcc, rfl⟩)
    rw [mem_headsScan g ht cands m hmin]
    constructor
    · rintro ⟨_, h2, h3⟩
      refine ⟨h2, ?_⟩
      rintro ⟨q, hq, hne, hp⟩
      have := hp.le ht
      exact h3 (Or.inr ⟨q, hq, by omega, hc q hq, hp⟩)
    · rintro ⟨h2, h3⟩
      refine ⟨hc p h2, h2, ?_⟩
      rintro (⟨x, hx, _⟩ | ⟨c, hcc, h1, _, hp⟩)
      · simp at hx
      · exact h3 ⟨c, hcc, by omega, hp⟩

theorem desc_headsPos (g : Graph) (ht : Topo g.par) (cands : List Nat) (hd : Desc cands) :
    Desc (headsPos g cands) := by
  unfold headsPos
  simp only []
  split
  · exact hd
  · next m hm =>
    exact desc_headsScan g ht cands m
      (fun c hcc => (minList_some hm).2 _ (List.mem_map.2 ⟨c, hcc, rfl⟩)) _ _

/-! ### `Roots` arm -/

theorem mem_rootsOf (g : Graph) (hw : g.WF) (xs : List Nat) (hx : ∀ x ∈ xs, x < g.size) (p : Nat) :
    p ∈ rootsOf g xs ↔ RootsOf g (· ∈ xs) p := by
  unfold rootsOf RootsOf
  simp only [List.mem_filter, Bool.not_eq_true', List.any_eq_false, List.contains_iff_mem]
  constructor
  · rintro ⟨h1, h2⟩
    refine ⟨h1, ?_⟩
    rintro ⟨r, hr, hne, hp⟩
    obtain ⟨q, hq, hqr⟩ := hp.cases_ne (fun e => hne e.symm)
    apply h2 q hq
    rw [mem_descendantsOf g hw xs xs hx]
    exact ⟨⟨p, h1, Path.head hq (Path.refl _ _)⟩, r, hr, hqr⟩
  · rintro ⟨h1, h2⟩
    refine ⟨h1, ?_⟩
    intro q hq hfill
    rw [mem_descendantsOf g hw xs xs hx] at hfill
    obtain ⟨_, r, hr, hqr⟩ := hfill
    have := hqr.le hw.topo
    have := hw.topo _ _ hq
    exact h2 ⟨r, hr, by omega, Path.head hq hqr⟩

theorem desc_rootsOf (g : Graph) (xs : List Nat) (hd : Desc xs) : Desc (rootsOf g xs) := by
  unfold rootsOf
  exact hd.sublist (List.filter_sublist)

/-! ### every member lies below a head -/

/-- every member of a bounded set lies below a head of the set -/
theorem exists_head_above {g : Graph} (ht : Topo g.par) {S : Nat → Prop} {N : Nat} (hS : ∀ x, S x → x < N) :
    ∀ (d x : Nat), N - x ≤ d → S x → ∃ h, HeadsOf g S h ∧ Path g.par h x := by
  intro d
  induction d with
  | zero => intro x hd hx; have := hS x hx; omega
  | succ d ih =>
    intro x hd hx
    by_cases hh : HeadsOf g S x
    · exact ⟨x, hh, Path.refl _ _⟩
    · have : ∃ q, S q ∧ q ≠ x ∧ Path g.par q x := by
        apply Classical.byContradiction
        intro hn
        exact hh ⟨hx, hn⟩
      obtain ⟨q, hq, hne, hp⟩ := this
      have := hp.le ht
      have := hS q hq
      obtain ⟨h, hh', hhq⟩ := ih q (by omega) hq
      exact ⟨h, hh', hhq.trans hp⟩

theorem ancAll_heads {g : Graph} (ht : Topo g.par) {S : Nat → Prop} {N : Nat} (hS : ∀ x, S x → x < N) :
    AncAll g (HeadsOf g S) = AncAll g S := by
  funext p
  apply propext
  constructor
  · rintro ⟨x, hx, hp⟩; exact ⟨x, hx.1, hp⟩
  · rintro ⟨x, hx, hp⟩
    obtain ⟨h, hh, hhx⟩ := exists_head_above ht hS (N - x) x (Nat.le_refl _) hx
    exact ⟨h, hh, hhx.trans hp⟩

end JjModel.Revset
