import JjModel.Lemmas.RevsetOptBase
/-!
  C19 lemmas, part 10: soundness of the individual `optimize()` passes.
-/
namespace JjModel.Revset

theorem PathK.split {adj : Nat → List Nat} : ∀ {a b x z : Nat}, PathK adj (a + b) x z →
    ∃ y, PathK adj a x y ∧ PathK adj b y z := by
  intro a
  induction a with
  | zero => intro b x z h; exact ⟨x, .zero x, by simpa using h⟩
  | succ a ih =>
    intro b x z h
    have e : a + 1 + b = (a + b) + 1 := by omega
    rw [e] at h
    cases h with
    | step hq hr =>
      obtain ⟨y, h1, h2⟩ := ih hr
      exact ⟨y, .step hq h1, h2⟩

theorem ancOf_full (g : Graph) (S : Nat → Prop) : AncOf g false 0 none S = AncAll g S := by
  funext p
  apply propext
  simp only [AncOf, AncAll, Graph.adj_false]
  constructor
  · rintro ⟨x, hx, k, _, hk⟩; exact ⟨x, hx, k, hk⟩
  · rintro ⟨x, hx, k, hk⟩; exact ⟨x, hx, k, ⟨Nat.zero_le _, trivial⟩, hk⟩

/-- `ancestors(S, lo..) = ::ancestors(S, lo..lo+1)` (same parents range) -/
theorem ancOf_from (g : Graph) (fp : Bool) (lo : Nat) (S : Nat → Prop) :
    AncOf g fp 0 none (AncOf g fp lo (some (lo + 1)) S) = AncOf g fp lo none S := by
  funext p
  apply propext
  simp only [AncOf, inGen]
  constructor
  · rintro ⟨y, ⟨x, hx, k, ⟨hk1, hk2⟩, hk⟩, j, _, hj⟩
    refine ⟨x, hx, j + k, ⟨by omega, trivial⟩, hk.trans hj⟩
  · rintro ⟨x, hx, k, ⟨hk1, _⟩, hk⟩
    obtain ⟨j, rfl⟩ : ∃ j, k = lo + j := ⟨k - lo, by omega⟩
    obtain ⟨y, h1, h2⟩ := hk.split
    exact ⟨y, ⟨x, hx, lo, ⟨Nat.le_refl _, by simp⟩, h1⟩, j, ⟨Nat.zero_le _, trivial⟩, h2⟩

section
variable {g : Graph} {vh : List Nat}

/-- `ancestors_to_heads_and_parents_range(c) = Ok((heads, pr))` means `c = ancestors(heads)`
along `pr`, and `heads` mentions no new commits -/
theorem ancestorsToHeadsPr_spec {c hd : Expr} {fp : Bool} (h : ancestorsToHeadsPr c = some (hd, fp)) :
    (RefsIn vh c → RefsIn vh hd) ∧ AncOf g fp 0 none (denote g vh hd) = denote g vh c := by
  unfold ancestorsToHeadsPr at h
  split at h
  · simp only [Option.some.injEq, Prod.mk.injEq] at h
    obtain ⟨rfl, rfl⟩ := h
    exact ⟨fun hr => hr, by simp only [denote]⟩
  · simp only [Option.some.injEq, Prod.mk.injEq] at h
    obtain ⟨rfl, rfl⟩ := h
    exact ⟨fun hr => hr, by simp only [denote]; exact ancOf_from g _ _ _⟩
  · simp at h

/-- `ancestors_to_heads(c) = Ok(heads)` means `c = ::heads` -/
theorem ancestorsToHeads_spec {c hd : Expr} (h : ancestorsToHeads c = some hd) :
    (RefsIn vh c → RefsIn vh hd) ∧ AncAll g (denote g vh hd) = denote g vh c := by
  unfold ancestorsToHeads at h
  split at h
  · next hpr =>
    simp only [Option.some.injEq] at h
    subst h
    have := ancestorsToHeadsPr_spec (g := g) (vh := vh) hpr
    exact ⟨this.1, by rw [← ancOf_full]; exact this.2⟩
  · simp at h

/-! ### `unfold_difference` -/

theorem unfoldDifference_local (ctx : Ctx g vh) : Local g vh unfoldDifferenceF := by
  intro e e' hr h
  unfold unfoldDifferenceF at h
  split at h
  · next r hd lo hi fp =>
    simp only [Option.some.injEq] at h; subst h
    have hr' := refsIn_append.1 hr
    refine ⟨refsIn_append.2 ⟨hr'.2, hr'.1⟩, ?_⟩
    funext p
    apply propext
    simp only [denote]
    rw [ancOf_full]
    constructor
    · rintro ⟨h1, _, h3⟩; exact ⟨h1, h3⟩
    · rintro ⟨h1, h3⟩
      exact ⟨h1, ancOf_sub (denote_sub_all ctx hd hr'.2) h1, h3⟩
  · next a b =>
    simp only [Option.some.injEq] at h; subst h
    have hr' := refsIn_append.1 hr
    refine ⟨hr, ?_⟩
    funext p
    apply propext
    simp only [denote]
    constructor
    · rintro ⟨h1, _, h3⟩; exact ⟨h1, h3⟩
    · rintro ⟨h1, h3⟩; exact ⟨h1, denote_sub_all ctx a hr'.1 p h1, h3⟩
  · simp at h

theorem unfoldDifference_sound (ctx : Ctx g vh) : Sound g vh (bottomUp unfoldDifferenceF) :=
  bottomUp_sound (unfoldDifference_local ctx)

/-! ### `fold_redundant_expression` -/

theorem foldRedundant_local (ctx : Ctx g vh) : Local g vh foldRedundantF := by
  intro e e' hr h
  unfold foldRedundantF at h
  split at h <;> (try simp only [Option.some.injEq] at h) <;> (try subst h)
  · -- commits [] → none
    exact ⟨by intro x hx; simp [refsOf] at hx, by funext p; simp [denote]⟩
  · -- ~~x → x
    next x =>
    refine ⟨hr, ?_⟩
    funext p
    apply propext
    simp only [denote]
    constructor
    · intro hx
      exact ⟨denote_sub_all ctx x (show RefsIn vh x from hr) p hx, fun h => h.2 hx⟩
    · rintro ⟨h1, h2⟩
      apply Classical.byContradiction
      intro hn
      exact h2 ⟨h1, hn⟩
  · -- ~none → all
    exact ⟨by intro x hx; simp [refsOf] at hx, by funext p; simp [denote]⟩
  · -- ~all → none
    exact ⟨by intro x hx; simp [refsOf] at hx, by funext p; simp [denote]⟩
  · -- a | none → a
    exact ⟨(refsIn_append.1 hr).1, by funext p; simp [denote]⟩
  · -- none | b → b
    exact ⟨(refsIn_append.1 hr).2, by funext p; simp [denote]⟩
  · -- all | _ → all
    refine ⟨by intro x hx; simp [refsOf] at hx, ?_⟩
    funext p
    apply propext
    simp only [denote]
    constructor
    · intro h; exact Or.inl h
    · rintro (h | h)
      · exact h
      · exact denote_sub_all ctx _ (refsIn_append.1 hr).2 p h
  · -- _ | all → all
    refine ⟨by intro x hx; simp [refsOf] at hx, ?_⟩
    funext p
    apply propext
    simp only [denote]
    constructor
    · intro h; exact Or.inr h
    · rintro (h | h)
      · exact denote_sub_all ctx _ (refsIn_append.1 hr).1 p h
      · exact h
  · -- none & _ → none
    exact ⟨by intro x hx; simp [refsOf] at hx, by funext p; simp [denote]⟩
  · -- _ & none → none
    exact ⟨by intro x hx; simp [refsOf] at hx, by funext p; simp [denote]⟩
  · -- a & all → a
    refine ⟨(refsIn_append.1 hr).1, ?_⟩
    funext p
    apply propext
    simp only [denote]
    constructor
    · intro h; exact ⟨h, denote_sub_all ctx _ (refsIn_append.1 hr).1 p h⟩
    · exact fun h => h.1
  · -- all & b → b
    refine ⟨(refsIn_append.1 hr).2, ?_⟩
    funext p
    apply propext
    simp only [denote]
    constructor
    · intro h; exact ⟨denote_sub_all ctx _ (refsIn_append.1 hr).2 p h, h⟩
    · exact fun h => h.2
  · simp at h

theorem foldRedundant_sound (ctx : Ctx g vh) : Sound g vh (bottomUp foldRedundantF) :=
  bottomUp_sound (foldRedundant_local ctx)

/-! ### `fold_difference`, `fold_not_in_ancestors` -/

theorem toDifferenceRange_spec {e c e' : Expr} (hre : RefsIn vh e) (hrc : RefsIn vh c)
    (h : toDifferenceRange e c = some e') :
    RefsIn vh e' ∧ denote g vh e' = fun p => denote g vh e p ∧ ¬ denote g vh c p := by
  unfold toDifferenceRange at h
  split at h
  · next hd lo hi fp =>
    split at h
    · next roots hroots =>
      simp only [Option.some.injEq] at h; subst h
      have hs := ancestorsToHeads_spec (g := g) (vh := vh) hroots
      refine ⟨refsIn_append.2 ⟨hs.1 hrc, hre⟩, ?_⟩
      funext p
      simp only [denote]
      rw [hs.2]
    · simp at h
  · simp at h

theorem toDifference_spec {e c : Expr} (hre : RefsIn vh e) (hrc : RefsIn vh c) :
    RefsIn vh (toDifference e c) ∧
      denote g vh (toDifference e c) = fun p => denote g vh e p ∧ ¬ denote g vh c p := by
  unfold toDifference
  cases h : toDifferenceRange e c with
  | none => exact ⟨refsIn_append.2 ⟨hre, hrc⟩, by funext p; simp [denote]⟩
  | some e' => simpa using toDifferenceRange_spec hre hrc h

theorem foldDifference_local (ctx : Ctx g vh) : Local g vh foldDifferenceF := by
  intro e e' hr h
  unfold foldDifferenceF at h
  split at h
  · next e1 c =>
    simp only [Option.some.injEq] at h; subst h
    have hr' := refsIn_append.1 hr
    obtain ⟨a, b⟩ := toDifference_spec (g := g) hr'.1 (show RefsIn vh c from hr'.2)
    refine ⟨a, ?_⟩
    rw [b]
    funext p
    apply propext
    simp only [denote]
    constructor
    · rintro ⟨h1, h2⟩; exact ⟨h1, denote_sub_all ctx e1 hr'.1 p h1, h2⟩
    · rintro ⟨h1, _, h2⟩; exact ⟨h1, h2⟩
  · next c e2 _ =>
    simp only [Option.some.injEq] at h; subst h
    have hr' := refsIn_append.1 hr
    obtain ⟨a, b⟩ := toDifference_spec (g := g) hr'.2 (show RefsIn vh c from hr'.1)
    refine ⟨a, ?_⟩
    rw [b]
    funext p
    apply propext
    simp only [denote]
    constructor
    · rintro ⟨h1, h2⟩; exact ⟨⟨denote_sub_all ctx e2 hr'.2 p h1, h2⟩, h1⟩
    · rintro ⟨⟨_, h2⟩, h1⟩; exact ⟨h1, h2⟩
  · simp at h

theorem foldDifference_sound (ctx : Ctx g vh) : Sound g vh (bottomUp foldDifferenceF) :=
  bottomUp_sound (foldDifference_local ctx)

theorem foldNotInAncestors_local : Local g vh foldNotInAncestorsF := by
  intro e e' hr h
  unfold foldNotInAncestorsF at h
  split at h
  · next hd lo hi fp =>
    have hre : RefsIn vh (.ancestors .visibleHeadsOrReferenced 0 none false) := by
      intro x hx; simp [refsOf] at hx
    obtain ⟨a, b⟩ := toDifferenceRange_spec (g := g) hre (show RefsIn vh (.ancestors hd lo hi fp) from hr) h
    refine ⟨a, ?_⟩
    rw [b]
    funext p
    simp only [denote]
    rw [ancOf_full]
  · simp at h

theorem foldNotInAncestors_sound : Sound g vh (bottomUp foldNotInAncestorsF) :=
  bottomUp_sound foldNotInAncestors_local

end

end JjModel.Revset
