import JjModel.Model.Files
import JjModel.Lemmas.DiffHunks
/-!
  The three collectors of `files.rs` (`collect_resolved`, `collect_hunks`, `collect_merged`) agree
  on whether a hunk stream is fully resolved, and on the resolved content.
-/
namespace JjModel.Files
open JjModel.Diff

theorem asResolved_none_length (h : List Bytes) (hn : asResolved h = none) : h.length ≠ 1 := by
  match h with
  | [] => simp
  | [c] => simp [asResolved] at hn
  | _ :: _ :: _ => simp

theorem collectResolved_cons (h : List Bytes) (hs : List (List Bytes)) (c : Bytes) :
    collectResolved (h :: hs) = some c ↔
      ∃ c0 rest, asResolved h = some c0 ∧ collectResolved hs = some rest ∧ c = c0 ++ rest := by
  rw [collectResolved]
  cases asResolved h <;> cases collectResolved hs <;> simp [eq_comm]

theorem collectResolved_cons_none (h : List Bytes) (hs : List (List Bytes)) :
    collectResolved (h :: hs) = none ↔ asResolved h = none ∨ collectResolved hs = none := by
  rw [collectResolved]
  cases asResolved h <;> cases collectResolved hs <;> simp

/-! ### `collect_hunks` -/

theorem collectHunksGo_resolved (hs : List (List Bytes)) (cur : Bytes) (acc : List (List Bytes))
    (c : Bytes) (h : collectResolved hs = some c) : collectHunksGo hs cur acc = (cur ++ c, acc) := by
  induction hs generalizing cur c with
  | nil => simp [collectResolved] at h; simp [collectHunksGo, ← h]
  | cons x xs ih =>
    obtain ⟨c0, rest, h1, h2, rfl⟩ := (collectResolved_cons x xs c).mp h
    rw [collectHunksGo, h1]
    simp only
    rw [ih (cur ++ c0) rest h2, List.append_assoc]

theorem collectHunksGo_mono (hs : List (List Bytes)) (cur : Bytes) (acc : List (List Bytes)) :
    acc.length ≤ (collectHunksGo hs cur acc).2.length := by
  induction hs generalizing cur acc with
  | nil => simp [collectHunksGo]
  | cons x xs ih =>
    rw [collectHunksGo]
    split
    · exact ih _ _
    · split
      · exact Nat.le_trans (by simp) (ih _ _)
      · exact Nat.le_trans (by simp) (ih _ _)

theorem collectHunksGo_unresolved (hs : List (List Bytes)) (cur : Bytes) (acc : List (List Bytes))
    (h : collectResolved hs = none) : acc.length < (collectHunksGo hs cur acc).2.length := by
  induction hs generalizing cur acc with
  | nil => simp [collectResolved] at h
  | cons x xs ih =>
    rw [collectHunksGo]
    rcases (collectResolved_cons_none x xs).mp h with h1 | h2
    · rw [h1]
      simp only
      split
      · exact Nat.lt_of_lt_of_le (by simp) (collectHunksGo_mono _ _ _)
      · exact Nat.lt_of_lt_of_le (by simp) (collectHunksGo_mono _ _ _)
    · split
      · exact ih _ _ h2
      · split
        · exact Nat.lt_of_lt_of_le (by simp) (collectHunksGo_mono _ _ _)
        · exact Nat.lt_of_lt_of_le (by simp) (collectHunksGo_mono _ _ _)

theorem collectHunks_resolved_iff (hs : List (List Bytes)) (c : Bytes) :
    collectHunks hs = .resolved c ↔ collectResolved hs = some c := by
  constructor
  · intro h
    cases hr : collectResolved hs with
    | some c' =>
      have := collectHunksGo_resolved hs [] [] c' hr
      simp [collectHunks, this] at h
      rw [h]
    | none =>
      have := collectHunksGo_unresolved hs [] [] hr
      unfold collectHunks at h
      have hne : (collectHunksGo hs [] []).2.isEmpty = false := by
        cases hh : (collectHunksGo hs [] []).2 with
        | nil => rw [hh] at this; simp at this
        | cons _ _ => rfl
      simp only [hne] at h
      by_cases hb : (!(collectHunksGo hs [] []).1.isEmpty) = true
      · simp [hb] at h
      · simp [hb] at h
  · intro h
    have := collectHunksGo_resolved hs [] [] c h
    simp [collectHunks, this]

/-! ### `collect_merged` -/

theorem collectMergedGo_resolved (hs : List (List Bytes)) (acc : List Bytes) (c : Bytes)
    (h : collectResolved hs = some c) : collectMergedGo hs acc = some (acc.map (· ++ c)) := by
  induction hs generalizing acc c with
  | nil => simp [collectResolved] at h; subst h; simp [collectMergedGo]
  | cons x xs ih =>
    obtain ⟨c0, rest, h1, h2, rfl⟩ := (collectResolved_cons x xs c).mp h
    rw [collectMergedGo, h1]
    simp only
    rw [ih _ rest h2]
    simp [List.append_assoc]

/-- once the accumulator is a conflict it keeps its arity -/
theorem collectMergedGo_conflict_length (hs : List (List Bytes)) (acc r : List Bytes)
    (hacc : acc.length ≠ 1) (h : collectMergedGo hs acc = some r) : r.length = acc.length := by
  induction hs generalizing acc with
  | nil => simp [collectMergedGo] at h; rw [← h]
  | cons x xs ih =>
    rw [collectMergedGo] at h
    split at h
    · have := ih (acc.map _) (by simpa using hacc) h
      simpa using this
    · have hacc' : expandResolved acc x.length = acc := by
        match acc, hacc with
        | [], _ => rfl
        | [_], hacc => simp at hacc
        | _ :: _ :: _, _ => rfl
      simp only [hacc'] at h
      split at h
      · rename_i hl
        have := ih _ (by simp [List.length_zipWith, ← hl]; exact hacc) h
        simpa [List.length_zipWith, ← hl] using this
      · cases h

/-- the result of `collect_merged` has the accumulator's arity or the arity of an unresolved hunk -/
theorem collectMergedGo_length (hs : List (List Bytes)) (acc r : List Bytes)
    (h : collectMergedGo hs acc = some r) :
    r.length = acc.length ∨ ∃ x ∈ hs, asResolved x = none ∧ r.length = x.length := by
  induction hs generalizing acc with
  | nil => simp [collectMergedGo] at h; left; rw [← h]
  | cons x xs ih =>
    rw [collectMergedGo] at h
    split at h
    · rcases ih _ h with h1 | ⟨y, hy, h2, h3⟩
      · left; simpa using h1
      · right; exact ⟨y, by simp [hy], h2, h3⟩
    · rename_i hx
      dsimp only at h
      split at h
      · rename_i hl
        rcases ih _ h with h1 | ⟨y, hy, h2, h3⟩
        · right
          refine ⟨x, by simp, hx, ?_⟩
          rw [h1, List.length_zipWith, hl]; simp
        · right; exact ⟨y, by simp [hy], h2, h3⟩
      · cases h

theorem collectMergedGo_unresolved (hs : List (List Bytes)) (acc r : List Bytes)
    (hu : collectResolved hs = none) (h : collectMergedGo hs acc = some r) : r.length ≠ 1 := by
  induction hs generalizing acc with
  | nil => simp [collectResolved] at hu
  | cons x xs ih =>
    rw [collectMergedGo] at h
    split at h
    · rename_i c hx
      rcases (collectResolved_cons_none x xs).mp hu with h1 | h2
      · rw [hx] at h1; cases h1
      · exact ih _ h2 h
    · rename_i hx
      dsimp only at h
      split at h
      · rename_i hl
        have hne := asResolved_none_length x hx
        have := collectMergedGo_conflict_length xs _ r
          (by rw [List.length_zipWith, hl]; simpa using hne) h
        rw [this, List.length_zipWith, hl]; simpa using hne
      · cases h

theorem collectMerged_resolved_iff (hs : List (List Bytes)) (c : Bytes) :
    collectMerged hs = some [c] ↔ collectResolved hs = some c := by
  constructor
  · intro h
    cases hr : collectResolved hs with
    | some c' =>
      have := collectMergedGo_resolved hs [[]] c' hr
      rw [collectMerged, this] at h
      simp at h; rw [h]
    | none =>
      have := collectMergedGo_unresolved hs [[]] [c] hr h
      simp at this
  · intro h
    have := collectMergedGo_resolved hs [[]] c h
    simp [collectMerged, this]

/-- what a hunk contributes to term `k` of the merged result: a resolved hunk is copied to every
term, an unresolved hunk contributes its own `k`-th term -/
def termOf (k : Nat) (h : List Bytes) : Bytes :=
  match h with
  | [c] => c
  | _ => h.getD k []

/-- term `k` of the accumulator of `collect_merged`, a resolved accumulator standing for all terms -/
def accTerm (k : Nat) (acc : List Bytes) : Bytes :=
  match acc with
  | [a] => a
  | _ => acc.getD k []

theorem collectMergedGo_term (hs : List (List Bytes)) (acc r : List Bytes)
    (h : collectMergedGo hs acc = some r) (k : Nat) (hk : k < r.length) :
    r.getD k [] = accTerm k acc ++ hs.flatMap (termOf k) := by
  induction hs generalizing acc with
  | nil =>
    simp only [collectMergedGo, Option.some.injEq] at h
    subst h
    simp only [List.flatMap_nil, List.append_nil]
    match acc, hk with
    | [a], hk => have : k = 0 := by simpa using hk
                 subst this; rfl
    | [], hk => simp at hk
    | _ :: _ :: _, _ => rfl
  | cons x xs ih =>
    rw [collectMergedGo] at h
    split at h
    · rename_i c hx
      have hx' : x = [c] := by
        match x, hx with
        | [c'], hx => simp [asResolved] at hx; rw [hx]
      subst hx'
      rw [ih _ h, List.flatMap_cons]
      have : accTerm k (acc.map (· ++ c)) = accTerm k acc ++ c := by
        by_cases h1 : acc.length = 1
        · match acc, h1 with
          | [a], _ => rfl
        · have hrl := collectMergedGo_conflict_length xs _ r (by simpa using h1) h
          have hka : k < acc.length := by simpa [hrl] using hk
          have e1 : accTerm k (acc.map (· ++ c)) = (acc.map (· ++ c)).getD k [] := by
            match acc, h1 with
            | [], _ => rfl
            | _ :: _ :: _, _ => rfl
          have e2 : accTerm k acc = acc.getD k [] := by
            match acc, h1 with
            | [], _ => rfl
            | _ :: _ :: _, _ => rfl
          rw [e1, e2]
          simp [List.getD, List.getElem?_map, List.getElem?_eq_getElem hka]
      rw [this]; simp [termOf, List.append_assoc]
    · rename_i hx
      dsimp only at h
      split at h
      · rename_i hl
        have hne := asResolved_none_length x hx
        have hlz : (List.zipWith (· ++ ·) (expandResolved acc x.length) x).length = x.length := by
          rw [List.length_zipWith, hl]; simp
        have hrl := collectMergedGo_conflict_length xs _ r (by rw [hlz]; exact hne) h
        rw [hlz] at hrl
        rw [ih _ h, List.flatMap_cons]
        have hkx : k < x.length := by omega
        have ht : termOf k x = x.getD k [] := by
          match x, hne with
          | [], _ => rfl
          | [_], hne => simp at hne
          | _ :: _ :: _, _ => rfl
        have hacc : accTerm k (List.zipWith (· ++ ·) (expandResolved acc x.length) x) =
            accTerm k acc ++ x.getD k [] := by
          have hz : accTerm k (List.zipWith (· ++ ·) (expandResolved acc x.length) x) =
              (List.zipWith (· ++ ·) (expandResolved acc x.length) x).getD k [] := by
            generalize hzz : List.zipWith (· ++ ·) (expandResolved acc x.length) x = z at hlz
            match z, hlz with
            | [], _ => rfl
            | [_], hlz => simp at hlz; omega
            | _ :: _ :: _, _ => rfl
          rw [hz, getD_zipWith (· ++ ·) _ x k [] [] [] (by rw [hl]; exact hkx) hkx]
          congr 1
          match acc with
          | [a] => simp [expandResolved, accTerm, List.getD, hkx]
          | [] => rfl
          | _ :: _ :: _ => rfl
        rw [hacc, ht, List.append_assoc]
      · cases h

end JjModel.Files
