import JjModel.Lemmas.FilesIdentity
import JjModel.Props.C03
import JjModel.Lemmas.DiffSre
/-!
  Arity of the hunks of `merge_inner`; `collect_merged` cannot hit its `assert_eq!`.
-/
namespace JjModel.Files
open JjModel.Merge JjModel.Diff

theorem length_interleave {β : Type} (rs as : List β) (h : rs.length = as.length) :
    (interleave rs as).length = 2 * rs.length := by
  induction rs generalizing as with
  | nil => simp [interleave]
  | cons r rs ih =>
    cases as with
    | nil => simp at h
    | cons a as => simp at h; simp [interleave, ih as h]; omega

theorem length_fromRemovesAdds {β : Type} (rs as : List β) (h : as.length = rs.length + 1) :
    (fromRemovesAdds rs as).length = 2 * rs.length + 1 := by
  cases as with
  | nil => simp at h
  | cons a as => simp at h; simp [fromRemovesAdds, length_interleave rs as h.symm]

/-- every hunk handed to the collectors is resolved or has the arity of the merge -/
theorem mergeInnerHunks_arity (terms : List Bytes) (hodd : terms.length % 2 = 1) (level : HunkLevel)
    (sc : SameChange) : ∀ h ∈ mergeInnerHunks terms level sc, h.length = 1 ∨ h.length = terms.length := by
  obtain ⟨hlen1, hlen⟩ := length_removes_adds terms hodd
  have hRA : (removes terms).length + (adds terms).length = terms.length := by simpa using hlen
  have hline : ∀ h ∈ resolvedHunks byLine terms sc, h.length = 1 ∨ h.length = terms.length := by
    intro h hh
    unfold resolvedHunks at hh
    cases hd : build (diffInputs terms) byLine with
    | none => rw [hd] at hh; simp at hh
    | some d =>
      rw [hd] at hh
      obtain ⟨e, w⟩ := build_wf _ _ d hd
      simp only [resolveDiffHunks, List.mem_map] at hh
      obtain ⟨hk, hkm, rfl⟩ := hh
      have hkl : hk.2.length = (diffInputs terms).length := by
        simp only [ContentDiff.hunks, List.mem_map] at hkm
        obtain ⟨hr, hrm, rfl⟩ := hkm
        have := C03.hunks_arity d (by rw [e]; exact w) hr hrm
        simp [List.length_zipWith, this, e]
      cases hk.1 with
      | matching => left; rfl
      | different =>
        simp only
        split
        · left; rfl
        · right
          rw [length_fromRemovesAdds]
          · simp only [List.length_take, hkl, diffInputs, List.length_append]; omega
          · simp only [List.length_take, List.length_drop, hkl, diffInputs, List.length_append]; omega
  intro h hh
  unfold mergeInnerHunks at hh
  cases level with
  | line => exact hline h hh
  | word =>
    simp only [List.mem_map] at hh
    obtain ⟨h0, hh0, rfl⟩ := hh
    have := hline h0 hh0
    unfold mergeHunkByWord
    split
    · left; rfl
    · split
      · left; rfl
      · exact this

theorem collectMergedGo_isSome (n : Nat) (hs : List (List Bytes)) (acc : List Bytes)
    (hh : ∀ h ∈ hs, h.length = 1 ∨ h.length = n) (hacc : acc.length = 1 ∨ acc.length = n) :
    ∃ r, collectMergedGo hs acc = some r := by
  induction hs generalizing acc with
  | nil => exact ⟨acc, rfl⟩
  | cons h hs ih =>
    have ihh : ∀ h ∈ hs, h.length = 1 ∨ h.length = n := fun x hx => hh x (by simp [hx])
    rw [collectMergedGo]
    split
    · exact ih _ ihh (by simpa using hacc)
    · rename_i hn
      have hne := asResolved_none_length h hn
      have hl : h.length = n := by rcases hh h (by simp) with h1 | h1; exact absurd h1 hne; exact h1
      have hexp : (expandResolved acc h.length).length = h.length := by
        match acc, hacc with
        | [c], _ => simp [expandResolved]
        | [], hacc => simp at hacc; simp [expandResolved]; omega
        | a :: b :: rest, hacc =>
          simp [expandResolved]
          rcases hacc with h1 | h1
          · simp at h1
          · simp at h1; omega
      dsimp only
      rw [if_pos hexp]
      exact ih _ ihh (by right; rw [List.length_zipWith, hexp, hl]; simp)

/-- the `SlicesRespectEquality` hypothesis holds for the line diff of every merge -/
theorem lineDiffSre_holds (terms : List Bytes) (hne : diffInputs terms ≠ []) : lineDiffSre terms = true := by
  obtain ⟨d, hd⟩ := C03.build_isSome (diffInputs terms) (.line, .exact) [] hne
  have hd' : build (diffInputs terms) byLine = some d := hd
  have hft : forTokenizer (diffInputs terms) .line .exact = some d := by
    simp only [build, List.foldl_nil, Option.map_eq_some_iff] at hd
    obtain ⟨d0, h0, rfl⟩ := hd
    exact h0
  obtain ⟨e, w⟩ := forTokenizer_wf _ _ _ d hft
  have hsre := forTokenizer_sre _ _ _ d hft
  have har := C03.hunks_arity d (by rw [e]; exact w)
  unfold lineDiffSre
  rw [hd']
  simp only [sreb, List.all_eq_true, List.mem_range]
  intro hk hmem i hi j hj
  split
  · rename_i heq
    simp only [ContentDiff.hunks, List.mem_map] at hmem
    obtain ⟨hr, hrm, rfl⟩ := hmem
    have hl := har hr hrm
    simp only [decide_eq_true_eq]
    rw [getD_zipWith slice d.inputs hr.ranges i [] ⟨0, 0⟩ [] hi (by rw [hl]; exact hi),
      getD_zipWith slice d.inputs hr.ranges j [] ⟨0, 0⟩ [] hj (by rw [hl]; exact hj), heq]
    rw [e] at hi hj heq
    rw [hsre hr hrm i j hi hj heq]
  · rfl

end JjModel.Files
