import JjModel.Lemmas.RepoTopo
/-!
  `resolve_rewrite_mapping_with` (topological sort of the keys, then resolution through the
  entries already resolved) agrees with `rewritten_ids_with` — the `debug_assert_eq!` of the source.
-/
set_option linter.unusedSimpArgs false
namespace JjModel.Repo

/-- the elements `union a b` appends to `a` -/
def fresh (a : List Nat) : List Nat → List Nat
  | [] => []
  | x :: b => if x ∈ a then fresh a b else x :: fresh (a ++ [x]) b

theorem union_eq_fresh (a b : List Nat) : union a b = a ++ fresh a b := by
  induction b generalizing a with
  | nil => simp [union_nil, fresh]
  | cons x b ih =>
    rw [union_cons]
    unfold fresh
    by_cases hx : x ∈ a
    · simp only [hx, if_true]; rw [insertNew_of_mem hx]; exact ih a
    · simp only [hx, if_false]; rw [insertNew_of_not_mem hx, ih]; simp

theorem dedup_eq_fresh (b : List Nat) : dedup b = fresh [] b := by
  unfold dedup; rw [union_eq_fresh]; simp

theorem union_fresh (a c b : List Nat) (hc : ∀ x ∈ c, x ∈ a) : union a (fresh c b) = union a b := by
  induction b generalizing a c with
  | nil => rfl
  | cons x b ih =>
    unfold fresh
    by_cases hx : x ∈ c
    · simp only [hx, if_true]
      rw [union_cons, insertNew_of_mem (hc x hx)]
      exact ih a c hc
    · simp only [hx, if_false]
      rw [union_cons, union_cons]
      apply ih
      intro y hy
      simp only [List.mem_append, List.mem_singleton] at hy
      rw [mem_insertNew]
      rcases hy with hy | hy
      · exact Or.inl (hc y hy)
      · exact Or.inr hy

/-- `unique()` of an already de-duplicated argument adds nothing -/
theorem union_dedup (a b : List Nat) : union a (dedup b) = union a b := by
  rw [dedup_eq_fresh]; exact union_fresh a [] b (by simp)

theorem dedup_flatMap_dedup {α : Type} (h : α → List Nat) (l : List α) (a : List Nat) :
    union a (l.flatMap fun x => dedup (h x)) = union a (l.flatMap h) := by
  induction l generalizing a with
  | nil => rfl
  | cons x l ih =>
    simp only [List.flatMap_cons, union_append, union_dedup]
    exact ih _

theorem dedup_singleton (t : Nat) : dedup [t] = [t] := by
  simp [dedup, union, insertNew]

theorem lookup_append_single {β : Type} (l : List (Nat × β)) (k k2 : Nat) (v : β) :
    (l ++ [(k, v)]).lookup k2 =
      match l.lookup k2 with
      | some w => some w
      | none => if k2 = k then some v else none := by
  induction l with
  | nil =>
    by_cases h : k2 = k
    · subst h; simp [List.lookup]
    · have : (k2 == k) = false := by simpa using h
      simp [List.lookup, h, this]
  | cons e l ih =>
    obtain ⟨k', v'⟩ := e
    simp only [List.cons_append, List.lookup]
    cases hk : k2 == k' with
    | true => simp
    | false => simpa using ih

theorem resolve_fold {m : Mapping} {pred : Rewrite → Bool} {rank : Nat → Nat}
    (hac : Acyclic m pred rank) :
    ∀ r : List Nat, TopoRev (replOf m pred) r →
      let nm := r.reverse.foldl (resolveStep m pred) []
      (∀ k ∈ r, ∀ rw, m.getIf pred k = some rw → nm.lookup k = some (dedup (leaves m pred rank k))) ∧
      (∀ k, (k ∉ r ∨ m.getIf pred k = none) → nm.lookup k = none) := by
  intro r
  induction r with
  | nil => intro _; simp [List.lookup]
  | cons k r ih =>
    intro ht
    obtain ⟨hf, hk, ht'⟩ := ht
    obtain ⟨ih1, ih2⟩ := ih ht'
    simp only [List.reverse_cons, List.foldl_append, List.foldl_cons, List.foldl_nil]
    generalize hnm : r.reverse.foldl (resolveStep m pred) [] = nm' at ih1 ih2
    cases hg : m.getIf pred k with
    | none =>
      have hs : resolveStep m pred nm' k = nm' := by unfold resolveStep; simp [hg]
      rw [hs]
      refine ⟨?_, ?_⟩
      · intro k2 hk2 rw hg2
        simp only [List.mem_cons] at hk2
        rcases hk2 with rfl | hk2
        · rw [hg] at hg2; cases hg2
        · exact ih1 k2 hk2 rw hg2
      · intro k2 h2
        rcases h2 with h2 | h2
        · exact ih2 k2 (Or.inl (fun h => h2 (by simp [h])))
        · exact ih2 k2 (Or.inr h2)
    | some rw =>
      have hlk : ∀ t ∈ rw.newParentIds, lookupOr nm' t = dedup (leaves m pred rank t) := by
        intro t ht
        have htr : t ∈ r := hf t (by unfold replOf; simp [hg, ht])
        unfold lookupOr
        cases hgt : m.getIf pred t with
        | none => rw [ih2 t (Or.inr hgt), leaves_leaf hgt, dedup_singleton]
        | some rwt => rw [ih1 t htr rwt hgt]
      have hnew : resolvedIds nm' rw.newParentIds = dedup (leaves m pred rank k) := by
        rw [leaves_key hac hg]
        have hgen : dedup (rw.newParentIds.flatMap (lookupOr nm'))
            = dedup (rw.newParentIds.flatMap (leaves m pred rank)) := by
          rw [flatMap_congr_on hlk]
          exact dedup_flatMap_dedup _ _ []
        unfold resolvedIds
        match hrp : rw.newParentIds, hlk, hgen with
        | [id], hlk, _ => simp [hlk id (by simp)]
        | [], _, hgen => exact hgen
        | a :: b :: rest, _, hgen => exact hgen
      have hs : resolveStep m pred nm' k = nm' ++ [(k, dedup (leaves m pred rank k))] := by
        unfold resolveStep; simp only [hg]; rw [hnew]
      rw [hs]
      have hknone : nm'.lookup k = none := ih2 k (Or.inl hk)
      refine ⟨?_, ?_⟩
      · intro k2 hk2 rw2 hg2
        rw [lookup_append_single]
        simp only [List.mem_cons] at hk2
        rcases hk2 with rfl | hk2
        · simp [hknone]
        · simp [ih1 k2 hk2 rw2 hg2]
      · intro k2 h2
        rw [lookup_append_single]
        have hne : k2 ≠ k := by
          rcases h2 with h2 | h2
          · intro h; exact h2 (by simp [h])
          · intro h; subst h; rw [hg] at h2; cases h2
        have : nm'.lookup k2 = none := by
          rcases h2 with h2 | h2
          · exact ih2 k2 (Or.inl (fun h => h2 (by simp [h])))
          · exact ih2 k2 (Or.inr h2)
        simp [this, hne]

def allRepl (m : Mapping) : List Nat := m.flatMap fun e => e.2.newParentIds

theorem lookup_mem {m : Mapping} {k : Nat} {rw : Rewrite} (h : m.lookup k = some rw) : (k, rw) ∈ m := by
  induction m with
  | nil => simp [List.lookup] at h
  | cons e m ih =>
    obtain ⟨k', v⟩ := e
    simp only [List.lookup] at h
    cases hk : k == k' with
    | true =>
      simp only [hk] at h
      have : k = k' := by simpa using hk
      subst this; injection h with h; subst h; simp
    | false => simp only [hk] at h; simp [ih h]

theorem getIf_get {m : Mapping} {pred : Rewrite → Bool} {k : Nat} {rw : Rewrite}
    (hg : m.getIf pred k = some rw) : m.get k = some rw := by
  unfold Mapping.getIf at hg
  cases h : m.get k with
  | none => simp [h] at hg
  | some r =>
    simp only [h] at hg
    by_cases hp : pred r = true
    · simp only [hp, if_true] at hg; injection hg with hg; subst hg; rfl
    · simp [hp] at hg

theorem replOf_subset {m : Mapping} {pred : Rewrite → Bool} {k t : Nat} (h : t ∈ replOf m pred k) :
    t ∈ allRepl m := by
  unfold replOf at h
  cases hg : m.getIf pred k with
  | none => simp [hg] at h
  | some rw =>
    simp only [hg] at h
    have := lookup_mem (getIf_get hg)
    unfold allRepl
    simp only [List.mem_flatMap]
    exact ⟨(k, rw), this, h⟩

theorem mem_keys_of_get {m : Mapping} {k : Nat} {rw : Rewrite} (h : m.get k = some rw) : k ∈ m.keys := by
  unfold Mapping.get at h
  unfold Mapping.keys
  induction m with
  | nil => simp [List.lookup] at h
  | cons e m ih =>
    obtain ⟨k', v⟩ := e
    simp only [List.lookup] at h
    cases hk : k == k' with
    | true => simp at hk; simp [hk]
    | false => simp only [hk] at h; simp [ih h]

/-- **`rewritten_ids_eq_resolved`** — the `debug_assert_eq!` in `resolve_rewrite_mapping_with`:
    on an acyclic mapping the entry computed for `old` by the topological resolution equals
    what the iterative `rewritten_ids_with([old])` returns. -/
theorem rewritten_ids_eq_resolved {m : Mapping} {pred : Rewrite → Bool} {rank : Nat → Nat}
    (hac : Acyclic m pred rank) {nm : List (Nat × List Nat)}
    (hres : resolveRewriteMappingWith m pred = .ok nm) {old : Nat} {rw : Rewrite}
    (hg : m.getIf pred old = some rw) {ids : List Nat}
    (hrw : rewrittenIdsWith m pred [old] = some ids) : nm.lookup old = some ids := by
  unfold resolveRewriteMappingWith at hres
  cases hto : topoOrderForward (walkFuel (m.length + mappingSize m)) m.keys
      (fun (_ : Unit) (id : Nat) => (replOf m pred id, ())) () with
  | none => rw [hto] at hres; cases hres
  | some sorted =>
    rw [hto] at hres
    have hspec := topoOrderForward_spec (g := replOf m pred) (U := allRepl m)
      (by intro s id t ht; exact ht) (by intro s id t ht; exact replOf_subset ht) hto
    have hfold := resolve_fold hac sorted.reverse hspec.1
    simp only [List.reverse_reverse] at hfold
    have hnm : nm = sorted.foldl (resolveStep m pred) [] := by
      injection hres with h; exact h.symm
    have hold : old ∈ sorted := hspec.2.1 old (by
      have : m.get old = some rw := getIf_get hg
      exact mem_keys_of_get this)
    rw [hnm, hfold.1 old (by simpa using hold) rw hg]
    have := (rewrittenIdsWith_spec hac hrw).1
    simp only [List.flatMap_cons, List.flatMap_nil, List.append_nil] at this
    rw [this]

end JjModel.Repo
