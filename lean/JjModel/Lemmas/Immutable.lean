import JjModel.Model.Immutable
/-!
  Lemmas about the two closure passes of `Model/Immutable.lean` (core Lean only).

  `Anc g a d` — `a` is an ancestor of `d` (reflexive) along parent edges of the listed commits —
  is the specification; `closeUp` on a reverse-topological list computes exactly the ancestors,
  `closeDown` only ever adds descendants.
-/
namespace JjModel.Immutable

/-- `a` is a (reflexive) ancestor of `d` in `g`. -/
inductive Anc (g : Graph) : Nat → Nat → Prop
  | refl (a : Nat) : Anc g a a
  | step {a p : Nat} {c : Commit} : c ∈ g → p ∈ c.parents → Anc g a p → Anc g a c.id

theorem Anc.trans {g : Graph} {a b c : Nat} (h1 : Anc g a b) (h2 : Anc g b c) : Anc g a c := by
  induction h2 with
  | refl => exact h1
  | step hc hp _ ih => exact Anc.step hc hp ih

theorem Anc.parent {g : Graph} {c : Commit} {p : Nat} (hc : c ∈ g) (hp : p ∈ c.parents) :
    Anc g p c.id := Anc.step hc hp (Anc.refl p)

/-- Well-formed graph: the root (id 0) is not listed, and the list is in topological order
(no commit is a parent of a commit listed before it). -/
structure Topo (g : Graph) : Prop where
  noRoot : ∀ c ∈ g, c.id ≠ 0
  order : g.Pairwise (fun a b => b.id ∉ a.parents)

/-! ### `closeUp` -/

theorem closeUp_mono (l : List Commit) (s : List Nat) (x : Nat) (h : x ∈ s) : x ∈ closeUp l s := by
  induction l generalizing s with
  | nil => simpa [closeUp]
  | cons c rest ih =>
    simp only [closeUp]
    split
    · exact ih _ (by simp [h])
    · exact ih _ h

theorem closeUp_origin (l : List Commit) (s : List Nat) (x : Nat) (h : x ∈ closeUp l s) :
    x ∈ s ∨ ∃ c ∈ l, x ∈ c.parents := by
  induction l generalizing s with
  | nil => left; simpa [closeUp] using h
  | cons c rest ih =>
    simp only [closeUp] at h
    split at h
    · rcases ih _ h with h' | ⟨k, hk, hx⟩
      · rcases List.mem_append.mp h' with h'' | h''
        · exact Or.inr ⟨c, by simp, h''⟩
        · exact Or.inl h''
      · exact Or.inr ⟨k, by simp [hk], hx⟩
    · rcases ih _ h with h' | ⟨k, hk, hx⟩
      · exact Or.inl h'
      · exact Or.inr ⟨k, by simp [hk], hx⟩

/-- On a children-first list the result of `closeUp` is closed under "parent of". -/
theorem closeUp_closed (l : List Commit) (s : List Nat)
    (hl : l.Pairwise (fun x y => x.id ∉ y.parents))
    (c : Commit) (hc : c ∈ l) (hin : c.id ∈ closeUp l s) (p : Nat) (hp : p ∈ c.parents) :
    p ∈ closeUp l s := by
  induction l generalizing s with
  | nil => cases hc
  | cons k rest ih =>
    have hk := (List.pairwise_cons.mp hl)
    simp only [closeUp] at hin ⊢
    rcases List.mem_cons.mp hc with rfl | hcr
    · split
      · exact closeUp_mono _ _ _ (by simp [hp])
      · rename_i hns
        rw [if_neg hns] at hin
        rcases closeUp_origin _ _ _ hin with h' | ⟨k', hk', hx⟩
        · exact absurd h' hns
        · exact absurd hx (hk.1 k' hk')
    · split
      · rename_i hs
        rw [if_pos hs] at hin
        exact ih _ hk.2 hcr hin
      · rename_i hs
        rw [if_neg hs] at hin
        exact ih _ hk.2 hcr hin

/-- everything `closeUp` returns is an ancestor of a member of the start set -/
theorem closeUp_sound (g : Graph) (s0 : List Nat) (l : List Commit) (s : List Nat)
    (hl : ∀ c ∈ l, c ∈ g) (hs : ∀ y ∈ s, ∃ h ∈ s0, Anc g y h) (x : Nat) (hx : x ∈ closeUp l s) :
    ∃ h ∈ s0, Anc g x h := by
  induction l generalizing s with
  | nil => exact hs x (by simpa [closeUp] using hx)
  | cons c rest ih =>
    simp only [closeUp] at hx
    split at hx
    · rename_i hc
      refine ih _ (fun k hk => hl k (by simp [hk])) ?_ hx
      intro y hy
      rcases List.mem_append.mp hy with hy | hy
      · obtain ⟨h, hh, ha⟩ := hs _ hc
        exact ⟨h, hh, (Anc.parent (hl c (by simp)) hy).trans ha⟩
      · exact hs y hy
    · exact ih _ (fun k hk => hl k (by simp [hk])) hs hx

/-! ### `closeDown` -/

theorem closeDown_mono (l : List Commit) (s : List Nat) (x : Nat) (h : x ∈ s) : x ∈ closeDown l s := by
  induction l generalizing s with
  | nil => simpa [closeDown]
  | cons c rest ih =>
    simp only [closeDown]
    split
    · exact ih _ (by simp [h])
    · exact ih _ h

/-- `closeDown` is monotone in the start set -/
theorem closeDown_subset (l : List Commit) (s1 s2 : List Nat) (hs : ∀ x ∈ s1, x ∈ s2) (x : Nat)
    (hx : x ∈ closeDown l s1) : x ∈ closeDown l s2 := by
  induction l generalizing s1 s2 with
  | nil => exact hs x (by simpa [closeDown] using hx)
  | cons c rest ih =>
    simp only [closeDown] at hx ⊢
    by_cases h1 : c.id ∈ s1 ∨ ∃ p ∈ c.parents, p ∈ s1
    · have h2 : c.id ∈ s2 ∨ ∃ p ∈ c.parents, p ∈ s2 := by
        rcases h1 with h | ⟨p, hp, hps⟩
        · exact Or.inl (hs _ h)
        · exact Or.inr ⟨p, hp, hs _ hps⟩
      rw [if_pos h1] at hx
      rw [if_pos h2]
      refine ih _ _ ?_ hx
      intro y hy
      rcases List.mem_cons.mp hy with rfl | hy
      · simp
      · simp [hs y hy]
    · rw [if_neg h1] at hx
      by_cases h2 : c.id ∈ s2 ∨ ∃ p ∈ c.parents, p ∈ s2
      · rw [if_pos h2]
        exact ih _ _ (fun y hy => by simp [hs y hy]) hx
      · rw [if_neg h2]
        exact ih _ _ hs hx

/-- everything `closeDown` returns is a descendant of a member of the start set -/
theorem closeDown_sound (g : Graph) (s0 : List Nat) (l : List Commit) (s : List Nat)
    (hl : ∀ c ∈ l, c ∈ g) (hs : ∀ y ∈ s, ∃ r ∈ s0, Anc g r y) (x : Nat) (hx : x ∈ closeDown l s) :
    ∃ r ∈ s0, Anc g r x := by
  induction l generalizing s with
  | nil => exact hs x (by simpa [closeDown] using hx)
  | cons c rest ih =>
    simp only [closeDown] at hx
    split at hx
    · rename_i hc
      refine ih _ (fun k hk => hl k (by simp [hk])) ?_ hx
      intro y hy
      rcases List.mem_cons.mp hy with rfl | hy
      · rcases hc with hc | ⟨p, hp, hps⟩
        · exact hs _ hc
        · obtain ⟨r, hr, ha⟩ := hs _ hps
          exact ⟨r, hr, Anc.step (hl c (by simp)) hp ha⟩
      · exact hs y hy
    · exact ih _ (fun k hk => hl k (by simp [hk])) hs hx

/-! ### the immutable set -/

theorem topo_reverse {g : Graph} (h : Topo g) : g.reverse.Pairwise (fun x y => x.id ∉ y.parents) := by
  rw [List.pairwise_reverse]
  exact h.order

/-- One parent step stays inside the immutable set. -/
theorem immutable_parent_closed {g : Graph} (hg : Topo g) (heads : List Nat) (c : Commit) (hc : c ∈ g)
    (hi : c.id ∈ immutableSet g heads) (p : Nat) (hp : p ∈ c.parents) : p ∈ immutableSet g heads := by
  simp only [immutableSet, List.mem_cons] at hi ⊢
  rcases hi with h0 | hi
  · exact absurd h0 (hg.noRoot c hc)
  · right
    exact closeUp_closed _ _ (topo_reverse hg) c (by simpa using hc) hi p hp

theorem immutable_anc_closed {g : Graph} (hg : Topo g) (heads : List Nat) {a d : Nat} (h : Anc g a d)
    (hd : d ∈ immutableSet g heads) : a ∈ immutableSet g heads := by
  induction h with
  | refl => exact hd
  | step hc hp _ ih => exact ih (immutable_parent_closed hg heads _ hc hd _ hp)

theorem head_mem_immutable (g : Graph) (heads : List Nat) (h : Nat) (hh : h ∈ heads) :
    h ∈ immutableSet g heads := by
  simp only [immutableSet, ancestors, List.mem_cons]
  exact Or.inr (closeUp_mono _ _ _ hh)

/-- `immutableSet` is exactly `::(heads | root)`. -/
theorem mem_immutableSet_iff {g : Graph} (hg : Topo g) (heads : List Nat) (a : Nat) :
    a ∈ immutableSet g heads ↔ a = 0 ∨ ∃ h ∈ heads, Anc g a h := by
  constructor
  · intro ha
    simp only [immutableSet, ancestors, List.mem_cons] at ha
    rcases ha with rfl | ha
    · exact Or.inl rfl
    · right
      exact closeUp_sound g heads _ _ (fun c hc => by simpa using hc)
        (fun y hy => ⟨y, hy, Anc.refl y⟩) a ha
  · rintro (rfl | ⟨h, hh, ha⟩)
    · simp [immutableSet]
    · exact immutable_anc_closed hg heads ha (head_mem_immutable g heads h hh)

theorem descendants_sound (g : Graph) (s : List Nat) (x : Nat) (hx : x ∈ descendants g s) :
    ∃ r ∈ s, Anc g r x :=
  closeDown_sound g s g s (fun _ h => h) (fun y hy => ⟨y, hy, Anc.refl y⟩) x hx

/-- Descendants of mutable commits are mutable. -/
theorem mutable_descendants {g : Graph} (hg : Topo g) (heads s : List Nat)
    (hs : ∀ r ∈ s, r ∉ immutableSet g heads) (x : Nat) (hx : x ∈ descendants g s) :
    x ∉ immutableSet g heads := by
  intro hi
  obtain ⟨r, hr, ha⟩ := descendants_sound g s x hx
  exact hs r hr (immutable_anc_closed hg heads ha hi)

/-! ### canonical set printing -/

theorem mem_ins (x a : Nat) (l : List Nat) : a ∈ ins x l ↔ a = x ∨ a ∈ l := by
  induction l with
  | nil => simp [ins]
  | cons y ys ih =>
    simp only [ins]
    split
    · simp
    · split
      · rename_i h; subst h; simp
      · simp only [List.mem_cons, ih]
        constructor
        · rintro (h | h | h) <;> simp [h]
        · rintro (h | h | h) <;> simp [h]

theorem mem_dedupSorted (a : Nat) (l : List Nat) : a ∈ dedupSorted l ↔ a ∈ l := by
  induction l with
  | nil => simp [dedupSorted]
  | cons y ys ih =>
    have : dedupSorted (y :: ys) = ins y (dedupSorted ys) := rfl
    rw [this, mem_ins, ih]
    simp

end JjModel.Immutable
