import JjModel.Lemmas.EvolutionBasic
/-!
  The splice loop of `visit_op`: an invariant rule and the facts the C46 proofs need about its
  result.
-/
namespace JjModel.Evolution

/-- Invariant rule for `spliceLoop`: a predicate on `(to_visit[..i], to_visit[i..], to_emit)` kept by
the three branches of the loop body holds when the loop ends (with `to_visit[i..] = []`). -/
theorem spliceLoop_inv (m : PMap) (Inv : List Nat → List Nat → List Nat → Prop)
    (h_skip : ∀ done c rest te, Inv done (c :: rest) te → m.get c = none → Inv (done ++ [c]) rest te)
    (h_dup : ∀ done c rest te next, Inv done (c :: rest) te → m.get c = some next → c ∈ te →
      Inv done rest te)
    (h_new : ∀ done c rest te next, Inv done (c :: rest) te → m.get c = some next → c ∉ te →
      Inv done (next ++ rest) (te ++ [c]))
    (done rest te : List Nat) (dup : Bool) (h : Inv done rest te) :
    Inv (spliceLoop m done rest te dup).1 [] (spliceLoop m done rest te dup).2.1 := by
  fun_induction spliceLoop m done rest te dup with
  | case1 => exact h
  | case2 done te dup c rest' hg ih => exact ih (h_skip _ _ _ _ h hg)
  | case3 done te dup c rest' next hg hc ih => exact ih (h_dup _ _ _ _ _ h hg hc)
  | case4 done te dup c rest' next hg hc ih => exact ih (h_new _ _ _ _ _ h hg hc)

/-- everything the proofs need to know about the state of the splice loop started on `tv0` -/
structure SpliceInv (m : PMap) (tv0 done rest te : List Nat) : Prop where
  nodup : te.Nodup
  keys : ∀ c, c ∈ te → m.isKey c = true
  done_nokey : ∀ x, x ∈ done → m.isKey x = false
  closed : ∀ c, c ∈ te → ∀ p, Edge m c p → p ∈ rest ∨ p ∈ te ∨ p ∈ done
  cover : ∀ x, x ∈ tv0 → x ∈ rest ∨ x ∈ te ∨ x ∈ done
  sound : ∀ x, x ∈ rest ∨ x ∈ te ∨ x ∈ done → Reach m tv0 x
  count : ∀ x, m.isKey x = false → (∀ c, ¬ Edge m c x) →
    (done ++ rest).count x = tv0.count x

theorem spliceInv_init (m : PMap) (tv0 : List Nat) : SpliceInv m tv0 [] tv0 [] where
  nodup := List.nodup_nil
  keys := by simp
  done_nokey := by simp
  closed := by simp
  cover := fun x hx => Or.inl hx
  sound := fun x hx => by
    rcases hx with hx | hx | hx
    · exact .base hx
    · simp at hx
    · simp at hx
  count := by simp

theorem spliceLoop_spliceInv (m : PMap) (tv0 : List Nat) (dup : Bool) :
    SpliceInv m tv0 (spliceLoop m [] tv0 [] dup).1 [] (spliceLoop m [] tv0 [] dup).2.1 := by
  apply spliceLoop_inv m (SpliceInv m tv0) _ _ _ _ _ _ _ (spliceInv_init m tv0)
  · -- skip a commit that is not a key
    intro done c rest te h hg
    have hck := not_key_of_get_none hg
    refine ⟨h.nodup, h.keys, ?_, ?_, ?_, ?_, ?_⟩
    · intro x hx
      rcases List.mem_append.mp hx with hx | hx
      · exact h.done_nokey x hx
      · simp at hx; subst hx; exact hck
    · intro a ha p hp
      rcases h.closed a ha p hp with h1 | h1 | h1
      · rcases List.mem_cons.mp h1 with h2 | h2
        · subst h2; exact Or.inr (Or.inr (by simp))
        · exact Or.inl h2
      · exact Or.inr (Or.inl h1)
      · exact Or.inr (Or.inr (by simp [h1]))
    · intro x hx
      rcases h.cover x hx with h1 | h1 | h1
      · rcases List.mem_cons.mp h1 with h2 | h2
        · subst h2; exact Or.inr (Or.inr (by simp))
        · exact Or.inl h2
      · exact Or.inr (Or.inl h1)
      · exact Or.inr (Or.inr (by simp [h1]))
    · intro x hx
      apply h.sound
      rcases hx with h1 | h1 | h1
      · exact Or.inl (by simp [h1])
      · exact Or.inr (Or.inl h1)
      · rcases List.mem_append.mp h1 with h2 | h2
        · exact Or.inr (Or.inr h2)
        · simp at h2; subst h2; exact Or.inl (by simp)
    · intro x hk he
      have := h.count x hk he
      simpa [List.append_assoc] using this
  · -- a key already queued for emission: dropped
    intro done c rest te next h hg hc
    have hck := isKey_of_get hg
    refine ⟨h.nodup, h.keys, h.done_nokey, ?_, ?_, ?_, ?_⟩
    · intro a ha p hp
      rcases h.closed a ha p hp with h1 | h1 | h1
      · rcases List.mem_cons.mp h1 with h2 | h2
        · subst h2; exact Or.inr (Or.inl hc)
        · exact Or.inl h2
      · exact Or.inr (Or.inl h1)
      · exact Or.inr (Or.inr h1)
    · intro x hx
      rcases h.cover x hx with h1 | h1 | h1
      · rcases List.mem_cons.mp h1 with h2 | h2
        · subst h2; exact Or.inr (Or.inl hc)
        · exact Or.inl h2
      · exact Or.inr (Or.inl h1)
      · exact Or.inr (Or.inr h1)
    · intro x hx
      apply h.sound
      rcases hx with h1 | h1 | h1
      · exact Or.inl (by simp [h1])
      · exact Or.inr (Or.inl h1)
      · exact Or.inr (Or.inr h1)
    · intro x hk he
      have := h.count x hk he
      have hxc : x ≠ c := by intro hxc; subst hxc; simp [hck] at hk
      rw [← this]
      simp [List.count_append, List.count_cons, hxc]
      intro h; exact absurd h.symm hxc
  · -- a new key: queued for emission, replaced by its predecessors
    intro done c rest te next h hg hc
    have hck := isKey_of_get hg
    have hnb := nbrs_of_get hg
    refine ⟨?_, ?_, h.done_nokey, ?_, ?_, ?_, ?_⟩
    · exact List.nodup_append.mpr ⟨h.nodup, by simp, by
        intro a ha b hb; simp at hb; subst hb; intro hab; subst hab; exact hc ha⟩
    · intro a ha
      rcases List.mem_append.mp ha with h1 | h1
      · exact h.keys a h1
      · simp at h1; subst h1; exact hck
    · intro a ha p hp
      rcases List.mem_append.mp ha with h1 | h1
      · rcases h.closed a h1 p hp with h2 | h2 | h2
        · rcases List.mem_cons.mp h2 with h3 | h3
          · subst h3; exact Or.inr (Or.inl (by simp))
          · exact Or.inl (by simp [h3])
        · exact Or.inr (Or.inl (by simp [h2]))
        · exact Or.inr (Or.inr h2)
      · simp at h1; subst h1
        unfold Edge at hp; rw [hnb] at hp
        exact Or.inl (by simp [hp])
    · intro x hx
      rcases h.cover x hx with h1 | h1 | h1
      · rcases List.mem_cons.mp h1 with h2 | h2
        · subst h2; exact Or.inr (Or.inl (by simp))
        · exact Or.inl (by simp [h2])
      · exact Or.inr (Or.inl (by simp [h1]))
      · exact Or.inr (Or.inr h1)
    · intro x hx
      rcases hx with h1 | h1 | h1
      · rcases List.mem_append.mp h1 with h2 | h2
        · have hcr : Reach m tv0 c := h.sound c (Or.inl (by simp))
          exact .step hcr (by unfold Edge; rw [hnb]; exact h2)
        · exact h.sound x (Or.inl (by simp [h2]))
      · rcases List.mem_append.mp h1 with h2 | h2
        · exact h.sound x (Or.inr (Or.inl h2))
        · simp at h2; subst h2; exact h.sound x (Or.inl (by simp))
      · exact h.sound x (Or.inr (Or.inr h1))
    · intro x hk he
      have := h.count x hk he
      have hxc : x ≠ c := by intro hxc; subst hxc; simp [hck] at hk
      have hxn : x ∉ next := by
        intro hxn; exact he c (by unfold Edge; rw [hnb]; exact hxn)
      rw [← this]
      simp [List.count_append, List.count_cons, hxc, List.count_eq_zero_of_not_mem hxn]
      intro h; exact absurd h.symm hxc

end JjModel.Evolution
