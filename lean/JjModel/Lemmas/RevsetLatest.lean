import JjModel.Lemmas.RevsetSet
import JjModel.Model.RevsetSem
/-!
  C19 lemmas, part 13: `take_latest_revset` (`latest(x, n)`).
-/
namespace JjModel.Revset

theorem itemLt_iff (g : Graph) (a b : Nat) : itemLt g a b = true ↔ Later g a b := by
  simp [itemLt, Later]

theorem later_irrefl (g : Graph) (a : Nat) : ¬ Later g a a := by
  simp [Later]

theorem later_trans {g : Graph} {a b c : Nat} (h1 : Later g a b) (h2 : Later g b c) : Later g a c := by
  unfold Later at *; omega

theorem later_total {g : Graph} {a b : Nat} (h : a ≠ b) : Later g a b ∨ Later g b a := by
  unfold Later; omega

theorem later_asymm {g : Graph} {a b : Nat} (h1 : Later g a b) (h2 : Later g b a) : False := by
  unfold Later at *; omega

theorem earliest_none {g : Graph} {l : List Nat} (h : earliest g l = none) : l = [] := by
  cases l with
  | nil => rfl
  | cons a l =>
    simp only [earliest] at h
    split at h <;> simp at h

theorem earliest_some {g : Graph} {l : List Nat} {m : Nat} (h : earliest g l = some m) :
    m ∈ l ∧ ∀ x ∈ l, ¬ Later g x m := by
  induction l generalizing m with
  | nil => simp [earliest] at h
  | cons a l ih =>
    simp only [earliest] at h
    split at h
    · next hn =>
      have := earliest_none hn
      subst this
      simp at h; subst h
      exact ⟨by simp, fun x hx => by simp at hx; subst hx; exact later_irrefl g _⟩
    · next m' hm' =>
      have ih' := ih hm'
      simp only [Option.some.injEq] at h
      split at h
      · next hlt =>
        subst h
        rw [itemLt_iff] at hlt
        refine ⟨by simp, fun x hx => ?_⟩
        simp only [List.mem_cons] at hx
        rcases hx with rfl | hx
        · exact later_irrefl g _
        · intro hxa; exact ih'.2 x hx (later_trans hxa hlt)
      · next hnlt =>
        subst h
        rw [itemLt_iff] at hnlt
        refine ⟨by simp [ih'.1], fun x hx => ?_⟩
        simp only [List.mem_cons] at hx
        rcases hx with rfl | hx
        · exact hnlt
        · exact ih'.2 x hx

theorem mem_replaceFirst {a b : Nat} {l : List Nat} (hn : l.Nodup) (ha : a ∈ l) (x : Nat) :
    x ∈ replaceFirst a b l ↔ (x ∈ l ∧ x ≠ a) ∨ x = b := by
  induction l with
  | nil => simp at ha
  | cons c l ih =>
    simp only [List.nodup_cons] at hn
    simp only [replaceFirst]
    split
    · next hca =>
      subst hca
      simp only [List.mem_cons]
      constructor
      · rintro (h | h)
        · exact Or.inr h
        · exact Or.inl ⟨Or.inr h, fun e => hn.1 (e ▸ h)⟩
      · rintro (⟨h | h, hne⟩ | h)
        · exact absurd h hne
        · exact Or.inr h
        · exact Or.inl h
    · next hca =>
      simp only [List.mem_cons] at ha ⊢
      have ha' : a ∈ l := by
        rcases ha with rfl | h
        · exact absurd rfl hca
        · exact h
      rw [ih hn.2 ha']
      constructor
      · rintro (h | ⟨h, hne⟩ | h)
        · exact Or.inl ⟨Or.inl h, fun e => hca (h ▸ e)⟩
        · exact Or.inl ⟨Or.inr h, hne⟩
        · exact Or.inr h
      · rintro (⟨h | h, hne⟩ | h)
        · exact Or.inl h
        · exact Or.inr (Or.inl ⟨h, hne⟩)
        · exact Or.inr (Or.inr h)

theorem length_replaceFirst (a b : Nat) (l : List Nat) : (replaceFirst a b l).length = l.length := by
  induction l with
  | nil => rfl
  | cons c l ih => simp only [replaceFirst]; split <;> simp [ih]

theorem nodup_replaceFirst {a b : Nat} {l : List Nat} (hn : l.Nodup) (hb : b ∉ l) :
    (replaceFirst a b l).Nodup := by
  induction l with
  | nil => simp [replaceFirst]
  | cons c l ih =>
    simp only [List.nodup_cons, List.mem_cons, not_or] at hn hb
    simp only [replaceFirst]
    split
    · simp only [List.nodup_cons]; exact ⟨hb.2, hn.2⟩
    · next hca =>
      simp only [List.nodup_cons]
      refine ⟨?_, ih hn.2 hb.2⟩
      intro hc
      by_cases ha : a ∈ l
      · rw [mem_replaceFirst hn.2 ha] at hc
        rcases hc with ⟨h, _⟩ | h
        · exact hn.1 h
        · exact hb.1 h.symm
      · have : replaceFirst a b l = l := by
          clear ih hn hb hc
          induction l with
          | nil => rfl
          | cons d l ih2 =>
            simp only [List.mem_cons, not_or] at ha
            simp only [replaceFirst]
            rw [if_neg (fun e => ha.1 e.symm), ih2 ha.2]
        rw [this] at hc
        exact hn.1 hc

theorem nodup_subset_length : ∀ {l l' : List Nat}, l.Nodup → (∀ x ∈ l, x ∈ l') → l.length ≤ l'.length := by
  intro l
  induction l with
  | nil => intro l' _ _; simp
  | cons a t ih =>
    intro l' hn hs
    simp only [List.nodup_cons] at hn
    have ha : a ∈ l' := hs a (by simp)
    have := ih (l' := l'.erase a) hn.2 (fun x hx => by
      have hx' := hs x (by simp [hx])
      exact (List.mem_erase_of_ne (fun (e : x = a) => hn.1 (e ▸ hx))).2 hx')
    rw [List.length_erase_of_mem ha] at this
    have : 0 < l'.length := List.length_pos_of_mem ha
    simp only [List.length_cons]
    omega

/-- invariant of the selection loop: `kept` are the latest `count` of the processed items -/
structure LatestInv (g : Graph) (count : Nat) (done kept : List Nat) : Prop where
  nodup : kept.Nodup
  sub : ∀ x ∈ kept, x ∈ done
  len : kept.length = count
  dropped : ∀ x ∈ done, x ∉ kept → ∀ y ∈ kept, Later g x y

theorem latestStep_inv {g : Graph} {count : Nat} (hc : 0 < count) {done kept : List Nat} {item : Nat}
    (hi : LatestInv g count done kept) (hnew : item ∉ done) :
    LatestInv g count (done ++ [item]) (latestStep g kept item) := by
  unfold latestStep
  split
  · next m hm =>
    have hmin := earliest_some hm
    have hitem_notkept : item ∉ kept := fun h => hnew (hi.sub item h)
    have hmi : m ≠ item := fun e => hitem_notkept (e ▸ hmin.1)
    split
    · next hlt =>
      rw [itemLt_iff] at hlt
      have hmem := fun x => mem_replaceFirst (b := item) hi.nodup hmin.1 x
      refine ⟨nodup_replaceFirst hi.nodup hitem_notkept, ?_, ?_, ?_⟩
      · intro x hx
        rw [hmem] at hx
        rcases hx with ⟨h, _⟩ | rfl
        · simp [hi.sub x h]
        · simp
      · rw [length_replaceFirst]; exact hi.len
      · intro x hx hxk y hy
        rw [hmem] at hy
        simp only [List.mem_append, List.mem_singleton] at hx
        have hx_m : x = m ∨ (x ∈ done ∧ x ∉ kept) := by
          rcases hx with hx | rfl
          · by_cases hk : x ∈ kept
            · left
              apply Classical.byContradiction
              intro hne
              exact hxk ((hmem x).2 (Or.inl ⟨hk, hne⟩))
            · exact Or.inr ⟨hx, hk⟩
          · exact absurd ((hmem x).2 (Or.inr rfl)) hxk
        rcases hx_m with rfl | ⟨hxd, hxnk⟩
        · rcases hy with ⟨hyk, hym⟩ | rfl
          · rcases later_total hym with h | h
            · exact absurd h (hmin.2 y hyk)
            · exact h
          · exact hlt
        · rcases hy with ⟨hyk, _⟩ | rfl
          · exact hi.dropped x hxd hxnk y hyk
          · exact later_trans (hi.dropped x hxd hxnk m hmin.1) hlt
    · next hnlt =>
      rw [itemLt_iff] at hnlt
      have hlater : Later g item m := (later_total hmi).resolve_left hnlt
      refine ⟨hi.nodup, fun x hx => by simp [hi.sub x hx], hi.len, ?_⟩
      intro x hx hxk y hy
      simp only [List.mem_append, List.mem_singleton] at hx
      rcases hx with hx | rfl
      · exact hi.dropped x hx hxk y hy
      · by_cases hym : y = m
        · subst hym; exact hlater
        · rcases later_total hym with h | h
          · exact absurd h (hmin.2 y hy)
          · exact later_trans hlater h
  · next hn =>
    have := earliest_none hn
    have hl := hi.len
    rw [this] at hl
    simp at hl
    omega

theorem foldl_latest_inv {g : Graph} {count : Nat} (hc : 0 < count) :
    ∀ (items done kept : List Nat), LatestInv g count done kept → (done ++ items).Nodup →
      LatestInv g count (done ++ items) (items.foldl (latestStep g) kept) := by
  intro items
  induction items with
  | nil => intro done kept hi _; simpa using hi
  | cons a items ih =>
    intro done kept hi hn
    simp only [List.foldl_cons]
    have hnew : a ∉ done := by
      intro h
      have := List.nodup_append.1 hn
      exact this.2.2 a h a (by simp) rfl
    have := ih (done ++ [a]) (latestStep g kept a) (latestStep_inv hc hi hnew) (by simpa using hn)
    simpa using this

/-- `take_latest_revset`: the `count` candidates that have fewer than `count` later candidates
(later = greater committer timestamp, ties by position) -/
theorem mem_takeLatest (g : Graph) (cands : List Nat) (hn : cands.Nodup) (count : Nat) (p : Nat) :
    p ∈ takeLatest g cands count ↔ LatestOf g (· ∈ cands) count p := by
  unfold takeLatest LatestOf
  by_cases h0 : count = 0
  · subst h0
    simp
  rw [if_neg h0, mem_sortDedupDesc]
  have hc : 0 < count := Nat.pos_of_ne_zero h0
  -- the canonical witness list
  have hfl : ∀ q, q ∈ cands.filter (fun q => itemLt g p q) ↔ q ∈ cands ∧ Later g p q := by
    intro q; simp [itemLt_iff]
  have hfn : (cands.filter (fun q => itemLt g p q)).Nodup := hn.sublist List.filter_sublist
  by_cases hlen : cands.length ≤ count
  · -- everything is kept
    have hd : cands.drop count = [] := List.drop_eq_nil_of_le hlen
    have ht : cands.take count = cands := List.take_of_length_le hlen
    rw [hd, ht, List.foldl_nil]
    constructor
    · intro hp
      refine ⟨hp, _, hfn, hfl, ?_⟩
      have : (cands.filter (fun q => itemLt g p q)).length ≤ (cands.erase p).length :=
        nodup_subset_length hfn (fun x hx => by
          rw [hfl] at hx
          exact (List.mem_erase_of_ne (fun (e : x = p) => later_irrefl g p (e ▸ hx.2))).2 hx.1)
      rw [List.length_erase_of_mem hp] at this
      have : 0 < cands.length := List.length_pos_of_mem hp
      omega
    · exact fun h => h.1
  · have hlen' : count < cands.length := by omega
    have hinit : LatestInv g count (cands.take count) (cands.take count) :=
      ⟨hn.sublist (List.take_sublist _ _), fun x hx => hx, by simp; omega,
       fun x hx hxk => absurd hx hxk⟩
    have hfin := foldl_latest_inv hc (cands.drop count) (cands.take count) (cands.take count) hinit
      (by rw [List.take_append_drop]; exact hn)
    rw [List.take_append_drop] at hfin
    generalize (cands.drop count).foldl (latestStep g) (cands.take count) = kept at hfin
    constructor
    · intro hp
      refine ⟨hfin.sub p hp, _, hfn, hfl, ?_⟩
      have : (cands.filter (fun q => itemLt g p q)).length ≤ (kept.erase p).length :=
        nodup_subset_length hfn (fun x hx => by
          rw [hfl] at hx
          refine (List.mem_erase_of_ne (fun (e : x = p) => later_irrefl g p (e ▸ hx.2))).2 ?_
          apply Classical.byContradiction
          intro hxk
          exact later_asymm hx.2 (hfin.dropped x hx.1 hxk p hp))
      rw [List.length_erase_of_mem hp, hfin.len] at this
      omega
    · rintro ⟨hp, l, hln, hl, hll⟩
      apply Classical.byContradiction
      intro hpk
      have : kept.length ≤ l.length :=
        nodup_subset_length hfin.nodup (fun y hy => (hl y).2 ⟨hfin.sub y hy, hfin.dropped p hp hpk y hy⟩)
      rw [hfin.len] at this
      omega

end JjModel.Revset
