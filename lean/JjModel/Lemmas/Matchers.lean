import JjModel.Model.Matchers
/-!
  Helper lemmas for C30: the "visit algebra" of the three combinators and facts about
  `RepoPathTree` lookups.  Core Lean only.
-/
namespace JjModel.Matchers

/-! ### `VSet` / `Visit` algebra -/

theorem VSet.inter_has (a b : VSet) (c : Comp) : (a.inter b).has c = (a.has c && b.has c) := by
  cases a <;> cases b <;> simp [VSet.inter, VSet.has, List.contains_eq_mem, List.mem_filter]

theorem VSet.union_has (a b : VSet) (c : Comp) : (a.union b).has c = (a.has c || b.has c) := by
  cases a <;> cases b <;> simp [VSet.union, VSet.has, List.contains_eq_mem]

theorem VSet.isEmptySet_has {s : VSet} {c : Comp} (h : s.isEmptySet = true) : s.has c = false := by
  cases s <;> simp_all [VSet.isEmptySet, VSet.has]

theorem ok_some (c : Comp) (leaf : Bool) : Visit.some_.ok c leaf := by
  cases leaf <;> simp [Visit.some_, Visit.ok, VSet.has]

theorem ok_sets {ds fs : List Comp} {c : Comp} {leaf : Bool}
    (h : if leaf then c ∈ fs else c ∈ ds) : (Visit.sets ds fs).ok c leaf := by
  unfold Visit.sets
  split
  · rename_i he
    simp only [Bool.and_eq_true, List.isEmpty_iff] at he
    cases leaf <;> simp_all
  · cases leaf <;> simp_all [Visit.ok, VSet.has]

theorem sets_ne_allRec (ds fs : List Comp) : Visit.sets ds fs ≠ .allRec := by
  unfold Visit.sets; split <;> simp

theorem some_ne_allRec : Visit.some_ ≠ .allRec := by simp [Visit.some_]

theorem ok_union {a b : Visit} {c leaf} (h : a.ok c leaf ∨ b.ok c leaf) : (unionV a b).ok c leaf := by
  cases a <;> cases b <;> simp_all [unionV, Visit.ok, VSet.union_has] <;> (cases leaf <;> simp_all)

theorem allRec_union {a b : Visit} (h : unionV a b = .allRec) : a = .allRec ∨ b = .allRec := by
  cases a <;> cases b <;> simp_all [unionV]

theorem ok_inter {a b : Visit} {c leaf} (ha : a.ok c leaf) (hb : b.ok c leaf) :
    (interV a b).ok c leaf := by
  match a, b with
  | .allRec, _ => simpa [interV] using hb
  | .nothing, _ => simp [Visit.ok] at ha
  | .specific d1 f1, .allRec => simpa [interV] using ha
  | .specific _ _, .nothing => simp [Visit.ok] at hb
  | .specific d1 f1, .specific d2 f2 =>
    simp only [Visit.ok] at ha hb
    by_cases he : ((d1.inter d2).isEmptySet && (f1.inter f2).isEmptySet) = true
    · simp only [Bool.and_eq_true] at he
      have e1 := VSet.isEmptySet_has (c := c) he.1
      have e2 := VSet.isEmptySet_has (c := c) he.2
      rw [VSet.inter_has] at e1 e2
      cases leaf <;> simp_all
    · simp only [interV, he, Visit.ok]
      cases leaf <;> simp_all [VSet.inter_has]

theorem allRec_inter {a b : Visit} (h : interV a b = .allRec) : a = .allRec ∧ b = .allRec := by
  cases a <;> cases b <;> simp_all [interV]
  split at h <;> simp_all

theorem ok_diff {w u : Visit} {c leaf} (hw : w.ok c leaf) (hu : u ≠ .allRec) :
    (diffV w u).ok c leaf := by
  cases w <;> cases u <;> simp_all [diffV, Visit.ok, VSet.has, Visit.some_]

theorem allRec_diff {w u : Visit} (h : diffV w u = .allRec) : w = .allRec ∧ u = .nothing := by
  cases w <;> cases u <;> simp_all [diffV, Visit.some_]

/-! ### forest lookups -/

variable {V : Type}

theorem Forest.mem_namesWhere {p : Tree V → Bool} {f : Forest V} {c : Comp} {s : Tree V}
    (h : f.find c = some s) (hp : p s = true) : c ∈ f.namesWhere p := by
  induction f with
  | nil => simp [Forest.find] at h
  | cons n v k r _ ih =>
    simp only [Forest.find] at h
    by_cases hn : n = c
    · simp only [hn, if_true, Option.some.injEq] at h
      subst h
      simp [Forest.namesWhere, hp, hn]
    · simp only [hn, if_false] at h
      have := ih h
      simp only [Forest.namesWhere]
      split <;> simp [this]

theorem Forest.find_isEmpty {f : Forest V} {c : Comp} {s : Tree V} (h : f.find c = some s) :
    f.isEmpty = false := by
  cases f <;> simp_all [Forest.find, Forest.isEmpty]

theorem Forest.All_find {P : V → Prop} {f : Forest V} {c : Comp} {s : Tree V}
    (h : f.find c = some s) (ha : f.All P) : s.All P := by
  induction f with
  | nil => simp [Forest.find] at h
  | cons n v k r _ ih =>
    simp only [Forest.find] at h
    obtain ⟨hv, hk, hr⟩ := ha
    by_cases hn : n = c
    · simp only [hn, if_true, Option.some.injEq] at h
      subst h
      exact ⟨hv, hk⟩
    · simp only [hn, if_false] at h
      exact ih h hr

theorem Tree.All_child {P : V → Prop} {t s : Tree V} {c : Comp}
    (h : t.child c = some s) (ha : t.All P) : s.All P :=
  Forest.All_find h ha.2

/-! ### `add` / `set_value` preserve node invariants -/

theorem Forest.All_modify {P : V → Prop} {c : Comp} {h : V → Forest V → V × Forest V} {dflt : V}
    (hd : P dflt)
    (hh : ∀ v k, P v → k.All P → P (h v k).1 ∧ (h v k).2.All P)
    {f : Forest V} (hf : f.All P) : (f.modify c h dflt).All P := by
  induction f with
  | nil =>
    have := hh dflt .nil hd trivial
    exact ⟨this.1, this.2, trivial⟩
  | cons n v k r _ ih =>
    obtain ⟨hv, hk, hr⟩ := hf
    simp only [Forest.modify]
    split
    · have := hh v k hv hk
      exact ⟨this.1, this.2, hr⟩
    · exact ⟨hv, hk, ih hr⟩

theorem nodeUpd_All {P : V → Prop} {dflt : V} {g : V → V} (hd : P dflt) (hg : ∀ v, P (g v))
    (path : Path) (v : V) (k : Forest V) (hv : P v) (hk : k.All P) :
    P (nodeUpd dflt g path v k).1 ∧ (nodeUpd dflt g path v k).2.All P := by
  induction path generalizing v k with
  | nil => exact ⟨hg v, hk⟩
  | cons c rest ih =>
    exact ⟨hv, Forest.All_modify hd (fun v k hv hk => ih v k hv hk) hk⟩

theorem Tree.All_updAt {P : V → Prop} {dflt : V} {g : V → V} (hd : P dflt) (hg : ∀ v, P (g v))
    {t : Tree V} (ht : t.All P) (path : Path) : (t.updAt dflt path g).All P :=
  nodeUpd_All hd hg path t.value t.entries ht.1 ht.2

/-! ### prefix-mode globs are extension-closed -/

theorem prefixOf_extClosed {f : Glob} (hf : EmptyOk f) : ExtClosed (prefixOf f) := by
  intro t ext h
  cases t with
  | nil =>
    cases ext with
    | nil => simpa using h
    | cons c r =>
      simp only [prefixOf] at h
      simp only [List.nil_append, prefixOf, List.any_eq_true, List.mem_range]
      exact ⟨0, by simp, by simpa using hf h c⟩
  | cons a t =>
    simp only [prefixOf, List.any_eq_true, List.mem_range] at h
    obtain ⟨k, hk, hfk⟩ := h
    simp only [List.cons_append, prefixOf, List.any_eq_true, List.mem_range]
    refine ⟨k, by simp only [List.length_cons, List.length_append] at hk ⊢; omega, ?_⟩
    have : ((a :: t) ++ ext).take (k + 1) = (a :: t).take (k + 1) :=
      List.take_append_of_le_length (by simp only [List.length_cons] at hk ⊢; omega)
    rw [List.cons_append] at this; rw [this]; exact hfk

theorem groupGlob_extClosed {pats : List (Path × Glob)} (h : ∀ p ∈ pats, ExtClosed p.2)
    (dir : Path) : ExtClosed (groupGlob pats dir) := by
  intro t ext ht
  simp only [groupGlob, List.any_eq_true, List.mem_filter] at ht ⊢
  obtain ⟨p, ⟨hp, hd⟩, hpt⟩ := ht
  exact ⟨p, ⟨hp, hd⟩, h p hp t ext hpt⟩

theorem globsNew_All {pats : List (Path × Glob)} (h : ∀ p ∈ pats, ExtClosed p.2) :
    (globsNew pats).All GlobOptExt := by
  unfold globsNew
  have key : ∀ (l : List (Path × Glob)) (t : Tree (Option Glob)), t.All GlobOptExt →
      (l.foldl (fun t p => t.updAt none p.1 (fun _ => some (groupGlob pats p.1))) t).All GlobOptExt := by
    intro l
    induction l with
    | nil => intro t ht; exact ht
    | cons p l ih =>
      intro t ht
      apply ih
      apply Tree.All_updAt (by intro g hg; cases hg) ?_ ht
      intro _ g hg
      cases hg
      exact groupGlob_extClosed h p.1
  apply key
  exact ⟨(by intro g hg; cases hg), trivial⟩

end JjModel.Matchers
