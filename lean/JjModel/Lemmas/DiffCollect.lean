import JjModel.Lemmas.DiffHist
import JjModel.Lemmas.DiffSort
import JjModel.Lemmas.DiffLcs
/-!
  `collect_unchanged_words` (model `collectUnchangedWords`): the matched positions strictly increase
  on both sides, stay in range and join words that are equal under the comparison (`unchangedWords_ok`).
-/
namespace JjModel.Diff
set_option linter.unusedSectionVars false
variable {α : Type} [DecidableEq α]

def pairsOf (both : List (List Nat × List Nat)) : List (Nat × Nat) := both.flatMap fun p => p.1.zip p.2

theorem zip_fst_sublist {β γ : Type} (l1 : List β) (l2 : List γ) : ((l1.zip l2).map Prod.fst).Sublist l1 := by
  induction l1 generalizing l2 with
  | nil => simp
  | cons x xs ih =>
    cases l2 with
    | nil => simp
    | cons y ys => simpa using ih ys

theorem zip_snd_sublist {β γ : Type} (l1 : List β) (l2 : List γ) : ((l1.zip l2).map Prod.snd).Sublist l2 := by
  induction l1 generalizing l2 with
  | nil => simp
  | cons x xs ih =>
    cases l2 with
    | nil => simp
    | cons y ys => simpa using ih ys

theorem nodup_of_lt (l : List Nat) (h : l.Pairwise (· < ·)) : l.Nodup :=
  List.nodup_iff_pairwise_ne.mpr (h.imp (fun hab => Nat.ne_of_lt hab))

theorem triples_pairs (lw rw : List α) (li ri : Nat) (T : List (α × List Nat × List Nat))
    (hk : (T.map (·.1)).Nodup)
    (hl : ∀ t ∈ T, EntryOK lw li (t.1, t.2.1)) (hr : ∀ t ∈ T, EntryOK rw ri (t.1, t.2.2)) :
    ((pairsOf (T.map fun t => (t.2.1, t.2.2))).map Prod.fst).Nodup ∧
    ((pairsOf (T.map fun t => (t.2.1, t.2.2))).map Prod.snd).Nodup ∧
    ∀ q ∈ pairsOf (T.map fun t => (t.2.1, t.2.2)), ∃ t ∈ T, q.1 ∈ t.2.1 ∧ q.2 ∈ t.2.2 := by
  induction T with
  | nil => simp [pairsOf]
  | cons t rest ih =>
    simp only [List.map_cons, List.nodup_cons] at hk
    obtain ⟨ih1, ih2, ih3⟩ := ih hk.2 (fun x hx => hl x (by simp [hx])) (fun x hx => hr x (by simp [hx]))
    have hlt := hl t (by simp)
    have hrt := hr t (by simp)
    have hmemz : ∀ q ∈ t.2.1.zip t.2.2, q.1 ∈ t.2.1 ∧ q.2 ∈ t.2.2 := fun q hq => List.of_mem_zip hq
    simp only [pairsOf, List.map_cons, List.flatMap_cons, List.map_append] at ih1 ih2 ih3 ⊢
    refine ⟨?_, ?_, ?_⟩
    · rw [List.nodup_append]
      refine ⟨(zip_fst_sublist _ _).nodup (nodup_of_lt _ hlt.1), ih1, ?_⟩
      intro a ha b hb hab
      subst hab
      have ha' : a ∈ t.2.1 := (zip_fst_sublist _ _).subset ha
      simp only [List.mem_map] at hb
      obtain ⟨q, hq, rfl⟩ := hb
      obtain ⟨t', ht', h1, _⟩ := ih3 q hq
      have e1 := (hlt.2 _ ha').2
      have e2 := ((hl t' (by simp [ht'])).2 _ h1).2
      rw [e1] at e2
      simp only [Option.some.injEq] at e2
      exact hk.1 (by rw [e2]; exact List.mem_map_of_mem (f := (·.1)) ht')
    · rw [List.nodup_append]
      refine ⟨(zip_snd_sublist _ _).nodup (nodup_of_lt _ hrt.1), ih2, ?_⟩
      intro a ha b hb hab
      subst hab
      have ha' : a ∈ t.2.2 := (zip_snd_sublist _ _).subset ha
      simp only [List.mem_map] at hb
      obtain ⟨q, hq, rfl⟩ := hb
      obtain ⟨t', ht', _, h2⟩ := ih3 q hq
      have e1 := (hrt.2 _ ha').2
      have e2 := ((hr t' (by simp [ht'])).2 _ h2).2
      rw [e1] at e2
      simp only [Option.some.injEq] at e2
      exact hk.1 (by rw [e2]; exact List.mem_map_of_mem (f := (·.1)) ht')
    · intro q hq
      simp only [List.mem_append] at hq
      rcases hq with hq | hq
      · exact ⟨t, by simp, hmemz q hq⟩
      · obtain ⟨t', ht', h⟩ := ih3 q hq
        exact ⟨t', by simp [ht'], h⟩

/-- A list of matched word positions (global numbering, local sources `left`/`right` at offsets
`lo`/`ro`): strictly increasing in both coordinates, inside the window `[a, A) × [b, B)`, and every
pair joins equal words. -/
def Win (left right : List α) (lo ro a b A B : Nat) (l : List (Nat × Nat)) : Prop :=
  Inc l ∧ ∀ p ∈ l, a ≤ p.1 ∧ b ≤ p.2 ∧ p.1 < A ∧ p.2 < B ∧ left[p.1 - lo]? = right[p.2 - ro]?

theorem Win.nil (left right : List α) (lo ro a b A B : Nat) : Win left right lo ro a b A B [] :=
  ⟨List.Pairwise.nil, by simp⟩

theorem Win.append {left right : List α} {lo ro a b A' B' A B : Nat} {l1 l2 : List (Nat × Nat)}
    (h1 : Win left right lo ro a b A' B' l1) (h2 : Win left right lo ro A' B' A B l2)
    (ha : a ≤ A') (hb : b ≤ B') (hA : A' ≤ A) (hB : B' ≤ B) :
    Win left right lo ro a b A B (l1 ++ l2) := by
  refine ⟨?_, ?_⟩
  · unfold Inc
    rw [List.pairwise_append]
    refine ⟨h1.1, h2.1, fun p hp q hq => ?_⟩
    have := h1.2 p hp; have := h2.2 q hq
    omega
  · intro p hp
    simp only [List.mem_append] at hp
    rcases hp with hp | hp
    · have := h1.2 p hp; exact ⟨this.1, this.2.1, by omega, by omega, this.2.2.2.2⟩
    · have := h2.2 p hp; exact ⟨by omega, by omega, this.2.2.1, this.2.2.2.1, this.2.2.2.2⟩

theorem Win.cons {left right : List α} {lo ro a b A B x y : Nat} {l : List (Nat × Nat)}
    (h : Win left right lo ro (x + 1) (y + 1) A B l) (hx : a ≤ x) (hy : b ≤ y) (hxA : x < A) (hyB : y < B)
    (he : left[x - lo]? = right[y - ro]?) : Win left right lo ro a b A B ((x, y) :: l) := by
  refine ⟨?_, ?_⟩
  · unfold Inc
    rw [List.pairwise_cons]
    exact ⟨fun q hq => by have := h.2 q hq; simp only; omega, h.1⟩
  · intro p hp
    simp only [List.mem_cons] at hp
    rcases hp with rfl | hp
    · exact ⟨hx, hy, hxA, hyB, he⟩
    · have := h.2 p hp; exact ⟨by omega, by omega, this.2.2.1, this.2.2.2.1, this.2.2.2.2⟩

theorem getElem?_narrow (l : List α) (a b k : Nat) (hk : k < b - a) : (narrow l a b)[k]? = l[a + k]? := by
  simp [narrow, hk]

theorem length_narrow (l : List α) (a b : Nat) (hb : b ≤ l.length) : (narrow l a b).length = b - a := by
  simp [narrow]; omega

/-- a result for the narrowed sources is a result for the window of the enclosing sources -/
theorem Win.of_narrow {left right : List α} {lo ro pl pr lp rp : Nat} {l : List (Nat × Nat)}
    (hl : lp ≤ left.length) (hr : rp ≤ right.length)
    (h : Win (narrow left pl lp) (narrow right pr rp) (lo + pl) (ro + pr) (lo + pl) (ro + pr)
      (lo + pl + (narrow left pl lp).length) (ro + pr + (narrow right pr rp).length) l) :
    Win left right lo ro (lo + pl) (ro + pr) (lo + max pl lp) (ro + max pr rp) l := by
  rw [length_narrow _ _ _ hl, length_narrow _ _ _ hr] at h
  refine ⟨h.1, fun p hp => ?_⟩
  obtain ⟨h1, h2, h3, h4, h5⟩ := h.2 p hp
  refine ⟨h1, h2, by omega, by omega, ?_⟩
  rw [getElem?_narrow _ _ _ _ (by omega), getElem?_narrow _ _ _ _ (by omega)] at h5
  have e1 : pl + (p.1 - (lo + pl)) = p.1 - lo := by omega
  have e2 : pr + (p.2 - (ro + pr)) = p.2 - ro := by omega
  rw [e1, e2] at h5
  exact h5

/-- the contract of `collect_unchanged_words` -/
def CollectOK (rec : List α → List α → Nat → Nat → List (Nat × Nat)) : Prop :=
  ∀ l r a b, Win l r a b a b (a + l.length) (b + r.length) (rec l r a b)

theorem lcsWalk_ok (rec : List α → List α → Nat → Nat → List (Nat × Nat)) (hrec : CollectOK rec)
    (left right : List α) (lo ro : Nat) (LP RP : List (Nat × Nat)) (lcs : List (Nat × Nat)) (pl pr : Nat)
    (hpl : pl ≤ left.length) (hpr : pr ≤ right.length)
    (hinc : Inc (lcs.map fun q => ((LP.getD q.1 (0, 0)).1, (RP.getD q.2 (0, 0)).1)))
    (hb : ∀ p ∈ lcs.map (fun q => ((LP.getD q.1 (0, 0)).1, (RP.getD q.2 (0, 0)).1)),
      pl ≤ p.1 ∧ pr ≤ p.2 ∧ p.1 < left.length ∧ p.2 < right.length ∧ left[p.1]? = right[p.2]?) :
    Win left right lo ro (lo + pl) (ro + pr) (lo + left.length) (ro + right.length)
      (lcsWalk rec left right lo ro LP RP lcs pl pr) := by
  induction lcs generalizing pl pr with
  | nil =>
    rw [lcsWalk]
    have := Win.of_narrow (lo := lo) (ro := ro) (pl := pl) (pr := pr) (Nat.le_refl left.length)
      (Nat.le_refl right.length) (hrec _ _ _ _)
    rwa [Nat.max_eq_right hpl, Nat.max_eq_right hpr] at this
  | cons q rest ih =>
    obtain ⟨li, ri⟩ := q
    rw [lcsWalk]
    simp only [List.map_cons] at hinc hb
    obtain ⟨h1, h2, h3, h4, h5⟩ := hb _ List.mem_cons_self
    unfold Inc at hinc
    rw [List.pairwise_cons] at hinc
    have hrest := ih ((LP.getD li (0, 0)).1 + 1) ((RP.getD ri (0, 0)).1 + 1) (by omega) (by omega) hinc.2
      (fun p hp => by
        have := hb p (List.mem_cons_of_mem _ hp)
        have hlt := hinc.1 p hp
        dsimp only at hlt
        exact ⟨by omega, by omega, this.2.2.1, this.2.2.2.1, this.2.2.2.2⟩)
    have hfirst := Win.of_narrow (left := left) (right := right) (lo := lo) (ro := ro) (pl := pl) (pr := pr)
      (lp := (LP.getD li (0, 0)).1) (rp := (RP.getD ri (0, 0)).1) (by omega) (by omega) (hrec _ _ _ _)
    rw [Nat.max_eq_right h1, Nat.max_eq_right h2] at hfirst
    refine Win.append hfirst (Win.cons ?_ (Nat.le_refl _) (Nat.le_refl _) (by omega) (by omega) ?_)
      (by omega) (by omega) (by omega) (by omega)
    · have e1 : lo + (LP.getD li (0, 0)).1 + 1 = lo + ((LP.getD li (0, 0)).1 + 1) := by omega
      have e2 : ro + (RP.getD ri (0, 0)).1 + 1 = ro + ((RP.getD ri (0, 0)).1 + 1) := by omega
      rw [e1, e2]; exact hrest
    · have e1 : lo + (LP.getD li (0, 0)).1 - lo = (LP.getD li (0, 0)).1 := by omega
      have e2 : ro + (RP.getD ri (0, 0)).1 - ro = (RP.getD ri (0, 0)).1 := by omega
      rw [e1, e2]; exact h5

theorem commonPrefixLen_spec (l r : List α) :
    commonPrefixLen l r ≤ l.length ∧ commonPrefixLen l r ≤ r.length ∧
    ∀ i, i < commonPrefixLen l r → l[i]? = r[i]? := by
  induction l generalizing r with
  | nil => simp [commonPrefixLen]
  | cons a as ih =>
    cases r with
    | nil => simp [commonPrefixLen]
    | cons b bs =>
      rw [commonPrefixLen]
      split
      · rename_i hab
        obtain ⟨h1, h2, h3⟩ := ih bs
        refine ⟨by simp; omega, by simp; omega, fun i hi => ?_⟩
        cases i with
        | zero => simp [hab]
        | succ k => simpa using h3 k (by omega)
      · simp

theorem getElem?_reverse_drop (l : List α) (n j : Nat) (hj : j < l.length - n) :
    (l.drop n).reverse[j]? = l[l.length - 1 - j]? := by
  rw [List.getElem?_reverse (by simpa using hj)]
  simp only [List.length_drop, List.getElem?_drop]
  congr 1; omega

theorem leadingTrailing_ok (left right : List α) (lo ro : Nat) :
    Win left right lo ro lo ro (lo + left.length) (ro + right.length) (leadingTrailing left right lo ro) := by
  simp only [leadingTrailing]
  obtain ⟨n1, n2, n3⟩ := commonPrefixLen_spec left right
  generalize commonPrefixLen left right = n at n1 n2 n3
  obtain ⟨m1, m2, m3⟩ := commonPrefixLen_spec (left.drop n).reverse (right.drop n).reverse
  generalize commonPrefixLen (left.drop n).reverse (right.drop n).reverse = m at m1 m2 m3
  simp only [List.length_reverse, List.length_drop] at m1 m2
  refine ⟨?_, ?_⟩
  · unfold Inc
    rw [List.pairwise_append]
    refine ⟨?_, ?_, ?_⟩
    · rw [List.pairwise_map]
      exact (List.pairwise_lt_range).imp (fun h => by simp only; omega)
    · rw [List.pairwise_map]
      refine (List.pairwise_lt_range (n := m)).imp_of_mem (fun ha hb h => ?_)
      simp only [List.mem_range] at ha hb
      simp only; omega
    · intro p hp q hq
      simp only [List.mem_map, List.mem_range] at hp hq
      obtain ⟨i, hi, rfl⟩ := hp
      obtain ⟨k, hk, rfl⟩ := hq
      simp only; omega
  · intro p hp
    simp only [List.mem_append, List.mem_map, List.mem_range] at hp
    rcases hp with ⟨i, hi, rfl⟩ | ⟨k, hk, rfl⟩
    · refine ⟨by simp, by simp, by simp only; omega, by simp only; omega, ?_⟩
      have e1 : lo + i - lo = i := by omega
      have e2 : ro + i - ro = i := by omega
      simp only [e1, e2]
      exact n3 i hi
    · refine ⟨by simp, by simp, by simp only; omega, by simp only; omega, ?_⟩
      have e1 : lo + (left.length - (m - k)) - lo = left.length - (m - k) := by omega
      have e2 : ro + (right.length - (m - k)) - ro = right.length - (m - k) := by omega
      simp only [e1, e2]
      have := m3 (m - k - 1) (by omega)
      rw [getElem?_reverse_drop _ _ _ (by omega), getElem?_reverse_drop _ _ _ (by omega)] at this
      have e3 : left.length - 1 - (m - k - 1) = left.length - (m - k) := by omega
      have e4 : right.length - 1 - (m - k - 1) = right.length - (m - k) := by omega
      rw [e3, e4] at this
      exact this

theorem strictFst_getElem (l : List (Nat × Nat)) (h : StrictFst l) (i j : Nat) (x y : Nat × Nat)
    (hi : l[i]? = some x) (hj : l[j]? = some y) (hij : i < j) : x.1 < y.1 := by
  unfold StrictFst at h
  rw [List.pairwise_iff_getElem] at h
  obtain ⟨hi', rfl⟩ := List.getElem?_eq_some_iff.mp hi
  obtain ⟨hj', rfl⟩ := List.getElem?_eq_some_iff.mp hj
  exact h i j hi' hj' hij

/-- The positions selected by the LCS step are pairs of `pairs` and increase in both coordinates. -/
theorem lcs_positions_ok (pairs : List (Nat × Nat))
    (h1 : (pairs.map Prod.fst).Nodup) (h2 : (pairs.map Prod.snd).Nodup) :
    let LP := sortByFst (withSerialFrom 0 (pairs.map Prod.fst))
    let RP := sortByFst (withSerialFrom 0 (pairs.map Prod.snd))
    let lcs := findLcs (leftIndexByRightIndex LP RP)
    Inc (lcs.map fun q => ((LP.getD q.1 (0, 0)).1, (RP.getD q.2 (0, 0)).1)) ∧
    ∀ p ∈ lcs.map (fun q => ((LP.getD q.1 (0, 0)).1, (RP.getD q.2 (0, 0)).1)), p ∈ pairs := by
  intro LP RP lcs
  have hLP : StrictFst LP := sortByFst_strict _ (by rw [map_fst_withSerialFrom]; exact h1)
  have hRP : StrictFst RP := sortByFst_strict _ (by rw [map_fst_withSerialFrom]; exact h2)
  obtain ⟨hinc, hmem⟩ := findLcs_ok (leftIndexByRightIndex LP RP)
  -- every LCS element indexes entries with the same serial, i.e. one element of `pairs`
  have key : ∀ q ∈ lcs, ∃ a b k, LP[q.1]? = some (a, k) ∧ RP[q.2]? = some (b, k) ∧ pairs[k]? = some (a, b) := by
    intro q hq
    have hq' := hmem q hq
    simp only [leftIndexByRightIndex, List.getElem?_map] at hq'
    cases hr : RP[q.2]? with
    | none => simp [hr] at hq'
    | some rpE =>
      obtain ⟨b, k⟩ := rpE
      simp only [hr, Option.map_some, Option.some.injEq] at hq'
      have hrmem : (b, k) ∈ RP := List.mem_of_getElem? hr
      rw [mem_sortByFst, mem_withSerialFrom] at hrmem
      obtain ⟨k', hk', hkk⟩ := hrmem
      have hk0 : k = k' := by omega
      subst hk0
      simp only [List.getElem?_map] at hk'
      cases hp : pairs[k]? with
      | none => simp [hp] at hk'
      | some pe =>
        obtain ⟨a, b'⟩ := pe
        simp only [hp, Option.map_some, Option.some.injEq] at hk'
        subst hk'
        have hlmem : (a, k) ∈ LP := by
          rw [mem_sortByFst, mem_withSerialFrom]
          exact ⟨k, by simp [hp], by omega⟩
        obtain ⟨p', hp'⟩ := idxOfSerial_spec k LP ⟨a, hlmem⟩
        rw [hq'] at hp'
        have hp'mem : (p', k) ∈ LP := List.mem_of_getElem? hp'
        rw [mem_sortByFst, mem_withSerialFrom] at hp'mem
        obtain ⟨k'', hk'', hkk''⟩ := hp'mem
        have : k'' = k := by omega
        subst this
        simp only [List.getElem?_map, hp, Option.map_some, Option.some.injEq] at hk''
        subst hk''
        exact ⟨a, b', k'', hp', rfl, hp⟩
  refine ⟨?_, ?_⟩
  · unfold Inc
    rw [List.pairwise_map]
    refine hinc.imp_of_mem (fun {q q'} hq hq' hlt => ?_)
    obtain ⟨a, b, k, e1, e2, _⟩ := key q hq
    obtain ⟨a', b', k', e1', e2', _⟩ := key q' hq'
    simp only [List.getD, e1, e2, e1', e2', Option.getD_some]
    exact ⟨strictFst_getElem LP hLP _ _ _ _ e1 e1' hlt.1, strictFst_getElem RP hRP _ _ _ _ e2 e2' hlt.2⟩
  · intro p hp
    simp only [List.mem_map] at hp
    obtain ⟨q, hq, rfl⟩ := hp
    obtain ⟨a, b, k, e1, e2, e3⟩ := key q hq
    simp only [List.getD, e1, e2, Option.getD_some]
    exact List.mem_of_getElem? e3

theorem collectLcs_ok (rec : List α → List α → Nat → Nat → List (Nat × Nat)) (hrec : CollectOK rec)
    (left right : List α) (lo ro : Nat) :
    Win left right lo ro lo ro (lo + left.length) (ro + right.length) (collectLcs rec left right lo ro) := by
  unfold collectLcs
  dsimp only
  have HL := histogram_ok maxOccurrences left
  have HR := histogram_ok maxOccurrences right
  cases hg : countToEntries (histogram maxOccurrences left) with
  | nil => exact Win.nil ..
  | cons g0 grest =>
    obtain ⟨minCount, es0⟩ := g0
    dsimp only
    split
    · exact Win.nil ..
    · cases hu : uncommonShared (histogram maxOccurrences right) ((minCount, es0) :: grest) with
      | none => exact Win.nil ..
      | some both =>
        obtain ⟨c, es, hces, hboth⟩ := uncommonShared_some _ _ _ hu
        rw [← hg] at hces
        obtain ⟨hkeys, hsub⟩ := group_ok _ HL.keys c es hces
        obtain ⟨hT1, hT2⟩ := sharedEntries_ok (histogram maxOccurrences right) es hkeys
        rw [sharedPositions_eq] at hboth
        have hl : ∀ t ∈ sharedEntries (histogram maxOccurrences right) es,
            EntryOK left left.length (t.1, t.2.1) := fun t ht => HL.entries _ (hsub _ (hT2 t ht).1)
        have hr : ∀ t ∈ sharedEntries (histogram maxOccurrences right) es,
            EntryOK right right.length (t.1, t.2.2) := fun t ht => HR.entries _ (hT2 t ht).2.1
        obtain ⟨hp1, hp2, hp3⟩ := triples_pairs left right left.length right.length _ hT1 hl hr
        rw [← hboth] at hp1 hp2 hp3
        unfold pairsOf at hp1 hp2 hp3
        obtain ⟨hinc, hmem⟩ := lcs_positions_ok _ hp1 hp2
        have := lcsWalk_ok rec hrec left right lo ro _ _ _ 0 0 (Nat.zero_le _) (Nat.zero_le _) hinc
          (fun p hp => by
            obtain ⟨t, ht, h1, h2⟩ := hp3 p (hmem p hp)
            have e1 := (hl t ht).2 _ h1
            have e2 := (hr t ht).2 _ h2
            exact ⟨Nat.zero_le _, Nat.zero_le _, e1.1, e2.1, by rw [e1.2, e2.2]⟩)
        simpa using this

theorem collectUnchangedWords_ok (fuel : Nat) : CollectOK (collectUnchangedWords (α := α) fuel) := by
  induction fuel with
  | zero => intro l r a b; exact Win.nil ..
  | succ f ih =>
    intro l r a b
    rw [collectUnchangedWords]
    split
    · exact Win.nil ..
    · dsimp only
      split
      · exact collectLcs_ok _ ih l r a b
      · exact leadingTrailing_ok l r a b

/-- **`collect_unchanged_words`**: the matched word positions increase strictly on both sides, stay
in range, and join equal words. -/
theorem unchangedWords_ok (left right : List α) :
    Win left right 0 0 0 0 left.length right.length (unchangedWords left right) := by
  have := collectUnchangedWords_ok (α := α) (collectFuel left right) left right 0 0
  simpa [unchangedWords] using this

end JjModel.Diff
