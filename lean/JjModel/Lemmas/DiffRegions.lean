import JjModel.Lemmas.DiffTokens
import JjModel.Lemmas.DiffCollect
import JjModel.Lemmas.DiffCompact
/-!
  The regions computed by `with_inputs_and_token_ranges` / `for_tokenizer` are well formed
  (`rawRegions_wf`, `forTokenizer_wf`): tokens are sorted, matched positions increase on every side
  (`unchangedWords_ok`), `intersect_unchanged_words` keeps sub-sequences of every column.
-/
namespace JjModel.Diff

/-- strictly increasing and below `n` -/
def StrictBelow (n : Nat) (l : List Nat) : Prop := l.Pairwise (· < ·) ∧ ∀ x ∈ l, x < n

theorem StrictBelow.sublist {n : Nat} {l l' : List Nat} (h : StrictBelow n l) (hs : l'.Sublist l) :
    StrictBelow n l' :=
  ⟨h.1.sublist hs, fun x hx => h.2 x (hs.subset hx)⟩

theorem picks_chain (len : Nat) (toks : List Rng) (ht : TokensOK len toks) (idx : List Nat)
    (hs : StrictBelow toks.length idx) (pos : Nat)
    (hpos : ∀ i ∈ idx, pos ≤ (toks.getD i ⟨0, 0⟩).lo) (hle : pos ≤ len) :
    chainOK len pos (idx.map (fun i => toks.getD i ⟨0, 0⟩) ++ [⟨len, len⟩]) = true := by
  induction idx generalizing pos with
  | nil => simp [chainOK, hle]
  | cons i rest ih =>
    obtain ⟨hpw, hlt⟩ := hs
    rw [List.pairwise_cons] at hpw
    have hi : i < toks.length := hlt i (by simp)
    have hget : toks.getD i ⟨0, 0⟩ = toks[i] := by simp [List.getD, List.getElem?_eq_getElem hi]
    have hmem : toks[i] ∈ toks := List.getElem_mem hi
    have heach := ht.each _ hmem
    simp only [List.map_cons, List.cons_append, chainOK, Bool.and_eq_true, decide_eq_true_eq]
    refine ⟨⟨hpos i (by simp), by rw [hget]; omega⟩, ?_⟩
    apply ih ⟨hpw.2, fun x hx => hlt x (by simp [hx])⟩
    · intro i' hi'
      have hi'lt : i' < toks.length := hlt i' (by simp [hi'])
      have hii' : i < i' := hpw.1 i' hi'
      have hget' : toks.getD i' ⟨0, 0⟩ = toks[i'] := by simp [List.getD, List.getElem?_eq_getElem hi'lt]
      rw [hget, hget']
      exact (List.pairwise_iff_getElem.mp ht.sorted) i i' hi hi'lt hii'
    · rw [hget]; exact heach.2

theorem picks_sideOK (len : Nat) (toks : List Rng) (ht : TokensOK len toks) (idx : List Nat)
    (hs : StrictBelow toks.length idx) :
    sideOK len (⟨0, 0⟩ :: (idx.map (fun i => toks.getD i ⟨0, 0⟩) ++ [⟨len, len⟩])) = true := by
  simp only [sideOK, Bool.and_eq_true, decide_eq_true_eq]
  exact ⟨by simp, picks_chain len toks ht idx hs 0 (fun _ _ => Nat.zero_le _) (Nat.zero_le _)⟩

/-- the matched positions as columns: one base position and one position per other source -/
structure ColsOK (base : Source) (others : List Source) (ps : List (Nat × List Nat)) : Prop where
  len : ∀ p ∈ ps, p.2.length = others.length
  base : StrictBelow base.ranges.length (ps.map (·.1))
  other : ∀ j (hj : j < others.length), StrictBelow (others[j]).ranges.length (ps.map (fun p => p.2.getD j 0))

def startRegion (others : List Source) : Region := ⟨0, 0⟩ :: others.map fun _ => ⟨0, 0⟩
def stopRegion (base : Source) (others : List Source) : Region :=
  ⟨base.text.length, base.text.length⟩ :: others.map fun o => ⟨o.text.length, o.text.length⟩

theorem regions_of_cols (base : Source) (others : List Source) (ps : List (Nat × List Nat))
    (hb : TokensOK base.text.length base.ranges) (ho : ∀ o ∈ others, TokensOK o.text.length o.ranges)
    (hc : ColsOK base others ps) :
    RegionsWF (base.text :: others.map (·.text))
      (startRegion others :: (ps.map (fun p => fromWordPositions base others p.1 p.2) ++ [stopRegion base others])) := by
  refine ⟨?_, ?_⟩
  · intro r hr
    simp only [List.mem_cons, List.mem_append, List.mem_map, List.not_mem_nil, or_false] at hr
    rcases hr with rfl | ⟨p, hp, rfl⟩ | rfl
    · simp [startRegion]
    · simp [fromWordPositions, List.length_zipWith, hc.len p hp]
    · simp [stopRegion]
  · intro i hi
    cases i with
    | zero =>
      have := picks_sideOK base.text.length base.ranges hb (ps.map (·.1)) hc.base
      simpa [side, startRegion, stopRegion, fromWordPositions, Source.rangeAt, Function.comp_def] using this
    | succ j =>
      have hj : j < others.length := by simpa using hi
      have := picks_sideOK (others[j]).text.length (others[j]).ranges (ho _ (List.getElem_mem hj))
        (ps.map (fun p => p.2.getD j 0)) (hc.other j hj)
      have hside : side (j + 1) (startRegion others ::
          (ps.map (fun p => fromWordPositions base others p.1 p.2) ++ [stopRegion base others])) =
          ⟨0, 0⟩ :: ((ps.map (fun p => p.2.getD j 0)).map (fun i => (others[j]).ranges.getD i ⟨0, 0⟩) ++
            [⟨(others[j]).text.length, (others[j]).text.length⟩]) := by
        simp only [side, List.map_cons, List.map_append, List.map_map, List.map_nil]
        congr 1
        · simp [startRegion, List.getD, hj]
        · congr 1
          · apply List.map_congr_left
            intro p hp
            simp only [Function.comp, fromWordPositions]
            show (List.zipWith Source.rangeAt others p.2).getD j ⟨0, 0⟩ = _
            rw [getD_zipWith Source.rangeAt others p.2 j ⟨[], []⟩ 0 ⟨0, 0⟩ hj (by rw [hc.len p hp]; exact hj)]
            simp [Source.rangeAt, List.getD, hj]
          · simp [stopRegion, List.getD, hj]
      rw [hside]
      have hin : (base.text :: others.map (·.text)).getD (j + 1) [] = (others[j]).text := by
        simp [List.getD, hj]
      rw [hin]
      exact this

theorem intersect_proj_sublist (cur : List (Nat × List Nat)) (new : List (Nat × Nat)) :
    ((intersectUnchangedWords cur new).map fun p => (p.1, p.2.dropLast)).Sublist cur := by
  induction cur generalizing new with
  | nil => simp [intersectUnchangedWords]
  | cons x cs ih =>
    obtain ⟨b, os⟩ := x
    rw [intersectUnchangedWords]
    split
    · simp
    · rename_i nb no ns hd
      split
      · simp only [List.map_cons, List.dropLast_concat]
        exact (ih ns).cons_cons _
      · exact (ih _).cons _

theorem intersect_last_sublist (cur : List (Nat × List Nat)) (new : List (Nat × Nat)) :
    ((intersectUnchangedWords cur new).map fun p => (p.1, p.2.getLast?)).Sublist
      (new.map fun q => (q.1, some q.2)) := by
  induction cur generalizing new with
  | nil => simp [intersectUnchangedWords]
  | cons x cs ih =>
    obtain ⟨b, os⟩ := x
    rw [intersectUnchangedWords]
    split
    · simp
    · rename_i nb no ns hd
      have hsub : ((nb, no) :: ns).Sublist new := by rw [← hd]; exact List.dropWhile_sublist _
      split
      · rename_i heq
        subst heq
        simp only [List.map_cons, List.getLast?_concat]
        have : ((nb, some no) :: ns.map fun q => (q.1, some q.2)).Sublist (new.map fun q => (q.1, some q.2)) := by
          simpa using hsub.map (fun q => (q.1, some q.2))
        exact ((ih ns).cons_cons _).trans this
      · exact (ih _).trans (hsub.map _)

theorem intersect_shape (cur : List (Nat × List Nat)) (new : List (Nat × Nat)) :
    ∀ p ∈ intersectUnchangedWords cur new,
      ∃ os no, p.2 = os ++ [no] ∧ (p.1, os) ∈ cur ∧ (p.1, no) ∈ new := by
  induction cur generalizing new with
  | nil => simp [intersectUnchangedWords]
  | cons x cs ih =>
    obtain ⟨b, os⟩ := x
    rw [intersectUnchangedWords]
    split
    · simp
    · rename_i nb no ns hd
      have hsub : ((nb, no) :: ns).Sublist new := by rw [← hd]; exact List.dropWhile_sublist _
      split
      · rename_i heq
        intro p hp
        simp only [List.mem_cons] at hp
        rcases hp with rfl | hp
        · exact ⟨os, no, rfl, by simp, by rw [← heq]; exact hsub.subset (by simp)⟩
        · obtain ⟨os', no', h1, h2, h3⟩ := ih ns p hp
          exact ⟨os', no', h1, by simp [h2], hsub.subset (by simp [h3])⟩
      · intro p hp
        obtain ⟨os', no', h1, h2, h3⟩ := ih _ p hp
        exact ⟨os', no', h1, by simp [h2], hsub.subset h3⟩

theorem intersect_cols (base : Source) (done : List Source) (o : Source)
    (cur : List (Nat × List Nat)) (hc : ColsOK base done cur) (new : List (Nat × Nat))
    (hn2 : StrictBelow o.ranges.length (new.map Prod.snd)) :
    ColsOK base (done ++ [o]) (intersectUnchangedWords cur new) := by
  have hshape := intersect_shape cur new
  have hproj := intersect_proj_sublist cur new
  have hlast := intersect_last_sublist cur new
  refine ⟨?_, ?_, ?_⟩
  · intro p hp
    obtain ⟨os, no, h1, h2, _⟩ := hshape p hp
    rw [h1, List.length_append, hc.len _ h2]; simp
  · have : (intersectUnchangedWords cur new).map (·.1) =
        ((intersectUnchangedWords cur new).map fun p => (p.1, p.2.dropLast)).map (·.1) := by
      simp [List.map_map, Function.comp_def]
    rw [this]
    exact hc.base.sublist (hproj.map _)
  · intro j hj
    simp only [List.length_append, List.length_singleton] at hj
    by_cases hjd : j < done.length
    · have e : (done ++ [o])[j] = done[j] := by simp [List.getElem_append_left hjd]
      rw [e]
      have : (intersectUnchangedWords cur new).map (fun p => p.2.getD j 0) =
          ((intersectUnchangedWords cur new).map fun p => (p.1, p.2.dropLast)).map (fun p => p.2.getD j 0) := by
        rw [List.map_map]
        apply List.map_congr_left
        intro p hp
        obtain ⟨os, no, h1, h2, _⟩ := hshape p hp
        have hl := hc.len _ h2
        simp only [Function.comp, h1, List.dropLast_concat]
        simp only at hl
        simp [List.getD, List.getElem?_append_left (show j < os.length by omega)]
      rw [this]
      exact (hc.other j hjd).sublist (hproj.map _)
    · have hjeq : j = done.length := by omega
      subst hjeq
      have e : (done ++ [o])[done.length] = o := by simp
      rw [e]
      have : (intersectUnchangedWords cur new).map (fun p => p.2.getD done.length 0) =
          ((intersectUnchangedWords cur new).map fun p => (p.1, p.2.getLast?)).map (fun x => x.2.getD 0) := by
        rw [List.map_map]
        apply List.map_congr_left
        intro p hp
        obtain ⟨os, no, h1, h2, _⟩ := hshape p hp
        have hl := hc.len _ h2
        simp only at hl
        simp only [Function.comp, h1, List.getLast?_concat, Option.getD_some]
        simp [List.getD, ← hl]
      rw [this]
      have hsub := hlast.map (fun x : Nat × Option Nat => x.2.getD 0)
      have e2 : (new.map fun q => (q.1, some q.2)).map (fun x : Nat × Option Nat => x.2.getD 0) = new.map Prod.snd := by
        simp [List.map_map, Function.comp_def]
      rw [e2] at hsub
      exact hn2.sublist hsub

theorem win_cols {α : Type} [DecidableEq α] (left right : List α) (l : List (Nat × Nat))
    (h : Win left right 0 0 0 0 left.length right.length l) :
    StrictBelow left.length (l.map Prod.fst) ∧ StrictBelow right.length (l.map Prod.snd) := by
  obtain ⟨hinc, hb⟩ := h
  unfold Inc at hinc
  refine ⟨⟨?_, ?_⟩, ⟨?_, ?_⟩⟩
  · rw [List.pairwise_map]; exact hinc.imp (fun h => h.1)
  · intro x hx
    simp only [List.mem_map] at hx
    obtain ⟨p, hp, rfl⟩ := hx
    exact (hb p hp).2.2.1
  · rw [List.pairwise_map]; exact hinc.imp (fun h => h.2)
  · intro x hx
    simp only [List.mem_map] at hx
    obtain ⟨p, hp, rfl⟩ := hx
    exact (hb p hp).2.2.2.1

theorem length_words (c : Compare) (s : Source) : (s.words c).length = s.ranges.length := by
  simp [Source.words]

theorem fold_cols (c : Compare) (base : Source) (tail done : List Source) (cur : List (Nat × List Nat))
    (hc : ColsOK base done cur) :
    ColsOK base (done ++ tail)
      (tail.foldl (fun cur other => intersectUnchangedWords cur (unchangedWords (base.words c) (other.words c))) cur) := by
  induction tail generalizing done cur with
  | nil => simpa using hc
  | cons o t ih =>
    simp only [List.foldl_cons]
    have hw := (win_cols _ _ _ (unchangedWords_ok (base.words c) (o.words c))).2
    rw [length_words] at hw
    have := ih (done ++ [o]) _ (intersect_cols base done o cur hc _ hw)
    simpa using this

theorem rawRegions_wf (c : Compare) (base : Source) (others : List Source)
    (hb : TokensOK base.text.length base.ranges) (ho : ∀ o ∈ others, TokensOK o.text.length o.ranges) :
    RegionsWF (base.text :: others.map (·.text)) (rawRegions c base others) := by
  cases others with
  | nil =>
    refine ⟨by simp [rawRegions], ?_⟩
    intro i hi
    have : i = 0 := by simpa using hi
    subst this
    simp [rawRegions, side, sideOK, chainOK]
  | cons first tail =>
    have hwin := win_cols _ _ _ (unchangedWords_ok (base.words c) (first.words c))
    rw [length_words, length_words] at hwin
    have hinit : ColsOK base [first]
        ((unchangedWords (base.words c) (first.words c)).map fun p => (p.1, [p.2])) := by
      refine ⟨by intro p hp; simp only [List.mem_map] at hp; obtain ⟨q, _, rfl⟩ := hp; rfl,
        by simpa [List.map_map, Function.comp_def] using hwin.1, ?_⟩
      intro j hj
      have : j = 0 := by simpa using hj
      subst this
      simpa [List.map_map, Function.comp_def] using hwin.2
    rw [rawRegions]
    dsimp only
    by_cases ht : tail.isEmpty = true
    · have htail : tail = [] := by simpa using ht
      subst htail
      have := regions_of_cols base [first] _ hb ho hinit
      simpa [List.map_map, Function.comp_def, startRegion, stopRegion] using this
    · simp only [ht]
      have hcols := fold_cols c base tail [first] _ hinit
      have := regions_of_cols base (first :: tail) _ hb ho (by simpa using hcols)
      simpa [startRegion, stopRegion] using this

theorem tokenize_ok (tok : Tokenizer) (inputs : List Bytes) :
    (tokenize tok inputs).map (·.text) = inputs ∧
    ∀ s ∈ tokenize tok inputs, TokensOK s.text.length s.ranges := by
  unfold tokenize
  split
  · refine ⟨by simp [List.map_map, Function.comp_def], ?_⟩
    intro s hs
    simp only [List.mem_map] at hs
    obtain ⟨t, _, rfl⟩ := hs
    exact ⟨by simp, by simp⟩
  · refine ⟨by simp [List.map_map, Function.comp_def], ?_⟩
    intro s hs
    simp only [List.mem_map] at hs
    obtain ⟨t, _, rfl⟩ := hs
    exact tokenizer_ok tok t

/-- **`for_tokenizer` yields well-formed regions** (part (d)). -/
theorem forTokenizer_wf (inputs : List Bytes) (tok : Tokenizer) (c : Compare) (d : ContentDiff)
    (h : forTokenizer inputs tok c = some d) : d.inputs = inputs ∧ RegionsWF inputs d.regions := by
  obtain ⟨htext, htok⟩ := tokenize_ok tok inputs
  unfold forTokenizer at h
  cases hs : tokenize tok inputs with
  | nil => rw [hs] at h; cases h
  | cons base others =>
    rw [hs] at h htext htok
    simp only [Option.some.injEq] at h
    subst h
    refine ⟨rfl, ?_⟩
    simp only [List.map_cons] at htext
    rw [← htext]
    exact compact_regionsWF _ _ (rawRegions_wf c base others (htok base (by simp))
      (fun o ho => htok o (by simp [ho])))

theorem forTokenizer_isSome (inputs : List Bytes) (tok : Tokenizer) (c : Compare) (h : inputs ≠ []) :
    ∃ d, forTokenizer inputs tok c = some d := by
  have htext := (tokenize_ok tok inputs).1
  unfold forTokenizer
  cases hs : tokenize tok inputs with
  | nil => rw [hs] at htext; simp at htext; exact absurd htext h
  | cons base others => exact ⟨_, rfl⟩

/-! ### `refine_changed_regions` -/

theorem chainOK_append (len mid pos : Nat) (l1 l2 : List Rng) (h1 : chainOK mid pos l1 = true)
    (h2 : chainOK len mid l2 = true) : chainOK len pos (l1 ++ l2) = true := by
  induction l1 generalizing pos with
  | nil => simp [chainOK] at h1; subst h1; simpa using h2
  | cons r rest ih =>
    simp only [chainOK, Bool.and_eq_true, decide_eq_true_eq, List.cons_append] at h1 ⊢
    exact ⟨h1.1, ih _ h1.2⟩

theorem chainOK_shift (m p s : Nat) (l : List Rng) (h : chainOK m p l = true) :
    chainOK (m + s) (p + s) (l.map fun r => ⟨r.lo + s, r.hi + s⟩) = true := by
  induction l generalizing p with
  | nil => simp [chainOK] at h ⊢; omega
  | cons r rest ih =>
    simp only [chainOK, Bool.and_eq_true, decide_eq_true_eq, List.map_cons] at h ⊢
    exact ⟨⟨by omega, by omega⟩, ih _ h.2⟩

theorem length_slice_le (t : Bytes) (a b : Nat) (h1 : a ≤ b) (h2 : b ≤ t.length) :
    (slice t ⟨a, b⟩).length = b - a := by
  simp [slice]; omega

theorem shiftRegion_at (prev r : Region) (i : Nat) (h1 : i < r.length) (h2 : i < prev.length) :
    (shiftRegion prev r).getD i ⟨0, 0⟩ =
      ⟨(r.getD i ⟨0, 0⟩).lo + (prev.getD i ⟨0, 0⟩).hi, (r.getD i ⟨0, 0⟩).hi + (prev.getD i ⟨0, 0⟩).hi⟩ := by
  unfold shiftRegion
  rw [getD_zipWith _ _ _ _ ⟨0, 0⟩ ⟨0, 0⟩ _ h1 h2]

end JjModel.Diff
