import JjModel.Lemmas.RevsetDescGen
/-!
  C19 lemmas, part 19: the `MergePoint` and `Forks` arms.
-/
namespace JjModel.Revset

/-! ### merge point -/

/-- visible (below a head of `vh`) common descendants of all members of `T` -/
def CD (g : Graph) (vh T : List Nat) (c : Nat) : Prop :=
  (∃ h ∈ vh, Path g.par h c) ∧ ∀ t ∈ T, Path g.par c t

structure MergeInv (g : Graph) (vh T cands : List Nat) : Prop where
  desc : Desc cands
  mem : ∀ c, c ∈ cands ↔ CD g vh T c

theorem cd_lt {g : Graph} (hw : g.WF) {vh T : List Nat} (hvh : ∀ h ∈ vh, h < g.size) {c : Nat}
    (h : CD g vh T c) : c < g.size := by
  obtain ⟨⟨x, hx, hp⟩, _⟩ := h
  have := hp.le hw.topo
  have := hvh x hx
  omega

theorem merge_step (g : Graph) (hw : g.WF) {vh T cands : List Nat} (hvh : ∀ h ∈ vh, h < g.size)
    (q : Nat) (hi : MergeInv g vh T cands) :
    MergeInv g vh (T ++ [q]) (cands.filter (descendantsOf g cands [q]).contains) := by
  have hcl : ∀ h ∈ cands, h < g.size := fun h hh => cd_lt hw hvh ((hi.mem h).1 hh)
  refine ⟨hi.desc.sublist List.filter_sublist, ?_⟩
  intro c
  simp only [List.mem_filter, List.contains_iff_mem]
  rw [mem_descendantsOf g hw cands [q] hcl, hi.mem]
  constructor
  · rintro ⟨⟨h1, h2⟩, _, r, hr, hp⟩
    simp only [List.mem_singleton] at hr
    subst hr
    refine ⟨h1, ?_⟩
    intro t ht
    simp only [List.mem_append, List.mem_singleton] at ht
    rcases ht with ht | rfl
    · exact h2 t ht
    · exact hp
  · rintro ⟨h1, h2⟩
    have hc : CD g vh T c := ⟨h1, fun t ht => h2 t (by simp [ht])⟩
    exact ⟨hc, ⟨c, (hi.mem c).2 hc, Path.refl _ _⟩, q, by simp, h2 q (by simp)⟩

theorem merge_fold (g : Graph) (hw : g.WF) {vh : List Nat} (hvh : ∀ h ∈ vh, h < g.size) :
    ∀ (rest T cands : List Nat), MergeInv g vh T cands →
      MergeInv g vh (T ++ rest)
        (rest.foldl (fun cands q => cands.filter (descendantsOf g cands [q]).contains) cands) := by
  intro rest
  induction rest with
  | nil => intro T cands hi; simpa using hi
  | cons q rest ih =>
    intro T cands hi
    simp only [List.foldl_cons]
    have := ih (T ++ [q]) _ (merge_step g hw hvh q hi)
    simpa using this

/-- `MergePoint` arm -/
theorem mergePoint_spec (g : Graph) (hw : g.WF) (vh roots : List Nat) (hvh : ∀ h ∈ vh, h < g.size) :
    Desc (mergePointArm g vh roots) ∧
      ∀ p, p ∈ mergePointArm g vh roots ↔
        MergePointOf g (AncAll g (· ∈ vh)) (· ∈ roots) p := by
  cases roots with
  | nil => simp [mergePointArm, Desc, MergePointOf]
  | cons p0 rest =>
    have hinit : MergeInv g vh [p0] (descendantsOf g vh [p0]) := by
      refine ⟨desc_descendantsOf g hw _ _, ?_⟩
      intro c
      rw [mem_descendantsOf g hw vh [p0] hvh]
      simp only [CD, List.mem_singleton]
      constructor
      · rintro ⟨h1, r, rfl, hp⟩; exact ⟨h1, fun t ht => by subst ht; exact hp⟩
      · rintro ⟨h1, h2⟩; exact ⟨h1, p0, rfl, h2 p0 rfl⟩
    have hfin := merge_fold g hw hvh rest [p0] _ hinit
    simp only [List.singleton_append] at hfin
    simp only [mergePointArm]
    generalize rest.foldl (fun cands q => cands.filter (descendantsOf g cands [q]).contains)
      (descendantsOf g vh [p0]) = cands at hfin
    refine ⟨hfin.desc.sublist List.filter_sublist, ?_⟩
    intro p
    simp only [List.mem_filter, Bool.not_eq_true', List.any_eq_false, List.contains_iff_mem]
    simp only [MergePointOf, RootsOf]
    have hX : ∀ c, c ∈ cands ↔ (AncAll g (· ∈ vh) c ∧ ∀ s, s ∈ p0 :: rest → Path g.par c s) := by
      intro c; rw [hfin.mem]; simp only [CD, AncAll]
    constructor
    · rintro ⟨h1, h2⟩
      refine ⟨⟨p0, by simp⟩, (hX p).1 h1, ?_⟩
      rintro ⟨q, hq, hne, hpq⟩
      obtain ⟨p', hp', hp'q⟩ := hpq.cases_ne (fun e => hne e.symm)
      apply h2 p' hp'
      rw [hX]
      refine ⟨?_, fun s hs => hp'q.trans (hq.2 s hs)⟩
      obtain ⟨x, hx, hxp⟩ := ((hX p).1 h1).1
      exact ⟨x, hx, hxp.trans (Path.head hp' (Path.refl _ _))⟩
    · rintro ⟨_, h1, h2⟩
      refine ⟨(hX p).2 h1, ?_⟩
      intro q hq hqc
      have := hw.topo _ _ hq
      exact h2 ⟨q, (hX q).1 hqc, by omega, Path.head hq (Path.refl _ _)⟩

/-! ### forks -/

theorem count_flatMap_zero (g : Graph) (ht : Topo g.par) (p : Nat) :
    ∀ (l : List Nat), (∀ x ∈ l, x ≤ p) → (l.flatMap g.par).count p = 0 := by
  intro l
  induction l with
  | nil => intro _; simp
  | cons a l ih =>
    intro h
    simp only [List.flatMap_cons, List.count_append]
    rw [ih (fun x hx => h x (by simp [hx]))]
    have : (g.par a).count p = 0 := by
      rw [List.count_eq_zero]
      intro hm
      have := ht _ _ hm
      have := h a (by simp)
      omega
    omega

theorem mem_forksScan (g : Graph) (ht : Topo g.par) :
    ∀ (rest seen : List Nat), Desc rest → ∀ p,
      p ∈ forksScan g rest seen ↔ p ∈ rest ∧ 2 ≤ seen.count p + (rest.flatMap g.par).count p := by
  intro rest
  induction rest with
  | nil => intro seen _ p; simp [forksScan]
  | cons a t ih =>
    intro seen hd p
    rw [desc_cons] at hd
    have hz : ∀ x, (x = a ∨ x ∈ t) → x ≤ a := by
      rintro x (rfl | hx)
      · exact Nat.le_refl _
      · exact Nat.le_of_lt (hd.1 x hx)
    have ha0 : ((a :: t).flatMap g.par).count a = 0 :=
      count_flatMap_zero g ht a (a :: t) (fun x hx => hz x (by simpa using hx))
    have hrec : ∀ p, p ∈ forksScan g t (g.par a ++ seen) ↔
        p ∈ t ∧ 2 ≤ seen.count p + ((a :: t).flatMap g.par).count p := by
      intro p
      rw [ih _ hd.2]
      simp only [List.flatMap_cons, List.count_append]
      constructor
      · rintro ⟨h1, h2⟩; exact ⟨h1, by omega⟩
      · rintro ⟨h1, h2⟩; exact ⟨h1, by omega⟩
    rw [forksScan]
    split
    · next hge =>
      simp only [List.mem_cons, hrec]
      constructor
      · rintro (rfl | ⟨h1, h2⟩)
        · exact ⟨Or.inl rfl, by omega⟩
        · exact ⟨Or.inr h1, h2⟩
      · rintro ⟨rfl | h1, h2⟩
        · exact Or.inl rfl
        · exact Or.inr ⟨h1, h2⟩
    · next hlt =>
      rw [hrec]
      simp only [List.mem_cons]
      constructor
      · rintro ⟨h1, h2⟩; exact ⟨Or.inr h1, h2⟩
      · rintro ⟨rfl | h1, h2⟩
        · rw [ha0] at h2; omega
        · exact ⟨h1, h2⟩

theorem forksScan_sublist (g : Graph) : ∀ (rest seen : List Nat), (forksScan g rest seen).Sublist rest := by
  intro rest
  induction rest with
  | nil => intro seen; simp [forksScan]
  | cons a t ih =>
    intro seen
    rw [forksScan]
    split
    · exact (ih _).cons_cons a
    · exact (ih _).cons a

theorem count_flatMap_pos (g : Graph) (p : Nat) : ∀ (l : List Nat),
    1 ≤ (l.flatMap g.par).count p ↔ ∃ c ∈ l, p ∈ g.par c := by
  intro l
  rw [show (1 ≤ (l.flatMap g.par).count p) ↔ 0 < (l.flatMap g.par).count p from Iff.rfl,
    List.count_pos_iff]
  simp only [List.mem_flatMap]

theorem nodup_count_le_one {l : List Nat} (h : l.Nodup) (p : Nat) : l.count p ≤ 1 := by
  induction l with
  | nil => simp
  | cons a t ih =>
    simp only [List.nodup_cons] at h
    simp only [List.count_cons]
    by_cases e : a = p
    · subst e
      have : t.count a = 0 := List.count_eq_zero.2 h.1
      simp [this]
    · have := ih h.2
      simp [e]
      exact this

theorem count_flatMap_two (g : Graph) (hn : ∀ c, (g.par c).Nodup) (p : Nat) :
    ∀ (l : List Nat), l.Nodup →
      (2 ≤ (l.flatMap g.par).count p ↔
        ∃ c₁ c₂, c₁ ≠ c₂ ∧ c₁ ∈ l ∧ c₂ ∈ l ∧ p ∈ g.par c₁ ∧ p ∈ g.par c₂) := by
  intro l
  induction l with
  | nil => intro _; simp
  | cons a t ih =>
    intro hnd
    simp only [List.nodup_cons] at hnd
    simp only [List.flatMap_cons, List.count_append]
    have hle : (g.par a).count p ≤ 1 := nodup_count_le_one (hn a) p
    have hpos := count_flatMap_pos g p t
    have ih' := ih hnd.2
    by_cases hpa : p ∈ g.par a
    · have h1 : (g.par a).count p = 1 := by
        have : 0 < (g.par a).count p := List.count_pos_iff.2 hpa
        omega
      rw [h1]
      constructor
      · intro h
        have : 1 ≤ (t.flatMap g.par).count p := by omega
        obtain ⟨c, hc, hpc⟩ := hpos.1 this
        exact ⟨a, c, fun e => hnd.1 (e ▸ hc), by simp, by simp [hc], hpa, hpc⟩
      · rintro ⟨c₁, c₂, hne, h1', h2', hp1, hp2⟩
        simp only [List.mem_cons] at h1' h2'
        have : 1 ≤ (t.flatMap g.par).count p := by
          apply hpos.2
          rcases h1' with rfl | h1'
          · rcases h2' with rfl | h2'
            · exact absurd rfl hne
            · exact ⟨c₂, h2', hp2⟩
          · exact ⟨c₁, h1', hp1⟩
        omega
    · have h0 : (g.par a).count p = 0 := List.count_eq_zero.2 hpa
      rw [h0, Nat.zero_add, ih']
      constructor
      · rintro ⟨c₁, c₂, hne, h1', h2', hp1, hp2⟩
        exact ⟨c₁, c₂, hne, by simp [h1'], by simp [h2'], hp1, hp2⟩
      · rintro ⟨c₁, c₂, hne, h1', h2', hp1, hp2⟩
        simp only [List.mem_cons] at h1' h2'
        have e1 : c₁ ∈ t := by
          rcases h1' with rfl | h; exact absurd hp1 hpa; exact h
        have e2 : c₂ ∈ t := by
          rcases h2' with rfl | h; exact absurd hp2 hpa; exact h
        exact ⟨c₁, c₂, hne, e1, e2, hp1, hp2⟩

/-- `Forks` arm: visible commits with at least two visible children -/
theorem forks_spec (g : Graph) (hw : g.WF) (heads : List Nat) (hh : ∀ h ∈ heads, h < g.size) :
    Desc (forksArm g heads) ∧ ∀ p, p ∈ forksArm g heads ↔ ForksOf g (AncAll g (· ∈ heads)) p := by
  have ht : Topo g.par := hw.topo
  unfold forksArm
  have hvd := desc_walkAnc ht false 0 g.size heads []
  have hvm : ∀ c, c ∈ walkAnc g.par false 0 g.size heads [] ↔ AncAll g (· ∈ heads) c := by
    intro c
    rw [mem_walkAnc ht]
    constructor
    · rintro ⟨_, _, ⟨h, hh', _, hp⟩, _⟩
      rw [adjF_false] at hp
      exact ⟨h, hh', hp⟩
    · rintro ⟨h, hh', hp⟩
      have := hp.le ht
      have := hh h hh'
      refine ⟨Nat.zero_le _, by omega, ⟨h, hh', by omega, by rw [adjF_false]; exact hp⟩, ?_⟩
      rintro ⟨r, hr, _⟩; simp at hr
  generalize walkAnc g.par false 0 g.size heads [] = vis at hvd hvm
  refine ⟨hvd.sublist (forksScan_sublist g vis []), ?_⟩
  intro p
  rw [mem_forksScan g ht vis [] hvd]
  simp only [List.count_nil, Nat.zero_add, ForksOf]
  rw [count_flatMap_two g hw.par_nodup p vis (desc_nodup hvd), hvm]
  constructor
  · rintro ⟨h1, c₁, c₂, hne, hc1, hc2, hp1, hp2⟩
    exact ⟨h1, c₁, c₂, hne, (hvm c₁).1 hc1, (hvm c₂).1 hc2, hp1, hp2⟩
  · rintro ⟨h1, c₁, c₂, hne, hc1, hc2, hp1, hp2⟩
    exact ⟨h1, c₁, c₂, hne, (hvm c₁).2 hc1, (hvm c₂).2 hc2, hp1, hp2⟩

end JjModel.Revset
