import JjModel.Lemmas.IdIndexTable
import JjModel.Lemmas.IndexGca
/-!
  Lemmas for C20, part 3: the `AncestorsBitSet` sweep, change-id resolution over stacked
  segments, and the disambiguation index.
-/
namespace JjModel.IdPrefix
open JjModel.Index

/-! ### `AncestorsBitSet`: the descending sweep marks exactly the ancestors of the heads -/

theorem sweep_spec {idx : Index} (hwf : IndexWF idx) (heads : List Nat) :
    ∀ (p : Nat) (m : List Nat),
      (∀ y ∈ m, AncOf idx heads y) →
      (∀ y, AncOf idx heads y → ∃ x ∈ m, Reach idx y x ∧ (y = x ∨ x < p)) →
      ∀ y, y ∈ sweep idx p m ↔ AncOf idx heads y := by
  intro p
  induction p with
  | zero =>
    intro m hs hc y
    simp only [sweep]
    constructor
    · exact hs y
    · intro hy
      obtain ⟨x, hx, _, h⟩ := hc y hy
      rcases h with rfl | h
      · exact hx
      · omega
  | succ p ih =>
    intro m hs hc y
    simp only [sweep]
    by_cases hp : m.contains p = true
    · simp only [hp, if_true]
      have hpm : p ∈ m := List.contains_iff_mem.mp hp
      apply ih
      · intro z hz
        rcases List.mem_append.mp hz with hq | hz'
        · obtain ⟨d, hd, hr⟩ := hs p hpm
          exact ⟨d, hd, Reach.trans (Reach.step hq (Reach.refl _)) hr⟩
        · exact hs z hz'
      · intro z hz
        obtain ⟨x, hx, hr, h⟩ := hc z hz
        rcases h with rfl | h
        · exact ⟨z, by simp [hx], Reach.refl _, Or.inl rfl⟩
        · by_cases hxp : x = p
          · subst hxp
            rcases reach_cases hr with rfl | ⟨q, hq, hrq⟩
            · exact ⟨z, by simp [hx], Reach.refl _, Or.inl rfl⟩
            · exact ⟨q, by simp [hq], hrq, Or.inr (parentsOf_lt hwf hq)⟩
          · exact ⟨x, by simp [hx], hr, Or.inr (by omega)⟩
    · have hp' : m.contains p = false := by simpa using hp
      simp only [hp', Bool.false_eq_true, if_false]
      apply ih m hs
      intro z hz
      obtain ⟨x, hx, hr, h⟩ := hc z hz
      rcases h with rfl | h
      · exact ⟨z, hx, Reach.refl _, Or.inl rfl⟩
      · by_cases hxp : x = p
        · subst hxp
          have := List.contains_iff_mem.mpr hx
          rw [this] at hp'; cases hp'
        · exact ⟨x, hx, hr, Or.inr (by omega)⟩

theorem reachableSet_spec {idx : Index} (hwf : IndexWF idx) (heads : List Nat)
    (hh : ∀ h ∈ heads, h < idx.length) (y : Nat) :
    y ∈ reachableSet idx heads ↔ AncOf idx heads y := by
  unfold reachableSet
  apply sweep_spec hwf heads
  · exact fun z hz => ⟨z, hz, Reach.refl _⟩
  · rintro z ⟨d, hd, hr⟩
    exact ⟨d, hd, hr, Or.inr (hh d hd)⟩

/-! ### positions of a change id -/

theorem mem_localPositions {L : List Id} {c : Id} {q : Nat} : q ∈ localPositions L c ↔ L[q]? = some c := by
  unfold localPositions
  simp only [List.mem_filter, List.mem_range, beq_iff_eq]
  constructor
  · exact fun h => h.2
  · intro h
    exact ⟨(List.getElem?_eq_some_iff.mp h).1, h⟩

theorem localPositions_eq_nil {L : List Id} {c : Id} (h : ¬ c ∈ L) : localPositions L c = [] := by
  apply List.eq_nil_iff_forall_not_mem.mpr
  intro q hq
  exact h (List.mem_of_getElem? (mem_localPositions.mp hq))

theorem localPositions_append (A B : List Id) (c : Id) :
    localPositions (A ++ B) c = localPositions A c ++ (localPositions B c).map (· + A.length) := by
  unfold localPositions
  rw [List.length_append, List.range_add, List.filter_append, List.filter_map]
  congr 1
  · apply List.filter_congr
    intro i hi
    have hi' : i < A.length := List.mem_range.mp hi
    rw [List.getElem?_append_left hi']
  · congr 1
    · funext i; simp [Nat.add_comm]
    · apply List.filter_congr
      intro i _
      simp only [Function.comp]
      rw [List.getElem?_append_right (by omega)]
      simp

theorem localPositions_sorted (L : List Id) (c : Id) : (localPositions L c).Pairwise (· < ·) :=
  (List.pairwise_lt_range).sublist List.filter_sublist

/-- all change ids of the stack in global position order (segments child first) -/
def allChanges : List Seg → List Id
  | [] => []
  | s :: rest => allChanges rest ++ s.changes

/-- the `num_parent_commits` of every segment is the number of commits below it -/
def ChangeStackWF : List Seg → Prop
  | [] => True
  | s :: rest => s.numParent = (allChanges rest).length ∧ ChangeStackWF rest

theorem mem_allChanges {segs : List Seg} {x : Id} : x ∈ allChanges segs ↔ ∃ s ∈ segs, x ∈ s.changes := by
  induction segs with
  | nil => simp [allChanges]
  | cons s rest ih =>
    simp only [allChanges, List.mem_append, ih, List.mem_cons]
    constructor
    · rintro (⟨t, ht, hx⟩ | hx)
      · exact ⟨t, Or.inr ht, hx⟩
      · exact ⟨s, Or.inl rfl, hx⟩
    · rintro ⟨t, ht | ht, hx⟩
      · subst ht; exact Or.inr hx
      · exact Or.inl ⟨t, ht, hx⟩

/-- what the composite `resolve_change_id_prefix` accumulates: the positions of `c`, newest
segment first, each segment's positions reversed -/
def posDesc (segs : List Seg) (c : Id) : List Nat :=
  segs.flatMap fun s => (localPositions s.changes c).reverse.map (· + s.numParent)

theorem posDesc_eq {segs : List Seg} (hwf : ChangeStackWF segs) (c : Id) :
    posDesc segs c = (localPositions (allChanges segs) c).reverse := by
  induction segs with
  | nil => simp [posDesc, allChanges, localPositions]
  | cons s rest ih =>
    obtain ⟨hn, hrest⟩ := hwf
    have ih := ih hrest
    unfold posDesc at ih ⊢
    simp only [List.flatMap_cons, allChanges, localPositions_append, List.reverse_append, ih, hn]
    congr 1
    rw [List.map_reverse]

theorem posDesc_append (a b : List Seg) (c : Id) : posDesc (a ++ b) c = posDesc a c ++ posDesc b c := by
  simp [posDesc, List.flatMap_append]

theorem posDesc_nil_of_not_mem {segs : List Seg} {c : Id} (h : ∀ s ∈ segs, ¬ c ∈ s.changes) : posDesc segs c = [] := by
  unfold posDesc
  apply List.flatMap_eq_nil_iff.mpr
  intro s hs
  simp [localPositions_eq_nil (h s hs)]

/-! ### the per-segment and the composite change resolution -/

/-- specification of a resolution result over the segments `segs` -/
inductive ChangeRes (segs : List Seg) (p : Id) : Resolution (Id × List Nat) → Prop
  | none : (∀ s ∈ segs, ∀ x ∈ s.changes, matchesPrefix p x = false) → ChangeRes segs p .noMatch
  | one (c : Id) : matchesPrefix p c = true → (∃ s ∈ segs, c ∈ s.changes) →
      (∀ s ∈ segs, ∀ x ∈ s.changes, matchesPrefix p x = true → x = c) →
      ChangeRes segs p (.single (c, posDesc segs c))
  | amb (x y : Id) : x ≠ y → matchesPrefix p x = true → matchesPrefix p y = true →
      (∃ s ∈ segs, x ∈ s.changes) → (∃ s ∈ segs, y ∈ s.changes) → ChangeRes segs p .ambiguous

theorem sorted_nodup_pair {x y : Id} {M : List Id} {l : List Id} (hs : Sorted l)
    (h : l.filter (matchesPrefix p) = x :: y :: M) : x ≠ y := by
  have hsub : (x :: y :: M).Sublist l := h ▸ List.filter_sublist
  have := hs.sublist hsub
  have hxy := (List.pairwise_cons.mp this).1 y (by simp)
  intro he; subst he; rw [idLt_irrefl] at hxy; cases hxy

theorem segResolveChange_spec (s : Seg) (p : Id) (hlen : ∀ x ∈ s.changes, (padEven p).length ≤ x.length) :
    (segResolveChange s p = .noMatch ∧ ∀ x ∈ s.changes, matchesPrefix p x = false) ∨
    (∃ c, segResolveChange s p = .single (c, localPositions s.changes c) ∧ matchesPrefix p c = true ∧
      c ∈ s.changes ∧ ∀ x ∈ s.changes, matchesPrefix p x = true → x = c) ∨
    (segResolveChange s p = .ambiguous ∧ ∃ x y, x ≠ y ∧ matchesPrefix p x = true ∧ matchesPrefix p y = true ∧
      x ∈ s.changes ∧ y ∈ s.changes) := by
  unfold segResolveChange
  rw [prefixMatches_spec (sortIds_sorted _) p (fun x hx => hlen x (mem_sortIds.mp hx))]
  cases hM : (sortIds s.changes).filter (matchesPrefix p) with
  | nil =>
    left
    refine ⟨by simp [classify], fun x hx => ?_⟩
    cases hm : matchesPrefix p x with
    | false => rfl
    | true =>
      have : x ∈ (sortIds s.changes).filter (matchesPrefix p) := List.mem_filter.mpr ⟨mem_sortIds.mpr hx, hm⟩
      rw [hM] at this; simp at this
  | cons c M =>
    cases M with
    | nil =>
      right; left
      have hc : c ∈ (sortIds s.changes).filter (matchesPrefix p) := by rw [hM]; simp
      obtain ⟨hc1, hc2⟩ := List.mem_filter.mp hc
      refine ⟨c, by simp [classify], hc2, mem_sortIds.mp hc1, fun x hx hm => ?_⟩
      have : x ∈ (sortIds s.changes).filter (matchesPrefix p) := List.mem_filter.mpr ⟨mem_sortIds.mpr hx, hm⟩
      rw [hM] at this; simpa using this
    | cons d M =>
      right; right
      have hc : c ∈ (sortIds s.changes).filter (matchesPrefix p) := by rw [hM]; simp
      have hd : d ∈ (sortIds s.changes).filter (matchesPrefix p) := by rw [hM]; simp
      obtain ⟨hc1, hc2⟩ := List.mem_filter.mp hc
      obtain ⟨hd1, hd2⟩ := List.mem_filter.mp hd
      exact ⟨by simp [classify], c, d, sorted_nodup_pair (sortIds_sorted _) hM, hc2, hd2,
        mem_sortIds.mp hc1, mem_sortIds.mp hd1⟩

/-- the step function of the fold in `resolve_change_id_prefix` -/
def changeStep (p : Id) (acc : Resolution (Id × List Nat)) (s : Seg) : Resolution (Id × List Nat) :=
  if acc = .ambiguous then acc else
  let toGlobal := fun (l : List Nat) => l.reverse.map (· + s.numParent)
  match acc, segResolveChange s p with
  | .noMatch, .single (c, ps) => .single (c, toGlobal ps)
  | .noMatch, other => other
  | acc, .noMatch => acc
  | .ambiguous, _ => .ambiguous
  | _, .ambiguous => .ambiguous
  | .single (c1, acc), .single (c2, ps) =>
    if c1 = c2 then .single (c1, acc ++ toGlobal ps) else .ambiguous

theorem resolveChangePrefix_eq (segs : List Seg) (p : Id) :
    resolveChangePrefix segs p = segs.foldl (changeStep p) .noMatch := rfl

theorem changeStep_spec {done : List Seg} {p : Id} {acc : Resolution (Id × List Nat)} (s : Seg)
    (hlen : ∀ x ∈ s.changes, (padEven p).length ≤ x.length) (h : ChangeRes done p acc) :
    ChangeRes (done ++ [s]) p (changeStep p acc s) := by
  have hposs : ∀ c, posDesc (done ++ [s]) c = posDesc done c ++ (localPositions s.changes c).reverse.map (· + s.numParent) := by
    intro c; rw [posDesc_append]; simp [posDesc]
  have mem_snoc : ∀ {P : Seg → Prop}, (∃ t ∈ done, P t) → ∃ t ∈ done ++ [s], P t :=
    fun ⟨t, ht, hp⟩ => ⟨t, by simp [ht], hp⟩
  cases h with
  | none hnone =>
    rcases segResolveChange_spec s p hlen with ⟨he, hno⟩ | ⟨c, he, hm, hc, honly⟩ | ⟨he, x, y, hne, hx, hy, hxs, hys⟩
    · simp only [changeStep, he]
      apply ChangeRes.none
      intro t ht x hx
      rcases List.mem_append.mp ht with ht' | ht'
      · exact hnone t ht' x hx
      · simp at ht'; subst ht'; exact hno x hx
    · simp only [changeStep, he]
      have hnil : posDesc done c = [] := posDesc_nil_of_not_mem (fun t ht hct => by
        have := hnone t ht c hct; rw [hm] at this; cases this)
      have := ChangeRes.one (segs := done ++ [s]) (p := p) c hm ⟨s, by simp, hc⟩ (by
        intro t ht x hx hmx
        rcases List.mem_append.mp ht with ht' | ht'
        · have := hnone t ht' x hx; rw [hmx] at this; cases this
        · simp at ht'; subst ht'; exact honly x hx hmx)
      rw [hposs, hnil] at this
      simpa using this
    · simp only [changeStep, he]
      exact ChangeRes.amb x y hne hx hy ⟨s, by simp, hxs⟩ ⟨s, by simp, hys⟩
  | one c hm hex honly0 =>
    rcases segResolveChange_spec s p hlen with ⟨he, hno⟩ | ⟨c2, he, hm2, hc2, honly⟩ | ⟨he, x, y, hne, hx, hy, hxs, hys⟩
    · simp only [changeStep, he]
      have hcs : ¬ c ∈ s.changes := fun hc => by have := hno c hc; rw [hm] at this; cases this
      have := ChangeRes.one (segs := done ++ [s]) (p := p) c hm (mem_snoc hex) (by
        intro t ht x hx hmx
        rcases List.mem_append.mp ht with ht' | ht'
        · exact honly0 t ht' x hx hmx
        · simp at ht'; subst ht'; have := hno x hx; rw [hmx] at this; cases this)
      rw [hposs, localPositions_eq_nil hcs] at this
      simpa using this
    · simp only [changeStep, he]
      by_cases hcc : c = c2
      · subst hcc
        simp only [if_true]
        have := ChangeRes.one (segs := done ++ [s]) (p := p) c hm (mem_snoc hex) (by
          intro t ht x hx hmx
          rcases List.mem_append.mp ht with ht' | ht'
          · exact honly0 t ht' x hx hmx
          · simp at ht'; subst ht'; exact honly x hx hmx)
        rw [hposs] at this
        simpa using this
      · simp only [hcc, if_false]
        exact ChangeRes.amb c c2 hcc hm hm2 (mem_snoc hex) ⟨s, by simp, hc2⟩
    · simp only [changeStep, he]
      exact ChangeRes.amb x y hne hx hy ⟨s, by simp, hxs⟩ ⟨s, by simp, hys⟩
  | amb x y hne hx hy hxs hys =>
    simp only [changeStep, if_true]
    exact ChangeRes.amb x y hne hx hy (mem_snoc hxs) (mem_snoc hys)

theorem resolveChangePrefix_spec (segs : List Seg) (p : Id)
    (hlen : ∀ s ∈ segs, ∀ x ∈ s.changes, (padEven p).length ≤ x.length) :
    ChangeRes segs p (resolveChangePrefix segs p) := by
  rw [resolveChangePrefix_eq]
  have gen : ∀ (rest done : List Seg) (acc : Resolution (Id × List Nat)),
      (∀ s ∈ rest, ∀ x ∈ s.changes, (padEven p).length ≤ x.length) →
      ChangeRes done p acc → ChangeRes (done ++ rest) p (rest.foldl (changeStep p) acc) := by
    intro rest
    induction rest with
    | nil => intro done acc _ h; simpa using h
    | cons s rest ih =>
      intro done acc hl h
      have := ih (done ++ [s]) (changeStep p acc s) (fun t ht => hl t (by simp [ht]))
        (changeStep_spec s (hl s (by simp)) h)
      simpa [List.append_assoc] using this
  have := gen segs [] .noMatch hlen (ChangeRes.none (by simp))
  simpa using this

/-- a prefix matched by exactly one change id resolves to it, with all its positions -/
theorem resolveChangePrefix_unique (segs : List Seg) (p c : Id)
    (hlen : ∀ s ∈ segs, ∀ x ∈ s.changes, (padEven p).length ≤ x.length)
    (hc : c ∈ allChanges segs) (hm : matchesPrefix p c = true)
    (honly : ∀ x ∈ allChanges segs, matchesPrefix p x = true → x = c) :
    resolveChangePrefix segs p = .single (c, posDesc segs c) := by
  have h := resolveChangePrefix_spec segs p hlen
  generalize resolveChangePrefix segs p = r at h
  cases h with
  | none hnone =>
    obtain ⟨s, hs, hcs⟩ := mem_allChanges.mp hc
    have := hnone s hs c hcs; rw [hm] at this; cases this
  | one c' hm' hex honly' =>
    obtain ⟨s, hs, hcs⟩ := hex
    have := honly c' (mem_allChanges.mpr ⟨s, hs, hcs⟩) hm'
    subst this; rfl
  | amb x y hne hx hy hxs hys =>
    have h1 := honly x (mem_allChanges.mpr hxs) hx
    have h2 := honly y (mem_allChanges.mpr hys) hy
    exact absurd (h1.trans h2.symm) hne

theorem resolveChangePrefix_ambiguous (segs : List Seg) (p x y : Id)
    (hlen : ∀ s ∈ segs, ∀ z ∈ s.changes, (padEven p).length ≤ z.length)
    (hx : x ∈ allChanges segs) (hy : y ∈ allChanges segs) (hne : x ≠ y)
    (hmx : matchesPrefix p x = true) (hmy : matchesPrefix p y = true) :
    resolveChangePrefix segs p = .ambiguous := by
  have h := resolveChangePrefix_spec segs p hlen
  generalize resolveChangePrefix segs p = r at h
  cases h with
  | none hnone =>
    obtain ⟨s, hs, hcs⟩ := mem_allChanges.mp hx
    have := hnone s hs x hcs; rw [hmx] at this; cases this
  | one c hm hex honly =>
    obtain ⟨s, hs, hxs⟩ := mem_allChanges.mp hx
    obtain ⟨t, ht, hyt⟩ := mem_allChanges.mp hy
    exact absurd ((honly s hs x hxs hmx).trans (honly t ht y hyt hmy).symm) hne
  | amb => rfl

/-! ### the disambiguation index -/

theorem idIndexShortest_spec {keys : List Id} {key : Id} (hk : key ∈ keys) :
    ∃ L, idIndexShortestSpec keys key = some L ∧ 1 ≤ L ∧
      (∀ k ∈ keys, k ≠ key → commonLen key k + 1 ≤ L) ∧
      (L = 1 ∨ ∃ k ∈ keys, k ≠ key ∧ commonLen key k + 1 = L) := by
  unfold idIndexShortestSpec
  have hc : keys.contains key = true := List.contains_iff_mem.mpr hk
  simp only [hc, if_true]
  obtain ⟨h1, h2, h3⟩ := foldl_max_spec ((keys.filter (· != key)).map fun k => commonLen key k + 1) 1
  refine ⟨_, rfl, h1, ?_, ?_⟩
  · intro k hkk hne
    apply h2
    exact List.mem_map.mpr ⟨k, List.mem_filter.mpr ⟨hkk, by simpa using hne⟩, rfl⟩
  · rcases h3 with h | h
    · exact Or.inl h
    · right
      obtain ⟨k, hkf, he⟩ := List.mem_map.mp h
      obtain ⟨hkk, hne⟩ := List.mem_filter.mp hkf
      exact ⟨k, hkk, by simpa using hne, he⟩

theorem idIndexShortest_none {keys : List Id} {key : Id} (hk : ¬ key ∈ keys) : idIndexShortestSpec keys key = none := by
  unfold idIndexShortestSpec
  have hc : keys.contains key = false := by
    cases h : keys.contains key with
    | false => rfl
    | true => exact absurd (List.contains_iff_mem.mp h) hk
  simp only [hc, Bool.false_eq_true, if_false]

theorem idIndexResolve_unique {keys : List Id} {p key : Id} (hp : p ≠ []) (hk : key ∈ keys)
    (hm : matchesPrefix p key = true) (honly : ∀ k ∈ keys, matchesPrefix p k = true → k = key) :
    idIndexResolveSpec keys p = .single key := by
  unfold idIndexResolveSpec
  simp only [hp, if_false]
  apply collect_single.mpr
  refine ⟨fun h => ?_, fun x hx => honly x (List.mem_filter.mp hx).1 (List.mem_filter.mp hx).2⟩
  have : key ∈ keys.filter (matchesPrefix p) := List.mem_filter.mpr ⟨hk, hm⟩
  rw [h] at this; simp at this

theorem idIndexResolve_none {keys : List Id} {p : Id} (hp : p ≠ [])
    (hno : ∀ k ∈ keys, matchesPrefix p k = false) : idIndexResolveSpec keys p = .noMatch := by
  unfold idIndexResolveSpec
  simp only [hp, if_false]
  apply collect_noMatch.mpr
  apply List.filter_eq_nil_iff.mpr
  intro k hk hm; rw [hno k hk] at hm; cases hm

theorem idIndexResolve_two {keys : List Id} {p a b : Id} (ha : a ∈ keys) (hb : b ∈ keys) (hne : a ≠ b)
    (hma : matchesPrefix p a = true) (hmb : matchesPrefix p b = true) : idIndexResolveSpec keys p = .ambiguous := by
  unfold idIndexResolveSpec
  split
  · rfl
  · have hma' : a ∈ keys.filter (matchesPrefix p) := List.mem_filter.mpr ⟨ha, hma⟩
    have hmb' : b ∈ keys.filter (matchesPrefix p) := List.mem_filter.mpr ⟨hb, hmb⟩
    cases hc : collect (keys.filter (matchesPrefix p)) with
    | noMatch => rw [collect_noMatch.mp hc] at hma'; simp at hma'
    | single k =>
      obtain ⟨_, hall⟩ := collect_single.mp hc
      exact absurd ((hall a hma').trans (hall b hmb').symm) hne
    | ambiguous => rfl

theorem idIndexResolve_single_mem {keys : List Id} {p k : Id} (h : idIndexResolveSpec keys p = .single k) :
    k ∈ keys ∧ matchesPrefix p k = true := by
  unfold idIndexResolveSpec at h
  split at h
  · cases h
  · obtain ⟨hne, hall⟩ := collect_single.mp h
    obtain ⟨x, hx⟩ := List.exists_mem_of_ne_nil _ hne
    have := hall x hx
    subst this
    exact ⟨(List.mem_filter.mp hx).1, (List.mem_filter.mp hx).2⟩

end JjModel.IdPrefix
