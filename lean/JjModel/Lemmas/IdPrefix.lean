import JjModel.Model.IdPrefix
/-!
  Lemmas for C20, part 1: the order on ids, common prefixes, sorted tables, neighbours.
-/
namespace JjModel.IdPrefix

/-! ### the order `idLt` -/

theorem idLt_irrefl (a : Id) : idLt a a = false := by
  induction a with
  | nil => rfl
  | cons x xs ih => simp [idLt, ih]

theorem idLt_asymm {a b : Id} (h : idLt a b = true) : idLt b a = false := by
  induction a generalizing b with
  | nil => cases b <;> simp [idLt] at h ⊢
  | cons x xs ih =>
    cases b with
    | nil => simp [idLt] at h
    | cons y ys =>
      simp only [idLt] at h ⊢
      by_cases hxy : x < y
      · have h1 : ¬ y < x := by omega
        have h2 : ¬ y = x := by omega
        simp [h1, h2]
      · simp only [hxy, if_false] at h
        by_cases he : x = y
        · subst he
          simp only [if_true] at h
          simp [ih h]
        · simp [he] at h

theorem idLt_trans {a b c : Id} (h1 : idLt a b = true) (h2 : idLt b c = true) : idLt a c = true := by
  induction a generalizing b c with
  | nil =>
    cases c with
    | nil => cases b <;> simp [idLt] at h1 h2
    | cons z zs => simp [idLt]
  | cons x xs ih =>
    cases b with
    | nil => simp [idLt] at h1
    | cons y ys =>
      cases c with
      | nil => simp [idLt] at h2
      | cons z zs =>
        simp only [idLt] at h1 h2 ⊢
        by_cases hxy : x < y
        · by_cases hyz : y < z
          · have : x < z := by omega
            simp [this]
          · simp only [hyz, if_false] at h2
            by_cases he : y = z
            · subst he; simp [hxy]
            · simp [he] at h2
        · simp only [hxy, if_false] at h1
          by_cases he : x = y
          · subst he
            simp only [if_true] at h1
            by_cases hyz : x < z
            · simp [hyz]
            · simp only [hyz, if_false] at h2 ⊢
              by_cases he2 : x = z
              · subst he2
                simp only [if_true] at h2 ⊢
                exact ih h1 h2
              · simp [he2] at h2
          · simp [he] at h1

theorem idLt_total (a b : Id) : a = b ∨ idLt a b = true ∨ idLt b a = true := by
  induction a generalizing b with
  | nil => cases b <;> simp [idLt]
  | cons x xs ih =>
    cases b with
    | nil => simp [idLt]
    | cons y ys =>
      simp only [idLt]
      by_cases hxy : x < y
      · simp [hxy]
      · by_cases hyx : y < x
        · simp [hyx]
        · have he : x = y := by omega
          subst he
          simp only [hxy, if_false, if_true]
          rcases ih ys with h | h | h
          · left; rw [h]
          · right; left; exact h
          · right; right; exact h

/-- `a ≤ b` -/
def idLe (a b : Id) : Prop := a = b ∨ idLt a b = true

theorem idLe_of_not_lt {a b : Id} (h : idLt a b = false) : idLe b a := by
  rcases idLt_total a b with h' | h' | h'
  · exact Or.inl h'.symm
  · rw [h] at h'; cases h'
  · exact Or.inr h'

theorem not_lt_of_idLe {a b : Id} (h : idLe a b) : idLt b a = false := by
  rcases h with rfl | h
  · exact idLt_irrefl _
  · exact idLt_asymm h

theorem idLt_of_lt_of_le {a b c : Id} (h1 : idLt a b = true) (h2 : idLe b c) : idLt a c = true := by
  rcases h2 with rfl | h2
  · exact h1
  · exact idLt_trans h1 h2

theorem idLt_of_le_of_lt {a b c : Id} (h1 : idLe a b) (h2 : idLt b c = true) : idLt a c = true := by
  rcases h1 with rfl | h1
  · exact h2
  · exact idLt_trans h1 h2

theorem idLt_append_left (p a b : Id) : idLt (p ++ a) (p ++ b) = idLt a b := by
  induction p with
  | nil => rfl
  | cons x xs ih => simp [idLt, ih]

/-! ### prefixes and common prefix length -/

theorem matchesPrefix_iff {p a : Id} : matchesPrefix p a = true ↔ ∃ r, a = p ++ r := by
  induction p generalizing a with
  | nil => simp [matchesPrefix]
  | cons x xs ih =>
    cases a with
    | nil => simp [matchesPrefix]
    | cons y ys =>
      simp only [matchesPrefix, Bool.and_eq_true, beq_iff_eq, ih, List.cons_append, List.cons.injEq]
      constructor
      · rintro ⟨rfl, r, rfl⟩; exact ⟨r, rfl, rfl⟩
      · rintro ⟨r, rfl, rfl⟩; exact ⟨rfl, r, rfl⟩

theorem matchesPrefix_self_take (a : Id) (l : Nat) : matchesPrefix (a.take l) a = true :=
  matchesPrefix_iff.mpr ⟨a.drop l, (List.take_append_drop l a).symm⟩

theorem commonLen_comm (a b : Id) : commonLen a b = commonLen b a := by
  induction a generalizing b with
  | nil => cases b <;> simp [commonLen]
  | cons x xs ih =>
    cases b with
    | nil => simp [commonLen]
    | cons y ys =>
      simp only [commonLen]
      by_cases h : x = y
      · subst h; simp [ih]
      · have : ¬ y = x := fun h' => h h'.symm
        simp [h, this]

theorem commonLen_le_left (a b : Id) : commonLen a b ≤ a.length := by
  induction a generalizing b with
  | nil => simp [commonLen]
  | cons x xs ih =>
    cases b with
    | nil => simp [commonLen]
    | cons y ys =>
      simp only [commonLen]
      split
      · have := ih ys; simp; omega
      · simp

/-- the prefix of `a` of length `l` is a prefix of `b` exactly when the ids agree on `l` digits -/
theorem matches_take_iff {a b : Id} {l : Nat} (hl : l ≤ a.length) :
    matchesPrefix (a.take l) b = true ↔ l ≤ commonLen a b := by
  induction a generalizing b l with
  | nil =>
    have : l = 0 := by simpa using hl
    subst this; simp [matchesPrefix]
  | cons x xs ih =>
    cases l with
    | zero => simp [matchesPrefix]
    | succ l =>
      simp only [List.length_cons] at hl
      cases b with
      | nil => simp [matchesPrefix, commonLen]
      | cons y ys =>
        simp only [List.take_succ_cons, matchesPrefix, commonLen, Bool.and_eq_true, beq_iff_eq]
        by_cases h : x = y
        · subst h
          simp only [true_and, if_true]
          rw [ih (by omega)]
          omega
        · simp [h]

theorem commonLen_lt_length {a b : Id} (hlen : a.length = b.length) (hne : a ≠ b) : commonLen a b < a.length := by
  induction a generalizing b with
  | nil =>
    cases b with
    | nil => exact absurd rfl hne
    | cons y ys => simp at hlen
  | cons x xs ih =>
    cases b with
    | nil => simp at hlen
    | cons y ys =>
      simp only [commonLen, List.length_cons]
      by_cases h : x = y
      · subst h
        simp only [if_true]
        have := ih (b := ys) (by simpa using hlen) (fun h' => hne (by rw [h']))
        omega
      · simp [h]

/-- between two ids that share a prefix, every id shares it -/
theorem matches_sandwich {p a b c : Id} (hab : idLe a b) (hbc : idLe b c)
    (ha : matchesPrefix p a = true) (hc : matchesPrefix p c = true) : matchesPrefix p b = true := by
  induction p generalizing a b c with
  | nil => simp [matchesPrefix]
  | cons x xs ih =>
    cases a with
    | nil => simp [matchesPrefix] at ha
    | cons a0 as =>
      cases c with
      | nil => simp [matchesPrefix] at hc
      | cons c0 cs =>
        simp only [matchesPrefix, Bool.and_eq_true, beq_iff_eq] at ha hc
        obtain ⟨rfl, ha'⟩ := ha
        obtain ⟨rfl, hc'⟩ := hc
        cases b with
        | nil =>
          rcases hab with h | h
          · cases h
          · simp [idLt] at h
        | cons b0 bs =>
          have h1 : x ≤ b0 ∧ (x = b0 → idLe as bs) := by
            rcases hab with h | h
            · cases h; exact ⟨Nat.le_refl _, fun _ => Or.inl rfl⟩
            · simp only [idLt] at h
              by_cases hlt : x < b0
              · exact ⟨by omega, fun he => by omega⟩
              · simp only [hlt, if_false] at h
                by_cases he : x = b0
                · subst he; simp only [if_true] at h; exact ⟨Nat.le_refl _, fun _ => Or.inr h⟩
                · simp [he] at h
          have h2 : b0 ≤ x ∧ (b0 = x → idLe bs cs) := by
            rcases hbc with h | h
            · cases h; exact ⟨Nat.le_refl _, fun _ => Or.inl rfl⟩
            · simp only [idLt] at h
              by_cases hlt : b0 < x
              · exact ⟨by omega, fun he => by omega⟩
              · simp only [hlt, if_false] at h
                by_cases he : b0 = x
                · subst he; simp only [if_true] at h; exact ⟨Nat.le_refl _, fun _ => Or.inr h⟩
                · simp [he] at h
          have he : x = b0 := by omega
          subst he
          simp only [matchesPrefix, beq_self_eq_true, Bool.true_and]
          exact ih (h1.2 rfl) (h2.2 rfl) ha' hc'

/-- in the order, the nearer id shares at least as many digits -/
theorem commonLen_sandwich_left {a b c : Id} (hab : idLe a b) (hbc : idLe b c) :
    commonLen a c ≤ commonLen b c := by
  have h1 : matchesPrefix (c.take (commonLen a c)) a = true := by
    rw [matches_take_iff (by rw [commonLen_comm]; exact commonLen_le_left c a), commonLen_comm]; exact Nat.le_refl _
  have h2 := matches_sandwich hab hbc h1 (matchesPrefix_self_take c _)
  rw [matches_take_iff (by rw [commonLen_comm]; exact commonLen_le_left c a)] at h2
  rw [commonLen_comm b c]; exact h2

theorem commonLen_sandwich_right {a b c : Id} (hab : idLe a b) (hbc : idLe b c) :
    commonLen a c ≤ commonLen a b := by
  have h1 : matchesPrefix (a.take (commonLen a c)) c = true := by
    rw [matches_take_iff (commonLen_le_left a c)]; exact Nat.le_refl _
  have h2 := matches_sandwich hab hbc (matchesPrefix_self_take a _) h1
  rw [matches_take_iff (commonLen_le_left a c)] at h2
  exact h2

/-! ### sorted tables -/

def Sorted (tbl : List Id) : Prop := tbl.Pairwise fun a b => idLt a b = true

theorem mem_insertId {x y : Id} {l : List Id} : y ∈ insertId x l ↔ y = x ∨ y ∈ l := by
  induction l with
  | nil => simp [insertId]
  | cons z zs ih =>
    simp only [insertId]
    split
    · simp
    · split
      · next heq => subst heq; simp
      · simp only [List.mem_cons, ih]
        constructor
        · rintro (h | h | h)
          · exact Or.inr (Or.inl h)
          · exact Or.inl h
          · exact Or.inr (Or.inr h)
        · rintro (h | h | h)
          · exact Or.inr (Or.inl h)
          · exact Or.inl h
          · exact Or.inr (Or.inr h)

theorem insertId_sorted {x : Id} {l : List Id} (h : Sorted l) : Sorted (insertId x l) := by
  induction l with
  | nil => simp [insertId, Sorted]
  | cons z zs ih =>
    have hz := List.pairwise_cons.mp h
    simp only [insertId]
    split
    · next hlt =>
      refine List.pairwise_cons.mpr ⟨?_, h⟩
      intro a ha
      rcases List.mem_cons.mp ha with rfl | ha'
      · exact hlt
      · exact idLt_trans hlt (hz.1 a ha')
    · next hnlt =>
      split
      · exact h
      · next hne =>
        refine List.pairwise_cons.mpr ⟨?_, ih hz.2⟩
        intro a ha
        rcases mem_insertId.mp ha with rfl | ha'
        · rcases idLt_total a z with h' | h' | h'
          · exact absurd h' hne
          · simp [h'] at hnlt
          · exact h'
        · exact hz.1 a ha'

theorem mem_sortIds {y : Id} {l : List Id} : y ∈ sortIds l ↔ y ∈ l := by
  induction l with
  | nil => simp [sortIds]
  | cons x xs ih =>
    simp only [sortIds, List.foldr_cons] at ih ⊢
    rw [mem_insertId, ih]; simp

theorem sortIds_sorted (l : List Id) : Sorted (sortIds l) := by
  induction l with
  | nil => simp [sortIds, Sorted]
  | cons x xs ih =>
    simp only [sortIds, List.foldr_cons] at ih ⊢
    exact insertId_sorted ih

/-- the table splits at `lowerBound` into the entries below `key` and the entries not below it -/
theorem lowerBound_split {tbl : List Id} (hs : Sorted tbl) (key : Id) :
    ∃ lo hi, tbl = lo ++ hi ∧ lo.length = lowerBound tbl key ∧
      (∀ x ∈ lo, idLt x key = true) ∧ (∀ x ∈ hi, idLt x key = false) := by
  induction tbl with
  | nil => exact ⟨[], [], rfl, rfl, by simp, by simp⟩
  | cons x xs ih =>
    have hx := List.pairwise_cons.mp hs
    simp only [lowerBound]
    by_cases hlt : idLt x key = true
    · obtain ⟨lo, hi, he, hl, h1, h2⟩ := ih hx.2
      refine ⟨x :: lo, hi, by simp [he], by simp [hlt, hl], ?_, h2⟩
      intro y hy
      rcases List.mem_cons.mp hy with rfl | hy'
      · exact hlt
      · exact h1 y hy'
    · have hf : idLt x key = false := by simpa using hlt
      refine ⟨[], x :: xs, rfl, by simp [hf], by simp, ?_⟩
      intro y hy
      rcases List.mem_cons.mp hy with rfl | hy'
      · exact hf
      · have hxy := hx.1 y hy'
        have hkx := idLe_of_not_lt hf
        exact idLt_asymm (idLt_of_le_of_lt hkx hxy)

/-! ### the binary search finds the lower bound -/

theorem sorted_get_lt {tbl : List Id} (hs : Sorted tbl) {i j : Nat} {x y : Id} (hij : i < j)
    (hx : tbl[i]? = some x) (hy : tbl[j]? = some y) : idLt x y = true := by
  obtain ⟨hi, rfl⟩ := List.getElem?_eq_some_iff.mp hx
  obtain ⟨hj, rfl⟩ := List.getElem?_eq_some_iff.mp hy
  exact (List.pairwise_iff_getElem.mp hs) i j hi hj hij

theorem lowerBound_char {tbl : List Id} (hs : Sorted tbl) (key : Id) (p : Nat) (hp : p ≤ tbl.length)
    (hlo : ∀ i, i < p → ∀ x, tbl[i]? = some x → idLt x key = true)
    (hhi : ∀ i, p ≤ i → ∀ x, tbl[i]? = some x → idLt x key = false) : lowerBound tbl key = p := by
  obtain ⟨lo, hi, he, hl, h1, h2⟩ := lowerBound_split hs key
  rw [← hl]
  by_cases hlt : p < lo.length
  · have hx : tbl[p]? = some lo[p] := by rw [he, List.getElem?_append_left hlt, List.getElem?_eq_getElem hlt]
    have := hhi p (Nat.le_refl _) _ hx
    rw [h1 _ (List.getElem_mem hlt)] at this; cases this
  · by_cases hgt : lo.length < p
    · have hlen : lo.length < tbl.length := by omega
      have hlen' : 0 < hi.length := by rw [he] at hlen; simp at hlen; omega
      have hx : tbl[lo.length]? = some hi[0] := by
        rw [he, List.getElem?_append_right (Nat.le_refl _)]; simp [List.getElem?_eq_getElem hlen']
      have := hlo lo.length hgt _ hx
      rw [h2 _ (List.getElem_mem hlen')] at this; cases this
    · omega

theorem bsearch_spec {tbl : List Id} (hs : Sorted tbl) (key : Id) :
    ∀ (fuel low high : Nat), low ≤ high → high ≤ tbl.length → high - low < fuel →
      (∀ i, i < low → ∀ x, tbl[i]? = some x → idLt x key = true) →
      (∀ i, high ≤ i → ∀ x, tbl[i]? = some x → idLt key x = true) →
      (bsearch tbl key fuel low high).2 = lowerBound tbl key ∧
      ((bsearch tbl key fuel low high).1 = true ↔ tbl[(bsearch tbl key fuel low high).2]? = some key) := by
  intro fuel
  induction fuel with
  | zero => intro low high _ _ hf; omega
  | succ fuel ih =>
    intro low high hlh hhl hf hlo hhi
    unfold bsearch
    by_cases hlt : low < high
    · simp only [hlt, if_true]
      have hmid : (low + high) / 2 < tbl.length := by omega
      have hml : low ≤ (low + high) / 2 := by omega
      have hmh : (low + high) / 2 < high := by omega
      rw [List.getElem?_eq_getElem hmid]
      simp only
      have hxm : tbl[(low + high) / 2]? = some tbl[(low + high) / 2] := List.getElem?_eq_getElem hmid
      by_cases hless : idLt tbl[(low + high) / 2] key = true
      · simp only [hless, if_true]
        apply ih _ _ (by omega) hhl (by omega) _ hhi
        intro i hi x hx
        by_cases him : i = (low + high) / 2
        · subst him; rw [hxm] at hx; cases hx; exact hless
        · exact idLt_trans (sorted_get_lt hs (by omega) hx hxm) hless
      · have hless' : idLt tbl[(low + high) / 2] key = false := by simpa using hless
        simp only [hless', Bool.false_eq_true, if_false]
        by_cases heq : tbl[(low + high) / 2] = key
        · simp only [heq, if_true]
          refine ⟨(lowerBound_char hs key _ (by omega) ?_ ?_).symm, by simp [hxm, heq]⟩
          · intro i hi x hx
            have := sorted_get_lt hs hi hx hxm
            rwa [heq] at this
          · intro i hi x hx
            by_cases him : i = (low + high) / 2
            · subst him; rw [hxm] at hx; cases hx; exact hless'
            · have := sorted_get_lt hs (by omega : (low + high) / 2 < i) hxm hx
              rw [heq] at this
              exact idLt_asymm this
        · simp only [heq, if_false]
          have hgt : idLt key tbl[(low + high) / 2] = true := by
            rcases idLe_of_not_lt hless' with h | h
            · exact absurd h.symm heq
            · exact h
          apply ih _ _ hml (by omega) (by omega) hlo
          intro i hi x hx
          by_cases him : i = (low + high) / 2
          · subst him; rw [hxm] at hx; cases hx; exact hgt
          · exact idLt_trans hgt (sorted_get_lt hs (by omega) hxm hx)
    · simp only [hlt, if_false]
      have hlow : low = high := by omega
      subst hlow
      have hlb := lowerBound_char hs key low hhl hlo (fun i hi x hx => idLt_asymm (hhi i hi x hx))
      refine ⟨hlb.symm, ?_⟩
      constructor
      · intro h; cases h
      · intro h
        have := hhi low (Nat.le_refl _) key h
        rw [idLt_irrefl] at this; cases this

theorem lookupPos_spec {tbl : List Id} (hs : Sorted tbl) (key : Id) :
    (lookupPos tbl key).2 = lowerBound tbl key ∧
    ((lookupPos tbl key).1 = true ↔ tbl[lowerBound tbl key]? = some key) := by
  unfold lookupPos
  obtain ⟨h1, h2⟩ := bsearch_spec hs key (tbl.length + 1) 0 tbl.length (by omega) (Nat.le_refl _) (by omega)
    (by intro i hi; omega)
    (by intro i hi x hx; have := (List.getElem?_eq_some_iff.mp hx).1; omega)
  rw [h1] at h2
  exact ⟨h1, h2⟩

/-! ### neighbours: specification and per-table correctness -/

/-- `r` is the greatest element of `S` below `key` (or there is none) -/
def PrevSpec (S : List Id) (key : Id) : Option Id → Prop
  | none => ∀ x ∈ S, idLt x key = false
  | some p => p ∈ S ∧ idLt p key = true ∧ ∀ x ∈ S, idLt x key = true → idLe x p

/-- `r` is the least element of `S` above `key` (or there is none) -/
def NextSpec (S : List Id) (key : Id) : Option Id → Prop
  | none => ∀ x ∈ S, idLt key x = false
  | some n => n ∈ S ∧ idLt key n = true ∧ ∀ x ∈ S, idLt key x = true → idLe n x

theorem sorted_append {a b : List Id} (h : Sorted (a ++ b)) :
    Sorted a ∧ Sorted b ∧ ∀ x ∈ a, ∀ y ∈ b, idLt x y = true := by
  have := List.pairwise_append.mp h
  exact ⟨this.1, this.2.1, this.2.2⟩

theorem getLast_max {lo : List Id} (hs : Sorted lo) {p : Id} (hp : lo.getLast? = some p) :
    p ∈ lo ∧ ∀ x ∈ lo, idLe x p := by
  induction lo with
  | nil => simp at hp
  | cons x xs ih =>
    have hx := List.pairwise_cons.mp hs
    cases xs with
    | nil =>
      simp at hp; subst hp
      exact ⟨by simp, fun y hy => by simp at hy; exact Or.inl hy⟩
    | cons z zs =>
      have hp' : (z :: zs).getLast? = some p := by simpa [List.getLast?_cons_cons] using hp
      obtain ⟨h1, h2⟩ := ih hx.2 hp'
      refine ⟨by simp [h1], fun y hy => ?_⟩
      rcases List.mem_cons.mp hy with rfl | hy'
      · exact Or.inr (hx.1 p h1)
      · exact h2 y hy'

theorem neighborsIn_spec {tbl : List Id} (hs : Sorted tbl) (key : Id) :
    PrevSpec tbl key (neighborsIn tbl key).1 ∧ NextSpec tbl key (neighborsIn tbl key).2 := by
  obtain ⟨lo, hi, he, hl, h1, h2⟩ := lowerBound_split hs key
  obtain ⟨hslo, hshi, hlohi⟩ := sorted_append (he ▸ hs)
  have hmem : ∀ x, x ∈ tbl ↔ x ∈ lo ∨ x ∈ hi := by intro x; rw [he]; simp
  obtain ⟨hpos, hfound⟩ := lookupPos_spec hs key
  unfold neighborsIn
  simp only [hpos]
  have hfound' : (if (lookupPos tbl key).1 = true then tbl[lowerBound tbl key + 1]? else tbl[lowerBound tbl key]?)
      = (if tbl[lowerBound tbl key]? = some key then tbl[lowerBound tbl key + 1]? else tbl[lowerBound tbl key]?) := by
    by_cases h : (lookupPos tbl key).1 = true
    · simp [h, hfound.mp h]
    · have h' : ¬ tbl[lowerBound tbl key]? = some key := fun hh => h (hfound.mpr hh)
      simp [h, h']
  rw [hfound']
  rw [← hl]
  constructor
  · -- previous
    by_cases h0 : lo.length = 0
    · have : lo = [] := List.length_eq_zero_iff.mp h0
      subst this
      simp only [List.length_nil, if_true, PrevSpec]
      intro x hx
      exact h2 x (by simpa [he] using hx)
    · simp only [h0, if_false]
      have hget : tbl[lo.length - 1]? = lo.getLast? := by
        rw [he, List.getElem?_append_left (by omega), List.getLast?_eq_getElem?]
      rw [hget]
      cases hgl : lo.getLast? with
      | none => simp [List.getLast?_eq_none_iff] at hgl; subst hgl; simp at h0
      | some p =>
        obtain ⟨hp, hmax⟩ := getLast_max hslo hgl
        refine ⟨(hmem p).mpr (Or.inl hp), h1 p hp, fun x hx hxk => ?_⟩
        rcases (hmem x).mp hx with hxl | hxh
        · exact hmax x hxl
        · rw [h2 x hxh] at hxk; cases hxk
  · -- next
    have hget0 : tbl[lo.length]? = hi[0]? := by
      rw [he, List.getElem?_append_right (by omega)]; simp
    have hget1 : tbl[lo.length + 1]? = hi[1]? := by
      rw [he, List.getElem?_append_right (by omega)]; simp
    rw [hget0, hget1]
    have hlo_not : ∀ x ∈ lo, idLt key x = false := fun x hx => idLt_asymm (h1 x hx)
    cases hi with
    | nil =>
      simp only [List.getElem?_nil, NextSpec]
      have : ¬ (none : Option Id) = some key := by simp
      simp only [this, if_false]
      intro x hx
      exact hlo_not x (by simpa [he] using hx)
    | cons y ys =>
      have hy := List.pairwise_cons.mp hshi
      simp only [List.getElem?_cons_zero, List.getElem?_cons_succ, Option.some.injEq]
      by_cases hyk : y = key
      · subst hyk
        simp only [if_true]
        cases ys with
        | nil =>
          simp only [List.getElem?_nil, NextSpec]
          intro x hx
          rcases (hmem x).mp hx with hxl | hxh
          · exact hlo_not x hxl
          · simp at hxh; subst hxh; exact idLt_irrefl _
        | cons z zs =>
          simp only [List.getElem?_cons_zero, NextSpec]
          have hz := List.pairwise_cons.mp hy.2
          refine ⟨(hmem z).mpr (Or.inr (by simp)), hy.1 z (by simp), fun x hx hkx => ?_⟩
          rcases (hmem x).mp hx with hxl | hxh
          · rw [hlo_not x hxl] at hkx; cases hkx
          · rcases List.mem_cons.mp hxh with rfl | hx'
            · rw [idLt_irrefl] at hkx; cases hkx
            · rcases List.mem_cons.mp hx' with rfl | hx''
              · exact Or.inl rfl
              · exact Or.inr (hz.1 x hx'')
      · simp only [hyk, if_false, NextSpec]
        have hky : idLt key y = true := by
          rcases idLe_of_not_lt (h2 y (by simp)) with h | h
          · exact absurd h.symm hyk
          · exact h
        refine ⟨(hmem y).mpr (Or.inr (by simp)), hky, fun x hx hkx => ?_⟩
        rcases (hmem x).mp hx with hxl | hxh
        · rw [hlo_not x hxl] at hkx; cases hkx
        · rcases List.mem_cons.mp hxh with rfl | hx'
          · exact Or.inl rfl
          · exact Or.inr (hy.1 x hx')

/-! ### combining segments -/

theorem prevSpec_append {S1 S2 : List Id} {key : Id} {r1 r2 : Option Id}
    (h1 : PrevSpec S1 key r1) (h2 : PrevSpec S2 key r2) : PrevSpec (S1 ++ S2) key (maxId r1 r2) := by
  cases r1 with
  | none =>
    cases r2 with
    | none =>
      simp only [maxId, PrevSpec] at *
      intro x hx
      rcases List.mem_append.mp hx with h | h
      · exact h1 x h
      · exact h2 x h
    | some b =>
      simp only [maxId, PrevSpec] at *
      refine ⟨by simp [h2.1], h2.2.1, fun x hx hxk => ?_⟩
      rcases List.mem_append.mp hx with h | h
      · rw [h1 x h] at hxk; cases hxk
      · exact h2.2.2 x h hxk
  | some a =>
    cases r2 with
    | none =>
      simp only [maxId, PrevSpec] at *
      refine ⟨by simp [h1.1], h1.2.1, fun x hx hxk => ?_⟩
      rcases List.mem_append.mp hx with h | h
      · exact h1.2.2 x h hxk
      · rw [h2 x h] at hxk; cases hxk
    | some b =>
      simp only [maxId, PrevSpec] at h1 h2 ⊢
      by_cases hab : idLt a b = true
      · simp only [hab, if_true]
        refine ⟨by simp [h2.1], h2.2.1, fun x hx hxk => ?_⟩
        rcases List.mem_append.mp hx with h | h
        · rcases h1.2.2 x h hxk with rfl | h'
          · exact Or.inr hab
          · exact Or.inr (idLt_trans h' hab)
        · exact h2.2.2 x h hxk
      · have hab' : idLt a b = false := by simpa using hab
        simp only [hab', Bool.false_eq_true, if_false]
        refine ⟨by simp [h1.1], h1.2.1, fun x hx hxk => ?_⟩
        rcases List.mem_append.mp hx with h | h
        · exact h1.2.2 x h hxk
        · have hba := idLe_of_not_lt hab'
          rcases h2.2.2 x h hxk with rfl | h'
          · exact hba
          · exact Or.inr (idLt_of_lt_of_le h' hba)

theorem nextSpec_append {S1 S2 : List Id} {key : Id} {r1 r2 : Option Id}
    (h1 : NextSpec S1 key r1) (h2 : NextSpec S2 key r2) : NextSpec (S1 ++ S2) key (minId r1 r2) := by
  cases r1 with
  | none =>
    cases r2 with
    | none =>
      simp only [minId, NextSpec] at *
      intro x hx
      rcases List.mem_append.mp hx with h | h
      · exact h1 x h
      · exact h2 x h
    | some b =>
      simp only [minId, NextSpec] at *
      refine ⟨by simp [h2.1], h2.2.1, fun x hx hxk => ?_⟩
      rcases List.mem_append.mp hx with h | h
      · rw [h1 x h] at hxk; cases hxk
      · exact h2.2.2 x h hxk
  | some a =>
    cases r2 with
    | none =>
      simp only [minId, NextSpec] at *
      refine ⟨by simp [h1.1], h1.2.1, fun x hx hxk => ?_⟩
      rcases List.mem_append.mp hx with h | h
      · exact h1.2.2 x h hxk
      · rw [h2 x h] at hxk; cases hxk
    | some b =>
      simp only [minId, NextSpec] at h1 h2 ⊢
      by_cases hba : idLt b a = true
      · simp only [hba, if_true]
        refine ⟨by simp [h2.1], h2.2.1, fun x hx hxk => ?_⟩
        rcases List.mem_append.mp hx with h | h
        · rcases h1.2.2 x h hxk with rfl | h'
          · exact Or.inr hba
          · exact Or.inr (idLt_trans hba h')
        · exact h2.2.2 x h hxk
      · have hba' : idLt b a = false := by simpa using hba
        simp only [hba', Bool.false_eq_true, if_false]
        refine ⟨by simp [h1.1], h1.2.1, fun x hx hxk => ?_⟩
        rcases List.mem_append.mp hx with h | h
        · exact h1.2.2 x h hxk
        · have hab := idLe_of_not_lt hba'
          rcases h2.2.2 x h hxk with rfl | h'
          · exact hab
          · exact Or.inr (idLt_of_le_of_lt hab h')

/-- neighbours computed per segment and combined with `max`/`min` are the neighbours in the
union of all segments -/
theorem resolveNeighbors_spec (tables : List (List Id)) (hs : ∀ t ∈ tables, Sorted t) (key : Id) :
    PrevSpec tables.flatten key (resolveNeighbors tables key).1 ∧
    NextSpec tables.flatten key (resolveNeighbors tables key).2 := by
  unfold resolveNeighbors
  have gen : ∀ (ts : List (List Id)) (done : List Id) (acc : Option Id × Option Id),
      (∀ t ∈ ts, Sorted t) → PrevSpec done key acc.1 → NextSpec done key acc.2 →
      PrevSpec (done ++ ts.flatten) key (ts.foldl (fun acc tbl =>
        let n := neighborsIn tbl key
        (maxId acc.1 n.1, minId acc.2 n.2)) acc).1 ∧
      NextSpec (done ++ ts.flatten) key (ts.foldl (fun acc tbl =>
        let n := neighborsIn tbl key
        (maxId acc.1 n.1, minId acc.2 n.2)) acc).2 := by
    intro ts
    induction ts with
    | nil => intro done acc _ h1 h2; simpa using ⟨h1, h2⟩
    | cons t ts ih =>
      intro done acc hst h1 h2
      obtain ⟨hp, hn⟩ := neighborsIn_spec (hst t (by simp)) key
      have := ih (done ++ t) (maxId acc.1 (neighborsIn t key).1, minId acc.2 (neighborsIn t key).2)
        (fun t' ht' => hst t' (by simp [ht'])) (prevSpec_append h1 hp) (nextSpec_append h2 hn)
      simpa [List.append_assoc] using this
  have := gen tables [] (none, none) hs (by simp [PrevSpec]) (by simp [NextSpec])
  simpa using this

end JjModel.IdPrefix
