import JjModel.Lemmas.EvolutionVisit
/-!
  The whole stream (`walkFrom`) on a recorded, fresh operation log.
-/
namespace JjModel.Evolution

/-- the operation log as walked: `commit_predecessors` of each operation, newest first -/
abbrev Log := List (Option PMap)

/-- `c` was rewritten from `p` according to some operation of the log -/
def LEdge (ops : Log) (c p : Nat) : Prop := ∃ m, some m ∈ ops ∧ Edge m c p

/-- some operation of the log records the creation of `c` -/
def LKey (ops : Log) (c : Nat) : Prop := ∃ m, some m ∈ ops ∧ m.isKey c = true

/-- transitive predecessors of the start set `S` (including `S`) -/
inductive LReach (ops : Log) (S : List Nat) : Nat → Prop
  | base {x} : x ∈ S → LReach ops S x
  | step {c p} : LReach ops S c → LEdge ops c p → LReach ops S p

/-- Every operation stores predecessors, and every commit some commit was rewritten from has a
creation record itself. -/
def Recorded (ops : Log) : Prop :=
  (∀ o, o ∈ ops → o ≠ none) ∧ (∀ c p, LEdge ops c p → LKey ops p)

/-- The commits created by an operation do not occur (neither as created nor as predecessor) in
the operations listed after it (its ancestors, and concurrent operations). -/
def FreshAcross : Log → Prop
  | [] => True
  | o :: rest =>
    (∀ m, o = some m → ∀ k, m.isKey k = true → ¬ LKey rest k ∧ ∀ c, ¬ LEdge rest c k) ∧
    FreshAcross rest

/-- `FreshAcross`, and inside one operation commits are rewritten from older ones only. -/
def Fresh (ops : Log) : Prop := FreshAcross ops ∧ ∀ m, some m ∈ ops → WithinAcyclic m

def commits (es : List Entry) : List Nat := es.map (·.commit)

theorem LEdge.tail {o : Option PMap} {rest : Log} {c p : Nat} (h : LEdge rest c p) :
    LEdge (o :: rest) c p := by
  obtain ⟨m, hm, he⟩ := h
  exact ⟨m, List.mem_cons_of_mem _ hm, he⟩

theorem LEdge.cons_iff {m : PMap} {rest : Log} {c p : Nat} :
    LEdge (some m :: rest) c p ↔ Edge m c p ∨ LEdge rest c p := by
  constructor
  · rintro ⟨m', hm', he⟩
    rcases List.mem_cons.mp hm' with h | h
    · have : m' = m := by simpa using h
      subst this; exact Or.inl he
    · exact Or.inr ⟨m', h, he⟩
  · rintro (h | h)
    · exact ⟨m, by simp, h⟩
    · exact h.tail

theorem LKey.cons_iff {m : PMap} {rest : Log} {c : Nat} :
    LKey (some m :: rest) c ↔ m.isKey c = true ∨ LKey rest c := by
  constructor
  · rintro ⟨m', hm', he⟩
    rcases List.mem_cons.mp hm' with h | h
    · have : m' = m := by simpa using h
      subst this; exact Or.inl he
    · exact Or.inr ⟨m', h, he⟩
  · rintro (h | h)
    · exact ⟨m, by simp, h⟩
    · obtain ⟨m', hm', he⟩ := h
      exact ⟨m', List.mem_cons_of_mem _ hm', he⟩

theorem LReach.trans {ops : Log} {S T : List Nat} {x : Nat} (h : LReach ops S x)
    (hst : ∀ s, s ∈ S → LReach ops T s) : LReach ops T x := by
  induction h with
  | base hx => exact hst _ hx
  | step _ he ih => exact .step ih he

theorem LReach.tail {o : Option PMap} {rest : Log} {S : List Nat} {x : Nat} (h : LReach rest S x) :
    LReach (o :: rest) S x := by
  induction h with
  | base hx => exact .base hx
  | step _ he ih => exact .step ih he.tail

theorem LReach.of_reach {m : PMap} {rest : Log} {S : List Nat} {x : Nat} (h : Reach m S x) :
    LReach (some m :: rest) S x := by
  induction h with
  | base hx => exact .base hx
  | step _ he ih => exact .step ih (LEdge.cons_iff.mpr (Or.inl he))

/-- a commit nobody in `ops` was rewritten from is reachable only if it is a start commit -/
theorem LReach.mem_of_no_edge {ops : Log} {S : List Nat} {x : Nat} (h : LReach ops S x)
    (hno : ∀ c, ¬ LEdge ops c x) : x ∈ S := by
  cases h with
  | base hx => exact hx
  | step _ he => exact absurd he (hno _)

theorem Recorded.tail {m : PMap} {rest : Log} (hrec : Recorded (some m :: rest))
    (hfresh : FreshAcross (some m :: rest)) : Recorded rest := by
  refine ⟨fun o ho => hrec.1 o (List.mem_cons_of_mem _ ho), ?_⟩
  intro c p he
  rcases LKey.cons_iff.mp (hrec.2 c p he.tail) with h | h
  · exact absurd he ((hfresh.1 m rfl p h).2 c)
  · exact h

theorem Fresh.tail {o : Option PMap} {rest : Log} (h : Fresh (o :: rest)) : Fresh rest :=
  ⟨h.1.2, fun m hm => h.2 m (List.mem_cons_of_mem _ hm)⟩

/-- What the stream lists, on a recorded and fresh log, when the commits of `to_visit` without a
creation record are pairwise distinct. -/
structure WalkSpec (ops : Log) (tv : List Nat) (r : List Entry × Option Nat) : Prop where
  no_error : r.2 = none
  nodup : (commits r.1).Nodup
  complete : ∀ c, c ∈ commits r.1 ↔ LReach ops tv c
  order : ∀ c p, c ∈ commits r.1 → LEdge ops c p → Later (commits r.1) c p
  entries : ∀ e, e ∈ r.1 → ∀ p, p ∈ e.preds → LEdge ops e.commit p

theorem walkFrom_spec (ops : Log) : ∀ (k : Nat) (tv : List Nat), Recorded ops → Fresh ops →
    (∀ x, x ∈ tv → ¬ LKey ops x → tv.count x ≤ 1) → WalkSpec ops tv (walkFrom ops k tv) := by
  induction ops with
  | nil =>
    intro k tv _ _ htv
    have hnk : ∀ x, ¬ LKey [] x := by rintro x ⟨m, hm, _⟩; simp at hm
    have hne : ∀ c p, ¬ LEdge [] c p := by rintro c p ⟨m, hm, _⟩; simp at hm
    have hcom : commits (flush tv) = tv := by
      simp [commits, flush, List.map_map, Function.comp_def]
    refine ⟨rfl, ?_, ?_, ?_, ?_⟩
    · simp only [walkFrom, hcom]
      refine List.nodup_iff_count.mpr (fun a => ?_)
      by_cases ha : a ∈ tv
      · exact htv a ha (hnk a)
      · simp [List.count_eq_zero_of_not_mem ha]
    · intro c
      simp only [walkFrom, hcom]
      constructor
      · exact fun h => .base h
      · intro h
        exact h.mem_of_no_edge (fun c' => hne c' c)
    · intro c p _ he; exact absurd he (hne c p)
    · intro e he p hp
      simp [walkFrom, flush] at he
      obtain ⟨a, _, rfl⟩ := he
      simp at hp
  | cons o rest ih =>
    intro k tv hrec hfresh htv
    cases o with
    | none => exact absurd rfl (hrec.1 none (by simp))
    | some m =>
      by_cases hemp : tv = []
      · subst hemp
        refine ⟨by simp [walkFrom], by simp [walkFrom, commits], ?_, ?_, ?_⟩
        · intro c
          simp only [walkFrom, List.isEmpty_nil, if_true, commits, List.map_nil, List.not_mem_nil,
            false_iff]
          intro h
          induction h with
          | base hx => simp at hx
          | step _ _ ih => exact ih
        · intro c p hc; simp [walkFrom, commits] at hc
        · intro e he; simp [walkFrom] at he
      · have hac := hfresh.2 m (by simp)
        obtain ⟨tv', ids, hv, spec⟩ := visitOp_spec m hac tv
        have hfa := hfresh.1.1 m rfl
        have hrec' := hrec.tail hfresh.1
        have hfresh' := hfresh.tail
        -- commits left in `to_visit` without a creation record are still distinct
        have htv' : ∀ x, x ∈ tv' → ¬ LKey rest x → tv'.count x ≤ 1 := by
          intro x hx hnk
          have hxk := spec.nokey x hx
          have hnk' : ¬ LKey (some m :: rest) x := by
            intro h
            rcases LKey.cons_iff.mp h with h | h
            · simp [hxk] at h
            · exact hnk h
          have hne : ∀ c, ¬ Edge m c x := by
            intro c he
            exact hnk' (hrec.2 c x (LEdge.cons_iff.mpr (Or.inl he)))
          have hcnt := spec.count x hxk hne
          have hpos : 0 < tv.count x := by rw [← hcnt]; exact List.count_pos_iff.mpr hx
          have := htv x (List.count_pos_iff.mp hpos) hnk'
          omega
        have IH := ih (k + 1) tv' hrec' hfresh' htv'
        -- the stream: this operation's commits, then the rest
        have hwalk : walkFrom (some m :: rest) k tv =
            (ids.map (fun c => (⟨c, some k, m.nbrs c⟩ : Entry)) ++ (walkFrom rest (k + 1) tv').1,
              (walkFrom rest (k + 1) tv').2) := by
          have : tv.isEmpty = false := by
            cases tv with
            | nil => exact absurd rfl hemp
            | cons _ _ => rfl
          simp [walkFrom, this, hv]
        have hcom : commits (walkFrom (some m :: rest) k tv).1 =
            ids ++ commits (walkFrom rest (k + 1) tv').1 := by
          rw [hwalk]
          simp [commits, List.map_map, Function.comp_def]
        -- commits listed for the older operations are not keys of this one
        have hold : ∀ c, c ∈ commits (walkFrom rest (k + 1) tv').1 → m.isKey c = false := by
          intro c hc
          cases hk : m.isKey c with
          | false => rfl
          | true =>
            exfalso
            have hr := (IH.complete c).mp hc
            have := hr.mem_of_no_edge (hfa c hk).2
            have := spec.nokey c this
            simp [hk] at this
        refine ⟨?_, ?_, ?_, ?_, ?_⟩
        · rw [hwalk]; exact IH.no_error
        · rw [hcom]
          refine List.nodup_append.mpr ⟨spec.nodup, IH.nodup, ?_⟩
          intro a ha b hb hab
          subst hab
          have := hold a hb
          simp [spec.keys a ha] at this
        · intro c
          rw [hcom]
          constructor
          · intro hc
            rcases List.mem_append.mp hc with h | h
            · exact LReach.of_reach (spec.sound c (Or.inl h))
            · refine ((IH.complete c).mp h).tail.trans ?_
              intro s hs
              exact LReach.of_reach (spec.sound s (Or.inr hs))
          · intro hr
            induction hr with
            | @base x hx =>
              cases hk : m.isKey x with
              | true => exact List.mem_append.mpr (Or.inl (spec.cover_key x hx hk))
              | false =>
                exact List.mem_append.mpr
                  (Or.inr ((IH.complete x).mpr (.base (spec.cover_nokey x hx hk))))
            | @step x p _ he ih2 =>
              rcases List.mem_append.mp ih2 with hx | hx
              · -- `x` is listed for this operation: the edge is one of this operation
                rcases LEdge.cons_iff.mp he with he' | he'
                · cases hk : m.isKey p with
                  | true =>
                    exact List.mem_append.mpr (Or.inl (spec.edge_key x hx p he' hk).mem_right)
                  | false =>
                    exact List.mem_append.mpr
                      (Or.inr ((IH.complete p).mpr (.base (spec.edge_nokey x hx p he' hk))))
                · obtain ⟨m', hm', he''⟩ := he'
                  exact absurd ⟨m', hm', he''.isKey⟩ (hfa x (spec.keys x hx)).1
              · rcases LEdge.cons_iff.mp he with he' | he'
                · have := hold x hx
                  simp [he'.isKey] at this
                · exact List.mem_append.mpr
                    (Or.inr ((IH.complete p).mpr (.step ((IH.complete x).mp hx) he')))
        · intro c p hc he
          rw [hcom] at hc ⊢
          rcases List.mem_append.mp hc with hx | hx
          · rcases LEdge.cons_iff.mp he with he' | he'
            · cases hk : m.isKey p with
              | true => exact (spec.edge_key c hx p he' hk).append_left
              | false =>
                exact Later.cross hx ((IH.complete p).mpr (.base (spec.edge_nokey c hx p he' hk)))
            · obtain ⟨m', hm', he''⟩ := he'
              exact absurd ⟨m', hm', he''.isKey⟩ (hfa c (spec.keys c hx)).1
          · rcases LEdge.cons_iff.mp he with he' | he'
            · have := hold c hx
              simp [he'.isKey] at this
            · exact (IH.order c p hx he').append_right
        · intro e he p hp
          rw [hwalk] at he
          rcases List.mem_append.mp he with h | h
          · simp only [List.mem_map] at h
            obtain ⟨c, _, rfl⟩ := h
            exact LEdge.cons_iff.mpr (Or.inl hp)
          · exact (IH.entries e h p hp).tail

end JjModel.Evolution
