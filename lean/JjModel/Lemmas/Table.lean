import JjModel.Model.Table
/-!
  Lemmas about the stacked-table model: association-list lookups, `merge_in`, squashing, `save_in`.
  Core Lean only.
-/
namespace JjModel.Table

/-! ### association lists -/

theorem lookup_insert (k v : Nat) (es : Entries) (k' : Nat) :
    lookup (insert k v es) k' = if k' = k then some v else lookup es k' := by
  fun_induction insert k v es <;> grind [lookup]

/-- the last binding of `k` in `es` (what survives when the entries are inserted in order) -/
def lookupLast : Entries → Nat → Option Nat
  | [], _ => none
  | (k', v) :: r, k =>
    match lookupLast r k with
    | some w => some w
    | none => if k = k' then some v else none

theorem lookup_insertAll (es acc : Entries) (k : Nat) :
    lookup (insertAll es acc) k = match lookupLast es k with
      | some v => some v
      | none => lookup acc k := by
  unfold insertAll
  induction es generalizing acc with
  | nil => simp [lookupLast]
  | cons e r ih =>
    obtain ⟨k', v⟩ := e
    simp only [List.foldl_cons, lookupLast]
    rw [ih]
    cases h : lookupLast r k with
    | some w => simp
    | none => simp [lookup_insert]; split <;> simp_all

/-- sorted with unique keys (what a `BTreeMap` iteration yields) -/
def Sorted (es : Entries) : Prop := es.Pairwise (fun a b => a.1 < b.1)

theorem lookup_none_of_lt {es : Entries} {k : Nat} (h : ∀ e ∈ es, k < e.1) : lookup es k = none := by
  induction es with
  | nil => rfl
  | cons e r ih =>
    obtain ⟨k', v⟩ := e
    have h1 := h (k', v) (by simp)
    simp only [lookup]
    rw [if_neg (by simp at h1; omega)]
    exact ih (fun e he => h e (by simp [he]))

theorem lookupLast_eq_lookup {es : Entries} (hs : Sorted es) (k : Nat) : lookupLast es k = lookup es k := by
  induction es with
  | nil => rfl
  | cons e r ih =>
    obtain ⟨k', v⟩ := e
    have hs' := List.pairwise_cons.mp hs
    simp only [lookupLast, lookup]
    rw [ih hs'.2]
    by_cases hk : k = k'
    · subst hk
      rw [lookup_none_of_lt (fun e he => hs'.1 e he)]
    · simp only [hk, if_false]; cases lookup r k <;> rfl

theorem mem_insert {k v : Nat} {es : Entries} {e : Nat × Nat} (h : e ∈ insert k v es) :
    e = (k, v) ∨ e ∈ es := by
  fun_induction insert k v es <;> grind

theorem sorted_insert (k v : Nat) {es : Entries} (hs : Sorted es) : Sorted (insert k v es) := by
  unfold Sorted at *
  fun_induction insert k v es with
  | case1 => simp
  | case2 k' v' r hlt =>
    have h' := List.pairwise_cons.mp hs
    refine List.pairwise_cons.mpr ⟨?_, hs⟩
    intro e he
    simp only [List.mem_cons] at he
    rcases he with rfl | he
    · exact hlt
    · have := h'.1 e he; simp at this ⊢; omega
  | case3 v' r hlt =>
    have h' := List.pairwise_cons.mp hs
    exact List.pairwise_cons.mpr ⟨h'.1, h'.2⟩
  | case4 k' v' r hlt hne ih =>
    have h' := List.pairwise_cons.mp hs
    refine List.pairwise_cons.mpr ⟨?_, ih h'.2⟩
    intro e he
    rcases mem_insert he with rfl | he
    · simp; omega
    · exact h'.1 e he

theorem sorted_insertAll (es : Entries) {acc : Entries} (hs : Sorted acc) : Sorted (insertAll es acc) := by
  unfold insertAll
  induction es generalizing acc with
  | nil => exact hs
  | cons e r ih => exact ih (sorted_insert _ _ hs)

theorem sorted_nil : Sorted [] := List.Pairwise.nil

/-! ### key presence -/

def hasKey (t : Table) (k : Nat) : Prop := getValue t k ≠ none
def Mut.hasKey (m : Mut) (k : Nat) : Prop := m.getValue k ≠ none

/-- `a ≤ b`: every key found from `a` is found from `b` -/
def le (a b : Table) : Prop := ∀ k, hasKey a k → hasKey b k

theorem le_refl (a : Table) : le a a := fun _ h => h
theorem le_trans {a b c : Table} (h1 : le a b) (h2 : le b c) : le a c := fun k h => h2 k (h1 k h)

theorem hasKey_cons (seg : Entries) (p : Table) (k : Nat) :
    hasKey (seg :: p) k ↔ lookup seg k ≠ none ∨ hasKey p k := by
  unfold hasKey; simp only [getValue]
  cases lookup seg k <;> simp

theorem Mut.hasKey_iff (m : Mut) (k : Nat) : m.hasKey k ↔ lookup m.entries k ≠ none ∨ JjModel.Table.hasKey m.parent k := by
  unfold Mut.hasKey Mut.getValue JjModel.Table.hasKey
  cases lookup m.entries k <;> simp

theorem lookupLast_ne_none_iff (es : Entries) (k : Nat) : lookupLast es k ≠ none ↔ lookup es k ≠ none := by
  induction es with
  | nil => simp [lookupLast, lookup]
  | cons e r ih =>
    obtain ⟨k', v⟩ := e
    simp only [lookupLast, lookup]
    by_cases hk : k = k'
    · simp [hk]; cases lookupLast r k' <;> simp
    · simp only [hk, if_false]; rw [← ih]; cases lookupLast r k <;> simp

theorem lookup_insertAll_ne_none (es acc : Entries) (k : Nat) :
    lookup (insertAll es acc) k ≠ none ↔ lookup es k ≠ none ∨ lookup acc k ≠ none := by
  rw [lookup_insertAll, ← lookupLast_ne_none_iff]
  cases lookupLast es k <;> simp

theorem lookup_addFiles_ne_none (files : List Entries) (acc : Entries) (k : Nat) :
    lookup (addFiles files acc) k ≠ none ↔ (∃ f ∈ files, lookup f k ≠ none) ∨ lookup acc k ≠ none := by
  unfold addFiles
  induction files generalizing acc with
  | nil => simp
  | cons f r ih =>
    simp only [List.foldl_cons]
    rw [ih, lookup_insertAll_ne_none]
    constructor
    · rintro (⟨g, hg, h⟩ | h | h)
      · exact Or.inl ⟨g, by simp [hg], h⟩
      · exact Or.inl ⟨f, by simp, h⟩
      · exact Or.inr h
    · rintro (⟨g, hg, h⟩ | h)
      · simp only [List.mem_cons] at hg
        rcases hg with rfl | hg
        · exact Or.inr (Or.inl h)
        · exact Or.inl ⟨g, hg, h⟩
      · exact Or.inr (Or.inr h)

/-! ### chains -/

theorem hasKey_nil (k : Nat) : ¬ hasKey [] k := by simp [hasKey, getValue]

theorem hasKey_append (a b : Table) (k : Nat) :
    hasKey (a ++ b) k ↔ (∃ f ∈ a, lookup f k ≠ none) ∨ hasKey b k := by
  induction a with
  | nil => simp
  | cons f r ih =>
    rw [List.cons_append, hasKey_cons, ih]
    constructor
    · rintro (h | ⟨g, hg, h⟩ | h)
      · exact Or.inl ⟨f, by simp, h⟩
      · exact Or.inl ⟨g, by simp [hg], h⟩
      · exact Or.inr h
    · rintro (⟨g, hg, h⟩ | h)
      · simp only [List.mem_cons] at hg
        rcases hg with rfl | hg
        · exact Or.inl h
        · exact Or.inr (Or.inl ⟨g, hg, h⟩)
      · exact Or.inr (Or.inr h)

theorem hasKey_of_suffix {a b : Table} (h : a <:+ b) {k : Nat} (hk : hasKey a k) : hasKey b k := by
  obtain ⟨pre, rfl⟩ := h
  exact (hasKey_append pre a k).mpr (Or.inr hk)

theorem getValue_append (a b : Table) (k : Nat) :
    getValue (a ++ b) k = match getValue a k with
      | some v => some v
      | none => getValue b k := by
  induction a with
  | nil => simp [getValue]
  | cons f r ih =>
    simp only [List.cons_append, getValue]
    cases lookup f k with
    | some v => rfl
    | none => simpa using ih

/-! ### `merge_in` -/

theorem advance_suffix (own oth : Table) : advance own oth <:+ own := by
  fun_induction advance own oth with
  | case1 => exact List.suffix_refl _
  | case2 => exact List.suffix_refl _
  | case3 => exact List.suffix_refl _
  | case4 a ar oth _ _ ih => exact List.IsSuffix.trans ih (List.suffix_cons a ar)

/-- every key of `other`'s chain is in a file that `merge_in` adds, or was already reachable through
    the common ancestor in `own`'s chain -/
theorem walk_covers (own other : Table) (k : Nat) (h : hasKey other k) :
    (∃ f ∈ walk own other, lookup f k ≠ none) ∨ hasKey own k := by
  fun_induction walk own other with
  | case1 => exact absurd h (hasKey_nil k)
  | case2 own o orest own' heq =>
    right
    have : hasKey own' k := by rw [heq]; exact h
    exact hasKey_of_suffix (advance_suffix own (o :: orest)) this
  | case3 own o orest own' hne ih =>
    rcases (hasKey_cons o orest k).mp h with h1 | h2
    · exact Or.inl ⟨o, by simp, h1⟩
    · rcases ih h2 with ⟨f, hf, hk⟩ | hk
      · exact Or.inl ⟨f, by simp [hf], hk⟩
      · exact Or.inr (hasKey_of_suffix (advance_suffix own (o :: orest)) hk)

theorem mergeIn_parent (m : Mut) (other : Table) : (mergeIn m other).parent = m.parent := rfl

theorem mergeIn_keeps (m : Mut) (other : Table) (k : Nat) (h : m.hasKey k) : (mergeIn m other).hasKey k := by
  rw [Mut.hasKey_iff] at h ⊢
  rcases h with h | h
  · left; simp only [mergeIn]; exact (lookup_addFiles_ne_none _ _ k).mpr (Or.inr h)
  · exact Or.inr h

/-- `merge_in_contains`: after `self.merge_in(other)` every key of `other`'s chain is found -/
theorem mergeIn_contains (m : Mut) (other : Table) (k : Nat) (h : hasKey other k) :
    (mergeIn m other).hasKey k := by
  rw [Mut.hasKey_iff]
  rcases walk_covers m.parent other k h with ⟨f, hf, hk⟩ | hk
  · left; simp only [mergeIn]
    exact (lookup_addFiles_ne_none _ _ k).mpr (Or.inl ⟨f, by simp [hf], hk⟩)
  · exact Or.inr hk

theorem foldl_mergeIn_keeps (rest : List Table) (m : Mut) (k : Nat) (h : m.hasKey k) :
    (rest.foldl mergeIn m).hasKey k := by
  induction rest generalizing m with
  | nil => exact h
  | cons t r ih => exact ih _ (mergeIn_keeps m t k h)

theorem foldl_mergeIn_contains (rest : List Table) (m : Mut) (k : Nat) {t : Table} (ht : t ∈ rest)
    (h : hasKey t k) : (rest.foldl mergeIn m).hasKey k := by
  induction rest generalizing m with
  | nil => simp at ht
  | cons u r ih =>
    simp only [List.mem_cons] at ht
    rcases ht with rfl | ht
    · exact foldl_mergeIn_keeps r _ k (mergeIn_contains m t k h)
    · exact ih _ ht

/-! ### squashing and `save_in` -/

theorem squashScan_append (n : Nat) (t : Table) : (squashScan n t).1 ++ (squashScan n t).2 = t := by
  fun_induction squashScan n t with
  | case1 => rfl
  | case2 => rfl
  | case3 n p rest _ r ih => simp [r, ih]

theorem maybeSquash_hasKey (m : Mut) (k : Nat) : (maybeSquash m).hasKey k ↔ m.hasKey k := by
  unfold maybeSquash
  simp only
  split
  · rfl
  · rw [Mut.hasKey_iff, Mut.hasKey_iff]
    simp only
    rw [lookup_insertAll_ne_none, lookup_addFiles_ne_none]
    have happ := hasKey_append (squashScan m.entries.length m.parent).1 (squashScan m.entries.length m.parent).2 k
    rw [squashScan_append] at happ
    rw [happ]
    simp only [List.mem_reverse, lookup, ne_eq, not_true_eq_false, or_false]
    constructor
    · rintro ((h | h) | h)
      · exact Or.inl h
      · exact Or.inr (Or.inl h)
      · exact Or.inr (Or.inr h)
    · rintro (h | h | h)
      · exact Or.inl (Or.inl h)
      · exact Or.inl (Or.inr h)
      · exact Or.inr h

theorem saveIn_hasKey (m : Mut) (k : Nat) : hasKey (saveIn m) k ↔ m.hasKey k := by
  unfold saveIn
  split
  · rename_i h
    simp only [Bool.and_eq_true, List.isEmpty_iff] at h
    rw [Mut.hasKey_iff, h.1]
    simp [lookup]
  · rw [hasKey_cons, ← Mut.hasKey_iff, maybeSquash_hasKey]

theorem mutate_hasKey (base : Table) (es : Entries) (k : Nat) :
    (mutate base es).hasKey k ↔ lookup es k ≠ none ∨ hasKey base k := by
  rw [Mut.hasKey_iff]; simp only [mutate]
  rw [lookup_insertAll_ne_none]; simp [lookup]

/-- the saved table covers its base (a stale head's entries are never dropped by a save) -/
theorem le_save (base : Table) (es : Entries) : le base (saveIn (mutate base es)) := by
  intro k h
  exact (saveIn_hasKey _ k).mpr ((mutate_hasKey base es k).mpr (Or.inr h))

theorem save_has_entries (base : Table) (es : Entries) (k : Nat) (h : lookup es k ≠ none) :
    hasKey (saveIn (mutate base es)) k :=
  (saveIn_hasKey _ k).mpr ((mutate_hasKey base es k).mpr (Or.inl h))

/-- the merged table of `get_head_locked` covers every head that was read -/
theorem le_mergeHeads (t0 : Table) (rest : List Table) {t : Table} (ht : t ∈ t0 :: rest) :
    le t (mergeHeads t0 rest) := by
  intro k h
  unfold mergeHeads
  rw [saveIn_hasKey]
  simp only [List.mem_cons] at ht
  rcases ht with rfl | ht
  · apply foldl_mergeIn_keeps
    rw [Mut.hasKey_iff]; exact Or.inr h
  · exact foldl_mergeIn_contains rest _ k ht h

end JjModel.Table
