import JjModel.Lemmas.WorkingCopy
/-!
  Lemmas about `TreeState::update` in the working-copy model: `create_parent_dirs`, the parent
  clean-up loop, one `process_diff_entry` step, sequences of steps, the diff.  Core Lean only.
-/
namespace JjModel.WorkingCopy



/-! ### `create_parent_dirs` -/

theorem between_ne_first_of_gt {pre : Path} {c c' : String} {rest : List String} {a : Path}
    (h : Between pre (c :: c' :: rest) a) (hne : a ≠ pre ++ [c]) : Between (pre ++ [c]) (c' :: rest) a := by
  obtain ⟨h1, h2, h3, h4⟩ := h
  have hpre : pre ++ [c] <+: a := by
    rcases List.prefix_or_prefix_of_prefix (show pre ++ [c] <+: pre ++ c :: c' :: rest from ⟨c' :: rest, by simp⟩) h2 with h | h
    · exact h
    · exfalso
      have l1 := h1.length_le
      have l2 := h.length_le
      simp at l2
      have : a.length = pre.length ∨ a.length = pre.length + 1 := by omega
      rcases this with e | e
      · exact h3 (List.IsPrefix.eq_of_length h1 e.symm).symm
      · exact hne (List.IsPrefix.eq_of_length h (by simp [e]))
  exact ⟨hpre, by simpa using h2, hne, by simpa using h4⟩

theorem not_between_nil {pre a : Path} : ¬ Between pre [] a := by
  intro ⟨h1, h2, h3, h4⟩
  have l1 := h1.length_le; have l2 := h2.length_le; simp at l2
  exact h3 (List.IsPrefix.eq_of_length h1 (by omega)).symm

theorem not_between_singleton {pre a : Path} {c : String} : ¬ Between pre [c] a := by
  intro ⟨h1, h2, h3, h4⟩
  have l1 := h1.length_le; have l2 := h2.length_le; simp at l2
  have : a.length = pre.length ∨ a.length = pre.length + 1 := by omega
  rcases this with e | e
  · exact h3 (List.IsPrefix.eq_of_length h1 e.symm).symm
  · exact h4 (List.IsPrefix.eq_of_length h2 (by simp [e]))

/-- existing entries are never changed by `create_parent_dirs` -/
theorem cpd_get_some (disk : Disk) (pre : Path) (rest : List String) {d' : Disk}
    (h : createParentDirs disk pre rest = some d') {q : Path} {x : Entry} (hq : get disk q = some x) :
    get d' q = some x := by
  fun_induction createParentDirs disk pre rest generalizing d' with
  | case1 => simp at h; subst h; exact hq
  | case2 => simp at h; subst h; exact hq
  | case3 disk pre c c' rest hn ih =>
    apply ih h
    have : q ≠ pre ++ [c] := by intro e; subst e; rw [hn] at hq; simp at hq
    rw [get_set_ne this]; exact hq
  | case4 disk pre c c' rest hd ih => exact ih h hq
  | case5 => simp at h

/-- what `create_parent_dirs` adds: directories at missing proper ancestors -/
theorem cpd_get (disk : Disk) (pre : Path) (rest : List String) {d' : Disk}
    (h : createParentDirs disk pre rest = some d') (q : Path) :
    get d' q = get disk q ∨ (get disk q = none ∧ get d' q = some .dir ∧ Between pre rest q) := by
  fun_induction createParentDirs disk pre rest generalizing d' with
  | case1 => simp at h; subst h; exact Or.inl rfl
  | case2 => simp at h; subst h; exact Or.inl rfl
  | case3 disk pre c c' rest hn ih =>
    rcases ih h with h1 | ⟨h1, h2, h3⟩
    · by_cases e : q = pre ++ [c]
      · subst e
        right
        refine ⟨hn, ?_, between_first pre c c' rest⟩
        rw [h1, get_set_self]
      · left; rw [h1, get_set_ne e]
    · by_cases e : q = pre ++ [c]
      · subst e; rw [get_set_self] at h1; simp at h1
      · right; rw [get_set_ne e] at h1; exact ⟨h1, h2, between_step h3⟩
  | case4 disk pre c c' rest hd ih =>
    rcases ih h with h1 | ⟨h1, h2, h3⟩
    · exact Or.inl h1
    · exact Or.inr ⟨h1, h2, between_step h3⟩
  | case5 => simp at h

/-- after `create_parent_dirs` every proper ancestor is a directory -/
theorem cpd_parents (disk : Disk) (pre : Path) (rest : List String) {d' : Disk}
    (h : createParentDirs disk pre rest = some d') {a : Path} (ha : Between pre rest a) :
    get d' a = some .dir := by
  fun_induction createParentDirs disk pre rest generalizing d' with
  | case1 => exact absurd ha not_between_nil
  | case2 => exact absurd ha not_between_singleton
  | case3 disk pre c c' rest hn ih =>
    by_cases e : a = pre ++ [c]
    · subst e; exact cpd_get_some _ _ _ h (get_set_self _ _ _)
    · exact ih h (between_ne_first_of_gt ha e)
  | case4 disk pre c c' rest hd ih =>
    by_cases e : a = pre ++ [c]
    · subst e; exact cpd_get_some _ _ _ h hd
    · exact ih h (between_ne_first_of_gt ha e)
  | case5 => simp at h

/-- a file or symlink at a proper ancestor makes `create_parent_dirs` refuse -/
theorem cpd_none_of_leaf (disk : Disk) (pre : Path) (rest : List String) {a : Path} {x : Entry}
    (ha : Between pre rest a) (hx : get disk a = some x) (hne : x ≠ .dir) :
    createParentDirs disk pre rest = none := by
  fun_induction createParentDirs disk pre rest with
  | case1 => exact absurd ha not_between_nil
  | case2 => exact absurd ha not_between_singleton
  | case3 disk pre c c' rest hn ih =>
    have e : a ≠ pre ++ [c] := by intro e; subst e; rw [hn] at hx; simp at hx
    apply ih (between_ne_first_of_gt ha e)
    rw [get_set_ne e]; exact hx
  | case4 disk pre c c' rest hd ih =>
    have e : a ≠ pre ++ [c] := by intro e; subst e; rw [hd] at hx; exact hne (Option.some.inj hx).symm
    exact ih (between_ne_first_of_gt ha e) hx
  | case5 => rfl

/-- conversely, a refusal is caused by a file or symlink at a proper ancestor -/
theorem cpd_none_leaf (disk : Disk) (pre : Path) (rest : List String)
    (h : createParentDirs disk pre rest = none) :
    ∃ a x, Between pre rest a ∧ get disk a = some x ∧ x ≠ .dir := by
  fun_induction createParentDirs disk pre rest with
  | case1 => simp at h
  | case2 => simp at h
  | case3 disk pre c c' rest hn ih =>
    obtain ⟨a, x, h1, h2, h3⟩ := ih h
    have e : a ≠ pre ++ [c] := by intro e; subst e; rw [get_set_self] at h2; exact h3 (Option.some.inj h2).symm
    rw [get_set_ne e] at h2
    exact ⟨a, x, between_step h1, h2, h3⟩
  | case4 disk pre c c' rest hd ih =>
    obtain ⟨a, x, h1, h2, h3⟩ := ih h
    exact ⟨a, x, between_step h1, h2, h3⟩
  | case5 disk pre c c' rest x hnd hx =>
    exact ⟨pre ++ [c], x, between_first pre c c' rest, hx, hnd⟩

/-! ### the parent clean-up loop -/

theorem cleanup_get (disk : Disk) (rev : List String) (q : Path) :
    get (cleanupParents disk rev) q = get disk q ∨
      (get disk q = some .dir ∧ get (cleanupParents disk rev) q = none) := by
  fun_induction cleanupParents disk rev with
  | case1 => exact Or.inl rfl
  | case2 disk c rev d hd hc => exact Or.inl rfl
  | case3 disk c rev d hd hc ih =>
    by_cases e : q = d
    · subst e
      rcases ih with h | ⟨h, _⟩
      · right; rw [get_del_self] at h; exact ⟨hd, h⟩
      · rw [get_del_self] at h; simp at h
    · rcases ih with h | ⟨h1, h2⟩
      · left; rw [h, get_del_ne e]
      · right; rw [get_del_ne e] at h1; exact ⟨h1, h2⟩
  | case4 disk c rev d hx => exact Or.inl rfl


/-! ### one `update` step -/

theorem removeOldFile_get (disk : Disk) (p q : Path) (h : q ≠ p) :
    get (removeOldFile disk p).2 q = get disk q := by
  unfold removeOldFile
  split <;> simp [get_del_ne h]

theorem removeOldFile_self (disk : Disk) (p : Path) :
    ((removeOldFile disk p).1 = true ∧ get (removeOldFile disk p).2 p = none ∧ ∃ x, get disk p = some x ∧ x ≠ .dir) ∨
    ((removeOldFile disk p).1 = false ∧ (removeOldFile disk p).2 = disk ∧ (get disk p = none ∨ get disk p = some .dir)) := by
  unfold removeOldFile
  split
  · left; rename_i h; exact ⟨rfl, get_del_self _ _, _, h, by simp⟩
  · left; rename_i h; exact ⟨rfl, get_del_self _ _, _, h, by simp⟩
  · right
    rename_i h1 h2
    refine ⟨rfl, rfl, ?_⟩
    cases hd : get disk p with
    | none => exact Or.inl rfl
    | some x =>
      cases x with
      | dir => exact Or.inr rfl
      | file c b => exact absurd hd (h1 c b)
      | symlink t => exact absurd hd (h2 t)

/-- the state right before the write/remove decision of `step`: parents created, old file removed -/
def prepared (_u : UState) (e : DiffEntry) (d1 : Disk) : Bool × Disk :=
  if e.before.isSome then removeOldFile d1 e.path else (false, d1)

theorem step_skipParent {u : UState} {e : DiffEntry} (h : createParentDirs u.disk [] e.path = none) :
    step u e = { disk := u.disk, states := sins e.path u.states,
                 stats := { countStats u.stats e with skipped := (countStats u.stats e).skipped + 1 },
                 log := (e.path, .skipParent) :: u.log } := by
  simp [step, h]

theorem step_some {u : UState} {e : DiffEntry} {d1 : Disk} (h : createParentDirs u.disk [] e.path = some d1) :
    step u e =
      if !(prepared u e d1).1 && (get (prepared u e d1).2 e.path).isSome then
        { disk := (prepared u e d1).2, states := sins e.path u.states,
          stats := { countStats u.stats e with skipped := (countStats u.stats e).skipped + 1 },
          log := (e.path, .skipExists) :: u.log }
      else match e.after with
        | none => { disk := cleanupParents (prepared u e d1).2 e.path.reverse.tail, states := sdel e.path u.states,
                    stats := countStats u.stats e, log := (e.path, .removed) :: u.log }
        | some v => { disk := set e.path (materialize v) (prepared u e d1).2, states := sins e.path u.states,
                      stats := countStats u.stats e, log := (e.path, .written (materialize v)) :: u.log } := by
  simp only [step, h, prepared]
  rfl


theorem countStats_skipped (s : Stats) (e : DiffEntry) : (countStats s e).skipped = s.skipped := by
  unfold countStats; split <;> rfl

theorem prepared_get_ne (u : UState) (e : DiffEntry) (d1 : Disk) {q : Path} (h : q ≠ e.path) :
    get (prepared u e d1).2 q = get d1 q := by
  unfold prepared; split
  · exact removeOldFile_get _ _ _ h
  · rfl

/-- **C25 core**: a file or symlink at any path other than the entry's survives the step. -/
theorem step_leaf_preserved {u : UState} {e : DiffEntry} {q : Path} {x : Entry}
    (hq : get u.disk q = some x) (hx : x ≠ .dir) (hne : q ≠ e.path) :
    get (step u e).disk q = some x := by
  cases hc : createParentDirs u.disk [] e.path with
  | none => rw [step_skipParent hc]; exact hq
  | some d1 =>
    have g2 : get (prepared u e d1).2 q = some x := by
      rw [prepared_get_ne u e d1 hne]; exact cpd_get_some _ _ _ hc hq
    rw [step_some hc]
    split
    · exact g2
    · cases e.after with
      | none =>
        simp only
        rcases cleanup_get (prepared u e d1).2 e.path.reverse.tail q with h | ⟨h, _⟩
        · rw [h]; exact g2
        · rw [g2] at h; exact absurd (Option.some.inj h) hx
      | some v => simp only; rw [get_set_ne hne]; exact g2

/-- at other paths a step only ever adds directories -/
theorem step_no_new_leaf {u : UState} {e : DiffEntry} {q : Path} {x : Entry}
    (hne : q ≠ e.path) (h : get (step u e).disk q = some x) (hx : x ≠ .dir) :
    get u.disk q = some x := by
  cases hc : createParentDirs u.disk [] e.path with
  | none => rw [step_skipParent hc] at h; exact h
  | some d1 =>
    have g1 : get (prepared u e d1).2 q = some x → get u.disk q = some x := by
      intro g
      rw [prepared_get_ne u e d1 hne] at g
      rcases cpd_get _ _ _ hc q with h1 | ⟨_, h2, _⟩
      · rw [← h1]; exact g
      · rw [h2] at g; exact absurd (Option.some.inj g).symm hx
    rw [step_some hc] at h
    split at h
    · exact g1 h
    · cases ha : e.after with
      | none =>
        simp only [ha] at h
        rcases cleanup_get (prepared u e d1).2 e.path.reverse.tail q with h' | ⟨_, h'⟩
        · rw [h'] at h; exact g1 h
        · rw [h'] at h; simp at h
      | some v => simp only [ha] at h; rw [get_set_ne hne] at h; exact g1 h

/-- what a skipped entry looks like -/
def Skipped (u : UState) (e : DiffEntry) : Prop :=
  (step u e).stats.skipped = u.stats.skipped + 1 ∧ e.path ∈ (step u e).states ∧
  ((step u e).log = (e.path, .skipParent) :: u.log ∨ (step u e).log = (e.path, .skipExists) :: u.log)

/-- **C25 core**: an entry standing at a path the update wants to add (not tracked there before),
or a directory standing at any diff path, is left alone; the path is skipped and counted. -/
theorem step_occupied_skipped {u : UState} {e : DiffEntry} {x : Entry}
    (hx : get u.disk e.path = some x) (hb : e.before = none ∨ x = .dir) :
    get (step u e).disk e.path = some x ∧ Skipped u e := by
  cases hc : createParentDirs u.disk [] e.path with
  | none =>
    rw [Skipped, step_skipParent hc]
    exact ⟨hx, by simp [countStats_skipped], by simp [mem_sins], Or.inl rfl⟩
  | some d1 =>
    have g1 : get d1 e.path = some x := cpd_get_some _ _ _ hc hx
    have hp : (prepared u e d1) = (false, d1) := by
      unfold prepared
      rcases hb with hb | hb
      · simp [hb]
      · subst hb
        split
        · rcases removeOldFile_self d1 e.path with ⟨_, _, y, hy, hyd⟩ | ⟨h1, h2, _⟩
          · rw [g1] at hy; exact absurd (Option.some.inj hy).symm hyd
          · exact Prod.ext h1 h2
        · rfl
    rw [Skipped, step_some hc, hp]
    simp [g1, countStats_skipped, mem_sins]

/-- **C25 core** (`create_parent_dirs` refuses): with a file or symlink at a proper ancestor the
step changes nothing on disk, and the path is skipped and counted. -/
theorem step_blocked_parent {u : UState} {e : DiffEntry} {a : Path} {x : Entry}
    (ha : Between [] e.path a) (hx : get u.disk a = some x) (hne : x ≠ .dir) :
    (step u e).disk = u.disk ∧ (step u e).log = (e.path, .skipParent) :: u.log ∧
    (step u e).stats.skipped = u.stats.skipped + 1 := by
  have hc := cpd_none_of_leaf u.disk [] e.path ha hx hne
  rw [step_skipParent hc]
  exact ⟨rfl, rfl, by simp [countStats_skipped]⟩

/-- the action taken by a step (head of the log) -/
theorem step_log (u : UState) (e : DiffEntry) : ∃ act, (step u e).log = (e.path, act) :: u.log := by
  cases hc : createParentDirs u.disk [] e.path with
  | none => rw [step_skipParent hc]; exact ⟨_, rfl⟩
  | some d1 =>
    rw [step_some hc]
    split
    · exact ⟨_, rfl⟩
    · cases e.after <;> exact ⟨_, rfl⟩

theorem prepared_none_of_not_skip {u : UState} {e : DiffEntry} {d1 : Disk}
    (hif : ¬ (!(prepared u e d1).1 && (get (prepared u e d1).2 e.path).isSome) = true) :
    get (prepared u e d1).2 e.path = none := by
  cases hg : get (prepared u e d1).2 e.path with
  | none => rfl
  | some y =>
    exfalso
    apply hif
    simp only [hg, Option.isSome_some, Bool.and_true, Bool.not_eq_true']
    unfold prepared at hg ⊢
    split at hg
    · rename_i hb
      simp only [hb, if_true]
      rcases removeOldFile_self d1 e.path with ⟨_, h2, _⟩ | ⟨h1, _, _⟩
      · rw [h2] at hg; simp at hg
      · exact h1
    · rename_i hb
      simp [hb]

/-- **C25 core** (`no_symlink_escape`): a path is written or removed only if, at that moment, no
proper ancestor is a file or symlink; after a write every proper ancestor is a directory and the
path holds the materialised new value. -/
theorem step_acts_only_below_dirs {u : UState} {e : DiffEntry} {act : Action}
    (hl : (step u e).log = (e.path, act) :: u.log) (hact : act = .removed ∨ ∃ x, act = .written x) :
    (∀ a x, Between [] e.path a → get u.disk a = some x → x = .dir) ∧
    (∀ x, act = .written x →
        (∃ v, e.after = some v ∧ x = materialize v) ∧ get (step u e).disk e.path = some x ∧
        ∀ a, Between [] e.path a → get (step u e).disk a = some .dir) ∧
    (act = .removed → e.after = none ∧ get (step u e).disk e.path = none) := by
  cases hc : createParentDirs u.disk [] e.path with
  | none =>
    rw [step_skipParent hc] at hl
    simp at hl; subst hl
    rcases hact with h | ⟨x, h⟩ <;> simp at h
  | some d1 =>
    refine ⟨?_, ?_, ?_⟩
    · intro a x ha hx
      cases hd : decide (x = .dir) with
      | true => exact of_decide_eq_true hd
      | false =>
        have := cpd_none_of_leaf u.disk [] e.path ha hx (of_decide_eq_false hd)
        rw [this] at hc; simp at hc
    · intro x hxa
      subst hxa
      by_cases hif : (!(prepared u e d1).1 && (get (prepared u e d1).2 e.path).isSome) = true
      · rw [step_some hc, if_pos hif] at hl; simp at hl
      · rw [step_some hc, if_neg hif] at hl ⊢
        cases ha : e.after with
        | none => simp [ha] at hl
        | some v =>
          simp only [ha] at hl ⊢
          simp at hl
          subst hl
          refine ⟨⟨v, rfl, rfl⟩, get_set_self _ _ _, ?_⟩
          intro a hab
          have hane : a ≠ e.path := hab.2.2.2
          rw [get_set_ne hane, prepared_get_ne u e d1 hane]
          exact cpd_parents _ _ _ hc hab
    · intro hr
      subst hr
      by_cases hif : (!(prepared u e d1).1 && (get (prepared u e d1).2 e.path).isSome) = true
      · rw [step_some hc, if_pos hif] at hl; simp at hl
      · rw [step_some hc, if_neg hif] at hl ⊢
        cases ha : e.after with
        | some v => simp [ha] at hl
        | none =>
          simp only
          refine ⟨trivial, ?_⟩
          have hnone := prepared_none_of_not_skip hif
          rcases cleanup_get (prepared u e d1).2 e.path.reverse.tail e.path with h | ⟨_, h⟩
          · rw [h]; exact hnone
          · exact h




/-! ### sequences of steps -/

theorem steps_leaf_preserved {q : Path} {x : Entry} (hx : x ≠ .dir) :
    ∀ (es : List DiffEntry) (u : UState), get u.disk q = some x → (∀ e ∈ es, e.path ≠ q) →
      get (steps u es).disk q = some x := by
  intro es
  induction es with
  | nil => intro u h _; exact h
  | cons e es ih =>
    intro u h hne
    simp only [steps]
    apply ih
    · exact step_leaf_preserved h hx (fun e' => (hne e (List.mem_cons_self ..)) e'.symm)
    · intro e' he'; exact hne e' (List.mem_cons_of_mem _ he')

theorem steps_no_new_leaf {q : Path} {x : Entry} (hx : x ≠ .dir) :
    ∀ (es : List DiffEntry) (u : UState), (∀ e ∈ es, e.path ≠ q) →
      get (steps u es).disk q = some x → get u.disk q = some x := by
  intro es
  induction es with
  | nil => intro u _ h; exact h
  | cons e es ih =>
    intro u hne h
    simp only [steps] at h
    have := ih (step u e) (fun e' he' => hne e' (List.mem_cons_of_mem _ he')) h
    exact step_no_new_leaf (fun e' => (hne e (List.mem_cons_self ..)) e'.symm) this hx

/-- number of skip actions in a log -/
def skipCount : List (Path × Action) → Nat
  | [] => 0
  | (_, .skipParent) :: r => skipCount r + 1
  | (_, .skipExists) :: r => skipCount r + 1
  | _ :: r => skipCount r

theorem step_skipCount (u : UState) (e : DiffEntry) :
    (step u e).stats.skipped + skipCount u.log = u.stats.skipped + skipCount (step u e).log := by
  cases hc : createParentDirs u.disk [] e.path with
  | none => rw [step_skipParent hc]; simp [skipCount, countStats_skipped]; omega
  | some d1 =>
    rw [step_some hc]
    split
    · simp [skipCount, countStats_skipped]; omega
    · cases e.after <;> simp [skipCount, countStats_skipped]

/-- **skip accounting**: `skipped_files` counts exactly the skipped entries of the trace -/
theorem steps_skipCount : ∀ (es : List DiffEntry) (u : UState),
    (steps u es).stats.skipped + skipCount u.log = u.stats.skipped + skipCount (steps u es).log := by
  intro es
  induction es with
  | nil => intro u; rfl
  | cons e es ih =>
    intro u
    simp only [steps]
    have h1 := ih (step u e)
    have h2 := step_skipCount u e
    omega

theorem steps_append (u : UState) (l1 l2 : List DiffEntry) : steps u (l1 ++ l2) = steps (steps u l1) l2 := by
  induction l1 generalizing u with
  | nil => rfl
  | cons e l1 ih => simp only [List.cons_append, steps]; exact ih _

/-- the trace lists the processed paths, newest first -/
theorem steps_log_paths : ∀ (es : List DiffEntry) (u : UState),
    (steps u es).log.map (·.1) = (es.map (·.path)).reverse ++ u.log.map (·.1) := by
  intro es
  induction es with
  | nil => intro u; simp [steps]
  | cons e es ih =>
    intro u
    simp only [steps]
    rw [ih]
    obtain ⟨act, hl⟩ := step_log u e
    rw [hl]
    simp

/-! ### counters -/

def countAdded (es : List DiffEntry) : Nat := (es.filter fun e => e.after.isSome && e.before.isNone).length
def countRemoved (es : List DiffEntry) : Nat := (es.filter fun e => e.after.isNone).length
def countUpdated (es : List DiffEntry) : Nat := (es.filter fun e => e.after.isSome && e.before.isSome).length

theorem step_stats (u : UState) (e : DiffEntry) :
    (step u e).stats.added = u.stats.added + (if e.after.isSome && e.before.isNone then 1 else 0) ∧
    (step u e).stats.removed = u.stats.removed + (if e.after.isNone then 1 else 0) ∧
    (step u e).stats.updated = u.stats.updated + (if e.after.isSome && e.before.isSome then 1 else 0) := by
  have hcs : (countStats u.stats e).added = u.stats.added + (if e.after.isSome && e.before.isNone then 1 else 0) ∧
      (countStats u.stats e).removed = u.stats.removed + (if e.after.isNone then 1 else 0) ∧
      (countStats u.stats e).updated = u.stats.updated + (if e.after.isSome && e.before.isSome then 1 else 0) := by
    unfold countStats
    cases e.after <;> cases e.before <;> simp
  have hf : (step u e).stats.added = (countStats u.stats e).added ∧
      (step u e).stats.removed = (countStats u.stats e).removed ∧
      (step u e).stats.updated = (countStats u.stats e).updated := by
    cases hc : createParentDirs u.disk [] e.path with
    | none => rw [step_skipParent hc]; exact ⟨rfl, rfl, rfl⟩
    | some d1 =>
      rw [step_some hc]
      split
      · exact ⟨rfl, rfl, rfl⟩
      · split <;> exact ⟨rfl, rfl, rfl⟩
  rw [hf.1, hf.2.1, hf.2.2]
  exact hcs

theorem steps_stats : ∀ (es : List DiffEntry) (u : UState),
    (steps u es).stats.added = u.stats.added + countAdded es ∧
    (steps u es).stats.removed = u.stats.removed + countRemoved es ∧
    (steps u es).stats.updated = u.stats.updated + countUpdated es := by
  intro es
  induction es with
  | nil => intro u; simp [steps, countAdded, countRemoved, countUpdated]
  | cons e es ih =>
    intro u
    simp only [steps]
    obtain ⟨h1, h2, h3⟩ := ih (step u e)
    obtain ⟨g1, g2, g3⟩ := step_stats u e
    simp only [countAdded, countRemoved, countUpdated, List.filter_cons] at *
    refine ⟨?_, ?_, ?_⟩
    · rw [h1, g1]; split <;> simp <;> omega
    · rw [h2, g2]; split <;> simp <;> omega
    · rw [h3, g3]; split <;> simp <;> omega

/-! ### the diff -/

theorem mem_insertPath {p x : Path} {l : List Path} : x ∈ insertPath p l ↔ x = p ∨ x ∈ l := by
  fun_induction insertPath p l <;> grind

theorem mem_sortPaths {x : Path} {l : List Path} : x ∈ sortPaths l ↔ x ∈ l := by
  fun_induction sortPaths l <;> grind [mem_insertPath]

theorem mem_dedupPaths {x : Path} {l : List Path} : x ∈ dedupPaths l ↔ x ∈ l := by
  fun_induction dedupPaths l <;> grind

theorem nodup_dedupPaths (l : List Path) : (dedupPaths l).Nodup := by
  fun_induction dedupPaths l <;> grind [mem_dedupPaths]

theorem nodup_insertPath {p : Path} {l : List Path} (hp : p ∉ l) (hl : l.Nodup) : (insertPath p l).Nodup := by
  fun_induction insertPath p l <;> grind [mem_insertPath]

theorem nodup_sortPaths {l : List Path} (hl : l.Nodup) : (sortPaths l).Nodup := by
  fun_induction sortPaths l with
  | case1 => simp
  | case2 p r ih =>
    have := List.nodup_cons.mp hl
    exact nodup_insertPath (by rw [mem_sortPaths]; exact this.1) (ih this.2)

theorem holdBack_perm (old : Tree) (held : Option DiffEntry) (es : List DiffEntry) :
    (holdBack old held es).Perm (held.toList ++ es) := by
  fun_induction holdBack old held es with
  | case1 held => simp
  | case2 e es hh ih => simpa using ih
  | case3 e es hh ih => simpa using ih
  | case4 h e es hp ih =>
    have : (e :: holdBack old (some h) es).Perm (e :: h :: es) := List.Perm.cons e (by simpa using ih)
    exact this.trans (List.Perm.swap h e es)
  | case5 h e es hp hh ih => simpa using ih
  | case6 h e es hp hh ih => simpa using ih

theorem nodup_diffFs_paths (old new : Tree) (m : Path → Bool) : ((diffFs old new m).map (·.path)).Nodup := by
  have h1 : ((diffSorted old new m).map (·.path)).Nodup := by
    simp only [diffSorted, List.map_map]
    have : ((fun e : DiffEntry => e.path) ∘ fun p => ({ path := p, before := get old p, after := get new p } : DiffEntry)) = id := by
      funext p; rfl
    rw [this, List.map_id]
    exact List.filter_sublist.nodup (nodup_sortPaths (nodup_dedupPaths _))
  have hp : (diffFs old new m).Perm (diffSorted old new m) := by
    simpa [diffFs] using holdBack_perm old none (diffSorted old new m)
  exact (hp.map _).nodup_iff.mpr h1

theorem mem_holdBack {old : Tree} {x : DiffEntry} :
    ∀ {held : Option DiffEntry} {es : List DiffEntry}, x ∈ holdBack old held es ↔ x ∈ held.toList ∨ x ∈ es := by
  intro held es
  fun_induction holdBack old held es <;> grind

theorem mem_diffSorted {old new : Tree} {m : Path → Bool} {e : DiffEntry} :
    e ∈ diffSorted old new m ↔
      (e.path ∈ old.map (·.1) ∨ e.path ∈ new.map (·.1)) ∧ m e.path = true ∧ get old e.path ≠ get new e.path ∧
      e.before = get old e.path ∧ e.after = get new e.path := by
  simp only [diffSorted, List.mem_map, List.mem_filter, mem_sortPaths, mem_dedupPaths, List.mem_append]
  constructor
  · rintro ⟨p, ⟨hp, hm⟩, rfl⟩
    simp only [Bool.and_eq_true, decide_eq_true_eq] at hm
    exact ⟨by simpa using hp, hm.1, hm.2, rfl, rfl⟩
  · rintro ⟨hp, hm, hne, hb, ha⟩
    refine ⟨e.path, ⟨by simpa using hp, by simp [hm, hne]⟩, ?_⟩
    cases e; simp_all

theorem mem_diffFs {old new : Tree} {m : Path → Bool} {e : DiffEntry} :
    e ∈ diffFs old new m ↔
      (e.path ∈ old.map (·.1) ∨ e.path ∈ new.map (·.1)) ∧ m e.path = true ∧ get old e.path ≠ get new e.path ∧
      e.before = get old e.path ∧ e.after = get new e.path := by
  simp [diffFs, mem_holdBack, mem_diffSorted]



/-! ### the outcome of every entry -/

theorem log_mono {l : Path × Action} : ∀ (es : List DiffEntry) (u : UState), l ∈ u.log → l ∈ (steps u es).log := by
  intro es
  induction es with
  | nil => intro u h; exact h
  | cons e es ih =>
    intro u h
    simp only [steps]
    apply ih
    obtain ⟨act, hl⟩ := step_log u e
    rw [hl]; exact List.mem_cons_of_mem _ h


theorem materialize_ne_dir (v : TreeValue) : materialize v ≠ .dir := by
  cases v <;> simp [materialize]

/-- every diff entry (paths pairwise distinct) ends in one of three ways: its new value is on disk
at the end; it was a removal and no file or symlink is left at the path; or it was skipped -/
theorem steps_entry_outcome {e : DiffEntry} :
    ∀ (es : List DiffEntry) (u : UState), (es.map (·.path)).Nodup → e ∈ es →
      (∃ v, e.after = some v ∧ get (steps u es).disk e.path = some (materialize v)) ∨
      (e.after = none ∧ ∀ x, get (steps u es).disk e.path = some x → x = .dir) ∨
      (e.path, Action.skipParent) ∈ (steps u es).log ∨ (e.path, Action.skipExists) ∈ (steps u es).log := by
  intro es
  induction es with
  | nil => intro u _ h; simp at h
  | cons e' es ih =>
    intro u hnd he
    simp only [List.map_cons, List.nodup_cons] at hnd
    simp only [steps]
    rcases List.mem_cons.mp he with h | h
    · subst h
      have hne : ∀ e'' ∈ es, e''.path ≠ e.path := by
        intro e'' he'' heq
        exact hnd.1 (List.mem_map.mpr ⟨e'', he'', heq⟩)
      obtain ⟨act, hl⟩ := step_log u e
      cases act with
      | skipParent => right; right; left; exact log_mono es _ (by rw [hl]; exact List.mem_cons_self ..)
      | skipExists => right; right; right; exact log_mono es _ (by rw [hl]; exact List.mem_cons_self ..)
      | removed =>
        right; left
        obtain ⟨_, _, h3⟩ := step_acts_only_below_dirs hl (Or.inl rfl)
        obtain ⟨ha, hg⟩ := h3 rfl
        refine ⟨ha, fun x hx => ?_⟩
        cases hd : decide (x = .dir) with
        | true => exact of_decide_eq_true hd
        | false =>
          have := steps_no_new_leaf (of_decide_eq_false hd) es (step u e) hne hx
          rw [hg] at this; simp at this
      | written x =>
        left
        obtain ⟨_, h2, _⟩ := step_acts_only_below_dirs hl (Or.inr ⟨x, rfl⟩)
        obtain ⟨⟨v, hv, hx⟩, hg, _⟩ := h2 x rfl
        subst hx
        exact ⟨v, hv, steps_leaf_preserved (materialize_ne_dir v) es (step u e) hg hne⟩
    · exact ih (step u e') hnd.2 h



/-! ### file states and skips along a sequence of steps -/

theorem step_states {u : UState} {e : DiffEntry} {act : Action} (hl : (step u e).log = (e.path, act) :: u.log) :
    (act = .removed → (step u e).states = sdel e.path u.states) ∧
    (act ≠ .removed → (step u e).states = sins e.path u.states) := by
  cases hc : createParentDirs u.disk [] e.path with
  | none =>
    rw [step_skipParent hc] at hl ⊢
    simp at hl; subst hl
    exact ⟨by simp, fun _ => rfl⟩
  | some d1 =>
    by_cases hif : (!(prepared u e d1).1 && (get (prepared u e d1).2 e.path).isSome) = true
    · rw [step_some hc, if_pos hif] at hl ⊢
      simp at hl; subst hl
      exact ⟨by simp, fun _ => rfl⟩
    · rw [step_some hc, if_neg hif] at hl ⊢
      cases ha : e.after with
      | none =>
        simp only [ha] at hl ⊢
        simp at hl; subst hl
        exact ⟨fun _ => trivial, by simp⟩
      | some v =>
        simp only [ha] at hl ⊢
        simp at hl; subst hl
        exact ⟨by simp, fun _ => trivial⟩

def NoSkips (log : List (Path × Action)) : Prop :=
  ∀ p, (p, Action.skipParent) ∉ log ∧ (p, Action.skipExists) ∉ log

theorem noSkips_of_skipCount_zero : ∀ {log : List (Path × Action)}, skipCount log = 0 → NoSkips log := by
  intro log
  induction log with
  | nil => intro _ p; simp
  | cons a r ih =>
    obtain ⟨q, act⟩ := a
    intro h p
    cases act with
    | skipParent => simp [skipCount] at h
    | skipExists => simp [skipCount] at h
    | removed =>
      simp only [skipCount] at h
      have := ih h p
      simp [this.1, this.2]
    | written x =>
      simp only [skipCount] at h
      have := ih h p
      simp [this.1, this.2]

/-- with no skipped entry: the file-state keys after the steps -/
theorem steps_states_noskip :
    ∀ (es : List DiffEntry) (u : UState), (es.map (·.path)).Nodup → NoSkips (steps u es).log → ∀ q,
      q ∈ (steps u es).states ↔
        if (∃ e ∈ es, e.path = q) then (∃ e ∈ es, e.path = q ∧ e.after ≠ none) else q ∈ u.states := by
  intro es
  induction es with
  | nil => intro u _ _ q; simp [steps]
  | cons e es ih =>
    intro u hnd hns q
    simp only [List.map_cons, List.nodup_cons] at hnd
    simp only [steps] at hns ⊢
    rw [ih (step u e) hnd.2 hns q]
    obtain ⟨act, hl⟩ := step_log u e
    have hmem : (e.path, act) ∈ (steps (step u e) es).log := log_mono es _ (by rw [hl]; exact List.mem_cons_self ..)
    have hact : act = .removed ∨ ∃ x, act = .written x := by
      cases act with
      | skipParent => exact absurd hmem (hns e.path).1
      | skipExists => exact absurd hmem (hns e.path).2
      | removed => exact Or.inl rfl
      | written x => exact Or.inr ⟨x, rfl⟩
    obtain ⟨_, hw, hr⟩ := step_acts_only_below_dirs hl hact
    obtain ⟨hs1, hs2⟩ := step_states hl
    by_cases hq : ∃ e' ∈ es, e'.path = q
    · have hne : e.path ≠ q := by
        intro heq; obtain ⟨e', he', hp⟩ := hq
        exact hnd.1 (List.mem_map.mpr ⟨e', he', by rw [hp, heq]⟩)
      have h1 : ∃ e' ∈ e :: es, e'.path = q := by
        obtain ⟨e', he', hp⟩ := hq; exact ⟨e', List.mem_cons_of_mem _ he', hp⟩
      simp only [hq, h1, if_true]
      constructor
      · rintro ⟨e', he', hp, ha⟩; exact ⟨e', List.mem_cons_of_mem _ he', hp, ha⟩
      · rintro ⟨e', he', hp, ha⟩
        rcases List.mem_cons.mp he' with h | h
        · subst h; exact absurd hp hne
        · exact ⟨e', h, hp, ha⟩
    · simp only [hq, if_false]
      by_cases heq : e.path = q
      · subst heq
        have h1 : ∃ e' ∈ e :: es, e'.path = e.path := ⟨e, List.mem_cons_self .., rfl⟩
        simp only [h1, if_true]
        rcases hact with h | ⟨x, h⟩
        · subst h
          rw [hs1 rfl]
          have := (hr rfl).1
          constructor
          · intro hm; exact absurd rfl (mem_sdel.mp hm).2
          · rintro ⟨e', he', hp, ha⟩
            rcases List.mem_cons.mp he' with h | h
            · subst h; exact absurd this ha
            · exact absurd ⟨e', h, hp⟩ hq
        · subst h
          rw [hs2 (by simp)]
          obtain ⟨⟨v, hv, _⟩, _, _⟩ := hw x rfl
          constructor
          · intro _; exact ⟨e, List.mem_cons_self .., rfl, by rw [hv]; simp⟩
          · intro _; exact mem_sins.mpr (Or.inl rfl)
      · have h1 : ¬ ∃ e' ∈ e :: es, e'.path = q := by
          rintro ⟨e', he', hp⟩
          rcases List.mem_cons.mp he' with h | h
          · subst h; exact heq hp
          · exact hq ⟨e', h, hp⟩
        simp only [h1, if_false]
        have hqe : q ≠ e.path := fun h => heq h.symm
        rcases hact with h | ⟨x, h⟩
        · subst h; rw [hs1 rfl, mem_sdel]; simp [hqe]
        · subst h; rw [hs2 (by simp), mem_sins]; simp [hqe]





/-! ### `update` keeps the disk well formed -/

theorem hasChild_false {disk : Disk} {d : Path} (h : hasChild disk d = false) {q : Path} {x : Entry}
    (hq : get disk q = some x) (hp : d <+: q) : q = d := by
  simp only [hasChild, List.any_eq_false, Bool.and_eq_true, not_and] at h
  have := h (q, x) (get_some_mem hq) (isPrefixOf_iff.mpr hp)
  simpa using this

theorem wf_set_dir {disk : Disk} {q : Path} (hwf : WFDisk disk)
    (ha : ∀ a, Ancestor a q → get disk a = some .dir) : WFDisk (set q .dir disk) := by
  intro p e a hp hanc
  rw [get_set] at hp ⊢
  by_cases haq : a = q
  · simp [haq]
  · simp only [haq, if_false]
    by_cases hpq : p = q
    · subst hpq; exact ha a hanc
    · simp only [hpq, if_false] at hp
      exact hwf p e a hp hanc

theorem wf_set_leaf {disk : Disk} {p : Path} {x : Entry} (hwf : WFDisk disk) (hn : get disk p = none)
    (ha : ∀ a, Ancestor a p → get disk a = some .dir) : WFDisk (set p x disk) := by
  intro q e a hq hanc
  rw [get_set] at hq ⊢
  by_cases hqp : q = p
  · subst hqp
    have : a ≠ q := hanc.2.1
    simp only [this, if_false]
    exact ha a hanc
  · simp only [hqp, if_false] at hq
    have hd := hwf q e a hq hanc
    by_cases hap : a = p
    · subst hap; rw [hn] at hd; simp at hd
    · simp only [hap, if_false]; exact hd

theorem wf_del_leaf {disk : Disk} {p : Path} {x : Entry} (hwf : WFDisk disk) (hp : get disk p = some x)
    (hx : x ≠ .dir) : WFDisk (del p disk) := by
  intro q e a hq hanc
  rw [get_del] at hq ⊢
  by_cases hqp : q = p
  · simp [hqp] at hq
  · simp only [hqp, if_false] at hq
    have hd := hwf q e a hq hanc
    by_cases hap : a = p
    · subst hap; rw [hp] at hd; exact absurd (Option.some.inj hd) hx
    · simp only [hap, if_false]; exact hd

theorem wf_del_emptydir {disk : Disk} {d : Path} (hwf : WFDisk disk) (hc : hasChild disk d = false) :
    WFDisk (del d disk) := by
  intro q e a hq hanc
  rw [get_del] at hq ⊢
  by_cases hqd : q = d
  · simp [hqd] at hq
  · simp only [hqd, if_false] at hq
    have hd := hwf q e a hq hanc
    by_cases had : a = d
    · subst had; exact absurd (hasChild_false hc hq hanc.2.2) hqd
    · simp only [had, if_false]; exact hd

theorem cpd_wf (disk : Disk) (pre : Path) (rest : List String) {d' : Disk}
    (hwf : WFDisk disk) (hpre : ∀ a, a ≠ [] → a <+: pre → get disk a = some .dir)
    (h : createParentDirs disk pre rest = some d') : WFDisk d' := by
  fun_induction createParentDirs disk pre rest generalizing d' with
  | case1 => simp at h; subst h; exact hwf
  | case2 => simp at h; subst h; exact hwf
  | case3 disk pre c c' rest hn ih =>
    have hanc : ∀ a, Ancestor a (pre ++ [c]) → get disk a = some .dir := by
      intro a ⟨h1, h2, h3⟩
      rcases List.prefix_concat_iff.mp h3 with h | h
      · exact absurd h h2
      · exact hpre a h1 h
    apply ih (wf_set_dir hwf hanc) _ h
    intro a ha0 hap
    rcases List.prefix_concat_iff.mp hap with h | h
    · subst h; exact get_set_self _ _ _
    · have hne : a ≠ pre ++ [c] := by
        intro e; have := congrArg List.length e; have := h.length_le; simp at *; omega
      rw [get_set_ne hne]; exact hpre a ha0 h
  | case4 disk pre c c' rest hd ih =>
    apply ih hwf _ h
    intro a ha0 hap
    rcases List.prefix_concat_iff.mp hap with h | h
    · subst h; exact hd
    · exact hpre a ha0 h
  | case5 => simp at h

theorem cleanup_wf (disk : Disk) (rev : List String) (hwf : WFDisk disk) : WFDisk (cleanupParents disk rev) := by
  fun_induction cleanupParents disk rev with
  | case1 => exact hwf
  | case2 disk c rev d hd hc => exact hwf
  | case3 disk c rev d hd hc ih => exact ih (wf_del_emptydir hwf (by simpa using hc))
  | case4 disk c rev d hx => exact hwf

theorem prepared_wf {u : UState} {e : DiffEntry} {d1 : Disk} (hwf : WFDisk d1) : WFDisk (prepared u e d1).2 := by
  unfold prepared
  split
  · unfold removeOldFile
    split
    · rename_i h; exact wf_del_leaf hwf h (by simp)
    · rename_i h; exact wf_del_leaf hwf h (by simp)
    · exact hwf
  · exact hwf

/-- one step keeps the disk well formed -/
theorem step_wf {u : UState} {e : DiffEntry} (hwf : WFDisk u.disk) : WFDisk (step u e).disk := by
  cases hc : createParentDirs u.disk [] e.path with
  | none => rw [step_skipParent hc]; exact hwf
  | some d1 =>
    have h1 : WFDisk d1 := cpd_wf u.disk [] e.path hwf (by
      intro a ha0 hap
      exact absurd (List.prefix_nil.mp hap) ha0) hc
    have h2 : WFDisk (prepared u e d1).2 := prepared_wf h1
    by_cases hif : (!(prepared u e d1).1 && (get (prepared u e d1).2 e.path).isSome) = true
    · rw [step_some hc, if_pos hif]; exact h2
    · rw [step_some hc, if_neg hif]
      cases e.after with
      | none => exact cleanup_wf _ _ h2
      | some v =>
        simp only
        apply wf_set_leaf h2 (prepared_none_of_not_skip hif)
        intro a hanc
        have hb : Between [] e.path a := ⟨List.nil_prefix, by simpa using hanc.2.2, hanc.1, by simpa using hanc.2.1⟩
        rw [prepared_get_ne u e d1 hanc.2.1]
        exact cpd_parents _ _ _ hc hb

theorem steps_wf : ∀ (es : List DiffEntry) (u : UState), WFDisk u.disk → WFDisk (steps u es).disk := by
  intro es
  induction es with
  | nil => intro u h; exact h
  | cons e es ih => intro u h; simp only [steps]; exact ih _ (step_wf h)

theorem update_wf {disk : Disk} (states : List Path) (old new : Tree) (m : Path → Bool) (hwf : WFDisk disk) :
    WFDisk (update disk states old new m).disk :=
  steps_wf _ _ hwf


/-! ### no file↔directory replacement between the trees: nothing is skipped, in any order -/

/-- a path within the matcher that one of the two trees has -/
def TreePath (old new : Tree) (m : Path → Bool) (p : Path) : Prop :=
  m p = true ∧ (get old p ≠ none ∨ get new p ≠ none)

/-- no path of either tree (within the matcher) lies strictly below a path of either tree:
the two trees agree on what is a file and what is a directory -/
def NoTypeChange (old new : Tree) (m : Path → Bool) : Prop :=
  ∀ p q, TreePath old new m p → TreePath old new m q → p <+: q → p = q

/-- disk invariant: files only at tree paths, directories only above tree paths -/
def Shaped (old new : Tree) (m : Path → Bool) (disk : Disk) : Prop :=
  (∀ q x, get disk q = some x → x ≠ .dir → TreePath old new m q) ∧
  (∀ d, get disk d = some .dir → ∃ q, TreePath old new m q ∧ d <+: q ∧ d ≠ q)

theorem step_dir_origin {u : UState} {e : DiffEntry} {d : Path} (h : get (step u e).disk d = some .dir) :
    get u.disk d = some .dir ∨ Between [] e.path d := by
  cases hc : createParentDirs u.disk [] e.path with
  | none => rw [step_skipParent hc] at h; exact Or.inl h
  | some d1 =>
    have g1 : get (prepared u e d1).2 d = some .dir → get u.disk d = some .dir ∨ Between [] e.path d := by
      intro g
      have g' : get d1 d = some .dir := by
        by_cases hd : d = e.path
        · subst hd
          unfold prepared at g
          split at g
          · rcases removeOldFile_self d1 e.path with ⟨_, h2, _⟩ | ⟨_, h2, _⟩
            · rw [h2] at g; simp at g
            · rw [h2] at g; exact g
          · exact g
        · rw [prepared_get_ne u e d1 hd] at g; exact g
      rcases cpd_get _ _ _ hc d with h1 | ⟨_, _, h3⟩
      · left; rw [← h1]; exact g'
      · exact Or.inr h3
    by_cases hif : (!(prepared u e d1).1 && (get (prepared u e d1).2 e.path).isSome) = true
    · rw [step_some hc, if_pos hif] at h; exact g1 h
    · rw [step_some hc, if_neg hif] at h
      cases ha : e.after with
      | none =>
        simp only [ha] at h
        rcases cleanup_get (prepared u e d1).2 e.path.reverse.tail d with h' | ⟨_, h'⟩
        · rw [h'] at h; exact g1 h
        · rw [h'] at h; simp at h
      | some v =>
        simp only [ha] at h
        by_cases hd : d = e.path
        · subst hd; rw [get_set_self] at h; exact absurd (Option.some.inj h) (materialize_ne_dir v)
        · rw [get_set_ne hd] at h; exact g1 h

theorem step_leaf_origin {u : UState} {e : DiffEntry} {q : Path} {x : Entry}
    (h : get (step u e).disk q = some x) (hx : x ≠ .dir) : get u.disk q = some x ∨ q = e.path := by
  by_cases hq : q = e.path
  · exact Or.inr hq
  · exact Or.inl (step_no_new_leaf hq h hx)

/-- under `NoTypeChange`, from a shaped disk on which every file at a pending path is known to the
old tree, a step for a tree path is never a skip, and the invariants are kept -/
theorem step_noskip_of_shaped {old new : Tree} {m : Path → Bool} {u : UState} {e : DiffEntry}
    (hnt : NoTypeChange old new m) (hsh : Shaped old new m u.disk) (hp : TreePath old new m e.path)
    (hb : ∀ x, get u.disk e.path = some x → x ≠ .dir → e.before ≠ none) :
    Shaped old new m (step u e).disk ∧ (step u e).stats.skipped = u.stats.skipped := by
  constructor
  · constructor
    · intro q x hq hx
      rcases step_leaf_origin hq hx with h | h
      · exact hsh.1 q x h hx
      · rw [h]; exact hp
    · intro d hd
      rcases step_dir_origin hd with h | h
      · exact hsh.2 d h
      · exact ⟨e.path, hp, by simpa using h.2.1, h.2.2.2⟩
  · -- not a skip
    cases hc : createParentDirs u.disk [] e.path with
    | none =>
      exfalso
      obtain ⟨a, x, hab, hx, hne⟩ := cpd_none_leaf _ _ _ hc
      have hta := hsh.1 a x hx hne
      exact hab.2.2.2 (by simpa using hnt a e.path hta hp (by simpa using hab.2.1))
    | some d1 =>
      have hnot : ¬ (!(prepared u e d1).1 && (get (prepared u e d1).2 e.path).isSome) = true := by
        intro hif
        simp only [Bool.and_eq_true, Bool.not_eq_true'] at hif
        obtain ⟨hdel, hsome⟩ := hif
        -- what stands at the path in `d1` is what stood there before
        have hsame : get d1 e.path = get u.disk e.path := by
          rcases cpd_get _ _ _ hc e.path with h | ⟨_, _, h3⟩
          · exact h
          · exact absurd (by simp) h3.2.2.2
        cases hg : get u.disk e.path with
        | none =>
          have : get (prepared u e d1).2 e.path = none := by
            unfold prepared; split
            · rcases removeOldFile_self d1 e.path with ⟨_, h2, _⟩ | ⟨_, h2, _⟩
              · exact h2
              · rw [h2, hsame]; exact hg
            · rw [hsame]; exact hg
          rw [this] at hsome; simp at hsome
        | some y =>
          cases hy : decide (y = .dir) with
          | true =>
            have hyd := of_decide_eq_true hy
            subst hyd
            obtain ⟨q, hq, hpre, hne⟩ := hsh.2 e.path hg
            exact hne (hnt e.path q hp hq hpre)
          | false =>
            have hyn := of_decide_eq_false hy
            have hbs := hb y hg hyn
            -- a tracked file: `remove_old_file` removes it
            unfold prepared at hdel
            cases hbe : e.before with
            | none => exact hbs hbe
            | some w =>
              simp only [hbe, Option.isSome_some, if_true] at hdel
              rcases removeOldFile_self d1 e.path with ⟨h1, _, _⟩ | ⟨_, _, h3⟩
              · rw [h1] at hdel; simp at hdel
              · rw [hsame, hg] at h3
                rcases h3 with h3 | h3
                · simp at h3
                · exact hyn (Option.some.inj h3)
      rw [step_some hc, if_neg hnot]
      cases e.after <;> simp [countStats_skipped]

theorem steps_noskip_of_shaped {old new : Tree} {m : Path → Bool} (hnt : NoTypeChange old new m) :
    ∀ (es : List DiffEntry) (u : UState), (es.map (·.path)).Nodup → Shaped old new m u.disk →
      (∀ e ∈ es, TreePath old new m e.path) →
      (∀ e ∈ es, ∀ x, get u.disk e.path = some x → x ≠ .dir → e.before ≠ none) →
      (steps u es).stats.skipped = u.stats.skipped := by
  intro es
  induction es with
  | nil => intro u _ _ _ _; rfl
  | cons e es ih =>
    intro u hnd hsh htp hb
    simp only [List.map_cons, List.nodup_cons] at hnd
    simp only [steps]
    obtain ⟨hsh', hsk⟩ := step_noskip_of_shaped hnt hsh (htp e (List.mem_cons_self ..)) (hb e (List.mem_cons_self ..))
    rw [ih (step u e) hnd.2 hsh' (fun e' he' => htp e' (List.mem_cons_of_mem _ he')) ?_, hsk]
    intro e' he' x hx hxd
    have hne : e'.path ≠ e.path := by
      intro heq; exact hnd.1 (List.mem_map.mpr ⟨e', he', heq⟩)
    exact hb e' (List.mem_cons_of_mem _ he') x (step_no_new_leaf hne hx hxd) hxd


end JjModel.WorkingCopy
