import JjModel.Model.Diff
/-!
  The three comparison relations are congruences for concatenation, and are ordered
  `exact ⊆ ignoreWsAmount ⊆ ignoreAllWs`.
-/
namespace JjModel.Diff

/-- `prev_was_space` after consuming `a` -/
def endState : Bool → Bytes → Bool
  | prev, [] => prev
  | _, b :: rest => endState (isAsciiWhitespace b) rest

theorem normFrom_append (prev : Bool) (a b : Bytes) :
    normWsAmountFrom prev (a ++ b) = normWsAmountFrom prev a ++ normWsAmountFrom (endState prev a) b := by
  induction a generalizing prev with
  | nil => simp [normWsAmountFrom, endState]
  | cons x xs ih =>
    simp only [List.cons_append, normWsAmountFrom, endState]
    split
    · rename_i hx
      split
      · rw [ih true, hx]
      · rw [ih true, hx]; rfl
    · rename_i hx
      have : isAsciiWhitespace x = false := by simpa using hx
      rw [ih false, this]; rfl

/-- the state is visible in the output: it is whether the last emitted byte is a blank -/
def lastWs (prev : Bool) (out : Bytes) : Bool :=
  match out.getLast? with
  | some x => isAsciiWhitespace x
  | none => prev

theorem lastWs_cons (prev : Bool) (x : UInt8) (l : Bytes) :
    lastWs prev (x :: l) = lastWs (isAsciiWhitespace x) l := by
  cases l with
  | nil => simp [lastWs]
  | cons y ys =>
    cases h : (y :: ys).getLast? with
    | none => simp at h
    | some z => simp [lastWs, List.getLast?_cons_cons, h]

theorem endState_eq (prev : Bool) (a : Bytes) : endState prev a = lastWs prev (normWsAmountFrom prev a) := by
  induction a generalizing prev with
  | nil => simp [endState, normWsAmountFrom, lastWs]
  | cons x xs ih =>
    simp only [endState, normWsAmountFrom]
    split
    · rename_i hx
      split
      · rename_i hp; rw [hx, ih true, hp]
      · rw [hx, ih true, lastWs_cons]; rfl
    · rename_i hx
      have hx' : isAsciiWhitespace x = false := by simpa using hx
      rw [hx', ih false, lastWs_cons, hx']

/-- with `prev_was_space` set, the output only loses a leading blank -/
theorem normFrom_true (b : Bytes) :
    normWsAmountFrom true b =
      if (normWsAmountFrom false b).head? = some 32 then (normWsAmountFrom false b).tail
      else normWsAmountFrom false b := by
  cases b with
  | nil => simp [normWsAmountFrom]
  | cons x xs =>
    simp only [normWsAmountFrom]
    split
    · simp
    · rename_i hx
      have : x ≠ 32 := by
        intro h; subst h; simp [isAsciiWhitespace] at hx
      simp [this]

theorem normWsAmount_congr (a a' b b' : Bytes) (ha : normWsAmount a = normWsAmount a')
    (hb : normWsAmount b = normWsAmount b') : normWsAmount (a ++ b) = normWsAmount (a' ++ b') := by
  unfold normWsAmount at *
  rw [normFrom_append, normFrom_append, endState_eq, endState_eq, ha]
  congr 1
  cases lastWs false (normWsAmountFrom false a') with
  | false => exact hb
  | true => rw [normFrom_true, normFrom_true, hb]

theorem normAllWs_normFrom (prev : Bool) (x : Bytes) :
    normAllWs (normWsAmountFrom prev x) = normAllWs x := by
  induction x generalizing prev with
  | nil => simp [normWsAmountFrom, normAllWs]
  | cons y ys ih =>
    simp only [normWsAmountFrom]
    split
    · rename_i hy
      split
      · rw [ih true]; simp [normAllWs, hy]
      · have := ih true
        simp only [normAllWs] at this ⊢
        have h32 : isAsciiWhitespace 32 = true := by decide
        rw [List.filter_cons, List.filter_cons]
        simp [hy, h32, this]
    · rename_i hy
      have := ih false
      simp only [normAllWs] at this ⊢
      rw [List.filter_cons, List.filter_cons]
      simp [hy, this]

/-- **Congruence**: pieces that are pairwise equal under the comparison concatenate to strings that
are equal under the comparison. -/
theorem norm_append_congr (c : Compare) (a a' b b' : Bytes) (ha : c.norm a = c.norm a')
    (hb : c.norm b = c.norm b') : c.norm (a ++ b) = c.norm (a' ++ b') := by
  cases c with
  | exact => simp only [Compare.norm] at *; rw [ha, hb]
  | ignoreAllWs => simp only [Compare.norm, normAllWs, List.filter_append] at *; rw [ha, hb]
  | ignoreWsAmount => exact normWsAmount_congr a a' b b' ha hb

/-- `exact ⊆ ignoreWsAmount ⊆ ignoreAllWs` -/
def Compare.le : Compare → Compare → Bool
  | .exact, _ => true
  | .ignoreWsAmount, .ignoreWsAmount => true
  | .ignoreWsAmount, .ignoreAllWs => true
  | .ignoreAllWs, .ignoreAllWs => true
  | _, _ => false

theorem norm_weaken (c c' : Compare) (h : c.le c' = true) (a b : Bytes) (hab : c.norm a = c.norm b) :
    c'.norm a = c'.norm b := by
  cases c <;> cases c' <;> simp [Compare.le] at h <;> simp only [Compare.norm] at hab ⊢
  · rw [hab]
  · rw [hab]
  · rw [hab]
  · exact hab
  · unfold normWsAmount at hab
    rw [← normAllWs_normFrom false a, ← normAllWs_normFrom false b, hab]
  · exact hab

end JjModel.Diff
