import JjModel.Lemmas.DiffRefine
import JjModel.Lemmas.DiffNorm
/-!
  Matching: every unchanged region of a built diff carries, on all sides, byte strings that are equal
  under the comparison (`build_match`).
-/
namespace JjModel.Diff

/-- the slices of region `r` are equal under `c` on all sides (stated relative to side 0) -/
def MatchOK (c : Compare) (inputs : List Bytes) (r : Region) : Prop :=
  ∀ i, i < inputs.length →
    c.norm (slice (inputs.getD i []) (r.getD i ⟨0, 0⟩)) = c.norm (slice (inputs.getD 0 []) (r.getD 0 ⟨0, 0⟩))

theorem MatchOK.weaken {c c' : Compare} {inputs : List Bytes} {r : Region} (h : MatchOK c inputs r)
    (hle : c.le c' = true) : MatchOK c' inputs r :=
  fun i hi => norm_weaken c c' hle _ _ (h i hi)

/-- matched positions join equal words, for every other source -/
def ColsEq (c : Compare) (base : Source) (others : List Source) (ps : List (Nat × List Nat)) : Prop :=
  ∀ p ∈ ps, p.2.length = others.length ∧ p.1 < base.ranges.length ∧
    ∀ j (hj : j < others.length), (base.words c)[p.1]? = ((others[j]).words c)[p.2.getD j 0]?

theorem intersect_colsEq (c : Compare) (base : Source) (done : List Source) (o : Source)
    (cur : List (Nat × List Nat)) (hc : ColsEq c base done cur) (new : List (Nat × Nat))
    (hn : ∀ q ∈ new, (base.words c)[q.1]? = (o.words c)[q.2]?) :
    ColsEq c base (done ++ [o]) (intersectUnchangedWords cur new) := by
  intro p hp
  obtain ⟨os, no, h1, h2, h3⟩ := intersect_shape cur new p hp
  obtain ⟨hl, hb, he⟩ := hc _ h2
  simp only at hl
  refine ⟨by rw [h1, List.length_append, hl]; simp, hb, ?_⟩
  intro j hj
  simp only [List.length_append, List.length_singleton] at hj
  by_cases hjd : j < done.length
  · have e : (done ++ [o])[j] = done[j] := by simp [List.getElem_append_left hjd]
    have e2 : p.2.getD j 0 = os.getD j 0 := by
      rw [h1]; simp [List.getD, List.getElem?_append_left (show j < os.length by omega)]
    rw [e, e2]; exact he j hjd
  · have hjeq : j = done.length := by omega
    subst hjeq
    have e : (done ++ [o])[done.length] = o := by simp
    have e2 : p.2.getD done.length 0 = no := by rw [h1]; simp [List.getD, ← hl]
    rw [e, e2]; exact hn _ h3

theorem win_eq {α : Type} [DecidableEq α] (left right : List α) (l : List (Nat × Nat))
    (h : Win left right 0 0 0 0 left.length right.length l) :
    ∀ q ∈ l, left[q.1]? = right[q.2]? ∧ q.1 < left.length := by
  intro q hq
  have := h.2 q hq
  exact ⟨by simpa using this.2.2.2.2, this.2.2.1⟩

theorem fold_colsEq (c : Compare) (base : Source) (tail done : List Source) (cur : List (Nat × List Nat))
    (hc : ColsEq c base done cur) :
    ColsEq c base (done ++ tail)
      (tail.foldl (fun cur other => intersectUnchangedWords cur (unchangedWords (base.words c) (other.words c))) cur) := by
  induction tail generalizing done cur with
  | nil => simpa using hc
  | cons o t ih =>
    simp only [List.foldl_cons]
    have hw := win_eq _ _ _ (unchangedWords_ok (base.words c) (o.words c))
    have := ih (done ++ [o]) _ (intersect_colsEq c base done o cur hc _ (fun q hq => (hw q hq).1))
    simpa using this

theorem getElem?_words (c : Compare) (s : Source) (k : Nat) :
    (s.words c)[k]? = (s.ranges[k]?).map fun r => c.norm (slice s.text r) := by
  simp [Source.words]

theorem fromWordPositions_match (c : Compare) (base : Source) (others : List Source) (p : Nat × List Nat)
    (hl : p.2.length = others.length) (hb : p.1 < base.ranges.length)
    (he : ∀ j (hj : j < others.length), (base.words c)[p.1]? = ((others[j]).words c)[p.2.getD j 0]?) :
    MatchOK c (base.text :: others.map (·.text)) (fromWordPositions base others p.1 p.2) := by
  intro i hi
  cases i with
  | zero => rfl
  | succ j =>
    have hj : j < others.length := by simpa using hi
    have h1 : (base.text :: others.map (·.text)).getD (j + 1) [] = (others[j]).text := by
      simp [List.getD, hj]
    have h2 : (fromWordPositions base others p.1 p.2).getD (j + 1) ⟨0, 0⟩ =
        (others[j]).ranges.getD (p.2.getD j 0) ⟨0, 0⟩ := by
      show (List.zipWith Source.rangeAt others p.2).getD j ⟨0, 0⟩ = _
      rw [getD_zipWith Source.rangeAt others p.2 j ⟨[], []⟩ 0 ⟨0, 0⟩ hj (by rw [hl]; exact hj)]
      simp [Source.rangeAt, List.getD, hj]
    have h3 : (fromWordPositions base others p.1 p.2).getD 0 ⟨0, 0⟩ = base.ranges.getD p.1 ⟨0, 0⟩ := rfl
    have h4 : (base.text :: others.map (·.text)).getD 0 [] = base.text := rfl
    rw [h1, h2, h3, h4]
    have := he j hj
    rw [getElem?_words, getElem?_words, List.getElem?_eq_getElem hb] at this
    simp only [Option.map_some] at this
    cases ho : (others[j]).ranges[p.2.getD j 0]? with
    | none => rw [ho] at this; simp at this
    | some r =>
      rw [ho] at this
      simp only [Option.map_some, Option.some.injEq] at this
      simp only [List.getD] at ho ⊢
      simp only [ho, List.getElem?_eq_getElem hb, Option.getD_some]
      exact this.symm

theorem matchOK_of_empty (c : Compare) (inputs : List Bytes) (r : Region)
    (h : ∀ i, i < inputs.length → (r.getD i ⟨0, 0⟩).hi ≤ (r.getD i ⟨0, 0⟩).lo) : MatchOK c inputs r := by
  intro i hi
  have e : ∀ k, k < inputs.length → slice (inputs.getD k []) (r.getD k ⟨0, 0⟩) = [] := by
    intro k hk
    have := h k hk
    simp only [slice]
    have : (r.getD k ⟨0, 0⟩).hi - (r.getD k ⟨0, 0⟩).lo = 0 := by omega
    rw [this]; simp
  rw [e i hi, e 0 (by omega)]

theorem regions_of_colsEq (c : Compare) (base : Source) (others : List Source) (ps : List (Nat × List Nat))
    (hps : ColsEq c base others ps) :
    ∀ r ∈ startRegion others :: (ps.map (fun p => fromWordPositions base others p.1 p.2) ++
      [stopRegion base others]), MatchOK c (base.text :: others.map (·.text)) r := by
  intro r hr
  simp only [List.mem_cons, List.mem_append, List.mem_map, List.not_mem_nil, or_false] at hr
  rcases hr with rfl | ⟨p, hp, rfl⟩ | rfl
  · apply matchOK_of_empty
    intro i hi
    cases i with
    | zero => simp [startRegion]
    | succ j =>
      have hj : j < others.length := by simpa using hi
      simp [startRegion, List.getD, hj]
  · obtain ⟨h1, h2, h3⟩ := hps p hp
    exact fromWordPositions_match c base _ p h1 h2 h3
  · apply matchOK_of_empty
    intro i hi
    cases i with
    | zero => simp [stopRegion]
    | succ j =>
      have hj : j < others.length := by simpa using hi
      simp [stopRegion, List.getD, hj]

theorem rawRegions_match (c : Compare) (base : Source) (others : List Source) :
    ∀ r ∈ rawRegions c base others, MatchOK c (base.text :: others.map (·.text)) r := by
  cases others with
  | nil =>
    intro r hr i hi
    have : i = 0 := by simpa using hi
    subst this; rfl
  | cons first tail =>
    have hwin := win_eq _ _ _ (unchangedWords_ok (base.words c) (first.words c))
    have hinit : ColsEq c base [first]
        ((unchangedWords (base.words c) (first.words c)).map fun p => (p.1, [p.2])) := by
      intro p hp
      simp only [List.mem_map] at hp
      obtain ⟨q, hq, rfl⟩ := hp
      refine ⟨rfl, by have := (hwin q hq).2; rwa [length_words] at this, ?_⟩
      intro j hj
      have : j = 0 := by simpa using hj
      subst this
      simpa using (hwin q hq).1
    rw [rawRegions]
    dsimp only
    by_cases ht : tail.isEmpty = true
    · have htail : tail = [] := by simpa using ht
      subst htail
      have := regions_of_colsEq c base [first] _ hinit
      simpa [List.map_map, Function.comp_def, startRegion, stopRegion] using this
    · simp only [ht]
      have hcols := fold_colsEq c base tail [first] _ hinit
      have := regions_of_colsEq c base (first :: tail) _ (by simpa using hcols)
      simpa [startRegion, stopRegion] using this

/-! ### compaction -/

/-- `lo ≤ hi` on every side -/
def RngsOK (n : Nat) (r : Region) : Prop := ∀ i, i < n → (r.getD i ⟨0, 0⟩).lo ≤ (r.getD i ⟨0, 0⟩).hi

theorem mergeRegion_match (c : Compare) (inputs : List Bytes) (p q : Region)
    (hp : p.length = inputs.length) (hq : q.length = inputs.length)
    (hpo : RngsOK inputs.length p) (hqo : RngsOK inputs.length q) (hadj : adjacent p q = true)
    (mp : MatchOK c inputs p) (mq : MatchOK c inputs q) :
    MatchOK c inputs (mergeRegion p q) ∧ RngsOK inputs.length (mergeRegion p q) := by
  rw [adjacent_iff] at hadj
  have hs : ∀ i, i < inputs.length →
      slice (inputs.getD i []) ((mergeRegion p q).getD i ⟨0, 0⟩) =
        slice (inputs.getD i []) (p.getD i ⟨0, 0⟩) ++ slice (inputs.getD i []) (q.getD i ⟨0, 0⟩) := by
    intro i hi
    have h1 := hpo i hi
    have h2 := hqo i hi
    have h3 := hadj i (by omega) (by omega)
    rw [mergeRegion_at p q i (by omega) (by omega)]
    have := slice_append (inputs.getD i []) (p.getD i ⟨0, 0⟩).lo (p.getD i ⟨0, 0⟩).hi (q.getD i ⟨0, 0⟩).hi h1
      (by omega)
    rw [← this]
    congr 2
    rw [h3]
  refine ⟨?_, ?_⟩
  · intro i hi
    rw [hs i hi, hs 0 (by omega)]
    exact norm_append_congr c _ _ _ _ (mp i hi) (mq i hi)
  · intro i hi
    rw [mergeRegion_at p q i (by omega) (by omega)]
    have h1 := hpo i hi
    have h2 := hqo i hi
    have h3 := hadj i (by omega) (by omega)
    simp only; omega

theorem compactGo_match (c : Compare) (inputs : List Bytes) (rest : List Region) (prev : Region)
    (hp : prev.length = inputs.length) (hr : ∀ r ∈ rest, r.length = inputs.length)
    (op : RngsOK inputs.length prev) (or : ∀ r ∈ rest, RngsOK inputs.length r)
    (mp : MatchOK c inputs prev) (mr : ∀ r ∈ rest, MatchOK c inputs r) :
    ∀ r ∈ compactGo (some prev) rest, MatchOK c inputs r := by
  induction rest generalizing prev with
  | nil => intro r hrm; simp [compactGo] at hrm; subst hrm; exact mp
  | cons cur rest ih =>
    have hc := hr cur (by simp)
    have hr' : ∀ r ∈ rest, r.length = inputs.length := fun r h => hr r (by simp [h])
    have or' : ∀ r ∈ rest, RngsOK inputs.length r := fun r h => or r (by simp [h])
    have mr' : ∀ r ∈ rest, MatchOK c inputs r := fun r h => mr r (by simp [h])
    rw [compactGo]
    split
    · rename_i hadj
      obtain ⟨m1, m2⟩ := mergeRegion_match c inputs prev cur hp hc op (or cur (by simp)) hadj mp (mr cur (by simp))
      exact ih _ (length_mergeRegion _ _ _ hp hc) hr' m2 or' m1 mr'
    · intro r hrm
      simp only [List.mem_cons] at hrm
      rcases hrm with rfl | hrm
      · exact mp
      · exact ih cur hc hr' (or cur (by simp)) or' (mr cur (by simp)) mr' r hrm

theorem chainOK_mem (len : Nat) (l : List Rng) (pos : Nat) (h : chainOK len pos l = true) :
    ∀ r ∈ l, pos ≤ r.lo ∧ r.lo ≤ r.hi ∧ r.hi ≤ len := by
  induction l generalizing pos with
  | nil => simp
  | cons x xs ih =>
    simp only [chainOK, Bool.and_eq_true, decide_eq_true_eq] at h
    intro r hr
    simp only [List.mem_cons] at hr
    rcases hr with rfl | hr
    · exact ⟨h.1.1, h.1.2, chainOK_le _ _ _ h.2⟩
    · have := ih _ h.2 r hr; exact ⟨by omega, this.2⟩

/-- bounds of every range of well-formed regions -/
theorem regionsWF_bounds (inputs : List Bytes) (regions : List Region) (h : RegionsWF inputs regions) :
    ∀ r ∈ regions, ∀ i, i < inputs.length →
      (r.getD i ⟨0, 0⟩).lo ≤ (r.getD i ⟨0, 0⟩).hi ∧ (r.getD i ⟨0, 0⟩).hi ≤ (inputs.getD i []).length := by
  intro r hr i hi
  have hs := (sideOK_iff _ _).mp (h.sides i hi)
  have := chainOK_mem _ _ _ hs.2 (r.getD i ⟨0, 0⟩) (List.mem_map_of_mem (f := fun r => r.getD i ⟨0, 0⟩) hr)
  exact ⟨this.2.1, this.2.2⟩

theorem compact_match (c : Compare) (inputs : List Bytes) (regions : List Region)
    (hw : RegionsWF inputs regions) (hm : ∀ r ∈ regions, MatchOK c inputs r) :
    ∀ r ∈ compact regions, MatchOK c inputs r := by
  cases regions with
  | nil => simp [compact, compactGo]
  | cons first rest =>
    have hb := regionsWF_bounds inputs _ hw
    simp only [compact, compactGo]
    exact compactGo_match c inputs rest first (hw.arity _ (by simp)) (fun r h => hw.arity r (by simp [h]))
      (fun i hi => (hb first (by simp) i hi).1) (fun r h i hi => (hb r (by simp [h]) i hi).1)
      (hm first (by simp)) (fun r h => hm r (by simp [h]))

theorem forTokenizer_match (inputs : List Bytes) (tok : Tokenizer) (c : Compare) (d : ContentDiff)
    (h : forTokenizer inputs tok c = some d) : ∀ r ∈ d.regions, MatchOK c inputs r := by
  obtain ⟨htext, htok⟩ := tokenize_ok tok inputs
  unfold forTokenizer at h
  cases hs : tokenize tok inputs with
  | nil => rw [hs] at h; cases h
  | cons base others =>
    rw [hs] at h htext htok
    simp only [Option.some.injEq] at h
    subst h
    simp only [List.map_cons] at htext
    rw [← htext]
    exact compact_match c _ _ (rawRegions_wf c base others (htok base (by simp))
      (fun o ho => htok o (by simp [ho]))) (rawRegions_match c base others)

theorem slice_slice (t : Bytes) (a b x y : Nat) (hy : y ≤ b - a) :
    slice (slice t ⟨a, b⟩) ⟨x, y⟩ = slice t ⟨x + a, y + a⟩ := by
  simp only [slice, List.drop_take, List.take_take, List.drop_drop]
  have e1 : y + a - (x + a) = y - x := by omega
  have e2 : min (y - x) (b - a - x) = y - x := by omega
  rw [e1, e2, Nat.add_comm a x]

/-- the list that `refine_changed_regions` compacts is well formed -/
theorem refineList_wf (d : ContentDiff) (tok : Tokenizer) (c : Compare) (first : Region) (rest : List Region)
    (hreg : d.regions = first :: rest) (h : RegionsWF d.inputs d.regions) :
    RegionsWF d.inputs (first :: refineGo d.inputs tok c first rest) := by
  rw [hreg] at h
  have hf : first.length = d.inputs.length := h.arity first (by simp)
  have hr : ∀ r ∈ rest, r.length = d.inputs.length := fun r hr => h.arity r (by simp [hr])
  have hside : ∀ i, i < d.inputs.length → (first.getD i ⟨0, 0⟩).lo = 0 ∧
      (first.getD i ⟨0, 0⟩).lo ≤ (first.getD i ⟨0, 0⟩).hi ∧
      chainOK (d.inputs.getD i []).length (first.getD i ⟨0, 0⟩).hi (side i rest) = true := by
    intro i hi
    have := h.sides i hi
    simp only [side_cons, sideOK, Bool.and_eq_true, decide_eq_true_eq] at this
    exact ⟨this.1.1, this.1.2, this.2⟩
  obtain ⟨g1, g2⟩ := refineGo_wf d.inputs tok c rest first hf hr (fun i hi => (hside i hi).2.2)
  refine ⟨?_, ?_⟩
  · intro r hrm
    simp only [List.mem_cons] at hrm
    rcases hrm with rfl | hrm
    · exact hf
    · exact g1 r hrm
  · intro i hi
    simp only [side_cons, sideOK, Bool.and_eq_true, decide_eq_true_eq]
    exact ⟨⟨(hside i hi).1, (hside i hi).2.1⟩, g2 i hi⟩

theorem refineGo_match (c0 : Compare) (inputs : List Bytes) (tok : Tokenizer) (c : Compare)
    (hle : c.le c0 = true) (rest : List Region) (prev : Region)
    (hp : prev.length = inputs.length) (hr : ∀ r ∈ rest, r.length = inputs.length)
    (hch : ∀ i, i < inputs.length →
      chainOK (inputs.getD i []).length (prev.getD i ⟨0, 0⟩).hi (side i rest) = true)
    (mr : ∀ r ∈ rest, MatchOK c0 inputs r) :
    ∀ r ∈ refineGo inputs tok c prev rest, MatchOK c0 inputs r := by
  induction rest generalizing prev with
  | nil => simp [refineGo]
  | cons cur rest ih =>
    have hc : cur.length = inputs.length := hr cur (by simp)
    have hr' : ∀ r ∈ rest, r.length = inputs.length := fun r h => hr r (by simp [h])
    have hch' : ∀ i, i < inputs.length →
        (prev.getD i ⟨0, 0⟩).hi ≤ (cur.getD i ⟨0, 0⟩).lo ∧ (cur.getD i ⟨0, 0⟩).lo ≤ (cur.getD i ⟨0, 0⟩).hi ∧
        chainOK (inputs.getD i []).length (cur.getD i ⟨0, 0⟩).hi (side i rest) = true := by
      intro i hi
      have := hch i hi
      simp only [side_cons, chainOK, Bool.and_eq_true, decide_eq_true_eq] at this
      exact ⟨this.1.1, this.1.2, this.2⟩
    have ih' := ih cur hc hr' (fun i hi => (hch' i hi).2.2) (fun r h => mr r (by simp [h]))
    rw [refineGo]
    have hbl : (between prev cur).length = inputs.length := length_between _ _ _ hp hc
    have hcl : (List.zipWith slice inputs (between prev cur)).length = inputs.length := by
      simp [List.length_zipWith, hbl]
    intro r hrm
    simp only [List.mem_append, List.mem_map, List.mem_cons] at hrm
    rcases hrm with ⟨r0, hr0, rfl⟩ | rfl | hrm
    · cases hd : forTokenizer (List.zipWith slice inputs (between prev cur)) tok c with
      | none => rw [hd] at hr0; simp at hr0
      | some d =>
        rw [hd] at hr0
        simp only at hr0
        obtain ⟨_, hwf⟩ := forTokenizer_wf _ tok c d hd
        have hm := forTokenizer_match _ tok c d hd r0 hr0
        have hb := regionsWF_bounds _ _ hwf r0 hr0
        have har : r0.length = inputs.length := by rw [hwf.arity r0 hr0, hcl]
        apply MatchOK.weaken _ hle
        have key : ∀ i, i < inputs.length →
            slice (inputs.getD i []) ((shiftRegion prev r0).getD i ⟨0, 0⟩) =
              slice ((List.zipWith slice inputs (between prev cur)).getD i []) (r0.getD i ⟨0, 0⟩) := by
          intro i hi
          obtain ⟨h1, h2, h3⟩ := hch' i hi
          have hle' : (cur.getD i ⟨0, 0⟩).hi ≤ (inputs.getD i []).length := chainOK_le _ _ _ h3
          have hci : (List.zipWith slice inputs (between prev cur)).getD i [] =
              slice (inputs.getD i []) ⟨(prev.getD i ⟨0, 0⟩).hi, (cur.getD i ⟨0, 0⟩).lo⟩ := by
            rw [getD_zipWith slice inputs (between prev cur) i [] ⟨0, 0⟩ [] hi (by rw [hbl]; exact hi),
              between_at prev cur i (by rw [hp]; exact hi) (by rw [hc]; exact hi)]
          have hbi := hb i (by rw [hcl]; exact hi)
          rw [hci, length_slice_le _ _ _ h1 (by omega)] at hbi
          rw [hci, shiftRegion_at prev r0 i (by rw [har]; exact hi) (by rw [hp]; exact hi)]
          have := slice_slice (inputs.getD i []) (prev.getD i ⟨0, 0⟩).hi (cur.getD i ⟨0, 0⟩).lo
            (r0.getD i ⟨0, 0⟩).lo (r0.getD i ⟨0, 0⟩).hi hbi.2
          rw [this]
        intro i hi
        rw [key i hi, key 0 (by omega)]
        have := hm i (by rw [hcl]; exact hi)
        exact this
    · exact mr _ (by simp)
    · exact ih' r hrm

theorem refine_match (c0 : Compare) (d : ContentDiff) (tok : Tokenizer) (c : Compare) (hle : c.le c0 = true)
    (h : RegionsWF d.inputs d.regions) (hm : ∀ r ∈ d.regions, MatchOK c0 d.inputs r) :
    ∀ r ∈ (d.refine tok c).regions, MatchOK c0 d.inputs r := by
  unfold ContentDiff.refine
  cases hreg : d.regions with
  | nil => simp only; rw [hreg] at hm; rw [hreg]; exact hm
  | cons first rest =>
    simp only
    have hwf := refineList_wf d tok c first rest hreg h
    rw [hreg] at h hm
    apply compact_match c0 _ _ hwf
    intro r hrm
    simp only [List.mem_cons] at hrm
    rcases hrm with rfl | hrm
    · exact hm _ (by simp)
    · have hside : ∀ i, i < d.inputs.length →
          chainOK (d.inputs.getD i []).length (first.getD i ⟨0, 0⟩).hi (side i rest) = true := by
        intro i hi
        have := h.sides i hi
        simp only [side_cons, sideOK, Bool.and_eq_true, decide_eq_true_eq] at this
        exact this.2
      exact refineGo_match c0 d.inputs tok c hle rest first (h.arity first (by simp))
        (fun r hr => h.arity r (by simp [hr])) hside (fun r hr => hm r (by simp [hr])) r hrm

/-- **(c)** all unchanged regions of a built diff are equal on every side under any comparison at least
as weak as every comparison used. -/
theorem build_match (c0 : Compare) (inputs : List Bytes) (steps : List (Tokenizer × Compare))
    (hle : ∀ s ∈ steps, s.2.le c0 = true) (d : ContentDiff) (h : build inputs steps = some d) :
    ∀ r ∈ d.regions, MatchOK c0 inputs r := by
  cases steps with
  | nil => simp [build] at h
  | cons s steps =>
    obtain ⟨t, c⟩ := s
    simp only [build, Option.map_eq_some_iff] at h
    obtain ⟨d0, hd0, rfl⟩ := h
    obtain ⟨e0, w0⟩ := forTokenizer_wf inputs t c d0 hd0
    have m0 : ∀ r ∈ d0.regions, MatchOK c0 inputs r := fun r hr =>
      (forTokenizer_match inputs t c d0 hd0 r hr).weaken (hle (t, c) (by simp))
    have hle' : ∀ s ∈ steps, s.2.le c0 = true := fun s hs => hle s (by simp [hs])
    clear hd0 hle
    induction steps generalizing d0 with
    | nil => exact m0
    | cons s steps ih =>
      simp only [List.foldl_cons]
      have hw := refine_wf d0 s.1 s.2 (by rw [e0]; exact w0)
      rw [e0] at hw
      have hm := refine_match c0 d0 s.1 s.2 (hle' s (by simp)) (by rw [e0]; exact w0) (by rw [e0]; exact m0)
      rw [e0] at hm
      exact ih _ hw.1 hw.2 hm (fun s' hs' => hle' s' (by simp [hs']))

theorem hunksFrom_matching_mem (rest : List Region) (prev : Region) :
    ∀ h ∈ hunksFrom prev rest, h.kind = .matching → h.ranges ∈ rest := by
  induction rest generalizing prev with
  | nil => simp [hunksFrom]
  | cons cur rest ih =>
    intro h hh hk
    rw [hunksFrom] at hh
    split at hh
    · simp only [List.mem_cons] at hh
      rcases hh with rfl | hh
      · cases hk
      · exact List.mem_cons_of_mem _ (ih cur h hh hk)
    · simp only [List.mem_cons] at hh
      rcases hh with rfl | rfl | hh
      · cases hk
      · simp
      · exact List.mem_cons_of_mem _ (ih cur h hh hk)

theorem hunkRangesOf_matching_mem (regions : List Region) :
    ∀ h ∈ hunkRangesOf regions, h.kind = .matching → h.ranges ∈ regions := by
  cases regions with
  | nil => simp [hunkRangesOf]
  | cons first rest =>
    intro h hh hk
    rw [hunkRangesOf] at hh
    split at hh
    · exact List.mem_cons_of_mem _ (hunksFrom_matching_mem rest first h hh hk)
    · simp only [List.mem_cons] at hh
      rcases hh with rfl | hh
      · simp
      · exact List.mem_cons_of_mem _ (hunksFrom_matching_mem rest first h hh hk)

end JjModel.Diff
