import JjModel.Model.Peg
/-!
  Termination of the PEG interpreter on well-formed grammars (C36 `peg_terminates`).

  `wellFormedWith g N rk` checks, for every rule body `b` at index `i`:
    * `nullable N b → N[i]`        (`N` over-approximates "succeeds without consuming");
    * `lrank N rk b ≤ rk[i]`       (every rule that can be entered from `b` before input is
                                    consumed has a smaller rank: no left recursion);
    * `starsOK N b`                (no `*` over an expression that may succeed on nothing).
  Measure of a call `run … e s`:  `|s| * W + lrank e * K + size e`  with `K = bodyBound g + 1`
  and `W = (max rk + 2) * K` (more than the weight of any expression of size ≤ `bodyBound g`).
  Every recursive call of `run` is on a strictly smaller measure; fuel above the measure never
  runs out.
-/
namespace JjModel.Peg

theorem stripPrefix_length {ins : Bool} : ∀ {p : List Nat} {s t : List Char},
    stripPrefix ins p s = some t → t.length + p.length = s.length := by
  intro p
  induction p with
  | nil => intro s t h; simp [stripPrefix] at h; subst h; simp
  | cons a p ih =>
    intro s t h
    cases s with
    | nil => simp [stripPrefix] at h
    | cons c cs =>
      simp only [stripPrefix] at h
      split at h
      · have := ih h; simp; omega
      · simp at h

theorem checkFrom_get {N : List Bool} {rk : List Nat} : ∀ (l : List Expr) (i k : Nat) (b : Expr),
    checkFrom N rk i l = true → l[k]? = some b →
    (nullable N b = true → N.getD (i + k) true = true) ∧ lrank N rk b ≤ rk.getD (i + k) 0 ∧ starsOK N b = true := by
  intro l
  induction l with
  | nil => intro i k b _ h; simp at h
  | cons x xs ih =>
    intro i k b hc hk
    simp only [checkFrom, Bool.and_eq_true, Bool.or_eq_true, Bool.not_eq_true', decide_eq_true_eq] at hc
    obtain ⟨⟨⟨h1, h2⟩, h3⟩, h4⟩ := hc
    cases k with
    | zero =>
      simp at hk; subst hk
      refine ⟨?_, h2, h3⟩
      intro hn
      cases h1 with
      | inl h => rw [hn] at h; cases h
      | inr h => simpa using h
    | succ k =>
      simp at hk
      have := ih (i + 1) k b h4 hk
      have e : i + 1 + k = i + (k + 1) := by omega
      rw [e] at this
      exact this

/-- a successful run returns a suffix no longer than its input, and if nothing was consumed the
expression is `nullable` according to `N` -/
theorem run_ok {g : List Expr} {N : List Bool} {rk : List Nat} {total : Nat}
    (hwf : wellFormedWith g N rk = true) :
    ∀ (n : Nat) (e : Expr) (s t : List Char), run g total n e s = .ok t →
      t.length ≤ s.length ∧ (s.length ≤ t.length → nullable N e = true) := by
  intro n
  induction n with
  | zero => intro e s t h; simp [run] at h
  | succ n ih =>
    intro e s t h
    cases e with
    | chr p =>
      cases s with
      | nil => simp [run] at h
      | cons c cs =>
        simp only [run] at h
        split at h
        · injection h with h; subst h; simp; omega
        · cases h
    | str cs =>
      simp only [run] at h
      split at h
      · rename_i t' hs; injection h with h; subst h
        have := stripPrefix_length hs
        refine ⟨by omega, ?_⟩
        intro hl
        have : cs.length = 0 := by omega
        simp [nullable, List.length_eq_zero_iff.mp this]
      · cases h
    | insens cs =>
      simp only [run] at h
      split at h
      · rename_i t' hs; injection h with h; subst h
        have := stripPrefix_length hs
        refine ⟨by omega, ?_⟩
        intro hl
        have : cs.length = 0 := by omega
        simp [nullable, List.length_eq_zero_iff.mp this]
      · cases h
    | soi =>
      simp only [run] at h
      split at h
      · injection h with h; subst h; simp [nullable]
      · cases h
    | eoi =>
      simp only [run] at h
      split at h
      · injection h with h; subst h; simp [nullable]
      · cases h
    | ref i =>
      simp only [run] at h
      split at h
      · rename_i b hb
        have hh := ih b s t h
        have hc := checkFrom_get g 0 i b hwf hb
        refine ⟨hh.1, ?_⟩
        intro hl
        have := hc.1 (hh.2 hl)
        simpa [nullable] using this
      · cases h
    | seq a b =>
      simp only [run] at h
      generalize hr : run g total n a s = r at h
      cases r with
      | oof => simp at h
      | fail => simp at h
      | ok t1 =>
        simp only at h
        have h1 := ih a s t1 hr
        have h2 := ih b t1 t h
        refine ⟨by omega, ?_⟩
        intro hl
        simp [nullable, h1.2 (by omega), h2.2 (by omega)]
    | alt a b =>
      simp only [run] at h
      generalize hr : run g total n a s = r at h
      cases r with
      | oof => simp at h
      | fail =>
        simp only at h
        have h2 := ih b s t h
        refine ⟨h2.1, ?_⟩
        intro hl
        simp [nullable, h2.2 hl]
      | ok t1 =>
        simp only at h
        injection h with h; subst h
        have h1 := ih a s t1 hr
        refine ⟨h1.1, ?_⟩
        intro hl
        simp [nullable, h1.2 hl]
    | star a =>
      simp only [run] at h
      generalize hr : run g total n a s = r at h
      cases r with
      | oof => simp at h
      | fail => simp only at h; injection h with h; subst h; simp [nullable]
      | ok t1 =>
        simp only at h
        have h1 := ih a s t1 hr
        have h2 := ih (.star a) t1 t h
        exact ⟨by omega, fun _ => by simp [nullable]⟩
    | not a =>
      simp only [run] at h
      generalize hr : run g total n a s = r at h
      cases r with
      | oof => simp at h
      | fail => simp only at h; injection h with h; subst h; simp [nullable]
      | ok t1 => simp at h

theorem le_maxList : ∀ {l : List Nat} {x : Nat}, x ∈ l → x ≤ maxList l := by
  intro l
  induction l with
  | nil => intro x h; cases h
  | cons a l ih =>
    intro x h
    simp only [maxList]
    cases h with
    | head => omega
    | tail _ h => have := ih h; omega

theorem getD_le_maxList (l : List Nat) (i : Nat) : l.getD i 0 ≤ maxList l := by
  rw [List.getD_eq_getElem?_getD]
  cases h : l[i]? with
  | none => simp
  | some x => simpa using le_maxList (List.mem_of_getElem? h)

theorem lrank_le (N : List Bool) (rk : List Nat) : ∀ e : Expr, lrank N rk e ≤ maxList rk + 1 := by
  intro e
  induction e with
  | ref i => simp only [lrank]; have := getD_le_maxList rk i; omega
  | seq a b iha ihb => simp only [lrank]; split <;> omega
  | alt a b iha ihb => simp only [lrank]; omega
  | star a ih => simpa [lrank] using ih
  | not a ih => simpa [lrank] using ih
  | _ => simp [lrank]

theorem size_body_le {g : List Expr} {i : Nat} {b : Expr} (h : g[i]? = some b) : size b < bodyBound g := by
  have : size b ∈ g.map size := List.mem_map.mpr ⟨b, List.mem_of_getElem? h, rfl⟩
  have := le_maxList this
  simp only [bodyBound]; omega

theorem size_pos (e : Expr) : 0 < size e := by cases e <;> simp [size]

/-- the weight of an expression no larger than a rule body is below the weight of one position -/
theorem weight_lt (g : List Expr) (N : List Bool) (rk : List Nat) (e : Expr) (h : size e ≤ bodyBound g) :
    lrank N rk e * (bodyBound g + 1) + size e < posWeight g rk := by
  have h1 := lrank_le N rk e
  have h2 : lrank N rk e * (bodyBound g + 1) ≤ (maxList rk + 1) * (bodyBound g + 1) := Nat.mul_le_mul_right _ h1
  have h3 : posWeight g rk = (maxList rk + 1) * (bodyBound g + 1) + (bodyBound g + 1) := by
    simp only [posWeight]; rw [show maxList rk + 2 = (maxList rk + 1) + 1 from rfl, Nat.succ_mul]
  omega

/-- the measure of a call -/
def need (g : List Expr) (N : List Bool) (rk : List Nat) (e : Expr) (s : List Char) : Nat :=
  s.length * posWeight g rk + lrank N rk e * (bodyBound g + 1) + size e

theorem need_shorter (g : List Expr) (N : List Bool) (rk : List Nat) (e e' : Expr) (s t : List Char)
    (hs : size e ≤ bodyBound g) (hl : t.length < s.length) : need g N rk e t < need g N rk e' s := by
  have h1 := weight_lt g N rk e hs
  have h2 : (t.length + 1) * posWeight g rk ≤ s.length * posWeight g rk := Nat.mul_le_mul_right _ hl
  rw [Nat.succ_mul] at h2
  simp only [need]
  have := size_pos e'
  omega

theorem need_same (g : List Expr) (N : List Bool) (rk : List Nat) (e e' : Expr) (s : List Char)
    (hr : lrank N rk e ≤ lrank N rk e') (hs : size e < size e') : need g N rk e s < need g N rk e' s := by
  have h2 : lrank N rk e * (bodyBound g + 1) ≤ lrank N rk e' * (bodyBound g + 1) := Nat.mul_le_mul_right _ hr
  simp only [need]
  omega

/-- **Termination.**  With a well-formed grammar, fuel above the measure of the call is enough. -/
theorem run_no_oof {g : List Expr} {N : List Bool} {rk : List Nat} {total : Nat}
    (hwf : wellFormedWith g N rk = true) :
    ∀ (n : Nat) (e : Expr) (s : List Char), size e ≤ bodyBound g → starsOK N e = true →
      need g N rk e s < n → run g total n e s ≠ .oof := by
  intro n
  induction n with
  | zero => intro e s _ _ h; omega
  | succ n ih =>
    intro e s hsz hst hn
    cases e with
    | chr p =>
      cases s with
      | nil => simp [run]
      | cons c cs => simp only [run]; split <;> simp
    | str cs => simp only [run]; split <;> simp
    | insens cs => simp only [run]; split <;> simp
    | soi => simp only [run]; split <;> simp
    | eoi => simp only [run]; split <;> simp
    | ref i =>
      simp only [run]
      split
      · rename_i b hb
        have hc := checkFrom_get g 0 i b hwf hb
        have hb' := size_body_le hb
        apply ih b s (by omega) hc.2.2
        have h2 : lrank N rk b * (bodyBound g + 1) ≤ rk.getD (0 + i) 0 * (bodyBound g + 1) := Nat.mul_le_mul_right _ hc.2.1
        simp only [need, lrank, size] at hn ⊢
        rw [Nat.succ_mul] at hn
        simp only [Nat.zero_add] at h2
        omega
      · simp
    | seq a b =>
      simp only [starsOK, Bool.and_eq_true] at hst
      simp only [size] at hsz
      have ha : need g N rk a s < need g N rk (.seq a b) s := by
        apply need_same
        · simp only [lrank]; split <;> omega
        · simp only [size]; omega
      have h1 := ih a s (by omega) hst.1 (by omega)
      simp only [run]
      generalize hr : run g total n a s = r at h1
      cases r with
      | oof => exact absurd rfl h1
      | fail => simp
      | ok t =>
        simp only
        have hk := run_ok hwf n a s t hr
        apply ih b t (by omega) hst.2
        by_cases hlt : t.length < s.length
        · have := need_shorter g N rk b (.seq a b) s t (by omega) hlt; omega
        · have hnull := hk.2 (by omega)
          have hlen : t.length = s.length := by omega
          have : need g N rk b s < need g N rk (.seq a b) s := by
            apply need_same
            · simp only [lrank, hnull, if_true]; omega
            · simp only [size]; omega
          have e : need g N rk b t = need g N rk b s := by simp only [need, hlen]
          omega
    | alt a b =>
      simp only [starsOK, Bool.and_eq_true] at hst
      simp only [size] at hsz
      have ha : need g N rk a s < need g N rk (.alt a b) s := by
        apply need_same
        · simp only [lrank]; omega
        · simp only [size]; omega
      have hb : need g N rk b s < need g N rk (.alt a b) s := by
        apply need_same
        · simp only [lrank]; omega
        · simp only [size]; omega
      have h1 := ih a s (by omega) hst.1 (by omega)
      simp only [run]
      generalize hr : run g total n a s = r at h1
      cases r with
      | oof => exact absurd rfl h1
      | fail => simp only; exact ih b s (by omega) hst.2 (by omega)
      | ok t => simp
    | star a =>
      simp only [starsOK, Bool.and_eq_true, Bool.not_eq_true'] at hst
      simp only [size] at hsz
      have ha : need g N rk a s < need g N rk (.star a) s := by
        apply need_same
        · simp only [lrank]; omega
        · simp only [size]; omega
      have h1 := ih a s (by omega) hst.2 (by omega)
      simp only [run]
      generalize hr : run g total n a s = r at h1
      cases r with
      | oof => exact absurd rfl h1
      | fail => simp
      | ok t =>
        simp only
        have hk := run_ok hwf n a s t hr
        have hlt : t.length < s.length := by
          by_cases hlt : t.length < s.length
          · exact hlt
          · have := hk.2 (by omega); rw [hst.1] at this; cases this
        apply ih (.star a) t (by simp only [size]; omega) (by simp [starsOK, hst.1, hst.2])
        have := need_shorter g N rk (.star a) (.star a) s t (by simp only [size]; omega) hlt
        omega
    | not a =>
      simp only [starsOK] at hst
      simp only [size] at hsz
      have ha : need g N rk a s < need g N rk (.not a) s := by
        apply need_same
        · simp only [lrank]; omega
        · simp only [size]; omega
      have h1 := ih a s (by omega) hst (by omega)
      simp only [run]
      generalize hr : run g total n a s = r at h1
      cases r with
      | oof => exact absurd rfl h1
      | fail => simp
      | ok t => simp

/-- more fuel never changes a result that was reached -/
theorem run_fuel_mono {g : List Expr} {total : Nat} :
    ∀ (n : Nat) (e : Expr) (s : List Char), run g total n e s ≠ .oof →
      ∀ m, n ≤ m → run g total m e s = run g total n e s := by
  intro n
  induction n with
  | zero => intro e s h; simp [run] at h
  | succ n ih =>
    intro e s h m hm
    obtain ⟨m, rfl⟩ : ∃ m', m = m' + 1 := ⟨m - 1, by omega⟩
    have hm' : n ≤ m := by omega
    cases e with
    | chr p => simp [run]
    | str cs => simp [run]
    | insens cs => simp [run]
    | soi => simp [run]
    | eoi => simp [run]
    | ref i =>
      simp only [run] at h ⊢
      split
      · rename_i b hb; simp only [hb] at h; exact ih b s h m hm'
      · rfl
    | seq a b =>
      simp only [run] at h ⊢
      generalize hr : run g total n a s = r at h
      have ha : run g total n a s ≠ .oof := by rw [hr]; intro hc; subst hc; simp at h
      rw [ih a s ha m hm', hr]
      cases r with
      | oof => rfl
      | fail => rfl
      | ok t => simp only at h ⊢; exact ih b t h m hm'
    | alt a b =>
      simp only [run] at h ⊢
      generalize hr : run g total n a s = r at h
      have ha : run g total n a s ≠ .oof := by rw [hr]; intro hc; subst hc; simp at h
      rw [ih a s ha m hm', hr]
      cases r with
      | oof => rfl
      | fail => simp only at h ⊢; exact ih b s h m hm'
      | ok t => rfl
    | star a =>
      simp only [run] at h ⊢
      generalize hr : run g total n a s = r at h
      have ha : run g total n a s ≠ .oof := by rw [hr]; intro hc; subst hc; simp at h
      rw [ih a s ha m hm', hr]
      cases r with
      | oof => rfl
      | fail => rfl
      | ok t => simp only at h ⊢; exact ih (.star a) t h m hm'
    | not a =>
      simp only [run] at h ⊢
      generalize hr : run g total n a s = r at h
      have ha : run g total n a s ≠ .oof := by rw [hr]; intro hc; subst hc; simp at h
      rw [ih a s ha m hm', hr]

end JjModel.Peg
