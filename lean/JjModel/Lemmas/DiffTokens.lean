import JjModel.Model.Diff
/-!
  The tokenizers return non-empty, sorted, non-overlapping, in-bounds ranges.
-/
namespace JjModel.Diff

/-- `pos ≤ r₁.lo < r₁.hi ≤ r₂.lo < r₂.hi ≤ … ≤ len` -/
def tokChain (len : Nat) : Nat → List Rng → Prop
  | pos, [] => pos ≤ len
  | pos, r :: rest => pos ≤ r.lo ∧ r.lo < r.hi ∧ tokChain len r.hi rest

theorem tokChain_mono (len : Nat) (l : List Rng) (p p' : Nat) (h : tokChain len p l) (hp : p' ≤ p) :
    tokChain len p' l := by
  cases l with
  | nil => simp only [tokChain] at h ⊢; omega
  | cons r rest => simp only [tokChain] at h ⊢; exact ⟨by omega, h.2⟩

theorem tokChain_le (len : Nat) (l : List Rng) (p : Nat) (h : tokChain len p l) : p ≤ len := by
  induction l generalizing p with
  | nil => exact h
  | cons r rest ih => simp only [tokChain] at h; have := ih r.hi h.2.2; omega

theorem tokChain_mem (len : Nat) (l : List Rng) (p : Nat) (h : tokChain len p l) :
    ∀ s ∈ l, p ≤ s.lo ∧ s.lo < s.hi ∧ s.hi ≤ len := by
  induction l generalizing p with
  | nil => simp
  | cons r rest ih =>
    simp only [tokChain] at h
    intro s hs
    simp only [List.mem_cons] at hs
    rcases hs with rfl | hs
    · exact ⟨h.1, h.2.1, tokChain_le _ _ _ h.2.2⟩
    · have := ih r.hi h.2.2 s hs; exact ⟨by omega, this.2⟩

/-- tokens as the diff uses them -/
structure TokensOK (len : Nat) (toks : List Rng) : Prop where
  sorted : toks.Pairwise (fun r s => r.hi ≤ s.lo)
  each : ∀ r ∈ toks, r.lo < r.hi ∧ r.hi ≤ len

theorem tokChain_ok (len : Nat) (l : List Rng) (p : Nat) (h : tokChain len p l) : TokensOK len l := by
  induction l generalizing p with
  | nil => exact ⟨List.Pairwise.nil, by simp⟩
  | cons r rest ih =>
    simp only [tokChain] at h
    have ihr := ih r.hi h.2.2
    refine ⟨?_, ?_⟩
    · rw [List.pairwise_cons]
      exact ⟨fun s hs => (tokChain_mem _ _ _ h.2.2 s hs).1, ihr.sorted⟩
    · intro s hs
      simp only [List.mem_cons] at hs
      rcases hs with rfl | hs
      · exact ⟨h.2.1, tokChain_le _ _ _ h.2.2⟩
      · exact ihr.each s hs

theorem lineRangesFrom_chain (t : Bytes) (start pos : Nat) (h : start ≤ pos) :
    tokChain (pos + t.length) start (lineRangesFrom t start pos) := by
  induction t generalizing start pos with
  | nil =>
    rw [lineRangesFrom]
    split
    · simp only [tokChain, List.length_nil]; omega
    · simp only [tokChain, List.length_nil]; omega
  | cons b rest ih =>
    rw [lineRangesFrom]
    split
    · simp only [tokChain, List.length_cons]
      refine ⟨Nat.le_refl _, by omega, ?_⟩
      have := ih (pos + 1) (pos + 1) (Nat.le_refl _)
      have e : pos + 1 + rest.length = pos + (rest.length + 1) := by omega
      rw [e] at this; exact this
    · have := ih start (pos + 1) (by omega)
      have e : pos + 1 + rest.length = pos + (rest.length + 1) := by omega
      rw [e] at this; simpa using this

theorem wordRangesFrom_chain (t : Bytes) (i start : Nat) (inWord : Bool) (h : start ≤ i)
    (hw : inWord = true → start < i) :
    tokChain (i + t.length) start (wordRangesFrom t i start inWord) := by
  induction t generalizing i start inWord with
  | nil =>
    rw [wordRangesFrom]
    split
    · rename_i hc
      simp only [Bool.and_eq_true, decide_eq_true_eq] at hc
      simp only [tokChain, List.length_nil]; omega
    · simp only [tokChain, List.length_nil]; omega
  | cons b rest ih =>
    have e : i + 1 + rest.length = i + (rest.length + 1) := by omega
    rw [wordRangesFrom]
    split
    · rename_i hc
      simp only [Bool.and_eq_true] at hc
      simp only [tokChain, List.length_cons]
      refine ⟨Nat.le_refl _, hw hc.1, ?_⟩
      have := ih (i + 1) i false (by omega) (by simp)
      rw [e] at this; exact this
    · split
      · have := ih (i + 1) i true (by omega) (by intro; omega)
        rw [e] at this
        exact tokChain_mono _ _ _ _ (by simpa using this) h
      · have := ih (i + 1) start inWord (by omega) (by intro hh; have := hw hh; omega)
        rw [e] at this; simpa using this

theorem nonwordRangesFrom_chain (t : Bytes) (i : Nat) :
    tokChain (i + t.length) i (nonwordRangesFrom t i) := by
  induction t generalizing i with
  | nil => simp [nonwordRangesFrom, tokChain]
  | cons b rest ih =>
    have e : i + 1 + rest.length = i + (rest.length + 1) := by omega
    have := ih (i + 1)
    rw [e] at this
    rw [nonwordRangesFrom]
    split
    · simp only [tokChain, List.length_cons]
      exact ⟨Nat.le_refl _, by omega, this⟩
    · exact tokChain_mono _ _ _ _ (by simpa using this) (by omega)

/-- every tokenizer of the public API yields well-formed tokens -/
theorem tokenizer_ok (tok : Tokenizer) (t : Bytes) : TokensOK t.length (tok.run t) := by
  cases tok with
  | line =>
    have := lineRangesFrom_chain t 0 0 (Nat.le_refl _)
    exact tokChain_ok _ _ 0 (by simpa [Tokenizer.run, findLineRanges] using this)
  | word =>
    have := wordRangesFrom_chain t 0 0 false (Nat.le_refl _) (by simp)
    exact tokChain_ok _ _ 0 (by simpa [Tokenizer.run, findWordRanges] using this)
  | nonword =>
    have := nonwordRangesFrom_chain t 0
    exact tokChain_ok _ _ 0 (by simpa [Tokenizer.run, findNonwordRanges] using this)
  | none => exact ⟨by simp [Tokenizer.run], by simp [Tokenizer.run]⟩

end JjModel.Diff
