import JjModel.Lemmas.RevsetOptBase
/-!
  C19 lemmas, part 16: `resolve_visibility` for the grammar that includes the optimizer's
  `HeadsRange` node (whose filter is resolved by `resolve_predicate`).
-/
namespace JjModel.Revset

/-- the grammar of `eval_sound_full`: every modelled expression (with in-range commit literals) -/
def OkEH (g : Graph) : Expr → Prop
  | .none => True
  | .all => True
  | .visibleHeads => True
  | .visibleHeadsOrReferenced => True
  | .root => True
  | .commits l => ∀ x ∈ l, x < g.size
  | .ancestors h _ _ _ => OkEH g h
  | .descendants r _ _ => OkEH g r
  | .range r h _ _ _ => OkEH g r ∧ OkEH g h
  | .dagRange r h => OkEH g r ∧ OkEH g h
  | .heads x => OkEH g x
  | .headsRange r h _ f => OkEH g r ∧ OkEH g h ∧ OkEH g f
  | .roots x => OkEH g x
  | .forkPoint x => OkEH g x
  | .mergePoint x => OkEH g x
  | .forks => True
  | .latest x _ => OkEH g x
  | .coalesce a b => OkEH g a ∧ OkEH g b
  | .notIn x => OkEH g x
  | .union a b => OkEH g a ∧ OkEH g b
  | .inter a b => OkEH g a ∧ OkEH g b
  | .diff a b => OkEH g a ∧ OkEH g b
  | .reachable s d => OkEH g s ∧ OkEH g d

theorem filterOpt_cases (f : Expr) (p : PExpr) :
    (f = .all ∧ filterOpt f p = none) ∨ (f ≠ .all ∧ filterOpt f p = some p) := by
  cases f <;> simp [filterOpt]

section
variable (g : Graph) (hw : g.WF) (refs : List Nat) (hrefs : ∀ x ∈ refs, x < g.size)
include hw hrefs

theorem resolveH_ok : ∀ (e : Expr), OkEH g e →
    OkR g (resolve g refs e) ∧ OkP g (resolvePred g refs e) := by
  have hv := okR_vhor g hw refs hrefs
  intro e
  induction e with
  | none => intro _; simp [resolve, resolvePred, OkR, OkP]
  | all => intro _; simp only [resolve, resolvePred, rAll, OkR, OkP]; exact ⟨hv, hv⟩
  | visibleHeads => intro _; simp only [resolve, resolvePred, OkR, OkP]; exact ⟨hw.heads_lt, hw.heads_lt⟩
  | visibleHeadsOrReferenced => intro _; simp only [resolve, resolvePred, OkP]; exact ⟨hv, hv⟩
  | root =>
    intro _
    have : ∀ x ∈ [0], x < g.size := by intro x hx; simp at hx; subst hx; exact hw.size_pos
    simp only [resolve, resolvePred, OkR, OkP]; exact ⟨this, this⟩
  | commits l => intro h; simp only [resolve, resolvePred, OkR, OkP]; exact ⟨h, h⟩
  | ancestors h lo hi fp ih =>
    intro hok; simp only [resolve, resolvePred, OkR, OkP]; exact ⟨(ih hok).1, (ih hok).1⟩
  | descendants r lo hi ih =>
    intro hok; simp only [resolve, resolvePred, OkR, OkP]; exact ⟨⟨(ih hok).1, hv⟩, (ih hok).1, hv⟩
  | range r h lo hi fp ihr ihh =>
    intro hok; simp only [resolve, resolvePred, OkR, OkP]
    exact ⟨⟨(ihr hok.1).1, (ihh hok.2).1⟩, (ihr hok.1).1, (ihh hok.2).1⟩
  | dagRange r h ihr ihh =>
    intro hok; simp only [resolve, resolvePred, OkR, OkP]
    exact ⟨⟨(ihr hok.1).1, (ihh hok.2).1⟩, (ihr hok.1).1, (ihh hok.2).1⟩
  | heads x ih => intro hok; simp only [resolve, resolvePred, OkR, OkP]; exact ⟨(ih hok).1, (ih hok).1⟩
  | roots x ih => intro hok; simp only [resolve, resolvePred, OkR, OkP]; exact ⟨(ih hok).1, (ih hok).1⟩
  | forkPoint x ih =>
    intro hok; simp only [resolve, resolvePred, OkR, OkP]; exact ⟨(ih hok).1, (ih hok).1⟩
  | latest x n ih =>
    intro hok; simp only [resolve, resolvePred, OkR, OkP]; exact ⟨(ih hok).1, (ih hok).1⟩
  | mergePoint x ih =>
    intro hok; simp only [resolve, resolvePred, OkR, OkP]; exact ⟨⟨(ih hok).1, hv⟩, (ih hok).1, hv⟩
  | forks => intro _; simp only [resolve, resolvePred, OkR, OkP]; exact ⟨hv, hv⟩
  | coalesce a b iha ihb =>
    intro hok; simp only [resolve, resolvePred, OkR, OkP]
    exact ⟨⟨(iha hok.1).1, (ihb hok.2).1⟩, (iha hok.1).1, (ihb hok.2).1⟩
  | headsRange r h fp f ihr ihh ihf =>
    intro hok
    rcases filterOpt_cases f (resolvePred g refs f) with ⟨_, h'⟩ | ⟨_, h'⟩
    · simp only [resolve, resolvePred, h', OkR, OkP]
      exact ⟨⟨(ihr hok.1).1, (ihh hok.2.1).1, trivial⟩, (ihr hok.1).1, (ihh hok.2.1).1, trivial⟩
    · simp only [resolve, resolvePred, h', OkR, OkP]
      exact ⟨⟨(ihr hok.1).1, (ihh hok.2.1).1, (ihf hok.2.2).2⟩, (ihr hok.1).1, (ihh hok.2.1).1,
        (ihf hok.2.2).2⟩
  | notIn x ih =>
    intro hok; simp only [resolve, resolvePred, rAll, OkR, OkP]; exact ⟨⟨hv, (ih hok).1⟩, (ih hok).2⟩
  | union a b iha ihb =>
    intro hok; simp only [resolve, resolvePred, OkR, OkP]
    exact ⟨⟨(iha hok.1).1, (ihb hok.2).1⟩, (iha hok.1).2, (ihb hok.2).2⟩
  | inter a b iha ihb =>
    intro hok; simp only [resolve, resolvePred, OkR, OkP]
    exact ⟨⟨(iha hok.1).1, (ihb hok.2).1⟩, (iha hok.1).2, (ihb hok.2).2⟩
  | diff a b iha ihb =>
    intro hok; simp only [resolve, resolvePred, OkR, OkP]
    exact ⟨⟨(iha hok.1).1, (ihb hok.2).1⟩, (iha hok.1).2, (ihb hok.2).2⟩
  | reachable s d ihs ihd =>
    intro hok; simp only [resolve, resolvePred, OkR, OkP]
    exact ⟨⟨(ihs hok.1).1, (ihd hok.2).1⟩, (ihs hok.1).1, (ihd hok.2).1⟩

end

/-- `resolve_visibility` / `resolve_predicate` preserve the meaning; a resolved *predicate* is
only consulted on visible commits (`All`), where `~x` as a predicate (`!x`) and `~x` as a set
(`all() ~ x`) coincide. -/
theorem resolveH_spec (g : Graph) (refs : List Nat) (ctx : Ctx g (refs ++ g.heads)) :
    ∀ (e : Expr), OkEH g e → RefsIn (refs ++ g.heads) e →
      (∀ p, denoteR g (resolve g refs e) p ↔ denote g (refs ++ g.heads) e p) ∧
      (∀ c, All g (refs ++ g.heads) c →
        (denoteP g (resolvePred g refs e) c ↔ denote g (refs ++ g.heads) e c)) := by
  intro e
  induction e with
  | none => intro _ _; simp [resolve, resolvePred, denoteR, denoteP, denote]
  | all =>
    intro _ _
    have : ∀ p, denoteR g (resolve g refs .all) p ↔ denote g (refs ++ g.heads) .all p := by
      intro p; simp only [resolve, rAll, rVhor, denoteR, denote]; exact ancAll_vhor g refs p
    exact ⟨this, fun c _ => by simpa [resolvePred, resolve, denoteP] using this c⟩
  | visibleHeads => intro _ _; simp [resolve, resolvePred, denoteR, denoteP, denote]
  | visibleHeadsOrReferenced => intro _ _; simp [resolve, resolvePred, rVhor, denoteR, denoteP, denote]
  | root => intro _ _; simp [resolve, resolvePred, denoteR, denoteP, denote]
  | commits l => intro _ _; simp [resolve, resolvePred, denoteR, denoteP, denote]
  | ancestors h lo hi fp ih =>
    intro hok hr
    have : ∀ p, denoteR g (resolve g refs (.ancestors h lo hi fp)) p ↔
        denote g (refs ++ g.heads) (.ancestors h lo hi fp) p := by
      intro p; simp only [resolve, denoteR, denote, AncOf, (ih hok hr).1]
    exact ⟨this, fun c _ => by simpa [resolvePred, resolve, denoteP] using this c⟩
  | descendants r lo hi ih =>
    intro hok hr
    have : ∀ p, denoteR g (resolve g refs (.descendants r lo hi)) p ↔
        denote g (refs ++ g.heads) (.descendants r lo hi) p := by
      intro p; simp only [resolve, rVhor, denoteR, denote, (ih hok hr).1]
    exact ⟨this, fun c _ => by simpa [resolvePred, resolve, denoteP] using this c⟩
  | range r h lo hi fp ihr ihh =>
    intro hok hr
    have hr' := refsIn_append.1 hr
    have : ∀ p, denoteR g (resolve g refs (.range r h lo hi fp)) p ↔
        denote g (refs ++ g.heads) (.range r h lo hi fp) p := by
      intro p
      simp only [resolve, denoteR, denote, AncOf, AncAll, (ihr hok.1 hr'.1).1, (ihh hok.2 hr'.2).1]
    exact ⟨this, fun c _ => by simpa [resolvePred, resolve, denoteP] using this c⟩
  | dagRange r h ihr ihh =>
    intro hok hr
    have hr' := refsIn_append.1 hr
    have : ∀ p, denoteR g (resolve g refs (.dagRange r h)) p ↔
        denote g (refs ++ g.heads) (.dagRange r h) p := by
      intro p
      simp only [resolve, denoteR, denote, AncAll, (ihr hok.1 hr'.1).1, (ihh hok.2 hr'.2).1, Path]
      constructor
      · rintro ⟨h1, y, hy, k, _, hk⟩; exact ⟨h1, y, hy, k, hk⟩
      · rintro ⟨h1, y, hy, k, hk⟩; exact ⟨h1, y, hy, k, ⟨Nat.zero_le _, trivial⟩, hk⟩
    exact ⟨this, fun c _ => by simpa [resolvePred, resolve, denoteP] using this c⟩
  | heads x ih =>
    intro hok hr
    have : ∀ p, denoteR g (resolve g refs (.heads x)) p ↔ denote g (refs ++ g.heads) (.heads x) p := by
      intro p; simp only [resolve, denoteR, denote, HeadsOf, (ih hok hr).1]
    exact ⟨this, fun c _ => by simpa [resolvePred, resolve, denoteP] using this c⟩
  | roots x ih =>
    intro hok hr
    have : ∀ p, denoteR g (resolve g refs (.roots x)) p ↔ denote g (refs ++ g.heads) (.roots x) p := by
      intro p; simp only [resolve, denoteR, denote, RootsOf, (ih hok hr).1]
    exact ⟨this, fun c _ => by simpa [resolvePred, resolve, denoteP] using this c⟩
  | forkPoint x ih =>
    intro hok hr
    have : ∀ p, denoteR g (resolve g refs (.forkPoint x)) p ↔
        denote g (refs ++ g.heads) (.forkPoint x) p := by
      intro p; simp only [resolve, denoteR, denote, ForkPointOf, HeadsOf, (ih hok hr).1]
    exact ⟨this, fun c _ => by simpa [resolvePred, resolve, denoteP] using this c⟩
  | latest x n ih =>
    intro hok hr
    have : ∀ p, denoteR g (resolve g refs (.latest x n)) p ↔
        denote g (refs ++ g.heads) (.latest x n) p := by
      intro p; simp only [resolve, denoteR, denote, LatestOf, (ih hok hr).1]
    exact ⟨this, fun c _ => by simpa [resolvePred, resolve, denoteP] using this c⟩
  | mergePoint x ih =>
    intro hok hr
    have hS : denoteR g (resolve g refs x) = denote g (refs ++ g.heads) x :=
      funext fun y => propext ((ih hok hr).1 y)
    have : ∀ p, denoteR g (resolve g refs (.mergePoint x)) p ↔
        denote g (refs ++ g.heads) (.mergePoint x) p := by
      intro p; simp only [resolve, rVhor, denoteR, denote, hS]
    exact ⟨this, fun c _ => by simpa [resolvePred, resolve, denoteP] using this c⟩
  | forks =>
    intro _ _
    have : ∀ p, denoteR g (resolve g refs .forks) p ↔ denote g (refs ++ g.heads) .forks p := by
      intro p; simp only [resolve, rVhor, denoteR, denote]
    exact ⟨this, fun c _ => by simpa [resolvePred, resolve, denoteP] using this c⟩
  | coalesce a b iha ihb =>
    intro hok hr
    have hr' := refsIn_append.1 hr
    have : ∀ p, denoteR g (resolve g refs (.coalesce a b)) p ↔
        denote g (refs ++ g.heads) (.coalesce a b) p := by
      intro p
      simp only [resolve, denoteR, denote, CoalesceOf, (iha hok.1 hr'.1).1, (ihb hok.2 hr'.2).1]
    exact ⟨this, fun c _ => by simpa [resolvePred, resolve, denoteP] using this c⟩
  | headsRange r h fp f ihr ihh ihf =>
    intro hok hr
    have hr' := refsIn_append.1 hr
    have hr'' := refsIn_append.1 hr'.1
    have hsub : ∀ c, AncOf g fp 0 none (denote g (refs ++ g.heads) h) c → All g (refs ++ g.heads) c :=
      fun c hc => ancOf_sub (denote_sub_all ctx h hr''.2) hc
    have : ∀ p, denoteR g (resolve g refs (.headsRange r h fp f)) p ↔
        denote g (refs ++ g.heads) (.headsRange r h fp f) p := by
      intro p
      simp only [resolve, denoteR, denote]
      have hset : ∀ c,
          (AncOf g fp 0 none (denoteR g (resolve g refs h)) c ∧
            ¬ AncAll g (denoteR g (resolve g refs r)) c ∧
              (match filterOpt f (resolvePred g refs f) with
               | none => True
               | some f => denoteP g f c)) ↔
          (AncOf g fp 0 none (denote g (refs ++ g.heads) h) c ∧
            ¬ AncAll g (denote g (refs ++ g.heads) r) c ∧ denote g (refs ++ g.heads) f c) := by
        intro c
        have e1 : AncOf g fp 0 none (denoteR g (resolve g refs h)) c ↔
            AncOf g fp 0 none (denote g (refs ++ g.heads) h) c := by
          simp only [AncOf, (ihh hok.2.1 hr''.2).1]
        have e2 : AncAll g (denoteR g (resolve g refs r)) c ↔
            AncAll g (denote g (refs ++ g.heads) r) c := by
          simp only [AncAll, (ihr hok.1 hr''.1).1]
        rw [e1, e2]
        rcases filterOpt_cases f (resolvePred g refs f) with ⟨hf, hfo⟩ | ⟨_, hfo⟩
        · rw [hfo, hf]
          simp only [denote]
          constructor
          · rintro ⟨h1, h2, _⟩; exact ⟨h1, h2, hsub c h1⟩
          · rintro ⟨h1, h2, _⟩; exact ⟨h1, h2, trivial⟩
        · rw [hfo]
          constructor
          · rintro ⟨h1, h2, h3⟩; exact ⟨h1, h2, ((ihf hok.2.2 hr'.2).2 c (hsub c h1)).1 h3⟩
          · rintro ⟨h1, h2, h3⟩; exact ⟨h1, h2, ((ihf hok.2.2 hr'.2).2 c (hsub c h1)).2 h3⟩
      exact headsOf_congr hset p
    exact ⟨this, fun c _ => by simpa [resolvePred, resolve, denoteP] using this c⟩
  | notIn x ih =>
    intro hok hr
    refine ⟨?_, ?_⟩
    · intro p
      simp only [resolve, rAll, rVhor, denoteR, denote, (ih hok hr).1]
      rw [ancAll_vhor]
    · intro c hc
      simp only [resolvePred, denoteP, denote, (ih hok hr).2 c hc]
      exact ⟨fun h => ⟨hc, h⟩, fun h => h.2⟩
  | union a b iha ihb =>
    intro hok hr
    have hr' := refsIn_append.1 hr
    refine ⟨?_, ?_⟩
    · intro p; simp only [resolve, denoteR, denote, (iha hok.1 hr'.1).1, (ihb hok.2 hr'.2).1]
    · intro c hc
      simp only [resolvePred, denoteP, denote, (iha hok.1 hr'.1).2 c hc, (ihb hok.2 hr'.2).2 c hc]
  | inter a b iha ihb =>
    intro hok hr
    have hr' := refsIn_append.1 hr
    refine ⟨?_, ?_⟩
    · intro p; simp only [resolve, denoteR, denote, (iha hok.1 hr'.1).1, (ihb hok.2 hr'.2).1]
    · intro c hc
      simp only [resolvePred, denoteP, denote, (iha hok.1 hr'.1).2 c hc, (ihb hok.2 hr'.2).2 c hc]
  | diff a b iha ihb =>
    intro hok hr
    have hr' := refsIn_append.1 hr
    refine ⟨?_, ?_⟩
    · intro p; simp only [resolve, denoteR, denote, (iha hok.1 hr'.1).1, (ihb hok.2 hr'.2).1]
    · intro c hc
      simp only [resolvePred, denoteP, denote, (iha hok.1 hr'.1).2 c hc, (ihb hok.2 hr'.2).2 c hc]
  | reachable s d ihs ihd =>
    intro hok hr
    have hr' := refsIn_append.1 hr
    have hD : denoteR g (resolve g refs d) = denote g (refs ++ g.heads) d :=
      funext fun x => propext ((ihd hok.2 hr'.2).1 x)
    have : ∀ p, denoteR g (resolve g refs (.reachable s d)) p ↔
        denote g (refs ++ g.heads) (.reachable s d) p := by
      intro p
      simp only [resolve, denoteR, denote, hD, (ihs hok.1 hr'.1).1]
    exact ⟨this, fun c _ => by simpa [resolvePred, resolve, denoteP] using this c⟩

end JjModel.Revset
