import JjModel.Lemmas.DiffHunks
/-!
  `compact_unchanged_regions`: preserves arity and well-formedness, and its result is compacted.
-/
namespace JjModel.Diff

theorem length_mergeRegion (p c : Region) (n : Nat) (hp : p.length = n) (hc : c.length = n) :
    (mergeRegion p c).length = n := by
  simp [mergeRegion, List.length_zipWith, hp, hc]

theorem compactGo_arity (n : Nat) (rest : List Region) (o : Option Region)
    (ho : ∀ p ∈ o, p.length = n) (hr : ∀ r ∈ rest, r.length = n) :
    ∀ r ∈ compactGo o rest, r.length = n := by
  induction rest generalizing o with
  | nil => cases o <;> simp_all [compactGo]
  | cons cur rest ih =>
    have hc : cur.length = n := hr cur (by simp)
    have hr' : ∀ r ∈ rest, r.length = n := fun r h => hr r (by simp [h])
    cases o with
    | none => exact ih (some cur) (by simpa using hc) hr'
    | some prev =>
      have hp : prev.length = n := ho prev rfl
      rw [compactGo]
      split
      · exact ih _ (by simpa using length_mergeRegion _ _ _ hp hc) hr'
      · intro r hmem
        simp only [List.mem_cons] at hmem
        rcases hmem with rfl | hmem
        · exact hp
        · exact ih (some cur) (by simpa using hc) hr' r hmem

theorem compact_arity (n : Nat) (regions : List Region) (hr : ∀ r ∈ regions, r.length = n) :
    ∀ r ∈ compact regions, r.length = n :=
  compactGo_arity n regions none (by simp) hr

theorem adjacent_congr (p c c' : Region) (h : c.map (·.lo) = c'.map (·.lo)) :
    adjacent p c = adjacent p c' := by
  have e : ∀ c : Region, adjacent p c =
      (List.zipWith (fun (a : Rng) (l : Nat) => decide (a.hi = l)) p (c.map (·.lo))).all id := by
    intro c
    simp [adjacent, List.zipWith_map_right]
  rw [e c, e c', h]

theorem mergeRegion_los (p c : Region) (h : p.length = c.length) :
    (mergeRegion p c).map (·.lo) = p.map (·.lo) := by
  unfold mergeRegion
  induction p generalizing c with
  | nil => simp
  | cons x xs ih =>
    cases c with
    | nil => simp at h
    | cons y ys => simp at h; simp [ih ys h]

theorem compactGo_compacted (n : Nat) (rest : List Region) (prev : Region)
    (hp : prev.length = n) (hr : ∀ r ∈ rest, r.length = n) :
    ∃ h tl, compactGo (some prev) rest = h :: tl ∧ h.map (·.lo) = prev.map (·.lo) ∧
      compactedb (h :: tl) = true := by
  induction rest generalizing prev with
  | nil => exact ⟨prev, [], by simp [compactGo], rfl, by simp [compactedb]⟩
  | cons cur rest ih =>
    have hc : cur.length = n := hr cur (by simp)
    have hr' : ∀ r ∈ rest, r.length = n := fun r h => hr r (by simp [h])
    rw [compactGo]
    split
    · obtain ⟨h, tl, e1, e2, e3⟩ := ih (mergeRegion prev cur) (length_mergeRegion _ _ _ hp hc) hr'
      exact ⟨h, tl, e1, by rw [e2, mergeRegion_los _ _ (by omega)], e3⟩
    · rename_i hna
      obtain ⟨h, tl, e1, e2, e3⟩ := ih cur hc hr'
      refine ⟨prev, h :: tl, by rw [e1], rfl, ?_⟩
      rw [compactedb, adjacent_congr prev h cur e2]
      simp [hna, e3]

/-- `compact_unchanged_regions` leaves no two consecutive regions that touch on every side. -/
theorem compact_compacted (n : Nat) (regions : List Region) (hr : ∀ r ∈ regions, r.length = n) :
    compactedb (compact regions) = true := by
  cases regions with
  | nil => simp [compact, compactGo, compactedb]
  | cons first rest =>
    obtain ⟨h, tl, e1, _, e3⟩ := compactGo_compacted n rest first (hr first (by simp))
      (fun r h => hr r (by simp [h]))
    simp only [compact, compactGo]
    rw [e1]; exact e3

theorem mergeRegion_at (p c : Region) (i : Nat) (h1 : i < p.length) (h2 : i < c.length) :
    (mergeRegion p c).getD i ⟨0, 0⟩ = ⟨(p.getD i ⟨0, 0⟩).lo, (c.getD i ⟨0, 0⟩).hi⟩ := by
  unfold mergeRegion
  rw [getD_zipWith _ _ _ _ ⟨0, 0⟩ ⟨0, 0⟩ _ h1 h2]

theorem compactGo_chain (len i : Nat) (rest : List Region) (prev : Region) (pos : Nat)
    (hp : i < prev.length) (hr : ∀ r ∈ rest, i < r.length)
    (h : chainOK len pos (side i (prev :: rest)) = true) :
    chainOK len pos (side i (compactGo (some prev) rest)) = true := by
  induction rest generalizing prev pos with
  | nil => simpa [compactGo] using h
  | cons cur rest ih =>
    have hc : i < cur.length := hr cur (by simp)
    have hr' : ∀ r ∈ rest, i < r.length := fun r h => hr r (by simp [h])
    simp only [side, List.map_cons, chainOK, Bool.and_eq_true, decide_eq_true_eq] at h
    obtain ⟨⟨h1, h2⟩, ⟨h3, h4⟩, h5⟩ := h
    rw [compactGo]
    split
    · apply ih (mergeRegion prev cur) pos (by simp [mergeRegion, List.length_zipWith]; omega) hr'
      simp only [side, List.map_cons, chainOK, Bool.and_eq_true, decide_eq_true_eq,
        mergeRegion_at prev cur i hp hc]
      exact ⟨⟨h1, by omega⟩, h5⟩
    · simp only [side, List.map_cons, chainOK, Bool.and_eq_true, decide_eq_true_eq]
      refine ⟨⟨h1, h2⟩, ?_⟩
      apply ih cur _ hc hr'
      simp only [side, List.map_cons, chainOK, Bool.and_eq_true, decide_eq_true_eq]
      exact ⟨⟨h3, h4⟩, h5⟩

theorem sideOK_iff (len : Nat) (l : List Rng) :
    sideOK len l = true ↔ (∃ r rest, l = r :: rest ∧ r.lo = 0) ∧ chainOK len 0 l = true := by
  cases l with
  | nil => simp [sideOK]
  | cons r rest =>
    simp only [sideOK, chainOK, Bool.and_eq_true, decide_eq_true_eq]
    constructor
    · rintro ⟨⟨h0, h1⟩, h2⟩
      exact ⟨⟨r, rest, rfl, h0⟩, ⟨by omega, h1⟩, h2⟩
    · rintro ⟨⟨r', rest', e, h0⟩, ⟨_, h1⟩, h2⟩
      cases e
      exact ⟨⟨h0, h1⟩, h2⟩

theorem los_at (h p : Region) (i : Nat) (e : h.map (·.lo) = p.map (·.lo)) :
    (h.getD i ⟨0, 0⟩).lo = (p.getD i ⟨0, 0⟩).lo := by
  have := congrArg (fun l => l.getD i 0) e
  simpa [List.getD, List.getElem?_map, Option.map] using (by
    simp only [List.getD, List.getElem?_map] at this
    cases hh : h[i]? <;> cases hp : p[i]? <;> simp_all)

theorem compact_sideOK (n len i : Nat) (regions : List Region) (hi : i < n)
    (hr : ∀ r ∈ regions, r.length = n) (h : sideOK len (side i regions) = true) :
    sideOK len (side i (compact regions)) = true := by
  cases regions with
  | nil => simp [side, sideOK] at h
  | cons first rest =>
    have hf : first.length = n := hr first (by simp)
    have hr' : ∀ r ∈ rest, r.length = n := fun r h => hr r (by simp [h])
    rw [sideOK_iff] at h ⊢
    obtain ⟨⟨r, rs, e, h0⟩, hch⟩ := h
    obtain ⟨hd, tl, e1, e2, _⟩ := compactGo_compacted n rest first hf hr'
    have hch' := compactGo_chain len i rest first 0 (by omega) (fun r h => by rw [hr' r h]; exact hi) hch
    simp only [compact, compactGo]
    refine ⟨?_, hch'⟩
    rw [e1]
    refine ⟨hd.getD i ⟨0, 0⟩, side i tl, by simp [side], ?_⟩
    rw [los_at hd first i e2]
    simp only [side, List.map_cons, List.cons.injEq] at e
    rw [e.1]; exact h0

/-- `compact_unchanged_regions` preserves well-formedness. -/
theorem compact_regionsWF (inputs : List Bytes) (regions : List Region)
    (h : RegionsWF inputs regions) : RegionsWF inputs (compact regions) :=
  ⟨compact_arity _ _ h.arity,
   fun i hi => compact_sideOK inputs.length _ i regions hi h.arity (h.sides i hi)⟩

end JjModel.Diff
