import JjModel.Model.Eol
/-!
  Lemmas about the model of `eol.rs`:
  * `convertEol` (line splitting + `trim_last_eol`) equals a one-pass scanner (`toLf`, `toCrlf`);
  * `probeForBinary` equals a one-pass window scanner `win`;
  * `win` is stable under `toCrlf` (`win_toCrlf`: the heart of the probe-window subtlety).
-/
namespace JjModel.Eol

/-! ### one-pass forms of the two conversions -/

/-- `\r\n` ↦ `\n`, everything else unchanged -/
def toLf : Bytes → Bytes
  | [] => []
  | [b] => [b]
  | b :: c :: rest =>
    if b = 13 ∧ c = 10 then 10 :: toLf rest else b :: toLf (c :: rest)

/-- `\r\n` ↦ `\r\n`, a `\n` not preceded by `\r` ↦ `\r\n`, everything else unchanged -/
def toCrlf : Bytes → Bytes
  | [] => []
  | [b] => if b = 10 then [13, 10] else [b]
  | b :: c :: rest =>
    if b = 13 ∧ c = 10 then 13 :: 10 :: toCrlf rest
    else if b = 10 then 13 :: 10 :: toCrlf (c :: rest)
    else b :: toCrlf (c :: rest)

/-- the scanner with the end-of-line bytes as a parameter (`eol` = `[10]` or `[13,10]`) -/
def scan (eol : Bytes) : Bytes → Bytes
  | [] => []
  | [b] => if b = 10 then eol else [b]
  | b :: c :: rest =>
    if b = 13 ∧ c = 10 then eol ++ scan eol rest
    else if b = 10 then eol ++ scan eol (c :: rest)
    else b :: scan eol (c :: rest)

theorem scan_lf (x : Bytes) : scan [10] x = toLf x := by
  fun_induction toLf x <;> simp_all [scan]
  all_goals (split <;> simp_all)

theorem scan_crlf (x : Bytes) : scan [13, 10] x = toCrlf x := by
  fun_induction toCrlf x <;> simp_all [scan]

theorem scan_lf_cons (eol rest : Bytes) : scan eol (10 :: rest) = eol ++ scan eol rest := by
  cases rest <;> simp [scan]

/-- a line body: no `\n` inside -/
def NoLf (l : Bytes) : Prop := ∀ b ∈ l, b ≠ 10

/-- drop one trailing `\r` -/
def dropCr (l : Bytes) : Bytes := if l.getLast? = some 13 then l.dropLast else l

theorem scan_noLf (eol l : Bytes) (h : NoLf l) : scan eol l = l := by
  induction l with
  | nil => rfl
  | cons b rest ih =>
    have hb : b ≠ 10 := h b (by simp)
    have hr : NoLf rest := fun c hc => h c (by simp [hc])
    cases rest with
    | nil => by_cases h13 : b = 13 <;> simp [scan, h13, hb]
    | cons c rest' =>
      have hc : c ≠ 10 := h c (by simp)
      by_cases h13 : b = 13 <;> simp [scan, h13, hb, hc, ih hr]

/-- scanning a line (body without `\n`, then `\n`, then more input) -/
theorem scan_line (eol l rest : Bytes) (h : NoLf l) :
    scan eol (l ++ 10 :: rest) = dropCr l ++ eol ++ scan eol rest := by
  induction l with
  | nil => simp [scan_lf_cons, dropCr]
  | cons b l' ih =>
    have hb : b ≠ 10 := h b (by simp)
    have hl : NoLf l' := fun c hc => h c (by simp [hc])
    have ih := ih hl
    cases l' with
    | nil =>
      by_cases h13 : b = 13
      · subst h13; simp [scan, dropCr]
      · simp [scan, scan_lf_cons, dropCr, h13, hb]
    | cons c l'' =>
      have hc : c ≠ 10 := h c (by simp)
      have hd : dropCr (b :: c :: l'') = b :: dropCr (c :: l'') := by
        simp only [dropCr, List.getLast?_cons_cons]
        split <;> simp
      rw [hd]
      by_cases h13 : b = 13
      · subst h13
        simp only [List.cons_append] at ih ⊢
        simp only [scan, hc, if_false, if_true]
        rw [ih]; simp
      · simp only [List.cons_append] at ih ⊢
        rw [scan]; simp [h13, hb, ih]

/-! ### `convertLine` on a line produced by `linesWithTerminator` -/

theorem isSuffixOf_eq_true_iff (s l : Bytes) : s.isSuffixOf l = true ↔ s <:+ l :=
  List.isSuffixOf_iff_suffix

theorem trimLastEol_noLf (l : Bytes) (h : NoLf l) : trimLastEol l = none := by
  have h1 : ¬ ([13, 10] : Bytes) <:+ l := by
    rintro ⟨t, ht⟩
    exact h 10 (by rw [← ht]; simp) rfl
  have h2 : ¬ ([10] : Bytes) <:+ l := by
    rintro ⟨t, ht⟩
    exact h 10 (by rw [← ht]; simp) rfl
  simp [trimLastEol, stripSuffix, isSuffixOf_eq_true_iff, h1, h2]

theorem trimLastEol_line (l : Bytes) : trimLastEol (l ++ [10]) = some (dropCr l) := by
  have h2 : ([10] : Bytes) <:+ l ++ [10] := ⟨l, rfl⟩
  by_cases hl : l.getLast? = some 13
  · obtain ⟨l', rfl⟩ : ∃ l', l = l' ++ [13] := by
      rcases List.eq_nil_or_concat l with rfl | ⟨l', b, rfl⟩
      · simp at hl
      · simp at hl; exact ⟨l', by simp [hl]⟩
    have h1 : ([13, 10] : Bytes) <:+ l' ++ [13] ++ [10] := ⟨l', by simp⟩
    simp [trimLastEol, stripSuffix, isSuffixOf_eq_true_iff, h1, dropCr]
  · have h1 : ¬ ([13, 10] : Bytes) <:+ l ++ [10] := by
      rintro ⟨t, ht⟩
      have : t ++ [13] ++ [10] = l ++ [10] := by simpa using ht
      have := List.append_inj_left' this rfl
      exact hl (by rw [← this]; simp)
    simp [trimLastEol, stripSuffix, isSuffixOf_eq_true_iff, h1, h2, dropCr, hl]

theorem convertLine_noLf (eol l : Bytes) (h : NoLf l) : convertLine eol l = l := by
  simp [convertLine, trimLastEol_noLf l h]

theorem convertLine_line (eol l : Bytes) : convertLine eol (l ++ [10]) = dropCr l ++ eol := by
  simp [convertLine, trimLastEol_line]

/-- the line-based converter equals the scanner -/
theorem flatMap_linesAux (eol : Bytes) (x cur : Bytes) (h : NoLf cur) :
    (linesAux x cur).flatMap (convertLine eol) = scan eol (cur.reverse ++ x) := by
  induction x generalizing cur with
  | nil =>
    have hr : NoLf cur.reverse := fun b hb => h b (by simpa using hb)
    by_cases hc : cur = []
    · simp [linesAux, hc, scan]
    · simp [linesAux, hc, convertLine_noLf _ _ hr, scan_noLf _ _ hr]
  | cons b rest ih =>
    have hr : NoLf cur.reverse := fun b hb => h b (by simpa using hb)
    by_cases hb : b = 10
    · subst hb
      have := ih [] (by intro b hb; simp at hb)
      simp only [linesAux, if_true, List.flatMap_cons, List.reverse_cons, convertLine_line, this,
        List.reverse_nil, List.nil_append]
      rw [scan_line _ _ _ hr]
    · have hn : NoLf (b :: cur) := by
        intro c hc; simp at hc; rcases hc with rfl | hc
        · exact hb
        · exact h c hc
      simp only [linesAux, hb, if_false]
      rw [ih _ hn]; simp

theorem convertEol_lf (x : Bytes) : convertEol x .lf = toLf x := by
  have := flatMap_linesAux [10] x [] (by intro b hb; simp at hb)
  simpa [convertEol, linesWithTerminator, scan_lf] using this

theorem convertEol_crlf (x : Bytes) : convertEol x .crlf = toCrlf x := by
  have := flatMap_linesAux [13, 10] x [] (by intro b hb; simp at hb)
  simpa [convertEol, linesWithTerminator, scan_crlf] using this

/-! ### the probe window in one pass -/

/-- `win n x = isBinary (probeSlice n x)`: scan at most `n` bytes; a `\r` that is the `n`-th byte
is not looked at (the "sliced CRLF" rule of `probe_for_binary`). -/
def win : Nat → Bytes → Bool
  | 0, _ => false
  | _ + 1, [] => false
  | n + 1, b :: rest =>
    if b = 0 then true
    else if b = 13 then
      if n = 0 then false
      else if rest.head? = some 10 then win n rest else true
    else win n rest

theorem probeSlice_zero (x : Bytes) : probeSlice 0 x = [] := by simp [probeSlice]

theorem probeSlice_nil (n : Nat) : probeSlice n [] = [] := by simp [probeSlice]

theorem probeSlice_one (b : UInt8) (rest : Bytes) :
    probeSlice 1 (b :: rest) = if b = 13 then [] else [b] := by
  simp [probeSlice]

theorem probeSlice_succ_succ (n : Nat) (b : UInt8) (rest : Bytes) :
    probeSlice (n + 2) (b :: rest) = b :: probeSlice (n + 1) rest := by
  have h1 : (b :: List.take (n + 1) rest)[n + 1]? = (List.take (n + 1) rest)[n]? := rfl
  have e : n + 2 - 1 = n + 1 := rfl
  have e' : n + 1 - 1 = n := rfl
  unfold probeSlice
  simp only [List.take_succ_cons, e, e', h1]
  split <;> simp_all

theorem head?_probeSlice (n : Nat) (x : Bytes) :
    (probeSlice (n + 1) x).head? = some 10 ↔ x.head? = some 10 := by
  cases x with
  | nil => simp [probeSlice_nil]
  | cons c r =>
    cases n with
    | zero =>
      rw [probeSlice_one]
      by_cases hc : c = 13
      · subst hc; simp
      · simp [hc]
    | succ m => simp [probeSlice_succ_succ]

theorem isBinary_probeSlice (n : Nat) (x : Bytes) : isBinary (probeSlice n x) = win n x := by
  induction x generalizing n with
  | nil => cases n <;> simp [probeSlice_nil, isBinary, win]
  | cons b rest ih =>
    match n with
    | 0 => simp [probeSlice_zero, isBinary, win]
    | 1 =>
      by_cases h13 : b = 13
      · subst h13; simp [probeSlice_one, isBinary, win]
      · by_cases hb : b = 0 <;> simp [probeSlice_one, isBinary, win, h13, hb]
    | m + 2 =>
      rw [probeSlice_succ_succ, isBinary, win, ← ih (m + 1)]
      by_cases hb : b = 0
      · simp [hb]
      · by_cases h13 : b = 13
        · by_cases hh : rest.head? = some 10
          · simp [hb, h13, hh, (head?_probeSlice m rest).mpr hh]
          · have := fun h => hh ((head?_probeSlice m rest).mp h)
            simp [hb, h13, hh]
            exact Or.inl this
        · simp [hb, h13]

theorem probeForBinary_eq_win (n : Nat) (x : Bytes) : probeForBinary n x = win n x :=
  isBinary_probeSlice n x

/-- a smaller window never sees more -/
theorem win_mono (n : Nat) (x : Bytes) (h : win (n + 1) x = false) : win n x = false := by
  induction x generalizing n with
  | nil => cases n <;> simp [win]
  | cons b rest ih =>
    cases n with
    | zero => simp [win]
    | succ m =>
      rw [win] at h ⊢
      by_cases hb : b = 0
      · simp [hb] at h
      · by_cases h13 : b = 13
        · by_cases hh : rest.head? = some 10
          · have h' : win (m + 1) rest = false := by simpa [hb, h13, hh] using h
            have := ih m h'
            by_cases hm : m = 0 <;> simp [hb, h13, hh, hm, this]
          · simp [hb, h13, hh] at h
        · simp only [hb, h13, if_false] at h ⊢
          exact ih m h

theorem win_lf_cons (n : Nat) (rest : Bytes) : win (n + 1) (10 :: rest) = win n rest := by
  simp [win]

theorem win_crlf_cons (n : Nat) (rest : Bytes) :
    win (n + 2) (13 :: 10 :: rest) = win n rest := by
  rw [win]; simp [win_lf_cons]

/-- **probe stability**: if the window over `x` sees text, the window over the CRLF form of `x`
sees text too.  (An inserted `\r` that lands on the last byte of the window is exactly what the
slicing rule ignores; `\r`s of `x` only move to the right.) -/
theorem win_toCrlf (n : Nat) (x : Bytes) (h : win n x = false) : win n (toCrlf x) = false := by
  fun_induction toCrlf x generalizing n with
  | case1 => simpa using h
  | case2 =>
    match n with
    | 0 => simp [win]
    | 1 => simp [win]
    | m + 2 => rw [win_crlf_cons]; cases m <;> simp [win]
  | case3 b hb => exact h
  | case4 b c rest hbc ih =>
    obtain ⟨rfl, rfl⟩ := hbc
    match n with
    | 0 => simp [win]
    | 1 => simp [win]
    | m + 2 =>
      rw [win_crlf_cons] at h ⊢
      exact ih m h
  | case5 c rest hc ih =>
    match n with
    | 0 => simp [win]
    | 1 => simp [win]
    | m + 2 =>
      rw [win_crlf_cons]
      rw [win_lf_cons] at h
      exact ih m (win_mono m _ h)
  | case6 b c rest hbc hb ih =>
    match n with
    | 0 => simp [win]
    | m + 1 =>
      rw [win] at h ⊢
      by_cases h0 : b = 0
      · simp [h0] at h
      · by_cases h13 : b = 13
        · have hc : c ≠ 10 := fun hc => hbc ⟨h13, hc⟩
          by_cases hm : m = 0
          · simp [h0, h13, hm]
          · simp [h0, h13, hm, hc] at h
        · simp only [h0, h13, if_false] at h ⊢
          exact ih m h

end JjModel.Eol
