import JjModel.Lemmas.RevsetOptPasses2
/-!
  C19 lemmas, part 12: `fold_heads_range`, and `optimize_sound`.
-/
namespace JjModel.Revset

section
variable {g : Graph} {vh : List Nat}

theorem all_lt (ctx : Ctx g vh) {p : Nat} (h : All g vh p) : p < g.size := by
  obtain ⟨x, hx, hp⟩ := h
  have := hp.le ctx.wf.topo
  have := ctx.lt x hx
  omega

/-- the set a `FilteredRange` stands for: `roots..heads & filter` -/
def frDen (g : Graph) (vh : List Nat) (fr : FilteredRange) (p : Nat) : Prop :=
  AncOf g (fr.headsPr.getD (.visibleHeadsOrReferenced, false)).2 0 none
      (denote g vh (fr.headsPr.getD (.visibleHeadsOrReferenced, false)).1) p ∧
    ¬ AncAll g (denote g vh fr.roots) p ∧ denote g vh fr.filter p

def frRefs (vh : List Nat) (fr : FilteredRange) : Prop :=
  RefsIn vh fr.roots ∧ RefsIn vh (fr.headsPr.getD (.visibleHeadsOrReferenced, false)).1 ∧
    RefsIn vh fr.filter

theorem addFilter_spec (ctx : Ctx g vh) (fr : FilteredRange) (e : Expr) (hfr : frRefs vh fr)
    (he : RefsIn vh e) :
    frRefs vh (fr.addFilter e) ∧
      frDen g vh (fr.addFilter e) = fun p => frDen g vh fr p ∧ denote g vh e p := by
  unfold FilteredRange.addFilter
  split
  · next hall =>
    refine ⟨⟨hfr.1, hfr.2.1, he⟩, ?_⟩
    funext p
    apply propext
    simp only [frDen, hall, denote]
    constructor
    · rintro ⟨h1, h2, h3⟩; exact ⟨⟨h1, h2, denote_sub_all ctx e he p h3⟩, h3⟩
    · rintro ⟨⟨h1, h2, _⟩, h3⟩; exact ⟨h1, h2, h3⟩
  · refine ⟨⟨hfr.1, hfr.2.1, refsIn_append.2 ⟨hfr.2.2, he⟩⟩, ?_⟩
    funext p
    apply propext
    simp only [frDen, denote]
    constructor
    · rintro ⟨h1, h2, h3, h4⟩; exact ⟨⟨h1, h2, h3⟩, h4⟩
    · rintro ⟨⟨h1, h2, h3⟩, h4⟩; exact ⟨h1, h2, h3, h4⟩

theorem frDen_default (fr : FilteredRange) (h : fr.headsPr = none) (p : Nat) :
    frDen g vh fr p ↔ All g vh p ∧ ¬ AncAll g (denote g vh fr.roots) p ∧ denote g vh fr.filter p := by
  simp only [frDen, h, Option.getD_none, denote]
  rw [ancOf_full]

theorem add_spec (ctx : Ctx g vh) (fr : FilteredRange) (e : Expr) (hfr : frRefs vh fr)
    (he : RefsIn vh e) :
    frRefs vh (fr.add e) ∧ frDen g vh (fr.add e) = fun p => frDen g vh fr p ∧ denote g vh e p := by
  unfold FilteredRange.add
  split
  · next hnone =>
    split
    · next hp hhp =>
      obtain ⟨hd, fp⟩ := hp
      have hs := ancestorsToHeadsPr_spec (g := g) (vh := vh) hhp
      have hr : RefsIn vh fr.roots := hfr.1
      have hf : RefsIn vh fr.filter := hfr.2.2
      refine ⟨⟨hr, hs.1 he, hf⟩, ?_⟩
      funext p
      apply propext
      rw [frDen_default fr hnone]
      simp only [frDen, Option.getD_some]
      rw [hs.2]
      constructor
      · rintro ⟨h1, h2, h3⟩
        exact ⟨⟨denote_sub_all ctx e he p h1, h2, h3⟩, h1⟩
      · rintro ⟨⟨_, h2, h3⟩, h1⟩; exact ⟨h1, h2, h3⟩
    · exact addFilter_spec ctx fr e hfr he
  · exact addFilter_spec ctx fr e hfr he

theorem frBase_refs : frRefs vh (⟨.none, none, .all⟩ : FilteredRange) := by
  refine ⟨?_, ?_, ?_⟩ <;> intro x hx <;> simp [refsOf] at hx

theorem toFilteredRange_spec (ctx : Ctx g vh) : ∀ (c : Expr) (fr : FilteredRange),
    toFilteredRange c = some fr → RefsIn vh c → frRefs vh fr ∧ denote g vh c = frDen g vh fr := by
  intro c
  induction c with
  | inter e1 e2 ih1 _ =>
    intro fr h hr
    have hr' := refsIn_append.1 hr
    simp only [toFilteredRange] at h
    cases h1 : toFilteredRange e1 with
    | none => simp [h1] at h
    | some fr1 =>
      simp only [h1, Option.map_some, Option.some.injEq] at h
      subst h
      obtain ⟨a, b⟩ := ih1 fr1 h1 hr'.1
      obtain ⟨c, d⟩ := add_spec ctx fr1 e2 a hr'.2
      refine ⟨c, ?_⟩
      rw [d]
      funext p
      simp only [denote]
      rw [b]
  | ancestors hd lo hi fp _ =>
    intro fr h hr
    simp only [toFilteredRange] at h
    split at h
    · next hp hhp =>
      obtain ⟨hd', fp'⟩ := hp
      simp only [Option.some.injEq] at h
      subst h
      have hs := ancestorsToHeadsPr_spec (g := g) (vh := vh) hhp
      refine ⟨⟨by intro x hx; simp [refsOf] at hx, hs.1 hr, by intro x hx; simp [refsOf] at hx⟩, ?_⟩
      funext p
      apply propext
      simp only [frDen, Option.getD_some]
      rw [hs.2]
      constructor
      · intro h1
        refine ⟨h1, ?_, denote_sub_all ctx _ hr p h1⟩
        rintro ⟨x, hx, _⟩; simp [denote] at hx
      · exact fun h => h.1
    · simp at h
  | notIn c _ =>
    intro fr h hr
    simp only [toFilteredRange, ancestorsToHeadsPr] at h
    split at h
    · next roots hroots =>
      simp only [Option.some.injEq] at h
      subst h
      have hs := ancestorsToHeads_spec (g := g) (vh := vh) hroots
      refine ⟨⟨hs.1 hr, by intro x hx; simp [refsOf] at hx, by intro x hx; simp [refsOf] at hx⟩, ?_⟩
      funext p
      apply propext
      rw [frDen_default _ rfl]
      simp only [denote]
      rw [hs.2]
      constructor
      · rintro ⟨h1, h2⟩; exact ⟨h1, h2, h1⟩
      · rintro ⟨h1, h2, _⟩; exact ⟨h1, h2⟩
    · simp only [Option.some.injEq] at h
      subst h
      obtain ⟨a, b⟩ := addFilter_spec ctx ⟨.none, none, .all⟩ (.notIn c) frBase_refs hr
      refine ⟨a, ?_⟩
      rw [b]
      funext p
      apply propext
      rw [frDen_default _ rfl]
      simp only [denote]
      constructor
      · rintro ⟨h1, h2⟩
        refine ⟨⟨h1, ?_, h1⟩, h1, h2⟩
        rintro ⟨x, hx, _⟩; exact hx
      · rintro ⟨_, h1, h2⟩; exact ⟨h1, h2⟩
  | all =>
    intro fr h hr
    simp only [toFilteredRange, ancestorsToHeadsPr, Option.some.injEq] at h
    subst h
    obtain ⟨a, b⟩ := addFilter_spec ctx ⟨.none, none, .all⟩ .all frBase_refs hr
    refine ⟨a, ?_⟩
    rw [b]
    funext p
    apply propext
    rw [frDen_default _ rfl]
    simp only [denote]
    constructor
    · intro h1
      refine ⟨⟨h1, ?_, h1⟩, h1⟩
      rintro ⟨x, hx, _⟩; exact hx
    · exact fun h => h.2
  | _ => intro fr h; simp [toFilteredRange, ancestorsToHeadsPr] at h

theorem toHeadsRange_spec (ctx : Ctx g vh) {c r : Expr} (h : toHeadsRange c = some r)
    (hr : RefsIn vh c) : RefsIn vh r ∧ denote g vh r = HeadsOf g (denote g vh c) := by
  unfold toHeadsRange at h
  cases hf : toFilteredRange c with
  | none => simp [hf] at h
  | some fr =>
    simp only [hf, Option.map_some, Option.some.injEq] at h
    subst h
    obtain ⟨a, b⟩ := toFilteredRange_spec ctx c fr hf hr
    refine ⟨refsIn_append.2 ⟨refsIn_append.2 ⟨a.1, a.2.1⟩, a.2.2⟩, ?_⟩
    rw [b]
    simp only [denote]
    rfl

theorem foldHeadsRange_local (ctx : Ctx g vh) : Local g vh foldHeadsRangeF := by
  intro e e' hr h
  unfold foldHeadsRangeF at h
  split at h
  · next hd =>
    cases ht : toHeadsRange hd with
    | none => simp [ht] at h
    | some r =>
      simp only [ht, Option.map_some, Option.some.injEq] at h
      subst h
      obtain ⟨a, b⟩ := toHeadsRange_spec ctx ht (show RefsIn vh hd from hr)
      refine ⟨a, ?_⟩
      simp only [denote]
      rw [b, ancOf_full, ancOf_full]
      exact ancAll_heads ctx.wf.topo
        (fun x hx => all_lt ctx (denote_sub_all ctx hd hr x hx))
  · next c =>
    exact toHeadsRange_spec ctx h (show RefsIn vh c from hr)
  · simp at h

theorem foldHeadsRange_sound (ctx : Ctx g vh) : Sound g vh (bottomUp foldHeadsRangeF) :=
  bottomUp_sound (foldHeadsRange_local ctx)

/-- **`optimize` preserves the denoted set** (for the visibility context fixed before rewriting)
and mentions no new commits. -/
theorem optimize_sound_ctx (ctx : Ctx g vh) : Sound g vh optimize := by
  intro e hr
  unfold optimize
  obtain ⟨r1, d1⟩ := unfoldDifference_sound ctx e hr
  obtain ⟨r2, d2⟩ := foldRedundant_sound ctx _ r1
  obtain ⟨r3, d3⟩ := foldGeneration_sound (g := g) _ r2
  obtain ⟨r4, d4⟩ := flattenIntersections_sound (g := g) _ r3
  obtain ⟨r5, d5⟩ := sortNegations_sound (g := g) _ r4
  obtain ⟨r6, d6⟩ := foldAncestorsUnion_sound (g := g) _ r5
  obtain ⟨r7, d7⟩ := foldHeadsRange_sound ctx _ r6
  obtain ⟨r8, d8⟩ := foldDifference_sound ctx _ r7
  obtain ⟨r9, d9⟩ := foldNotInAncestors_sound (g := g) _ r8
  exact ⟨r9, by rw [d9, d8, d7, d6, d5, d4, d3, d2, d1]⟩

end

end JjModel.Revset
