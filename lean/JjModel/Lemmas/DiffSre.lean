import JjModel.Lemmas.DiffDiag
/-!
  Slices respect equality (`forTokenizer_sre`): inputs with equal contents get equal ranges in every
  hunk — equal non-base inputs are diffed by the same function with unique partners, the base against
  an equal input is matched on the diagonal.
-/
namespace JjModel.Diff

/-- every matched column entry is a match of the pairwise diff against the base -/
def ColsMem (c : Compare) (base : Source) (others : List Source) (ps : List (Nat × List Nat)) : Prop :=
  ∀ p ∈ ps, p.2.length = others.length ∧
    ∀ j (hj : j < others.length), (p.1, p.2.getD j 0) ∈ unchangedWords (base.words c) ((others[j]).words c)

theorem intersect_colsMem (c : Compare) (base : Source) (done : List Source) (o : Source)
    (cur : List (Nat × List Nat)) (hc : ColsMem c base done cur) :
    ColsMem c base (done ++ [o])
      (intersectUnchangedWords cur (unchangedWords (base.words c) (o.words c))) := by
  intro p hp
  obtain ⟨os, no, h1, h2, h3⟩ := intersect_shape cur _ p hp
  obtain ⟨hl, he⟩ := hc _ h2
  simp only at hl
  refine ⟨by rw [h1, List.length_append, hl]; simp, ?_⟩
  intro j hj
  simp only [List.length_append, List.length_singleton] at hj
  by_cases hjd : j < done.length
  · have e : (done ++ [o])[j] = done[j] := by simp [List.getElem_append_left hjd]
    have e2 : p.2.getD j 0 = os.getD j 0 := by
      rw [h1]; simp [List.getD, List.getElem?_append_left (show j < os.length by omega)]
    rw [e, e2]; exact he j hjd
  · have hjeq : j = done.length := by omega
    subst hjeq
    have e : (done ++ [o])[done.length] = o := by simp
    have e2 : p.2.getD done.length 0 = no := by rw [h1]; simp [List.getD, ← hl]
    rw [e, e2]; exact h3

theorem fold_colsMem (c : Compare) (base : Source) (tail done : List Source) (cur : List (Nat × List Nat))
    (hc : ColsMem c base done cur) :
    ColsMem c base (done ++ tail)
      (tail.foldl (fun cur other => intersectUnchangedWords cur (unchangedWords (base.words c) (other.words c))) cur) := by
  induction tail generalizing done cur with
  | nil => simpa using hc
  | cons o t ih =>
    simp only [List.foldl_cons]
    have := ih (done ++ [o]) _ (intersect_colsMem c base done o cur hc)
    simpa using this

theorem rawRegions_shape_mem (c : Compare) (base first : Source) (tail : List Source) :
    ∃ ps, ColsMem c base (first :: tail) ps ∧
      rawRegions c base (first :: tail) = startRegion (first :: tail) ::
        (ps.map (fun p => fromWordPositions base (first :: tail) p.1 p.2) ++ [stopRegion base (first :: tail)]) := by
  have hinit : ColsMem c base [first]
      ((unchangedWords (base.words c) (first.words c)).map fun p => (p.1, [p.2])) := by
    intro p hp
    simp only [List.mem_map] at hp
    obtain ⟨q, hq, rfl⟩ := hp
    refine ⟨rfl, ?_⟩
    intro j hj
    have : j = 0 := by simpa using hj
    subst this
    simpa using hq
  rw [rawRegions]
  dsimp only
  by_cases ht : tail.isEmpty = true
  · have htail : tail = [] := by simpa using ht
    subst htail
    exact ⟨_, hinit, by simp [List.map_map, Function.comp_def, startRegion, stopRegion]⟩
  · simp only [ht]
    have hcols := fold_colsMem c base tail [first] _ hinit
    exact ⟨_, by simpa using hcols, by simp [startRegion, stopRegion]⟩

/-- inputs with equal contents get equal ranges -/
def RegionSRE (inputs : List Bytes) (r : Region) : Prop :=
  ∀ i j, i < inputs.length → j < inputs.length → inputs.getD i [] = inputs.getD j [] →
    r.getD i ⟨0, 0⟩ = r.getD j ⟨0, 0⟩

theorem shape_sre (c : Compare) (base : Source) (others : List Source)
    (hF : ∀ s ∈ base :: others, ∀ s' ∈ base :: others, s.text = s'.text → s = s')
    (ps : List (Nat × List Nat)) (hcols : ColsMem c base others ps) :
    ∀ r ∈ startRegion others :: (ps.map (fun p => fromWordPositions base others p.1 p.2) ++ [stopRegion base others]),
      RegionSRE (base.text :: others.map (·.text)) r := by
  -- side `k` of the inputs / of a middle region
  have hin : ∀ k (hk : k < others.length),
      (base.text :: others.map (·.text)).getD (k + 1) [] = (others[k]).text := by
    intro k hk; simp [List.getD, hk]
  have hmid : ∀ p ∈ ps, ∀ k (hk : k < others.length),
      (fromWordPositions base others p.1 p.2).getD (k + 1) ⟨0, 0⟩ =
        (others[k]).rangeAt (p.2.getD k 0) := by
    intro p hp k hk
    show (List.zipWith Source.rangeAt others p.2).getD k ⟨0, 0⟩ = _
    rw [getD_zipWith Source.rangeAt others p.2 k ⟨[], []⟩ 0 ⟨0, 0⟩ hk (by rw [(hcols p hp).1]; exact hk)]
    simp [List.getD, hk]
  intro r hr i j hi hj heq
  simp only [List.mem_cons, List.mem_append, List.mem_map, List.not_mem_nil, or_false] at hr
  rcases hr with rfl | ⟨p, hp, rfl⟩ | rfl
  · -- start region: all ranges are 0..0
    have : ∀ k, k < (base.text :: others.map (·.text)).length →
        (startRegion others).getD k ⟨0, 0⟩ = ⟨0, 0⟩ := by
      intro k hk
      cases k with
      | zero => rfl
      | succ k => have hk' : k < others.length := by simpa using hk
                  simp [startRegion, List.getD, hk']
    rw [this i hi, this j hj]
  · -- a matched position
    have hwin : ∀ k (hk : k < others.length), Win (base.words c) ((others[k]).words c) 0 0 0 0
        (base.words c).length ((others[k]).words c).length
        (unchangedWords (base.words c) ((others[k]).words c)) := fun k _ => unchangedWords_ok _ _
    obtain ⟨hl, hm⟩ := hcols p hp
    cases i with
    | zero =>
      cases j with
      | zero => rfl
      | succ j =>
        have hj' : j < others.length := by simpa using hj
        rw [hin j hj'] at heq
        have hsrc : base = others[j] :=
          hF base (by simp) _ (List.mem_cons_of_mem _ (List.getElem_mem hj')) heq
        rw [hmid p hp j hj']
        have hd := unchangedWords_diag (base.words c) (p.1, p.2.getD j 0) (by
          have := hm j hj'; rw [← hsrc] at this; exact this)
        simp only at hd
        rw [← hsrc, ← hd]; rfl
    | succ i =>
      have hi' : i < others.length := by simpa using hi
      cases j with
      | zero =>
        rw [hin i hi'] at heq
        have hsrc : others[i] = base :=
          hF _ (List.mem_cons_of_mem _ (List.getElem_mem hi')) base (by simp) heq
        rw [hmid p hp i hi']
        have hd := unchangedWords_diag (base.words c) (p.1, p.2.getD i 0) (by
          have := hm i hi'; rw [hsrc] at this; exact this)
        simp only at hd
        rw [hsrc, ← hd]; rfl
      | succ j =>
        have hj' : j < others.length := by simpa using hj
        rw [hin i hi', hin j hj'] at heq
        have hsrc : others[i] = others[j] :=
          hF _ (List.mem_cons_of_mem _ (List.getElem_mem hi')) _ (List.mem_cons_of_mem _ (List.getElem_mem hj')) heq
        rw [hmid p hp i hi', hmid p hp j hj', hsrc]
        have h1 := hm i hi'
        have h2 := hm j hj'
        rw [hsrc] at h1
        rw [win_partner_unique _ _ _ (hwin j hj') p.1 _ _ h1 h2]
  · -- stop region
    have : ∀ k, k < (base.text :: others.map (·.text)).length →
        (stopRegion base others).getD k ⟨0, 0⟩ =
          ⟨((base.text :: others.map (·.text)).getD k []).length,
           ((base.text :: others.map (·.text)).getD k []).length⟩ := by
      intro k hk
      cases k with
      | zero => rfl
      | succ k => have hk' : k < others.length := by simpa using hk
                  simp [stopRegion, List.getD, hk']
    rw [this i hi, this j hj, heq]


theorem rawRegions_sre (c : Compare) (base : Source) (others : List Source)
    (hF : ∀ s ∈ base :: others, ∀ s' ∈ base :: others, s.text = s'.text → s = s') :
    ∀ r ∈ rawRegions c base others, RegionSRE (base.text :: others.map (·.text)) r := by
  cases others with
  | nil =>
    intro r _ i j hi hj _
    have : i = 0 := by simpa using hi
    have : j = 0 := by simpa using hj
    subst_vars; rfl
  | cons first tail =>
    obtain ⟨ps, hcols, hshape⟩ := rawRegions_shape_mem c base first tail
    rw [hshape]
    exact shape_sre c base (first :: tail) hF ps hcols

theorem compactGo_sre (inputs : List Bytes) (rest : List Region) (prev : Region)
    (hp : prev.length = inputs.length) (hr : ∀ r ∈ rest, r.length = inputs.length)
    (sp : RegionSRE inputs prev) (sr : ∀ r ∈ rest, RegionSRE inputs r) :
    ∀ r ∈ compactGo (some prev) rest, RegionSRE inputs r := by
  induction rest generalizing prev with
  | nil => intro r hrm; simp [compactGo] at hrm; subst hrm; exact sp
  | cons cur rest ih =>
    have hc := hr cur (by simp)
    have hr' : ∀ r ∈ rest, r.length = inputs.length := fun r h => hr r (by simp [h])
    have sr' : ∀ r ∈ rest, RegionSRE inputs r := fun r h => sr r (by simp [h])
    rw [compactGo]
    split
    · apply ih _ (length_mergeRegion _ _ _ hp hc) hr' _ sr'
      intro i j hi hj he
      rw [mergeRegion_at prev cur i (by omega) (by omega), mergeRegion_at prev cur j (by omega) (by omega),
        sp i j hi hj he, sr cur (by simp) i j hi hj he]
    · intro r hrm
      simp only [List.mem_cons] at hrm
      rcases hrm with rfl | hrm
      · exact sp
      · exact ih cur hc hr' (sr cur (by simp)) sr' r hrm

theorem compact_sre (inputs : List Bytes) (regions : List Region)
    (ha : ∀ r ∈ regions, r.length = inputs.length) (hs : ∀ r ∈ regions, RegionSRE inputs r) :
    ∀ r ∈ compact regions, RegionSRE inputs r := by
  cases regions with
  | nil => simp [compact, compactGo]
  | cons first rest =>
    simp only [compact, compactGo]
    exact compactGo_sre inputs rest first (ha _ (by simp)) (fun r h => ha r (by simp [h]))
      (hs _ (by simp)) (fun r h => hs r (by simp [h]))

theorem hunksFrom_sre (inputs : List Bytes) (rest : List Region) (prev : Region)
    (hp : prev.length = inputs.length) (hr : ∀ r ∈ rest, r.length = inputs.length)
    (sp : RegionSRE inputs prev) (sr : ∀ r ∈ rest, RegionSRE inputs r) :
    ∀ h ∈ hunksFrom prev rest, RegionSRE inputs h.ranges := by
  induction rest generalizing prev with
  | nil => simp [hunksFrom]
  | cons cur rest ih =>
    have hc := hr cur (by simp)
    have ih' := ih cur hc (fun r h => hr r (by simp [h])) (sr cur (by simp)) (fun r h => sr r (by simp [h]))
    have hb : RegionSRE inputs (between prev cur) := by
      intro i j hi hj he
      rw [between_at prev cur i (by omega) (by omega), between_at prev cur j (by omega) (by omega),
        sp i j hi hj he, sr cur (by simp) i j hi hj he]
    intro h hh
    rw [hunksFrom] at hh
    split at hh
    · simp only [List.mem_cons] at hh
      rcases hh with rfl | hh
      · exact hb
      · exact ih' h hh
    · simp only [List.mem_cons] at hh
      rcases hh with rfl | rfl | hh
      · exact hb
      · exact sr cur (by simp)
      · exact ih' h hh

theorem hunkRangesOf_sre (inputs : List Bytes) (regions : List Region)
    (ha : ∀ r ∈ regions, r.length = inputs.length) (hs : ∀ r ∈ regions, RegionSRE inputs r) :
    ∀ h ∈ hunkRangesOf regions, RegionSRE inputs h.ranges := by
  cases regions with
  | nil => simp [hunkRangesOf]
  | cons first rest =>
    have hrest := hunksFrom_sre inputs rest first (ha _ (by simp)) (fun r h => ha r (by simp [h]))
      (hs _ (by simp)) (fun r h => hs r (by simp [h]))
    intro h hh
    rw [hunkRangesOf] at hh
    split at hh
    · exact hrest h hh
    · simp only [List.mem_cons] at hh
      rcases hh with rfl | hh
      · exact hs _ (by simp)
      · exact hrest h hh

theorem tokenize_functional (tok : Tokenizer) (inputs : List Bytes) :
    ∀ s ∈ tokenize tok inputs, ∀ s' ∈ tokenize tok inputs, s.text = s'.text → s = s' := by
  unfold tokenize
  split
  · intro s hs s' hs' he
    simp only [List.mem_map] at hs hs'
    obtain ⟨t, _, rfl⟩ := hs
    obtain ⟨t', _, rfl⟩ := hs'
    simp only at he; rw [he]
  · intro s hs s' hs' he
    simp only [List.mem_map] at hs hs'
    obtain ⟨t, _, rfl⟩ := hs
    obtain ⟨t', _, rfl⟩ := hs'
    simp only at he; rw [he]

/-- **Slices respect equality**: in every hunk of a `for_tokenizer` diff, inputs with equal contents
have equal ranges. -/
theorem forTokenizer_sre (inputs : List Bytes) (tok : Tokenizer) (c : Compare) (d : ContentDiff)
    (h : forTokenizer inputs tok c = some d) : ∀ hk ∈ d.hunkRanges, RegionSRE inputs hk.ranges := by
  obtain ⟨htext, htok⟩ := tokenize_ok tok inputs
  have hfun := tokenize_functional tok inputs
  obtain ⟨_, hwf⟩ := forTokenizer_wf inputs tok c d h
  unfold forTokenizer at h
  cases hs : tokenize tok inputs with
  | nil => rw [hs] at h; cases h
  | cons base others =>
    rw [hs] at h htext htok hfun
    simp only [Option.some.injEq] at h
    subst h
    simp only [List.map_cons] at htext
    have hraw := rawRegions_sre c base others hfun
    rw [htext] at hraw
    have hrw := rawRegions_wf c base others (htok base (by simp)) (fun o ho => htok o (by simp [ho]))
    rw [htext] at hrw
    exact hunkRangesOf_sre inputs _ hwf.arity (compact_sre inputs _ hrw.arity hraw)

end JjModel.Diff
