import JjModel.Model.OpStore
/-! Helper lemmas for C16: ordered containers, `Except` plumbing, ref-target proto forms. -/
namespace JjModel.OpStore
open JjModel.Codec

/-! ### the byte-string order -/

theorem bLt_irrefl (a : Bytes) : bLt a a = false := by
  induction a with
  | nil => rfl
  | cons x xs ih => simp [bLt, ih]

theorem bLt_asymm {a b : Bytes} (h : bLt a b = true) : bLt b a = false := by
  induction a generalizing b with
  | nil => cases b <;> simp_all [bLt]
  | cons x xs ih =>
    cases b with
    | nil => simp [bLt] at h
    | cons y ys =>
      simp only [bLt] at h ⊢
      by_cases h1 : x.toNat < y.toNat
      · have : ¬ y.toNat < x.toNat := by omega
        have hne : y ≠ x := by intro e; subst e; omega
        simp [this, hne]
      · simp only [h1, if_false] at h
        by_cases h2 : x = y
        · subst h2; simp only [if_true] at h; simp [ih h]
        · simp [h2] at h

theorem bLt_trans {a b c : Bytes} (h1 : bLt a b = true) (h2 : bLt b c = true) : bLt a c = true := by
  induction a generalizing b c with
  | nil =>
    cases b with
    | nil => simp [bLt] at h1
    | cons y ys => cases c <;> simp_all [bLt]
  | cons x xs ih =>
    cases b with
    | nil => simp [bLt] at h1
    | cons y ys =>
      cases c with
      | nil => simp [bLt] at h2
      | cons z zs =>
        simp only [bLt] at h1 h2 ⊢
        by_cases hxy : x.toNat < y.toNat
        · by_cases hyz : y.toNat < z.toNat
          · have : x.toNat < z.toNat := by omega
            simp [this]
          · simp only [hyz, if_false] at h2
            by_cases e : y = z
            · subst e; simp [hxy]
            · simp [e] at h2
        · simp only [hxy, if_false] at h1
          by_cases e : x = y
          · subst e
            simp only [if_true] at h1
            by_cases hyz : x.toNat < z.toNat
            · simp [hyz]
            · simp only [hyz, if_false] at h2 ⊢
              by_cases e2 : x = z
              · subst e2; simp only [if_true] at h2 ⊢; exact ih h1 h2
              · simp [e2] at h2
          · simp [e] at h1

theorem bLt_ne {a b : Bytes} (h : bLt a b = true) : a ≠ b := by
  intro e; subst e; rw [bLt_irrefl] at h; cases h

/-! ### `BTreeMap` as a sorted association list -/

theorem BMap.Sorted.tail {V} {e : Bytes × V} {m : BMap V} (h : BMap.Sorted (e :: m)) : BMap.Sorted m := by
  cases m with
  | nil => trivial
  | cons f r => obtain ⟨k, v⟩ := e; obtain ⟨k', v'⟩ := f; exact h.2

/-- every key of a sorted map is above its head -/
theorem BMap.Sorted.head_lt {V} {k : Bytes} {v : V} {m : BMap V} (h : BMap.Sorted ((k, v) :: m)) :
    ∀ e ∈ m, bLt k e.1 = true := by
  induction m generalizing k v with
  | nil => intro e he; cases he
  | cons f r ih =>
    obtain ⟨k', v'⟩ := f
    intro e he
    rcases List.mem_cons.mp he with rfl | he
    · exact h.1
    · exact bLt_trans h.1 (ih h.2 e he)

theorem BMap.insert_append {V} (acc : BMap V) (k : Bytes) (v : V)
    (h : ∀ e ∈ acc, bLt e.1 k = true) : BMap.insert k v acc = acc ++ [(k, v)] := by
  induction acc with
  | nil => rfl
  | cons f r ih =>
    obtain ⟨k', v'⟩ := f
    have hk : bLt k' k = true := h (k', v') (by simp)
    have h1 : bLt k k' = false := bLt_asymm hk
    have h2 : k ≠ k' := fun e => bLt_ne hk e.symm
    simp only [BMap.insert, h1, h2, if_false, Bool.false_eq_true, List.cons_append]
    rw [ih (fun e he => h e (by simp [he]))]

theorem BMap.foldl_insert_sorted {V} (m acc : BMap V)
    (hacc : ∀ e ∈ acc, ∀ f ∈ m, bLt e.1 f.1 = true) (hm : BMap.Sorted m) :
    m.foldl (fun a p => BMap.insert p.1 p.2 a) acc = acc ++ m := by
  induction m generalizing acc with
  | nil => simp
  | cons f r ih =>
    obtain ⟨k, v⟩ := f
    simp only [List.foldl_cons]
    rw [BMap.insert_append acc k v (fun e he => hacc e he (k, v) (by simp))]
    rw [ih _ _ hm.tail, List.append_assoc]; rfl
    intro e he g hg
    rcases List.mem_append.mp he with he | he
    · exact hacc e he g (by simp [hg])
    · simp only [List.mem_singleton] at he; subst he; exact hm.head_lt g hg

/-- collecting a key-sorted list of pairs gives the same map back -/
theorem BMap.ofList_sorted {V} (m : BMap V) (h : BMap.Sorted m) : BMap.ofList m = m := by
  have := BMap.foldl_insert_sorted m [] (by intro e he; cases he) h
  simpa [BMap.ofList] using this

theorem SetSorted.tail {k : Bytes} {s : List Bytes} (h : SetSorted (k :: s)) : SetSorted s := by
  cases s with
  | nil => trivial
  | cons f r => exact h.2

theorem SetSorted.head_lt {k : Bytes} {s : List Bytes} (h : SetSorted (k :: s)) : ∀ e ∈ s, bLt k e = true := by
  induction s generalizing k with
  | nil => intro e he; cases he
  | cons f r ih =>
    intro e he
    rcases List.mem_cons.mp he with rfl | he
    · exact h.1
    · exact bLt_trans h.1 (ih h.2 e he)

theorem setInsert_append (acc : List Bytes) (k : Bytes) (h : ∀ e ∈ acc, bLt e k = true) :
    setInsert k acc = acc ++ [k] := by
  induction acc with
  | nil => rfl
  | cons f r ih =>
    have hk : bLt f k = true := h f (by simp)
    have h1 : bLt k f = false := bLt_asymm hk
    have h2 : k ≠ f := fun e => bLt_ne hk e.symm
    simp only [setInsert, h1, h2, if_false, Bool.false_eq_true, List.cons_append]
    rw [ih (fun e he => h e (by simp [he]))]

theorem foldl_setInsert_sorted (s acc : List Bytes)
    (hacc : ∀ e ∈ acc, ∀ f ∈ s, bLt e f = true) (hs : SetSorted s) :
    s.foldl (fun a k => setInsert k a) acc = acc ++ s := by
  induction s generalizing acc with
  | nil => simp
  | cons k r ih =>
    simp only [List.foldl_cons]
    rw [setInsert_append acc k (fun e he => hacc e he k (by simp))]
    rw [ih _ _ hs.tail, List.append_assoc]; rfl
    intro e he g hg
    rcases List.mem_append.mp he with he | he
    · exact hacc e he g (by simp [hg])
    · simp only [List.mem_singleton] at he; subst he; exact hs.head_lt g hg

theorem setOfList_sorted (s : List Bytes) (h : SetSorted s) : setOfList s = s := by
  have := foldl_setInsert_sorted s [] (by intro e he; cases he) h
  simpa [setOfList] using this

/-! ### `Except` plumbing -/

@[simp] theorem bind_ok {α β} (a : α) (f : α → Except Err β) : (Except.ok a >>= f) = f a := rfl
@[simp] theorem pure_eq_ok {α} (a : α) : (pure a : Except Err α) = .ok a := rfl

theorem mapE_map_ok {α β γ} (f : α → β) (g : β → Except Err γ) (k : α → γ)
    (l : List α) (hl : ∀ x ∈ l, g (f x) = .ok (k x)) : mapE g (l.map f) = .ok (l.map k) := by
  induction l with
  | nil => rfl
  | cons x xs ih =>
    simp only [List.map_cons, mapE, hl x (by simp)]
    rw [ih (fun y hy => hl y (by simp [hy]))]

theorem mapE_ok_id {α} (g : α → Except Err α) (l : List α) (hl : ∀ x ∈ l, g x = .ok x) :
    mapE g l = .ok l := by
  induction l with
  | nil => rfl
  | cons x xs ih =>
    simp only [mapE, hl x (by simp)]
    rw [ih (fun y hy => hl y (by simp [hy]))]

/-! ### ref targets -/

open JjModel.Merge (adds removes)

/-- odd number of terms (what `Merge` guarantees) -/
def TargetWF (t : RefTarget) : Prop := t.length % 2 = 1

theorem fromRemovesAdds_removes_adds {α} (t : List α) (h : t.length % 2 = 1) :
    fromRemovesAdds (removes t) (adds t) = some t := by
  fun_induction adds t with
  | case1 => simp at h
  | case2 a => rfl
  | case3 a r rest ih =>
    have hrest : rest.length % 2 = 1 := by simp only [List.length_cons] at h; omega
    have ih := ih hrest
    simp only [removes, fromRemovesAdds] at ih ⊢
    match hA : adds rest, ih with
    | [], ih => simp at ih
    | a' :: as', ih =>
      simp only [zipRA]
      simp only at ih
      cases hz : zipRA (removes rest) as' with
      | none => rw [hz] at ih; simp at ih
      | some l => rw [hz] at ih; simp only [Option.map_some, Option.some.injEq] at ih ⊢; rw [← ih]

theorem refTarget_proto_roundtrip (t : RefTarget) (h : TargetWF t) :
    refTargetFromProto (refTargetToProto t) = .ok t := by
  simp [refTargetFromProto, refTargetToProto, fromRemovesAdds_removes_adds t h]

theorem refTarget_terms_roundtrip (t : RefTarget) (h : TargetWF t) :
    refTargetFromTermsProto (refTargetToTermsProto t) = .ok t := by
  unfold TargetWF at h
  have : ¬ t.length % 2 = 0 := by omega
  simp [refTargetFromTermsProto, refTargetToTermsProto, this]

theorem remoteRefState_roundtrip (s : RemoteRefState) :
    remoteRefStateFromProto (remoteRefStateToProto s) = .ok s := by
  cases s <;> rfl

/-! ### well-formedness (what the Rust types and the `View` layer guarantee) -/

def TargetsWF (m : BMap RefTarget) : Prop := BMap.Sorted m ∧ ∀ e ∈ m, TargetWF e.2
def RemoteRefsWF (m : BMap RemoteRef) : Prop := BMap.Sorted m ∧ ∀ e ∈ m, TargetWF e.2.target
def RemoteViewWF (rv : RemoteView) : Prop := RemoteRefsWF rv.bookmarks ∧ RemoteRefsWF rv.tags

instance BMap.decSorted {V} : (m : BMap V) → Decidable (BMap.Sorted m)
  | [] => isTrue trivial
  | [_] => isTrue trivial
  | (k, _) :: (k', v') :: r =>
    match BMap.decSorted ((k', v') :: r) with
    | isTrue h => if hk : bLt k k' = true then isTrue ⟨hk, h⟩ else isFalse (fun c => hk c.1)
    | isFalse h => isFalse (fun c => h c.2)

instance decSetSorted : (s : List Bytes) → Decidable (SetSorted s)
  | [] => isTrue trivial
  | [_] => isTrue trivial
  | k :: k' :: r =>
    match decSetSorted (k' :: r) with
    | isTrue h => if hk : bLt k k' = true then isTrue ⟨hk, h⟩ else isFalse (fun c => hk c.1)
    | isFalse h => isFalse (fun c => h c.2)

instance (t : RefTarget) : Decidable (TargetWF t) := by unfold TargetWF; infer_instance
instance (m : BMap RefTarget) : Decidable (TargetsWF m) := by unfold TargetsWF; infer_instance
instance (m : BMap RemoteRef) : Decidable (RemoteRefsWF m) := by unfold RemoteRefsWF; infer_instance
instance (rv : RemoteView) : Decidable (RemoteViewWF rv) := by unfold RemoteViewWF; infer_instance

/-! ### new-style remote views -/

theorem remoteRefs_roundtrip (m : BMap RemoteRef) (h : RemoteRefsWF m) :
    remoteRefsFromProto (remoteRefsToProto m) = .ok m := by
  have : mapE remoteRefFromProto (m.map remoteRefToProto) = .ok (m.map id) := by
    apply mapE_map_ok
    intro e he
    simp [remoteRefFromProto, remoteRefToProto, refTarget_terms_roundtrip _ (h.2 e he),
      remoteRefState_roundtrip]
  simp only [remoteRefsFromProto, remoteRefsToProto, this, List.map_id, bind_ok]
  rw [BMap.ofList_sorted m h.1]

theorem remoteViews_roundtrip (rvs : BMap RemoteView) (hs : BMap.Sorted rvs)
    (h : ∀ e ∈ rvs, RemoteViewWF e.2) : remoteViewsFromProto (remoteViewsToProto rvs) = .ok rvs := by
  have : mapE remoteViewFromProto (rvs.map remoteViewToProto) = .ok (rvs.map id) := by
    apply mapE_map_ok
    intro e he
    simp [remoteViewFromProto, remoteViewToProto, remoteRefs_roundtrip _ (h e he).1,
      remoteRefs_roundtrip _ (h e he).2]
  simp only [remoteViewsFromProto, remoteViewsToProto, this, List.map_id, bind_ok]
  rw [BMap.ofList_sorted rvs hs]

/-! ### the legacy bookmark form -/

/-- `legacyRemoteStep` when nothing can fail -/
def legacyRemotePure (bname : Name) (rvs : BMap RemoteView) (rb : Name × RemoteRef) : BMap RemoteView :=
  let rv := (rvs.get? rb.1).getD RemoteView.empty
  rvs.insert rb.1 { rv with bookmarks := rv.bookmarks.insert bname rb.2 }

def legacyPure (acc : BMap RefTarget × BMap RemoteView) (e : JoinEntry) : BMap RefTarget × BMap RemoteView :=
  (if e.2.1.isPresent then acc.1.insert e.1 e.2.1 else acc.1, e.2.2.foldl (legacyRemotePure e.1) acc.2)

def EntryWF (e : JoinEntry) : Prop := TargetWF e.2.1 ∧ ∀ rb ∈ e.2.2, TargetWF rb.2.target

theorem legacyRemote_fold (bname : Name) (rbs : List (Name × RemoteRef)) (rvs : BMap RemoteView)
    (h : ∀ rb ∈ rbs, TargetWF rb.2.target) :
    foldE (legacyRemoteStep bname) rvs (rbs.map remoteBookmarkToProto) =
      .ok (rbs.foldl (legacyRemotePure bname) rvs) := by
  induction rbs generalizing rvs with
  | nil => rfl
  | cons rb rest ih =>
    have h1 : legacyRemoteStep bname rvs (remoteBookmarkToProto rb) = .ok (legacyRemotePure bname rvs rb) := by
      simp [legacyRemoteStep, remoteBookmarkToProto, remoteRefState_roundtrip,
        refTarget_proto_roundtrip _ (h rb (by simp)), legacyRemotePure]
    simp only [List.map_cons, foldE, h1, List.foldl_cons]
    exact ih _ (fun x hx => h x (by simp [hx]))

theorem legacyStep_entry (acc : BMap RefTarget × BMap RemoteView) (e : JoinEntry) (h : EntryWF e) :
    legacyStep acc (joinEntryToProto e) = .ok (legacyPure acc e) := by
  simp [legacyStep, joinEntryToProto, refTarget_proto_roundtrip _ h.1, legacyRemote_fold _ _ _ h.2,
    legacyPure]

theorem legacy_fold (es : List JoinEntry) (acc : BMap RefTarget × BMap RemoteView)
    (h : ∀ e ∈ es, EntryWF e) :
    foldE legacyStep acc (es.map joinEntryToProto) = .ok (es.foldl legacyPure acc) := by
  induction es generalizing acc with
  | nil => rfl
  | cons e rest ih =>
    simp only [List.map_cons, foldE, legacyStep_entry acc e (h e (by simp)), List.foldl_cons]
    exact ih _ (fun x hx => h x (by simp [hx]))

/-- the local bookmarks a list of join entries carries -/
def localsOf (es : List JoinEntry) : List (Name × RefTarget) :=
  es.filterMap fun e => if e.2.1.isPresent then some (e.1, e.2.1) else none

theorem legacyPure_fold_fst (es : List JoinEntry) (acc : BMap RefTarget × BMap RemoteView) :
    (es.foldl legacyPure acc).1 = (localsOf es).foldl (fun m p => BMap.insert p.1 p.2 m) acc.1 := by
  induction es generalizing acc with
  | nil => rfl
  | cons e rest ih =>
    simp only [List.foldl_cons, ih, localsOf, List.filterMap_cons]
    by_cases hp : e.2.1.isPresent = true <;> simp [legacyPure, hp]

theorem legacyPure_fold_snd (es : List JoinEntry) (acc : BMap RefTarget × BMap RemoteView)
    (h : ∀ e ∈ es, e.2.2 = []) : (es.foldl legacyPure acc).2 = acc.2 := by
  induction es generalizing acc with
  | nil => rfl
  | cons e rest ih =>
    simp only [List.foldl_cons]
    rw [ih _ (fun x hx => h x (by simp [hx]))]
    simp [legacyPure, h e (by simp)]

theorem absent_not_present : RefTarget.absent.isPresent = false := rfl

/-- `merge_join_ref_views` yields every local bookmark exactly once, in order, and the synthesized
entries (names that exist only on remotes) carry the absent target. -/
theorem mergeJoin_locals (fuel : Nat) (locals : List (Name × RefTarget))
    (remotes : List ((Name × Name) × RemoteRef))
    (hp : ∀ l ∈ locals, l.2.isPresent = true) (hf : locals.length + remotes.length ≤ fuel) :
    localsOf (mergeJoin fuel locals remotes) = locals := by
  induction fuel generalizing locals remotes with
  | zero =>
    have : locals = [] := List.eq_nil_of_length_eq_zero (by omega)
    subst this; rfl
  | succ fuel ih =>
    cases remotes with
    | nil =>
      cases locals with
      | nil => rfl
      | cons l ls =>
        obtain ⟨ln, t⟩ := l
        have hpl : t.isPresent = true := hp (ln, t) (by simp)
        simp only [mergeJoin, localsOf, List.filterMap_cons, hpl, if_true]
        congr 1
        exact ih ls [] (fun x hx => hp x (by simp [hx])) (by simp only [List.length_cons] at hf; simp; omega)
    | cons r rs =>
      obtain ⟨⟨rn, rm⟩, ref⟩ := r
      have hdrop : ∀ (nm : Name), ((((rn, rm), ref) :: rs).dropWhile (fun e => e.1.1 == nm)).length ≤ rs.length + 1 := by
        intro nm
        have := (List.dropWhile_sublist (fun (e : (Name × Name) × RemoteRef) => e.1.1 == nm)
          (l := ((rn, rm), ref) :: rs)).length_le
        simpa using this
      have hdrop' : ((((rn, rm), ref) :: rs).dropWhile (fun e => e.1.1 == rn)).length ≤ rs.length := by
        simp only [List.dropWhile_cons, beq_self_eq_true, if_true]
        exact (List.dropWhile_sublist _).length_le
      cases locals with
      | nil =>
        simp only [mergeJoin, localsOf, List.filterMap_cons, absent_not_present, Bool.false_eq_true, if_false]
        exact ih [] _ (by intro x hx; cases hx) (by simp only [List.length_cons, List.length_nil] at hf ⊢; omega)
      | cons l ls =>
        obtain ⟨ln, t⟩ := l
        have hpl : t.isPresent = true := hp (ln, t) (by simp)
        simp only [List.length_cons] at hf
        by_cases hle : bLe ln rn = true
        · simp only [mergeJoin, hle, if_true, localsOf, List.filterMap_cons, hpl]
          congr 1
          exact ih ls _ (fun x hx => hp x (by simp [hx])) (by have := hdrop ln; omega)
        · simp only [mergeJoin, hle, if_false, localsOf, List.filterMap_cons, absent_not_present,
            Bool.false_eq_true]
          exact ih _ _ hp (by simp only [List.length_cons]; omega)

theorem mem_takeWhile {α} {p : α → Bool} {l : List α} {x : α} (h : x ∈ l.takeWhile p) : x ∈ l :=
  (List.takeWhile_sublist p).subset h

theorem mem_dropWhile {α} {p : α → Bool} {l : List α} {x : α} (h : x ∈ l.dropWhile p) : x ∈ l :=
  (List.dropWhile_sublist p).subset h

theorem absent_wf : TargetWF RefTarget.absent := rfl

theorem mergeJoin_wf (fuel : Nat) (locals : List (Name × RefTarget))
    (remotes : List ((Name × Name) × RemoteRef))
    (hl : ∀ l ∈ locals, TargetWF l.2) (hr : ∀ r ∈ remotes, TargetWF r.2.target) :
    ∀ e ∈ mergeJoin fuel locals remotes, EntryWF e := by
  induction fuel generalizing locals remotes with
  | zero => intro e he; cases he
  | succ fuel ih =>
    cases remotes with
    | nil =>
      cases locals with
      | nil => intro e he; cases he
      | cons l ls =>
        obtain ⟨ln, t⟩ := l
        intro e he
        simp only [mergeJoin, List.mem_cons] at he
        rcases he with rfl | he
        · exact ⟨hl (ln, t) (by simp), by intro rb hrb; cases hrb⟩
        · exact ih ls [] (fun x hx => hl x (by simp [hx])) hr e he
    | cons r rs =>
      obtain ⟨⟨rn, rm⟩, ref⟩ := r
      have hrem : ∀ (p : (Name × Name) × RemoteRef → Bool), ∀ x ∈ (((rn, rm), ref) :: rs).dropWhile p, TargetWF x.2.target :=
        fun p x hx => hr x (mem_dropWhile hx)
      have htk : ∀ (p : (Name × Name) × RemoteRef → Bool),
          ∀ rb ∈ ((((rn, rm), ref) :: rs).takeWhile p).map (fun e => (e.1.2, e.2)), TargetWF rb.2.target := by
        intro p rb hrb
        obtain ⟨x, hx, rfl⟩ := List.mem_map.mp hrb
        exact hr x (mem_takeWhile hx)
      cases locals with
      | nil =>
        intro e he
        simp only [mergeJoin, List.mem_cons] at he
        rcases he with rfl | he
        · exact ⟨absent_wf, htk _⟩
        · exact ih [] _ (by intro x hx; cases hx) (hrem _) e he
      | cons l ls =>
        obtain ⟨ln, t⟩ := l
        intro e he
        by_cases hle : bLe ln rn = true
        · simp only [mergeJoin, hle, if_true, List.mem_cons] at he
          rcases he with rfl | he
          · exact ⟨hl (ln, t) (by simp), htk _⟩
          · exact ih ls _ (fun x hx => hl x (by simp [hx])) (hrem _) e he
        · simp only [mergeJoin, hle, List.mem_cons] at he
          rcases he with rfl | he
          · exact ⟨absent_wf, htk _⟩
          · exact ih _ _ hl (hrem _) e he

theorem mergeJoin_no_remotes (fuel : Nat) (locals : List (Name × RefTarget)) (hf : locals.length ≤ fuel) :
    ∀ e ∈ mergeJoin fuel locals [], e.2.2 = [] := by
  induction fuel generalizing locals with
  | zero => intro e he; cases he
  | succ fuel ih =>
    cases locals with
    | nil => intro e he; cases he
    | cons l ls =>
      obtain ⟨ln, t⟩ := l
      intro e he
      simp only [mergeJoin, List.mem_cons] at he
      rcases he with rfl | he
      · rfl
      · exact ih ls (by simp only [List.length_cons] at hf; omega) e he

theorem mem_symInsert {e x : (Name × Name) × RemoteRef} {l : List ((Name × Name) × RemoteRef)}
    (h : x ∈ symInsert e l) : x = e ∨ x ∈ l := by
  induction l with
  | nil => simp [symInsert] at h; exact Or.inl h
  | cons f r ih =>
    simp only [symInsert] at h
    split at h
    · simpa using h
    · rcases List.mem_cons.mp h with rfl | h
      · exact Or.inr (by simp)
      · rcases ih h with rfl | h
        · exact Or.inl rfl
        · exact Or.inr (by simp [h])

theorem mem_foldl_symInsert {x : (Name × Name) × RemoteRef} (l acc : List ((Name × Name) × RemoteRef))
    (h : x ∈ l.foldl (fun acc e => symInsert e acc) acc) : x ∈ l ∨ x ∈ acc := by
  induction l generalizing acc with
  | nil => exact Or.inr h
  | cons e r ih =>
    simp only [List.foldl_cons] at h
    rcases ih _ h with h | h
    · exact Or.inl (by simp [h])
    · rcases mem_symInsert h with rfl | h
      · exact Or.inl (by simp)
      · exact Or.inr h

theorem flattenRemoteRefs_wf (rvs : BMap RemoteView) (h : ∀ e ∈ rvs, RemoteViewWF e.2) :
    ∀ r ∈ flattenRemoteRefs rvs (·.bookmarks), TargetWF r.2.target := by
  intro r hr
  rcases mem_foldl_symInsert _ _ hr with hr | hr
  · simp only [List.mem_flatMap, List.mem_map] at hr
    obtain ⟨rv, hrv, b, hb, rfl⟩ := hr
    exact (h rv hrv).1.2 b hb
  · cases hr

/-- the legacy form loses no local bookmark (and invents none) -/
theorem legacy_bookmarks_roundtrip (lb : BMap RefTarget) (rvs : BMap RemoteView)
    (hlb : TargetsWF lb) (hp : ∀ e ∈ lb, e.2.isPresent = true) (hrv : ∀ e ∈ rvs, RemoteViewWF e.2) :
    ∃ legacyRemotes, bookmarkViewsFromProtoLegacy (bookmarkViewsToProtoLegacy lb rvs) = .ok (lb, legacyRemotes)
      ∧ (rvs = [] → legacyRemotes = []) := by
  refine ⟨((mergeJoin (lb.length + (flattenRemoteRefs rvs (·.bookmarks)).length + 1) lb
      (flattenRemoteRefs rvs (·.bookmarks))).foldl legacyPure ([], [])).2, ?_, ?_⟩
  · simp only [bookmarkViewsFromProtoLegacy, bookmarkViewsToProtoLegacy]
    rw [legacy_fold _ _ (mergeJoin_wf _ _ _ hlb.2 (flattenRemoteRefs_wf rvs hrv))]
    congr 1
    apply Prod.ext
    · rw [legacyPure_fold_fst, mergeJoin_locals _ _ _ hp (by omega)]
      exact BMap.ofList_sorted lb hlb.1
    · rfl
  · intro hnil
    subst hnil
    have : flattenRemoteRefs ([] : BMap RemoteView) (·.bookmarks) = [] := rfl
    simp only [this, List.length_nil, Nat.add_zero]
    exact legacyPure_fold_snd _ _ (mergeJoin_no_remotes _ _ (by omega))

end JjModel.OpStore
