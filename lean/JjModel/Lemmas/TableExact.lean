import JjModel.Lemmas.Table
/-!
  Exact lookup results (not only key presence) through squashing and `save_in`, for well-formed
  tables: every segment sorted with unique keys (what `BTreeMap` iteration and the on-disk index
  guarantee).  Well-formedness is preserved by every model operation.
-/
namespace JjModel.Table

/-- every segment of the chain is sorted with unique keys -/
def WF (t : Table) : Prop := ∀ seg ∈ t, Sorted seg

def Mut.WF (m : Mut) : Prop := Sorted m.entries ∧ JjModel.Table.WF m.parent

/-- first file (in list order) that binds `k`, each file read with "last binding wins" -/
def firstL : List Entries → Nat → Option Nat
  | [], _ => none
  | f :: r, k =>
    match lookupLast f k with
    | some v => some v
    | none => firstL r k

theorem firstL_eq_getValue {fs : Table} (h : WF fs) (k : Nat) : firstL fs k = getValue fs k := by
  induction fs with
  | nil => rfl
  | cons f r ih =>
    simp only [firstL, getValue]
    rw [lookupLast_eq_lookup (h f (by simp)), ih (fun s hs => h s (by simp [hs]))]
    cases lookup f k <;> rfl

theorem addFiles_append (a b : List Entries) (acc : Entries) :
    addFiles (a ++ b) acc = addFiles b (addFiles a acc) := by
  simp [addFiles, List.foldl_append]

theorem lookup_addFiles_reverse (fs : List Entries) (acc : Entries) (k : Nat) :
    lookup (addFiles fs.reverse acc) k = match firstL fs k with
      | some v => some v
      | none => lookup acc k := by
  induction fs with
  | nil => simp [addFiles, firstL]
  | cons f r ih =>
    rw [List.reverse_cons, addFiles_append]
    simp only [addFiles, List.foldl_cons, List.foldl_nil]
    rw [lookup_insertAll, firstL]
    cases lookupLast f k with
    | some v => rfl
    | none => exact ih

theorem sorted_addFiles (files : List Entries) {acc : Entries} (h : Sorted acc) : Sorted (addFiles files acc) := by
  unfold addFiles
  induction files generalizing acc with
  | nil => exact h
  | cons f r ih => exact ih (sorted_insertAll f h)

theorem wf_of_suffix {a b : Table} (h : a <:+ b) (hb : WF b) : WF a :=
  fun s hs => hb s (h.subset hs)

theorem squashScan_fst_subset (n : Nat) (t : Table) : ∀ f ∈ (squashScan n t).1, f ∈ t := by
  intro f hf
  have := squashScan_append n t
  rw [← this]; exact List.mem_append_left _ hf

theorem squashScan_snd_suffix (n : Nat) (t : Table) : (squashScan n t).2 <:+ t :=
  ⟨(squashScan n t).1, squashScan_append n t⟩

/-- `squash_preserves_lookup`: `maybe_squash_with_ancestors` never changes a lookup result -/
theorem maybeSquash_getValue (m : Mut) (h : m.WF) (k : Nat) : (maybeSquash m).getValue k = m.getValue k := by
  unfold maybeSquash
  simp only
  split
  · rfl
  · unfold Mut.getValue
    simp only
    rw [lookup_insertAll, lookupLast_eq_lookup h.1]
    cases hl : lookup m.entries k with
    | some v => rfl
    | none =>
      simp only
      rw [lookup_addFiles_reverse]
      have hfs : WF (squashScan m.entries.length m.parent).1 :=
        fun s hs => h.2 s (squashScan_fst_subset _ _ s hs)
      rw [firstL_eq_getValue hfs]
      have happ := getValue_append (squashScan m.entries.length m.parent).1 (squashScan m.entries.length m.parent).2 k
      rw [squashScan_append] at happ
      rw [happ]
      cases getValue (squashScan m.entries.length m.parent).1 k <;> simp [lookup]

theorem maybeSquash_wf (m : Mut) (h : m.WF) : (maybeSquash m).WF := by
  unfold maybeSquash
  simp only
  split
  · exact h
  · exact ⟨sorted_insertAll _ (sorted_addFiles _ sorted_nil), wf_of_suffix (squashScan_snd_suffix _ _) h.2⟩

/-- `save_in` (squash + serialize + load) returns a table with the lookups of the mutable table -/
theorem saveIn_getValue (m : Mut) (h : m.WF) (k : Nat) : getValue (saveIn m) k = m.getValue k := by
  unfold saveIn
  split
  · rename_i he
    simp only [Bool.and_eq_true, List.isEmpty_iff] at he
    unfold Mut.getValue; rw [he.1]; simp [lookup]
  · rw [← maybeSquash_getValue m h k]
    simp only [getValue, Mut.getValue]

theorem saveIn_wf (m : Mut) (h : m.WF) : WF (saveIn m) := by
  unfold saveIn
  split
  · exact h.2
  · have hq := maybeSquash_wf m h
    intro s hs
    simp only [List.mem_cons] at hs
    rcases hs with rfl | hs
    · exact hq.1
    · exact hq.2 s hs

theorem mutate_wf (base : Table) (es : Entries) (h : WF base) : (mutate base es).WF :=
  ⟨sorted_insertAll es sorted_nil, h⟩

/-- `later_save_wins`: in the table returned by a save, a key written by the save has the value of
    its last `add_entry`; every other key keeps the base's value -/
theorem save_getValue (base : Table) (es : Entries) (h : WF base) (k : Nat) :
    getValue (saveIn (mutate base es)) k = match lookupLast es k with
      | some v => some v
      | none => getValue base k := by
  rw [saveIn_getValue _ (mutate_wf base es h)]
  unfold Mut.getValue mutate
  simp only
  rw [lookup_insertAll]
  cases lookupLast es k <;> simp [lookup]

theorem mergeIn_wf (m : Mut) (other : Table) (h : m.WF) : (mergeIn m other).WF :=
  ⟨sorted_addFiles _ h.1, h.2⟩

theorem foldl_mergeIn_wf (rest : List Table) (m : Mut) (h : m.WF) : (rest.foldl mergeIn m).WF := by
  induction rest generalizing m with
  | nil => exact h
  | cons t r ih => exact ih _ (mergeIn_wf m t h)

theorem mergeHeads_wf (t0 : Table) (rest : List Table) (h : WF t0) : WF (mergeHeads t0 rest) :=
  saveIn_wf _ (foldl_mergeIn_wf rest _ ⟨sorted_nil, h⟩)

/-- two sequential saves: the later one wins on the keys it writes -/
theorem later_save_wins (base : Table) (es1 es2 : Entries) (h : WF base) (k v : Nat)
    (h2 : lookupLast es2 k = some v) :
    getValue (saveIn (mutate (saveIn (mutate base es1)) es2)) k = some v := by
  rw [save_getValue _ _ (saveIn_wf _ (mutate_wf base es1 h)), h2]

end JjModel.Table
