import JjModel.Props.C02
/-!
  `trivial_merge` commutes with any function on values: if the terms resolve to `v`, then the
  terms mapped through `g` resolve to `g v` (`trivialMerge_map`).  This is what lets a content merge
  resolve hunk by hunk when the whole contents cancel.
-/
namespace JjModel.Merge
open JjModel.C02
set_option linter.unusedSectionVars false
variable {α β : Type} [DecidableEq α] [DecidableEq β]

theorem sum_zero (K : List α) (F : α → Int) (h : ∀ u ∈ K, F u = 0) : (K.map F).sum = 0 := by
  induction K with
  | nil => rfl
  | cons k K ih =>
    simp only [List.map_cons, List.sum_cons]
    rw [h k (by simp), ih (fun u hu => h u (by simp [hu]))]; rfl

theorem sum_add (K : List α) (A B : α → Int) :
    (K.map (fun u => A u + B u)).sum = (K.map A).sum + (K.map B).sum := by
  induction K with
  | nil => rfl
  | cons k K ih => simp only [List.map_cons, List.sum_cons, ih]; omega

theorem sum_single (K : List α) (hn : K.Nodup) (F : α → Int) (x : α) (hx : x ∈ K)
    (h : ∀ u ∈ K, u ≠ x → F u = 0) : (K.map F).sum = F x := by
  induction K with
  | nil => simp at hx
  | cons k K ih =>
    simp only [List.nodup_cons] at hn
    simp only [List.map_cons, List.sum_cons]
    by_cases hk : k = x
    · subst hk
      rw [sum_zero K F (fun u hu => h u (by simp [hu]) (fun e => hn.1 (e ▸ hu)))]; omega
    · have hx' : x ∈ K := by simpa [Ne.symm hk] using hx
      rw [h k (by simp) hk, ih hn.2 hx' (fun u hu => h u (by simp [hu]))]; omega

theorem sum_two (K : List α) (hn : K.Nodup) (F : α → Int) (x y : α) (hxy : x ≠ y) (hx : x ∈ K) (hy : y ∈ K)
    (h : ∀ u ∈ K, u ≠ x → u ≠ y → F u = 0) : (K.map F).sum = F x + F y := by
  induction K with
  | nil => simp at hx
  | cons k K ih =>
    simp only [List.nodup_cons] at hn
    simp only [List.map_cons, List.sum_cons]
    by_cases hkx : k = x
    · subst hkx
      have hy' : y ∈ K := by simpa [Ne.symm hxy] using hy
      rw [sum_single K hn.2 F y hy' (fun u hu huy => h u (by simp [hu]) (fun e => hn.1 (e ▸ hu)) huy)]
    · by_cases hky : k = y
      · subst hky
        have hx' : x ∈ K := by simpa [hxy] using hx
        rw [sum_single K hn.2 F x hx' (fun u hu hux => h u (by simp [hu]) hux (fun e => hn.1 (e ▸ hu)))]
        omega
      · have hx' : x ∈ K := by simpa [Ne.symm hkx] using hx
        have hy' : y ∈ K := by simpa [Ne.symm hky] using hy
        rw [h k (by simp) hkx hky, ih hn.2 hx' hy' (fun u hu => h u (by simp [hu]))]; omega

/-- a duplicate-free list containing all elements of `l` -/
theorem exists_nodup_cover (l : List α) : ∃ K : List α, K.Nodup ∧ ∀ x ∈ l, x ∈ K := by
  induction l with
  | nil => exact ⟨[], List.nodup_nil, by simp⟩
  | cons x xs ih =>
    obtain ⟨K, hn, hc⟩ := ih
    by_cases hx : x ∈ K
    · exact ⟨K, hn, by intro y hy; simp only [List.mem_cons] at hy; rcases hy with rfl | hy; exact hx; exact hc y hy⟩
    · exact ⟨x :: K, List.nodup_cons.mpr ⟨hx, hn⟩, by
        intro y hy; simp only [List.mem_cons] at hy ⊢; rcases hy with rfl | hy
        · exact Or.inl rfl
        · exact Or.inr (hc y hy)⟩

theorem scount_not_mem (xs : List α) (s : Int) (v : α) (h : v ∉ xs) : scount xs s v = 0 := by
  induction xs generalizing s with
  | nil => rfl
  | cons x xs ih =>
    simp only [List.mem_cons, not_or] at h
    simp only [scount, ind, if_neg (Ne.symm h.1), ih _ h.2]; omega

/-- the signed count after mapping is the sum of the signed counts over the fibre -/
theorem scount_map (g : α → β) (xs : List α) (s : Int) (w : β) (K : List α) (hn : K.Nodup)
    (hc : ∀ x ∈ xs, x ∈ K) :
    scount (xs.map g) s w = (K.map fun u => if g u = w then scount xs s u else 0).sum := by
  induction xs generalizing s with
  | nil => simp only [List.map_nil, scount]; rw [sum_zero]; intro u _; split <;> rfl
  | cons x xs ih =>
    have hx : x ∈ K := hc x (by simp)
    simp only [List.map_cons, scount]
    rw [ih (-s) (fun y hy => hc y (by simp [hy]))]
    have e : (fun u => if g u = w then s * ind x u + scount xs (-s) u else 0) =
        (fun u => (if g u = w then s * ind x u else 0) + (if g u = w then scount xs (-s) u else 0)) := by
      funext u; split <;> simp
    rw [e, sum_add]
    congr 1
    rw [sum_single K hn _ x hx (fun u _ hux => by simp [ind, Ne.symm hux])]
    simp only [ind, if_true]
    split <;> simp

theorem scount_sum (xs : List α) (s : Int) (K : List α) (hn : K.Nodup) (hc : ∀ x ∈ xs, x ∈ K) :
    (K.map fun u => scount xs s u).sum = if xs.length % 2 = 1 then s else 0 := by
  induction xs generalizing s with
  | nil => simp only [scount, List.length_nil]; rw [sum_zero]; rfl; intro _ _; rfl
  | cons x xs ih =>
    have hx : x ∈ K := hc x (by simp)
    simp only [scount]
    rw [sum_add, ih (-s) (fun y hy => hc y (by simp [hy])),
      sum_single K hn _ x hx (fun u _ hux => by simp [ind, Ne.symm hux])]
    simp only [ind, if_true, List.length_cons]
    split <;> split <;> omega

/-- **`trivial_merge` commutes with functions on the values.** -/
theorem trivialMerge_map (g : α → β) (vs : List α) (hodd : vs.length % 2 = 1) (sc : SameChange) (v : α)
    (h : trivialMerge vs sc = some v) : trivialMerge (vs.map g) sc = some (g v) := by
  rw [trivial_merge_spec vs hodd] at h
  rw [trivial_merge_spec (vs.map g) (by simpa using hodd)]
  obtain ⟨K, hn, hc⟩ := exists_nodup_cover vs
  have hcount : ∀ w, count (vs.map g) w = (K.map fun u => if g u = w then count vs u else 0).sum := by
    intro w
    rw [count_eq_scount, scount_map g vs 1 w K hn hc]
    congr 2; funext u; rw [count_eq_scount]
  have hmem : ∀ u, count vs u ≠ 0 → u ∈ K := by
    intro u hu
    by_cases hm : u ∈ vs
    · exact hc u hm
    · rw [count_eq_scount, scount_not_mem vs 1 u hm] at hu; exact absurd rfl hu
  rcases h with ⟨h1, h2⟩ | ⟨hsc, hpos, b, hbv, hb, hall⟩
  · -- everything cancels except `v`
    have hform : ∀ w, count (vs.map g) w = if g v = w then count vs v else 0 := by
      intro w
      rw [hcount w, sum_single K hn _ v (hmem v h1)]
      intro u _ huv
      by_cases hu : count vs u = 0
      · simp [hu]
      · exact absurd (h2 u hu) huv
    left
    refine ⟨by rw [hform]; simpa using h1, fun w hw => ?_⟩
    rw [hform] at hw
    by_cases e : g v = w
    · exact e.symm
    · simp [e] at hw
  · -- same-change rule: sides all `v`, bases all `b`
    have hv0 : count vs v ≠ 0 := by omega
    have hform : ∀ w, count (vs.map g) w =
        (if g v = w then count vs v else 0) + (if g b = w then count vs b else 0) := by
      intro w
      rw [hcount w, sum_two K hn _ v b (Ne.symm hbv) (hmem v hv0) (hmem b hb)]
      intro u _ huv hub
      by_cases hu : count vs u = 0
      · simp [hu]
      · rcases hall u hu with e | e
        · exact absurd e huv
        · exact absurd e hub
    have htot : count vs v + count vs b = 1 := by
      have := scount_sum vs 1 K hn hc
      rw [if_pos hodd] at this
      rw [← this, sum_two K hn _ v b (Ne.symm hbv) (hmem v hv0) (hmem b hb)]
      · rw [count_eq_scount, count_eq_scount]
      · intro u _ huv hub
        by_cases hu : count vs u = 0
        · rw [← count_eq_scount]; exact hu
        · rcases hall u hu with e | e
          · exact absurd e huv
          · exact absurd e hub
    by_cases hg : g v = g b
    · left
      have hgv : count (vs.map g) (g v) = 1 := by rw [hform, if_pos rfl, if_pos hg.symm]; exact htot
      refine ⟨by rw [hgv]; decide, fun w hw => ?_⟩
      rw [hform] at hw
      by_cases e : g v = w
      · exact e.symm
      · have e' : ¬ g b = w := by rw [← hg]; exact e
        simp [e, e'] at hw
    · right
      have hgv : count (vs.map g) (g v) = count vs v := by
        rw [hform, if_pos rfl, if_neg (Ne.symm hg)]; omega
      have hgb : count (vs.map g) (g b) = count vs b := by
        rw [hform, if_neg hg, if_pos rfl]; omega
      refine ⟨hsc, by rw [hgv]; exact hpos, g b, Ne.symm hg, by rw [hgb]; exact hb, fun w hw => ?_⟩
      rw [hform] at hw
      by_cases e : g v = w
      · exact Or.inl e.symm
      · by_cases e' : g b = w
        · exact Or.inr e'.symm
        · simp [e, e'] at hw

end JjModel.Merge
