import JjModel.Props.C02
/-!
  Trivial resolution persists under projection: if `trivial_merge` resolves a list of terms to `v`,
  it resolves the image of the list under any function `g` to `g v`.  (A trivially resolved
  directory entry resolves every path below it the same way.)
-/
namespace JjModel.Merge
set_option linter.unusedSectionVars false
set_option linter.unusedSimpArgs false
variable {α β : Type} [DecidableEq α] [DecidableEq β]

/-- signed number of positions whose value satisfies `P` -/
def scountP : List α → Int → (α → Bool) → Int
  | [], _, _ => 0
  | x :: xs, s, P => (if P x then s else 0) + scountP xs (-s) P

theorem scount_eq_scountP (xs : List α) (s : Int) (v : α) :
    scount xs s v = scountP xs s (fun x => decide (x = v)) := by
  induction xs generalizing s with
  | nil => simp [scount, scountP]
  | cons x xs ih => simp only [scount, scountP, ih, ind]; split <;> simp_all

theorem scount_map (g : α → β) (xs : List α) (s : Int) (w : β) :
    scount (xs.map g) s w = scountP xs s (fun x => decide (g x = w)) := by
  induction xs generalizing s with
  | nil => simp [scount, scountP]
  | cons x xs ih => simp only [List.map_cons, scount, scountP, ih, ind]; split <;> simp_all

theorem scountP_split (xs : List α) (s : Int) (P : α → Bool) (u : α) (hu : P u = true) :
    scountP xs s P = scountP xs s (fun x => P x && decide (x ≠ u)) + scount xs s u := by
  induction xs generalizing s with
  | nil => simp [scount, scountP]
  | cons x xs ih =>
    simp only [scountP, scount, ih (-s), ind]
    by_cases hx : x = u
    · subst hx; simp [hu]; omega
    · simp [hx]; omega

theorem scountP_none (xs : List α) (s : Int) (P : α → Bool) (h : ∀ x ∈ xs, P x = false) :
    scountP xs s P = 0 := by
  induction xs generalizing s with
  | nil => simp [scountP]
  | cons x xs ih =>
    simp only [scountP, h x (by simp)]
    simp [ih (-s) (fun y hy => h y (by simp [hy]))]

theorem filter_le_of_imp (xs : List α) (P P' : α → Bool) (himp : ∀ x, P' x = true → P x = true) :
    (xs.filter P').length ≤ (xs.filter P).length := by
  induction xs with
  | nil => simp
  | cons x xs ih =>
    by_cases h' : P' x = true
    · simp [List.filter_cons, h', himp x h']; exact ih
    · by_cases h : P x = true <;> simp [List.filter_cons, h', h] <;> omega

theorem filter_lt_of_imp (xs : List α) (P P' : α → Bool) (himp : ∀ x, P' x = true → P x = true)
    (u : α) (hu : u ∈ xs) (hP : P u = true) (hP' : P' u = false) :
    (xs.filter P').length < (xs.filter P).length := by
  induction xs with
  | nil => simp at hu
  | cons x xs ih =>
    by_cases hx : u = x
    · subst hx
      have := filter_le_of_imp xs P P' himp
      simp [List.filter_cons, hP, hP']; omega
    · have hu' : u ∈ xs := by simpa [hx] using hu
      have := ih hu'
      by_cases h' : P' x = true
      · simp [List.filter_cons, h', himp x h']; exact this
      · by_cases h : P x = true <;> simp [List.filter_cons, h', h] <;> omega

/-- values whose signed count is zero contribute nothing, however many of them there are -/
theorem scountP_zero (xs : List α) (s : Int) (P : α → Bool)
    (h : ∀ u, P u = true → scount xs s u = 0) : scountP xs s P = 0 := by
  generalize hn : (xs.filter P).length = n
  induction n using Nat.strongRecOn generalizing P with
  | _ n ih =>
    by_cases hex : ∃ u ∈ xs, P u = true
    · obtain ⟨u, hu, hPu⟩ := hex
      rw [scountP_split xs s P u hPu, h u hPu, Int.add_zero]
      refine ih _ ?_ _ (fun w hw => h w (by simp at hw; exact hw.1)) rfl
      rw [← hn]
      exact filter_lt_of_imp xs P _ (fun x hx => by simp at hx; exact hx.1) u hu hPu (by simp)
    · exact scountP_none xs s P (fun x hx => by
        cases hP : P x with
        | false => rfl
        | true => exact absurd ⟨x, hx, hP⟩ hex)

theorem scountP_true (xs : List α) (s : Int) :
    scountP xs s (fun _ => true) = if xs.length % 2 = 1 then s else 0 := by
  induction xs generalizing s with
  | nil => simp [scountP]
  | cons x xs ih => simp only [scountP, ih, List.length_cons, if_true]; split <;> split <;> omega

/-- the signed count of an image is the signed count of the preimage -/
theorem count_map (g : α → β) (vs : List α) (w : β) :
    count (vs.map g) w = scountP vs 1 (fun x => decide (g x = w)) := by
  rw [count_eq_scount, scount_map]

/-- pull one value out of the preimage -/
theorem count_map_split (g : α → β) (vs : List α) (w : β) (u : α) (hu : g u = w) :
    count (vs.map g) w = scountP vs 1 (fun x => decide (g x = w) && decide (x ≠ u)) + count vs u := by
  rw [count_map, scountP_split vs 1 _ u (by simpa using hu), count_eq_scount]

open JjModel.C02 in
/-- **Trivial resolution persists under projection.** -/
theorem trivialMerge_map (g : α → β) (vs : List α) (hodd : vs.length % 2 = 1) (sc : SameChange) (v : α)
    (h : trivialMerge vs sc = some v) : trivialMerge (vs.map g) sc = some (g v) := by
  have hodd' : (vs.map g).length % 2 = 1 := by simpa using hodd
  rw [trivial_merge_spec _ hodd'] 
  rw [trivial_merge_spec _ hodd] at h
  have hz := count_eq_scount (α := α) vs
  rcases h with ⟨hv, hall⟩ | ⟨hsc, hpos, b, hbv, hb, hall⟩
  · -- everything but `v` has cancelled
    have hother : ∀ w, count (vs.map g) w = if g v = w then count vs v else 0 := by
      intro w
      by_cases hw : g v = w
      · rw [count_map_split g vs w v hw, if_pos hw, scountP_zero, Int.zero_add]
        intro u hu
        simp only [Bool.and_eq_true, decide_eq_true_eq] at hu
        rw [← hz]
        by_cases hc : count vs u = 0
        · exact hc
        · exact absurd (hall u hc) hu.2
      · rw [count_map, if_neg hw, scountP_zero]
        intro u hu
        simp only [decide_eq_true_eq] at hu
        rw [← hz]
        by_cases hc : count vs u = 0
        · exact hc
        · have := hall u hc; subst this; exact absurd hu hw
    left
    refine ⟨by rw [hother, if_pos rfl]; exact hv, fun w hw => ?_⟩
    rw [hother] at hw
    by_cases hgw : g v = w
    · exact hgw.symm
    · simp [hgw] at hw
  · -- sides all `v`, bases all `b`
    have hzero : ∀ (P : α → Bool), P v = false → P b = false → scountP vs 1 P = 0 := by
      intro P hPv hPb
      apply scountP_zero
      intro u hu
      rw [← hz]
      by_cases hc : count vs u = 0
      · exact hc
      · rcases hall u hc with rfl | rfl
        · simp [hPv] at hu
        · simp [hPb] at hu
    have htotal : count vs v + count vs b = 1 := by
      have h1 := scountP_true vs 1
      rw [if_pos hodd, scountP_split vs 1 _ v rfl, scountP_split vs 1 _ b (by simp [hbv]), ← hz, ← hz,
        hzero _ (by simp) (by simp)] at h1
      omega
    have hother : ∀ w, count (vs.map g) w
        = (if g v = w then count vs v else 0) + (if g b = w then count vs b else 0) := by
      intro w
      by_cases hw : g v = w <;> by_cases hw' : g b = w
      · rw [count_map_split g vs w v hw, scountP_split vs 1 _ b (by simp [hw', hbv]), ← hz,
          hzero _ (by simp) (by simp), if_pos hw, if_pos hw']; omega
      · rw [count_map_split g vs w v hw, hzero _ (by simp) (by simp [hw']), if_pos hw, if_neg hw']; omega
      · rw [count_map_split g vs w b hw', hzero _ (by simp [hw]) (by simp), if_neg hw, if_pos hw']
      · rw [count_map, hzero _ (by simp [hw]) (by simp [hw']), if_neg hw, if_neg hw']; rfl
    by_cases hg : g v = g b
    · left
      refine ⟨by rw [hother, if_pos rfl, if_pos hg.symm]; omega, fun w hw => ?_⟩
      rw [hother] at hw
      by_cases hgw : g v = w
      · exact hgw.symm
      · have : ¬ g b = w := fun hh => hgw (hg.trans hh)
        simp [hgw, this] at hw
    · right
      refine ⟨hsc, by rw [hother, if_pos rfl, if_neg (Ne.symm hg)]; omega, g b, Ne.symm hg,
        by rw [hother, if_neg hg, if_pos rfl]; omega, fun w hw => ?_⟩
      rw [hother] at hw
      by_cases hgw : g v = w
      · exact Or.inl hgw.symm
      · by_cases hgb : g b = w
        · exact Or.inr hgb.symm
        · simp [hgw, hgb] at hw

end JjModel.Merge
