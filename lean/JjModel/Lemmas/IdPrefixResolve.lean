import JjModel.Lemmas.IdPrefix
/-!
  Lemmas for C20, part 2: shortest length vs common prefixes, prefix resolution on sorted
  tables and across segments.
-/
namespace JjModel.IdPrefix

/-! ### the shortest length dominates every common prefix and is attained -/

theorem pair_eq {α β : Type} {x : α × β} {a : α} {b : β} (h1 : x.1 = a) (h2 : x.2 = b) : x = (a, b) := by
  cases x; simp_all

theorem shortestLen_gt_commonLen (tables : List (List Id)) (hs : ∀ t ∈ tables, Sorted t) (key : Id)
    {x : Id} (hx : x ∈ tables.flatten) (hne : x ≠ key) : commonLen key x < shortestLen tables key := by
  obtain ⟨hp, hn⟩ := resolveNeighbors_spec tables hs key
  unfold shortestLen
  rcases idLt_total x key with h | h | h
  · exact absurd h hne
  · -- `x` is below `key`: the previous neighbour is at least as close
    cases hprev : (resolveNeighbors tables key).1 with
    | none => rw [hprev] at hp; simp only [PrevSpec] at hp; rw [hp x hx] at h; cases h
    | some p =>
      rw [hprev] at hp
      have hxp : idLe x p := hp.2.2 x hx h
      have hle : commonLen x key ≤ commonLen p key := commonLen_sandwich_left hxp (Or.inr hp.2.1)
      rw [commonLen_comm x key, commonLen_comm p key] at hle
      cases hnext : (resolveNeighbors tables key).2 with
      | none =>
        have : resolveNeighbors tables key = (some p, none) := pair_eq hprev hnext
        rw [this]; simp only; omega
      | some n =>
        have : resolveNeighbors tables key = (some p, some n) := pair_eq hprev hnext
        rw [this]; simp only; omega
  · cases hnext : (resolveNeighbors tables key).2 with
    | none => rw [hnext] at hn; simp only [NextSpec] at hn; rw [hn x hx] at h; cases h
    | some n =>
      rw [hnext] at hn
      have hnx : idLe n x := hn.2.2 x hx h
      have hle : commonLen key x ≤ commonLen key n := commonLen_sandwich_right (Or.inr hn.2.1) hnx
      cases hprev : (resolveNeighbors tables key).1 with
      | none =>
        have : resolveNeighbors tables key = (none, some n) := pair_eq hprev hnext
        rw [this]; simp only; omega
      | some p =>
        have : resolveNeighbors tables key = (some p, some n) := pair_eq hprev hnext
        rw [this]; simp only; omega

theorem shortestLen_attained (tables : List (List Id)) (hs : ∀ t ∈ tables, Sorted t) (key : Id)
    (hpos : 0 < shortestLen tables key) :
    ∃ x ∈ tables.flatten, x ≠ key ∧ commonLen key x + 1 = shortestLen tables key := by
  obtain ⟨hp, hn⟩ := resolveNeighbors_spec tables hs key
  unfold shortestLen at hpos ⊢
  have hne_of_lt : ∀ {a b : Id}, idLt a b = true → a ≠ b := by
    intro a b h he; subst he; rw [idLt_irrefl] at h; cases h
  cases hprev : (resolveNeighbors tables key).1 with
  | none =>
    cases hnext : (resolveNeighbors tables key).2 with
    | none =>
      have : resolveNeighbors tables key = (none, none) := pair_eq hprev hnext
      rw [this] at hpos; simp at hpos
    | some n =>
      have : resolveNeighbors tables key = (none, some n) := pair_eq hprev hnext
      rw [hnext] at hn
      rw [this]
      exact ⟨n, hn.1, (hne_of_lt hn.2.1).symm, rfl⟩
  | some p =>
    rw [hprev] at hp
    cases hnext : (resolveNeighbors tables key).2 with
    | none =>
      have : resolveNeighbors tables key = (some p, none) := pair_eq hprev hnext
      rw [this]
      exact ⟨p, hp.1, hne_of_lt hp.2.1, rfl⟩
    | some n =>
      have : resolveNeighbors tables key = (some p, some n) := pair_eq hprev hnext
      rw [hnext] at hn
      rw [this]
      simp only
      by_cases hc : commonLen key p + 1 ≥ commonLen key n + 1
      · exact ⟨p, hp.1, hne_of_lt hp.2.1, by omega⟩
      · exact ⟨n, hn.1, (hne_of_lt hn.2.1).symm, by omega⟩

theorem shortestLen_le_length (tables : List (List Id)) (hs : ∀ t ∈ tables, Sorted t) (key : Id)
    (hlen : ∀ x ∈ tables.flatten, x.length = key.length) : shortestLen tables key ≤ key.length := by
  by_cases hpos : 0 < shortestLen tables key
  · obtain ⟨x, hx, hne, he⟩ := shortestLen_attained tables hs key hpos
    have := commonLen_lt_length (a := key) (b := x) (hlen x hx).symm (fun h => hne h.symm)
    omega
  · omega

/-! ### resolution on one sorted table -/

/-- the decision `prefix_matches` takes on the run of matching entries -/
def classify : List Id → Resolution Id
  | [] => .noMatch
  | [x] => .single x
  | _ => .ambiguous

theorem plus_classify (A B : List Id) : (classify A).plus (classify B) = classify (A ++ B) := by
  match A, B with
  | [], B => simp [classify, Resolution.plus]
  | [a], [] => simp [classify, Resolution.plus]
  | [a], [b] => simp [classify, Resolution.plus]
  | [a], b :: c :: B => simp [classify, Resolution.plus]
  | a :: b :: A, [] => simp [classify, Resolution.plus]
  | a :: b :: A, [c] => simp [classify, Resolution.plus]
  | a :: b :: A, c :: d :: B => simp [classify, Resolution.plus]

theorem classify_ambiguous_append {A : List Id} (h : classify A = .ambiguous) (B : List Id) :
    classify (A ++ B) = .ambiguous := by
  match A with
  | [] => simp [classify] at h
  | [a] => simp [classify] at h
  | a :: b :: A => simp [classify]

theorem classify_ambiguous_of_two {M : List Id} {a b : Id} (ha : a ∈ M) (hb : b ∈ M) (hne : a ≠ b) :
    classify M = .ambiguous := by
  match M with
  | [] => simp at ha
  | [x] => simp at ha hb; subst ha hb; exact absurd rfl hne
  | x :: y :: M => simp [classify]

theorem filter_eq_singleton {l : List Id} {key : Id} (m : Id → Bool) (hnd : l.Nodup) (hk : key ∈ l)
    (hm : m key = true) (honly : ∀ x ∈ l, m x = true → x = key) : l.filter m = [key] := by
  induction l with
  | nil => simp at hk
  | cons x xs ih =>
    have hx := List.nodup_cons.mp hnd
    rcases List.mem_cons.mp hk with rfl | hk'
    · have : xs.filter m = [] := by
        apply List.filter_eq_nil_iff.mpr
        intro y hy hmy
        have := honly y (by simp [hy]) hmy
        subst this
        exact hx.1 hy
      simp [hm, this]
    · have hmx : m x = false := by
        cases hmx : m x with
        | false => rfl
        | true =>
          have := honly x (by simp) hmx
          subst this
          exact absurd hk' hx.1
      simp only [List.filter_cons, hmx, Bool.false_eq_true, if_false]
      exact ih hx.2 hk' (fun y hy => honly y (by simp [hy]))

theorem matchesPrefix_padEven (p : Id) : matchesPrefix p (padEven p) = true := by
  unfold padEven
  split
  · exact matchesPrefix_iff.mpr ⟨[0], rfl⟩
  · exact matchesPrefix_iff.mpr ⟨[], by simp⟩

/-- an entry below `min_prefix_bytes` cannot match the prefix -/
theorem not_matches_of_lt_pad {p x : Id} (hlt : idLt x (padEven p) = true)
    (hlen : (padEven p).length ≤ x.length) : matchesPrefix p x = false := by
  cases hm : matchesPrefix p x with
  | false => rfl
  | true =>
    obtain ⟨r, rfl⟩ := matchesPrefix_iff.mp hm
    unfold padEven at hlt hlen
    split at hlt
    · next hodd =>
      simp only [hodd, if_true] at hlen
      cases r with
      | nil => simp only [List.append_nil, List.length_append, List.length_cons, List.length_nil] at hlen; omega
      | cons d r' =>
        rw [idLt_append_left] at hlt
        simp only [idLt] at hlt
        have : ¬ d < 0 := by omega
        simp only [this, if_false] at hlt
        by_cases hd : d = 0
        · subst hd; simp only [if_true] at hlt; cases r' <;> simp [idLt] at hlt
        · simp [hd] at hlt
    · have h := idLt_append_left p r []
      simp only [List.append_nil] at h
      rw [h] at hlt
      cases r <;> simp [idLt] at hlt

theorem takeWhile_eq_filter {p key : Id} (hkey : matchesPrefix p key = true) {hi : List Id}
    (hs : Sorted hi) (hge : ∀ x ∈ hi, idLe key x) :
    hi.takeWhile (matchesPrefix p) = hi.filter (matchesPrefix p) := by
  induction hi with
  | nil => rfl
  | cons x xs ih =>
    have hx := List.pairwise_cons.mp hs
    have ih := ih hx.2 (fun y hy => hge y (by simp [hy]))
    by_cases hm : matchesPrefix p x = true
    · simp [hm, ih]
    · have hm' : matchesPrefix p x = false := by simpa using hm
      have : xs.filter (matchesPrefix p) = [] := by
        apply List.filter_eq_nil_iff.mpr
        intro y hy hmy
        have := matches_sandwich (hge x (by simp)) (Or.inr (hx.1 y hy)) hkey hmy
        rw [hm'] at this; cases this
      simp [hm', this]

theorem prefixMatches_spec {tbl : List Id} (hs : Sorted tbl) (p : Id)
    (hlen : ∀ x ∈ tbl, (padEven p).length ≤ x.length) :
    prefixMatches tbl p = classify (tbl.filter (matchesPrefix p)) := by
  obtain ⟨lo, hi, he, hl, h1, h2⟩ := lowerBound_split hs (padEven p)
  obtain ⟨_, hshi, _⟩ := sorted_append (he ▸ hs)
  have hdrop : tbl.drop (lookupPos tbl (padEven p)).2 = hi := by
    rw [(lookupPos_spec hs (padEven p)).1, ← hl, he]; simp
  have hlo : lo.filter (matchesPrefix p) = [] := by
    apply List.filter_eq_nil_iff.mpr
    intro x hx hm
    have := not_matches_of_lt_pad (h1 x hx) (hlen x (by rw [he]; simp [hx]))
    rw [this] at hm; cases hm
  have htw := takeWhile_eq_filter (matchesPrefix_padEven p) hshi (fun x hx => idLe_of_not_lt (h2 x hx))
  unfold prefixMatches
  rw [hdrop, htw]
  have : tbl.filter (matchesPrefix p) = hi.filter (matchesPrefix p) := by
    rw [he, List.filter_append, hlo]; simp
  rw [this]
  generalize hi.filter (matchesPrefix p) = M
  match M with
  | [] => rfl
  | [x] => rfl
  | x :: y :: M => rfl

/-! ### resolution across segments -/

theorem resolvePrefix_spec (tables : List (List Id)) (p : Id)
    (hs : ∀ t ∈ tables, Sorted t) (hlen : ∀ x ∈ tables.flatten, (padEven p).length ≤ x.length) :
    resolvePrefix tables p = classify (tables.flatten.filter (matchesPrefix p)) := by
  unfold resolvePrefix
  have gen : ∀ (ts : List (List Id)) (done : List Id),
      (∀ t ∈ ts, Sorted t) → (∀ x ∈ ts.flatten, (padEven p).length ≤ x.length) →
      ts.foldl (fun acc tbl => if acc = .ambiguous then acc else acc.plus (prefixMatches tbl p))
        (classify (done.filter (matchesPrefix p)))
        = classify ((done ++ ts.flatten).filter (matchesPrefix p)) := by
    intro ts
    induction ts with
    | nil => intro done _ _; simp
    | cons t ts ih =>
      intro done hst hl
      simp only [List.foldl_cons, List.flatten_cons]
      have hpm := prefixMatches_spec (hst t (by simp)) p (fun x hx => hl x (by simp [hx]))
      have hstep : (if classify (done.filter (matchesPrefix p)) = .ambiguous
            then classify (done.filter (matchesPrefix p))
            else (classify (done.filter (matchesPrefix p))).plus (prefixMatches t p))
          = classify ((done ++ t).filter (matchesPrefix p)) := by
        rw [List.filter_append]
        split
        · next hamb => rw [classify_ambiguous_append hamb]; exact hamb
        · rw [hpm, plus_classify]
      rw [hstep, ih (done ++ t) (fun t' ht' => hst t' (by simp [ht']))
        (fun x hx => hl x (by simp at hx ⊢; exact Or.inr hx))]
      simp [List.append_assoc]
  have := gen tables [] hs hlen
  simpa [classify] using this

theorem mem_hasId {tables : List (List Id)} {id : Id} : hasId tables id = true ↔ id ∈ tables.flatten := by
  simp [hasId, List.mem_flatten]

end JjModel.IdPrefix
