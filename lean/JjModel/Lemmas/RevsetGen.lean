import JjModel.Lemmas.RevsetWalk
/-!
  C19 lemmas, part 3: the generation-filtered walk `walkGen` (`RevWalkGenerationRangeImpl`),
  including the exactness of the interval merging (`try_merge_end`) and of the saturating
  `end + 1`.
-/
namespace JjModel.Revset

/-- The test an item range `[s, e)` stands for: "`k` more steps from here is in the filter
range" — `contains_end(generation_end)` after `k` successor steps (without saturation). -/
def GRange.T (r : GRange) (E k : Nat) : Prop := r.s + k < E ∧ E ≤ r.e + k

theorem GRange.containsEnd_iff (r : GRange) (E : Nat) : r.containsEnd E = true ↔ r.T E 0 := by
  simp [GRange.containsEnd, GRange.T]

/-! ### sorting the ranges popped at one position -/

theorem mem_insertRange (a : GRange) (l : List GRange) (x : GRange) :
    x ∈ insertRange a l ↔ x = a ∨ x ∈ l := by
  fun_induction insertRange a l <;> grind

theorem mem_sortRanges (l : List GRange) (x : GRange) : x ∈ sortRanges l ↔ x ∈ l := by
  induction l with
  | nil => simp [sortRanges]
  | cons a l ih => simp [sortRanges, mem_insertRange, ih]

abbrev SSorted (l : List GRange) : Prop := l.Pairwise (fun a b => a.s ≤ b.s)

theorem le_s_of_le {a b : GRange} (h : a.le b = true) : a.s ≤ b.s := by
  simp [GRange.le] at h; omega

theorem le_s_of_not_le {a b : GRange} (h : ¬ a.le b = true) : b.s ≤ a.s := by
  simp [GRange.le] at h; omega

theorem ssorted_insertRange (a : GRange) (l : List GRange) (h : SSorted l) :
    SSorted (insertRange a l) := by
  fun_induction insertRange a l with
  | case1 => simp [SSorted]
  | case2 b l hle =>
    have h' := h
    simp only [SSorted, List.pairwise_cons] at h' ⊢
    refine ⟨?_, h'⟩
    intro c hc
    simp only [List.mem_cons] at hc
    have hab := le_s_of_le hle
    rcases hc with rfl | hc
    · exact hab
    · have := h'.1 c hc; omega
  | case3 b l hnle ih =>
    simp only [SSorted, List.pairwise_cons] at h ⊢
    refine ⟨?_, ih h.2⟩
    intro c hc
    rw [mem_insertRange] at hc
    rcases hc with rfl | hc
    · exact le_s_of_not_le hnle
    · exact h.1 c hc

theorem ssorted_sortRanges (l : List GRange) : SSorted (sortRanges l) := by
  induction l with
  | nil => simp [sortRanges, SSorted]
  | cons a l ih => exact ssorted_insertRange a _ ih

/-! ### merging is exact -/

theorem merge_T {a b : GRange} (hs : a.s ≤ b.s) (hm : b.s ≤ a.e) (E t : Nat) :
    (GRange.mk a.s (max a.e b.e)).T E t ↔ a.T E t ∨ b.T E t := by
  simp only [GRange.T]
  constructor
  · rintro ⟨h1, h2⟩
    by_cases h : E ≤ a.e + t
    · exact Or.inl ⟨h1, h⟩
    · right
      refine ⟨by omega, ?_⟩
      have : max a.e b.e = b.e := by omega
      omega
  · rintro (⟨h1, h2⟩ | ⟨h1, h2⟩)
    · exact ⟨h1, by omega⟩
    · exact ⟨by omega, by omega⟩

theorem mergeRanges_T (E : Nat) : ∀ (xs : List GRange) (pend : GRange),
    (∀ x ∈ xs, pend.s ≤ x.s) → SSorted xs → ∀ t,
      (∃ M ∈ mergeRanges pend xs, M.T E t) ↔ (∃ I ∈ pend :: xs, I.T E t) := by
  intro xs
  induction xs with
  | nil => intro pend _ _ t; simp [mergeRanges]
  | cons x xs ih =>
    intro pend hp hs t
    simp only [SSorted, List.pairwise_cons] at hs
    rw [mergeRanges]
    split
    · next hm =>
      rw [ih ⟨pend.s, max pend.e x.e⟩ (fun y hy => hp y (by simp [hy])) hs.2 t]
      simp only [List.mem_cons, exists_eq_or_imp]
      rw [merge_T (hp x (by simp)) hm]
      constructor
      · rintro ((h | h) | ⟨I, hI, hT⟩)
        · exact Or.inl h
        · exact Or.inr (Or.inl h)
        · exact Or.inr (Or.inr ⟨I, hI, hT⟩)
      · rintro (h | h | ⟨I, hI, hT⟩)
        · exact Or.inl (Or.inl h)
        · exact Or.inl (Or.inr h)
        · exact Or.inr ⟨I, hI, hT⟩
    · simp only [List.mem_cons, exists_eq_or_imp]
      have := ih x (fun y hy => hs.1 y hy) hs.2 t
      simp only [List.mem_cons, exists_eq_or_imp] at this
      rw [this]

/-! ### pushing successors -/

theorem satSucc_T {M : GRange} {E : Nat} (hE : E ≤ U32MAX) (t : Nat) :
    (GRange.mk (M.s + 1) (satSucc M.e)).T E t ↔ M.T E (t + 1) := by
  simp only [GRange.T, satSucc]
  split <;> omega

theorem mem_enqueueAdj (adj : Nat → List Nat) (fp : Bool) (E p : Nat) (M : GRange) (it : Nat × GRange) :
    it ∈ enqueueAdj adj fp E p M ↔
      M.s + 1 < E ∧ it.1 ∈ adjF adj fp p ∧ it.2 = ⟨M.s + 1, satSucc M.e⟩ := by
  unfold enqueueAdj adjF
  split
  · simp; omega
  · simp only [List.mem_map]
    constructor
    · rintro ⟨q, hq, rfl⟩; exact ⟨by omega, hq, rfl⟩
    · rintro ⟨_, hq, he⟩
      exact ⟨it.1, hq, by cases it; simp_all⟩

/-! ### the walk -/

/-- reachable from a pending item below the bound by a path whose length passes the item's test -/
def WantedGen (adj : Nat → List Nat) (fp : Bool) (E n : Nat) (w : List (Nat × GRange)) (p : Nat) : Prop :=
  ∃ it ∈ w, it.1 < n ∧ ∃ k, PathK (adjF adj fp) k it.1 p ∧ it.2.T E k

theorem mem_here (w : List (Nat × GRange)) (k : Nat) (I : GRange) :
    I ∈ sortRanges ((w.filter fun it => it.1 = k).map (·.2)) ↔ (k, I) ∈ w := by
  rw [mem_sortRanges]
  simp only [List.mem_map, List.mem_filter, decide_eq_true_eq]
  constructor
  · rintro ⟨⟨a, b⟩, ⟨h1, h2⟩, h3⟩
    simp at h2 h3; subst h2 h3; exact h1
  · intro h; exact ⟨(k, I), ⟨h, rfl⟩, rfl⟩

theorem PathK.zero_of_eq {adj : Nat → List Nat} (ht : Topo adj) {j x : Nat} (h : PathK adj j x x) : j = 0 := by
  have := h.le ht; omega

/-- Specification of the scan `walkGen` for an arbitrary queue state. -/
theorem mem_walkGen {adj : Nat → List Nat} (ht : Topo adj) (fp : Bool) {E : Nat} (hE : E ≤ U32MAX) :
    ∀ (n : Nat) (w : List (Nat × GRange)) (u : List Nat) (p : Nat),
      p ∈ walkGen adj fp E n w u ↔
        p < n ∧ WantedGen adj fp E n w p ∧ ¬ UnwantedReach adj n u p := by
  intro n
  induction n with
  | zero => intro w u p; simp [walkGen]
  | succ k ih =>
    intro w u p
    rw [walkGen]
    have htF := ht.adjF fp
    have hU : ∀ p, p < k →
        (UnwantedReach adj k (if u.contains k then adj k ++ u else u) p ↔ UnwantedReach adj (k + 1) u p) :=
      fun p hp => unwantedReach_step ht k u p hp
    -- items at `k`
    generalize hhere : sortRanges ((w.filter fun it => it.1 = k).map (·.2)) = here
    have hmem : ∀ I, I ∈ here ↔ (k, I) ∈ w := by intro I; rw [← hhere]; exact mem_here w k I
    have hsorted : SSorted here := by rw [← hhere]; exact ssorted_sortRanges _
    -- an item below k+1 is below k or at k
    have hWlow : ∀ p, (∃ it ∈ w, it.1 < k ∧ ∃ j, PathK (adjF adj fp) j it.1 p ∧ it.2.T E j) →
        WantedGen adj fp E (k + 1) w p := by
      rintro p ⟨it, hit, hlt, hj⟩; exact ⟨it, hit, by omega, hj⟩
    match here, hmem, hsorted with
    | [], hmem, _ =>
      simp only []
      rw [ih]
      have hW : ∀ p, WantedGen adj fp E k w p ↔ WantedGen adj fp E (k + 1) w p := by
        intro p
        constructor
        · rintro ⟨it, hit, hlt, hj⟩; exact ⟨it, hit, by omega, hj⟩
        · rintro ⟨⟨h, I⟩, hit, hlt, hj⟩
          refine ⟨(h, I), hit, ?_, hj⟩
          by_cases e : h = k
          · subst e; exact absurd ((hmem I).2 hit) (by simp)
          · simp only at hlt ⊢; omega
      constructor
      · rintro ⟨h1, h2, h3⟩
        exact ⟨by omega, (hW p).1 h2, fun h => h3 ((hU p h1).2 h)⟩
      · rintro ⟨h1, h2, h3⟩
        have hpk : p ≠ k := by
          rintro rfl
          obtain ⟨⟨h, I⟩, hit, hlt, j, hj, _⟩ := (hW p).2 h2
          have := hj.le htF
          simp only at hlt this; omega
        have hpk' : p < k := by omega
        exact ⟨hpk', (hW p).2 h2, fun h => h3 ((hU p hpk').1 h)⟩
    | r0 :: rest, hmem, hsorted =>
      simp only []
      by_cases hu : u.contains k
      · -- unwanted: skipped, not expanded
        simp only [hu, if_true]
        rw [ih]
        have hu' : (if u.contains k then adj k ++ u else u) = adj k ++ u := by rw [if_pos hu]
        constructor
        · rintro ⟨h1, ⟨it, hit, hlt, hj⟩, h3⟩
          refine ⟨by omega, ⟨it, hit, by omega, hj⟩, ?_⟩
          rw [← hU p h1, hu']; exact h3
        · rintro ⟨h1, ⟨⟨h, I⟩, hit, hlt, j, hj, hT⟩, h3⟩
          have hpk : p ≠ k := by
            rintro rfl
            exact h3 ⟨p, by simpa using hu, by omega, Path.refl _ _⟩
          have hpk' : p < k := by omega
          refine ⟨hpk', ?_, ?_⟩
          · refine ⟨(h, I), hit, ?_, j, hj, hT⟩
            by_cases e : h = k
            · subst e
              exact absurd ⟨h, by simpa using hu, by omega, Path.mono (adjF_sub adj fp) ⟨j, hj⟩⟩ h3
            · simp only at hlt ⊢; omega
          · intro h
            rw [← hu'] at h
            exact h3 ((hU p hpk').1 h)
      · simp only [hu, Bool.false_eq_true, if_false]
        have hu' : (if u.contains k then adj k ++ u else u) = u := by rw [if_neg hu]
        rw [hu'] at hU
        -- the pushed successors represent exactly the paths through `k`
        have hmerge := mergeRanges_T E rest r0
          (fun x hx => by
            simp only [SSorted, List.pairwise_cons] at hsorted; exact hsorted.1 x hx)
          (by simp only [SSorted, List.pairwise_cons] at hsorted; exact hsorted.2)
        have key : ∀ p, p < k →
            (WantedGen adj fp E k ((mergeRanges r0 rest).flatMap (enqueueAdj adj fp E k) ++ w) p ↔
              WantedGen adj fp E (k + 1) w p) := by
          intro p hp
          constructor
          · rintro ⟨⟨q, I'⟩, hit, hlt, j, hj, hT⟩
            simp only [List.mem_append, List.mem_flatMap] at hit
            rcases hit with ⟨M, hM, hq⟩ | hit
            · rw [mem_enqueueAdj] at hq
              obtain ⟨hs, hq, hI'⟩ := hq
              simp only at hq hI' hT hj
              subst hI'
              rw [satSucc_T hE] at hT
              obtain ⟨I, hI, hTI⟩ := (hmerge (j + 1)).1 ⟨M, hM, hT⟩
              exact ⟨(k, I), (hmem I).1 hI, by simp, j + 1, .step hq hj, hTI⟩
            · exact ⟨(q, I'), hit, by simp only at hlt ⊢; omega, j, hj, hT⟩
          · rintro ⟨⟨h, I⟩, hit, hlt, j, hj, hT⟩
            by_cases e : h = k
            · subst e
              simp only at hj hT
              cases hj with
              | zero => omega
              | @step j' _ q _ hq hr =>
                obtain ⟨M, hM, hTM⟩ := (hmerge (j' + 1)).2 ⟨I, (hmem I).2 hit, hT⟩
                have hs : M.s + 1 < E := by have := hTM.1; omega
                refine ⟨(q, ⟨M.s + 1, satSucc M.e⟩), ?_, htF _ _ hq, j', hr, (satSucc_T hE j').2 hTM⟩
                simp only [List.mem_append, List.mem_flatMap]
                exact Or.inl ⟨M, hM, (mem_enqueueAdj ..).2 ⟨hs, hq, rfl⟩⟩
            · refine ⟨(h, I), by simp [hit], ?_, j, hj, hT⟩
              simp only at hlt ⊢; omega
        -- emission test at `k`
        have hemit : ((r0 :: rest).any (·.containsEnd E) = true) ↔ WantedGen adj fp E (k + 1) w k := by
          rw [List.any_eq_true]
          constructor
          · rintro ⟨I, hI, hT⟩
            exact ⟨(k, I), (hmem I).1 hI, by simp, 0, .zero k, (GRange.containsEnd_iff I E).1 hT⟩
          · rintro ⟨⟨h, I⟩, hit, hlt, j, hj, hT⟩
            have hle := hj.le htF
            simp only at hlt hle hj hT
            have e : h = k := by omega
            subst e
            have : j = 0 := by omega
            subst this
            exact ⟨I, (hmem I).2 hit, (GRange.containsEnd_iff I E).2 hT⟩
        have hUk : ¬ UnwantedReach adj (k + 1) u k := by
          rintro ⟨r, hr, hrk, hpath⟩
          have := hpath.le ht
          have : r = k := by omega
          subst this
          exact hu (by simpa using hr)
        have hrest : ∀ p, p ∈ walkGen adj fp E k ((mergeRanges r0 rest).flatMap (enqueueAdj adj fp E k) ++ w) u ↔
            p < k ∧ WantedGen adj fp E (k + 1) w p ∧ ¬ UnwantedReach adj (k + 1) u p := by
          intro p
          rw [ih]
          constructor
          · rintro ⟨h1, h2, h3⟩; exact ⟨h1, (key p h1).1 h2, fun h => h3 ((hU p h1).2 h)⟩
          · rintro ⟨h1, h2, h3⟩; exact ⟨h1, (key p h1).2 h2, fun h => h3 ((hU p h1).1 h)⟩
        split
        · next hany =>
          simp only [List.mem_cons, hrest]
          constructor
          · rintro (rfl | ⟨h1, h2, h3⟩)
            · exact ⟨by omega, hemit.1 hany, hUk⟩
            · exact ⟨by omega, h2, h3⟩
          · rintro ⟨h1, h2, h3⟩
            by_cases e : p = k
            · exact Or.inl e
            · exact Or.inr ⟨by omega, h2, h3⟩
        · next hany =>
          rw [hrest]
          constructor
          · rintro ⟨h1, h2, h3⟩; exact ⟨by omega, h2, h3⟩
          · rintro ⟨h1, h2, h3⟩
            have : p ≠ k := by rintro rfl; exact hany (hemit.2 h2)
            exact ⟨by omega, h2, h3⟩

theorem desc_walkGen {adj : Nat → List Nat} (ht : Topo adj) (fp : Bool) {E : Nat} (hE : E ≤ U32MAX) :
    ∀ (n : Nat) (w : List (Nat × GRange)) (u : List Nat), Desc (walkGen adj fp E n w u) := by
  intro n
  induction n with
  | zero => intro w u; simp [walkGen, Desc]
  | succ k ih =>
    intro w u
    rw [walkGen]
    simp only []
    split
    · exact ih _ _
    · split
      · exact ih _ _
      · split
        · rw [desc_cons]
          refine ⟨fun b hb => ?_, ih _ _⟩
          rw [mem_walkGen ht fp hE] at hb
          exact hb.1
        · exact ih _ _

end JjModel.Revset
