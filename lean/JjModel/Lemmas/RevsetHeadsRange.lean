import JjModel.Lemmas.RevsetHeads
/-!
  C19 lemmas, part 15: `heads_from_range_and_filter` (the `HeadsRange` arm).
-/
namespace JjModel.Revset

/-- the set whose heads the scan computes from a given state: below the bound, reachable from
a wanted item along the (first-)parent edges, not an ancestor of an unwanted item, passing the
filter -/
def HRSet (g : Graph) (fp : Bool) (F : Nat → Prop) (n : Nat) (w u : List Nat) (c : Nat) : Prop :=
  c < n ∧ WantedReach g.par fp n w c ∧ ¬ UnwantedReach g.par n u c ∧ F c

theorem headsOf_congr {g : Graph} {S S' : Nat → Prop} (h : ∀ c, S c ↔ S' c) (p : Nat) :
    HeadsOf g S p ↔ HeadsOf g S' p := by
  have : S = S' := funext fun c => propext (h c)
  rw [this]

/-- removing a maximal element together with its ancestors -/
theorem heads_split_max {g : Graph} (ht : Topo g.par) {S S' : Nat → Prop} {k : Nat} (hk : S k)
    (hmax : ∀ c, S c → c ≤ k) (hS' : ∀ c, S' c ↔ S c ∧ c ≠ k ∧ ¬ Path g.par k c) (p : Nat) :
    HeadsOf g S p ↔ p = k ∨ HeadsOf g S' p := by
  constructor
  · rintro ⟨hp, hno⟩
    by_cases e : p = k
    · exact Or.inl e
    · right
      refine ⟨(hS' p).2 ⟨hp, e, fun hkp => hno ⟨k, hk, fun e' => e e'.symm, hkp⟩⟩, ?_⟩
      rintro ⟨q, hq, hne, hqp⟩
      exact hno ⟨q, ((hS' q).1 hq).1, hne, hqp⟩
  · rintro (rfl | ⟨hp, hno⟩)
    · refine ⟨hk, ?_⟩
      rintro ⟨q, hq, hne, hqp⟩
      have := hmax q hq
      have := hqp.le ht
      omega
    · obtain ⟨hpS, hpk, hnkp⟩ := (hS' p).1 hp
      refine ⟨hpS, ?_⟩
      rintro ⟨q, hq, hne, hqp⟩
      by_cases e : q = k
      · subst e; exact hnkp hqp
      · exact hno ⟨q, (hS' q).2 ⟨hq, e, fun hkq => hnkp (hkq.trans hqp)⟩, hne, hqp⟩

theorem mem_headsRangeScan (g : Graph) (ht : Topo g.par) (fp : Bool) (filter : Nat → Bool) :
    ∀ (n : Nat) (w u : List Nat) (p : Nat),
      p ∈ headsRangeScan g fp filter n w u ↔
        HeadsOf g (HRSet g fp (fun c => filter c = true) n w u) p := by
  intro n
  induction n with
  | zero =>
    intro w u p
    simp only [headsRangeScan, List.not_mem_nil, false_iff]
    rintro ⟨⟨h, _⟩, _⟩; omega
  | succ k ih =>
    intro w u p
    rw [headsRangeScan]
    have hU : ∀ c, c < k →
        (UnwantedReach g.par k (if u.contains k then g.par k ++ u else u) c ↔
          UnwantedReach g.par (k + 1) u c) :=
      fun c hc => unwantedReach_step ht k u c hc
    have htF := ht.adjF fp
    by_cases hw : w.contains k
    · have hkw : k ∈ w := by simpa using hw
      simp only [hw, if_true]
      by_cases hu : u.contains k
      · -- unwanted: dropped, not expanded
        have hku : k ∈ u := by simpa using hu
        simp only [hu, if_true]
        rw [ih]
        apply headsOf_congr
        intro c
        have hu' : (if u.contains k then g.par k ++ u else u) = g.par k ++ u := by rw [if_pos hu]
        rw [hu'] at hU
        constructor
        · rintro ⟨h1, ⟨h, hh, hlt, hp⟩, h3, h4⟩
          exact ⟨by omega, ⟨h, hh, by omega, hp⟩, fun hx => h3 ((hU c h1).2 hx), h4⟩
        · rintro ⟨h1, ⟨h, hh, hlt, hp⟩, h3, h4⟩
          have hck : c ≠ k := by
            rintro rfl; exact h3 ⟨c, hku, by omega, Path.refl _ _⟩
          have hck' : c < k := by omega
          refine ⟨hck', ⟨h, hh, ?_, hp⟩, fun hx => h3 ((hU c hck').1 hx), h4⟩
          by_cases e : h = k
          · subst e
            exact absurd ⟨h, hku, by omega, hp.mono (adjF_sub g.par fp)⟩ h3
          · omega
      · have hku : k ∉ u := by simpa using hu
        have hu' : (if u.contains k then g.par k ++ u else u) = u := by rw [if_neg hu]
        rw [hu'] at hU
        simp only [hu, Bool.false_eq_true, if_false]
        by_cases hf : filter k
        · -- a head is found: its parents become unwanted
          simp only [hf, if_true, List.mem_cons]
          rw [ih]
          have hkS : HRSet g fp (fun c => filter c = true) (k + 1) w u k := by
            refine ⟨by omega, ⟨k, hkw, by omega, Path.refl _ _⟩, ?_, hf⟩
            rintro ⟨r, hr, hlt, hp⟩
            have := hp.le ht
            have : r = k := by omega
            subst this; exact hku hr
          refine (heads_split_max ht hkS (fun c hc => by have := hc.1; omega) ?_ p).symm
          intro c
          constructor
          · rintro ⟨h1, ⟨h, hh, hlt, hp⟩, h3, h4⟩
            refine ⟨⟨by omega, ⟨h, hh, by omega, hp⟩, ?_, h4⟩, by omega, ?_⟩
            · rintro ⟨r, hr, hlt', hp'⟩
              have : r ≠ k := by rintro rfl; exact hku hr
              exact h3 ⟨r, by simp [hr], by omega, hp'⟩
            · intro hkc
              obtain ⟨q, hq, hqc⟩ := hkc.cases_ne (by omega)
              exact h3 ⟨q, by simp [hq], ht _ _ hq, hqc⟩
          · rintro ⟨⟨h1, ⟨h, hh, hlt, hp⟩, h3, h4⟩, hck, hnkc⟩
            have hck' : c < k := by omega
            refine ⟨hck', ⟨h, hh, ?_, hp⟩, ?_, h4⟩
            · by_cases e : h = k
              · subst e; exact absurd (hp.mono (adjF_sub g.par fp)) hnkc
              · omega
            · rintro ⟨r, hr, hlt', hp'⟩
              simp only [List.mem_append] at hr
              rcases hr with hr | hr
              · exact hnkc (Path.head hr hp')
              · exact h3 ⟨r, hr, by omega, hp'⟩
        · -- not matching: continue through the (filtered) parents
          simp only [hf, Bool.false_eq_true, if_false]
          rw [ih]
          apply headsOf_congr
          intro c
          constructor
          · rintro ⟨h1, ⟨h, hh, hlt, hp⟩, h3, h4⟩
            refine ⟨by omega, ?_, fun hx => h3 ((hU c h1).2 hx), h4⟩
            simp only [List.mem_append] at hh
            rcases hh with hh | hh
            · exact ⟨k, hkw, by omega, Path.head hh hp⟩
            · exact ⟨h, hh, by omega, hp⟩
          · rintro ⟨h1, ⟨h, hh, hlt, hp⟩, h3, h4⟩
            have hck : c ≠ k := by rintro rfl; exact hf h4
            have hck' : c < k := by omega
            refine ⟨hck', ?_, fun hx => h3 ((hU c hck').1 hx), h4⟩
            by_cases e : h = k
            · subst e
              obtain ⟨q, hq, hqc⟩ := hp.cases_ne (by omega)
              exact ⟨q, by simp [show q ∈ filterPar fp (g.par h) from hq], htF _ _ hq, hqc⟩
            · exact ⟨h, by simp [hh], by omega, hp⟩
    · have hkw : k ∉ w := by simpa using hw
      simp only [hw, Bool.false_eq_true, if_false]
      rw [ih]
      apply headsOf_congr
      intro c
      constructor
      · rintro ⟨h1, ⟨h, hh, hlt, hp⟩, h3, h4⟩
        exact ⟨by omega, ⟨h, hh, by omega, hp⟩, fun hx => h3 ((hU c h1).2 hx), h4⟩
      · rintro ⟨h1, ⟨h, hh, hlt, hp⟩, h3, h4⟩
        have hhk : h ≠ k := by rintro rfl; exact hkw hh
        have hck : c ≠ k := by
          rintro rfl
          have := hp.le htF
          omega
        have hck' : c < k := by omega
        exact ⟨hck', ⟨h, hh, by omega, hp⟩, fun hx => h3 ((hU c hck').1 hx), h4⟩

theorem desc_headsRangeScan (g : Graph) (ht : Topo g.par) (fp : Bool) (filter : Nat → Bool) :
    ∀ (n : Nat) (w u : List Nat), Desc (headsRangeScan g fp filter n w u) := by
  intro n
  induction n with
  | zero => intro w u; simp [headsRangeScan, Desc]
  | succ k ih =>
    intro w u
    rw [headsRangeScan]
    split
    · split
      · exact ih _ _
      · split
        · rw [desc_cons]
          refine ⟨fun b hb => ?_, ih _ _⟩
          rw [mem_headsRangeScan g ht] at hb
          exact hb.1.1
        · exact ih _ _
    · exact ih _ _

/-- `HeadsRange` arm after evaluating its operands (`heads` = evaluated heads minus the
evaluated roots): heads of `{c ∈ ancestors(H) | c ∉ ::roots, filter c}`. -/
theorem mem_headsRangeArm (g : Graph) (hw : g.WF) (fp : Bool) (filter : Nat → Bool)
    (roots H : List Nat) (hH : ∀ h ∈ H, h < g.size) (hr : ∀ r ∈ roots, r < g.size)
    (hdH : Desc H) (hdr : Desc roots) (p : Nat) :
    p ∈ headsRangeArm g fp filter roots (diffDesc H roots) ↔
      HeadsOf g (fun c => (∃ h ∈ H, Path (g.adj fp) h c) ∧ (¬ ∃ r ∈ roots, Path g.par r c) ∧
        filter c = true) p := by
  have ht : Topo g.par := hw.topo
  have hset : ∀ c, HRSet g fp (fun c => filter c = true) g.size (diffDesc H roots) roots c ↔
      ((∃ h ∈ H, Path (g.adj fp) h c) ∧ (¬ ∃ r ∈ roots, Path g.par r c) ∧ filter c = true) := by
    intro c
    constructor
    · rintro ⟨_, ⟨h, hh, _, hp⟩, h3, h4⟩
      rw [mem_diffDesc _ _ hdH hdr] at hh
      exact ⟨⟨h, hh.1, hp⟩, fun ⟨r, hr', hp'⟩ => h3 ⟨r, hr', hr r hr', hp'⟩, h4⟩
    · rintro ⟨⟨h, hh, hp⟩, h3, h4⟩
      have hle := hp.le (ht.adjF fp)
      have hhl := hH h hh
      refine ⟨by omega, ⟨h, ?_, hhl, hp⟩, fun ⟨r, hr', _, hp'⟩ => h3 ⟨r, hr', hp'⟩, h4⟩
      rw [mem_diffDesc _ _ hdH hdr]
      exact ⟨hh, fun hhr => h3 ⟨h, hhr, Path.mono (adjF_sub g.par fp) hp⟩⟩
  unfold headsRangeArm
  split
  · next hemp =>
    simp only [List.not_mem_nil, false_iff]
    rintro ⟨⟨⟨h, hh, hp⟩, h3, _⟩, _⟩
    have : h ∈ diffDesc H roots := by
      rw [mem_diffDesc _ _ hdH hdr]
      exact ⟨hh, fun hhr => h3 ⟨h, hhr, Path.mono (adjF_sub g.par fp) hp⟩⟩
    simp only [List.isEmpty_iff] at hemp
    rw [hemp] at this
    simp at this
  · rw [mem_headsRangeScan g ht]
    exact headsOf_congr hset p

theorem desc_headsRangeArm (g : Graph) (hw : g.WF) (fp : Bool) (filter : Nat → Bool)
    (roots heads : List Nat) : Desc (headsRangeArm g fp filter roots heads) := by
  unfold headsRangeArm
  split
  · simp [Desc]
  · exact desc_headsRangeScan g hw.topo fp filter _ _ _

end JjModel.Revset
