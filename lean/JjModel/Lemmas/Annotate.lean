import JjModel.Model.Annotate
import JjModel.Lemmas.Graph
/-!
  Lemmas about the annotate model: `copyLoop` (what stays, what moves to the parent), `mergeLte`,
  `assign`, and the state invariant of `processNodes`.
-/
namespace JjModel.Annotate
open JjModel.Dag JjModel.Graph

/-- a line map is sorted by the line number at its commit -/
def Sorted (m : LineMap) : Prop := m.Pairwise fun a b => a.1 ≤ b.1

/-- line `k` lies in one of the matching ranges -/
def InHunk (hs : List Hunk) (k : Nat) : Prop := ∃ h ∈ hs, h.1 ≤ k ∧ k < h.1 + h.2.2

/-! ### sorted lists, `takeWhile`, `dropWhile` -/

theorem Sorted.sublist {m m' : LineMap} (h : Sorted m) (hs : m'.Sublist m) : Sorted m' :=
  List.Pairwise.sublist hs h

theorem mem_takeWhile_lt {m : LineMap} {b : Nat} {x : Nat × Nat}
    (hx : x ∈ m.takeWhile fun l => l.1 < b) : x ∈ m ∧ x.1 < b := by
  induction m with
  | nil => simp at hx
  | cons a as ih =>
    rw [List.takeWhile_cons] at hx
    split at hx
    · rename_i ha
      rcases List.mem_cons.1 hx with h | h
      · subst h; exact ⟨by simp, by simpa using ha⟩
      · have := ih h; exact ⟨List.mem_cons_of_mem _ this.1, this.2⟩
    · cases hx

theorem mem_dropWhile_ge {m : LineMap} (hs : Sorted m) {b : Nat} {x : Nat × Nat}
    (hx : x ∈ m.dropWhile fun l => l.1 < b) : x ∈ m ∧ b ≤ x.1 := by
  induction m with
  | nil => simp at hx
  | cons a as ih =>
    rw [List.dropWhile_cons] at hx
    have hs' := List.pairwise_cons.1 hs
    split at hx
    · have := ih hs'.2 hx; exact ⟨List.mem_cons_of_mem _ this.1, this.2⟩
    · rename_i ha
      have ha' : b ≤ a.1 := by simpa using ha
      rcases List.mem_cons.1 hx with h | h
      · subst h; exact ⟨by simp, ha'⟩
      · have := hs'.1 x h; exact ⟨List.mem_cons_of_mem _ h, by omega⟩

theorem dropWhile_sublist (m : LineMap) (p : Nat × Nat → Bool) : (m.dropWhile p).Sublist m :=
  (List.dropWhile_suffix p).sublist

theorem takeWhile_sublist (m : LineMap) (p : Nat × Nat → Bool) : (m.takeWhile p).Sublist m :=
  (List.takeWhile_prefix p).sublist

/-! ### sound hunks -/

theorem hunksSound_cons {a b : List Nat} {lo1 lo2 cs ps cnt : Nat} {rest : List Hunk}
    (h : hunksSound a b lo1 lo2 ((cs, ps, cnt) :: rest) = true) :
    lo1 ≤ cs ∧ lo2 ≤ ps ∧ (∀ k, k < cnt → a[cs + k]? = b[ps + k]?) ∧
      hunksSound a b (cs + cnt) (ps + cnt) rest = true := by
  simp only [hunksSound, Bool.and_eq_true, decide_eq_true_eq, List.all_eq_true, List.mem_range,
    beq_iff_eq] at h
  obtain ⟨⟨⟨⟨⟨h1, h2⟩, _⟩, _⟩, h5⟩, h6⟩ := h
  exact ⟨h1, h2, h5, h6⟩

theorem hunksSound_lower {a b : List Nat} {lo1 lo2 : Nat} {hs : List Hunk}
    (h : hunksSound a b lo1 lo2 hs = true) : ∀ x ∈ hs, lo1 ≤ x.1 ∧ lo2 ≤ x.2.1 := by
  induction hs generalizing lo1 lo2 with
  | nil => intro x hx; cases hx
  | cons y ys ih =>
    obtain ⟨cs, ps, cnt⟩ := y
    obtain ⟨h1, h2, _, h4⟩ := hunksSound_cons h
    intro x hx
    rcases List.mem_cons.1 hx with hx | hx
    · subst hx; exact ⟨h1, h2⟩
    · have := ih h4 x hx
      exact ⟨by omega, by omega⟩

theorem lookup_sound {texts : List (List Nat)} {diffs : Diffs} (h : diffsSound texts diffs = true)
    (c t : Nat) : hunksSound (texts.getD c []) (texts.getD t []) 0 0 (lookupDiff diffs c t) = true := by
  unfold lookupDiff
  split
  · rename_i d hd
    have hmem := List.mem_of_find?_eq_some hd
    have hkey := List.find?_some hd
    simp only [beq_iff_eq] at hkey
    unfold diffsSound at h
    have := (List.all_eq_true.1 h) d hmem
    rw [hkey] at this
    exact this
  · rfl

/-! ### `copyLoop` -/

/-- what is left at the current commit: earlier leftovers plus lines outside every range -/
theorem copyLoop_cur {a b : List Nat} {hs : List Hunk} {lo1 lo2 : Nat}
    (hsound : hunksSound a b lo1 lo2 hs = true) {lines nc np : LineMap} (hsorted : Sorted lines)
    {x : Nat × Nat} (hx : x ∈ (copyLoop hs lines nc np).1) :
    x ∈ nc ∨ (x ∈ lines ∧ ¬ InHunk hs x.1) := by
  induction hs generalizing lines nc np lo1 lo2 with
  | nil =>
    simp only [copyLoop, List.mem_append] at hx
    rcases hx with h | h
    · exact Or.inl h
    · exact Or.inr ⟨h, by rintro ⟨y, hy, _⟩; cases hy⟩
  | cons y ys ih =>
    obtain ⟨cs, ps, cnt⟩ := y
    obtain ⟨_, _, _, h4⟩ := hunksSound_cons hsound
    have hlow := hunksSound_lower h4
    simp only [copyLoop] at hx
    have hrest : Sorted (lines.dropWhile fun l => l.1 < cs) := hsorted.sublist (dropWhile_sublist _ _)
    have hrest2 : Sorted ((lines.dropWhile fun l => l.1 < cs).dropWhile fun l => l.1 < cs + cnt) :=
      hrest.sublist (dropWhile_sublist _ _)
    rcases ih h4 hrest2 hx with h | ⟨h1, h2⟩
    · rcases List.mem_append.1 h with h | h
      · exact Or.inl h
      · -- a line before the range: outside this range and outside the later ones
        obtain ⟨hm, hlt⟩ := mem_takeWhile_lt h
        refine Or.inr ⟨hm, ?_⟩
        rintro ⟨z, hz, hz1, hz2⟩
        rcases List.mem_cons.1 hz with hz | hz
        · subst hz; simp only at hz1; omega
        · have := (hlow z hz).1; omega
    · obtain ⟨hm2, hge2⟩ := mem_dropWhile_ge hrest h1
      obtain ⟨hm, _⟩ := mem_dropWhile_ge hsorted hm2
      refine Or.inr ⟨hm, ?_⟩
      rintro ⟨z, hz, hz1, hz2⟩
      rcases List.mem_cons.1 hz with hz | hz
      · subst hz; simp only at hz2; omega
      · exact h2 ⟨z, hz, hz1, hz2⟩

/-- the leftovers keep their order -/
theorem copyLoop_cur_sublist (hs : List Hunk) (lines nc np : LineMap) :
    ∃ X, (copyLoop hs lines nc np).1 = nc ++ X ∧ X.Sublist lines := by
  induction hs generalizing lines nc np with
  | nil => exact ⟨lines, rfl, List.Sublist.refl _⟩
  | cons y ys ih =>
    obtain ⟨cs, ps, cnt⟩ := y
    simp only [copyLoop]
    obtain ⟨X, hX, hsub⟩ := ih ((lines.dropWhile fun l => l.1 < cs).dropWhile fun l => l.1 < cs + cnt)
      (nc ++ lines.takeWhile fun l => l.1 < cs)
      (np ++ ((lines.dropWhile fun l => l.1 < cs).takeWhile fun l => l.1 < cs + cnt).map
        fun l => (ps + (l.1 - cs), l.2))
    refine ⟨(lines.takeWhile fun l => l.1 < cs) ++ X, by rw [hX, List.append_assoc], ?_⟩
    have h1 : X.Sublist (lines.dropWhile fun l => l.1 < cs) := hsub.trans (dropWhile_sublist _ _)
    have h2 := List.Sublist.append (List.Sublist.refl (lines.takeWhile fun l => l.1 < cs)) h1
    rw [List.takeWhile_append_dropWhile] at h2
    exact h2

/-- what moves to the parent: earlier moved lines, plus lines inside a range, renumbered -/
theorem copyLoop_par {a b : List Nat} {hs : List Hunk} {lo1 lo2 : Nat}
    (hsound : hunksSound a b lo1 lo2 hs = true) {lines nc np : LineMap} (hsorted : Sorted lines)
    {x : Nat × Nat} (hx : x ∈ (copyLoop hs lines nc np).2) :
    x ∈ np ∨ ∃ l ∈ lines, ∃ h ∈ hs, h.1 ≤ l.1 ∧ l.1 < h.1 + h.2.2 ∧ x = (h.2.1 + (l.1 - h.1), l.2) := by
  induction hs generalizing lines nc np lo1 lo2 with
  | nil => simp only [copyLoop] at hx; exact Or.inl hx
  | cons y ys ih =>
    obtain ⟨cs, ps, cnt⟩ := y
    obtain ⟨_, _, _, h4⟩ := hunksSound_cons hsound
    simp only [copyLoop] at hx
    have hrest : Sorted (lines.dropWhile fun l => l.1 < cs) := hsorted.sublist (dropWhile_sublist _ _)
    have hrest2 : Sorted ((lines.dropWhile fun l => l.1 < cs).dropWhile fun l => l.1 < cs + cnt) :=
      hrest.sublist (dropWhile_sublist _ _)
    rcases ih h4 hrest2 hx with h | ⟨l, hl, z, hz, h1, h2, h3⟩
    · rcases List.mem_append.1 h with h | h
      · exact Or.inl h
      · obtain ⟨l, hl, rfl⟩ := List.mem_map.1 h
        obtain ⟨hl1, hl2⟩ := mem_takeWhile_lt hl
        obtain ⟨hl3, hl4⟩ := mem_dropWhile_ge hsorted hl1
        exact Or.inr ⟨l, hl3, (cs, ps, cnt), by simp, hl4, hl2, rfl⟩
    · have hl' := ((dropWhile_sublist _ _).trans (dropWhile_sublist _ _)).subset hl
      exact Or.inr ⟨l, hl', z, List.mem_cons_of_mem _ hz, h1, h2, h3⟩

/-- the lines moved to the parent are sorted by parent line number (and lie at or above `lo2`) -/
theorem copyLoop_par_sorted {a b : List Nat} {hs : List Hunk} {lo1 lo2 : Nat}
    (hsound : hunksSound a b lo1 lo2 hs = true) {lines nc np : LineMap} (hsorted : Sorted lines)
    (hnp : Sorted np) (hbound : ∀ x ∈ np, x.1 ≤ lo2) : Sorted (copyLoop hs lines nc np).2 := by
  induction hs generalizing lines nc np lo1 lo2 with
  | nil => simpa [copyLoop] using hnp
  | cons y ys ih =>
    obtain ⟨cs, ps, cnt⟩ := y
    obtain ⟨_, h2, _, h4⟩ := hunksSound_cons hsound
    simp only [copyLoop]
    have hrest : Sorted (lines.dropWhile fun l => l.1 < cs) := hsorted.sublist (dropWhile_sublist _ _)
    have hrest2 : Sorted ((lines.dropWhile fun l => l.1 < cs).dropWhile fun l => l.1 < cs + cnt) :=
      hrest.sublist (dropWhile_sublist _ _)
    have hinside : Sorted ((lines.dropWhile fun l => l.1 < cs).takeWhile fun l => l.1 < cs + cnt) :=
      hrest.sublist (takeWhile_sublist _ _)
    refine ih h4 hrest2 ?_ ?_
    · -- np ++ mapped inside is sorted
      unfold Sorted
      rw [List.pairwise_append]
      refine ⟨hnp, ?_, ?_⟩
      · rw [List.pairwise_map]
        refine List.Pairwise.imp_of_mem ?_ hinside
        intro p q hp hq hpq
        have := (mem_dropWhile_ge hsorted (mem_takeWhile_lt hp).1).2
        simp only
        omega
      · intro p hp q hq
        obtain ⟨l, _, rfl⟩ := List.mem_map.1 hq
        have := hbound p hp
        simp only
        omega
    · intro p hp
      rcases List.mem_append.1 hp with hp | hp
      · have := hbound p hp; omega
      · obtain ⟨l, hl, rfl⟩ := List.mem_map.1 hp
        have := (mem_takeWhile_lt hl).2
        simp only
        omega

/-! ### `mergeLte` -/

theorem mem_mergeLte {f : Nat} {xs ys : LineMap} {z : Nat × Nat} :
    z ∈ mergeLte f xs ys ↔ z ∈ xs ∨ z ∈ ys := by
  induction f generalizing xs ys with
  | zero => simp [mergeLte]
  | succ f ih =>
    cases xs with
    | nil => simp [mergeLte]
    | cons x xs =>
      cases ys with
      | nil => simp [mergeLte]
      | cons y ys =>
        simp only [mergeLte]
        split
        · simp only [List.mem_cons, ih]
          constructor
          · rintro (h | h | h | h)
            · exact Or.inl (Or.inl h)
            · exact Or.inl (Or.inr h)
            · exact Or.inr (Or.inl h)
            · exact Or.inr (Or.inr h)
          · rintro ((h | h) | (h | h))
            · exact Or.inl h
            · exact Or.inr (Or.inl h)
            · exact Or.inr (Or.inr (Or.inl h))
            · exact Or.inr (Or.inr (Or.inr h))
        · simp only [List.mem_cons, ih]
          constructor
          · rintro (h | (h | h) | h)
            · exact Or.inr (Or.inl h)
            · exact Or.inl (Or.inl h)
            · exact Or.inl (Or.inr h)
            · exact Or.inr (Or.inr h)
          · rintro ((h | h) | (h | h))
            · exact Or.inr (Or.inl (Or.inl h))
            · exact Or.inr (Or.inl (Or.inr h))
            · exact Or.inl h
            · exact Or.inr (Or.inr h)

theorem pairLe_fst {x y : Nat × Nat} (h : pairLe x y = true) : x.1 ≤ y.1 := by
  unfold pairLe at h
  simp only [Bool.or_eq_true, decide_eq_true_eq, Bool.and_eq_true, beq_iff_eq] at h
  omega

theorem not_pairLe_fst {x y : Nat × Nat} (h : ¬ pairLe x y = true) : y.1 ≤ x.1 := by
  unfold pairLe at h
  simp only [Bool.or_eq_true, decide_eq_true_eq, Bool.and_eq_true, beq_iff_eq, not_or, not_and] at h
  omega

theorem mergeLte_sorted {f : Nat} {xs ys : LineMap} (hf : xs.length + ys.length ≤ f)
    (hx : Sorted xs) (hy : Sorted ys) : Sorted (mergeLte f xs ys) := by
  induction f generalizing xs ys with
  | zero =>
    have h1 : xs = [] := List.length_eq_zero_iff.1 (by omega)
    have h2 : ys = [] := List.length_eq_zero_iff.1 (by omega)
    subst h1; subst h2
    simp [mergeLte, Sorted]
  | succ f ih =>
    cases xs with
    | nil => simpa [mergeLte] using hy
    | cons x xs =>
      cases ys with
      | nil => simpa [mergeLte] using hx
      | cons y ys =>
        simp only [mergeLte]
        have hx' := List.pairwise_cons.1 hx
        have hy' := List.pairwise_cons.1 hy
        simp only [List.length_cons] at hf
        split
        · rename_i hle
          have hle' := pairLe_fst hle
          unfold Sorted
          rw [List.pairwise_cons]
          refine ⟨?_, ih (by simp only [List.length_cons]; omega) hx'.2 hy⟩
          intro z hz
          rcases mem_mergeLte.1 hz with h | h
          · exact hx'.1 z h
          · rcases List.mem_cons.1 h with h | h
            · subst h; exact hle'
            · have := hy'.1 z h; omega
        · rename_i hle
          have hle' := not_pairLe_fst hle
          unfold Sorted
          rw [List.pairwise_cons]
          refine ⟨?_, ih (by simp only [List.length_cons]; omega) hx hy'.2⟩
          intro z hz
          rcases mem_mergeLte.1 hz with h | h
          · rcases List.mem_cons.1 h with h | h
            · subst h; exact hle'
            · have := hx'.1 z h; omega
          · exact hy'.1 z h

/-! ### `assign` -/

theorem assign_length (orig : List Origin) (ok : Bool) (c : Nat) (m : LineMap) :
    (assign orig ok c m).length = orig.length := by
  induction m generalizing orig with
  | nil => rfl
  | cons x xs ih => obtain ⟨l, s⟩ := x; simp [assign, ih]

/-- an entry after `assign` is an old entry or one of the assigned values -/
theorem assign_get {orig : List Origin} {ok : Bool} {c : Nat} {m : LineMap} {j : Nat} {o : Origin}
    (h : (assign orig ok c m)[j]? = some o) :
    orig[j]? = some o ∨ ∃ l, (l, j) ∈ m ∧ o = ⟨ok, c, l⟩ := by
  induction m generalizing orig with
  | nil => exact Or.inl h
  | cons x xs ih =>
    obtain ⟨l, s⟩ := x
    simp only [assign] at h
    rcases ih h with h' | ⟨l', hl', ho⟩
    · rw [List.getElem?_set] at h'
      split at h'
      · rename_i hsj
        split at h'
        · simp only [Option.some.injEq] at h'
          exact Or.inr ⟨l, by rw [hsj]; simp, h'.symm⟩
        · cases h'
      · exact Or.inl h'
    · exact Or.inr ⟨l', List.mem_cons_of_mem _ hl', ho⟩

/-! ### the source map -/

theorem getSrc_mem {srcs : List (Nat × LineMap)} {c : Nat} {m : LineMap} (h : getSrc srcs c = some m) :
    (c, m) ∈ srcs := by
  unfold getSrc at h
  cases hf : srcs.find? (fun s => s.1 == c) with
  | none => rw [hf] at h; cases h
  | some p =>
    rw [hf] at h
    simp only [Option.map_some, Option.some.injEq] at h
    have hk := List.find?_some hf
    simp only [beq_iff_eq] at hk
    have := List.mem_of_find?_eq_some hf
    rw [← hk, ← h]
    exact this

theorem mem_removeSrc {srcs : List (Nat × LineMap)} {c : Nat} {p : Nat × LineMap}
    (h : p ∈ removeSrc srcs c) : p ∈ srcs := (List.mem_filter.1 h).1

theorem mem_setSrc {srcs : List (Nat × LineMap)} {c : Nat} {m : LineMap} {p : Nat × LineMap}
    (h : p ∈ setSrc srcs c m) : p = (c, m) ∨ p ∈ srcs := by
  rcases List.mem_cons.1 h with h | h
  · exact Or.inl h
  · exact Or.inr (mem_removeSrc h)

/-! ### the invariant -/

/-- content of line `k` of commit `c` (`none` beyond the end / no file) -/
def lineAt (texts : List (List Nat)) (c k : Nat) : Option Nat := (texts.getD c [])[k]?

/-- a line map of commit `c`: sorted, and every pair relates equal lines of `c` and of the start -/
def MapOK (texts : List (List Nat)) (start c : Nat) (m : LineMap) : Prop :=
  Sorted m ∧ ∀ x ∈ m, lineAt texts c x.1 = lineAt texts start x.2

/-- line `k` of commit `c` is outside every matching range of the diff against every edge walked
from `c` -/
def Unmatched (G : Graph) (S : List Nat) (diffs : Diffs) (c k : Nat) : Prop :=
  ∀ es, (c, es) ∈ graphOf G S true → ∀ e ∈ es, ¬ InHunk (lookupDiff diffs c e.target) k

structure StInv (G : Graph) (S : List Nat) (texts : List (List Nat)) (diffs : Diffs) (start : Nat)
    (st : AState) : Prop where
  srcs : ∀ p ∈ st.srcs, MapOK texts start p.1 p.2
  orig : ∀ (j : Nat) (o : Origin), st.orig[j]? = some o →
    lineAt texts o.commit o.line = lineAt texts start j
  okun : ∀ (j : Nat) (o : Origin), st.orig[j]? = some o → o.ok = true →
    Unmatched G S diffs o.commit o.line
  oknode : ∀ (j : Nat) (o : Origin), st.orig[j]? = some o → o.ok = true →
    ∃ es, (o.commit, es) ∈ graphOf G S true

section inv
variable {G : Graph} {S : List Nat} {texts : List (List Nat)} {diffs : Diffs} {start : Nat}

theorem mapOK_nil (c : Nat) : MapOK texts start c [] := ⟨List.Pairwise.nil, by simp⟩

/-- writing `Err` origins for a correct line map keeps the invariant on `orig` -/
theorem StInv.assign_err {st : AState} (hi : StInv G S texts diffs start st) {t : Nat} {m : LineMap}
    (hm : MapOK texts start t m) (srcs' : List (Nat × LineMap))
    (hs : ∀ p ∈ srcs', MapOK texts start p.1 p.2) (u : Nat) :
    StInv G S texts diffs start { orig := assign st.orig false t m, srcs := srcs', unresolved := u } := by
  refine ⟨hs, ?_, ?_, ?_⟩
  · intro j o ho
    rcases assign_get ho with h | ⟨l, hl, rfl⟩
    · exact hi.orig j o h
    · exact hm.2 (l, j) hl
  · intro j o ho hok
    rcases assign_get ho with h | ⟨l, _, rfl⟩
    · exact hi.okun j o h hok
    · cases hok
  · intro j o ho hok
    rcases assign_get ho with h | ⟨l, _, rfl⟩
    · exact hi.oknode j o h hok
    · cases hok

theorem processEdge_fst (diffs : Diffs) (c : Nat) (cur : LineMap) (st : AState) (e : Edge) :
    (processEdge diffs c cur st e).1 = (copyLoop (lookupDiff diffs c e.target) cur [] []).1 := rfl

theorem processEdge_snd (diffs : Diffs) (c : Nat) (cur : LineMap) (st : AState) (e : Edge) :
    (processEdge diffs c cur st e).2 = { st with srcs := removeSrc st.srcs e.target } ∨
    (processEdge diffs c cur st e).2 =
      { orig := assign st.orig false e.target (newParentMap diffs c cur st e),
        srcs := setSrc st.srcs e.target (newParentMap diffs c cur st e),
        unresolved := countRoot st e } ∨
    (processEdge diffs c cur st e).2 =
      { st with srcs := setSrc st.srcs e.target (newParentMap diffs c cur st e) } := by
  by_cases h1 : (newParentMap diffs c cur st e).isEmpty = true
  · left; simp [processEdge, h1]
  · by_cases h2 : e.isMissing = true
    · right; left; simp [processEdge, h1, h2]
    · right; right; simp [processEdge, h1, h2]

theorem processEdge_inv (hsound : diffsSound texts diffs = true) {c : Nat} {cur : LineMap}
    {st : AState} (hi : StInv G S texts diffs start st) (hcur : MapOK texts start c cur) (e : Edge) :
    StInv G S texts diffs start (processEdge diffs c cur st e).2 ∧
    MapOK texts start c (processEdge diffs c cur st e).1 ∧
    ∀ x ∈ (processEdge diffs c cur st e).1,
      x ∈ cur ∧ ¬ InHunk (lookupDiff diffs c e.target) x.1 := by
  have hs := lookup_sound hsound c e.target
  -- the leftovers
  have hcur' : MapOK texts start c (copyLoop (lookupDiff diffs c e.target) cur [] []).1 ∧
      ∀ x ∈ (copyLoop (lookupDiff diffs c e.target) cur [] []).1,
        x ∈ cur ∧ ¬ InHunk (lookupDiff diffs c e.target) x.1 := by
    have hmem : ∀ x ∈ (copyLoop (lookupDiff diffs c e.target) cur [] []).1,
        x ∈ cur ∧ ¬ InHunk (lookupDiff diffs c e.target) x.1 := by
      intro x hx
      rcases copyLoop_cur hs hcur.1 hx with h | h
      · cases h
      · exact h
    obtain ⟨X, hX, hsub⟩ := copyLoop_cur_sublist (lookupDiff diffs c e.target) cur [] []
    refine ⟨⟨?_, fun x hx => hcur.2 x (hmem x hx).1⟩, hmem⟩
    rw [hX, List.nil_append]
    exact hcur.1.sublist hsub
  -- the lines moved to the parent
  have hpar : MapOK texts start e.target (copyLoop (lookupDiff diffs c e.target) cur [] []).2 := by
    refine ⟨copyLoop_par_sorted hs hcur.1 List.Pairwise.nil (by simp), ?_⟩
    intro x hx
    rcases copyLoop_par hs hcur.1 hx with h | ⟨l, hl, z, hz, h1, h2, rfl⟩
    · cases h
    · -- line `l.1` of `c` equals line `z.2.1 + (l.1 - z.1)` of the parent
      have key : ∀ (hs' : List Hunk) (lo1 lo2 : Nat),
          hunksSound (texts.getD c []) (texts.getD e.target []) lo1 lo2 hs' = true → z ∈ hs' →
          (texts.getD c [])[z.1 + (l.1 - z.1)]? = (texts.getD e.target [])[z.2.1 + (l.1 - z.1)]? := by
        intro hs'
        induction hs' with
        | nil => intro _ _ _ hz'; cases hz'
        | cons y ys ih =>
          obtain ⟨cs, ps, cnt⟩ := y
          intro lo1 lo2 hsd hz'
          obtain ⟨_, _, h5, h6⟩ := hunksSound_cons hsd
          rcases List.mem_cons.1 hz' with hz' | hz'
          · subst hz'; exact h5 (l.1 - cs) (by simp only at h1 h2; omega)
          · exact ih _ _ h6 hz'
      have := key _ 0 0 hs hz
      have e1 := hcur.2 l hl
      simp only [lineAt] at e1 ⊢
      rw [← e1, ← this]
      congr 1
      omega
  -- the parent's line map after merging
  have hpm : MapOK texts start e.target ((getSrc st.srcs e.target).getD []) := by
    cases hg : getSrc st.srcs e.target with
    | none => exact mapOK_nil _
    | some m => exact hi.srcs _ (getSrc_mem hg)
  have hpm' : MapOK texts start e.target (newParentMap diffs c cur st e) := by
    unfold newParentMap
    simp only
    split
    · exact hpar
    · refine ⟨mergeLte_sorted (Nat.le_refl _) hpm.1 hpar.1, ?_⟩
      intro x hx
      rcases mem_mergeLte.1 hx with h | h
      · exact hpm.2 x h
      · exact hpar.2 x h
  have hrem : ∀ p ∈ removeSrc st.srcs e.target, MapOK texts start p.1 p.2 :=
    fun p hp => hi.srcs p (mem_removeSrc hp)
  have hset : ∀ m, MapOK texts start e.target m →
      ∀ p ∈ setSrc st.srcs e.target m, MapOK texts start p.1 p.2 := by
    intro m hm p hp
    rcases mem_setSrc hp with h | h
    · subst h; exact hm
    · exact hi.srcs p h
  rw [processEdge_fst]
  refine ⟨?_, hcur'.1, hcur'.2⟩
  rcases processEdge_snd diffs c cur st e with h | h | h <;> rw [h]
  · exact ⟨hrem, hi.orig, hi.okun, hi.oknode⟩
  · exact hi.assign_err hpm' _ (hset _ hpm') _
  · exact ⟨hset _ hpm', hi.orig, hi.okun, hi.oknode⟩

theorem processEdges_inv (hsound : diffsSound texts diffs = true) {c : Nat} (es : List Edge)
    {cur : LineMap} {st : AState} (hi : StInv G S texts diffs start st)
    (hcur : MapOK texts start c cur) :
    StInv G S texts diffs start (processEdges diffs c es cur st).2 ∧
    MapOK texts start c (processEdges diffs c es cur st).1 ∧
    ∀ x ∈ (processEdges diffs c es cur st).1,
      x ∈ cur ∧ ∀ e ∈ es, ¬ InHunk (lookupDiff diffs c e.target) x.1 := by
  induction es generalizing cur st with
  | nil => exact ⟨hi, hcur, fun x hx => ⟨hx, fun e he => by cases he⟩⟩
  | cons e es ih =>
    simp only [processEdges]
    obtain ⟨h1, h2, h3⟩ := processEdge_inv hsound hi hcur e
    obtain ⟨k1, k2, k3⟩ := ih h1 h2
    refine ⟨k1, k2, ?_⟩
    intro x hx
    obtain ⟨hx1, hx2⟩ := k3 x hx
    obtain ⟨hx3, hx4⟩ := h3 x hx1
    refine ⟨hx3, ?_⟩
    intro e' he'
    rcases List.mem_cons.1 he' with h | h
    · subst h; exact hx4
    · exact hx2 e' h

theorem processCommit_inv (hsound : diffsSound texts diffs = true) {c : Nat} {es : List Edge}
    (hnode : (c, es) ∈ graphOf G S true) {st : AState} (hi : StInv G S texts diffs start st) :
    StInv G S texts diffs start (processCommit diffs c es st) := by
  unfold processCommit
  split
  · exact hi
  · rename_i cur hcur
    have hcurOK := hi.srcs _ (getSrc_mem hcur)
    have hi' : StInv G S texts diffs start { st with srcs := removeSrc st.srcs c } :=
      ⟨fun p hp => hi.srcs p (mem_removeSrc hp), hi.orig, hi.okun, hi.oknode⟩
    obtain ⟨k1, k2, k3⟩ := processEdges_inv hsound es hi' hcurOK
    refine ⟨k1.srcs, ?_, ?_, ?_⟩
    · intro j o ho
      rcases assign_get ho with h | ⟨l, hl, rfl⟩
      · exact k1.orig j o h
      · exact k2.2 (l, j) hl
    · intro j o ho hok
      rcases assign_get ho with h | ⟨l, hl, rfl⟩
      · exact k1.okun j o h hok
      · intro es' hes' e he
        have : es' = es := by
          rw [(mem_graphOf.1 hes').2.2, (mem_graphOf.1 hnode).2.2]
        subst this
        exact (k3 (l, j) hl).2 e he
    · intro j o ho hok
      rcases assign_get ho with h | ⟨l, hl, rfl⟩
      · exact k1.oknode j o h hok
      · exact ⟨es, hnode⟩

theorem processNodes_inv (hsound : diffsSound texts diffs = true) (nodes : List (Nat × List Edge))
    (hnodes : ∀ p ∈ nodes, p ∈ graphOf G S true) {st : AState}
    (hi : StInv G S texts diffs start st) :
    StInv G S texts diffs start (processNodes diffs nodes st) := by
  induction nodes generalizing st with
  | nil => exact hi
  | cons p ps ih =>
    obtain ⟨c, es⟩ := p
    simp only [processNodes]
    have h1 := processCommit_inv hsound (hnodes (c, es) (by simp)) hi
    split
    · exact h1
    · exact ih (fun q hq => hnodes q (List.mem_cons_of_mem _ hq)) h1

theorem initState_inv (n : Nat) : StInv G S texts diffs start (initState start n) := by
  refine ⟨?_, ?_, ?_, ?_⟩
  · intro p hp
    simp only [initState, List.mem_singleton] at hp
    subst hp
    refine ⟨?_, ?_⟩
    · unfold Sorted
      rw [List.pairwise_map]
      exact (List.pairwise_lt_range (n := n)).imp (fun h => Nat.le_of_lt h)
    · intro x hx
      obtain ⟨i, _, rfl⟩ := List.mem_map.1 hx
      rfl
  · intro j o ho
    simp only [initState, List.getElem?_map] at ho
    cases hr : (List.range n)[j]? with
    | none => rw [hr] at ho; cases ho
    | some i =>
      rw [hr] at ho
      simp only [Option.map_some, Option.some.injEq] at ho
      have : i = j := by
        have := List.getElem?_eq_some_iff.1 hr
        obtain ⟨_, h2⟩ := this
        simpa using h2.symm
      subst ho; subst this; rfl
  · intro j o ho hok
    simp only [initState, List.getElem?_map] at ho
    cases hr : (List.range n)[j]? with
    | none => rw [hr] at ho; cases ho
    | some i =>
      rw [hr] at ho
      simp only [Option.map_some, Option.some.injEq] at ho
      subst ho; cases hok
  · intro j o ho hok
    simp only [initState, List.getElem?_map] at ho
    cases hr : (List.range n)[j]? with
    | none => rw [hr] at ho; cases ho
    | some i =>
      rw [hr] at ho
      simp only [Option.map_some, Option.some.injEq] at ho
      subst ho; cases hok

/-! ### lengths -/

theorem processEdge_orig_length (c : Nat) (cur : LineMap) (st : AState) (e : Edge) :
    (processEdge diffs c cur st e).2.orig.length = st.orig.length := by
  rcases processEdge_snd diffs c cur st e with h | h | h <;> rw [h]
  simp [assign_length]

theorem processEdges_orig_length (c : Nat) (es : List Edge) (cur : LineMap) (st : AState) :
    (processEdges diffs c es cur st).2.orig.length = st.orig.length := by
  induction es generalizing cur st with
  | nil => rfl
  | cons e es ih => simp only [processEdges]; rw [ih, processEdge_orig_length]

theorem processCommit_orig_length (c : Nat) (es : List Edge) (st : AState) :
    (processCommit diffs c es st).orig.length = st.orig.length := by
  unfold processCommit
  split
  · rfl
  · simp only [assign_length]; rw [processEdges_orig_length]

theorem processNodes_orig_length (nodes : List (Nat × List Edge)) (st : AState) :
    (processNodes diffs nodes st).orig.length = st.orig.length := by
  induction nodes generalizing st with
  | nil => rfl
  | cons p ps ih =>
    obtain ⟨c, es⟩ := p
    simp only [processNodes]
    split
    · exact processCommit_orig_length c es st
    · rw [ih, processCommit_orig_length]

/-! ### every blamed commit is an ancestor of the start -/

structure AncInv (G : Graph) (start : Nat) (st : AState) : Prop where
  srcs : ∀ p ∈ st.srcs, Anc G p.1 start
  orig : ∀ (j : Nat) (o : Origin), st.orig[j]? = some o → Anc G o.commit start

theorem processEdge_anc {c : Nat} {cur : LineMap} {st : AState} (hi : AncInv G start st) {e : Edge}
    (he : Anc G e.target start) : AncInv G start (processEdge diffs c cur st e).2 := by
  have hset : ∀ m, ∀ p ∈ setSrc st.srcs e.target m, Anc G p.1 start := by
    intro m p hp
    rcases mem_setSrc hp with h | h
    · subst h; exact he
    · exact hi.srcs p h
  rcases processEdge_snd diffs c cur st e with h | h | h <;> rw [h]
  · exact ⟨fun p hp => hi.srcs p (mem_removeSrc hp), hi.orig⟩
  · refine ⟨hset _, ?_⟩
    intro j o ho
    rcases assign_get ho with h' | ⟨l, _, rfl⟩
    · exact hi.orig j o h'
    · exact he
  · exact ⟨hset _, hi.orig⟩

theorem processEdges_anc {c : Nat} (es : List Edge) {cur : LineMap} {st : AState}
    (hi : AncInv G start st) (hes : ∀ e ∈ es, Anc G e.target start) :
    AncInv G start (processEdges diffs c es cur st).2 := by
  induction es generalizing cur st with
  | nil => exact hi
  | cons e es ih =>
    simp only [processEdges]
    exact ih (processEdge_anc hi (hes e (by simp))) (fun e' he' => hes e' (List.mem_cons_of_mem _ he'))

theorem processCommit_anc (hwf : WF G) {c : Nat} {es : List Edge}
    (hnode : (c, es) ∈ graphOf G S true) {st : AState} (hi : AncInv G start st) :
    AncInv G start (processCommit diffs c es st) := by
  unfold processCommit
  split
  · exact hi
  · rename_i cur hcur
    have hc : Anc G c start := hi.srcs _ (getSrc_mem hcur)
    obtain ⟨hlt, _, rfl⟩ := mem_graphOf.1 hnode
    have hrow := nodeEdges_rowOK (S := S) (skipT := true) hwf hlt
    have hi' : AncInv G start { st with srcs := removeSrc st.srcs c } :=
      ⟨fun p hp => hi.srcs p (mem_removeSrc hp), hi.orig⟩
    have k := processEdges_anc (diffs := diffs) (c := c) _ (cur := cur) hi'
      (fun e he => (hrow.ok e he).anc.trans hc)
    refine ⟨k.srcs, ?_⟩
    intro j o ho
    rcases assign_get ho with h | ⟨l, _, rfl⟩
    · exact k.orig j o h
    · exact hc

theorem processNodes_anc (hwf : WF G) (nodes : List (Nat × List Edge))
    (hnodes : ∀ p ∈ nodes, p ∈ graphOf G S true) {st : AState} (hi : AncInv G start st) :
    AncInv G start (processNodes diffs nodes st) := by
  induction nodes generalizing st with
  | nil => exact hi
  | cons p ps ih =>
    obtain ⟨c, es⟩ := p
    simp only [processNodes]
    have h1 := processCommit_anc (diffs := diffs) hwf (hnodes (c, es) (by simp)) hi
    split
    · exact h1
    · exact ih (fun q hq => hnodes q (List.mem_cons_of_mem _ hq)) h1

theorem initState_anc (n : Nat) : AncInv G start (initState start n) := by
  refine ⟨?_, ?_⟩
  · intro p hp
    simp only [initState, List.mem_singleton] at hp
    subst hp; exact Anc.refl _
  · intro j o ho
    simp only [initState, List.getElem?_map] at ho
    cases hr : (List.range n)[j]? with
    | none => rw [hr] at ho; cases ho
    | some i =>
      rw [hr] at ho
      simp only [Option.map_some, Option.some.injEq] at ho
      subst ho; exact Anc.refl _

end inv

end JjModel.Annotate
