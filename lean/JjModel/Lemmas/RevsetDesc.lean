import JjModel.Lemmas.RevsetGen
/-!
  C19 lemmas, part 4: the `Ancestors`/`Range` arms (`ancestorsWalk`) and the three
  `DagRange` arms (children, descendants, descendants by generation).
-/
namespace JjModel.Revset

theorem adjF_false (adj : Nat → List Nat) : adjF adj false = adj := by
  funext x; simp [adjF, filterPar]

theorem Graph.adj_false (g : Graph) : g.adj false = g.par := by
  funext x; simp [Graph.adj, filterPar]

theorem Graph.adj_eq (g : Graph) (fp : Bool) : g.adj fp = adjF g.par fp := rfl

theorem genEnd_le (hi : Option Nat) : genEnd hi ≤ U32MAX := by
  unfold genEnd
  split
  · exact Nat.le_refl _
  · split <;> omega

theorem T_fromFilterRange (lo : Nat) (hi : Option Nat) {k : Nat} (hk : k < U32MAX) :
    (fromFilterRange lo (genEnd hi)).T (genEnd hi) k ↔ inGen lo hi k := by
  unfold fromFilterRange GRange.T inGen genEnd
  generalize U32MAX = M at hk ⊢
  cases hi with
  | none =>
    simp only []
    constructor
    · rintro ⟨h1, h2⟩; exact ⟨by omega, trivial⟩
    · rintro ⟨h1, _⟩; exact ⟨by omega, by omega⟩
  | some b =>
    simp only []
    split
    · constructor
      · rintro ⟨h1, h2⟩; exact ⟨by omega, by omega⟩
      · rintro ⟨h1, h2⟩; exact ⟨by omega, by omega⟩
    · constructor
      · rintro ⟨h1, h2⟩; exact ⟨by omega, by omega⟩
      · rintro ⟨h1, h2⟩; exact ⟨by omega, by omega⟩

/-- `Ancestors` / `Range` arms: both walks compute "ancestors of the heads at a generation in
range, minus all ancestors of the unwanted roots". -/
theorem mem_ancestorsWalk (g : Graph) (hw : g.WF) (fp : Bool) (lo : Nat) (hi : Option Nat)
    (heads unwanted : List Nat) (hh : ∀ h ∈ heads, h < g.size) (hu : ∀ r ∈ unwanted, r < g.size)
    (p : Nat) :
    p ∈ ancestorsWalk g fp lo hi heads unwanted ↔
      (∃ h ∈ heads, ∃ k, inGen lo hi k ∧ PathK (g.adj fp) k h p) ∧
        ¬ ∃ r ∈ unwanted, Path g.par r p := by
  have ht : Topo g.par := hw.topo
  have hUn : UnwantedReach g.par g.size unwanted p ↔ ∃ r ∈ unwanted, Path g.par r p := by
    constructor
    · rintro ⟨r, hr, _, hp⟩; exact ⟨r, hr, hp⟩
    · rintro ⟨r, hr, hp⟩; exact ⟨r, hr, hu r hr, hp⟩
  unfold ancestorsWalk
  split
  · next hfull =>
    obtain ⟨rfl, rfl⟩ := hfull
    rw [mem_walkAnc ht, hUn]
    constructor
    · rintro ⟨_, _, ⟨h, hh', _, k, hk⟩, h4⟩
      exact ⟨⟨h, hh', k, ⟨Nat.zero_le _, trivial⟩, hk⟩, h4⟩
    · rintro ⟨⟨h, hh', k, _, hk⟩, h4⟩
      have hle := hk.le (ht.adjF fp)
      have := hh h hh'
      exact ⟨Nat.zero_le _, by omega, ⟨h, hh', this, k, hk⟩, h4⟩
  · unfold ancestorsGen
    simp only []
    rw [mem_walkGen ht fp (genEnd_le hi), hUn]
    constructor
    · rintro ⟨_, ⟨⟨h, I⟩, hit, hlt, k, hk, hT⟩, h4⟩
      simp only [List.mem_map] at hit
      obtain ⟨h', hh', he⟩ := hit
      simp only [Prod.mk.injEq] at he
      obtain ⟨rfl, rfl⟩ := he
      simp only at hk hT hlt
      have hle := hk.le (ht.adjF fp)
      have hkl : k < U32MAX := by have := hw.size_le; omega
      exact ⟨⟨h', hh', k, (T_fromFilterRange lo hi hkl).1 hT, hk⟩, h4⟩
    · rintro ⟨⟨h, hh', k, hg, hk⟩, h4⟩
      have hle := hk.le (ht.adjF fp)
      have hlt := hh h hh'
      have hkl : k < U32MAX := by have := hw.size_le; omega
      refine ⟨by omega, ⟨(h, fromFilterRange lo (genEnd hi)), ?_, hlt, k, hk, (T_fromFilterRange lo hi hkl).2 hg⟩, h4⟩
      simp only [List.mem_map]
      exact ⟨h, hh', rfl⟩

theorem desc_ancestorsWalk (g : Graph) (hw : g.WF) (fp : Bool) (lo : Nat) (hi : Option Nat)
    (heads unwanted : List Nat) : Desc (ancestorsWalk g fp lo hi heads unwanted) := by
  unfold ancestorsWalk
  split
  · exact desc_walkAnc hw.topo fp 0 _ _ _
  · exact desc_walkGen hw.topo fp (genEnd_le hi) _ _ _

/-! ### `ancestors_until_roots` -/

theorem minList_none {l : List Nat} (h : minList l = none) : l = [] := by
  cases l with
  | nil => rfl
  | cons a l =>
    simp only [minList] at h
    split at h <;> simp at h

theorem minList_some {l : List Nat} {m : Nat} (h : minList l = some m) :
    m ∈ l ∧ ∀ x ∈ l, m ≤ x := by
  induction l generalizing m with
  | nil => simp [minList] at h
  | cons a l ih =>
    simp only [minList] at h
    split at h
    · next hn =>
      have := minList_none hn
      subst this
      simp at h; subst h; simp
    · next m' hm' =>
      have ih' := ih hm'
      simp at h
      split at h
      · subst h
        refine ⟨by simp, fun x hx => ?_⟩
        simp only [List.mem_cons] at hx
        rcases hx with rfl | hx
        · omega
        · have := ih'.2 x hx; omega
      · subst h
        refine ⟨by simp [ih'.1], fun x hx => ?_⟩
        simp only [List.mem_cons] at hx
        rcases hx with rfl | hx
        · omega
        · exact ih'.2 x hx

theorem mem_ancestorsUntilRoots (g : Graph) (hw : g.WF) (heads roots : List Nat)
    (hh : ∀ h ∈ heads, h < g.size) (p : Nat) :
    p ∈ ancestorsUntilRoots g heads roots ↔
      (∃ m, minList roots = some m ∧ m ≤ p) ∧ ∃ h ∈ heads, Path g.par h p := by
  unfold ancestorsUntilRoots
  split
  · next hn => simp [hn]
  · next m hm =>
    rw [mem_walkAnc hw.topo]
    constructor
    · rintro ⟨h1, _, ⟨h, hh', _, hp⟩, _⟩
      rw [adjF_false] at hp
      exact ⟨⟨m, hm, h1⟩, h, hh', hp⟩
    · rintro ⟨⟨m', hm', h1⟩, h, hh', hp⟩
      rw [hm] at hm'; simp at hm'; subst hm'
      have := hp.le hw.topo
      have := hh h hh'
      refine ⟨h1, by omega, ⟨h, hh', by omega, by rw [adjF_false]; exact hp⟩, ?_⟩
      rintro ⟨r, hr, _⟩; simp at hr

theorem desc_ancestorsUntilRoots (g : Graph) (hw : g.WF) (heads roots : List Nat) :
    Desc (ancestorsUntilRoots g heads roots) := by
  unfold ancestorsUntilRoots
  split
  · simp [Desc]
  · exact desc_walkAnc hw.topo false _ _ _ _

/-! ### `RevWalkDescendantsImpl` -/

/-- `x` is a descendant of (or is) a root -/
def Good (g : Graph) (roots : List Nat) (x : Nat) : Prop := ∃ r ∈ roots, Path g.par x r

abbrev Asc (l : List Nat) : Prop := l.Pairwise (· < ·)

theorem mem_descScan (g : Graph) (ht : Topo g.par) (roots : List Nat) :
    ∀ (cs prev R : List Nat), Asc (prev ++ cs) →
      (∀ x, x ∈ R ↔ x ∈ prev ∧ Good g roots x) →
      (∀ c ∈ prev ++ cs, ∀ q ∈ g.par c, Good g roots q → q ∈ prev ++ cs) →
      ∀ x, x ∈ descScan g roots cs R ↔ x ∈ cs ∧ Good g roots x := by
  intro cs
  induction cs with
  | nil => intro prev R _ _ _ x; simp [descScan]
  | cons c cs ih =>
    intro prev R hasc hR hclo x
    have hasc' : Asc ((prev ++ [c]) ++ cs) := by simpa using hasc
    have hclo' : ∀ c' ∈ (prev ++ [c]) ++ cs, ∀ q ∈ g.par c', Good g roots q → q ∈ (prev ++ [c]) ++ cs := by
      simpa using hclo
    -- the test of the scan is exactly `Good c`
    have htest : (roots.contains c || (g.par c).any R.contains) = true ↔ Good g roots c := by
      simp only [Bool.or_eq_true, List.contains_iff_mem, List.any_eq_true]
      constructor
      · rintro (h | ⟨q, hq, hqR⟩)
        · exact ⟨c, h, Path.refl _ _⟩
        · obtain ⟨r, hr, hp⟩ := ((hR q).1 hqR).2
          exact ⟨r, hr, Path.head hq hp⟩
      · rintro ⟨r, hr, hp⟩
        by_cases e : c = r
        · subst e; exact Or.inl hr
        · right
          obtain ⟨q, hq, hqp⟩ := hp.cases_ne e
          have hgq : Good g roots q := ⟨r, hr, hqp⟩
          refine ⟨q, hq, (hR q).2 ⟨?_, hgq⟩⟩
          have hmem := hclo c (by simp) q hq hgq
          have hqc := ht _ _ hq
          simp only [List.mem_append, List.mem_cons] at hmem
          rcases hmem with h | rfl | h
          · exact h
          · omega
          · -- q after c in an ascending list: impossible
            have : c < q := by
              have := List.pairwise_append.1 hasc
              have h2 := this.2.1
              simp only [List.pairwise_cons] at h2
              exact h2.1 q h
            omega
    rw [descScan]
    split
    · next hgood =>
      have hg := htest.1 hgood
      simp only [List.mem_cons]
      rw [ih (prev ++ [c]) (c :: R) hasc' ?_ hclo']
      · constructor
        · rintro (rfl | ⟨h1, h2⟩)
          · exact ⟨Or.inl rfl, hg⟩
          · exact ⟨Or.inr h1, h2⟩
        · rintro ⟨rfl | h1, h2⟩
          · exact Or.inl rfl
          · exact Or.inr ⟨h1, h2⟩
      · intro y
        simp only [List.mem_cons, List.mem_append, List.mem_nil_iff, or_false]
        rw [hR]
        constructor
        · rintro (rfl | ⟨h1, h2⟩)
          · exact ⟨Or.inr rfl, hg⟩
          · exact ⟨Or.inl h1, h2⟩
        · rintro ⟨h1 | rfl, h2⟩
          · exact Or.inr ⟨h1, h2⟩
          · exact Or.inl rfl
    · next hbad =>
      have hng : ¬ Good g roots c := fun h => hbad (htest.2 h)
      rw [ih (prev ++ [c]) R hasc' ?_ hclo']
      · simp only [List.mem_cons]
        constructor
        · rintro ⟨h1, h2⟩; exact ⟨Or.inr h1, h2⟩
        · rintro ⟨rfl | h1, h2⟩
          · exact absurd h2 hng
          · exact ⟨h1, h2⟩
      · intro y
        simp only [List.mem_append, List.mem_cons, List.mem_nil_iff, or_false]
        rw [hR]
        constructor
        · rintro ⟨h1, h2⟩; exact ⟨Or.inl h1, h2⟩
        · rintro ⟨h1 | rfl, h2⟩
          · exact ⟨h1, h2⟩
          · exact absurd h2 hng

theorem descScan_sublist (g : Graph) (roots : List Nat) :
    ∀ (cs R : List Nat), (descScan g roots cs R).Sublist cs := by
  intro cs
  induction cs with
  | nil => intro R; simp [descScan]
  | cons c cs ih =>
    intro R
    rw [descScan]
    split
    · exact (ih _).cons_cons c
    · exact (ih _).cons c

theorem desc_reverse_asc {l : List Nat} : Desc l.reverse ↔ Asc l := by
  simp only [Desc, Asc, List.pairwise_reverse]

theorem asc_reverse_desc {l : List Nat} : Asc l.reverse ↔ Desc l := by
  simp only [Desc, Asc, List.pairwise_reverse]

/-- `builder.wanted_heads(heads).descendants(roots)`: descendants of the roots among the
ancestors of the heads. -/
theorem mem_descendantsOf (g : Graph) (hw : g.WF) (heads roots : List Nat)
    (hh : ∀ h ∈ heads, h < g.size) (p : Nat) :
    p ∈ descendantsOf g heads roots ↔
      (∃ h ∈ heads, Path g.par h p) ∧ ∃ r ∈ roots, Path g.par p r := by
  unfold descendantsOf
  rw [List.mem_reverse]
  have hd := desc_ancestorsUntilRoots g hw heads roots
  rw [mem_descScan g hw.topo roots _ [] [] (by simpa using asc_reverse_desc.2 hd) (by simp)]
  · rw [List.mem_reverse, mem_ancestorsUntilRoots g hw heads roots hh]
    constructor
    · rintro ⟨⟨_, h2⟩, h3⟩; exact ⟨h2, h3⟩
    · rintro ⟨h2, r, hr, hp⟩
      refine ⟨⟨?_, h2⟩, r, hr, hp⟩
      cases hm : minList roots with
      | none => have := minList_none hm; subst this; simp at hr
      | some m =>
        have := (minList_some hm).2 r hr
        have := hp.le hw.topo
        exact ⟨m, rfl, by omega⟩
  · intro c hc q hq ⟨r, hr, hp⟩
    simp only [List.nil_append, List.mem_reverse] at hc ⊢
    rw [mem_ancestorsUntilRoots g hw heads roots hh] at hc ⊢
    obtain ⟨⟨m, hm, _⟩, h, hh', hpc⟩ := hc
    have := (minList_some hm).2 r hr
    have := hp.le hw.topo
    exact ⟨⟨m, hm, by omega⟩, h, hh', hpc.trans (Path.head hq (Path.refl _ _))⟩

theorem desc_descendantsOf (g : Graph) (hw : g.WF) (heads roots : List Nat) :
    Desc (descendantsOf g heads roots) := by
  unfold descendantsOf
  rw [desc_reverse_asc]
  have hd := desc_ancestorsUntilRoots g hw heads roots
  exact (asc_reverse_desc.2 hd).sublist (descScan_sublist g roots _ _)

end JjModel.Revset
