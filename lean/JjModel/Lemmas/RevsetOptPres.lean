import JjModel.Lemmas.RevsetResolveH
import JjModel.Lemmas.RevsetOptPasses3
/-!
  C19 lemmas, part 17: `optimize` stays inside the grammar `OkEH`: it never introduces an
  out-of-range commit literal.
-/
namespace JjModel.Revset

section
variable {g : Graph}

def Pres (g : Graph) (F : Expr → Option Expr) : Prop :=
  ∀ e e', OkEH g e → F e = some e' → OkEH g e'

theorem pres_finish {F : Expr → Option Expr} (hP : Pres g F) {e1 : Expr} (h : OkEH g e1) :
    OkEH g ((F e1).getD e1) := by
  cases hF : F e1 with
  | none => simpa using h
  | some e' => simpa using hP e1 e' h hF

theorem bottomUp_pres {F : Expr → Option Expr} (hP : Pres g F) :
    ∀ (e : Expr), OkEH g e → OkEH g (bottomUp F e) := by
  intro e
  induction e with
  | none => intro h; rw [bottomUp]; exact pres_finish hP h
  | all => intro h; rw [bottomUp]; exact pres_finish hP h
  | visibleHeads => intro h; rw [bottomUp]; exact pres_finish hP h
  | visibleHeadsOrReferenced => intro h; rw [bottomUp]; exact pres_finish hP h
  | root => intro h; rw [bottomUp]; exact pres_finish hP h
  | forks => intro h; rw [bottomUp]; exact pres_finish hP h
  | commits l => intro h; rw [bottomUp]; exact pres_finish hP h
  | ancestors x lo hi fp ih => intro h; rw [bottomUp]; exact pres_finish hP (e1 := .ancestors _ lo hi fp) (ih h)
  | descendants x lo hi ih => intro h; rw [bottomUp]; exact pres_finish hP (e1 := .descendants _ lo hi) (ih h)
  | range r x lo hi fp ihr ihx =>
    intro h; rw [bottomUp]; exact pres_finish hP (e1 := .range _ _ lo hi fp) ⟨ihr h.1, ihx h.2⟩
  | dagRange r x ihr ihx => intro h; rw [bottomUp]; exact pres_finish hP (e1 := .dagRange _ _) ⟨ihr h.1, ihx h.2⟩
  | reachable s d ihs ihd => intro h; rw [bottomUp]; exact pres_finish hP (e1 := .reachable _ _) ⟨ihs h.1, ihd h.2⟩
  | heads x ih => intro h; rw [bottomUp]; exact pres_finish hP (e1 := .heads _) (ih h)
  | headsRange r x fp f ihr ihx ihf =>
    intro h; rw [bottomUp]
    exact pres_finish hP (e1 := .headsRange _ _ fp _) ⟨ihr h.1, ihx h.2.1, ihf h.2.2⟩
  | roots x ih => intro h; rw [bottomUp]; exact pres_finish hP (e1 := .roots _) (ih h)
  | forkPoint x ih => intro h; rw [bottomUp]; exact pres_finish hP (e1 := .forkPoint _) (ih h)
  | mergePoint x ih => intro h; rw [bottomUp]; exact pres_finish hP (e1 := .mergePoint _) (ih h)
  | latest x n ih => intro h; rw [bottomUp]; exact pres_finish hP (e1 := .latest _ n) (ih h)
  | coalesce a b iha ihb => intro h; rw [bottomUp]; exact pres_finish hP (e1 := .coalesce _ _) ⟨iha h.1, ihb h.2⟩
  | notIn x ih => intro h; rw [bottomUp]; exact pres_finish hP (e1 := .notIn _) (ih h)
  | union a b iha ihb => intro h; rw [bottomUp]; exact pres_finish hP (e1 := .union _ _) ⟨iha h.1, ihb h.2⟩
  | inter a b iha ihb => intro h; rw [bottomUp]; exact pres_finish hP (e1 := .inter _ _) ⟨iha h.1, ihb h.2⟩
  | diff a b iha ihb => intro h; rw [bottomUp]; exact pres_finish hP (e1 := .diff _ _) ⟨iha h.1, ihb h.2⟩

theorem unfoldDifference_pres : Pres g unfoldDifferenceF := by
  intro e e' hok h
  unfold unfoldDifferenceF at h
  split at h
  · simp only [Option.some.injEq] at h; subst h; exact ⟨hok.2, hok.1⟩
  · simp only [Option.some.injEq] at h; subst h; exact hok
  · simp at h

theorem foldRedundant_pres : Pres g foldRedundantF := by
  intro e e' hok h
  unfold foldRedundantF at h
  split at h <;> (try simp only [Option.some.injEq] at h) <;> (try subst h) <;>
    first
    | trivial
    | exact hok
    | exact hok.1
    | exact hok.2
    | (simp at h)

theorem foldGeneration_pres : Pres g foldGenerationF := by
  intro e e' hok h
  unfold foldGenerationF at h
  split at h
  · split at h
    · simp only [Option.some.injEq] at h; subst h; exact hok
    · simp at h
  · simp only [Option.some.injEq] at h; subst h; exact hok
  · simp at h

theorem flattenInter_pres : ∀ (e2 e1 r : Expr), flattenInter e1 e2 = some r →
    OkEH g e1 → OkEH g e2 → OkEH g r := by
  intro e2
  induction e2 with
  | inter i1 i2 ih1 _ =>
    intro e1 r h h1 h2
    simp only [flattenInter, Option.some.injEq] at h
    subst h
    refine ⟨?_, h2.2⟩
    cases hf : flattenInter e1 i1 with
    | none => exact ⟨h1, h2.1⟩
    | some r1 => simpa using ih1 e1 r1 hf h1 h2.1
  | _ => intro e1 r h; simp [flattenInter] at h

theorem flattenIntersections_pres : Pres g flattenIntersectionsF := by
  intro e e' hok h
  unfold flattenIntersectionsF at h
  split at h
  · exact flattenInter_pres _ _ _ h hok.1 hok.2
  · simp at h

theorem sortInterHelper_pres (expr : Expr) (k : Nat) : ∀ (base r : Expr),
    sortInterHelper expr k base = some r → OkEH g base → OkEH g expr → OkEH g r := by
  intro base
  induction base with
  | inter i1 i2 ih1 _ =>
    intro r h hb he
    simp only [sortInterHelper] at h
    split at h
    · simp only [Option.some.injEq] at h
      subst h
      refine ⟨?_, hb.2⟩
      cases hf : sortInterHelper expr k i1 with
      | none => exact ⟨hb.1, he⟩
      | some r1 => simpa using ih1 r1 hf hb.1 he
    · simp at h
  | _ =>
    intro r h hb he
    simp only [sortInterHelper] at h
    split at h
    · simp only [Option.some.injEq] at h; subst h; exact ⟨he, hb⟩
    · simp at h

theorem sortNegations_pres : Pres g sortNegationsF := by
  intro e e' hok h
  unfold sortNegationsF at h
  split at h
  · exact sortInterHelper_pres _ _ _ _ h hok.1 hok.2
  · simp at h

theorem ancestorsToHeadsPr_pres {c hd : Expr} {fp : Bool} (h : ancestorsToHeadsPr c = some (hd, fp))
    (hok : OkEH g c) : OkEH g hd := by
  unfold ancestorsToHeadsPr at h
  split at h
  · simp only [Option.some.injEq, Prod.mk.injEq] at h; obtain ⟨rfl, rfl⟩ := h; exact hok
  · simp only [Option.some.injEq, Prod.mk.injEq] at h; obtain ⟨rfl, rfl⟩ := h; exact hok
  · simp at h

theorem ancestorsToHeads_pres {c hd : Expr} (h : ancestorsToHeads c = some hd) (hok : OkEH g c) :
    OkEH g hd := by
  unfold ancestorsToHeads at h
  split at h
  · next hpr => simp only [Option.some.injEq] at h; subst h; exact ancestorsToHeadsPr_pres hpr hok
  · simp at h

theorem unionAncestors_pres {e1 e2 r : Expr} (h : unionAncestors e1 e2 = some r) (h1 : OkEH g e1)
    (h2 : OkEH g e2) : OkEH g r := by
  unfold unionAncestors at h
  split at h
  · next a b ha hb =>
    simp only [Option.some.injEq] at h; subst h
    exact ⟨ancestorsToHeads_pres ha h1, ancestorsToHeads_pres hb h2⟩
  · simp at h

theorem foldAncestorsUnion_pres : Pres g foldAncestorsUnionF := by
  intro e e' hok h
  unfold foldAncestorsUnionF at h
  split at h
  · exact unionAncestors_pres h hok.1 hok.2
  · next c1 c2 =>
    cases hu : unionAncestors c1 c2 with
    | none => simp [hu] at h
    | some r =>
      simp only [hu, Option.map_some, Option.some.injEq] at h
      subst h
      exact (unionAncestors_pres hu (show OkEH g c1 from hok.1) (show OkEH g c2 from hok.2) : OkEH g r)
  · simp at h

def frOk (g : Graph) (fr : FilteredRange) : Prop :=
  OkEH g fr.roots ∧ OkEH g (fr.headsPr.getD (.visibleHeadsOrReferenced, false)).1 ∧ OkEH g fr.filter

theorem addFilter_pres (fr : FilteredRange) (e : Expr) (hfr : frOk g fr) (he : OkEH g e) :
    frOk g (fr.addFilter e) := by
  unfold FilteredRange.addFilter
  split
  · exact ⟨hfr.1, hfr.2.1, he⟩
  · exact ⟨hfr.1, hfr.2.1, hfr.2.2, he⟩

theorem add_pres (fr : FilteredRange) (e : Expr) (hfr : frOk g fr) (he : OkEH g e) :
    frOk g (fr.add e) := by
  unfold FilteredRange.add
  split
  · split
    · next hp hhp =>
      obtain ⟨hd, fp⟩ := hp
      exact ⟨hfr.1, ancestorsToHeadsPr_pres hhp he, hfr.2.2⟩
    · exact addFilter_pres fr e hfr he
  · exact addFilter_pres fr e hfr he

theorem frBase_ok : frOk g (⟨.none, none, .all⟩ : FilteredRange) := ⟨trivial, trivial, trivial⟩

theorem toFilteredRange_pres : ∀ (c : Expr) (fr : FilteredRange),
    toFilteredRange c = some fr → OkEH g c → frOk g fr := by
  intro c
  induction c with
  | inter e1 e2 ih1 _ =>
    intro fr h hok
    simp only [toFilteredRange] at h
    cases h1 : toFilteredRange e1 with
    | none => simp [h1] at h
    | some fr1 =>
      simp only [h1, Option.map_some, Option.some.injEq] at h
      subst h
      exact add_pres fr1 e2 (ih1 fr1 h1 hok.1) hok.2
  | ancestors hd lo hi fp _ =>
    intro fr h hok
    simp only [toFilteredRange] at h
    split at h
    · next hp hhp =>
      obtain ⟨hd', fp'⟩ := hp
      simp only [Option.some.injEq] at h
      subst h
      exact ⟨trivial, ancestorsToHeadsPr_pres hhp hok, trivial⟩
    · simp at h
  | notIn c _ =>
    intro fr h hok
    simp only [toFilteredRange, ancestorsToHeadsPr] at h
    split at h
    · next roots hroots =>
      simp only [Option.some.injEq] at h
      subst h
      exact ⟨ancestorsToHeads_pres hroots hok, trivial, trivial⟩
    · simp only [Option.some.injEq] at h
      subst h
      exact addFilter_pres _ _ frBase_ok hok
  | all =>
    intro fr h hok
    simp only [toFilteredRange, ancestorsToHeadsPr, Option.some.injEq] at h
    subst h
    exact addFilter_pres _ _ frBase_ok hok
  | _ => intro fr h; simp [toFilteredRange, ancestorsToHeadsPr] at h

theorem toHeadsRange_pres {c r : Expr} (h : toHeadsRange c = some r) (hok : OkEH g c) : OkEH g r := by
  unfold toHeadsRange at h
  cases hf : toFilteredRange c with
  | none => simp [hf] at h
  | some fr =>
    simp only [hf, Option.map_some, Option.some.injEq] at h
    subst h
    exact toFilteredRange_pres c fr hf hok

theorem foldHeadsRange_pres : Pres g foldHeadsRangeF := by
  intro e e' hok h
  unfold foldHeadsRangeF at h
  split at h
  · next hd =>
    cases ht : toHeadsRange hd with
    | none => simp [ht] at h
    | some r =>
      simp only [ht, Option.map_some, Option.some.injEq] at h
      subst h
      exact (toHeadsRange_pres ht (show OkEH g hd from hok) : OkEH g r)
  · exact toHeadsRange_pres h hok
  · simp at h

theorem toDifferenceRange_pres {e c e' : Expr} (h : toDifferenceRange e c = some e') (he : OkEH g e)
    (hc : OkEH g c) : OkEH g e' := by
  unfold toDifferenceRange at h
  split at h
  · split at h
    · next roots hroots =>
      simp only [Option.some.injEq] at h; subst h
      exact ⟨ancestorsToHeads_pres hroots hc, he⟩
    · simp at h
  · simp at h

theorem toDifference_pres {e c : Expr} (he : OkEH g e) (hc : OkEH g c) : OkEH g (toDifference e c) := by
  unfold toDifference
  cases h : toDifferenceRange e c with
  | none => exact ⟨he, hc⟩
  | some e' => simpa using toDifferenceRange_pres h he hc

theorem foldDifference_pres : Pres g foldDifferenceF := by
  intro e e' hok h
  unfold foldDifferenceF at h
  split at h
  · simp only [Option.some.injEq] at h; subst h; exact toDifference_pres hok.1 hok.2
  · simp only [Option.some.injEq] at h; subst h; exact toDifference_pres hok.2 hok.1
  · simp at h

theorem foldNotInAncestors_pres : Pres g foldNotInAncestorsF := by
  intro e e' hok h
  unfold foldNotInAncestorsF at h
  split at h
  · exact toDifferenceRange_pres h (show OkEH g (.ancestors .visibleHeadsOrReferenced 0 none false) from trivial) hok
  · simp at h

/-- `optimize` never leaves the grammar -/
theorem optimize_pres (e : Expr) (hok : OkEH g e) : OkEH g (optimize e) := by
  unfold optimize
  exact bottomUp_pres foldNotInAncestors_pres _
    (bottomUp_pres foldDifference_pres _
      (bottomUp_pres foldHeadsRange_pres _
        (bottomUp_pres foldAncestorsUnion_pres _
          (bottomUp_pres sortNegations_pres _
            (bottomUp_pres flattenIntersections_pres _
              (bottomUp_pres foldGeneration_pres _
                (bottomUp_pres foldRedundant_pres _
                  (bottomUp_pres unfoldDifference_pres _ hok))))))))

end

end JjModel.Revset
