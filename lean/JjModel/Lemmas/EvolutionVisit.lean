import JjModel.Lemmas.EvolutionSplice
import JjModel.Lemmas.EvolutionTopo
/-!
  `visitOp` (one call of `WalkPredecessors::visit_op`) on an operation whose predecessor edges are
  acyclic: it never reports a cycle, and `VisitSpec` describes what it queues and what it leaves
  in `to_visit`.
-/
namespace JjModel.Evolution

structure VisitSpec (m : PMap) (tv tv' ids : List Nat) : Prop where
  /-- queued commits are distinct keys of the operation -/
  nodup : ids.Nodup
  keys : ∀ c, c ∈ ids → m.isKey c = true
  /-- nothing this operation created stays in `to_visit` -/
  nokey : ∀ x, x ∈ tv' → m.isKey x = false
  /-- a predecessor created by the same operation is queued after the commit -/
  edge_key : ∀ c, c ∈ ids → ∀ p, Edge m c p → m.isKey p = true → Later ids c p
  /-- any other predecessor is still to be visited -/
  edge_nokey : ∀ c, c ∈ ids → ∀ p, Edge m c p → m.isKey p = false → p ∈ tv'
  cover_key : ∀ x, x ∈ tv → m.isKey x = true → x ∈ ids
  cover_nokey : ∀ x, x ∈ tv → m.isKey x = false → x ∈ tv'
  sound : ∀ x, x ∈ ids ∨ x ∈ tv' → Reach m tv x
  /-- commits the operation knows nothing about keep their multiplicity -/
  count : ∀ x, m.isKey x = false → (∀ c, ¬ Edge m c x) → tv'.count x = tv.count x

theorem visitSpec_of {m : PMap} {tv tv' te ids : List Nat} (inv : SpliceInv m tv tv' [] te)
    (hperm : ∀ c, c ∈ ids ↔ c ∈ te) (hnd : ids.Nodup)
    (hord : ∀ c, c ∈ ids → ∀ p, Edge m c p → m.isKey p = true → Later ids c p) :
    VisitSpec m tv tv' ids where
  nodup := hnd
  keys := fun c hc => inv.keys c ((hperm c).mp hc)
  nokey := inv.done_nokey
  edge_key := hord
  edge_nokey := fun c hc p hp hk => by
    rcases inv.closed c ((hperm c).mp hc) p hp with h | h | h
    · simp at h
    · have := inv.keys p h; simp [hk] at this
    · exact h
  cover_key := fun x hx hk => by
    rcases inv.cover x hx with h | h | h
    · simp at h
    · exact (hperm x).mpr h
    · have := inv.done_nokey x h; simp [hk] at this
  cover_nokey := fun x hx hk => by
    rcases inv.cover x hx with h | h | h
    · simp at h
    · have := inv.keys x h; simp [hk] at this
    · exact h
  sound := fun x hx => by
    rcases hx with h | h
    · exact inv.sound x (Or.inr (Or.inl ((hperm x).mp h)))
    · exact inv.sound x (Or.inr (Or.inr h))
  count := fun x hk he => by simpa using inv.count x hk he

/-- keys reachable from a set that the splice loop closed are in that set -/
theorem reach_closed {m : PMap} {tv tv' te : List Nat} (inv : SpliceInv m tv tv' [] te)
    {c : Nat} (h : Reach m te c) (hk : m.isKey c = true) : c ∈ te := by
  induction h with
  | base hx => exact hx
  | step hr he ih =>
    have hx := ih he.isKey
    rcases inv.closed _ hx _ he with h | h | h
    · simp at h
    · exact h
    · have := inv.done_nokey _ h; simp [hk] at this

theorem visitOp_spec (m : PMap) (hac : WithinAcyclic m) (tv : List Nat) :
    ∃ tv' ids, visitOp m tv = .ok (tv', ids) ∧ VisitSpec m tv tv' ids := by
  have inv := spliceLoop_spliceInv m tv false
  unfold visitOp
  split
  · rename_i tv' dup heq
    rw [heq] at inv
    exact ⟨tv', [], rfl, visitSpec_of inv (by simp) List.nodup_nil (by simp)⟩
  · rename_i tv' id heq
    rw [heq] at inv
    refine ⟨tv', [id], rfl, visitSpec_of inv (by simp) (by simp) ?_⟩
    intro c hc p hp hk
    exfalso
    simp at hc; subst hc
    rcases inv.closed c (by simp) p hp with h | h | h
    · simp at h
    · simp at h; subst h
      exact hac.no_loop p (.single hp)
    · have := inv.done_nokey _ h; simp [hk] at this
  · rename_i tv' te dup _ _ heq
    rw [heq] at inv
    simp only at inv
    unfold topoOrderReverse
    have hne := topoLoop_no_error m hac (te.reverse.map (·, false)) [] []
      ⟨by have h := trueNodes_falses te.reverse []; rw [List.append_nil] at h; rw [h]; rfl, by simp, by
        simpa using PathOk.falses (m := m) (t := []) te.reverse (above := []) (by simp [PathOk])⟩
    cases hres : topoLoop m (te.reverse.map (·, false)) [] [] with
    | error c => exact absurd hres (hne c)
    | ok res =>
      have hinit : TopoInv m te (te.reverse.map (·, false)) [] := by
        refine ⟨List.nodup_nil, by simp, ?_, ?_, ?_⟩
        · simpa using StackOk.falses (m := m) (result := []) (t := []) te.reverse (above := [])
            (by simp [StackOk])
        · intro s hs
          exact Or.inr ⟨false, by simp [hs]⟩
        · intro x hx
          rcases hx with hx | ⟨f, hx⟩
          · simp at hx
          · simp only [List.mem_map, List.mem_reverse] at hx
            obtain ⟨a, ha, hax⟩ := hx
            have : a = x := by simpa using congrArg Prod.fst hax
            subst this; exact .base ha
      have ht := topoLoop_spec m te _ [] [] hinit res hres
      refine ⟨tv', res.reverse.filter m.isKey, by simp [Except.map], ?_⟩
      have hperm : ∀ c, c ∈ res.reverse.filter m.isKey ↔ c ∈ te := by
        intro c
        constructor
        · intro hc
          have ⟨hc1, hc2⟩ := List.mem_filter.mp hc
          exact reach_closed inv (ht.sound c (Or.inl (by simpa using hc1))) hc2
        · intro hc
          rcases ht.cover c hc with h | ⟨f, h⟩
          · exact List.mem_filter.mpr ⟨by simpa using h, inv.keys c hc⟩
          · simp at h
      refine visitSpec_of inv hperm ?_ ?_
      · exact List.Nodup.sublist List.filter_sublist ((List.reverse_perm res).nodup_iff.mpr ht.nodup)
      · intro c hc p hp hk
        have ⟨hc1, hc2⟩ := List.mem_filter.mp hc
        exact (ht.order c (by simpa using hc1) p hp).filter _ hc2 hk

end JjModel.Evolution
