import JjModel.Lemmas.RepoWc
/-! C13: `merge_wc_commit`, trivial laws of `merge_ref_targets`, `merge_view` keeps heads. -/
set_option linter.unusedSimpArgs false
namespace JjModel.Repo
open JjModel.Merge

/-! ### working copies -/

/-- **`wc_rule`**: `merge_wc_commit` = trivial three-way merge (same value on both sides, or only
    one side differs from the base); otherwise a removal on either side wins; otherwise the self
    side is kept. -/
theorem mergeWcValue_rule (s b o : Option Nat) :
    mergeWcValue s b o =
      if s = o then s else if s = b then o else if o = b then s
      else if s.isNone || o.isNone then none else s := by
  unfold mergeWcValue trivialMerge
  by_cases h1 : s = o
  · subst h1; simp
  · by_cases h2 : s = b
    · subst h2; simp [h1]
    · by_cases h3 : o = b
      · subst h3; simp [h1, h2]
      · simp [h1, h2, h3]

theorem mergeWcCommit_get (v : View) (name : Nat) (b o : Option Nat) :
    assocGet (v.mergeWcCommit name b o).wc name = mergeWcValue (assocGet v.wc name) b o := by
  unfold View.mergeWcCommit
  cases h : mergeWcValue (assocGet v.wc name) b o with
  | none => simp only [assocGet]; exact lookup_assocErase_self _ _
  | some id => simp only [assocGet]; exact lookup_assocSet_self _ _ _

theorem mergeWcCommit_other (v : View) (name n2 : Nat) (b o : Option Nat) (hne : n2 ≠ name) :
    assocGet (v.mergeWcCommit name b o).wc n2 = assocGet v.wc n2 := by
  unfold View.mergeWcCommit
  cases h : mergeWcValue (assocGet v.wc name) b o with
  | none => simp only [assocGet]; exact lookup_assocErase_other _ _ _ hne
  | some id => simp only [assocGet]; exact lookup_assocSet_other _ _ _ _ hne

/-! ### ref targets: the three trivial laws used by `merge_view` -/

theorem mergeRefTargets_right_eq_base (s : Store) (a b : RefTarget) : mergeRefTargets s a b b = a := by
  unfold mergeRefTargets trivialMerge
  by_cases h : a = b
  · simp [h]
  · simp [h]

theorem mergeRefTargets_same (s : Store) (a b : RefTarget) : mergeRefTargets s a b a = a := by
  unfold mergeRefTargets trivialMerge
  simp

/-! ### heads: `merge_view` drops no head -/

theorem foldl_addHead_mem (ids : List Nat) (v : View) (x : Nat) :
    x ∈ (ids.foldl View.addHead v).heads ↔ x ∈ v.heads ∨ x ∈ ids := by
  induction ids generalizing v with
  | nil => simp
  | cons i ids ih =>
    simp only [List.foldl_cons, ih, List.mem_cons]
    unfold View.addHead
    simp only [mem_insertNew]
    constructor
    · rintro ((h | h) | h)
      · exact Or.inl h
      · exact Or.inr (Or.inl h)
      · exact Or.inr (Or.inr h)
    · rintro (h | h | h)
      · exact Or.inl (Or.inl h)
      · exact Or.inl (Or.inr h)
      · exact Or.inr h

theorem recordAbandoned_view (r : Repo) (old : Nat) : (r.recordAbandoned old).view = r.view ∧
    (r.recordAbandoned old).store = r.store := ⟨rfl, rfl⟩

theorem recordRewriteStep_frame (added : List Nat) (r : Repo) (old : Nat) :
    (r.recordRewriteStep added old).view = r.view ∧ (r.recordRewriteStep added old).store = r.store := by
  unfold Repo.recordRewriteStep
  cases rewriteRecordFor r.store added old <;> exact ⟨rfl, rfl⟩

theorem recordAbandonStep_frame (added : List Nat) (r : Repo) (old : Nat) :
    (r.recordAbandonStep added old).view = r.view ∧ (r.recordAbandonStep added old).store = r.store := by
  unfold Repo.recordAbandonStep
  split <;> exact ⟨rfl, rfl⟩

theorem foldl_frame (f : Repo → Nat → Repo)
    (hf : ∀ r x, (f r x).view = r.view ∧ (f r x).store = r.store) (l : List Nat) (r : Repo) :
    (l.foldl f r).view = r.view ∧ (l.foldl f r).store = r.store := by
  induction l generalizing r with
  | nil => exact ⟨rfl, rfl⟩
  | cons x l ih =>
    simp only [List.foldl_cons]
    obtain ⟨a, b⟩ := ih (f r x)
    rw [a, b]; exact hf r x

theorem recordRewrites_frame (r : Repo) (oh nh : List Nat) :
    (r.recordRewrites oh nh).view = r.view ∧ (r.recordRewrites oh nh).store = r.store := by
  unfold Repo.recordRewrites
  simp only
  split
  · exact ⟨rfl, rfl⟩
  · obtain ⟨a2, b2⟩ := foldl_frame _ (recordAbandonStep_frame _) (sortDesc ((ancestors r.store oh).filter fun c => !(ancestors r.store nh).contains c))
      ((sortDesc ((ancestors r.store oh).filter fun c => !(ancestors r.store nh).contains c)).foldl
        (Repo.recordRewriteStep (sortDesc ((ancestors r.store nh).filter fun c => !(ancestors r.store oh).contains c))) r)
    obtain ⟨a1, b1⟩ := foldl_frame _ (recordRewriteStep_frame (sortDesc ((ancestors r.store nh).filter fun c => !(ancestors r.store oh).contains c)))
      (sortDesc ((ancestors r.store oh).filter fun c => !(ancestors r.store nh).contains c)) r
    exact ⟨by rw [a2, a1], by rw [b2, b1]⟩

/-- **`commits_kept` (heads form)**: after the head phase of `merge_view` every head of the own
    view and every head the other side added (relative to the base) is a head candidate; nothing is
    removed from the head set by `merge_view` itself — commits only disappear later, through
    `rebase_descendants`, and only if they are keys of the recorded mapping (`no_key_is_head`). -/
theorem mergeHeads_keeps (r : Repo) (base other : View) (x : Nat) :
    x ∈ (r.mergeHeads base other).view.heads ↔
      x ∈ r.view.heads ∨ (x ∈ other.heads ∧ x ∉ base.heads) := by
  unfold Repo.mergeHeads
  simp only
  rw [foldl_addHead_mem, (recordRewrites_frame _ _ _).1, (recordRewrites_frame _ _ _).1]
  simp [List.mem_filter]

theorem mergeBookmarkStep_heads (r : Repo) (e : Nat × Option RefTarget × Option RefTarget) (x : Nat)
    (h : x ∈ r.view.heads) : x ∈ (r.mergeBookmarkStep e).view.heads := by
  unfold Repo.mergeBookmarkStep Repo.mergeLocalBookmark Repo.setLocalBookmarkTarget
  simp only
  exact (foldl_addHead_mem _ _ _).mpr (Or.inl h)

theorem mergeBookmarks_heads (r : Repo) (base other : View) (x : Nat) (h : x ∈ r.view.heads) :
    x ∈ (r.mergeBookmarks base other).view.heads := by
  unfold Repo.mergeBookmarks
  generalize diffNamed base.bookmarks other.bookmarks = l
  induction l generalizing r with
  | nil => exact h
  | cons e l ih => simp only [List.foldl_cons]; exact ih _ (mergeBookmarkStep_heads r e x h)

theorem mergeWcs_heads (v base other : View) : (v.mergeWcs base other).heads = v.heads ∧
    (v.mergeWcs base other).bookmarks = v.bookmarks := by
  unfold View.mergeWcs
  generalize diffNamed base.wc other.wc = l
  induction l generalizing v with
  | nil => exact ⟨rfl, rfl⟩
  | cons e l ih =>
    simp only [List.foldl_cons]
    obtain ⟨a, b⟩ := ih (v.mergeWcCommit e.1 e.2.1 e.2.2)
    rw [a, b]
    unfold View.mergeWcCommit
    split <;> exact ⟨rfl, rfl⟩

/-- no head of the own side and no new head of the other side is dropped by `merge_view` -/
theorem mergeView_keeps_heads (r : Repo) (base other : View) (x : Nat)
    (h : x ∈ r.view.heads ∨ (x ∈ other.heads ∧ x ∉ base.heads)) :
    x ∈ (r.mergeView base other).view.heads := by
  unfold Repo.mergeView
  simp only
  apply mergeBookmarks_heads
  rw [mergeHeads_keeps]
  rcases h with h | h
  · left; simp only [(mergeWcs_heads _ _ _).1]; exact h
  · right; exact h

theorem mem_keys_insert_self (m : Mapping) (k : Nat) (v : Rewrite) : k ∈ (m.insert k v).keys :=
  mem_keys_of_get (Mapping.get_insert_self m k v)

theorem mem_keys_insert_mono (m : Mapping) (k k2 : Nat) (v : Rewrite) (h : k2 ∈ m.keys) :
    k2 ∈ (m.insert k v).keys := by
  unfold Mapping.insert Mapping.keys at *
  by_cases ha : (m.any fun e => e.1 == k) = true
  · simp only [ha, if_true, List.map_map]
    simp only [List.mem_map] at h ⊢
    obtain ⟨e, he, rfl⟩ := h
    refine ⟨e, he, ?_⟩
    by_cases hk : e.1 = k
    · simp [hk]
    · simp [hk]
  · simp only [ha, Bool.false_eq_true, if_false, List.map_append, List.mem_append]
    exact Or.inl h

/-- folding a step function that never loses keys and never touches the store: an element of the
    list for which the step is guaranteed to insert its key ends up as a key -/
theorem foldl_keys (f : Repo → Nat → Repo) (s0 : Store)
    (hstore : ∀ r x, (f r x).store = r.store)
    (hmono : ∀ r x k, k ∈ r.mapping.keys → k ∈ (f r x).mapping.keys) :
    ∀ (l : List Nat) (r : Repo), r.store = s0 →
      (∀ k ∈ r.mapping.keys, k ∈ (l.foldl f r).mapping.keys) ∧
      (∀ x ∈ l, (∀ r', r'.store = s0 → x ∈ (f r' x).mapping.keys) → x ∈ (l.foldl f r).mapping.keys) := by
  intro l
  induction l with
  | nil => intro r _; exact ⟨fun k hk => hk, by simp⟩
  | cons y l ih =>
    intro r hr
    simp only [List.foldl_cons]
    obtain ⟨i1, i2⟩ := ih (f r y) (by rw [hstore, hr])
    refine ⟨fun k hk => i1 k (hmono r y k hk), ?_⟩
    intro x hx hins
    simp only [List.mem_cons] at hx
    rcases hx with rfl | hx
    · exact i1 x (hins r hr)
    · exact i2 x hx hins

/-- **`hidden_stay_hidden` (recording form)**: every commit that is reachable from the old heads
    but no longer from the new heads is a key of the mapping after `record_rewrites` — rewritten
    (one commit with its change id among the added ones), divergent (several) or abandoned (none) —
    so `rebase_descendants` moves its descendants away and `update_heads` removes it from the heads
    (C11 `no_key_is_head`).  The exception the source makes — descendants of `Divergent` keys stay —
    is C11's. -/
theorem recordRewrites_covers (r : Repo) (oh nh : List Nat) (c : Nat)
    (hc : c ∈ ancestors r.store oh) (hn : c ∉ ancestors r.store nh) :
    c ∈ (r.recordRewrites oh nh).mapping.keys := by
  unfold Repo.recordRewrites
  simp only
  have hrem : c ∈ sortDesc ((ancestors r.store oh).filter fun c => !(ancestors r.store nh).contains c) := by
    rw [mem_sortDesc, List.mem_filter]
    exact ⟨hc, by simpa using hn⟩
  generalize sortDesc ((ancestors r.store oh).filter fun c => !(ancestors r.store nh).contains c) = removed at hrem
  generalize sortDesc ((ancestors r.store nh).filter fun c => !(ancestors r.store oh).contains c) = added
  have hne : removed.isEmpty = false := by
    cases removed with
    | nil => simp at hrem
    | cons _ _ => rfl
  simp only [hne]
  have f1 := foldl_keys (Repo.recordRewriteStep added) r.store
    (fun r x => by unfold Repo.recordRewriteStep; cases rewriteRecordFor r.store added x <;> rfl)
    (fun r x k hk => by
      unfold Repo.recordRewriteStep
      cases rewriteRecordFor r.store added x with
      | none => exact hk
      | some rw => exact mem_keys_insert_mono _ _ _ _ hk)
    removed r rfl
  have hs1 : (removed.foldl (Repo.recordRewriteStep added) r).store = r.store :=
    (foldl_frame _ (fun r x => by
      unfold Repo.recordRewriteStep
      cases rewriteRecordFor r.store added x <;> exact ⟨rfl, rfl⟩) removed r).2
  have f2 := foldl_keys (Repo.recordAbandonStep added) r.store
    (fun r x => by unfold Repo.recordAbandonStep; split <;> rfl)
    (fun r x k hk => by
      unfold Repo.recordAbandonStep
      split
      · exact hk
      · exact mem_keys_insert_mono _ _ _ _ hk)
    removed (removed.foldl (Repo.recordRewriteStep added) r) hs1
  by_cases hany : (added.any fun x => changeOf r.store x == changeOf r.store c) = true
  · -- some added commit carries the change id: recorded as rewritten/divergent by the first loop
    apply f2.1
    apply f1.2 c hrem
    intro r' hr'
    unfold Repo.recordRewriteStep rewriteRecordFor
    rw [hr']
    have hfil : (added.filter fun x => changeOf r.store x == changeOf r.store c) ≠ [] := by
      intro h
      simp only [List.any_eq_true] at hany
      obtain ⟨x, hx, hxc⟩ := hany
      have : x ∈ added.filter fun x => changeOf r.store x == changeOf r.store c :=
        List.mem_filter.mpr ⟨hx, hxc⟩
      rw [h] at this; cases this
    cases hf : added.filter fun x => changeOf r.store x == changeOf r.store c with
    | nil => exact absurd hf hfil
    | cons a t =>
      cases t with
      | nil => exact mem_keys_insert_self _ _ _
      | cons b t => exact mem_keys_insert_self _ _ _
  · -- nobody carries it: abandoned by the second loop
    apply f2.2 c hrem
    intro r' hr'
    unfold Repo.recordAbandonStep
    rw [hr']
    simp only [hany]
    exact mem_keys_insert_self _ _ _

theorem diffNamed_entry {β : Type} [DecidableEq β] {a b : List (Nat × β)} {e : Nat × Option β × Option β}
    (h : e ∈ diffNamed a b) : e.2.1 = a.lookup e.1 ∧ e.2.2 = b.lookup e.1 ∧ e.2.1 ≠ e.2.2 := by
  unfold diffNamed at h
  simp only [List.mem_filterMap] at h
  obtain ⟨n, _, hn⟩ := h
  by_cases hx : a.lookup n = b.lookup n
  · simp [hx] at hn
  · simp only [hx, if_false, Option.some.injEq] at hn
    subst hn
    exact ⟨rfl, rfl, hx⟩

theorem mergeBookmarkStep_other (r : Repo) (e : Nat × Option RefTarget × Option RefTarget) (b : Nat)
    (hne : e.1 ≠ b) : (r.mergeBookmarkStep e).view.getBookmark b = r.view.getBookmark b := by
  unfold Repo.mergeBookmarkStep Repo.mergeLocalBookmark
  exact getBookmark_set_other _ _ _ _ (Ne.symm hne)

theorem mergeBookmarkStep_store (r : Repo) (e : Nat × Option RefTarget × Option RefTarget) :
    (r.mergeBookmarkStep e).store = r.store := rfl

theorem mergeBookmarkFold_other (b : Nat) (l : List (Nat × Option RefTarget × Option RefTarget))
    (r : Repo) (hl : ∀ e ∈ l, e.1 ≠ b) :
    (l.foldl Repo.mergeBookmarkStep r).view.getBookmark b = r.view.getBookmark b ∧
    (l.foldl Repo.mergeBookmarkStep r).store = r.store := by
  induction l generalizing r with
  | nil => exact ⟨rfl, rfl⟩
  | cons e l ih =>
    simp only [List.foldl_cons]
    obtain ⟨h1, h2⟩ := ih (r.mergeBookmarkStep e) (fun e' he' => hl e' (by simp [he']))
    rw [h1, h2]
    exact ⟨mergeBookmarkStep_other r e b (hl e (by simp)), rfl⟩

/-- a bookmark the other side did not change (same value in base and other) keeps the own value -/
theorem mergeBookmarks_unchanged_by_other (r : Repo) (base other : View) (b : Nat)
    (h : base.bookmarks.lookup b = other.bookmarks.lookup b) :
    (r.mergeBookmarks base other).view.getBookmark b = r.view.getBookmark b := by
  unfold Repo.mergeBookmarks
  refine (mergeBookmarkFold_other b _ r ?_).1
  intro e he hb
  obtain ⟨h1, h2, h3⟩ := diffNamed_entry he
  rw [hb] at h1 h2
  exact h3 (by rw [h1, h2, h])

/-- **`refs_from_changer`**: a bookmark the other side changed (from `tb` to `to`; `none` = absent)
    becomes `merge_ref_targets(own, tb, to)`; see the corollaries for the cases of the property. -/
theorem mergeBookmarks_changed (r : Repo) (base other : View) (b : Nat)
    (l1 l2 : List (Nat × Option RefTarget × Option RefTarget)) (tb to : Option RefTarget)
    (hsplit : diffNamed base.bookmarks other.bookmarks = l1 ++ (b, tb, to) :: l2)
    (h1 : ∀ e ∈ l1, e.1 ≠ b) (h2 : ∀ e ∈ l2, e.1 ≠ b) :
    (r.mergeBookmarks base other).view.getBookmark b =
      mergeRefTargets r.store (r.view.getBookmark b) (optTarget tb) (optTarget to) := by
  unfold Repo.mergeBookmarks
  rw [hsplit, List.foldl_append, List.foldl_cons, (mergeBookmarkFold_other b l2 _ h2).1]
  obtain ⟨g1, g2⟩ := mergeBookmarkFold_other b l1 r h1
  generalize l1.foldl Repo.mergeBookmarkStep r = r1 at g1 g2
  unfold Repo.mergeBookmarkStep Repo.mergeLocalBookmark
  rw [getBookmark_set, g1, g2]

/-- own side did not change it ⇒ the other side's value -/
theorem merged_bookmark_from_other (s : Store) (tb to : RefTarget) :
    mergeRefTargets s tb tb to = to := mergeRefTargets_left_eq_base s tb to

/-- both sides made the same change ⇒ that value -/
theorem merged_bookmark_same_change (s : Store) (t tb : RefTarget) :
    mergeRefTargets s t tb t = t := mergeRefTargets_same s t tb

theorem nodup_insertNew {a : List Nat} (x : Nat) (h : a.Nodup) : (insertNew a x).Nodup := by
  by_cases hx : x ∈ a
  · rw [insertNew_of_mem hx]; exact h
  · rw [insertNew_of_not_mem hx]
    rw [List.nodup_append]
    refine ⟨h, by simp, ?_⟩
    intro y hy z hz
    simp only [List.mem_singleton] at hz
    subst hz
    intro hyz; subst hyz; exact hx hy

theorem nodup_union {a : List Nat} (b : List Nat) (h : a.Nodup) : (union a b).Nodup := by
  induction b generalizing a with
  | nil => exact h
  | cons x b ih => rw [union_cons]; exact ih (nodup_insertNew x h)

theorem nodup_dedup (l : List Nat) : (dedup l).Nodup := nodup_union l List.nodup_nil

theorem nodup_insertAsc {x : Nat} {l : List Nat} (hx : x ∉ l) (h : l.Nodup) : (insertAsc x l).Nodup := by
  induction l with
  | nil => simp [insertAsc]
  | cons y ys ih =>
    unfold insertAsc
    by_cases hxy : x ≤ y
    · simp only [hxy, if_true]
      exact List.nodup_cons.mpr ⟨hx, h⟩
    · simp only [hxy, if_false]
      have hy := List.nodup_cons.mp h
      refine List.nodup_cons.mpr ⟨?_, ih (fun hm => hx (by simp [hm])) hy.2⟩
      rw [mem_insertAsc]
      intro hc
      rcases hc with hc | hc
      · subst hc; exact hx (by simp)
      · exact hy.1 hc

theorem nodup_sortAsc {l : List Nat} (h : l.Nodup) : (sortAsc l).Nodup := by
  unfold sortAsc
  induction l with
  | nil => simp
  | cons x xs ih =>
    have hx := List.nodup_cons.mp h
    simp only [List.foldr_cons]
    exact nodup_insertAsc (fun hm => hx.1 (mem_sortAsc.mp hm)) (ih hx.2)

theorem nodup_filterMap_names {β : Type} (f : Nat → Option β) (names : List Nat) (h : names.Nodup) :
    ((names.filterMap fun n => (f n).map fun v => (n, v)).map (·.1)).Nodup := by
  induction names with
  | nil => simp
  | cons n ns ih =>
    have hn := List.nodup_cons.mp h
    simp only [List.filterMap_cons]
    cases hf : f n with
    | none => simpa [hf] using ih hn.2
    | some v =>
      simp only [hf, Option.map_some, List.map_cons]
      refine List.nodup_cons.mpr ⟨?_, ih hn.2⟩
      intro hm
      simp only [List.mem_map, List.mem_filterMap, Option.map_eq_some_iff] at hm
      obtain ⟨e, ⟨n', hn', v', _, rfl⟩, he⟩ := hm
      simp only at he
      subst he
      exact hn.1 hn'

theorem diffNamed_eq {β : Type} [DecidableEq β] (a b : List (Nat × β)) :
    diffNamed a b = (sortAsc (dedup (a.map (·.1) ++ b.map (·.1)))).filterMap fun n =>
      (if a.lookup n = b.lookup n then none else some (a.lookup n, b.lookup n)).map fun v => (n, v) := by
  unfold diffNamed
  simp only
  congr 1
  funext n
  by_cases h : a.lookup n = b.lookup n <;> simp [h]

theorem diffNamed_nodup {β : Type} [DecidableEq β] (a b : List (Nat × β)) :
    ((diffNamed a b).map (·.1)).Nodup := by
  rw [diffNamed_eq]
  exact nodup_filterMap_names _ _ (nodup_sortAsc (nodup_dedup _))

theorem split_of_mem_nodup {γ : Type} (l : List (Nat × γ)) (h : (l.map (·.1)).Nodup) (e : Nat × γ)
    (he : e ∈ l) :
    ∃ l1 l2, l = l1 ++ e :: l2 ∧ (∀ x ∈ l1, x.1 ≠ e.1) ∧ (∀ x ∈ l2, x.1 ≠ e.1) := by
  induction l with
  | nil => cases he
  | cons y ys ih =>
    simp only [List.map_cons] at h
    have hy := List.nodup_cons.mp h
    simp only [List.mem_cons] at he
    rcases he with rfl | he
    · refine ⟨[], ys, rfl, by simp, ?_⟩
      intro x hx hxe
      exact hy.1 (by rw [← hxe]; exact List.mem_map.mpr ⟨x, hx, rfl⟩)
    · obtain ⟨l1, l2, hl, h1, h2⟩ := ih hy.2 he
      refine ⟨y :: l1, l2, by rw [hl]; rfl, ?_, h2⟩
      intro x hx
      simp only [List.mem_cons] at hx
      rcases hx with rfl | hx
      · intro hxe
        exact hy.1 (by rw [hxe]; exact List.mem_map.mpr ⟨e, he, rfl⟩)
      · exact h1 x hx

theorem lookup_some_mem_keys {β : Type} {l : List (Nat × β)} {k : Nat} {v : β}
    (h : l.lookup k = some v) : k ∈ l.map (·.1) := by
  induction l with
  | nil => simp [List.lookup] at h
  | cons e l ih =>
    obtain ⟨k', v'⟩ := e
    simp only [List.lookup] at h
    cases hk : k == k' with
    | true => have : k = k' := by simpa using hk
              simp [this]
    | false => simp only [hk] at h; simp [ih h]

theorem diffNamed_mem {β : Type} [DecidableEq β] (a b : List (Nat × β)) (n : Nat)
    (h : a.lookup n ≠ b.lookup n) : (n, a.lookup n, b.lookup n) ∈ diffNamed a b := by
  unfold diffNamed
  simp only [List.mem_filterMap]
  refine ⟨n, ?_, by simp [h]⟩
  rw [mem_sortAsc, mem_dedup, List.mem_append]
  cases ha : a.lookup n with
  | some v => exact Or.inl (lookup_some_mem_keys ha)
  | none =>
    cases hb : b.lookup n with
    | some v => exact Or.inr (lookup_some_mem_keys hb)
    | none => rw [ha, hb] at h; exact absurd rfl h

/-- **`refs_from_changer`**: a bookmark whose value differs between the base and the other side
    becomes `merge_ref_targets(own value, base value, other value)` (absent = not in the map). -/
theorem mergeBookmarks_changed_any (r : Repo) (base other : View) (b : Nat)
    (h : base.bookmarks.lookup b ≠ other.bookmarks.lookup b) :
    (r.mergeBookmarks base other).view.getBookmark b =
      mergeRefTargets r.store (r.view.getBookmark b) (optTarget (base.bookmarks.lookup b))
        (optTarget (other.bookmarks.lookup b)) := by
  obtain ⟨l1, l2, hl, h1, h2⟩ := split_of_mem_nodup _ (diffNamed_nodup base.bookmarks other.bookmarks) _
    (diffNamed_mem base.bookmarks other.bookmarks b h)
  exact mergeBookmarks_changed r base other b l1 l2 _ _ hl h1 h2

/-- replacements still to be pushed: entries whose key has not been visited yet -/
def pendingSize (m : Mapping) (visited : List Nat) : Nat :=
  ((m.filter fun e => !visited.contains e.1).map fun e => e.2.newParentIds.length).sum

theorem pendingSize_nil (m : Mapping) : pendingSize m [] = mappingSize m := by
  unfold pendingSize mappingSize
  have : (m.filter fun e => !([] : List Nat).contains e.1) = m := by
    simp
  rw [this]

theorem pendingSize_cons_le (m : Mapping) (v : List Nat) (x : Nat) :
    pendingSize m (x :: v) ≤ pendingSize m v := by
  unfold pendingSize
  induction m with
  | nil => simp
  | cons e m ih =>
    by_cases h1 : v.contains e.1 = true
    · have h2 : (x :: v).contains e.1 = true := by
        simp only [List.contains_eq_mem, List.mem_cons, decide_eq_true_eq] at h1 ⊢; exact Or.inr h1
      simp only [List.filter_cons, h1, h2, Bool.not_true, Bool.false_eq_true, if_false]; exact ih
    · by_cases h2 : (x :: v).contains e.1 = true
      · simp only [List.filter_cons, h1, h2, Bool.not_true, Bool.not_false, Bool.false_eq_true,
          if_false, if_true, List.map_cons, List.sum_cons]
        omega
      · simp only [List.filter_cons, h1, h2, Bool.not_false, if_true, List.map_cons, List.sum_cons]
        omega

theorem pendingSize_lookup (m : Mapping) (v : List Nat) (x : Nat) (rw : Rewrite)
    (hx : x ∉ v) (hl : m.lookup x = some rw) :
    pendingSize m (x :: v) + rw.newParentIds.length ≤ pendingSize m v := by
  unfold pendingSize
  induction m with
  | nil => simp [List.lookup] at hl
  | cons e m ih =>
    obtain ⟨k, r⟩ := e
    simp only [List.lookup] at hl
    by_cases hk : x = k
    · subst hk
      simp only [beq_self_eq_true] at hl
      injection hl with hl; subst hl
      have h1 : ¬ v.contains x = true := by simpa using hx
      have h2 : (x :: v).contains x = true := by simp
      simp only [List.filter_cons, h1, h2, Bool.not_true, Bool.not_false, Bool.false_eq_true,
        if_false, if_true, List.map_cons, List.sum_cons]
      have := pendingSize_cons_le m v x
      unfold pendingSize at this
      omega
    · have hb : (x == k) = false := by simpa using hk
      simp only [hb] at hl
      have := ih hl
      by_cases h1 : v.contains k = true
      · have h2 : (x :: v).contains k = true := by
          simp only [List.contains_eq_mem, List.mem_cons, decide_eq_true_eq] at h1 ⊢; exact Or.inr h1
        simp only [List.filter_cons, h1, h2, Bool.not_true, Bool.false_eq_true, if_false]; exact this
      · have h2 : ¬ (x :: v).contains k = true := by
          simp only [List.contains_eq_mem, List.mem_cons, decide_eq_true_eq, not_or] at h1 ⊢
          exact ⟨fun h => hk h.symm, h1⟩
        simp only [List.filter_cons, h1, h2, Bool.not_false, if_true, List.map_cons, List.sum_cons]
        omega

/-- **fuel adequacy of `rwLoop`**: above `|stack| + pending replacements` the amount of fuel does
    not matter, so the fuel the model passes (`|olds| + Σ|replacements| + 1`) never cuts the loop
    short: a `none` is always one of the source's `assert!`s. -/
theorem rwLoop_fuel_irrelevant (m : Mapping) (pred : Rewrite → Bool) :
    ∀ (f1 f2 : Nat) (stack visited out : List Nat),
      stack.length + pendingSize m visited < f1 → stack.length + pendingSize m visited < f2 →
      rwLoop m pred f1 stack visited out = rwLoop m pred f2 stack visited out := by
  intro f1
  induction f1 with
  | zero => intro f2 stack visited out h; omega
  | succ f1 ih =>
    intro f2 stack visited out h1 h2
    match f2, h2 with
    | f2 + 1, h2 =>
      match stack with
      | [] => simp [rwLoop]
      | x :: rest =>
        unfold rwLoop
        simp only [List.length_cons] at h1 h2
        by_cases hv : visited.contains x = true
        · simp only [hv, if_true]
          exact ih f2 rest visited out (by omega) (by omega)
        · simp only [hv]
          have hx : x ∉ visited := by simpa using hv
          have hle := pendingSize_cons_le m visited x
          cases hg : m.getIf pred x with
          | none => exact ih f2 rest (x :: visited) _ (by omega) (by omega)
          | some rw =>
            simp only
            by_cases he : rw.newParentIds.isEmpty = true
            · simp [he]
            · simp only [he]
              have := pendingSize_lookup m visited x rw hx (getIf_get hg)
              exact ih f2 _ (x :: visited) out (by simp only [List.length_append]; omega)
                (by simp only [List.length_append]; omega)

/-- the fuel of `rewritten_ids_with` is adequate: any larger fuel gives the same result -/
theorem rewrittenIdsWith_fuel (m : Mapping) (pred : Rewrite → Bool) (olds : List Nat) (extra : Nat) :
    rwLoop m pred (olds.length + mappingSize m + 1 + extra) olds [] [] =
      rwLoop m pred (olds.length + mappingSize m + 1) olds [] [] := by
  apply rwLoop_fuel_irrelevant <;> rw [pendingSize_nil] <;> omega

theorem mergeWcFold_other (name : Nat) (l : List (Nat × Option Nat × Option Nat)) (v : View)
    (hl : ∀ e ∈ l, e.1 ≠ name) :
    assocGet (l.foldl (fun (v : View) (e : Nat × Option Nat × Option Nat) =>
      v.mergeWcCommit e.1 e.2.1 e.2.2) v).wc name = assocGet v.wc name := by
  induction l generalizing v with
  | nil => rfl
  | cons e l ih =>
    simp only [List.foldl_cons]
    rw [ih _ (fun e' he' => hl e' (by simp [he']))]
    exact mergeWcCommit_other v e.1 name e.2.1 e.2.2 (Ne.symm (hl e (by simp)))

/-- **`wc_rule` for the whole working-copy phase of `merge_view`**: a workspace whose commit is the
    same in the base and the other view is left alone; otherwise it gets `mergeWcValue` of the own,
    base and other commit (`none` = workspace absent). -/
theorem mergeWcs_spec (v base other : View) (name : Nat) :
    assocGet (v.mergeWcs base other).wc name =
      if base.wc.lookup name = other.wc.lookup name then assocGet v.wc name
      else mergeWcValue (assocGet v.wc name) (base.wc.lookup name) (other.wc.lookup name) := by
  unfold View.mergeWcs
  by_cases h : base.wc.lookup name = other.wc.lookup name
  · simp only [h, if_true]
    apply mergeWcFold_other
    intro e he hb
    obtain ⟨h1, h2, h3⟩ := diffNamed_entry he
    rw [hb] at h1 h2
    exact h3 (by rw [h1, h2, h])
  · simp only [h, if_false]
    obtain ⟨l1, l2, hl, h1, h2⟩ := split_of_mem_nodup _ (diffNamed_nodup base.wc other.wc) _
      (diffNamed_mem base.wc other.wc name h)
    rw [hl, List.foldl_append, List.foldl_cons, mergeWcFold_other name l2 _ h2, mergeWcCommit_get,
      mergeWcFold_other name l1 v h1]

end JjModel.Repo
