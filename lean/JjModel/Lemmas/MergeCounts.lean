import JjModel.Model.Merge
/-!
  Lemmas connecting the association-list bookkeeping of `trivial_merge` (`bump`, `countsFrom`)
  with the signed count function `count`.
-/
namespace JjModel.Merge
variable {α : Type} [DecidableEq α]

/-- value stored for key `v` (0 when absent) -/
def look : List (α × Int) → α → Int
  | [], _ => 0
  | (w, c) :: rest, v => if w = v then c else look rest v

/-- signed count with an explicit starting sign -/
def scount : List α → Int → α → Int
  | [], _, _ => 0
  | x :: xs, s, v => s * ind x v + scount xs (-s) v

theorem scount_neg (xs : List α) (s : Int) (v : α) : scount xs (-s) v = - scount xs s v := by
  induction xs generalizing s with
  | nil => simp [scount]
  | cons x xs ih => simp only [scount, ih, Int.neg_neg, Int.neg_mul]; omega

theorem count_eq_scount (xs : List α) (v : α) : count xs v = scount xs 1 v := by
  fun_induction count xs v with
  | case1 => simp [scount]
  | case2 a => simp [scount]
  | case3 a r rest ih =>
    simp only [scount, Int.neg_neg]
    omega

theorem look_bump (x : α) (n : Int) (l : List (α × Int)) (v : α) :
    look (bump x n l) v = look l v + (if x = v then n else 0) := by
  fun_induction bump x n l <;> grind [look]

theorem keys_bump (x : α) (n : Int) (l : List (α × Int)) :
    (bump x n l).map Prod.fst = if x ∈ l.map Prod.fst then l.map Prod.fst else l.map Prod.fst ++ [x] := by
  fun_induction bump x n l <;> grind

theorem nodup_bump (x : α) (n : Int) (l : List (α × Int)) (h : (l.map Prod.fst).Nodup) :
    ((bump x n l).map Prod.fst).Nodup := by
  rw [keys_bump]; split
  · exact h
  · rw [List.nodup_append]; grind

theorem sum_bump (x : α) (n : Int) (l : List (α × Int)) :
    ((bump x n l).map Prod.snd).sum = (l.map Prod.snd).sum + n := by
  fun_induction bump x n l <;> grind

theorem look_countsFrom (xs : List α) (s : Int) (acc : List (α × Int)) (v : α) :
    look (countsFrom xs s acc) v = look acc v + scount xs s v := by
  fun_induction countsFrom xs s acc with
  | case1 => simp [scount]
  | case2 x xs s acc ih => rw [ih, look_bump, scount, ind]; split <;> simp_all <;> omega

theorem nodup_countsFrom (xs : List α) (s : Int) (acc : List (α × Int)) (h : (acc.map Prod.fst).Nodup) :
    ((countsFrom xs s acc).map Prod.fst).Nodup := by
  fun_induction countsFrom xs s acc with
  | case1 => exact h
  | case2 x xs s acc ih => exact ih (nodup_bump _ _ _ h)

theorem look_counts (vs : List α) (v : α) : look (counts vs) v = count vs v := by
  simp [counts, look_countsFrom, look, count_eq_scount]

theorem nodup_counts (vs : List α) : ((counts vs).map Prod.fst).Nodup :=
  nodup_countsFrom _ _ _ (by simp)

/-- `look` finds exactly the entry of a key-duplicate-free list -/
theorem mem_iff_look (l : List (α × Int)) (h : (l.map Prod.fst).Nodup) (v : α) (c : Int) :
    (v, c) ∈ l ↔ (v ∈ l.map Prod.fst ∧ look l v = c) := by
  induction l with
  | nil => simp
  | cons e l ih =>
    obtain ⟨w, d⟩ := e
    simp only [List.map_cons, List.nodup_cons] at h
    have ih' := ih h.2
    by_cases hw : w = v
    · subst hw
      simp only [List.mem_cons, Prod.mk.injEq, true_and, look, if_true, List.map_cons]
      constructor
      · rintro (h1 | h1)
        · exact ⟨Or.inl trivial, h1.symm⟩
        · exact absurd ((ih'.mp h1).1) h.1
      · rintro ⟨_, h2⟩; exact Or.inl h2.symm
    · simp only [List.mem_cons, Prod.mk.injEq, look, hw, if_false, List.map_cons]
      grind

theorem look_eq_zero_of_not_mem (l : List (α × Int)) (v : α) (h : v ∉ l.map Prod.fst) : look l v = 0 := by
  induction l with
  | nil => rfl
  | cons e l ih => obtain ⟨w, d⟩ := e; simp only [List.map_cons, List.mem_cons, not_or] at h; simp [look, Ne.symm h.1, ih h.2]

end JjModel.Merge
