import JjModel.Lemmas.DiffMatch
/-!
  Alternation: every interior unchanged region of a built diff has a non-empty base range
  (`build_interiorSolid`), by following the runs that `compact_unchanged_regions` merges.
-/
namespace JjModel.Diff

/-- the base range (side 0) is non-empty -/
def solid (r : Region) : Bool := decide ((r.getD 0 ⟨0, 0⟩).lo < (r.getD 0 ⟨0, 0⟩).hi)

/-- one step of `compact_unchanged_regions` on the abstract state
`(current run contains the first region or a solid region, maybe_previous)` -/
def runStep (st : Bool × Region) (cur : Region) : Bool × Region :=
  if adjacent st.2 cur then (st.1 || solid cur, mergeRegion st.2 cur) else (solid cur, cur)

/-- whenever a run is closed (a region is emitted that is not the last one), it is good -/
def RunsGood : Bool × Region → List Region → Prop
  | _, [] => True
  | st, cur :: rest => (adjacent st.2 cur = true ∨ st.1 = true) ∧ RunsGood (runStep st cur) rest

theorem runsGood_append (st : Bool × Region) (A B : List Region) :
    RunsGood st (A ++ B) ↔ RunsGood st A ∧ RunsGood (A.foldl runStep st) B := by
  induction A generalizing st with
  | nil => simp [RunsGood]
  | cons a A ih => simp only [List.cons_append, RunsGood, List.foldl_cons, ih, and_assoc]

theorem solid_not_allEmpty (r : Region) (h : solid r = true) : isAllEmpty r = false := by
  cases r with
  | nil => simp [solid] at h
  | cons x xs =>
    simp only [solid, List.getD, List.getElem?_cons_zero, Option.getD_some] at h
    have h' := of_decide_eq_true h
    simp only [isAllEmpty, List.all_cons, Rng.isEmpty, Bool.and_eq_false_iff, decide_eq_false_iff_not]
    left; omega

theorem solid_merge (n : Nat) (hn : 0 < n) (p c : Region) (hp : p.length = n) (hc : c.length = n)
    (hadj : adjacent p c = true) (op : (p.getD 0 ⟨0, 0⟩).lo ≤ (p.getD 0 ⟨0, 0⟩).hi)
    (oc : (c.getD 0 ⟨0, 0⟩).lo ≤ (c.getD 0 ⟨0, 0⟩).hi) :
    solid (mergeRegion p c) = (solid p || solid c) := by
  have h0 := (adjacent_iff p c).mp hadj 0 (by omega) (by omega)
  unfold solid
  rw [mergeRegion_at p c 0 (by omega) (by omega)]
  rw [Bool.eq_iff_iff]
  simp only [decide_eq_true_eq, Bool.or_eq_true]
  omega

theorem compactGo_solid (n : Nat) (hn : 0 < n) (rest : List Region) (prev : Region) (isFirst : Bool)
    (hp : prev.length = n) (hr : ∀ r ∈ rest, r.length = n)
    (op : (prev.getD 0 ⟨0, 0⟩).lo ≤ (prev.getD 0 ⟨0, 0⟩).hi)
    (or : ∀ r ∈ rest, (r.getD 0 ⟨0, 0⟩).lo ≤ (r.getD 0 ⟨0, 0⟩).hi)
    (hg : RunsGood (isFirst || solid prev, prev) rest) :
    ∃ h tl, compactGo (some prev) rest = h :: tl ∧ (∀ r ∈ tl.dropLast, solid r = true) ∧
      (tl ≠ [] → isFirst = true ∨ solid h = true) := by
  induction rest generalizing prev isFirst with
  | nil => exact ⟨prev, [], by simp [compactGo], by simp, by simp⟩
  | cons cur rest ih =>
    have hc : cur.length = n := hr cur (by simp)
    have hr' : ∀ r ∈ rest, r.length = n := fun r h => hr r (by simp [h])
    have oc := or cur (by simp)
    have or' : ∀ r ∈ rest, (r.getD 0 ⟨0, 0⟩).lo ≤ (r.getD 0 ⟨0, 0⟩).hi := fun r h => or r (by simp [h])
    simp only [RunsGood, runStep] at hg
    obtain ⟨hclose, hrest⟩ := hg
    rw [compactGo]
    by_cases hadj : adjacent prev cur = true
    · rw [if_pos hadj] at hrest ⊢
      have hsm := solid_merge n hn prev cur hp hc hadj op oc
      have h0 := (adjacent_iff prev cur).mp hadj 0 (by omega) (by omega)
      apply ih (mergeRegion prev cur) isFirst (length_mergeRegion _ _ _ hp hc) hr'
      · rw [mergeRegion_at prev cur 0 (by omega) (by omega)]; simp only; omega
      · exact or'
      · rw [hsm, ← Bool.or_assoc]; exact hrest
    · rw [if_neg hadj] at hrest ⊢
      have hgood : (isFirst || solid prev) = true := by
        rcases hclose with h | h
        · exact absurd h hadj
        · exact h
      obtain ⟨h', tl', e, h1, h2⟩ := ih cur false hc hr' oc or' (by simpa using hrest)
      refine ⟨prev, h' :: tl', by rw [e], ?_, ?_⟩
      · intro r hrm
        cases tl' with
        | nil => simp at hrm
        | cons t ts =>
          simp only [List.dropLast_cons_cons, List.mem_cons] at hrm
          rcases hrm with rfl | hrm
          · rcases h2 (by simp) with h | h
            · cases h
            · exact h
          · exact h1 r (by simpa using hrm)
      · intro _
        simpa using hgood

/-- all regions of `rest` except the last are solid ⇒ every closed run is good -/
theorem runsGood_of_solid (rest : List Region) (st : Bool × Region) (hst : st.1 = true)
    (h : ∀ r ∈ rest.dropLast, solid r = true) : RunsGood st rest := by
  induction rest generalizing st with
  | nil => trivial
  | cons cur rest ih =>
    refine ⟨Or.inr hst, ?_⟩
    cases rest with
    | nil => trivial
    | cons nxt rest' =>
      have hcur : solid cur = true := h cur (by simp)
      apply ih
      · unfold runStep; split <;> simp [hst, hcur]
      · intro r hrm; exact h r (by simp [hrm])

/-- every region other than the first and the last has a non-empty base range -/
def InteriorSolid (regions : List Region) : Prop := ∀ r ∈ regions.tail.dropLast, solid r = true

theorem interiorSolid_nonEmpty (regions : List Region) (h : InteriorSolid regions) :
    interiorNonEmptyb regions = true := by
  cases regions with
  | nil => rfl
  | cons first rest =>
    simp only [interiorNonEmptyb, List.all_eq_true, Bool.not_eq_eq_eq_not, Bool.not_true]
    intro r hr
    exact solid_not_allEmpty r (h r (by simpa using hr))

theorem compact_interiorSolid (inputs : List Bytes) (hn : 0 < inputs.length) (regions : List Region)
    (hw : RegionsWF inputs regions)
    (hg : ∀ first rest, regions = first :: rest → RunsGood (true, first) rest) :
    InteriorSolid (compact regions) := by
  cases regions with
  | nil => intro r hr; simp [compact, compactGo] at hr
  | cons first rest =>
    have hb := regionsWF_bounds inputs _ hw
    obtain ⟨h, tl, e, h1, _⟩ := compactGo_solid inputs.length hn rest first true (hw.arity _ (by simp))
      (fun r hr => hw.arity r (by simp [hr])) (hb first (by simp) 0 hn).1
      (fun r hr => (hb r (by simp [hr]) 0 hn).1) (by simpa using hg first rest rfl)
    simp only [compact, compactGo, e]
    intro r hr
    exact h1 r (by simpa using hr)

theorem rawRegions_shape (c : Compare) (base first : Source) (tail : List Source) :
    ∃ ps, ColsOK base (first :: tail) ps ∧
      rawRegions c base (first :: tail) = startRegion (first :: tail) ::
        (ps.map (fun p => fromWordPositions base (first :: tail) p.1 p.2) ++ [stopRegion base (first :: tail)]) := by
  have hwin := win_cols _ _ _ (unchangedWords_ok (base.words c) (first.words c))
  rw [length_words, length_words] at hwin
  have hinit : ColsOK base [first]
      ((unchangedWords (base.words c) (first.words c)).map fun p => (p.1, [p.2])) := by
    refine ⟨by intro p hp; simp only [List.mem_map] at hp; obtain ⟨q, _, rfl⟩ := hp; rfl,
      by simpa [List.map_map, Function.comp_def] using hwin.1, ?_⟩
    intro j hj
    have : j = 0 := by simpa using hj
    subst this
    simpa [List.map_map, Function.comp_def] using hwin.2
  rw [rawRegions]
  dsimp only
  by_cases ht : tail.isEmpty = true
  · have htail : tail = [] := by simpa using ht
    subst htail
    exact ⟨_, hinit, by simp [List.map_map, Function.comp_def, startRegion, stopRegion]⟩
  · simp only [ht]
    have hcols := fold_cols c base tail [first] _ hinit
    exact ⟨_, by simpa using hcols, by simp [startRegion, stopRegion]⟩

theorem forTokenizer_interiorSolid (inputs : List Bytes) (tok : Tokenizer) (c : Compare) (d : ContentDiff)
    (h : forTokenizer inputs tok c = some d) : InteriorSolid d.regions := by
  obtain ⟨htext, htok⟩ := tokenize_ok tok inputs
  unfold forTokenizer at h
  cases hs : tokenize tok inputs with
  | nil => rw [hs] at h; cases h
  | cons base others =>
    rw [hs] at h htext htok
    simp only [Option.some.injEq] at h
    subst h
    have hwf := rawRegions_wf c base others (htok base (by simp)) (fun o ho => htok o (by simp [ho]))
    cases others with
    | nil =>
      intro r hr
      simp [rawRegions, compact, compactGo] at hr
    | cons first tail =>
      apply compact_interiorSolid _ (by simp) _ hwf
      intro f rest hreg
      obtain ⟨ps, hcols, hshape⟩ := rawRegions_shape c base first tail
      rw [hshape] at hreg
      simp only [List.cons.injEq] at hreg
      obtain ⟨rfl, rfl⟩ := hreg
      apply runsGood_of_solid _ _ rfl
      intro r hr
      simp only [List.dropLast_concat, List.mem_map] at hr
      obtain ⟨p, hp, rfl⟩ := hr
      have hlt : p.1 < base.ranges.length := hcols.base.2 p.1 (List.mem_map_of_mem (f := (·.1)) hp)
      have hmem : base.ranges[p.1] ∈ base.ranges := List.getElem_mem hlt
      have := (htok base (by simp)).each _ hmem
      simp only [solid, fromWordPositions, List.getD, List.getElem?_cons_zero, Option.getD_some,
        Source.rangeAt, List.getElem?_eq_getElem hlt, decide_eq_true_eq]
      exact this.1

/-! ### refinement keeps interior regions solid -/

theorem adjacent_congr_left (p p' c : Region) (h : p.map (·.hi) = p'.map (·.hi)) :
    adjacent p c = adjacent p' c := by
  have e : ∀ p : Region, adjacent p c =
      (List.zipWith (fun (h : Nat) (b : Rng) => decide (h = b.lo)) (p.map (·.hi)) c).all id := by
    intro p
    simp [adjacent, List.zipWith_map_left]
  rw [e p, e p', h]

theorem mergeRegion_his (p c : Region) : (mergeRegion p c).map (·.hi) = (c.map (·.hi)).take p.length := by
  unfold mergeRegion
  induction p generalizing c with
  | nil => simp
  | cons x xs ih =>
    cases c with
    | nil => simp
    | cons y ys => simp [ih ys]

theorem runStep_his (st st' : Bool × Region) (cur : Region) (h : st.2.map (·.hi) = st'.2.map (·.hi))
    (hf : st.1 = st'.1) :
    (runStep st cur).1 = (runStep st' cur).1 ∧ (runStep st cur).2.map (·.hi) = (runStep st' cur).2.map (·.hi) := by
  have hl : st.2.length = st'.2.length := by simpa using congrArg List.length h
  unfold runStep
  rw [adjacent_congr_left st.2 st'.2 cur h]
  split
  · exact ⟨by rw [hf], by rw [mergeRegion_his, mergeRegion_his, hl]⟩
  · exact ⟨rfl, rfl⟩

theorem runsGood_congr (st st' : Bool × Region) (rest : List Region) (h : st.2.map (·.hi) = st'.2.map (·.hi))
    (hf : st.1 = st'.1) : RunsGood st rest → RunsGood st' rest := by
  induction rest generalizing st st' with
  | nil => intro _; trivial
  | cons cur rest ih =>
    intro hg
    obtain ⟨h1, h2⟩ := hg
    obtain ⟨e1, e2⟩ := runStep_his st st' cur h hf
    refine ⟨?_, ih _ _ e2 e1 h2⟩
    rw [← adjacent_congr_left st.2 st'.2 cur h, ← hf]; exact h1

theorem runStep_length (n : Nat) (st : Bool × Region) (cur : Region) (hs : st.2.length = n) (hc : cur.length = n) :
    (runStep st cur).2.length = n ∧ (runStep st cur).2.map (·.hi) = cur.map (·.hi) := by
  unfold runStep
  split
  · exact ⟨length_mergeRegion _ _ _ hs hc, by
      rw [mergeRegion_his, hs, ← hc]
      exact List.take_of_length_le (by simp)⟩
  · exact ⟨hc, rfl⟩

theorem foldl_runStep_his (n : Nat) (A : List Region) (st : Bool × Region) (hs : st.2.length = n)
    (hA : ∀ a ∈ A, a.length = n) (last : Region) (hl : A.getLast? = some last) :
    (A.foldl runStep st).2.length = n ∧ (A.foldl runStep st).2.map (·.hi) = last.map (·.hi) := by
  induction A generalizing st with
  | nil => simp at hl
  | cons a A ih =>
    have ha := hA a (by simp)
    obtain ⟨l1, l2⟩ := runStep_length n st a hs ha
    simp only [List.foldl_cons]
    cases A with
    | nil =>
      simp at hl; subst hl
      exact ⟨l1, l2⟩
    | cons b B =>
      exact ih _ l1 (fun x hx => hA x (by simp [hx])) (by simpa [List.getLast?_cons_cons] using hl)

theorem chainOK_getLast (len : Nat) (l : List Rng) (pos : Nat) (h : chainOK len pos l = true) (last : Rng)
    (hl : l.getLast? = some last) : last.hi = len := by
  induction l generalizing pos with
  | nil => simp at hl
  | cons r rest ih =>
    simp only [chainOK, Bool.and_eq_true, decide_eq_true_eq] at h
    cases rest with
    | nil =>
      simp at hl; subst hl
      simp [chainOK] at h; exact h.2
    | cons b B => exact ih _ h.2 (by simpa [List.getLast?_cons_cons] using hl)

theorem adjacent_of_pointwise (n : Nat) (p c : Region) (hp : p.length = n) (hc : c.length = n)
    (h : ∀ i, i < n → (p.getD i ⟨0, 0⟩).hi = (c.getD i ⟨0, 0⟩).lo) : adjacent p c = true := by
  rw [adjacent_iff]; intro i h1 _; exact h i (by omega)

theorem his_pointwise (n : Nat) (p q : Region) (hp : p.length = n) (hq : q.length = n)
    (h : p.map (·.hi) = q.map (·.hi)) (i : Nat) (hi : i < n) : (p.getD i ⟨0, 0⟩).hi = (q.getD i ⟨0, 0⟩).hi := by
  have := congrArg (fun l => l[i]?) h
  simp only [List.getElem?_map, List.getElem?_eq_getElem (show i < p.length by omega),
    List.getElem?_eq_getElem (show i < q.length by omega), Option.map_some, Option.some.injEq] at this
  simp only [List.getD, List.getElem?_eq_getElem (show i < p.length by omega),
    List.getElem?_eq_getElem (show i < q.length by omega), Option.getD_some]
  exact this

theorem solid_shift (prev r : Region) (hr : 0 < r.length) (hp : 0 < prev.length) :
    solid (shiftRegion prev r) = solid r := by
  unfold solid
  rw [shiftRegion_at prev r 0 hr hp]
  rw [Bool.eq_iff_iff]
  simp only [decide_eq_true_eq]
  omega

theorem segment_ok (n : Nat) (s1 : Region) (S' : List Region) (st : Bool × Region)
    (hlen : ∀ s ∈ s1 :: S', s.length = n) (hst1 : st.1 = true) (hstl : st.2.length = n)
    (hadj : adjacent st.2 s1 = true) (hsol : ∀ s ∈ S'.dropLast, solid s = true)
    (last : Region) (hl : (s1 :: S').getLast? = some last) :
    RunsGood st (s1 :: S') ∧ ((s1 :: S').foldl runStep st).2.length = n ∧
      ((s1 :: S').foldl runStep st).2.map (·.hi) = last.map (·.hi) := by
  have hs1 := hlen s1 (by simp)
  obtain ⟨l1, l2⟩ := runStep_length n st s1 hstl hs1
  have hflag : (runStep st s1).1 = true := by
    unfold runStep; rw [if_pos hadj]; simp [hst1]
  refine ⟨⟨Or.inl hadj, runsGood_of_solid S' _ hflag hsol⟩, ?_⟩
  simp only [List.foldl_cons]
  cases S' with
  | nil => simp at hl; subst hl; exact ⟨l1, l2⟩
  | cons b B =>
    exact foldl_runStep_his n (b :: B) _ l1 (fun x hx => hlen x (by simp [hx])) last
      (by simpa [List.getLast?_cons_cons] using hl)

theorem refineGo_runsGood (inputs : List Bytes) (hn : 0 < inputs.length) (tok : Tokenizer) (c : Compare)
    (rest : List Region) (prev : Region)
    (hp : prev.length = inputs.length) (hr : ∀ r ∈ rest, r.length = inputs.length)
    (hch : ∀ i, i < inputs.length →
      chainOK (inputs.getD i []).length (prev.getD i ⟨0, 0⟩).hi (side i rest) = true)
    (hsol : ∀ r ∈ rest.dropLast, solid r = true)
    (st : Bool × Region) (hst1 : st.1 = true) (hst2 : st.2.map (·.hi) = prev.map (·.hi)) :
    RunsGood st (refineGo inputs tok c prev rest) := by
  induction rest generalizing prev st with
  | nil => simp [refineGo, RunsGood]
  | cons cur rest ih =>
    have hstl : st.2.length = inputs.length := by
      have := congrArg List.length hst2; simpa [hp] using this
    have hc : cur.length = inputs.length := hr cur (by simp)
    have hr' : ∀ r ∈ rest, r.length = inputs.length := fun r h => hr r (by simp [h])
    have hch' : ∀ i, i < inputs.length →
        (prev.getD i ⟨0, 0⟩).hi ≤ (cur.getD i ⟨0, 0⟩).lo ∧ (cur.getD i ⟨0, 0⟩).lo ≤ (cur.getD i ⟨0, 0⟩).hi ∧
        chainOK (inputs.getD i []).length (cur.getD i ⟨0, 0⟩).hi (side i rest) = true := by
      intro i hi
      have := hch i hi
      simp only [side_cons, chainOK, Bool.and_eq_true, decide_eq_true_eq] at this
      exact ⟨this.1.1, this.1.2, this.2⟩
    rw [refineGo]
    have hbl : (between prev cur).length = inputs.length := length_between _ _ _ hp hc
    have hcl : (List.zipWith slice inputs (between prev cur)).length = inputs.length := by
      simp [List.length_zipWith, hbl]
    have hne : List.zipWith slice inputs (between prev cur) ≠ [] := by
      intro h; rw [h] at hcl; simp at hcl; omega
    obtain ⟨d, hd⟩ := forTokenizer_isSome _ tok c hne
    rw [hd]
    simp only
    obtain ⟨_, hwf⟩ := forTokenizer_wf _ tok c d hd
    have hint := forTokenizer_interiorSolid _ tok c d hd
    have hdar : ∀ r ∈ d.regions, r.length = inputs.length := fun r h => by rw [hwf.arity r h, hcl]
    -- contents of side `i`
    have hclen : ∀ i, i < inputs.length →
        ((List.zipWith slice inputs (between prev cur)).getD i []).length =
          (cur.getD i ⟨0, 0⟩).lo - (prev.getD i ⟨0, 0⟩).hi := by
      intro i hi
      obtain ⟨h1, h2, h3⟩ := hch' i hi
      have hle' : (cur.getD i ⟨0, 0⟩).hi ≤ (inputs.getD i []).length := chainOK_le _ _ _ h3
      rw [getD_zipWith slice inputs (between prev cur) i [] ⟨0, 0⟩ [] hi (by rw [hbl]; exact hi),
        between_at prev cur i (by rw [hp]; exact hi) (by rw [hc]; exact hi),
        length_slice_le _ _ _ h1 (by omega)]
    -- shape of the sub-diff's regions
    cases hregs : d.regions with
    | nil =>
      have := hwf.sides 0 (by rw [hcl]; exact hn)
      rw [hregs] at this; simp [side, sideOK] at this
    | cons r1 R' =>
      rw [hregs] at hwf hint hdar
      obtain ⟨rl, hrl⟩ : ∃ rl, (r1 :: R').getLast? = some rl := by
        cases h : (r1 :: R').getLast? with
        | none => simp at h
        | some x => exact ⟨x, rfl⟩
      -- first sub-region starts at 0, last ends at the content length, on every side
      have hfirst : ∀ i, i < inputs.length → (r1.getD i ⟨0, 0⟩).lo = 0 := by
        intro i hi
        have := hwf.sides i (by rw [hcl]; exact hi)
        simp only [side_cons, sideOK, Bool.and_eq_true, decide_eq_true_eq] at this
        exact this.1.1
      have hlast : ∀ i, i < inputs.length →
          (rl.getD i ⟨0, 0⟩).hi = (cur.getD i ⟨0, 0⟩).lo - (prev.getD i ⟨0, 0⟩).hi := by
        intro i hi
        have hs := (sideOK_iff _ _).mp (hwf.sides i (by rw [hcl]; exact hi))
        have := chainOK_getLast _ _ _ hs.2 (rl.getD i ⟨0, 0⟩)
          (by simp only [side]; rw [List.getLast?_map, hrl]; rfl)
        rw [this, hclen i hi]
      simp only [List.map_cons, List.cons_append]
      -- run over the shifted sub-regions
      have hseg := segment_ok inputs.length (shiftRegion prev r1) (R'.map (shiftRegion prev)) st
        (by
          intro s hs
          simp only [List.mem_cons, List.mem_map] at hs
          rcases hs with rfl | ⟨r, hrm, rfl⟩
          · simp [shiftRegion, List.length_zipWith, hdar r1 (by simp), hp]
          · simp [shiftRegion, List.length_zipWith, hdar r (by simp [hrm]), hp])
        hst1 hstl
        (by
          rw [adjacent_congr_left st.2 prev _ hst2]
          apply adjacent_of_pointwise inputs.length _ _ hp
            (by simp [shiftRegion, List.length_zipWith, hdar r1 (by simp), hp])
          intro i hi
          rw [shiftRegion_at prev r1 i (by rw [hdar r1 (by simp)]; exact hi) (by rw [hp]; exact hi), hfirst i hi]
          simp)
        (by
          intro s hs
          rw [← List.map_dropLast, List.mem_map] at hs
          obtain ⟨r, hrm, rfl⟩ := hs
          have hrmem : r ∈ R' := List.dropLast_subset _ hrm
          rw [solid_shift prev r (by rw [hdar r (by simp [hrmem])]; exact hn) (by rw [hp]; exact hn)]
          exact hint r (by simpa using hrm))
        (shiftRegion prev rl)
        (by
          have : (shiftRegion prev r1 :: R'.map (shiftRegion prev)) = (r1 :: R').map (shiftRegion prev) := by simp
          rw [this, List.getLast?_map, hrl]; rfl)
      obtain ⟨hg1, hl1, hh1⟩ := hseg
      have happ := (runsGood_append st (shiftRegion prev r1 :: R'.map (shiftRegion prev))
        (cur :: refineGo inputs tok c cur rest)).mpr
      simp only [List.cons_append] at happ
      apply happ
      refine ⟨hg1, ?_⟩
      generalize (shiftRegion prev r1 :: R'.map (shiftRegion prev)).foldl runStep st = st2 at hl1 hh1
      have hrlmem : rl ∈ r1 :: R' := List.mem_of_getLast? hrl
      have hrllen : (shiftRegion prev rl).length = inputs.length := by
        simp [shiftRegion, List.length_zipWith, hdar rl hrlmem, hp]
      have hadj2 : adjacent st2.2 cur = true := by
        apply adjacent_of_pointwise inputs.length _ _ hl1 hc
        intro i hi
        obtain ⟨h1, _, _⟩ := hch' i hi
        rw [his_pointwise inputs.length st2.2 (shiftRegion prev rl) hl1 hrllen hh1 i hi,
          shiftRegion_at prev rl i (by rw [hdar rl hrlmem]; exact hi) (by rw [hp]; exact hi), hlast i hi]
        simp only; omega
      refine ⟨Or.inl hadj2, ?_⟩
      obtain ⟨l3, h3⟩ := runStep_length inputs.length st2 cur hl1 hc
      cases rest with
      | nil => simp [refineGo, RunsGood]
      | cons nxt rest' =>
        have hcs : solid cur = true := hsol cur (by simp)
        apply ih cur hc hr' (fun i hi => (hch' i hi).2.2) (fun r hrm => hsol r (by simp [hrm]))
        · unfold runStep; rw [if_pos hadj2]; simp [hcs]
        · exact h3

theorem refine_interiorSolid (d : ContentDiff) (tok : Tokenizer) (c : Compare) (hn : 0 < d.inputs.length)
    (h : RegionsWF d.inputs d.regions) (hs : InteriorSolid d.regions) :
    InteriorSolid (d.refine tok c).regions := by
  unfold ContentDiff.refine
  cases hreg : d.regions with
  | nil => simp only; rw [hreg] at hs; rw [hreg]; exact hs
  | cons first rest =>
    simp only
    have hwf := refineList_wf d tok c first rest hreg h
    rw [hreg] at h hs
    apply compact_interiorSolid d.inputs hn _ hwf
    intro f r hfr
    simp only [List.cons.injEq] at hfr
    obtain ⟨rfl, rfl⟩ := hfr
    have hside : ∀ i, i < d.inputs.length →
        chainOK (d.inputs.getD i []).length (first.getD i ⟨0, 0⟩).hi (side i rest) = true := by
      intro i hi
      have := h.sides i hi
      simp only [side_cons, sideOK, Bool.and_eq_true, decide_eq_true_eq] at this
      exact this.2
    exact refineGo_runsGood d.inputs hn tok c rest first (h.arity first (by simp))
      (fun r hr => h.arity r (by simp [hr])) hside (fun r hr => hs r (by simpa using hr)) (true, first) rfl rfl

theorem build_interiorSolid (inputs : List Bytes) (steps : List (Tokenizer × Compare)) (d : ContentDiff)
    (h : build inputs steps = some d) : InteriorSolid d.regions := by
  cases steps with
  | nil => simp [build] at h
  | cons s steps =>
    obtain ⟨t, c⟩ := s
    simp only [build, Option.map_eq_some_iff] at h
    obtain ⟨d0, hd0, rfl⟩ := h
    obtain ⟨e0, w0⟩ := forTokenizer_wf inputs t c d0 hd0
    have s0 := forTokenizer_interiorSolid inputs t c d0 hd0
    have hn : 0 < inputs.length := by
      cases inputs with
      | nil => simp [forTokenizer, tokenize] at hd0
      | cons _ _ => simp
    clear hd0
    induction steps generalizing d0 with
    | nil => exact s0
    | cons s steps ih =>
      simp only [List.foldl_cons]
      have hw := refine_wf d0 s.1 s.2 (by rw [e0]; exact w0)
      rw [e0] at hw
      exact ih _ hw.1 hw.2 (refine_interiorSolid d0 s.1 s.2 (by rw [e0]; exact hn) (by rw [e0]; exact w0) s0)

end JjModel.Diff
