import JjModel.Model.Path
/-!
  String-level lemmas for the Unix path model: `splitSlash` / `joinSlash` are inverse on
  slash-free pieces, `components` of pushed / joined names, `render`.
-/
namespace JjModel.Path

/-- a non-empty piece without separator -/
def SlashFree (n : Str) : Prop := n ≠ [] ∧ '/' ∉ n

/-- a plain file name: non-empty, no separator, not `.` / `..` -/
def FsName (n : Str) : Prop := n ≠ [] ∧ '/' ∉ n ∧ n ≠ dot ∧ n ≠ dotdot

theorem FsName.slashFree {n : Str} (h : FsName n) : SlashFree n := ⟨h.1, h.2.1⟩

theorem head?_append_ne_nil {α : Type} (a b : List α) (h : a ≠ []) : (a ++ b).head? = a.head? := by
  cases a with
  | nil => exact absurd rfl h
  | cons x a => rfl

theorem getLast?_append_ne_nil {α : Type} (a b : List α) (h : b ≠ []) :
    (a ++ b).getLast? = b.getLast? := by
  rw [List.getLast?_append]
  cases hb : b.getLast? with
  | none => exact absurd (List.getLast?_eq_none_iff.mp hb) h
  | some x => rfl

/-! ### splitSlash / joinSlash -/

theorem splitSlash_exists (s : Str) : ∃ h t, splitSlash s = h :: t := by
  cases s with
  | nil => exact ⟨[], [], rfl⟩
  | cons c cs =>
    simp only [splitSlash]
    split
    · exact ⟨_, _, rfl⟩
    · split
      · exact ⟨_, _, rfl⟩
      · exact ⟨_, _, rfl⟩

theorem splitSlash_ne_nil (s : Str) : splitSlash s ≠ [] := by
  obtain ⟨h, t, e⟩ := splitSlash_exists s
  simp [e]

theorem splitSlash_slash (cs : Str) : splitSlash ('/' :: cs) = [] :: splitSlash cs := by
  simp [splitSlash]

theorem splitSlash_cons {c : Char} (hc : c ≠ '/') {cs h : Str} {t : List Str}
    (e : splitSlash cs = h :: t) : splitSlash (c :: cs) = (c :: h) :: t := by
  simp [splitSlash, hc, e]

theorem splitSlash_noSlash (s : Str) : ∀ part ∈ splitSlash s, '/' ∉ part := by
  induction s with
  | nil => intro part hp; simp [splitSlash] at hp; simp [hp]
  | cons c cs ih =>
    intro part hp
    by_cases hc : c = '/'
    · subst hc
      rw [splitSlash_slash] at hp
      rcases List.mem_cons.mp hp with rfl | hp
      · simp
      · exact ih part hp
    · obtain ⟨h, t, e⟩ := splitSlash_exists cs
      rw [splitSlash_cons hc e] at hp
      rcases List.mem_cons.mp hp with rfl | hp
      · have := ih h (by simp [e])
        simp only [List.mem_cons, not_or]
        exact ⟨fun x => hc x.symm, this⟩
      · exact ih part (by simp [e, hp])

theorem splitSlash_of_noSlash (a : Str) (h : '/' ∉ a) : splitSlash a = [a] := by
  induction a with
  | nil => rfl
  | cons c a ih =>
    have hc : c ≠ '/' := fun e => h (by simp [e])
    have ha : '/' ∉ a := fun e => h (by simp [e])
    exact splitSlash_cons hc (ih ha)

theorem splitSlash_append (a b : Str) :
    splitSlash (a ++ '/' :: b) = splitSlash a ++ splitSlash b := by
  induction a with
  | nil => simp [splitSlash]
  | cons c a ih =>
    by_cases hc : c = '/'
    · subst hc
      simp [splitSlash_slash, ih]
    · obtain ⟨h, t, e⟩ := splitSlash_exists a
      have e2 : splitSlash (a ++ '/' :: b) = h :: (t ++ splitSlash b) := by rw [ih, e]; rfl
      rw [List.cons_append, splitSlash_cons hc e2, splitSlash_cons hc e]; rfl

theorem joinSlash_cons_cons (s u : Str) (t : List Str) :
    joinSlash (s :: u :: t) = s ++ '/' :: joinSlash (u :: t) := rfl

theorem joinSlash_cons (s : Str) (t : List Str) (ht : t ≠ []) :
    joinSlash (s :: t) = s ++ '/' :: joinSlash t := by
  cases t with
  | nil => exact absurd rfl ht
  | cons u t => rfl

theorem joinSlash_splitSlash (s : Str) : joinSlash (splitSlash s) = s := by
  induction s with
  | nil => rfl
  | cons c cs ih =>
    by_cases hc : c = '/'
    · subst hc
      rw [splitSlash_slash, joinSlash_cons _ _ (splitSlash_ne_nil cs), ih]; rfl
    · obtain ⟨h, t, e⟩ := splitSlash_exists cs
      rw [splitSlash_cons hc e]
      rw [e] at ih
      cases t with
      | nil => simp only [joinSlash] at ih ⊢; rw [ih]
      | cons u t =>
        rw [joinSlash_cons_cons] at ih ⊢
        rw [← ih]; rfl

theorem splitSlash_joinSlash (names : List Str) (hne : names ≠ [])
    (h : ∀ n ∈ names, '/' ∉ n) : splitSlash (joinSlash names) = names := by
  induction names with
  | nil => exact absurd rfl hne
  | cons n rest ih =>
    cases rest with
    | nil => exact splitSlash_of_noSlash n (h n (by simp))
    | cons m rest =>
      rw [joinSlash_cons_cons, splitSlash_append, splitSlash_of_noSlash n (h n (by simp)),
        ih (by simp) (fun x hx => h x (by simp [hx]))]
      rfl

/-! ### components -/

/-- the `RootDir` / leading `CurDir` part of `components` -/
def lead (p : Str) : List Comp :=
  if p.head? = some '/' then [.root]
  else if (splitSlash p).head? = some dot then [.cur]
  else []

theorem components_eq (p : Str) : components p = lead p ++ (splitSlash p).filterMap partToComp := rfl

theorem lead_congr (p q : Str) (h1 : p.head? = q.head?)
    (h2 : (splitSlash p).head? = (splitSlash q).head?) : lead p = lead q := by
  simp [lead, h1, h2]

theorem mem_lead (p : Str) (c : Comp) (h : c ∈ lead p) : c = .root ∨ c = .cur := by
  unfold lead at h
  split at h
  · simp at h; exact Or.inl h
  · split at h
    · simp at h; exact Or.inr h
    · simp at h

theorem partToComp_some (s : Str) (c : Comp) (h : partToComp s = some c) :
    s ≠ [] ∧ s ≠ dot ∧ ((s = dotdot ∧ c = .parent) ∨ (s ≠ dotdot ∧ c = .normal s)) := by
  unfold partToComp at h
  split at h
  · simp at h
  · rename_i h1
    simp only [not_or] at h1
    split at h
    · rename_i h2
      injection h with h
      exact ⟨h1.1, h1.2, Or.inl ⟨h2, h.symm⟩⟩
    · rename_i h2
      injection h with h
      exact ⟨h1.1, h1.2, Or.inr ⟨h2, h.symm⟩⟩

/-- every `Normal` component is a plain file name -/
theorem fsName_of_mem_components (p s : Str) (h : .normal s ∈ components p) : FsName s := by
  rw [components_eq, List.mem_append] at h
  rcases h with h | h
  · rcases mem_lead p _ h with h | h <;> simp at h
  · obtain ⟨part, hp, hc⟩ := List.mem_filterMap.mp h
    obtain ⟨h1, h2, h3⟩ := partToComp_some part _ hc
    rcases h3 with ⟨_, h3⟩ | ⟨h3, h4⟩
    · simp at h3
    · injection h4 with h4
      subst h4
      exact ⟨h1, splitSlash_noSlash p _ hp, h2, h3⟩

/-- components other than the leading one are `ParentDir` or `Normal` -/
theorem mem_filterMap_partToComp (parts : List Str) (c : Comp)
    (h : c ∈ parts.filterMap partToComp) : c = .parent ∨ ∃ s, c = .normal s := by
  obtain ⟨part, _, hc⟩ := List.mem_filterMap.mp h
  obtain ⟨_, _, h3⟩ := partToComp_some part _ hc
  rcases h3 with ⟨_, h3⟩ | ⟨_, h3⟩
  · exact Or.inl h3
  · exact Or.inr ⟨_, h3⟩

theorem partToComp_fsName {n : Str} (h : FsName n) : partToComp n = some (.normal n) := by
  simp [partToComp, h.1, h.2.2.1, h.2.2.2]

theorem partToComp_dotdot : partToComp dotdot = some .parent := by decide

theorem head?_ne_slash {n : Str} (h : '/' ∉ n) : n.head? ≠ some '/' := by
  cases n with
  | nil => simp
  | cons c n => simp only [List.head?_cons, ne_eq, Option.some.injEq]; intro e; exact h (by simp [e])

theorem getLast?_ne_slash {n : Str} (h : '/' ∉ n) : n.getLast? ≠ some '/' := by
  intro e
  obtain ⟨ys, rfl⟩ := List.getLast?_eq_some_iff.mp e
  exact h (by simp)

/-- components of slash-free pieces joined with `/` (none of them `.`) -/
theorem components_joinSlash (strs : List Str) (h : ∀ s ∈ strs, SlashFree s ∧ s ≠ dot) :
    components (joinSlash strs) = strs.filterMap partToComp := by
  cases strs with
  | nil => decide
  | cons n rest =>
    have hs : splitSlash (joinSlash (n :: rest)) = n :: rest :=
      splitSlash_joinSlash _ (by simp) (fun x hx => (h x hx).1.2)
    have hn := h n (by simp)
    have hhead : (joinSlash (n :: rest)).head? = n.head? := by
      obtain ⟨c, n', rfl⟩ := List.exists_cons_of_ne_nil hn.1.1
      cases rest <;> simp [joinSlash]
    have hlead : lead (joinSlash (n :: rest)) = [] := by
      unfold lead
      rw [hhead, hs]
      simp [head?_ne_slash hn.1.2, hn.2]
    rw [components_eq, hlead, hs]; rfl

theorem filterMap_fsName (names : List Str) (h : ∀ n ∈ names, FsName n) :
    names.filterMap partToComp = names.map .normal := by
  induction names with
  | nil => rfl
  | cons n rest ih =>
    rw [List.filterMap_cons, partToComp_fsName (h n (by simp)), ih (fun x hx => h x (by simp [hx]))]
    rfl

theorem components_names (names : List Str) (h : ∀ n ∈ names, FsName n) :
    components (joinSlash names) = names.map .normal := by
  rw [components_joinSlash names (fun s hs => ⟨(h s hs).slashFree, (h s hs).2.2.1⟩),
    filterMap_fsName names h]

/-! ### push -/

theorem push_nil (n : Str) : push [] n = n := by
  unfold push; split <;> simp

theorem push_slashFree (buf n : Str) (hb : buf ≠ []) (hl : buf.getLast? ≠ some '/')
    (hn : '/' ∉ n) : push buf n = buf ++ '/' :: n := by
  simp [push, head?_ne_slash hn, hb, hl]

theorem foldl_push (buf : Str) (names : List Str) (hb : buf ≠ []) (hl : buf.getLast? ≠ some '/')
    (h : ∀ n ∈ names, SlashFree n) : names.foldl push buf = joinSlash (buf :: names) := by
  induction names generalizing buf with
  | nil => rfl
  | cons n rest ih =>
    have hn := h n (by simp)
    rw [List.foldl_cons, push_slashFree buf n hb hl hn.2]
    have hl' : (buf ++ '/' :: n).getLast? ≠ some '/' := by
      obtain ⟨c, n', rfl⟩ := List.exists_cons_of_ne_nil hn.1
      have : buf ++ '/' :: c :: n' = (buf ++ ['/']) ++ c :: n' := by simp
      rw [this, getLast?_append_ne_nil _ _ (by simp)]
      exact getLast?_ne_slash hn.2
    rw [ih (buf ++ '/' :: n) (by simp) hl' (fun x hx => h x (by simp [hx]))]
    cases rest with
    | nil => rfl
    | cons m rest => simp [joinSlash_cons_cons]

theorem foldl_push_nil (names : List Str) (h : ∀ n ∈ names, SlashFree n) :
    names.foldl push [] = joinSlash names := by
  cases names with
  | nil => rfl
  | cons n rest =>
    have hn := h n (by simp)
    rw [List.foldl_cons, push_nil]
    exact foldl_push n rest hn.1 (getLast?_ne_slash hn.2) (fun x hx => h x (by simp [hx]))

theorem components_append_slash (b : Str) (hb : b ≠ []) : components (b ++ ['/']) = components b := by
  have hs : splitSlash (b ++ ['/']) = splitSlash b ++ [[]] := by
    rw [splitSlash_append]; rfl
  have hl : lead (b ++ ['/']) = lead b := by
    apply lead_congr
    · obtain ⟨c, b', rfl⟩ := List.exists_cons_of_ne_nil hb; rfl
    · rw [hs, head?_append_ne_nil _ _ (splitSlash_ne_nil b)]
  rw [components_eq, components_eq, hl, hs, List.filterMap_append]
  simp [partToComp]

theorem components_append_slash_append (b s : Str) :
    components (b ++ '/' :: s) = components (b ++ ['/']) ++ (splitSlash s).filterMap partToComp := by
  have hs1 : splitSlash (b ++ ['/']) = splitSlash b ++ [[]] := by
    rw [splitSlash_append]; rfl
  have hl : lead (b ++ '/' :: s) = lead (b ++ ['/']) := by
    apply lead_congr
    · cases b <;> rfl
    · rw [hs1, splitSlash_append, head?_append_ne_nil _ _ (splitSlash_ne_nil b),
        head?_append_ne_nil _ _ (splitSlash_ne_nil b)]
  rw [components_eq, components_eq, hl, hs1, splitSlash_append, List.filterMap_append,
    List.filterMap_append]
  simp [partToComp]

/-- components after pushing a relative path whose first piece is not `.` -/
theorem components_push (buf s : Str) (h1 : s.head? ≠ some '/')
    (h2 : (splitSlash s).head? ≠ some dot) :
    components (push buf s) = components buf ++ (splitSlash s).filterMap partToComp := by
  unfold push
  simp only [h1, if_false]
  by_cases hb : buf = []
  · subst hb
    have : lead s = [] := by simp [lead, h1, h2]
    simp only [true_or, if_true, List.nil_append]
    rw [components_eq s, this]
    have : components [] = [] := by decide
    rw [this]
  · by_cases hl : buf.getLast? = some '/'
    · obtain ⟨b', rfl⟩ := List.getLast?_eq_some_iff.mp hl
      simp only [hl, or_true, if_true]
      have : b' ++ ['/'] ++ s = b' ++ '/' :: s := by simp
      rw [this, components_append_slash_append]
    · simp only [hb, hl, or_self, if_false]
      rw [components_append_slash_append, components_append_slash buf hb]

theorem components_push_name (buf n : Str) (h : FsName n) :
    components (push buf n) = components buf ++ [.normal n] := by
  rw [components_push buf n (head?_ne_slash h.2.1)
    (by rw [splitSlash_of_noSlash n h.2.1]; simp [h.2.2.1]),
    splitSlash_of_noSlash n h.2.1]
  simp [partToComp_fsName h]

/-! ### rendered component lists -/

/-- a component that is not `RootDir` / `CurDir`, with a well-formed name -/
def Plain (c : Comp) : Prop := c = .parent ∨ ∃ n, c = .normal n ∧ FsName n

theorem plain_str {c : Comp} (h : Plain c) :
    SlashFree c.str ∧ c.str ≠ dot ∧ partToComp c.str = some c := by
  rcases h with rfl | ⟨n, rfl, hn⟩
  · exact ⟨⟨by decide, by decide⟩, by decide, by decide⟩
  · exact ⟨hn.slashFree, hn.2.2.1, partToComp_fsName hn⟩

theorem plain_of_mem_filterMap (p : Str) (c : Comp)
    (h : c ∈ (splitSlash p).filterMap partToComp) : Plain c := by
  obtain ⟨part, hp, hc⟩ := List.mem_filterMap.mp h
  obtain ⟨h1, h2, h3⟩ := partToComp_some part _ hc
  rcases h3 with ⟨_, h3⟩ | ⟨h3, h4⟩
  · exact Or.inl h3
  · exact Or.inr ⟨part, h4, h1, splitSlash_noSlash p _ hp, h2, h3⟩

theorem render_eq (cs : List Comp) : render cs = (cs.map Comp.str).foldl push [] := by
  unfold render; rw [List.foldl_map]

theorem render_plain (cs : List Comp) (h : ∀ c ∈ cs, Plain c) :
    render cs = joinSlash (cs.map Comp.str) := by
  rw [render_eq, foldl_push_nil]
  intro n hn
  obtain ⟨c, hc, rfl⟩ := List.mem_map.mp hn
  exact (plain_str (h c hc)).1

theorem filterMap_map_str (cs : List Comp) (h : ∀ c ∈ cs, Plain c) :
    (cs.map Comp.str).filterMap partToComp = cs := by
  induction cs with
  | nil => rfl
  | cons c rest ih =>
    rw [List.map_cons, List.filterMap_cons, (plain_str (h c (by simp))).2.2,
      ih (fun x hx => h x (by simp [hx]))]

theorem components_render_plain (cs : List Comp) (h : ∀ c ∈ cs, Plain c) :
    components (render cs) = cs := by
  rw [render_plain cs h, components_joinSlash, filterMap_map_str cs h]
  intro s hs
  obtain ⟨c, hc, rfl⟩ := List.mem_map.mp hs
  exact ⟨(plain_str (h c hc)).1, (plain_str (h c hc)).2.1⟩

theorem render_plain_ne_nil (cs : List Comp) (hne : cs ≠ []) (h : ∀ c ∈ cs, Plain c) :
    render cs ≠ [] := by
  intro e
  have := components_render_plain cs h
  rw [e] at this
  have h0 : components [] = [] := by decide
  rw [h0] at this
  exact hne this.symm

theorem stripMax_spec (a b fs ts : List Comp) (h : stripMax a b = (fs, ts)) :
    ∃ pre, a = pre ++ fs ∧ b = pre ++ ts := by
  induction a generalizing b with
  | nil =>
    simp only [stripMax] at h
    injection h with h1 h2
    exact ⟨[], by simp [h1], by simp [h2]⟩
  | cons c1 r1 ih =>
    cases b with
    | nil =>
      simp only [stripMax] at h
      injection h with h1 h2
      exact ⟨[], by simp [h1], by simp [h2]⟩
    | cons c2 r2 =>
      simp only [stripMax] at h
      split at h
      · rename_i heq
        subst heq
        obtain ⟨pre, h1, h2⟩ := ih r2 h
        exact ⟨c1 :: pre, by simp [h1], by simp [h2]⟩
      · injection h with h1 h2
        exact ⟨[], by simp [h1], by simp [h2]⟩

/-! ### absolute paths stay absolute -/

theorem components_abs (p : Str) (h : p.head? = some '/') :
    components p = .root :: (splitSlash p).filterMap partToComp := by
  rw [components_eq]; simp [lead, h]

theorem push_head (buf x : Str) (h : buf.head? = some '/') : (push buf x).head? = some '/' := by
  have hb : buf ≠ [] := by intro e; simp [e] at h
  unfold push
  split
  · assumption
  · split
    · rw [head?_append_ne_nil _ _ hb]; exact h
    · rw [head?_append_ne_nil _ _ hb]; exact h

theorem foldl_push_head (xs : List Str) (buf : Str) (h : buf.head? = some '/') :
    (xs.foldl push buf).head? = some '/' := by
  induction xs generalizing buf with
  | nil => exact h
  | cons x xs ih => exact ih _ (push_head buf x h)

theorem getLast?_cons_ne_nil {α : Type} (x : α) (l : List α) (h : l ≠ []) :
    (x :: l).getLast? = l.getLast? := by
  cases l with
  | nil => exact absurd rfl h
  | cons y l => simp

theorem normStep_last (acc : List Comp) (c : Comp) (h : acc.getLast? = some .root) :
    (normStep acc c).getLast? = some .root := by
  have hne : acc ≠ [] := by intro e; simp [e] at h
  cases c with
  | cur => exact h
  | root => rfl
  | normal s => simp only [normStep]; rw [getLast?_cons_ne_nil _ _ hne]; exact h
  | parent =>
    simp only [normStep]
    split
    · rename_i n rest
      have hr : rest ≠ [] := by intro e; subst e; simp at h
      rw [getLast?_cons_ne_nil _ _ hr] at h
      exact h
    · rw [getLast?_cons_ne_nil _ _ hne]; exact h

theorem foldl_normStep_last (cs acc : List Comp) (h : acc.getLast? = some .root) :
    (cs.foldl normStep acc).getLast? = some .root := by
  induction cs generalizing acc with
  | nil => exact h
  | cons c cs ih => exact ih _ (normStep_last acc c h)

theorem normalizePath_abs (s : Str) (h : s.head? = some '/') :
    (normalizePath s).head? = some '/' := by
  unfold normalizePath normalizeComps
  rw [components_abs s h, List.foldl_cons]
  have h1 : normStep [] Comp.root = [Comp.root] := rfl
  rw [h1]
  have hl := foldl_normStep_last ((splitSlash s).filterMap partToComp) [Comp.root] rfl
  rw [← List.head?_reverse] at hl
  generalize (List.foldl normStep [Comp.root] _).reverse = l at hl
  cases l with
  | nil => simp at hl
  | cons c l' =>
    simp at hl; subst hl
    have hr : (render (Comp.root :: l')).head? = some '/' := by
      rw [render_eq, List.map_cons, List.foldl_cons]
      exact foldl_push_head _ _ (by rfl)
    have hne : render (Comp.root :: l') ≠ [] := by intro e; simp [e] at hr
    simp only [hne, if_false]
    exact hr

end JjModel.Path
