import JjModel.Lemmas.RepoHeads
/-! `update_wc_commits` for a single workspace. -/
set_option linter.unusedSimpArgs false
namespace JjModel.Repo

theorem edit_wc {r r' : Repo} {ws c : Nat} (h : r.edit ws c = some r') :
    assocGet r'.view.wc ws = some c := by
  unfold Repo.edit at h
  simp only at h
  by_cases hc : c = 0
  · simp [hc] at h
  · simp only [hc, if_false, Option.some.injEq] at h
    rw [← h]
    exact lookup_assocSet_self _ _ _

/-- **`wc_follows`** (one workspace).  If the working-copy commit `c` of the only workspace is a key
    of the resolved mapping with replacements `news`, then after `update_wc_commits` the workspace
    points at the first replacement when `c` was rewritten, and at a *new* commit (fresh change id,
    empty description, parents = the replacements, tree = their merge) when `c` was abandoned. -/
theorem updateWcCommits_single (r r' : Repo) (rm : List (Nat × List Nat)) (ws c : Nat)
    (news : List Nat) (hwc : r.view.wc = [(ws, c)]) (hrm : rm.lookup c = some news)
    (h : r.updateWcCommits rm = some r') :
    (isAbandonedKey r.mapping c = false → ∃ n rest, news = n :: rest ∧ assocGet r'.view.wc ws = some n) ∧
    (isAbandonedKey r.mapping c = true →
      assocGet r'.view.wc ws = some r.store.length ∧
      r'.store = r.store ++ [{ parents := news, change := r.store.length, desc := 0,
                               tree := mergeCommitTrees r.store news, preds := [] }]) := by
  unfold Repo.updateWcCommits changedWcs at h
  simp only [hwc, List.filterMap_cons, hrm, Option.map_some, List.filterMap_nil, List.foldl_cons,
    List.foldl_nil, Option.map_eq_some_iff] at h
  obtain ⟨⟨r1, rec1⟩, hs, rfl⟩ := h
  unfold Repo.wcStep at hs
  simp only at hs
  constructor
  · intro ha
    simp only [ha, Bool.not_false, if_true] at hs
    cases hn : news with
    | nil => simp [hn] at hs
    | cons n rest =>
      simp only [hn, Option.map_eq_some_iff, Prod.mk.injEq] at hs
      obtain ⟨r2, h2, rfl, _⟩ := hs
      exact ⟨n, rest, rfl, edit_wc h2⟩
  · intro ha
    simp only [ha, Bool.not_true, Bool.false_eq_true, if_false, List.lookup,
      Option.map_eq_some_iff, Prod.mk.injEq] at hs
    obtain ⟨r2, h2, rfl, _⟩ := hs
    refine ⟨edit_wc h2, ?_⟩
    rw [edit_store h2]; rfl

/-- a workspace whose commit is not a key of the resolved mapping is left alone (one workspace) -/
theorem updateWcCommits_untouched (r r' : Repo) (rm : List (Nat × List Nat)) (ws c : Nat)
    (hwc : r.view.wc = [(ws, c)]) (hrm : rm.lookup c = none)
    (h : r.updateWcCommits rm = some r') : r' = r := by
  unfold Repo.updateWcCommits changedWcs at h
  simp only [hwc, List.filterMap_cons, hrm, Option.map_none, List.filterMap_nil, List.foldl_nil,
    Option.map_some, Option.some.injEq] at h
  exact h.symm

theorem lookup_map_replace (m : Mapping) (k : Nat) (v : Rewrite)
    (h : (m.any fun e => e.1 == k) = true) :
    (m.map fun e => if e.1 == k then (k, v) else e).lookup k = some v := by
  induction m with
  | nil => simp at h
  | cons e m ih =>
    obtain ⟨k', v'⟩ := e
    by_cases hk : k' = k
    · subst hk; simp [List.lookup]
    · have h1 : (k' == k) = false := by simpa using hk
      have h2 : (k == k') = false := by simpa using (Ne.symm hk)
      have h' : (m.any fun e => e.1 == k) = true := by simpa [List.any_cons, h1] using h
      simp only [List.map_cons, h1, Bool.false_eq_true, if_false, List.lookup, h2]
      exact ih h'

theorem Mapping.get_insert_self (m : Mapping) (k : Nat) (v : Rewrite) : (m.insert k v).get k = some v := by
  unfold Mapping.insert Mapping.get
  by_cases h : (m.any fun e => e.1 == k) = true
  · simp only [h, if_true]; exact lookup_map_replace m k v h
  · simp only [h]
    apply lookup_split m [] k v
    intro e he hek
    apply h
    simp only [List.any_eq_true]
    exact ⟨e, he, by simpa using hek⟩

end JjModel.Repo
