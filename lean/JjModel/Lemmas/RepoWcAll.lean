import JjModel.Lemmas.RepoMerge
/-! `update_wc_commits` for any number of workspaces: loop invariant and `wc_follows`. -/
set_option linter.unusedSimpArgs false
namespace JjModel.Repo

/-- `t` is a working-copy commit recreated by `update_wc_commits`: written after the store had
    `n0` commits, parents = the resolved replacements, empty description, fresh change id -/
def IsFreshWc (n0 : Nat) (s : Store) (news : List Nat) (t : Nat) : Prop :=
  n0 ≤ t ∧ ∃ c, s[t]? = some c ∧ c.parents = news ∧ c.desc = 0 ∧ c.change = t ∧ c.preds = []

theorem IsFreshWc.append {n0 : Nat} {s : Store} {news : List Nat} {t : Nat}
    (h : IsFreshWc n0 s news t) (tail : Store) : IsFreshWc n0 (s ++ tail) news t := by
  obtain ⟨h1, c, h2, h3⟩ := h
  refine ⟨h1, c, ?_, h3⟩
  rw [List.getElem?_append_left (List.getElem?_eq_some_iff.mp h2).1]; exact h2

theorem edit_wc_other {r r' : Repo} {ws c n2 : Nat} (h : r.edit ws c = some r') (hne : n2 ≠ ws) :
    assocGet r'.view.wc n2 = assocGet r.view.wc n2 := by
  unfold Repo.edit at h
  simp only at h
  by_cases hc : c = 0
  · simp [hc] at h
  · simp only [hc, if_false, Option.some.injEq] at h
    rw [← h]
    simp only [assocGet]
    rw [lookup_assocSet_other _ _ _ _ hne]
    unfold Repo.maybeAbandonWc View.addHead
    cases assocGet r.view.wc ws with
    | none => rfl
    | some w => simp only; split <;> rfl

/-- the commit `update_wc_commits` writes for an abandoned working-copy commit -/
def wcCommit (s : Store) (news : List Nat) : Commit :=
  { parents := news, change := s.length, desc := 0, tree := mergeCommitTrees s news, preds := [] }

/-- the invariant of the `update_wc_commits` loop -/
structure WcInv (n0 : Nat) (s0 : Store) (rm : List (Nat × List Nat)) (st : Repo × List (Nat × Nat)) : Prop where
  grows : ∃ tail, st.1.store = s0 ++ tail
  recreated : ∀ old c, st.2.lookup old = some c → ∃ news, rm.lookup old = some news ∧ IsFreshWc n0 st.1.store news c

theorem wcStep_spec {n0 : Nat} {s0 : Store} {rm : List (Nat × List Nat)}
    {st st' : Repo × List (Nat × Nat)} {e : Nat × Nat × List Nat}
    (hinv : WcInv n0 s0 rm st) (hn0 : n0 ≤ s0.length) (hrm : rm.lookup e.2.1 = some e.2.2)
    (h : Repo.wcStep (some st) e = some st') :
    WcInv n0 s0 rm st' ∧
    (∃ t, assocGet st'.1.view.wc e.1 = some t ∧
      ((∃ rest, e.2.2 = t :: rest) ∨ IsFreshWc n0 st'.1.store e.2.2 t)) ∧
    (∀ n2, n2 ≠ e.1 → assocGet st'.1.view.wc n2 = assocGet st.1.view.wc n2) ∧
    (∃ tail, st'.1.store = st.1.store ++ tail) := by
  obtain ⟨r, rec⟩ := st
  obtain ⟨⟨tail0, hpre⟩, hrec⟩ := hinv
  unfold Repo.wcStep at h
  simp only at h
  by_cases ha : isAbandonedKey r.mapping e.2.1 = true
  · simp only [ha, Bool.not_true, Bool.false_eq_true, if_false] at h
    cases hl : rec.lookup e.2.1 with
    | some c =>
      simp only [hl, Option.map_eq_some_iff] at h
      obtain ⟨r1, h1, rfl⟩ := h
      have hs := edit_store h1
      obtain ⟨news, hn, hf⟩ := hrec _ _ hl
      have hnews : news = e.2.2 := by rw [hrm] at hn; injection hn with hn; exact hn.symm
      refine ⟨⟨⟨tail0, by rw [hs, hpre]⟩, ?_⟩, ⟨c, edit_wc h1, Or.inr ?_⟩,
        fun n2 hne => edit_wc_other h1 hne, ⟨[], by rw [hs]; simp⟩⟩
      · intro old c' hl'; rw [hs]; exact hrec old c' hl'
      · rw [hs, ← hnews]; exact hf
    | none =>
      simp only [hl, Option.map_eq_some_iff] at h
      obtain ⟨r1, h1, rfl⟩ := h
      have hs := edit_store h1
      let cnew : Commit := wcCommit r.store e.2.2
      have hstore : r1.store = r.store ++ [cnew] := by rw [hs]; rfl
      have hid : (r.writeNew e.2.2 0 (mergeCommitTrees r.store e.2.2)).2 = r.store.length := rfl
      have hlen : n0 ≤ r.store.length := by
        have : r.store = s0 ++ tail0 := hpre
        rw [this]; simp; omega
      have hfresh : IsFreshWc n0 r1.store e.2.2 r.store.length := by
        refine ⟨hlen, cnew, ?_, rfl, rfl, rfl, rfl⟩
        rw [hstore]; simp
      refine ⟨⟨⟨tail0 ++ [cnew], ?_⟩, ?_⟩, ⟨r.store.length, ?_, Or.inr hfresh⟩,
        fun n2 hne => (by rw [edit_wc_other h1 hne]; rfl), ⟨[cnew], hstore⟩⟩
      · show r1.store = s0 ++ (tail0 ++ [cnew])
        have : r.store = s0 ++ tail0 := hpre
        rw [hstore, this, List.append_assoc]
      · intro old c' hl'
        have hl'' : (rec ++ [(e.2.1, r.store.length)]).lookup old = some c' := hl'
        rw [lookup_append_single] at hl''
        show ∃ news, rm.lookup old = some news ∧ IsFreshWc n0 r1.store news c'
        cases hlo : rec.lookup old with
        | some c0 =>
          simp only [hlo, Option.some.injEq] at hl''
          subst hl''
          obtain ⟨news, hn, hf⟩ := hrec _ _ hlo
          exact ⟨news, hn, by rw [hstore]; exact IsFreshWc.append hf _⟩
        | none =>
          simp only [hlo] at hl''
          by_cases hoe : old = e.2.1
          · simp only [hoe, if_true, Option.some.injEq] at hl''
            subst hl''
            exact ⟨e.2.2, by rw [hoe]; exact hrm, hfresh⟩
          · simp [hoe] at hl''
      · have := edit_wc h1
        rw [hid] at this; exact this
  · simp only [ha, Bool.not_false, if_true] at h
    cases hn : e.2.2 with
    | nil => simp [hn] at h
    | cons n rest =>
      simp only [hn, Option.map_eq_some_iff] at h
      obtain ⟨r1, h1, rfl⟩ := h
      have hs := edit_store h1
      refine ⟨⟨⟨tail0, by rw [hs, hpre]⟩, ?_⟩, ⟨n, edit_wc h1, Or.inl ⟨rest, rfl⟩⟩,
        fun n2 hne => edit_wc_other h1 hne, ⟨[], by rw [hs]; simp⟩⟩
      intro old c' hl'; rw [hs]; exact hrec old c' hl'

theorem wcFold_none (l : List (Nat × Nat × List Nat)) : l.foldl Repo.wcStep none = none := by
  induction l with
  | nil => rfl
  | cons _ _ ih => simpa [List.foldl_cons, Repo.wcStep] using ih

theorem wcFold_spec {n0 : Nat} {s0 : Store} {rm : List (Nat × List Nat)} (hn0 : n0 ≤ s0.length) :
    ∀ (l : List (Nat × Nat × List Nat)) (st st' : Repo × List (Nat × Nat)),
      WcInv n0 s0 rm st → (∀ e ∈ l, rm.lookup e.2.1 = some e.2.2) → (l.map (·.1)).Nodup →
      l.foldl Repo.wcStep (some st) = some st' →
      WcInv n0 s0 rm st' ∧ (∃ tail, st'.1.store = st.1.store ++ tail) ∧
      (∀ e ∈ l, ∃ t, assocGet st'.1.view.wc e.1 = some t ∧
        ((∃ rest, e.2.2 = t :: rest) ∨ IsFreshWc n0 st'.1.store e.2.2 t)) ∧
      (∀ n2, n2 ∉ l.map (·.1) → assocGet st'.1.view.wc n2 = assocGet st.1.view.wc n2) := by
  intro l
  induction l with
  | nil =>
    intro st st' hinv _ _ h
    simp only [List.foldl_nil, Option.some.injEq] at h
    subst h
    exact ⟨hinv, ⟨[], by simp⟩, by simp, fun _ _ => rfl⟩
  | cons e l ih =>
    intro st st' hinv hrm hnd h
    simp only [List.foldl_cons] at h
    cases hs : Repo.wcStep (some st) e with
    | none => rw [hs, wcFold_none] at h; cases h
    | some st1 =>
      rw [hs] at h
      obtain ⟨i1, ⟨t, ht, hP⟩, hother, ⟨tail1, hg1⟩⟩ := wcStep_spec hinv hn0 (hrm e (by simp)) hs
      simp only [List.map_cons] at hnd
      have hnd' := List.nodup_cons.mp hnd
      obtain ⟨j1, ⟨tail2, hg2⟩, jall, jother⟩ := ih st1 st' i1 (fun e' he' => hrm e' (by simp [he'])) hnd'.2 h
      refine ⟨j1, ⟨tail1 ++ tail2, by rw [hg2, hg1, List.append_assoc]⟩, ?_, ?_⟩
      · intro e' he'
        simp only [List.mem_cons] at he'
        rcases he' with rfl | he'
        · refine ⟨t, by rw [jother _ hnd'.1]; exact ht, ?_⟩
          rcases hP with hP | hP
          · exact Or.inl hP
          · exact Or.inr (by rw [hg2]; exact hP.append _)
        · exact jall e' he'
      · intro n2 hn2
        simp only [List.map_cons, List.mem_cons, not_or] at hn2
        rw [jother n2 hn2.2, hother n2 hn2.1]

theorem changedWcs_names (v : View) (rm : List (Nat × List Nat)) (h : (v.wc.map (·.1)).Nodup) :
    ((changedWcs v rm).map (·.1)).Nodup := by
  unfold changedWcs
  generalize v.wc = l at h
  induction l with
  | nil => simp
  | cons x l ih =>
    simp only [List.map_cons] at h
    have hx := List.nodup_cons.mp h
    simp only [List.filterMap_cons]
    cases hl : rm.lookup x.2 with
    | none => simpa [hl] using ih hx.2
    | some news =>
      simp only [hl, Option.map_some, List.map_cons]
      refine List.nodup_cons.mpr ⟨?_, ih hx.2⟩
      intro hm
      simp only [List.mem_map, List.mem_filterMap, Option.map_eq_some_iff] at hm
      obtain ⟨e, ⟨y, hy, n', _, rfl⟩, he⟩ := hm
      exact hx.1 (List.mem_map.mpr ⟨y, hy, he⟩)

/-- **`wc_follows`** (any number of workspaces with distinct names).  After `update_wc_commits`,
    every workspace whose commit `c` is a key of the resolved mapping (`rm.lookup c = some news`)
    points either at the first replacement, or at a commit written by this very call with parents
    `news`, an empty description, no predecessors and a fresh change id (the "recreate" branch,
    taken when the record of `c` is — or meanwhile became — `Abandoned`). -/
theorem updateWcCommits_follows (r r' : Repo) (rm : List (Nat × List Nat))
    (hnd : (r.view.wc.map (·.1)).Nodup) (h : r.updateWcCommits rm = some r') :
    (∃ tail, r'.store = r.store ++ tail) ∧
    ∀ ws c news, (ws, c) ∈ r.view.wc → rm.lookup c = some news →
      ∃ t, assocGet r'.view.wc ws = some t ∧
        ((∃ rest, news = t :: rest) ∨ IsFreshWc r.store.length r'.store news t) := by
  unfold Repo.updateWcCommits at h
  simp only [Option.map_eq_some_iff] at h
  obtain ⟨st', hf, rfl⟩ := h
  have hinv : WcInv r.store.length r.store rm (r, []) :=
    ⟨⟨[], by simp⟩, by intro old c hl; simp [List.lookup] at hl⟩
  have hrm : ∀ e ∈ changedWcs r.view rm, rm.lookup e.2.1 = some e.2.2 := by
    intro e he
    unfold changedWcs at he
    simp only [List.mem_filterMap, Option.map_eq_some_iff] at he
    obtain ⟨x, _, news, hl, rfl⟩ := he
    exact hl
  obtain ⟨_, hg, hall, _⟩ := wcFold_spec (Nat.le_refl _) _ (r, []) st' hinv hrm (changedWcs_names r.view rm hnd) hf
  refine ⟨hg, ?_⟩
  intro ws c news hmem hl
  have : (ws, c, news) ∈ changedWcs r.view rm := by
    unfold changedWcs
    simp only [List.mem_filterMap, Option.map_eq_some_iff]
    exact ⟨(ws, c), hmem, news, hl, rfl⟩
  exact hall _ this

end JjModel.Repo
