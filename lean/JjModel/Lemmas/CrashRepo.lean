import JjModel.Model.Crash
/-!
  C15, part B: invariants of the repository files under the write discipline `okStep`/`okWc`.
-/
namespace JjModel.Crash

/-! ### lookups -/

theorem look_cons {β : Type} (k k' : Nat) (v : β) (l : List (Nat × β)) :
    look k ((k', v) :: l) = if k = k' then some v else look k l := rfl

theorem look_some_mem {β : Type} {k : Nat} {v : β} {l : List (Nat × β)} (h : look k l = some v) :
    (k, v) ∈ l := by
  induction l with
  | nil => simp [look] at h
  | cons e l ih =>
    obtain ⟨k', v'⟩ := e
    rw [look_cons] at h
    by_cases hk : k = k'
    · simp [hk] at h; subst hk; subst h; simp
    · simp [hk] at h; exact List.mem_cons_of_mem _ (ih h)

/-- nobody names `o` as a parent -/
def NotMent (o : Nat) (ops : List (Nat × OpRec)) : Prop := ∀ e ∈ ops, o ∉ e.2.parents

theorem notMentioned_iff (o : Nat) (ops : List (Nat × OpRec)) :
    notMentioned o ops = true ↔ NotMent o ops := by
  simp [notMentioned, NotMent]

theorem NotMent.cons {o k : Nat} {r : OpRec} {ops : List (Nat × OpRec)}
    (h : NotMent o ops) (hr : o ∉ r.parents) : NotMent o ((k, r) :: ops) := by
  intro e he
  rcases List.mem_cons.mp he with rfl | he
  · exact hr
  · exact h e he

/-! ### ancestry walk -/

theorem ancStep_nil (ops : List (Nat × OpRec)) : ancStep ops [] = [] := rfl

theorem ancStep_cons (ops : List (Nat × OpRec)) (x : Nat) (fr : List Nat) :
    ancStep ops (x :: fr)
      = (match look x ops with | some r => r.parents | none => []) ++ ancStep ops fr := by
  unfold ancStep
  rw [List.flatMap_cons]
  rfl

theorem ancStep_not_mem {a : Nat} {ops : List (Nat × OpRec)} (h : NotMent a ops) (fr : List Nat) :
    a ∉ ancStep ops fr := by
  induction fr with
  | nil => simp [ancStep_nil]
  | cons x fr ih =>
    rw [ancStep_cons]
    intro hm
    rcases List.mem_append.mp hm with hm | hm
    · cases hl : look x ops with
      | none => simp [hl] at hm
      | some r =>
        simp only [hl] at hm
        exact h (x, r) (look_some_mem hl) hm
    · exact ih hm

/-- an operation nobody mentions is reachable only from itself -/
theorem isAnc_false {a : Nat} {ops : List (Nat × OpRec)} (h : NotMent a ops) :
    ∀ (n : Nat) (fr : List Nat), a ∉ fr → isAnc ops n fr a = false := by
  intro n
  induction n with
  | zero => intro fr _; rfl
  | succ n ih =>
    intro fr hfr
    simp only [isAnc, Bool.or_eq_false_iff]
    refine ⟨?_, ih _ (ancStep_not_mem h _)⟩
    simpa using hfr

theorem ancStep_cons_op {o : Nat} {r : OpRec} {ops : List (Nat × OpRec)} (fr : List Nat)
    (ho : o ∉ fr) : ancStep ((o, r) :: ops) fr = ancStep ops fr := by
  induction fr with
  | nil => rfl
  | cons x fr ih =>
    have hx : x ≠ o := fun e => ho (by simp [e])
    have hfr : o ∉ fr := fun e => ho (List.mem_cons_of_mem _ e)
    rw [ancStep_cons, ancStep_cons, ih hfr, look_cons]
    simp [hx]

/-- writing an operation file nobody refers to does not change what is reachable -/
theorem isAnc_cons_op {o : Nat} {r : OpRec} {ops : List (Nat × OpRec)} (hnm : NotMent o ops)
    (a : Nat) : ∀ (n : Nat) (fr : List Nat), o ∉ fr →
      isAnc ((o, r) :: ops) n fr a = isAnc ops n fr a := by
  intro n
  induction n with
  | zero => intro fr _; rfl
  | succ n ih =>
    intro fr hfr
    simp only [isAnc]
    rw [ancStep_cons_op fr hfr, ih _ (ancStep_not_mem hnm _)]

/-- a parent is an ancestor (two levels of fuel suffice) -/
theorem isAnc_parent {ops : List (Nat × OpRec)} {o p v : Nat}
    (h : look o ops = some ⟨[p], v⟩) (n : Nat) : isAnc ops (n + 2) [o] p = true := by
  simp [isAnc, ancStep, h]

/-- reachability from a child -/
theorem isAnc_child {ops : List (Nat × OpRec)} {o p v : Nat}
    (h : look o ops = some ⟨[p], v⟩) (n : Nat) (a : Nat) (ha : isAnc ops n [p] a = true) :
    isAnc ops (n + 1) [o] a = true := by
  simp [isAnc, ancStep, h, ha]

theorem ops_length_pos {ops : List (Nat × OpRec)} {o : Nat} {r : OpRec} (h : look o ops = some r) :
    0 < ops.length := by
  cases ops with
  | nil => simp [look] at h
  | cons _ _ => simp

/-! ### the repository invariant -/

/-- What holds of the repository files between any two steps of a disciplined writer:
    `h` is the operation a loader sees; `fs0` is the state the writer started from. -/
structure RepoInv (fs0 fs : Fs) (h : Nat) (P : List Nat) : Prop where
  heads : fs.heads = [h] ∨
    ∃ p, fs.heads = [p, h] ∧ p ≠ h ∧ NotMent h fs.ops ∧ ∃ v, look h fs.ops = some ⟨[p], v⟩
  opRec : ∃ r t, look h fs.ops = some r ∧ look r.view fs.views = some t
  pub : ∀ a ∈ P, ∃ n, isAnc fs.ops n [h] a = true
  opsMono : ∀ k r, look k fs0.ops = some r → look k fs.ops = some r
  viewsMono : ∀ k t, look k fs0.views = some t → look k fs.views = some t

/-- the head the loader sees after one more step -/
def nextHead (h : Nat) : Step → Nat
  | .ha o => o
  | _ => h

theorem headAfter_cons (h : Nat) (s : Step) (l : List Step) :
    headAfter h (s :: l) = headAfter (nextHead h s) l := by
  cases s <;> simp [headAfter, nextHead]

theorem resolveHeads_single (fs : Fs) (h : Nat) (hh : fs.heads = [h]) : resolveHeads fs = [h] := by
  simp [resolveHeads, hh]

theorem resolveHeads_mid (fs : Fs) (p h v : Nat) (hh : fs.heads = [p, h]) (hne : p ≠ h)
    (hnm : NotMent h fs.ops) (hl : look h fs.ops = some ⟨[p], v⟩) : resolveHeads fs = [h] := by
  have hpos := ops_length_pos hl
  have hfuel : fuel fs = (fs.ops.length - 1) + 2 := by simp [fuel]; omega
  have h1 : isAnc fs.ops (fuel fs) [h] p = true := by rw [hfuel]; exact isAnc_parent hl _
  have h2 : isAnc fs.ops (fuel fs) [p] h = false :=
    isAnc_false hnm _ _ (by simp; exact fun e => hne e.symm)
  have hne' : h ≠ p := fun e => hne e.symm
  simp [resolveHeads, hh, h1, h2, hne, hne']

theorem load_of_inv {fs0 fs : Fs} {h : Nat} {P : List Nat} (inv : RepoInv fs0 fs h P) :
    ∃ r t, look h fs.ops = some r ∧ look r.view fs.views = some t ∧
      load fs = some ⟨h, r.view, t⟩ := by
  obtain ⟨r, t, hr, ht⟩ := inv.opRec
  refine ⟨r, t, hr, ht, ?_⟩
  have hres : resolveHeads fs = [h] := by
    rcases inv.heads with hh | ⟨p, hh, hne, hnm, v, hl⟩
    · exact resolveHeads_single fs h hh
    · exact resolveHeads_mid fs p h v hh hne hnm hl
  simp [load, hres, hr, ht]

/-- one disciplined step keeps the invariant -/
theorem step_preserves {fs0 fs : Fs} {h : Nat} {P : List Nat} (inv : RepoInv fs0 fs h P)
    (s : Step) (ok : okStep fs s = true) : RepoInv fs0 (s.apply fs) (nextHead h s) P := by
  obtain ⟨hheads, hrec, hpub, hom, hvm⟩ := inv
  cases s with
  | x => exact ⟨hheads, hrec, hpub, hom, hvm⟩
  | ws => exact ⟨hheads, hrec, hpub, hom, hvm⟩
  | wl o => exact ⟨hheads, hrec, hpub, hom, hvm⟩
  | wf => exact ⟨hheads, hrec, hpub, hom, hvm⟩
  | st t => exact ⟨hheads, hrec, hpub, hom, hvm⟩
  | sc o => exact ⟨hheads, hrec, hpub, hom, hvm⟩
  | wv v t =>
    -- content-addressed: an existing view file of that name has the same content
    have hca : ∀ t', look v fs.views = some t' → t' = t := by
      intro t' ht'
      simp [okStep, ht'] at ok
      exact ok
    refine ⟨hheads, ?_, hpub, hom, ?_⟩
    · obtain ⟨r, t0, hr, ht0⟩ := hrec
      refine ⟨r, if r.view = v then t else t0, hr, ?_⟩
      simp only [Step.apply, nextHead, look_cons]
      by_cases hv : r.view = v <;> simp [hv, ht0]
    · intro k t0 hk
      have := hvm k t0 hk
      simp only [Step.apply, look_cons]
      by_cases hv : k = v
      · subst hv; simp [hca t0 this]
      · simp [hv, this]
  | wo o r =>
    simp only [okStep, Bool.and_eq_true, Bool.not_eq_true', beq_iff_eq] at ok
    obtain ⟨⟨⟨hca, hnh⟩, hnm⟩, hlen⟩ := ok
    have hnm : NotMent o fs.ops := (notMentioned_iff _ _).mp hnm
    have hca : ∀ r', look o fs.ops = some r' → r' = r := by
      intro r' hr'
      simp [hr'] at hca
      exact hca
    -- only one head: not in the middle of a publish
    have hh : fs.heads = [h] := by
      rcases hheads with hh | ⟨p, hh, _⟩
      · exact hh
      · simp [hh] at hlen
    have hoh : o ≠ h := by
      intro e; subst e; simp [hh] at hnh
    have hho : h ≠ o := fun e => hoh e.symm
    refine ⟨Or.inl hh, ?_, ?_, ?_, hvm⟩
    · obtain ⟨r0, t0, hr0, ht0⟩ := hrec
      exact ⟨r0, t0, by simp [Step.apply, nextHead, look_cons, hho, hr0], ht0⟩
    · intro a ha
      obtain ⟨n, hn⟩ := hpub a ha
      refine ⟨n, ?_⟩
      simp only [Step.apply, nextHead]
      rw [isAnc_cons_op hnm a n [h] (by simp [hoh])]
      exact hn
    · intro k r0 hk
      have := hom k r0 hk
      simp only [Step.apply, look_cons]
      by_cases hko : k = o
      · subst hko; simp [hca r0 this]
      · simp [hko, this]
  | ha o =>
    -- guard: exactly one head p, o's file is there with parents [p] and a readable view
    rcases hheads with hh | ⟨p, hh, _⟩
    · cases hl : look o fs.ops with
      | none => simp [okStep, hh, hl] at ok
      | some r =>
        simp only [okStep, hh, hl, Bool.and_eq_true, beq_iff_eq, bne_iff_ne, ne_eq] at ok
        obtain ⟨⟨⟨hpar, hne⟩, hnm⟩, hview⟩ := ok
        have hnm : NotMent o fs.ops := (notMentioned_iff _ _).mp hnm
        have hr : r = ⟨[h], r.view⟩ := by cases r; simp at hpar; simp [hpar]
        obtain ⟨t, ht⟩ := Option.isSome_iff_exists.mp hview
        have hheads' : (Step.apply fs (.ha o)).heads = [h, o] := by
          simp [Step.apply, hh, hne]
        refine ⟨Or.inr ⟨h, hheads', fun e => hne e.symm, hnm, r.view, by rw [← hr]; exact hl⟩,
          ⟨r, t, hl, ht⟩, ?_, hom, hvm⟩
        intro a ha
        obtain ⟨n, hn⟩ := hpub a ha
        exact ⟨n + 1, isAnc_child (by rw [← hr]; exact hl) n a hn⟩
    · simp [okStep, hh] at ok
  | hr p =>
    rcases hheads with hh | ⟨p', hh, hne, hnm, v, hl⟩
    · simp [okStep, hh] at ok
    · simp only [okStep, hh, Bool.and_eq_true, beq_iff_eq, bne_iff_ne, ne_eq] at ok
      obtain ⟨hp, hne2⟩ := ok
      subst hp
      refine ⟨Or.inl ?_, hrec, hpub, hom, hvm⟩
      simp [Step.apply, nextHead, hh, hne2]

theorem run_cons (fs : Fs) (s : Step) (l : List Step) : run fs (s :: l) = run (s.apply fs) l := rfl

/-- any prefix of a disciplined step sequence keeps the invariant -/
theorem prefix_preserves {fs0 : Fs} {P : List Nat} (steps : List Step) :
    ∀ (fs : Fs) (h : Nat), RepoInv fs0 fs h P → wellOrdered fs steps = true → ∀ n,
      RepoInv fs0 (run fs (steps.take n)) (headAfter h (steps.take n)) P := by
  induction steps with
  | nil => intro fs h inv _ n; simpa [run, headAfter] using inv
  | cons s rest ih =>
    intro fs h inv wo n
    cases n with
    | zero => simpa [run, headAfter] using inv
    | succ n =>
      simp only [wellOrdered, Bool.and_eq_true] at wo
      rw [List.take_succ_cons, run_cons, headAfter_cons]
      exact ih _ _ (step_preserves inv s wo.1) wo.2 n

/-! ### the working-copy invariant -/

theorem headTree_of_look {fs : Fs} {h : Nat} {r : OpRec} (hr : look h fs.ops = some r) :
    headTree fs h = look r.view fs.views := by
  simp [headTree, hr]

/-- Either the working copy is at the (single) head and `tree_state` records the head's
    working-copy tree; or its recorded operation is the head's only parent while the head is a
    fresh child (published, working copy not yet updated). -/
def WcInv (fs : Fs) (h : Nat) : Prop :=
  (fs.wcOp = h ∧ fs.heads = [h] ∧ headTree fs h = some fs.wcTree) ∨
    (fs.wcOp ≠ h ∧ NotMent h fs.ops ∧ (∃ v, look h fs.ops = some ⟨[fs.wcOp], v⟩) ∧
      (look fs.wcOp fs.ops).isSome = true)

theorem wcStatus_of_inv {fs0 fs : Fs} {h : Nat} {P : List Nat} (inv : RepoInv fs0 fs h P)
    (wc : WcInv fs h) : wcStatus fs = .fresh ∨ wcStatus fs = .stale := by
  obtain ⟨r, t, hr, _, hload⟩ := load_of_inv inv
  rcases wc with ⟨hw, _, _⟩ | ⟨hne, hnm, ⟨v, hl⟩, hsome⟩
  · left; simp [wcStatus, hload, hw]
  · have hpos := ops_length_pos hl
    have hfuel : fuel fs = (fs.ops.length - 1) + 2 := by simp [fuel]; omega
    have h1 : isAnc fs.ops (fuel fs) [h] fs.wcOp = true := by rw [hfuel]; exact isAnc_parent hl _
    have h2 : isAnc fs.ops (fuel fs) [fs.wcOp] h = false :=
      isAnc_false hnm _ _ (by simp; exact fun e => hne e.symm)
    have hnone : (look fs.wcOp fs.ops).isNone = false := by
      cases hw : look fs.wcOp fs.ops <;> simp [hw] at hsome ⊢
    by_cases ht : fs.wcTree = t
    · left; simp [wcStatus, hload, hne, hnone, h1, h2, ht]
    · right; simp [wcStatus, hload, hne, hnone, h1, h2, ht]

/-- a working copy that claims to be at the loaded head records the head's tree -/
theorem wc_consistent_of_inv {fs0 fs : Fs} {h : Nat} {P : List Nat} (inv : RepoInv fs0 fs h P)
    (wc : WcInv fs h) (l : Loaded) (hl : load fs = some l) (hw : fs.wcOp = l.head) :
    fs.wcTree = l.tree := by
  obtain ⟨r, t, hr, ht, hload⟩ := load_of_inv inv
  rw [hl] at hload
  cases hload
  rcases wc with ⟨_, _, htree⟩ | ⟨hne, _⟩
  · rw [headTree_of_look hr, ht] at htree
    exact (Option.some.inj htree).symm
  · exact absurd hw hne

theorem wc_step_preserves {fs0 fs : Fs} {h : Nat} {P : List Nat} (inv : RepoInv fs0 fs h P)
    (wc : WcInv fs h) (s : Step) (ok : okStep fs s = true) (okw : okWc fs s = true) :
    WcInv (s.apply fs) (nextHead h s) := by
  cases s with
  | x => exact wc
  | ws => exact wc
  | wl o => exact wc
  | wf => exact wc
  | st t =>
    rcases wc with ⟨hw, hh, htree⟩ | r
    · left
      refine ⟨hw, hh, ?_⟩
      simp only [okWc, hh, hw, beq_self_eq_true, Bool.not_true, Bool.false_or, beq_iff_eq] at okw
      exact okw
    · exact Or.inr r
  | wv v t =>
    rcases wc with ⟨hw, hh, htree⟩ | r
    · left
      refine ⟨hw, hh, ?_⟩
      obtain ⟨r0, t0, hr0, ht0⟩ := inv.opRec
      rw [headTree_of_look hr0, ht0] at htree
      have hr0' : look h (Step.apply fs (.wv v t)).ops = some r0 := hr0
      show headTree (Step.apply fs (.wv v t)) h = some fs.wcTree
      rw [headTree_of_look hr0']
      simp only [Step.apply, nextHead, look_cons]
      by_cases hv : r0.view = v
      · subst hv
        simp only [okStep, ht0, beq_iff_eq] at ok
        simp [← ok, htree]
      · simp [hv, ht0, htree]
    · exact Or.inr r
  | hr p =>
    rcases wc with ⟨_, hh, _⟩ | r
    · simp [okStep, hh] at ok
    · exact Or.inr r
  | sc o =>
    -- `checkout` is only rewritten once the head is the single published operation and
    -- `tree_state` already records its tree
    left
    simp only [okStep, beq_iff_eq] at ok
    simp only [okWc, beq_iff_eq] at okw
    rcases inv.heads with hh | ⟨p, hh, _⟩
    · rw [hh] at ok
      simp at ok
      subst ok
      exact ⟨rfl, hh, okw⟩
    · rw [hh] at ok; simp at ok
  | wo o r =>
    simp only [okWc, beq_iff_eq] at okw
    simp only [okStep, Bool.and_eq_true, Bool.not_eq_true', beq_iff_eq] at ok
    have hh : fs.heads = [h] := by
      rcases inv.heads with hh | ⟨p, hh, _⟩
      · exact hh
      · simp [hh] at ok
    have hoh : o ≠ h := by
      intro e; subst e; simp [hh] at ok
    rcases wc with ⟨hw, _, htree⟩ | ⟨hne, _⟩
    · left
      refine ⟨hw, hh, ?_⟩
      obtain ⟨r0, _, hr0, _⟩ := inv.opRec
      have hho : h ≠ o := fun e => hoh e.symm
      have hr0' : look h (Step.apply fs (.wo o r)).ops = some r0 := by
        simp [Step.apply, look_cons, hho, hr0]
      show headTree (Step.apply fs (.wo o r)) h = some fs.wcTree
      rw [headTree_of_look hr0']
      show look r0.view fs.views = some fs.wcTree
      rw [headTree_of_look hr0] at htree
      exact htree
    · rw [hh] at okw
      simp at okw
      exact absurd okw.symm hne
  | ha o =>
    simp only [okWc, beq_iff_eq] at okw
    rcases inv.heads with hh | ⟨p, hh, _⟩
    · cases hl : look o fs.ops with
      | none => simp [okStep, hh, hl] at ok
      | some r =>
        simp only [okStep, hh, hl, Bool.and_eq_true, beq_iff_eq, bne_iff_ne, ne_eq] at ok
        obtain ⟨⟨⟨hpar, hne⟩, hnm⟩, _⟩ := ok
        have hnm : NotMent o fs.ops := (notMentioned_iff _ _).mp hnm
        have hr : r = ⟨[h], r.view⟩ := by cases r; simp at hpar; simp [hpar]
        rw [hh] at okw
        simp at okw
        obtain ⟨r0, _, hr0, _⟩ := inv.opRec
        right
        refine ⟨?_, hnm, ⟨r.view, ?_⟩, ?_⟩
        · simp [Step.apply, nextHead, ← okw]; exact fun e => hne e.symm
        · simp only [Step.apply, nextHead, ← okw]; rw [← hr]; exact hl
        · simp [Step.apply, ← okw, hr0]
    · simp [okStep, hh] at ok

theorem prefix_preserves_wc {fs0 : Fs} {P : List Nat} (steps : List Step) :
    ∀ (fs : Fs) (h : Nat), RepoInv fs0 fs h P → WcInv fs h → wellOrderedWc fs steps = true → ∀ n,
      RepoInv fs0 (run fs (steps.take n)) (headAfter h (steps.take n)) P ∧
      WcInv (run fs (steps.take n)) (headAfter h (steps.take n)) := by
  induction steps with
  | nil => intro fs h inv wc _ n; simpa [run, headAfter] using ⟨inv, wc⟩
  | cons s rest ih =>
    intro fs h inv wc wo n
    cases n with
    | zero => simpa [run, headAfter] using ⟨inv, wc⟩
    | succ n =>
      simp only [wellOrderedWc, Bool.and_eq_true] at wo
      rw [List.take_succ_cons, run_cons, headAfter_cons]
      exact ih _ _ (step_preserves inv s wo.1.1) (wc_step_preserves inv wc s wo.1.1 wo.1.2) wo.2 n

end JjModel.Crash
