import JjModel.Model.OpHeads
import JjModel.Lemmas.HeadProto
/-!
  The operation DAG as a strict partial order, and the facts about `resolve_op_heads`' head
  filtering that make the op-heads client satisfy the hypotheses of the generic invariant.
-/
namespace JjModel.OpHeads
open JjModel.HeadProto

/-- ancestor-or-equal in the operation DAG -/
inductive Anc (G : Dag) : Nat → Nat → Prop
  | refl (a : Nat) : Anc G a a
  | step {a p b : Nat} : p ∈ parents G b → Anc G a p → Anc G a b

/-- parents are earlier operations -/
def WF (G : Dag) : Prop := ∀ b, ∀ p ∈ parents G b, p < b

theorem wf_of_wfDag {G : Dag} (h : wfDag G = true) : WF G := by
  intro b p hp
  by_cases hb : b < G.length
  · have := List.all_eq_true.mp h b (List.mem_range.mpr hb)
    have := List.all_eq_true.mp this p hp
    simpa using this
  · simp [parents, List.getD, List.getElem?_eq_none (Nat.le_of_not_lt hb)] at hp

theorem anc_trans {G : Dag} {a b c : Nat} (h1 : Anc G a b) (h2 : Anc G b c) : Anc G a c := by
  induction h2 with
  | refl => exact h1
  | step hp _ ih => exact Anc.step hp ih

theorem anc_le {G : Dag} (hw : WF G) {a b : Nat} (h : Anc G a b) : a ≤ b := by
  induction h with
  | refl => exact Nat.le_refl _
  | step hp _ ih => exact Nat.le_trans ih (Nat.le_of_lt (hw _ _ hp))

theorem anc_antisymm {G : Dag} (hw : WF G) {a b : Nat} (h1 : Anc G a b) (h2 : Anc G b a) : a = b :=
  Nat.le_antisymm (anc_le hw h1) (anc_le hw h2)

theorem isAncF_sound {G : Dag} {f a b : Nat} (h : isAncF G f a b = true) : Anc G a b := by
  induction f generalizing b with
  | zero => simp [isAncF] at h; subst h; exact Anc.refl _
  | succ f ih =>
    simp only [isAncF, Bool.or_eq_true, beq_iff_eq, List.any_eq_true] at h
    rcases h with rfl | ⟨p, hp, h⟩
    · exact Anc.refl _
    · exact Anc.step hp (ih h)

theorem isAncF_complete {G : Dag} (hw : WF G) {a b : Nat} (h : Anc G a b) : ∀ f, b ≤ f → isAncF G f a b = true := by
  induction h with
  | refl => intro f _; cases f <;> simp [isAncF]
  | @step p b hp _ ih =>
    intro f hf
    have hlt := hw _ _ hp
    cases f with
    | zero => omega
    | succ f =>
      simp only [isAncF, Bool.or_eq_true, beq_iff_eq, List.any_eq_true]
      exact Or.inr ⟨p, hp, ih f (by omega)⟩

theorem isAnc_iff {G : Dag} (hw : WF G) {a b : Nat} : isAnc G a b = true ↔ Anc G a b := by
  constructor
  · exact isAncF_sound
  · intro h
    by_cases hb : b ≤ G.length
    · exact isAncF_complete hw h _ hb
    · have : a = b := by
        cases h with
        | refl => rfl
        | step hp _ => simp [parents, List.getD, List.getElem?_eq_none (Nat.le_of_lt (Nat.lt_of_not_le hb))] at hp
      subst this
      unfold isAnc
      cases G.length <;> simp [isAncF]

/-- the order used for the invariant: ancestor-or-equal, as the model computes it -/
def le (G : Dag) (a b : Nat) : Prop := isAnc G a b = true

theorem lePre {G : Dag} (hw : WF G) : IsPreorder (le G) :=
  ⟨fun a => (isAnc_iff hw).mpr (Anc.refl a),
   fun h1 h2 => (isAnc_iff hw).mpr (anc_trans ((isAnc_iff hw).mp h1) ((isAnc_iff hw).mp h2))⟩

theorem below_of_anc_ne {G : Dag} (hw : WF G) {o t : Nat} (h : Anc G o t) (hne : o ≠ t) : Below (le G) o t :=
  ⟨(isAnc_iff hw).mpr h, fun h' => hne (anc_antisymm hw h ((isAnc_iff hw).mp h'))⟩

/-! ### head filtering (`dag_walk::heads`) -/

theorem mem_filterHeads {G : Dag} {hs : List Nat} {h : Nat} :
    h ∈ filterHeads G hs ↔ h ∈ hs ∧ ∀ h' ∈ hs, h' ≠ h → isAnc G h h' = false := by
  simp only [filterHeads, List.mem_filter, Bool.not_eq_true', List.any_eq_false, Bool.and_eq_true,
    bne_iff_ne, ne_eq, not_and, Bool.not_eq_true]

theorem mem_ancestorHeads {G : Dag} {hs : List Nat} {h : Nat} :
    h ∈ ancestorHeads G hs ↔ h ∈ hs ∧ ∃ h' ∈ hs, h' ≠ h ∧ isAnc G h h' = true := by
  simp only [ancestorHeads, List.mem_filter, List.any_eq_true, Bool.and_eq_true, bne_iff_ne, ne_eq]

theorem mem_filter_or_ancestor {G : Dag} {hs : List Nat} {h : Nat} (hh : h ∈ hs) :
    h ∈ filterHeads G hs ∨ h ∈ ancestorHeads G hs := by
  by_cases hx : ∃ h' ∈ hs, h' ≠ h ∧ isAnc G h h' = true
  · exact Or.inr (mem_ancestorHeads.mpr ⟨hh, hx⟩)
  · left
    refine mem_filterHeads.mpr ⟨hh, fun h' hh' hne => ?_⟩
    cases hb : isAnc G h h' with
    | false => rfl
    | true => exact absurd ⟨h', hh', hne, hb⟩ hx

theorem mem_le_sum {l : List Nat} {x : Nat} (h : x ∈ l) : x ≤ l.sum := by
  induction l with
  | nil => simp at h
  | cons y r ih =>
    simp only [List.mem_cons] at h
    simp only [List.sum_cons]
    rcases h with rfl | h
    · omega
    · have := ih h; omega

/-- every head is an ancestor-or-equal of a head that survives the filter -/
theorem exists_filtered_above {G : Dag} (hw : WF G) (hs : List Nat) :
    ∀ k a, a ∈ hs → hs.sum - a ≤ k → ∃ f ∈ filterHeads G hs, Anc G a f := by
  intro k
  induction k with
  | zero =>
    intro a ha hk
    rcases mem_filter_or_ancestor (G := G) ha with hf | hanc
    · exact ⟨a, hf, Anc.refl a⟩
    · obtain ⟨_, h', hh', hne, hb⟩ := mem_ancestorHeads.mp hanc
      have h1 := anc_le hw ((isAnc_iff hw).mp hb)
      have h2 : h' ≤ hs.sum := mem_le_sum hh'
      have : a < h' := Nat.lt_of_le_of_ne h1 (fun e => hne e.symm)
      omega
  | succ k ih =>
    intro a ha hk
    rcases mem_filter_or_ancestor (G := G) ha with hf | hanc
    · exact ⟨a, hf, Anc.refl a⟩
    · obtain ⟨_, h', hh', hne, hb⟩ := mem_ancestorHeads.mp hanc
      have hanc' := (isAnc_iff hw).mp hb
      have h1 := anc_le hw hanc'
      have hlt : a < h' := Nat.lt_of_le_of_ne h1 (fun e => hne e.symm)
      obtain ⟨f, hf, hfa⟩ := ih h' hh' (by omega)
      exact ⟨f, hf, anc_trans hanc' hfa⟩

theorem filtered_above {G : Dag} (hw : WF G) {hs : List Nat} {a : Nat} (ha : a ∈ hs) :
    ∃ f ∈ filterHeads G hs, Anc G a f := exists_filtered_above hw hs _ a ha (Nat.le_refl _)

theorem mem_of_sameSet_left {a b : List Nat} (h : sameSet a b = true) {x : Nat} (hx : x ∈ b) : x ∈ a := by
  simp only [sameSet, Bool.and_eq_true, List.all_eq_true, List.contains_iff_mem] at h
  exact h.2 x hx

/-! ### the client satisfies the hypotheses of the generic invariant -/

theorem okI_update {G : Dag} (hw : WF G) {new : Nat} {olds : List Nat} (pub : List Nat)
    (h : ∀ o ∈ olds, Anc G o new) : ∀ i ∈ update true new olds, OkI (le G) pub i := by
  intro i hi
  simp only [update, if_true, List.mem_singleton] at hi
  subst hi
  intro go hgo
  simp only [List.mem_map] at hgo
  obtain ⟨o, ho, rfl⟩ := hgo
  by_cases hne : o = new
  · exact Or.inl ⟨hne, rfl⟩
  · exact Or.inr (below_of_anc_ne hw (h o ho) hne)

/-- the two ways `resolvePlan` succeeds -/
theorem resolvePlan_cases {G : Dag} {heads arg : List Nat} {t : Nat} {olds : List Nat}
    (h : resolvePlan G heads arg = some (t, olds)) :
    (filterHeads G heads = [t] ∧ olds = ancestorHeads G heads) ∨
    (arg = [t] ∧ t < G.length ∧ t ∉ heads ∧ sameSet (parents G t) (filterHeads G heads) = true ∧
      olds = ancestorHeads G heads ++ parents G t) := by
  unfold resolvePlan at h
  split at h
  · rename_i hd hf
    simp only [Option.some.injEq, Prod.mk.injEq] at h
    obtain ⟨rfl, rfl⟩ := h
    exact Or.inl ⟨hf, rfl⟩
  · split at h
    · rename_i new
      split at h
      · rename_i hc
        simp only [Bool.and_eq_true, Bool.not_eq_true', decide_eq_true_eq] at hc
        simp only [Option.some.injEq, Prod.mk.injEq] at h
        obtain ⟨rfl, rfl⟩ := h
        refine Or.inr ⟨rfl, hc.1.1, ?_, hc.2, rfl⟩
        intro hm
        have hc' := List.contains_iff_mem.mpr hm
        have := hc.1.2
        simp only [hc'] at this
        exact absurd this (by simp)
      · simp at h
    · simp at h

theorem resolvePlan_anc {G : Dag} (hw : WF G) {heads arg : List Nat} {t : Nat} {olds : List Nat}
    (h : resolvePlan G heads arg = some (t, olds)) : ∀ o ∈ olds, Anc G o t := by
  intro o ho
  rcases resolvePlan_cases h with ⟨hf, rfl⟩ | ⟨_, _, _, hss, rfl⟩
  · obtain ⟨hoh, _⟩ := mem_ancestorHeads.mp ho
    obtain ⟨f, hfm, hfa⟩ := filtered_above hw hoh
    rw [hf] at hfm
    simp only [List.mem_singleton] at hfm
    subst hfm
    exact hfa
  · rcases List.mem_append.mp ho with ho | ho
    · obtain ⟨hoh, _⟩ := mem_ancestorHeads.mp ho
      obtain ⟨f, hfm, hfa⟩ := filtered_above hw hoh
      exact Anc.step (mem_of_sameSet_left hss hfm) hfa
    · exact Anc.step ho (Anc.refl o)

theorem expand_ok {G : Dag} (hw : WF G) (c : OInstr) (arg heads : List Nat) (loc loc' : Nat)
    (is : List (Instr Nat OInstr)) (pub : List Nat)
    (h : expand true G c arg heads loc = some (loc', is)) : ∀ i ∈ is, OkI (le G) pub i := by
  cases c with
  | read locked =>
    simp only [expand] at h
    split at h
    · simp at h
    · simp only [Option.some.injEq, Prod.mk.injEq] at h
      obtain ⟨_, rfl⟩ := h
      simp
    · split at h
      · simp only [Option.some.injEq, Prod.mk.injEq] at h
        obtain ⟨_, rfl⟩ := h
        intro i hi
        simp only [List.mem_cons, List.not_mem_nil, or_false] at hi
        rcases hi with rfl | rfl <;> trivial
      · split at h
        · simp at h
        · rename_i t olds hpl
          simp only [Option.some.injEq, Prod.mk.injEq] at h
          obtain ⟨_, rfl⟩ := h
          exact okI_update hw pub (resolvePlan_anc hw hpl)

/-- the operations a process can start -/
inductive ValidEvent (G : Dag) : OEvent → Prop
  | resolve (pid : Nat) : ValidEvent G (.start pid progResolve)
  | publish (pid op : Nat) : ValidEvent G (.start pid (progPublish true G op))
  | step (pid : Nat) (arg : List Nat) : ValidEvent G (.step pid arg)
  | crash (pid : Nat) : ValidEvent G (.crash pid)

theorem clientOk_of_valid {G : Dag} (hw : WF G) {s : OState} {e : OEvent} (hv : ValidEvent G e) :
    ClientOk (le G) (opClient true G) s e := by
  cases hv with
  | resolve pid =>
    intro i hi
    simp only [progResolve, List.mem_singleton] at hi
    subst hi; trivial
  | publish pid op =>
    intro i hi
    simp only [progPublish, List.mem_cons] at hi
    rcases hi with rfl | hi
    · trivial
    · exact okI_update hw s.pub (fun o ho => Anc.step ho (Anc.refl o)) i hi
  | step pid arg =>
    intro p c rest loc' is _ _ he
    exact expand_ok hw c arg s.heads p.loc loc' is s.pub he
  | crash pid => trivial

end JjModel.OpHeads
