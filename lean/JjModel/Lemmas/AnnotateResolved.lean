import JjModel.Lemmas.Annotate
/-!
  The early exit of `process_commits` is sound once an omitted parent is counted as an unresolved
  root only once (`/repo` a594350, `countRoot`): when `processNodes` stops, no searched commit has
  pending lines, so every line is either resolved (`Ok`) or left at a commit outside the searched
  set (`Err`).

  Invariant `PInv S b cur st` (`b` = every pending commit is below `b`; `cur` = the line map of the
  commit being processed, `[]` between two nodes):
  * the keys of `commit_source_map` are distinct;
  * a searched key is below `b` (it is still to come in the descending node stream);
  * an unsearched key has lines (it is an unresolved root);
  * `num_unresolved_roots` = number of unsearched keys;
  * a line whose origin is `Err` at a searched commit is pending: it is in the line map of a searched
    key, or in `cur`.
-/
namespace JjModel.Annotate
open JjModel.Dag JjModel.Graph

/-! ### `copyLoop` loses no line -/

theorem copyLoop_acc (hs : List Hunk) (lines nc np : LineMap) :
    (∀ z ∈ nc, z ∈ (copyLoop hs lines nc np).1) ∧ (∀ z ∈ np, z ∈ (copyLoop hs lines nc np).2) := by
  induction hs generalizing lines nc np with
  | nil =>
    refine ⟨fun z hz => ?_, fun z hz => ?_⟩
    · simp only [copyLoop, List.mem_append]; exact Or.inl hz
    · simpa only [copyLoop] using hz
  | cons y ys ih =>
    obtain ⟨cs, ps, cnt⟩ := y
    simp only [copyLoop]
    exact ⟨fun z hz => (ih _ _ _).1 z (List.mem_append_left _ hz),
      fun z hz => (ih _ _ _).2 z (List.mem_append_left _ hz)⟩

/-- every line of the current commit stays there or is moved to the parent -/
theorem copyLoop_complete (hs : List Hunk) (lines nc np : LineMap) {x : Nat × Nat} (hx : x ∈ lines) :
    x ∈ (copyLoop hs lines nc np).1 ∨ ∃ y ∈ (copyLoop hs lines nc np).2, y.2 = x.2 := by
  induction hs generalizing lines nc np with
  | nil => left; simp only [copyLoop, List.mem_append]; exact Or.inr hx
  | cons y ys ih =>
    obtain ⟨cs, ps, cnt⟩ := y
    simp only [copyLoop]
    have h1 : x ∈ (lines.takeWhile fun l => l.1 < cs) ++ (lines.dropWhile fun l => l.1 < cs) := by
      rw [List.takeWhile_append_dropWhile]; exact hx
    rcases List.mem_append.1 h1 with h1 | h1
    · left; exact (copyLoop_acc _ _ _ _).1 x (List.mem_append_right _ h1)
    · have h2 : x ∈ ((lines.dropWhile fun l => l.1 < cs).takeWhile fun l => l.1 < cs + cnt) ++
          ((lines.dropWhile fun l => l.1 < cs).dropWhile fun l => l.1 < cs + cnt) := by
        rw [List.takeWhile_append_dropWhile]; exact h1
      rcases List.mem_append.1 h2 with h2 | h2
      · right
        exact ⟨(ps + (x.1 - cs), x.2),
          (copyLoop_acc _ _ _ _).2 _ (List.mem_append_right _ (List.mem_map.2 ⟨x, h2, rfl⟩)), rfl⟩
      · exact ih _ _ _ h2

/-! ### `assign`, sharper -/

/-- an entry after `assign` is an old entry of a line that was not assigned, or an assigned value -/
theorem assign_get' {orig : List Origin} {ok : Bool} {c : Nat} {m : LineMap} {j : Nat} {o : Origin}
    (h : (assign orig ok c m)[j]? = some o) :
    (orig[j]? = some o ∧ ∀ x ∈ m, x.2 ≠ j) ∨ ∃ l, (l, j) ∈ m ∧ o = ⟨ok, c, l⟩ := by
  induction m generalizing orig with
  | nil => exact Or.inl ⟨h, fun x hx => by cases hx⟩
  | cons x xs ih =>
    obtain ⟨l, s⟩ := x
    simp only [assign] at h
    rcases ih h with ⟨h', hn⟩ | ⟨l', hl', ho⟩
    · rw [List.getElem?_set] at h'
      split at h'
      · rename_i hsj
        split at h'
        · simp only [Option.some.injEq] at h'
          exact Or.inr ⟨l, by rw [hsj]; simp, h'.symm⟩
        · cases h'
      · rename_i hsj
        refine Or.inl ⟨h', ?_⟩
        intro y hy
        rcases List.mem_cons.1 hy with hy | hy
        · subst hy; exact hsj
        · exact hn y hy
    · exact Or.inr ⟨l', List.mem_cons_of_mem _ hl', ho⟩

/-! ### the source map with distinct keys -/

/-- the keys of `commit_source_map` are distinct -/
def Keys (srcs : List (Nat × LineMap)) : Prop := (srcs.map (·.1)).Nodup

theorem Keys.tail {q : Nat × LineMap} {srcs : List (Nat × LineMap)} (h : Keys (q :: srcs)) :
    (∀ p ∈ srcs, p.1 ≠ q.1) ∧ Keys srcs := by
  unfold Keys at h
  rw [List.map_cons, List.nodup_cons] at h
  refine ⟨fun p hp he => h.1 ?_, h.2⟩
  rw [← he]
  exact List.mem_map.2 ⟨p, hp, rfl⟩

theorem mem_removeSrc_iff {srcs : List (Nat × LineMap)} {c : Nat} {p : Nat × LineMap} :
    p ∈ removeSrc srcs c ↔ p ∈ srcs ∧ p.1 ≠ c := by
  unfold removeSrc
  simp [List.mem_filter]

theorem Keys.remove {srcs : List (Nat × LineMap)} (h : Keys srcs) (c : Nat) :
    Keys (removeSrc srcs c) := by
  unfold Keys removeSrc
  exact h.sublist (List.Sublist.map _ List.filter_sublist)

theorem Keys.set {srcs : List (Nat × LineMap)} (h : Keys srcs) (c : Nat) (m : LineMap) :
    Keys (setSrc srcs c m) := by
  unfold Keys setSrc
  rw [List.map_cons, List.nodup_cons]
  refine ⟨?_, h.remove c⟩
  intro hc
  obtain ⟨p, hp, he⟩ := List.mem_map.1 hc
  exact (mem_removeSrc_iff.1 hp).2 he

theorem getSrc_of_mem {srcs : List (Nat × LineMap)} (hk : Keys srcs) {p : Nat × LineMap}
    (hp : p ∈ srcs) : getSrc srcs p.1 = some p.2 := by
  induction srcs with
  | nil => cases hp
  | cons q rest ih =>
    obtain ⟨hne, hk'⟩ := hk.tail
    by_cases hq : q.1 = p.1
    · have hpq : p = q := by
        rcases List.mem_cons.1 hp with h | h
        · exact h
        · exact absurd hq.symm (hne p h)
      subst hpq
      simp [getSrc]
    · have hp' : p ∈ rest := by
        rcases List.mem_cons.1 hp with h | h
        · subst h; exact absurd rfl hq
        · exact h
      have := ih hk' hp'
      unfold getSrc at this ⊢
      rw [List.find?_cons]
      have hb : (q.1 == p.1) = false := by simpa using hq
      simp only [hb]
      exact this

theorem getSrc_none {srcs : List (Nat × LineMap)} {t : Nat} (h : getSrc srcs t = none) :
    ∀ p ∈ srcs, p.1 ≠ t := by
  unfold getSrc at h
  simp only [Option.map_eq_none_iff, List.find?_eq_none, beq_iff_eq] at h
  exact h

/-- the line map found for `t` is the one of every entry with key `t` -/
theorem pm_of_mem {srcs : List (Nat × LineMap)} (hk : Keys srcs) {p : Nat × LineMap} (hp : p ∈ srcs) :
    (getSrc srcs p.1).getD [] = p.2 := by
  rw [getSrc_of_mem hk hp]; rfl

theorem removeSrc_nokey {srcs : List (Nat × LineMap)} {t : Nat} (h : ∀ p ∈ srcs, p.1 ≠ t) :
    removeSrc srcs t = srcs := by
  unfold removeSrc
  rw [List.filter_eq_self]
  intro p hp
  simpa using h p hp

/-! ### counting the unresolved roots -/

/-- number of keys outside the searched set -/
def nroots (S : List Nat) (srcs : List (Nat × LineMap)) : Nat :=
  (srcs.filter fun p => !S.contains p.1).length

theorem nroots_cons_in {S : List Nat} {q : Nat × LineMap} (srcs : List (Nat × LineMap)) (h : q.1 ∈ S) :
    nroots S (q :: srcs) = nroots S srcs := by
  unfold nroots
  rw [List.filter_cons]
  simp [h]

theorem nroots_cons_out {S : List Nat} {q : Nat × LineMap} (srcs : List (Nat × LineMap)) (h : q.1 ∉ S) :
    nroots S (q :: srcs) = nroots S srcs + 1 := by
  unfold nroots
  rw [List.filter_cons]
  simp [h]

theorem nroots_removeSrc_in {S : List Nat} (srcs : List (Nat × LineMap)) {t : Nat} (ht : t ∈ S) :
    nroots S (removeSrc srcs t) = nroots S srcs := by
  induction srcs with
  | nil => rfl
  | cons q rest ih =>
    by_cases hq : q.1 = t
    · have h1 : removeSrc (q :: rest) t = removeSrc rest t := by
        unfold removeSrc; rw [List.filter_cons]; simp [hq]
      rw [h1, ih, nroots_cons_in rest (by rw [hq]; exact ht)]
    · have h1 : removeSrc (q :: rest) t = q :: removeSrc rest t := by
        unfold removeSrc; rw [List.filter_cons]; simp [hq]
      rw [h1]
      by_cases hS : q.1 ∈ S
      · rw [nroots_cons_in _ hS, nroots_cons_in _ hS, ih]
      · rw [nroots_cons_out _ hS, nroots_cons_out _ hS, ih]

theorem nroots_removeSrc_key {S : List Nat} {srcs : List (Nat × LineMap)} (hk : Keys srcs)
    {p : Nat × LineMap} (hp : p ∈ srcs) (ht : p.1 ∉ S) :
    nroots S (removeSrc srcs p.1) + 1 = nroots S srcs := by
  induction srcs with
  | nil => cases hp
  | cons q rest ih =>
    obtain ⟨hne, hk'⟩ := hk.tail
    by_cases hq : q.1 = p.1
    · have h1 : removeSrc (q :: rest) p.1 = rest := by
        have : removeSrc (q :: rest) p.1 = removeSrc rest p.1 := by
          unfold removeSrc; rw [List.filter_cons]; simp [hq]
        rw [this]
        exact removeSrc_nokey (fun r hr => by rw [← hq]; exact hne r hr)
      rw [h1, nroots_cons_out rest (by rw [hq]; exact ht)]
    · have hp' : p ∈ rest := by
        rcases List.mem_cons.1 hp with h | h
        · subst h; exact absurd rfl hq
        · exact h
      have h1 : removeSrc (q :: rest) p.1 = q :: removeSrc rest p.1 := by
        unfold removeSrc; rw [List.filter_cons]; simp [hq]
      rw [h1]
      have := ih hk' hp'
      by_cases hS : q.1 ∈ S
      · rw [nroots_cons_in _ hS, nroots_cons_in _ hS]; exact this
      · rw [nroots_cons_out _ hS, nroots_cons_out _ hS]; omega

/-! ### the parent's new line map -/

theorem mem_newParentMap {diffs : Diffs} {c : Nat} {cur : LineMap} {st : AState} {e : Edge}
    {x : Nat × Nat} :
    x ∈ newParentMap diffs c cur st e ↔
      x ∈ (getSrc st.srcs e.target).getD [] ∨
        x ∈ (copyLoop (lookupDiff diffs c e.target) cur [] []).2 := by
  unfold newParentMap
  simp only
  split
  · rename_i hemp
    rw [List.isEmpty_iff.1 hemp]
    simp
  · exact mem_mergeLte

/-- the three outcomes of one edge, with the conditions that select them -/
theorem processEdge_cases (diffs : Diffs) (c : Nat) (cur : LineMap) (st : AState) (e : Edge) :
    ((newParentMap diffs c cur st e).isEmpty = true ∧
      (processEdge diffs c cur st e).2 = { st with srcs := removeSrc st.srcs e.target }) ∨
    ((newParentMap diffs c cur st e).isEmpty = false ∧ e.isMissing = true ∧
      (processEdge diffs c cur st e).2 =
        { orig := assign st.orig false e.target (newParentMap diffs c cur st e),
          srcs := setSrc st.srcs e.target (newParentMap diffs c cur st e),
          unresolved := countRoot st e }) ∨
    ((newParentMap diffs c cur st e).isEmpty = false ∧ e.isMissing = false ∧
      (processEdge diffs c cur st e).2 =
        { st with srcs := setSrc st.srcs e.target (newParentMap diffs c cur st e) }) := by
  by_cases h1 : (newParentMap diffs c cur st e).isEmpty = true
  · left; exact ⟨h1, by simp [processEdge, h1]⟩
  · have h1' : (newParentMap diffs c cur st e).isEmpty = false := by simpa using h1
    by_cases h2 : e.isMissing = true
    · right; left; exact ⟨h1', h2, by simp [processEdge, h1', h2]⟩
    · have h2' : e.isMissing = false := by simpa using h2
      right; right; exact ⟨h1', h2', by simp [processEdge, h1', h2']⟩

/-! ### the invariant -/

structure PInv (S : List Nat) (b : Nat) (cur : LineMap) (st : AState) : Prop where
  keys : Keys st.srcs
  pend : ∀ p ∈ st.srcs, p.1 ∈ S → p.1 < b
  root : ∀ p ∈ st.srcs, p.1 ∉ S → p.2 ≠ []
  cnt : st.unresolved = nroots S st.srcs
  lines : ∀ (j : Nat) (o : Origin), st.orig[j]? = some o → o.ok = false → o.commit ∈ S →
    (∃ p ∈ st.srcs, p.1 ∈ S ∧ ∃ x ∈ p.2, x.2 = j) ∨ ∃ x ∈ cur, x.2 = j

section pinv
variable {S : List Nat} {diffs : Diffs}

theorem processEdge_pinv {b c : Nat} {cur : LineMap} {st : AState} {e : Edge}
    (hi : PInv S b cur st) (hlt : e.target < b) (hm : e.isMissing = true ↔ e.target ∉ S) :
    PInv S b (processEdge diffs c cur st e).1 (processEdge diffs c cur st e).2 := by
  rw [processEdge_fst]
  -- abbreviations
  have hmem := @mem_newParentMap diffs c cur st e
  have hcomp : ∀ x ∈ cur, x ∈ (copyLoop (lookupDiff diffs c e.target) cur [] []).1 ∨
      ∃ y ∈ (copyLoop (lookupDiff diffs c e.target) cur [] []).2, y.2 = x.2 :=
    fun x hx => copyLoop_complete _ _ _ _ hx
  -- an entry with the key of the target carries the map that was looked up
  have hpm : ∀ p ∈ st.srcs, p.1 = e.target → p.2 = (getSrc st.srcs e.target).getD [] := by
    intro p hp he
    rw [← he, pm_of_mem hi.keys hp]
  -- an unsearched target without lines so far has no entry
  have hnokey : e.target ∉ S → (getSrc st.srcs e.target).getD [] = [] →
      ∀ p ∈ st.srcs, p.1 ≠ e.target := by
    intro hS hemp p hp he
    have := hpm p hp he
    rw [hemp] at this
    exact hi.root p hp (by rw [he]; exact hS) this
  -- the pending lines survive in `setSrc … (newParentMap …)` or in the leftovers
  have hlines_set : ∀ (j : Nat),
      ((∃ p ∈ st.srcs, p.1 ∈ S ∧ ∃ x ∈ p.2, x.2 = j) ∨ ∃ x ∈ cur, x.2 = j) →
      (∃ p ∈ setSrc st.srcs e.target (newParentMap diffs c cur st e), p.1 ∈ S ∧ ∃ x ∈ p.2, x.2 = j) ∨
      (∃ x ∈ (copyLoop (lookupDiff diffs c e.target) cur [] []).1, x.2 = j) ∨
      (∃ y ∈ newParentMap diffs c cur st e, y.2 = j) := by
    intro j h
    rcases h with ⟨p, hp, hpS, x, hx, hxj⟩ | ⟨x, hx, hxj⟩
    · by_cases he : p.1 = e.target
      · right; right
        refine ⟨x, hmem.2 (Or.inl ?_), hxj⟩
        rw [← hpm p hp he]; exact hx
      · left
        exact ⟨p, List.mem_cons_of_mem _ (mem_removeSrc_iff.2 ⟨hp, he⟩), hpS, x, hx, hxj⟩
    · rcases hcomp x hx with h | ⟨y, hy, hyx⟩
      · right; left; exact ⟨x, h, hxj⟩
      · right; right; exact ⟨y, hmem.2 (Or.inr hy), by rw [hyx, hxj]⟩
  have hnil_of : (newParentMap diffs c cur st e).isEmpty = true → ∀ x, x ∉ newParentMap diffs c cur st e := by
    intro hemp x hx; rw [List.isEmpty_iff.1 hemp] at hx; cases hx
  have hne_of : (newParentMap diffs c cur st e).isEmpty = false → newParentMap diffs c cur st e ≠ [] := by
    intro hemp hnil; rw [hnil] at hemp; cases hemp
  rcases processEdge_cases diffs c cur st e with ⟨hemp, h⟩ | ⟨hemp, hmiss, h⟩ | ⟨hemp, hmiss, h⟩
  · -- the parent got no lines and had none: the (empty) entry is removed
    have hnil := hnil_of hemp
    have hpm0 : (getSrc st.srcs e.target).getD [] = [] := by
      cases hg : (getSrc st.srcs e.target).getD [] with
      | nil => rfl
      | cons a as => exact absurd (hmem.2 (Or.inl (by rw [hg]; simp))) (hnil a)
    rw [h]
    refine ⟨hi.keys.remove _, ?_, ?_, ?_, ?_⟩
    · intro p hp; exact hi.pend p (mem_removeSrc_iff.1 hp).1
    · intro p hp; exact hi.root p (mem_removeSrc_iff.1 hp).1
    · show st.unresolved = nroots S (removeSrc st.srcs e.target)
      by_cases hS : e.target ∈ S
      · rw [nroots_removeSrc_in _ hS]; exact hi.cnt
      · rw [removeSrc_nokey (hnokey hS hpm0)]; exact hi.cnt
    · intro j o ho hok hoS
      rcases hi.lines j o ho hok hoS with ⟨p, hp, hpS, x, hx, hxj⟩ | ⟨x, hx, hxj⟩
      · left
        refine ⟨p, mem_removeSrc_iff.2 ⟨hp, ?_⟩, hpS, x, hx, hxj⟩
        intro he
        have := hpm p hp he
        rw [hpm0] at this
        rw [this] at hx; cases hx
      · rcases hcomp x hx with h' | ⟨y, hy, _⟩
        · right; exact ⟨x, h', hxj⟩
        · exact absurd (hmem.2 (Or.inr hy)) (hnil y)
  · -- a missing edge left lines at the omitted parent: they are final (`Err` outside the searched set)
    have htS : e.target ∉ S := hm.1 hmiss
    rw [h]
    refine ⟨hi.keys.set _ _, ?_, ?_, ?_, ?_⟩
    · intro p hp hpS
      rcases mem_setSrc hp with hp | hp
      · subst hp; exact absurd hpS htS
      · exact hi.pend p hp hpS
    · intro p hp hpS
      rcases mem_setSrc hp with hp | hp
      · subst hp; exact hne_of hemp
      · exact hi.root p hp hpS
    · show countRoot st e = nroots S (setSrc st.srcs e.target (newParentMap diffs c cur st e))
      unfold setSrc
      rw [nroots_cons_out _ (show (e.target, newParentMap diffs c cur st e).1 ∉ S from htS)]
      unfold countRoot isNewRoot
      split
      · rename_i hnew
        rw [removeSrc_nokey (hnokey htS (List.isEmpty_iff.1 hnew)), hi.cnt]
      · rename_i hnew
        -- the target already has an entry
        cases hg : getSrc st.srcs e.target with
        | none => rw [hg] at hnew; simp at hnew
        | some m =>
          have hmem' : (e.target, m) ∈ st.srcs := getSrc_mem hg
          have := nroots_removeSrc_key hi.keys hmem' htS
          simp only at this
          rw [hi.cnt]; omega
    · intro j o ho hok hoS
      show (∃ p ∈ setSrc st.srcs e.target (newParentMap diffs c cur st e), p.1 ∈ S ∧ ∃ x ∈ p.2, x.2 = j) ∨
        ∃ x ∈ (copyLoop (lookupDiff diffs c e.target) cur [] []).1, x.2 = j
      have ho' : (assign st.orig false e.target (newParentMap diffs c cur st e))[j]? = some o := ho
      rcases assign_get' ho' with ⟨hold, hnot⟩ | ⟨l, _, rfl⟩
      · rcases hlines_set j (hi.lines j o hold hok hoS) with h1 | h1 | ⟨y, hy, hyj⟩
        · exact Or.inl h1
        · exact Or.inr h1
        · exact absurd hyj (hnot y hy)
      · exact absurd hoS htS
  · -- a walked edge: the lines wait at the parent, which comes later in the stream
    have htS : e.target ∈ S := by
      apply Classical.byContradiction
      intro hn
      rw [hm.2 hn] at hmiss; cases hmiss
    rw [h]
    refine ⟨hi.keys.set _ _, ?_, ?_, ?_, ?_⟩
    · intro p hp hpS
      rcases mem_setSrc hp with hp | hp
      · subst hp; exact hlt
      · exact hi.pend p hp hpS
    · intro p hp hpS
      rcases mem_setSrc hp with hp | hp
      · subst hp; exact absurd htS hpS
      · exact hi.root p hp hpS
    · show st.unresolved = nroots S (setSrc st.srcs e.target (newParentMap diffs c cur st e))
      unfold setSrc
      rw [nroots_cons_in _ (show (e.target, newParentMap diffs c cur st e).1 ∈ S from htS),
        nroots_removeSrc_in _ htS]
      exact hi.cnt
    · intro j o ho hok hoS
      show (∃ p ∈ setSrc st.srcs e.target (newParentMap diffs c cur st e), p.1 ∈ S ∧ ∃ x ∈ p.2, x.2 = j) ∨
        ∃ x ∈ (copyLoop (lookupDiff diffs c e.target) cur [] []).1, x.2 = j
      have ho' : st.orig[j]? = some o := ho
      rcases hlines_set j (hi.lines j o ho' hok hoS) with h1 | h1 | ⟨y, hy, hyj⟩
      · exact Or.inl h1
      · exact Or.inr h1
      · exact Or.inl ⟨(e.target, newParentMap diffs c cur st e), by unfold setSrc; simp, htS, y, hy, hyj⟩

theorem processEdges_pinv {b c : Nat} (es : List Edge) {cur : LineMap} {st : AState}
    (hi : PInv S b cur st)
    (hes : ∀ e ∈ es, e.target < b ∧ (e.isMissing = true ↔ e.target ∉ S)) :
    PInv S b (processEdges diffs c es cur st).1 (processEdges diffs c es cur st).2 := by
  induction es generalizing cur st with
  | nil => exact hi
  | cons e es ih =>
    simp only [processEdges]
    have he := hes e (by simp)
    exact ih (processEdge_pinv hi he.1 he.2) (fun e' he' => hes e' (List.mem_cons_of_mem _ he'))

/-- the rest of the node stream: descending, and exactly the nodes of the searched graph below `b` -/
def Rest (G : Graph) (S : List Nat) (nodes : List (Nat × List Edge)) (b : Nat) : Prop :=
  nodes.Pairwise (fun p q => p.1 > q.1) ∧ b ≤ G.length ∧
    ∀ p, p ∈ nodes ↔ (p ∈ graphOf G S true ∧ p.1 < b)

theorem rest_init (G : Graph) (S : List Nat) : Rest G S (graphOf G S true) G.length := by
  refine ⟨?_, Nat.le_refl _, fun p => ⟨fun hp => ⟨hp, ?_⟩, fun hp => hp.1⟩⟩
  · unfold graphOf
    simp only
    rw [List.pairwise_map]
    exact (descFilter_pairwise _ _).imp (fun h => h)
  · obtain ⟨c, es⟩ := p
    exact (mem_graphOf.1 hp).1

theorem Rest.tail {G : Graph} {S : List Nat} {c : Nat} {es : List Edge}
    {rest : List (Nat × List Edge)} {b : Nat} (h : Rest G S ((c, es) :: rest) b) :
    Rest G S rest c ∧ c < b ∧ (c, es) ∈ graphOf G S true := by
  obtain ⟨hpw, hb, hmem⟩ := h
  have hhead := (hmem (c, es)).1 (by simp)
  have hpw' := List.pairwise_cons.1 hpw
  refine ⟨⟨hpw'.2, by have := hhead.2; simp only at this; omega, fun p => ⟨fun hp => ?_, fun hp => ?_⟩⟩,
    hhead.2, hhead.1⟩
  · exact ⟨((hmem p).1 (List.mem_cons_of_mem _ hp)).1, hpw'.1 p hp⟩
  · have hlt : p.1 < b := by have := hhead.2; simp only at this; omega
    rcases List.mem_cons.1 ((hmem p).2 ⟨hp.1, hlt⟩) with h | h
    · rw [h] at hp; exact absurd hp.2 (Nat.lt_irrefl _)
    · exact h

/-- a pending searched commit is a node of the rest of the stream -/
theorem pending_in_rest {G : Graph} {S : List Nat} {nodes : List (Nat × List Edge)} {b : Nat}
    (hr : Rest G S nodes b) {t : Nat} (htS : t ∈ S) (hlt : t < b) : ∃ es, (t, es) ∈ nodes := by
  obtain ⟨_, hb, hmem⟩ := hr
  exact ⟨_, (hmem _).2 ⟨mem_graphOf.2 ⟨by omega, htS, rfl⟩, hlt⟩⟩

theorem processCommit_pinv {G : Graph} (hwf : WF G) {b c : Nat} {es : List Edge}
    {rest : List (Nat × List Edge)} (hr : Rest G S ((c, es) :: rest) b) {st : AState}
    (hi : PInv S b [] st) : PInv S c [] (processCommit diffs c es st) := by
  obtain ⟨hr', hcb, hnode⟩ := hr.tail
  obtain ⟨hclt, hcS, hes⟩ := mem_graphOf.1 hnode
  -- every pending commit is at or below `c`
  have hle : ∀ p ∈ st.srcs, p.1 ∈ S → p.1 ≤ c := by
    intro p hp hpS
    obtain ⟨es', hes'⟩ := pending_in_rest hr hpS (hi.pend p hp hpS)
    rcases List.mem_cons.1 hes' with h | h
    · have : p.1 = c := congrArg Prod.fst h
      omega
    · have := (List.pairwise_cons.1 hr.1).1 _ h
      simp only at this; omega
  unfold processCommit
  split
  · rename_i hnone
    refine ⟨hi.keys, ?_, hi.root, hi.cnt, hi.lines⟩
    intro p hp hpS
    have h1 := hle p hp hpS
    have h2 := getSrc_none hnone p hp
    omega
  · rename_i cur hcur
    have hcurmem : (c, cur) ∈ st.srcs := getSrc_mem hcur
    have hi0 : PInv S c cur { st with srcs := removeSrc st.srcs c } := by
      refine ⟨hi.keys.remove _, ?_, ?_, ?_, ?_⟩
      · intro p hp hpS
        obtain ⟨hp1, hp2⟩ := mem_removeSrc_iff.1 hp
        have := hle p hp1 hpS
        omega
      · intro p hp; exact hi.root p (mem_removeSrc_iff.1 hp).1
      · show st.unresolved = nroots S (removeSrc st.srcs c)
        rw [nroots_removeSrc_in _ hcS]; exact hi.cnt
      · intro j o ho hok hoS
        rcases hi.lines j o ho hok hoS with ⟨p, hp, hpS, x, hx, hxj⟩ | ⟨x, hx, _⟩
        · by_cases he : p.1 = c
          · right
            have h1 := pm_of_mem hi.keys hp
            rw [he, hcur] at h1
            exact ⟨x, by rw [show cur = p.2 from h1]; exact hx, hxj⟩
          · left; exact ⟨p, mem_removeSrc_iff.2 ⟨hp, he⟩, hpS, x, hx, hxj⟩
        · cases hx
    have hrow := nodeEdges_rowOK (S := S) (skipT := true) hwf hclt
    have hedges : ∀ e ∈ es, e.target < c ∧ (e.isMissing = true ↔ e.target ∉ S) := by
      intro e he
      rw [hes] at he
      exact ⟨(hrow.ok e he).lt hwf, (hrow.ok e he).missing_iff⟩
    have k := processEdges_pinv (diffs := diffs) (c := c) es hi0 hedges
    refine ⟨k.keys, k.pend, k.root, k.cnt, ?_⟩
    intro j o ho hok hoS
    have ho' : (assign (processEdges diffs c es cur { st with srcs := removeSrc st.srcs c }).2.orig true c
        (processEdges diffs c es cur { st with srcs := removeSrc st.srcs c }).1)[j]? = some o := ho
    rcases assign_get' ho' with ⟨hold, hnot⟩ | ⟨l, _, rfl⟩
    · rcases k.lines j o hold hok hoS with h1 | ⟨x, hx, hxj⟩
      · exact Or.inl h1
      · exact absurd hxj (hnot x hx)
    · cases hok

/-- when `processNodes` returns, no `Err` origin is at a searched commit -/
theorem processNodes_resolved {G : Graph} (hwf : WF G) (nodes : List (Nat × List Edge)) {b : Nat}
    (hr : Rest G S nodes b) {st : AState} (hi : PInv S b [] st) :
    ∀ (j : Nat) (o : Origin), (processNodes diffs nodes st).orig[j]? = some o → o.ok = false →
      o.commit ∉ S := by
  induction nodes generalizing st b with
  | nil =>
    intro j o ho hok hoS
    simp only [processNodes] at ho
    rcases hi.lines j o ho hok hoS with ⟨p, hp, hpS, _⟩ | ⟨x, hx, _⟩
    · obtain ⟨es, hes⟩ := pending_in_rest hr hpS (hi.pend p hp hpS)
      cases hes
    · cases hx
  | cons p ps ih =>
    obtain ⟨c, es⟩ := p
    simp only [processNodes]
    have h1 := processCommit_pinv (diffs := diffs) hwf hr hi
    split
    · rename_i hstop
      intro j o ho hok hoS
      have hlen : (processCommit diffs c es st).srcs.length = (processCommit diffs c es st).unresolved := by
        simpa using hstop
      rw [h1.cnt] at hlen
      have hall := List.length_filter_eq_length_iff.1 hlen.symm
      rcases h1.lines j o ho hok hoS with ⟨q, hq, hqS, _⟩ | ⟨x, hx, _⟩
      · have hq' : q.1 ∉ S := by simpa using hall q hq
        exact hq' hqS
      · cases hx
    · exact ih hr.tail.1 h1

theorem initState_pinv {G : Graph} {start : Nat} (hS : start ∈ S) (hlt : start < G.length) (n : Nat) :
    PInv S G.length [] (initState start n) := by
  refine ⟨?_, ?_, ?_, ?_, ?_⟩
  · simp [initState, Keys]
  · intro p hp _
    simp only [initState, List.mem_singleton] at hp
    subst hp; exact hlt
  · intro p hp hpS
    simp only [initState, List.mem_singleton] at hp
    subst hp; exact absurd hS hpS
  · show 0 = nroots S [(start, _)]
    rw [nroots_cons_in _ (show (start, _).1 ∈ S from hS)]
    rfl
  · intro j o ho _ _
    left
    simp only [initState, List.getElem?_map] at ho
    cases hr : (List.range n)[j]? with
    | none => rw [hr] at ho; cases ho
    | some i =>
      have hij : i = j ∧ j < n := by
        have := List.getElem?_eq_some_iff.1 hr
        obtain ⟨h1, h2⟩ := this
        simp only [List.length_range] at h1
        exact ⟨by simpa using h2.symm, h1⟩
      refine ⟨(start, (List.range n).map fun i => (i, i)), by simp [initState], hS, (j, j), ?_, rfl⟩
      exact List.mem_map.2 ⟨j, List.mem_range.2 hij.2, rfl⟩

end pinv

end JjModel.Annotate
