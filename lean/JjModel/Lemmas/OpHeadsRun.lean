import JjModel.Lemmas.OpHeads
/-!
  Executing the op-heads client with one process moving: the machine performs an update
  `add t olds` + removals exactly as the pure function `applyUpdate`.
-/
namespace JjModel.OpHeads
open JjModel.HeadProto

theorem mkProc_op (a : Bool) (G : Dag) (loc : Nat) (is : List (Instr Nat OInstr)) :
    mkProc (opClient a G) loc is = { loc := loc, instrs := is } := by
  simp [mkProc, opClient]

theorem getElem?_set_self_of_some {β : Type} {l : List β} {i : Nat} {p a : β} (h : l[i]? = some p) :
    (l.set i a)[i]? = some a := by
  have hi : i < l.length := (List.getElem?_eq_some_iff.mp h).1
  simp [hi]

theorem run_append {w : Bool} {cl : Client Nat OInstr Nat} (s : OState) (es1 es2 : List OEvent) :
    run w cl s (es1 ++ es2) = match run w cl s es1 with
      | none => none
      | some t => run w cl t es2 := by
  induction es1 generalizing s with
  | nil => simp [run]
  | cons e es ih =>
    simp only [List.cons_append, run]
    cases apply w cl s e with
    | none => rfl
    | some u => exact ih u

theorem run_cons_some {w : Bool} {cl : Client Nat OInstr Nat} {s u : OState} {e : OEvent} (es : List OEvent)
    (h : apply w cl s e = some u) : run w cl s (e :: es) = run w cl u es := by
  simp only [run, h]

theorem pick_head (o : Nat) (os : List Nat) : pick [o] (o :: os) = some 0 := by
  simp [pick]

/-- the removals of one update, performed by `pid` with nobody else moving -/
theorem run_rms {w a : Bool} {G : Dag} {pid : Nat} : ∀ (pend : List Nat) (s : OState) (p : Proc Nat OInstr Nat)
    (new : Nat) (rest : List (Instr Nat OInstr)),
    s.procs[pid]? = some p → p.instrs = rmsInstr new pend ++ rest →
    ∃ t, run w (opClient a G) s (pend.map fun o => Event.step pid [o]) = some t
      ∧ t.heads = pend.foldl (fun h o => removeHead o h) s.heads ∧ t.pub = s.pub
      ∧ ∃ q, t.procs[pid]? = some q ∧ q.instrs = rest ∧ q.loc = p.loc := by
  intro pend
  induction pend with
  | nil =>
    intro s p new rest hp hi
    exact ⟨s, rfl, rfl, rfl, p, hp, by simpa [rmsInstr] using hi, rfl⟩
  | cons o os ih =>
    intro s p new rest hp hi
    have hi' : p.instrs = .rms new (o :: os) :: rest := by simpa [rmsInstr] using hi
    have hstep : stepProc w (opClient a G) s pid [o] = some
        { heads := removeHead o s.heads, pub := s.pub,
          procs := s.procs.set pid { loc := p.loc, instrs := rmsInstr new os ++ rest },
          lock := releaseIfDone pid (rmsInstr new os ++ rest) s.lock } := by
      simp only [stepProc, hp, hi']
      have : (opClient a G).pick [o] (o :: os) = some 0 := pick_head o os
      simp only [this, List.getElem?_cons_zero, List.eraseIdx_cons_zero, mkProc_op]
    obtain ⟨t, hrun, hh, hpub, q, hq, hqi, hql⟩ := ih
      { heads := removeHead o s.heads, pub := s.pub,
        procs := s.procs.set pid { loc := p.loc, instrs := rmsInstr new os ++ rest },
        lock := releaseIfDone pid (rmsInstr new os ++ rest) s.lock }
      { loc := p.loc, instrs := rmsInstr new os ++ rest } new rest
      (getElem?_set_self_of_some hp) rfl
    refine ⟨t, ?_, ?_, ?_, q, hq, hqi, hql⟩
    · simp only [List.map_cons, run, apply, hstep]
      exact hrun
    · rw [hh]; rfl
    · rw [hpub]

/-- a whole update (`add`, then every removal) performed by `pid` with nobody else moving -/
theorem run_update {w a : Bool} {G : Dag} {pid : Nat} (s : OState) (p : Proc Nat OInstr Nat)
    (t : Nat) (olds : List (Bool × Nat)) (rest : List (Instr Nat OInstr))
    (hp : s.procs[pid]? = some p) (hi : p.instrs = .add t olds :: rest) :
    ∃ u, run w (opClient a G) s (.step pid [] :: (pending t olds).map fun o => Event.step pid [o]) = some u
      ∧ u.heads = applyUpdate s.heads t olds ∧ u.pub = t :: s.pub
      ∧ ∃ q, u.procs[pid]? = some q ∧ q.instrs = rest ∧ q.loc = p.loc := by
  have hstep : stepProc w (opClient a G) s pid [] = some
      { heads := insertHead t s.heads, pub := t :: s.pub,
        procs := s.procs.set pid { loc := p.loc, instrs := rmsInstr t (pending t olds) ++ rest },
        lock := releaseIfDone pid (rmsInstr t (pending t olds) ++ rest) s.lock } := by
    simp only [stepProc, hp, hi, mkProc_op]
  obtain ⟨u, hrun, hh, hpub, q, hq, hqi, hql⟩ := run_rms (w := w) (a := a) (G := G) (pid := pid) (pending t olds)
    { heads := insertHead t s.heads, pub := t :: s.pub,
      procs := s.procs.set pid { loc := p.loc, instrs := rmsInstr t (pending t olds) ++ rest },
      lock := releaseIfDone pid (rmsInstr t (pending t olds) ++ rest) s.lock }
    { loc := p.loc, instrs := rmsInstr t (pending t olds) ++ rest } t rest
    (getElem?_set_self_of_some hp) rfl
  refine ⟨u, ?_, ?_, hpub, q, hq, hqi, hql⟩
  · simp only [run, apply, hstep]
    exact hrun
  · rw [hh]; rfl

end JjModel.OpHeads
