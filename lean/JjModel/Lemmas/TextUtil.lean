import JjModel.Model.TextUtil
/-! Helper lemmas for C44: width arithmetic, the two scanning loops, first-fit wrapping. -/
namespace JjModel.TextUtil

variable (cw : Char → Nat)

/-! ### W -/

theorem W_append (a b : List Char) : W cw (a ++ b) = W cw a + W cw b := by
  induction a with
  | nil => simp [W]
  | cons c cs ih => simp [W, ih]; omega

theorem W_reverse (s : List Char) : W cw s.reverse = W cw s := by
  induction s with
  | nil => rfl
  | cons c cs ih => simp [W, W_append, ih]; omega

theorem W_take_add_drop (s : List Char) (n : Nat) : W cw (s.take n) + W cw (s.drop n) = W cw s := by
  rw [← W_append, List.take_append_drop]

theorem W_take_le (s : List Char) (n : Nat) : W cw (s.take n) ≤ W cw s := by
  have := W_take_add_drop cw s n; omega

theorem W_trimZero (s : List Char) : W cw (trimZero cw s) = W cw s := by
  induction s with
  | nil => rfl
  | cons c cs ih =>
    simp only [trimZero]
    split
    · next h => simp [W, ih, h]
    · rfl

theorem W_replicate (c : Char) (k : Nat) : W cw (List.replicate k c) = k * cw c := by
  induction k with
  | zero => simp [W]
  | succ n ih => simp [List.replicate_succ, W, ih, Nat.succ_mul]; omega

theorem W_padding (fill : List Char) (k : Nat) : W cw (padding fill k) = k * W cw fill := by
  induction k with
  | zero => simp [padding, W]
  | succ n ih =>
    simp only [padding, List.replicate_succ, List.flatten_cons] at ih ⊢
    rw [W_append, ih, Nat.succ_mul]; omega

theorem W_takeEnd (s : List Char) (n : Nat) : W cw (takeEnd n s) = W cw (s.reverse.take n) := by
  simp [takeEnd, W_reverse]

theorem W_dropEnd (s : List Char) (n : Nat) : W cw (dropEnd n s) = W cw (s.reverse.drop n) := by
  simp [dropEnd, W_reverse]

theorem dropEnd_append_takeEnd (s : List Char) (n : Nat) : dropEnd n s ++ takeEnd n s = s := by
  have : (s.reverse.take n ++ s.reverse.drop n).reverse = s := by
    rw [List.take_append_drop]; simp
  rw [List.reverse_append] at this
  exact this

theorem takeEnd_length_self (s : List Char) : takeEnd s.length s = s := by
  have : s.reverse.take s.length = s.reverse := List.take_of_length_le (by simp)
  simp [takeEnd, this]

/-! ### the scanning loops -/

/-- `scanFit`: what was taken is a prefix whose width is reported, never above `max` (if the start
    value was not), everything is taken when everything fits, and the next character does not fit. -/
theorem scanFit_spec (max : Nat) (s : List Char) (acc : Nat) :
    (scanFit cw max s acc).1 ≤ s.length ∧
    (scanFit cw max s acc).2 = acc + W cw (s.take (scanFit cw max s acc).1) ∧
    (acc ≤ max → (scanFit cw max s acc).2 ≤ max) ∧
    (acc + W cw s ≤ max → (scanFit cw max s acc).1 = s.length) := by
  induction s generalizing acc with
  | nil => simp [scanFit, W]
  | cons c cs ih =>
    simp only [scanFit]
    split
    · next h => simp [W]; omega
    · next h =>
      obtain ⟨h1, h2, h3, h4⟩ := ih (acc + cw c)
      refine ⟨by simp; omega, ?_, ?_, ?_⟩
      · simp [W, h2]; omega
      · intro _; exact h3 (by omega)
      · intro h5; simp [W] at h5; simp; exact h4 (by omega)

theorem scanFit_all (max : Nat) (s : List Char) (h : W cw s ≤ max) :
    scanFit cw max s 0 = (s.length, W cw s) := by
  obtain ⟨_, h2, _, h4⟩ := scanFit_spec cw max s 0
  have h5 := h4 (by omega)
  rw [h5] at h2
  simp at h2
  exact Prod.ext h5 h2

/-- `scanSkip`: what was skipped is a prefix whose width is reported; it reaches `width` unless the
    text ran out. -/
theorem scanSkip_spec (width : Nat) (s : List Char) (acc : Nat) :
    (scanSkip cw width s acc).1 ≤ s.length ∧
    (scanSkip cw width s acc).2 = acc + W cw (s.take (scanSkip cw width s acc).1) ∧
    ((scanSkip cw width s acc).2 ≥ width ∨ (scanSkip cw width s acc).1 = s.length) := by
  induction s generalizing acc with
  | nil => simp [scanSkip, W]
  | cons c cs ih =>
    simp only [scanSkip]
    split
    · next h => simp [W]; omega
    · next h =>
      obtain ⟨h1, h2, h3⟩ := ih (acc + cw c)
      refine ⟨by simp; omega, ?_, ?_⟩
      · simp [W, h2]; omega
      · rcases h3 with h3 | h3
        · left; exact h3
        · right; simp; exact h3

/-! ### pieces: every cut is a `take` / `drop` of the input -/

theorem takeEnd_eq_drop (s : List Char) (n : Nat) : takeEnd n s = s.drop (s.length - n) := by
  simp [takeEnd, List.reverse_take]

theorem dropEnd_eq_take (s : List Char) (n : Nat) : dropEnd n s = s.take (s.length - n) := by
  simp [dropEnd, List.reverse_drop]

theorem trimZero_eq_drop (s : List Char) : ∃ k, trimZero cw s = s.drop k := by
  induction s with
  | nil => exact ⟨0, rfl⟩
  | cons c cs ih =>
    simp only [trimZero]
    split
    · obtain ⟨k, hk⟩ := ih; exact ⟨k + 1, by simp [hk]⟩
    · exact ⟨0, rfl⟩

/-- `keptStart` keeps the width of the kept suffix: it only ever removes zero-width characters -/
theorem W_keptStart (n : Nat) (s : List Char) : W cw (keptStart cw n s) = W cw (s.reverse.take n) := by
  unfold keptStart
  split
  · next h =>
    have : s.reverse.take s.length = s.reverse := List.take_of_length_le (by simp)
    rw [h, this, W_reverse]
  · rw [W_trimZero, W_takeEnd]

/-- `keptStart` is a suffix of the text -/
theorem keptStart_eq_drop (n : Nat) (s : List Char) : ∃ k, keptStart cw n s = s.drop k := by
  unfold keptStart
  split
  · exact ⟨0, rfl⟩
  · obtain ⟨j, hj⟩ := trimZero_eq_drop cw (takeEnd n s)
    exact ⟨s.length - n + j, by rw [hj, takeEnd_eq_drop, List.drop_drop]⟩

/-- the third branch of `elide_*`: after skipping, what is left of `kept` has width `tw - skipped`
    and, together with an ellipsis of width `ew ≤ max`, fits into `max` -/
theorem skip_bound (kept : List Char) (tw ew max : Nat) (htw : tw = W cw kept) (hew : ew ≤ max) :
    W cw (kept.drop (scanSkip cw (tw - (max - ew)) kept 0).1) = tw - (scanSkip cw (tw - (max - ew)) kept 0).2 ∧
      ew + (tw - (scanSkip cw (tw - (max - ew)) kept 0).2) ≤ max := by
  obtain ⟨s1, s2, s3⟩ := scanSkip_spec cw (tw - (max - ew)) kept 0
  have hsplit := W_take_add_drop cw kept (scanSkip cw (tw - (max - ew)) kept 0).1
  simp only [Nat.zero_add] at s2
  rcases s3 with s3 | s3
  · constructor <;> omega
  · have h4 : kept.take (scanSkip cw (tw - (max - ew)) kept 0).1 = kept := by
      rw [s3]; exact List.take_length
    rw [h4] at s2 hsplit
    constructor <;> omega

/-! ### wrapping -/

/-- width of a sequence of words including the whitespace after each of them -/
def fullW (ww : List Char → Nat) : List Word → Nat
  | [] => 0
  | x :: xs => ww x.word + x.ws + fullW ww xs

/-- width of a wrapped line: like `fullW` without the whitespace after the last word -/
def groupW (ww : List Char → Nat) : List Word → Nat
  | [] => 0
  | [x] => ww x.word
  | x :: y :: ys => ww x.word + x.ws + groupW ww (y :: ys)

theorem fullW_append (ww : List Char → Nat) (a b : List Word) : fullW ww (a ++ b) = fullW ww a + fullW ww b := by
  induction a with
  | nil => simp [fullW]
  | cons x xs ih => simp [fullW, ih]; omega

theorem groupW_snoc (ww : List Char → Nat) (l : List Word) (x : Word) :
    groupW ww (l ++ [x]) = fullW ww l + ww x.word := by
  induction l with
  | nil => simp [groupW, fullW]
  | cons y ys ih =>
    cases ys with
    | nil => simp [groupW, fullW]
    | cons z zs =>
      simp only [List.cons_append, groupW, fullW] at ih ⊢
      omega

theorem groupW_congr (f g : List Char → Nat) (l : List Word) (h : ∀ x ∈ l, f x.word = g x.word) :
    groupW f l = groupW g l := by
  induction l with
  | nil => rfl
  | cons y ys ih =>
    cases ys with
    | nil => simp [groupW, h y (by simp)]
    | cons z zs =>
      simp only [groupW]
      rw [ih (fun x hx => h x (by simp [hx])), h y (by simp)]

/-- the text of a wrapped line is as wide as `groupW` says (a space is one column wide) -/
theorem W_lineOf (l : List Word) (hsp : cw ' ' = 1) : W cw (lineOf l) = groupW (W cw) l := by
  induction l with
  | nil => rfl
  | cons y ys ih =>
    cases ys with
    | nil => simp [lineOf, groupW]
    | cons z zs =>
      simp only [lineOf, groupW, W_append, W_replicate, hsp, Nat.mul_one] at ih ⊢
      omega

/-- first-fit wrapping: every produced line is a single word or fits; its words are input words -/
theorem wrapAux_spec (ww : List Char → Nat) (width : Nat) (xs cur : List Word) (w : Nat)
    (hw : w = fullW ww cur.reverse)
    (hcur : cur.length ≤ 1 ∨ groupW ww cur.reverse ≤ width) :
    ∀ g ∈ wrapFirstFitAux ww width xs cur w,
      (g.length ≤ 1 ∨ groupW ww g ≤ width) ∧ (∀ x ∈ g, x ∈ cur ∨ x ∈ xs) := by
  induction xs generalizing cur w with
  | nil =>
    intro g hg
    simp only [wrapFirstFitAux, List.mem_singleton] at hg
    subst hg
    exact ⟨by simpa using hcur, fun x hx => Or.inl (by simpa using hx)⟩
  | cons x xs ih =>
    intro g hg
    simp only [wrapFirstFitAux] at hg
    split at hg
    · next hbr =>
      rcases List.mem_cons.mp hg with rfl | hg
      · exact ⟨by simpa using hcur, fun y hy => Or.inl (by simpa using hy)⟩
      · obtain ⟨h1, h2⟩ := ih [x] (ww x.word + x.ws) (by simp [fullW]) (Or.inl (by simp)) g hg
        refine ⟨h1, fun y hy => ?_⟩
        rcases h2 y hy with h | h
        · right; simp at h; simp [h]
        · right; simp [h]
    · next hbr =>
      have hw' : w + ww x.word + x.ws = fullW ww (x :: cur).reverse := by
        simp [fullW_append, fullW, hw]; omega
      have hcur' : (x :: cur).length ≤ 1 ∨ groupW ww (x :: cur).reverse ≤ width := by
        cases cur with
        | nil => left; simp
        | cons c cs =>
          right
          have : ¬ (w + ww x.word > width) := fun h => hbr ⟨h, by simp⟩
          simp only [List.reverse_cons] at hw ⊢
          rw [groupW_snoc, ← hw]; omega
      obtain ⟨h1, h2⟩ := ih (x :: cur) (w + ww x.word + x.ws) hw' hcur' g hg
      refine ⟨h1, fun y hy => ?_⟩
      rcases h2 y hy with h | h
      · rcases List.mem_cons.mp h with rfl | h
        · right; simp
        · left; exact h
      · right; simp [h]

/-- without ESC the ANSI-aware measure of textwrap is the plain sum -/
theorem displayWidth_aux (s : List Char) (acc : Nat) (h : ESC ∉ s) :
    s.foldl (dwStep cw) (.normal, acc) = (.normal, acc + W cw s) := by
  induction s generalizing acc with
  | nil => simp [W]
  | cons c cs ih =>
    have hc : c ≠ ESC := fun e => h (by simp [e])
    have hcs : ESC ∉ cs := fun m => h (by simp [m])
    simp only [List.foldl_cons, dwStep, hc, if_false]
    rw [ih _ hcs]; simp [W]; omega

theorem displayWidth_eq_W (s : List Char) (h : ESC ∉ s) : displayWidth cw s = W cw s := by
  simp [displayWidth, displayWidth_aux cw s 0 h]

/-- the characters of the words come from the line, and words contain no space -/
theorem splitWordsAux_chars (cs cur : List Char) (st : Option Nat) :
    ∀ x ∈ splitWordsAux cs cur st, ∀ c ∈ x.word, (c ∈ cs ∨ c ∈ cur) ∧ (' ' ∉ cur → c ≠ ' ') := by
  induction cs generalizing cur st with
  | nil =>
    intro x hx c hc
    cases st with
    | none =>
      simp only [splitWordsAux] at hx
      split at hx
      · simp at hx
      · simp at hx; subst hx
        simp at hc
        exact ⟨Or.inr hc, fun hn e => hn (e ▸ hc)⟩
    | some k =>
      simp only [splitWordsAux, List.mem_singleton] at hx; subst hx
      simp at hc
      exact ⟨Or.inr hc, fun hn e => hn (e ▸ hc)⟩
  | cons d ds ih =>
    intro x hx c hc
    cases st with
    | none =>
      simp only [splitWordsAux] at hx
      split at hx
      · obtain ⟨h1, h2⟩ := ih cur (some 1) x hx c hc
        exact ⟨by rcases h1 with h | h <;> simp [h], h2⟩
      · next hd =>
        obtain ⟨h1, h2⟩ := ih (d :: cur) none x hx c hc
        refine ⟨?_, fun hn => h2 ?_⟩
        · rcases h1 with h | h
          · simp [h]
          · rcases List.mem_cons.mp h with rfl | h <;> simp [*]
        · intro hm; rcases List.mem_cons.mp hm with e | hm
          · exact hd e.symm
          · exact hn hm
    | some k =>
      simp only [splitWordsAux] at hx
      split at hx
      · obtain ⟨h1, h2⟩ := ih cur (some (k + 1)) x hx c hc
        exact ⟨by rcases h1 with h | h <;> simp [h], h2⟩
      · next hd =>
        rcases List.mem_cons.mp hx with rfl | hx
        · simp at hc
          exact ⟨Or.inr hc, fun hn e => hn (e ▸ hc)⟩
        · obtain ⟨h1, h2⟩ := ih [d] none x hx c hc
          refine ⟨?_, fun _ => h2 ?_⟩
          · rcases h1 with h | h
            · simp [h]
            · simp at h; simp [h]
          · intro hm; simp at hm; exact hd hm.symm

theorem splitWords_chars (line : List Char) :
    ∀ x ∈ splitWords line, (∀ c ∈ x.word, c ∈ line) ∧ ' ' ∉ x.word := by
  intro x hx
  refine ⟨fun c hc => ?_, fun hm => ?_⟩
  · rcases (splitWordsAux_chars line [] none x hx c hc).1 with h | h
    · exact h
    · simp at h
  · exact (splitWordsAux_chars line [] none x hx ' ' hm).2 (by simp) rfl

/-! ### wrapping consumes nothing but spaces -/

def noSp (s : List Char) : List Char := s.filter (fun c => c != ' ')

theorem wrapAux_flatten (ww : List Char → Nat) (width : Nat) (xs cur : List Word) (w : Nat) :
    (wrapFirstFitAux ww width xs cur w).flatten = cur.reverse ++ xs := by
  induction xs generalizing cur w with
  | nil => simp [wrapFirstFitAux]
  | cons x xs ih =>
    simp only [wrapFirstFitAux]
    split
    · simp [ih]
    · simp [ih]

theorem noSp_append (a b : List Char) : noSp (a ++ b) = noSp a ++ noSp b := by simp [noSp]

theorem noSp_replicate (k : Nat) : noSp (List.replicate k ' ') = [] := by
  induction k with
  | zero => rfl
  | succ n ih => simp only [List.replicate_succ, noSp, List.filter_cons] at ih ⊢; simp

theorem noSp_lineOf (g : List Word) : noSp (lineOf g) = g.flatMap (fun x => noSp x.word) := by
  induction g with
  | nil => rfl
  | cons y ys ih =>
    cases ys with
    | nil => simp [lineOf]
    | cons z zs =>
      simp only [lineOf, noSp_append, noSp_replicate, List.flatMap_cons] at ih ⊢
      rw [ih]; simp

theorem splitWordsAux_words (cs cur : List Char) (st : Option Nat) :
    (splitWordsAux cs cur st).flatMap (fun x => x.word) = cur.reverse ++ noSp cs := by
  induction cs generalizing cur st with
  | nil =>
    cases st with
    | none =>
      simp only [splitWordsAux]
      split
      · next h => simp [noSp, List.isEmpty_iff.mp h]
      · simp [noSp]
    | some k => simp [splitWordsAux, noSp]
  | cons d ds ih =>
    cases st with
    | none =>
      simp only [splitWordsAux]
      split
      · next h => rw [ih]; simp [noSp, h]
      · next h => rw [ih]; simp [noSp, h]
    | some k =>
      simp only [splitWordsAux]
      split
      · next h => rw [ih]; simp [noSp, h]
      · next h => simp only [List.flatMap_cons]; rw [ih]; simp [noSp, h]

theorem splitOn_chars (sep : Char) (s : List Char) : ∀ l ∈ splitOn sep s, ∀ c ∈ l, c ∈ s := by
  induction s with
  | nil => intro l hl c hc; simp [splitOn] at hl; subst hl; simp at hc
  | cons d ds ih =>
    intro l hl c hc
    simp only [splitOn] at hl
    split at hl
    · rcases List.mem_cons.mp hl with rfl | hl
      · simp at hc
      · simp [ih l hl c hc]
    · split at hl
      · simp at hl; subst hl; simp at hc; simp [hc]
      · next h t heq =>
        rcases List.mem_cons.mp hl with rfl | hl
        · rcases List.mem_cons.mp hc with rfl | hc
          · simp
          · simp [ih h (by simp [heq]) c hc]
        · simp [ih l (by simp [heq, hl]) c hc]

end JjModel.TextUtil
