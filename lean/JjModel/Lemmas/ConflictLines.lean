import JjModel.Model.ConflictsSpec
/-!
  Line structure (`linesWT`) and marker-line lemmas for the conflict model.
-/
namespace JjModel.Conflicts
open JjModel.Generated

/-- no line feed inside -/
def NoLF (s : Bytes) : Prop := ∀ b ∈ s, b ≠ LF

/-- a terminated line: `body ++ "\n"` with no other `\n` -/
def Line (l : Bytes) : Prop := ∃ body, l = body ++ [LF] ∧ NoLF body

instance (s : Bytes) : Decidable (NoLF s) := by unfold NoLF; infer_instance

theorem NoLF_nil : NoLF [] := by simp [NoLF]

theorem NoLF_append {a b : Bytes} (ha : NoLF a) (hb : NoLF b) : NoLF (a ++ b) := by
  intro x hx; rcases List.mem_append.mp hx with h | h
  · exact ha x h
  · exact hb x h

theorem NoLF_cons {a : UInt8} {b : Bytes} (ha : a ≠ LF) (hb : NoLF b) : NoLF (a :: b) := by
  intro x hx; rcases List.mem_cons.mp hx with h | h
  · exact h ▸ ha
  · exact hb x h

theorem NoLF_replicate {n : Nat} {c : UInt8} (hc : c ≠ LF) : NoLF (List.replicate n c) := by
  intro x hx; rw [List.mem_replicate] at hx; exact hx.2 ▸ hc

theorem Line_cons {p : UInt8} {l : Bytes} (hp : p ≠ LF) (hl : Line l) : Line (p :: l) := by
  obtain ⟨body, rfl, hb⟩ := hl
  exact ⟨p :: body, by simp, NoLF_cons hp hb⟩

theorem Line_LF : Line [LF] := ⟨[], by simp, NoLF_nil⟩

theorem Line_ne_nil {l : Bytes} (h : Line l) : l ≠ [] := by
  obtain ⟨body, rfl, _⟩ := h; simp

/-! ### `linesWT` -/

theorem linesWT_ne_nil {s : Bytes} (h : s ≠ []) : linesWT s ≠ [] := by
  cases s with
  | nil => exact absurd rfl h
  | cons b rest =>
    simp only [linesWT]
    split
    · simp
    · split <;> simp

theorem linesWT_flatten (s : Bytes) : (linesWT s).flatten = s := by
  induction s with
  | nil => simp [linesWT]
  | cons b rest ih =>
    simp only [linesWT]
    split
    · simp [ih]
    · split
      · rename_i h; rw [h] at ih; simp at ih; simp [← ih]
      · rename_i l ls h; rw [h] at ih; simp at ih; simp [← ih]

theorem linesWT_body (body rest : Bytes) (hb : NoLF body) :
    linesWT (body ++ LF :: rest) = (body ++ [LF]) :: linesWT rest := by
  induction body with
  | nil => simp [linesWT]
  | cons b body ih =>
    have hb' : NoLF body := fun x hx => hb x (List.mem_cons_of_mem _ hx)
    have hne : b ≠ LF := hb b (by simp)
    simp only [List.cons_append, linesWT, hne, if_false, ih hb']

theorem linesWT_line (l rest : Bytes) (hl : Line l) : linesWT (l ++ rest) = l :: linesWT rest := by
  obtain ⟨body, rfl, hb⟩ := hl
  simpa using linesWT_body body rest hb

theorem linesWT_noLF (s : Bytes) (hs : NoLF s) (hne : s ≠ []) : linesWT s = [s] := by
  induction s with
  | nil => exact absurd rfl hne
  | cons b s ih =>
    have hs' : NoLF s := fun x hx => hs x (List.mem_cons_of_mem _ hx)
    have hb : b ≠ LF := hs b (by simp)
    simp only [linesWT, hb, if_false]
    cases s with
    | nil => simp [linesWT]
    | cons c s => rw [ih hs' (by simp)]

/-- the central structural lemma: a concatenation of terminated lines splits into exactly them -/
theorem linesWT_flatten_lines (ls : List Bytes) (rest : Bytes) (h : ∀ l ∈ ls, Line l) :
    linesWT (ls.flatten ++ rest) = ls ++ linesWT rest := by
  induction ls with
  | nil => simp
  | cons l ls ih =>
    have hl : Line l := h l (by simp)
    have hls : ∀ l ∈ ls, Line l := fun x hx => h x (List.mem_cons_of_mem _ hx)
    simp only [List.flatten_cons, List.append_assoc, List.cons_append]
    rw [linesWT_line _ _ hl, ih hls]

/-- every byte string is a sequence of terminated lines followed by an unterminated rest -/
theorem lines_decomp (s : Bytes) :
    ∃ (ls : List Bytes) (last : Bytes), s = ls.flatten ++ last ∧ (∀ l ∈ ls, Line l) ∧ NoLF last := by
  induction s with
  | nil => exact ⟨[], [], by simp, by simp, NoLF_nil⟩
  | cons b s ih =>
    obtain ⟨ls, last, rfl, hls, hlast⟩ := ih
    by_cases hb : b = LF
    · refine ⟨[LF] :: ls, last, by simp [hb], ?_, hlast⟩
      intro l hl; rcases List.mem_cons.mp hl with h | h
      · exact h ▸ Line_LF
      · exact hls l h
    · cases ls with
      | nil => exact ⟨[], b :: last, by simp, by simp, NoLF_cons hb hlast⟩
      | cons l ls =>
        refine ⟨(b :: l) :: ls, last, by simp, ?_, hlast⟩
        intro x hx; rcases List.mem_cons.mp hx with h | h
        · exact h ▸ Line_cons hb (hls l (by simp))
        · exact hls x (List.mem_cons_of_mem _ h)

theorem linesWT_decomp (ls : List Bytes) (last : Bytes) (hls : ∀ l ∈ ls, Line l) (hlast : NoLF last) :
    linesWT (ls.flatten ++ last) = ls ++ (if last = [] then [] else [last]) := by
  rw [linesWT_flatten_lines ls last hls]
  by_cases h : last = []
  · simp [h, linesWT]
  · simp [h, linesWT_noLF last hlast h]

theorem lacksEol_append_LF (c : Bytes) : lacksEol (c ++ [LF]) = false := by
  simp [lacksEol]

theorem EndsLF_nil : EndsLF [] := by simp [EndsLF, lacksEol]

theorem EndsLF_cases {c : Bytes} (h : EndsLF c) : c = [] ∨ ∃ c', c = c' ++ [LF] := by
  unfold EndsLF lacksEol at h
  rcases List.eq_nil_or_concat c with rfl | ⟨c', b, rfl⟩
  · exact Or.inl rfl
  · right; simp at h; exact ⟨c', by simp [h]⟩

theorem EndsLF_flatten_lines (ls : List Bytes) (h : ∀ l ∈ ls, Line l) : EndsLF ls.flatten := by
  rcases List.eq_nil_or_concat ls with rfl | ⟨ls', l, rfl⟩
  · simp [EndsLF_nil]
  · obtain ⟨body, rfl, _⟩ := h l (by simp)
    have : (ls'.concat (body ++ [LF])).flatten = (ls'.flatten ++ body) ++ [LF] := by simp
    rw [this]; exact lacksEol_append_LF _

/-- an `EndsLF` content is exactly the concatenation of its (terminated) lines -/
theorem EndsLF_lines {c : Bytes} (h : EndsLF c) : ∀ l ∈ linesWT c, Line l := by
  obtain ⟨ls, last, rfl, hls, hlast⟩ := lines_decomp c
  have : last = [] := by
    rcases EndsLF_cases h with h0 | ⟨c', hc'⟩
    · simp at h0; exact h0.2
    · rcases List.eq_nil_or_concat last with h1 | ⟨l', b, rfl⟩
      · exact h1
      · have : b = LF := by
          have := congrArg List.getLast? hc'
          simp [← List.append_assoc] at this; exact this
        exact absurd this (hlast b (by simp))
  subst this
  rw [linesWT_decomp ls [] hls hlast]; simpa using hls

theorem linesWT_append_of_EndsLF {c : Bytes} (h : EndsLF c) (rest : Bytes) :
    linesWT (c ++ rest) = linesWT c ++ linesWT rest := by
  have := linesWT_flatten_lines (linesWT c) rest (EndsLF_lines h)
  rwa [linesWT_flatten] at this

/-! ### marker lines -/

theorem parseByte_toByte (k : MarkerKind) : parseByte k.toByte = some k := by
  cases k <;> decide

theorem toByte_not_ws (k : MarkerKind) : isAsciiWhitespace k.toByte = false := by
  cases k <;> decide

theorem toByte_ne_LF (k : MarkerKind) : k.toByte ≠ LF := by
  cases k <;> decide

theorem parseByte_not_ws {b : UInt8} {k : MarkerKind} (h : parseByte b = some k) :
    isAsciiWhitespace b = false := by
  unfold parseByte at h
  repeat' split at h
  all_goals first | (subst_vars; decide) | cases h

/-- a run of `n ≥ 1` marker bytes followed by nothing or by whitespace is a marker of length `n` -/
theorem parseMarkerAnyLen_run (k : MarkerKind) (n : Nat) (hn : 1 ≤ n) (tail : Bytes)
    (ht : ∀ b ∈ tail.head?, isAsciiWhitespace b = true) :
    parseMarkerAnyLen (List.replicate n k.toByte ++ tail) = some (k, n) := by
  obtain ⟨m, rfl⟩ : ∃ m, n = m + 1 := ⟨n - 1, by omega⟩
  have hhead : ∀ b ∈ tail.head?, ¬ (b = k.toByte) := by
    intro b hb hbk
    have := ht b hb; rw [hbk, toByte_not_ws] at this; cases this
  have htw : (List.replicate (m + 1) k.toByte ++ tail).takeWhile (· = k.toByte)
      = List.replicate (m + 1) k.toByte := by
    rw [List.takeWhile_append_of_pos (by simp)]
    cases tail with
    | nil => simp
    | cons t tail => simp [hhead t (by simp)]
  have hdw : (List.replicate (m + 1) k.toByte ++ tail).dropWhile (· = k.toByte) = tail := by
    rw [List.dropWhile_append_of_pos (by simp)]
    cases tail with
    | nil => simp
    | cons t tail => simp [hhead t (by simp)]
  unfold parseMarkerAnyLen
  simp only [List.replicate_succ, List.cons_append, parseByte_toByte]
  simp only [← List.cons_append, ← List.replicate_succ, htw, hdw, List.length_replicate]
  cases tail with
  | nil => rfl
  | cons t tail => simp [ht t (by simp)]

end JjModel.Conflicts
