import JjModel.Lemmas.RepoBasic
/-!
  `rewritten_ids_with` (the iterative stack + visited-set loop of `lib/src/repo.rs`) computes the
  de-duplicated transitive expansion of the old ids through the parent mapping.
  Method: a big-step semantics `Run` of the loop on a stack segment (`rwLoop_run`), then an
  invariant over `Run` derivations (`run_spec`) with a set `P` of pending keys whose rank dominates
  everything still to be processed (this is where acyclicity is used).
-/
namespace JjModel.Repo

theorem flatMap_congr_on {α β : Type} {f g : α → List β} {l : List α} (h : ∀ x ∈ l, f x = g x) :
    l.flatMap f = l.flatMap g := by
  induction l with
  | nil => rfl
  | cons a l ih =>
    simp only [List.flatMap_cons]
    rw [h a (by simp), ih (fun x hx => h x (by simp [hx]))]

/-- The rewrite graph (restricted by `pred`) is acyclic: `rank` decreases along every edge
    from a key to one of its replacements. -/
def Acyclic (m : Mapping) (pred : Rewrite → Bool) (rank : Nat → Nat) : Prop :=
  ∀ k rw, m.getIf pred k = some rw → ∀ t ∈ rw.newParentIds, rank t < rank k

/-- full transitive expansion of an id through the mapping (no deduplication) -/
def expand (m : Mapping) (pred : Rewrite → Bool) : Nat → Nat → List Nat
  | 0, id => [id]
  | f + 1, id =>
    match m.getIf pred id with
    | none => [id]
    | some rw => rw.newParentIds.flatMap (expand m pred f)

def leaves (m : Mapping) (pred : Rewrite → Bool) (rank : Nat → Nat) (id : Nat) : List Nat :=
  expand m pred (rank id + 1) id

theorem expand_congr {m : Mapping} {pred : Rewrite → Bool} {rank : Nat → Nat}
    (hac : Acyclic m pred rank) :
    ∀ (f1 f2 id : Nat), rank id < f1 → rank id < f2 → expand m pred f1 id = expand m pred f2 id := by
  intro f1
  induction f1 with
  | zero => intro f2 id h; omega
  | succ f1 ih =>
    intro f2 id h1 h2
    match f2, h2 with
    | f2 + 1, h2 =>
      unfold expand
      cases hg : m.getIf pred id with
      | none => rfl
      | some rw =>
        simp only
        apply flatMap_congr_on
        intro t ht
        have := hac id rw hg t ht
        exact ih f2 t (by omega) (by omega)

theorem leaves_leaf {m : Mapping} {pred : Rewrite → Bool} {rank : Nat → Nat} {id : Nat}
    (hg : m.getIf pred id = none) : leaves m pred rank id = [id] := by
  unfold leaves expand; simp [hg]

theorem leaves_key {m : Mapping} {pred : Rewrite → Bool} {rank : Nat → Nat}
    (hac : Acyclic m pred rank) {id : Nat} {rw : Rewrite}
    (hg : m.getIf pred id = some rw) :
    leaves m pred rank id = rw.newParentIds.flatMap (leaves m pred rank) := by
  unfold leaves
  conv => lhs; unfold expand
  simp only [hg]
  apply flatMap_congr_on
  intro t ht
  have := hac id rw hg t ht
  exact expand_congr hac _ _ t (by omega) (by omega)

/-- big-step semantics of the `rewritten_ids_with` loop on a stack segment -/
inductive Run (m : Mapping) (pred : Rewrite → Bool) :
    List Nat → List Nat × List Nat → List Nat × List Nat → Prop
  | nil (st) : Run m pred [] st st
  | visited {x xs v o st'} : x ∈ v → Run m pred xs (v, o) st' → Run m pred (x :: xs) (v, o) st'
  | leaf {x xs v o st'} : x ∉ v → m.getIf pred x = none →
      Run m pred xs (x :: v, o ++ [x]) st' → Run m pred (x :: xs) (v, o) st'
  | key {x xs v o rw st1 st'} : x ∉ v → m.getIf pred x = some rw →
      Run m pred rw.newParentIds (x :: v, o) st1 → Run m pred xs st1 st' →
      Run m pred (x :: xs) (v, o) st'

theorem rwLoop_run {m : Mapping} {pred : Rewrite → Bool} :
    ∀ (n : Nat) (xs rest v o : List Nat) (r : List Nat),
      rwLoop m pred n (xs ++ rest) v o = some r →
      ∃ st' n', n' ≤ n ∧ Run m pred xs (v, o) st' ∧ rwLoop m pred n' rest st'.1 st'.2 = some r := by
  intro n
  induction n using Nat.strongRecOn with
  | ind n ih =>
    intro xs rest v o r h
    match xs with
    | [] => exact ⟨(v, o), n, Nat.le_refl _, Run.nil _, h⟩
    | x :: xs =>
      match n, h with
      | 0, h => simp [rwLoop] at h
      | n + 1, h =>
        simp only [List.cons_append] at h
        unfold rwLoop at h
        by_cases hv : v.contains x = true
        · simp only [hv, if_true] at h
          obtain ⟨st', n', hn, hr, hl⟩ := ih n (by omega) xs rest v o r h
          exact ⟨st', n', by omega, Run.visited (by simpa using hv) hr, hl⟩
        · simp only [hv] at h
          have hv' : x ∉ v := by simpa using hv
          cases hg : m.getIf pred x with
          | none =>
            simp only [hg] at h
            obtain ⟨st', n', hn, hr, hl⟩ := ih n (by omega) xs rest (x :: v) (o ++ [x]) r h
            exact ⟨st', n', by omega, Run.leaf hv' hg hr, hl⟩
          | some rw =>
            simp only [hg] at h
            by_cases he : rw.newParentIds.isEmpty = true
            · simp [he] at h
            · simp only [he] at h
              rw [← List.append_assoc] at h
              have h' : rwLoop m pred n (rw.newParentIds ++ (xs ++ rest)) (x :: v) o = some r := by
                simpa [List.append_assoc] using h
              obtain ⟨st1, n1, hn1, hr1, hl1⟩ := ih n (by omega) rw.newParentIds (xs ++ rest) (x :: v) o r h'
              obtain ⟨st', n', hn, hr, hl⟩ := ih n1 (by omega) xs rest st1.1 st1.2 r hl1
              exact ⟨st', n', by omega, Run.key hv' hg hr1 hr, hl⟩

structure Inv (m : Mapping) (pred : Rewrite → Bool) (rank : Nat → Nat) (P : List Nat)
    (st : List Nat × List Nat) : Prop where
  out_sub : ∀ x ∈ st.2, x ∈ st.1 ∧ m.getIf pred x = none
  leaf_out : ∀ x ∈ st.1, m.getIf pred x = none → x ∈ st.2
  key_done : ∀ k ∈ st.1, k ∉ P → ∀ rw, m.getIf pred k = some rw →
    ∀ y ∈ leaves m pred rank k, y ∈ st.2

theorem run_spec {m : Mapping} {pred : Rewrite → Bool} {rank : Nat → Nat}
    (hac : Acyclic m pred rank) {xs : List Nat} {st st' : List Nat × List Nat}
    (hr : Run m pred xs st st') :
    ∀ P, Inv m pred rank P st → (∀ x ∈ xs, ∀ p ∈ P, rank x < rank p) →
      Inv m pred rank P st' ∧ st'.2 = union st.2 (xs.flatMap (leaves m pred rank)) ∧
      (∀ y ∈ st.1, y ∈ st'.1) := by
  induction hr with
  | nil st => intro P hi _; exact ⟨hi, by simp [union_nil], fun y hy => hy⟩
  | @visited x xs v o st' hx _ ih =>
    intro P hi hrk
    have hxP : x ∉ P := fun hp => Nat.lt_irrefl _ (hrk x (by simp) x hp)
    have hsub : ∀ y ∈ leaves m pred rank x, y ∈ o := by
      cases hg : m.getIf pred x with
      | none =>
        rw [leaves_leaf hg]; intro y hy
        have : y = x := by simpa using hy
        subst this; exact hi.leaf_out y hx hg
      | some rw => exact hi.key_done x hx hxP rw hg
    obtain ⟨h1, h2, h3⟩ := ih P hi (fun y hy p hp => hrk y (by simp [hy]) p hp)
    refine ⟨h1, ?_, h3⟩
    rw [h2, List.flatMap_cons, union_append, union_of_subset hsub]
  | @leaf x xs v o st' hx hg _ ih =>
    intro P hi hrk
    have hi' : Inv m pred rank P (x :: v, o ++ [x]) := by
      refine ⟨?_, ?_, ?_⟩
      · intro y hy
        simp only [List.mem_append, List.mem_singleton] at hy
        rcases hy with hy | rfl
        · have := hi.out_sub y hy; exact ⟨by simp [this.1], this.2⟩
        · exact ⟨by simp, hg⟩
      · intro y hy hgy
        simp only [List.mem_cons] at hy
        rcases hy with rfl | hy
        · simp
        · simp [hi.leaf_out y hy hgy]
      · intro k hk hkP rw hgk y hy
        simp only [List.mem_cons] at hk
        rcases hk with rfl | hk
        · rw [hg] at hgk; cases hgk
        · simp [hi.key_done k hk hkP rw hgk y hy]
    obtain ⟨h1, h2, h3⟩ := ih P hi' (fun y hy p hp => hrk y (by simp [hy]) p hp)
    have hxo : x ∉ o := fun h => hx (hi.out_sub x h).1
    refine ⟨h1, ?_, fun y hy => h3 y (by simp [hy])⟩
    rw [h2, List.flatMap_cons, union_append, leaves_leaf hg, union_cons, union_nil,
      insertNew_of_not_mem hxo]
  | @key x xs v o rw st1 st' hx hg _ _ ih1 ih2 =>
    intro P hi hrk
    have hi' : Inv m pred rank (x :: P) (x :: v, o) := by
      refine ⟨?_, ?_, ?_⟩
      · intro y hy
        have := hi.out_sub y hy; exact ⟨by simp [this.1], this.2⟩
      · intro y hy hgy
        simp only [List.mem_cons] at hy
        rcases hy with rfl | hy
        · rw [hg] at hgy; cases hgy
        · exact hi.leaf_out y hy hgy
      · intro k hk hkP rw' hgk y hy
        simp only [List.mem_cons, not_or] at hk hkP
        rcases hk with rfl | hk
        · exact absurd rfl hkP.1
        · exact hi.key_done k hk hkP.2 rw' hgk y hy
    have hrk' : ∀ t ∈ rw.newParentIds, ∀ p ∈ x :: P, rank t < rank p := by
      intro t ht p hp
      have h1 := hac x rw hg t ht
      simp only [List.mem_cons] at hp
      rcases hp with rfl | hp
      · exact h1
      · have := hrk x (by simp) p hp; omega
    obtain ⟨h1, h2, h3⟩ := ih1 (x :: P) hi' hrk'
    have hxP : x ∉ P := fun hp => Nat.lt_irrefl _ (hrk x (by simp) x hp)
    have hlx : leaves m pred rank x = rw.newParentIds.flatMap (leaves m pred rank) := leaves_key hac hg
    have hi1 : Inv m pred rank P st1 := by
      refine ⟨h1.out_sub, h1.leaf_out, ?_⟩
      intro k hk hkP rw' hgk y hy
      by_cases hkx : k = x
      · subst hkx
        rw [h2, mem_union]; right
        rw [← hlx]; exact hy
      · exact h1.key_done k hk (by simp [hkx, hkP]) rw' hgk y hy
    obtain ⟨g1, g2, g3⟩ := ih2 P hi1 (fun y hy p hp => hrk y (by simp [hy]) p hp)
    refine ⟨g1, ?_, fun y hy => g3 y (h3 y (by simp [hy]))⟩
    rw [g2, h2, List.flatMap_cons, union_append, hlx]

/-- **Specification of `rewritten_ids_with`.**  On an acyclic mapping the iterative
    stack-and-visited-set loop returns the transitive expansion of the old ids with duplicates
    removed (first occurrence kept), and none of the returned ids is itself mapped. -/
theorem rewrittenIdsWith_spec {m : Mapping} {pred : Rewrite → Bool} {rank : Nat → Nat}
    (hac : Acyclic m pred rank) {olds ids : List Nat}
    (h : rewrittenIdsWith m pred olds = some ids) :
    ids = dedup (olds.flatMap (leaves m pred rank)) ∧ ∀ y ∈ ids, m.getIf pred y = none := by
  unfold rewrittenIdsWith at h
  by_cases he : olds.isEmpty = true
  · simp [he] at h
  · simp only [he] at h
    have hl : rwLoop m pred (olds.length + mappingSize m + 1) (olds ++ []) [] [] = some ids := by
      rw [List.append_nil]
      generalize rwLoop m pred (olds.length + mappingSize m + 1) olds [] [] = res at h
      match res, h with
      | some [], h => simp at h
      | some (a :: l), h => simpa using h
    obtain ⟨st', n', _, hr, hfin⟩ := rwLoop_run _ olds [] [] [] ids hl
    have hi0 : Inv m pred rank [] ([], []) := ⟨by simp, by simp, by simp⟩
    obtain ⟨h1, h2, _⟩ := run_spec hac hr [] hi0 (by simp)
    have : st'.2 = ids := by
      match n', hfin with
      | n' + 1, hfin => simpa [rwLoop] using hfin
    subst this
    exact ⟨by rw [h2]; rfl, fun y hy => (h1.out_sub y hy).2⟩

end JjModel.Repo
