#!/bin/sh
# One-time setup after a fresh restore (offline): build the Lean project (models, driver, all proofs)
# and the harness against /repo.  Everything is also rebuilt incrementally by ./check.
set -e
cd "$(dirname "$0")"
export CARGO_NET_OFFLINE=true
python3 tools/gen_registry.py
[ -f tools/translate.py ] && python3 tools/translate.py
(cd lean && lake build)
[ -f harness/Cargo.lock ] || cp /repo/Cargo.lock harness/Cargo.lock
(cd harness && cargo build --offline --workspace)
if grep -l '"needs_jj_bin": *true' props/C*.json >/dev/null 2>&1; then
  (cd harness && RUSTFLAGS="--cfg jj_vcs_jj_verif" cargo build --offline --manifest-path /repo/Cargo.toml --bin jj --target-dir target-jj)
fi
echo setup done
