#!/bin/sh
# One-time setup after a fresh restore (offline): build the Lean project (models, driver, all proofs)
# and the harness against /repo.  Everything is also rebuilt incrementally by ./check.
set -e
cd "$(dirname "$0")"
export CARGO_NET_OFFLINE=true
python3 tools/gen_registry.py
[ -f tools/translate.py ] && python3 tools/translate.py
(cd lean && lake build)
[ -f harness/Cargo.lock ] || cp /repo/Cargo.lock harness/Cargo.lock
(cd harness && cargo build --offline --workspace)
ln -sf jjverif-cli harness/target/debug/jj
echo setup done
