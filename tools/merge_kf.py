#!/usr/bin/env python3
"""union-merge known_findings.json of main (ours) and a builder branch (theirs) during a merge"""
import json, subprocess, sys
branch = sys.argv[1]
def load(ref):
    try:
        return json.loads(subprocess.check_output(["git", "show", f"{ref}:known_findings.json"], cwd="/verif"))
    except Exception:
        return {"version": 1, "findings": []}
ours, theirs = load("HEAD"), load(branch)
seen = {(f["property"], f["signature"]) for f in ours["findings"]}
for f in theirs["findings"]:
    if (f["property"], f["signature"]) not in seen:
        ours["findings"].append(f)
json.dump(ours, open("/verif/known_findings.json", "w"), indent=1, ensure_ascii=False)
