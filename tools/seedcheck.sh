#!/bin/sh
# tools/seedcheck.sh <patch.diff> <Cxx> [<Cyy>…]
# Self-test of the checks against a breaking change WITHOUT touching /repo (builders may be compiling
# against it): a scratch worktree of /repo at /tmp/sc/repo gets the patch, a scratch worktree of
# /verif at /tmp/sc/verif has its harness path-dependencies redirected to it, and the named checks
# run there (JJ_REPO tells translate.py where the sources are).  Prints each check's last lines.
# The authoritative run against /repo itself (git -C /repo apply …; ./check …; git -C /repo checkout -- .)
# is done by tools/seedrun.sh when no builder is active.
set -e
patch="$(readlink -f "$1")"; shift
mkdir -p /tmp/sc
if [ ! -d /tmp/sc/repo ]; then git -C /repo worktree add -q --detach /tmp/sc/repo HEAD; fi
git -C /tmp/sc/repo checkout -q --detach "$(git -C /repo rev-parse HEAD)"
git -C /tmp/sc/repo checkout -q -- . && git -C /tmp/sc/repo clean -fdq -e target
if [ ! -d /tmp/sc/verif ]; then
  git -C /verif worktree add -q --detach /tmp/sc/verif HEAD
  cp -a /verif/harness/target /tmp/sc/verif/harness/target
  cp -a /verif/lean/.lake /tmp/sc/verif/lean/.lake
fi
git -C /tmp/sc/verif checkout -q -- . && git -C /tmp/sc/verif checkout -q --detach "$(git -C /verif rev-parse HEAD)"
sed -i 's#path = "/repo/#path = "/tmp/sc/repo/#' /tmp/sc/verif/harness/jjverif/Cargo.toml /tmp/sc/verif/harness/jjverif-cli/Cargo.toml
git -C /tmp/sc/repo apply "$patch"
cd /tmp/sc/verif
rc=0
for p in "$@"; do
  echo "=== $p against $(basename "$(dirname "$patch")")"
  JJ_REPO=/tmp/sc/repo timeout 3000 ./check "$p" --tier quick | tail -3 || rc=1
done
git -C /tmp/sc/repo checkout -q -- .
exit 0
