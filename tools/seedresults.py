#!/usr/bin/env python3
"""Parse scratch/seedcheck-*.log and write seeded/<seed>/result.json (which checks caught which seed)."""
import glob, json, os, re
V = os.path.join(os.path.dirname(os.path.abspath(__file__)), "..")
res = {}
for log in sorted(glob.glob(os.path.join(V, "scratch", "seedcheck-*.log")), key=os.path.getmtime):
    cur = None
    for line in open(log, errors="replace"):
        m = re.match(r"=== (C\d+) against (\S+)", line)
        if m:
            cur = (m.group(2), m.group(1)); continue
        m = re.match(r"(C\d+) quick seed=\d+: (.*)", line)
        if m and cur:
            res.setdefault(cur[0], {}).setdefault(cur[1], {})["summary"] = m.group(2).strip()
        m = re.match(r"VIOLATION property=(C\d+) replay=(\S+)(.*)", line)
        if m and cur:
            res.setdefault(cur[0], {}).setdefault(cur[1], {})["violation"] = (m.group(3).strip() or "failing input found")
for seed, checks in res.items():
    d = os.path.join(V, "seeded", seed)
    if not os.path.isdir(d):
        continue
    caught = [c for c, r in checks.items() if "violation" in r]
    out = {"seed": seed, "ran": "tools/seedcheck.sh seeded/%s/patch.diff %s (scratch copy of /repo + /verif; quick tier, VERIF_SEED=1)" % (seed, " ".join(sorted(checks))),
           "caught_by": ", ".join(sorted(caught)) or "MISSED by " + ", ".join(sorted(checks)),
           "signal": "; ".join(f"{c}: {r.get('violation','no violation')} [{r.get('summary','')}]" for c, r in sorted(checks.items())),
           "checks": checks}
    # keep notes (e.g. history of a miss) if present
    old = {}
    try:
        old = json.load(open(os.path.join(d, "result.json")))
    except Exception:
        pass
    if old.get("history"):
        out["history"] = old["history"]
    json.dump(out, open(os.path.join(d, "result.json"), "w"), indent=1)
    print(seed, "->", out["caught_by"])
