#!/bin/sh
# tools/runall.sh [tier] [ids…]: run the quick (or given tier) check of every claimed property, one line each
cd /verif
tier="${1:-quick}"; shift 2>/dev/null || true
ids="$*"
[ -z "$ids" ] && ids=$(python3 -c "import json;print(' '.join(c['property_id'] for c in json.load(open('MANIFEST.json'))['checks']))")
for p in $ids; do
  out=$(timeout 3600 ./check "$p" --tier "$tier" 2>&1); rc=$?
  echo "$p rc=$rc :: $(echo "$out" | grep -v '^KNOWN-FINDING' | tail -2 | tr '\n' ' ')"
  echo "$out" | grep '^KNOWN-FINDING' | cut -c1-200
done
