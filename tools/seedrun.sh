#!/bin/sh
# tools/seedrun.sh <seed-id> <Cxx> [<Cyy>…]
# Authoritative self-test against /repo itself: apply seeded/<seed-id>/patch.diff to /repo, run the named
# checks from /verif, undo the patch straight afterwards (even when a check fails or is interrupted).
# Use only when nothing else is building against /repo.  Appends to scratch/seedrun.log.
seed="$1"; shift
cd /verif
trap 'git -C /repo checkout -- . ; git -C /repo clean -fdq -e target' EXIT INT TERM
git -C /repo apply "seeded/$seed/patch.diff" || { echo "patch does not apply"; exit 2; }
for p in "$@"; do
  echo "=== $p against $seed (in /repo)"
  timeout 3600 ./check "$p" --tier quick | grep -v '^KNOWN-FINDING' | tail -3
done | tee -a scratch/seedrun.log
