#!/usr/bin/env python3
"""Translate constants from the jj source into Lean (run by `check` on every run).

Table-driven: each entry is (source file under /repo, regex with one group capturing a Rust
constant integer expression, Lean name, Lean type, output module).  The captured expression is
evaluated (integer literals, `<<`, `>>`, `*`, `+`, `-`, parentheses only) and written as
`def <name> : <type> := <value>` into `lean/JjModel/Generated/<module>.lean`, namespace
`JjModel.Generated`.  Idempotent (files are rewritten only when their content changes).
Exit status is non-zero when a source file or pattern has disappeared or an expression is not
a constant of the supported form — the model would otherwise silently keep a stale value.

A third table, CUSTOM, holds structural extractors (functions): e.g. whether
`TableStore::get_head_locked` guards its head removals by a name comparison
(`Generated/TableGuard.lean`, `def tableGuardEq : Bool`), and checks that the add-before-remove
order and equal-name guards assumed by the head-set protocol models are still in the source.
"""
import ast, os, re, sys

REPO = os.environ.get("JJ_REPO", "/repo")
ROOT = os.path.join(os.path.dirname(os.path.abspath(__file__)), "..", "lean", "JjModel", "Generated")

# (file, regex, lean name, lean type, output module)
TABLE = [
    ("lib/src/eol.rs", r"const\s+PROBE_LIMIT\s*:\s*u64\s*=\s*([^;]+);", "eolProbeLimit", "Nat", "ConstsEol"),
]

# Rule texts that several grammars must share verbatim (one Lean model stands for all of them):
# (rule names, files, Lean name, output module).  The normalised text is written to the module as
# documentation; the translator fails if the files disagree or a rule is missing.
SAME_RULES = [
    (["string_escape", "string_content_char", "string_content", "string_literal",
      "raw_string_content", "raw_string_literal"],
     ["lib/src/revset.pest", "lib/src/fileset.pest", "cli/src/template.pest"],
     "stringLiteralRules", "ConstsDsl"),
]


# --------------------------------------------------------------------------------------------------
# Structural facts of the source that a model assumes or takes as a Boolean parameter
# (C21 guard of get_head_locked; C14/C21 add-before-remove order and equal-name guards).
# Each entry of CUSTOM is a function returning (file name in Generated/, text) or None (check only);
# it raises PatternVanished when the source shape it is tied to has disappeared.
class PatternVanished(Exception):
    pass


def read(rel):
    try:
        with open(os.path.join(REPO, rel), encoding="utf-8") as f:
            return f.read()
    except OSError as e:
        raise PatternVanished(f"{rel}: cannot read ({e})")


def fn_body(src, header_re, what):
    """text of the function whose header matches header_re (brace matching from the first '{')"""
    m = re.search(header_re, src)
    if not m:
        raise PatternVanished(f"{what}: function header /{header_re}/ not found")
    i = src.index("{", m.end() - 1) if src[m.end() - 1] != "{" else m.end() - 1
    depth, j = 0, i
    while j < len(src):
        if src[j] == "{":
            depth += 1
        elif src[j] == "}":
            depth -= 1
            if depth == 0:
                return src[i:j + 1]
        j += 1
    raise PatternVanished(f"{what}: unbalanced braces")


def require(cond, msg):
    if not cond:
        raise PatternVanished(msg)


# --------------------------------------------------------------------------------------------------
# C21: does TableStore::get_head_locked guard the removal of tables[1..] by a name comparison with
# the merged table?  (F8: without it the head just written is deleted when the names collide.)
def gen_table_guard():
    rel = "lib/src/stacked_table.rs"
    src = read(rel)
    body = fn_body(src, r"pub fn get_head_locked\s*\(\s*&self\s*\)[^{]*\{", "get_head_locked")
    require(re.search(r"let\s+merged_table\s*=\s*self\.save_table\(merged_table\)", body),
            "get_head_locked: `let merged_table = self.save_table(merged_table)` not found")
    m = re.search(r"for\s+(\w+)\s+in\s+&tables\[1\.\.\]\s*\{", body[body.index("self.save_table(merged_table)"):])
    require(m, "get_head_locked: loop `for table in &tables[1..]` after save_table not found")
    tail = body[body.index("self.save_table(merged_table)"):]
    loop = fn_body(tail, r"for\s+\w+\s+in\s+&tables\[1\.\.\]\s*\{", "get_head_locked removal loop")
    var = m.group(1)
    require(re.search(r"self\.remove_head\(\s*&?\s*" + var + r"\s*\)", loop),
            "get_head_locked: `self.remove_head(table)` not found in the removal loop")
    cmp_ = (r"(?:" + var + r"\.name(?:\(\))?\s*(?:!=|==)\s*merged_table\.name(?:\(\))?"
            r"|merged_table\.name(?:\(\))?\s*(?:!=|==)\s*" + var + r"\.name(?:\(\))?)")
    guarded = re.search(cmp_, loop) is not None
    # the parent-removal guard of save_table and its add-before-remove order are assumed by the model
    st = fn_body(src, r"pub fn save_table\s*\([^)]*\)[^{]*\{", "save_table")
    require(re.search(r"parent_table\.name\s*!=\s*table\.name", st),
            "save_table: guard `parent_table.name != table.name` not found")
    a, r_ = st.find("self.add_head("), st.find("self.remove_head(")
    require(0 <= a < r_, "save_table: `add_head` no longer precedes `remove_head`")
    text = (
        "-- GENERATED by tools/translate.py from /repo/lib/src/stacked_table.rs — do not edit\n"
        "/-! Whether `TableStore::get_head_locked` guards the removal of `tables[1..]` by a comparison of the\n"
        "    head's name with the merged table's name (the repair of F8). -/\n"
        "namespace JjModel.Generated\n\n"
        f"def tableGuardEq : Bool := {'true' if guarded else 'false'}\n\n"
        "end JjModel.Generated\n")
    return "TableGuard.lean", text


# C14: structural facts of the op-heads store the model assumes (no generated definitions needed,
# only the check that the patterns are still there).
def check_opheads():
    src = read("lib/src/simple_op_heads_store.rs")
    body = fn_body(src, r"async fn update_op_heads\s*\(", "update_op_heads")
    a, r_ = body.find("self.add_op_head("), body.find("self.remove_op_head(")
    require(0 <= a < r_, "update_op_heads: `add_op_head` no longer precedes `remove_op_head`")
    require(re.search(r"if\s+old_id\s*==\s*new_id\s*\{\s*continue;\s*\}", body),
            "update_op_heads: guard `if old_id == new_id { continue; }` not found")
    return None



CUSTOM = [gen_table_guard, check_opheads]

_OPS = {ast.LShift: lambda a, b: a << b, ast.RShift: lambda a, b: a >> b, ast.Mult: lambda a, b: a * b,
        ast.Add: lambda a, b: a + b, ast.Sub: lambda a, b: a - b}

def const_eval(expr):
    e = re.sub(r"(?<=[0-9a-fA-F])_(?=[0-9a-fA-F])", "", expr.strip())
    e = re.sub(r"\b((?:0x[0-9a-fA-F]+)|(?:[0-9]+))(?:u8|u16|u32|u64|usize|i32|i64|isize)\b", r"\1", e)
    def ev(n):
        if isinstance(n, ast.Expression):
            return ev(n.body)
        if isinstance(n, ast.Constant) and isinstance(n.value, int) and not isinstance(n.value, bool):
            return n.value
        if isinstance(n, ast.BinOp) and type(n.op) in _OPS:
            return _OPS[type(n.op)](ev(n.left), ev(n.right))
        raise ValueError(f"unsupported constant expression: {expr!r}")
    return ev(ast.parse(e, mode="eval"))

def pest_rule(src, name):
    """text of pest rule `name` (up to the next rule / comment / blank line), whitespace-normalised"""
    m = re.search(r"^" + re.escape(name) + r"\s*=.*?(?=^\w+\s*=|^//|^\s*$|\Z)", src, re.S | re.M)
    return None if m is None else " ".join(m.group(0).split())

def write_if_changed(path, text):
    try:
        if open(path).read() == text:
            return False
    except FileNotFoundError:
        pass
    os.makedirs(os.path.dirname(path), exist_ok=True)
    with open(path, "w") as f:
        f.write(text)
    return True

def main():
    errors, modules = [], {}
    for file, rx, name, ty, module in TABLE:
        path = os.path.join(REPO, file)
        try:
            src = open(path).read()
        except OSError as e:
            errors.append(f"{file}: cannot read ({e})")
            continue
        ms = re.findall(rx, src)
        if len(ms) != 1:
            errors.append(f"{file}: pattern for {name} matched {len(ms)} times (expected 1): {rx}")
            continue
        try:
            val = const_eval(ms[0])
        except (ValueError, SyntaxError) as e:
            errors.append(f"{file}: {name}: {e}")
            continue
        if ty == "Nat" and val < 0:
            errors.append(f"{file}: {name}: negative value {val} for Nat")
            continue
        modules.setdefault(module, []).append((file, ms[0].strip(), name, ty, val))
    texts = {}
    for rules, files, name, module in SAME_RULES:
        per_file = {}
        for file in files:
            try:
                src = open(os.path.join(REPO, file)).read()
            except OSError as e:
                errors.append(f"{file}: cannot read ({e})")
                continue
            got = [pest_rule(src, r) for r in rules]
            if None in got:
                errors.append(f"{file}: rule(s) missing: {[r for r, g in zip(rules, got) if g is None]}")
                continue
            per_file[file] = "\n".join(got)
        if len(per_file) == len(files):
            if len(set(per_file.values())) != 1:
                errors.append(f"rules {rules} differ between {files}: the shared model {name} no longer stands for all of them")
            else:
                texts.setdefault(module, []).append((files, name, per_file[files[0]]))
    custom_out = []
    for g in CUSTOM:
        try:
            r = g()
        except PatternVanished as e:
            errors.append(f"{g.__name__}: source pattern vanished — {e}")
            continue
        if r:
            custom_out.append(r)
    if errors:
        for e in errors:
            print("translate: ERROR " + e)
        return 1
    for name, text in custom_out:
        changed = write_if_changed(os.path.join(ROOT, name), text)
        print(f"translate: {name} {'updated' if changed else 'unchanged'} (structural)")
    for module, entries in sorted(modules.items()):
        lines = ["-- GENERATED by tools/translate.py from the jj source — do not edit", "namespace JjModel.Generated", ""]
        for file, expr, name, ty, val in entries:
            lines += [f"/-- `{file}`: `{expr}` -/", f"def {name} : {ty} := {val}", ""]
        lines += ["end JjModel.Generated", ""]
        changed = write_if_changed(os.path.join(ROOT, module + ".lean"), "\n".join(lines))
        print(f"translate: {module}.lean {'updated' if changed else 'unchanged'} ({len(entries)} constant(s))")
    for module, entries in sorted(texts.items()):
        lines = ["-- GENERATED by tools/translate.py from the jj source — do not edit", "namespace JjModel.Generated", ""]
        for files, name, text in entries:
            lit = text.replace("\\", "\\\\").replace('"', '\\"').replace("\n", "\\n")
            lines += [f"/-- rule text shared verbatim by {', '.join('`' + f + '`' for f in files)} -/", f'def {name} : String := "{lit}"', ""]
        lines += ["end JjModel.Generated", ""]
        changed = write_if_changed(os.path.join(ROOT, module + ".lean"), "\n".join(lines))
        print(f"translate: {module}.lean {'updated' if changed else 'unchanged'} ({len(entries)} shared rule group(s))")
    return 0

if __name__ == "__main__":
    sys.exit(main())
