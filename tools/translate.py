#!/usr/bin/env python3
"""Regenerate lean/JjModel/Generated/*.lean from the Rust sources in /repo (run by ./check first).

Dispatcher only: every module tools/translate_parts/<name>.py provides
    run(repo: str, outdir: str, write_if_changed) -> list[str]      # problems (empty = fine)
and is table-driven, idempotent (writes only on change) and reports a problem when a source pattern
it is tied to has disappeared.  Exit status is non-zero when any part reports a problem.
"""
import importlib.util, os, sys

ROOT = os.path.dirname(os.path.abspath(__file__))
REPO = os.environ.get("JJ_REPO", os.environ.get("JJ_VERIF_REPO", "/repo"))
OUT = os.path.join(ROOT, "..", "lean", "JjModel", "Generated")


def write_if_changed(path, text):
    try:
        if open(path).read() == text:
            return False
    except FileNotFoundError:
        pass
    os.makedirs(os.path.dirname(path), exist_ok=True)
    with open(path, "w") as f:
        f.write(text)
    return True


def main():
    parts_dir = os.path.join(ROOT, "translate_parts")
    problems = []
    for fn in sorted(os.listdir(parts_dir)) if os.path.isdir(parts_dir) else []:
        if not fn.endswith(".py") or fn.startswith("_"):
            continue
        spec = importlib.util.spec_from_file_location("translate_part_" + fn[:-3], os.path.join(parts_dir, fn))
        mod = importlib.util.module_from_spec(spec)
        try:
            spec.loader.exec_module(mod)
            for p in mod.run(REPO, OUT, write_if_changed):
                problems.append(f"{fn[:-3]}: {p}")
        except Exception as e:  # a crashed part is a tie failure, not a silent skip
            problems.append(f"{fn[:-3]}: translator crashed: {e!r}")
    for p in problems:
        print("translate: PROBLEM " + p)
    if not problems:
        print("translate: ok")
    sys.exit(1 if problems else 0)


if __name__ == "__main__":
    main()
