#!/usr/bin/env python3
"""tools/seedprompt.py <Cxx> <slotdir>: reset the seeding slot (a worktree of /repo with a warm target dir)
to /repo's HEAD and write the seeding agent's prompt to /tmp/seed/<Cxx>.prompt"""
import json, subprocess, sys, os, shutil
pid, slot = sys.argv[1], sys.argv[2]
head = subprocess.check_output(["git", "-C", "/repo", "rev-parse", "HEAD"], text=True).strip()
subprocess.check_call(["git", "-C", slot, "checkout", "-q", "--", "."])
subprocess.check_call(["git", "-C", slot, "clean", "-fdq", "-e", "target"])
subprocess.check_call(["git", "-C", slot, "checkout", "-q", "--detach", head])
props = {json.loads(l)["id"]: json.loads(l) for l in open("/verif/properties.jsonl")}
p = props[pid]
text = (f"[{pid}] {p['title']}\n{p['statement']}\nQuantified over: {p['quantifier']['text']}\n"
        f"Anchored in: {', '.join(p['anchors']['files'])}")
t = open("/verif/notes/SEED_PROMPT.md").read()
extra = ("\n\nEnvironment notes: this sandbox has git 2.39, so tests needing git >= 2.41 (`--porcelain` fetch/push: "
         "test_git::test_fetch_*, many jj-cli git push/fetch/clone tests), 2 gpgsm tests and "
         "test_check_out_existing_file_cannot_be_removed (runs as root) fail even on the unmodified tree — ignore exactly those; "
         "any OTHER test failure caused by your change disqualifies it. The machine is heavily loaded and time matters: run "
         "`cargo nextest run --offline -p jj-lib --no-fail-fast` (plus `-p jj-core` if you touch core/) in full, but do NOT run the whole "
         "jj-cli suite (50+ minutes): run only the jj-cli test modules that exercise the code you touched, selected with a "
         "nextest filter such as `-E 'test(/^test_(rebase|squash)_command::/)'` (all of jj-cli only if your change is inside cli/src "
         "and you cannot tell which modules cover it), and say exactly what you ran. The worktree already "
         "contains a warm target/ directory from a previous build of the same path; do not delete it.")
open(f"/tmp/seed/{pid}.prompt", "w").write(t.replace("<DIR>", slot).replace("<PROPERTY>", text).replace("<ID>", pid) + extra)
print(f"/tmp/seed/{pid}.prompt")
