"""ContentHash layouts -> lean/JjModel/Generated/HashLayout.lean   (used by C16, C17)

For every type in TYPES the `#[derive(ContentHash)]` definition is located in the Rust source, its
fields (names, order, types) are read, field types are resolved recursively through the table of
built-in `impl ContentHash` shapes (BUILTIN, each tied to the `impl` line in content_hash.rs) and the
result is written as a `JjModel.Codec.Desc` term.  `Props/C16.lean` proves (by `decide`) that the
codec used by the model has exactly this description, so a reordered / added / retyped field or a
new enum variant breaks a proof obligation even before the byte streams are compared.
"""
import os, re

# type name -> source file (relative to repo) holding its derive
TYPES = {
    "View": "lib/src/op_store.rs",
    "RemoteView": "lib/src/op_store.rs",
    "RemoteRef": "lib/src/op_store.rs",
    "RemoteRefState": "lib/src/op_store.rs",
    "RefTarget": "lib/src/op_store.rs",
    "Operation": "lib/src/op_store.rs",
    "OperationMetadata": "lib/src/op_store.rs",
    "TimestampRange": "lib/src/op_store.rs",
    "Timestamp": "lib/src/backend.rs",
    "MillisSinceEpoch": "lib/src/backend.rs",
    "RefNameBuf": "lib/src/ref_name.rs",
    "RemoteNameBuf": "lib/src/ref_name.rs",
    "GitRefNameBuf": "lib/src/ref_name.rs",
    "WorkspaceNameBuf": "lib/src/ref_name.rs",
    "Commit": "lib/src/backend.rs",
    "Signature": "lib/src/backend.rs",
    "SecureSig": "lib/src/backend.rs",
}
# types declared through `id_type!(… pub Name { hex() })`
ID_TYPES = {
    "CommitId": "lib/src/backend.rs",
    "ChangeId": "lib/src/backend.rs",
    "TreeId": "lib/src/backend.rs",
    "ViewId": "lib/src/op_store.rs",
    "OperationId": "lib/src/op_store.rs",
}
# generated definitions (fully expanded)
EMIT = ["View", "Operation", "OperationMetadata", "RemoteView", "RemoteRef", "RemoteRefState", "RefTarget",
        "TimestampRange", "Timestamp", "CommitId", "ViewId", "OperationId", "Commit", "Signature"]

CONTENT_HASH = "lib/src/content_hash.rs"
# Rust type constructor -> (arity, Desc builder, regex that must still be present in content_hash.rs)
BUILTIN = {
    "u8": (0, lambda: ".u8", r"impl ContentHash for u8 \{\s*fn hash\(&self, state: &mut impl DigestUpdate\) \{\s*state\.update\(&\[\*self\]\);"),
    "bool": (0, lambda: ".bool", r"impl ContentHash for bool \{\s*fn hash\(&self, state: &mut impl DigestUpdate\) \{\s*u8::from\(\*self\)\.hash\(state\);"),
    "u32": (0, lambda: ".u32", r"impl ContentHash for u32 \{\s*fn hash\(&self, state: &mut impl DigestUpdate\) \{\s*state\.update\(&self\.to_le_bytes\(\)\);"),
    "i32": (0, lambda: ".i32", r"impl ContentHash for i32 \{\s*fn hash\(&self, state: &mut impl DigestUpdate\) \{\s*state\.update\(&self\.to_le_bytes\(\)\);"),
    "u64": (0, lambda: ".u64", r"impl ContentHash for u64 \{\s*fn hash\(&self, state: &mut impl DigestUpdate\) \{\s*state\.update\(&self\.to_le_bytes\(\)\);"),
    "i64": (0, lambda: ".i64", r"impl ContentHash for i64 \{\s*fn hash\(&self, state: &mut impl DigestUpdate\) \{\s*state\.update\(&self\.to_le_bytes\(\)\);"),
    "String": (0, lambda: "(.seq .u8)", r"impl ContentHash for String \{\s*fn hash\(&self, state: &mut impl DigestUpdate\) \{\s*self\.as_str\(\)\.hash\(state\);"),
    "Vec": (1, lambda t: f"(.seq {t})", r"impl<T: ContentHash> ContentHash for Vec<T> \{\s*fn hash\(&self, state: &mut impl DigestUpdate\) \{\s*self\.as_slice\(\)\.hash\(state\);"),
    "Option": (1, lambda t: f"(.opt {t})", r"impl<T: ContentHash> ContentHash for Option<T> \{"),
    "HashSet": (1, lambda t: f"(.seq {t})", r"impl<K> ContentHash for std::collections::HashSet<K>"),
    "BTreeMap": (2, lambda k, v: f"(.seq (.pair {k} {v}))", r"impl<K, V> ContentHash for std::collections::BTreeMap<K, V>"),
    "HashMap": (2, lambda k, v: f"(.seq (.pair {k} {v}))", r"impl<K, V> ContentHash for std::collections::HashMap<K, V>"),
    "Merge": (1, lambda t: f"(.seq {t})", r"impl<T: ContentHash> ContentHash for crate::merge::Merge<T> \{\s*fn hash\(&self, state: &mut impl DigestUpdate\) \{\s*self\.as_slice\(\)\.hash\(state\);"),
}
# further facts about content_hash.rs / the derive macro that the codec combinators rely on
REQUIRED = [
    (CONTENT_HASH, r"impl<T: ContentHash> ContentHash for \[T\] \{\s*fn hash\(&self, state: &mut impl DigestUpdate\) \{\s*state\.update\(&\(self\.len\(\) as u64\)\.to_le_bytes\(\)\);\s*for x in self \{\s*x\.hash\(state\);",
     "slice impl: u64-LE length then the elements"),
    (CONTENT_HASH, r"None => state\.update\(&0u32\.to_le_bytes\(\)\),\s*Some\(x\) => \{\s*state\.update\(&1u32\.to_le_bytes\(\)\);\s*x\.hash\(state\);",
     "Option impl: u32-LE tag 0 / 1 then the value"),
    (CONTENT_HASH, r"impl ContentHash for str \{\s*fn hash\(&self, state: &mut impl DigestUpdate\) \{\s*self\.as_bytes\(\)\.hash\(state\);",
     "str impl: the bytes as a slice"),
    (CONTENT_HASH, r"for k in self\.iter\(\)\.sorted\(\) \{\s*k\.hash\(state\);", "HashSet impl: elements in Ord order"),
    ("lib/proc-macros/src/content_hash.rs", r"fn index_to_ordinal\(ix: usize\) -> u32", "derive: enum ordinal is a u32"),
    ("lib/proc-macros/src/content_hash.rs", r"Fields::Unit => \{\s*let ix = index_to_ordinal\(i\);", "derive: unit variant hashes its ordinal"),
    ("lib/proc-macros/src/content_hash.rs", r"let hash_statements = fields\.named\.iter\(\)\.map\(\|f\| \{", "derive: named fields hashed in declaration order"),
    ("lib/src/object_id.rs", r"#\[derive\(\$crate::content_hash::ContentHash[^\]]*\)\]\s*\$vis struct \$name\(Vec<u8>\);", "id_type!: tuple struct over Vec<u8> deriving ContentHash"),
]


def strip_comments(src):
    src = re.sub(r"/\*.*?\*/", "", src, flags=re.S)
    return re.sub(r"//[^\n]*", "", src)


def split_top(s, sep=","):
    out, depth, cur = [], 0, ""
    for ch in s:
        if ch in "<([{":
            depth += 1
        elif ch in ">)]}":
            depth -= 1
        if ch == sep and depth == 0:
            out.append(cur); cur = ""
        else:
            cur += ch
    if cur.strip():
        out.append(cur)
    return [x.strip() for x in out if x.strip()]


def strip_attrs(s):
    # remove #[...] attributes (balanced brackets)
    out, i = "", 0
    while i < len(s):
        if s.startswith("#[", i):
            depth, i = 0, i + 1
            while i < len(s):
                if s[i] == "[":
                    depth += 1
                elif s[i] == "]":
                    depth -= 1
                    if depth == 0:
                        i += 1
                        break
                i += 1
        else:
            out += s[i]; i += 1
    return out


def find_def(src, name):
    """returns ('struct', [(field, type)]) | ('tuple', [type]) | ('enum', [variant]) or None;
    the definition must carry a derive list containing ContentHash"""
    m = re.search(r"#\[derive\(([^\]]*)\)\]((?:\s*#\[[^\n]*\]\n?)*)\s*pub (struct|enum) " + re.escape(name) + r"\b\s*([({])", src)
    if not m or "ContentHash" not in m.group(1):
        return None
    kind, opener = m.group(3), m.group(4)
    closer = ")" if opener == "(" else "}"
    i, depth = m.end(), 1
    start = i
    while i < len(src) and depth:
        if src[i] == opener:
            depth += 1
        elif src[i] == closer:
            depth -= 1
        i += 1
    body = strip_attrs(src[start:i - 1])
    if kind == "enum":
        variants = split_top(body)
        if any(re.search(r"[({]", v) for v in variants):
            raise ValueError(f"enum {name} has non-unit variants (not supported by the model)")
        return ("enum", [v.split("=")[0].strip() for v in variants])
    if opener == "(":
        return ("tuple", [re.sub(r"^pub(\([^)]*\))?\s+", "", t) for t in split_top(body)])
    fields = []
    for f in split_top(body):
        f = re.sub(r"^pub(\([^)]*\))?\s+", "", f)
        fname, ftype = f.split(":", 1)
        fields.append((fname.strip(), re.sub(r"\s+", "", ftype)))
    return ("struct", fields)


class Resolver:
    def __init__(self, repo):
        self.repo, self.src, self.problems = repo, {}, []

    def source(self, rel):
        if rel not in self.src:
            try:
                self.src[rel] = strip_comments(open(os.path.join(self.repo, rel)).read())
            except OSError as e:
                self.problems.append(f"cannot read {rel}: {e}")
                self.src[rel] = ""
        return self.src[rel]

    def nest(self, ds):
        return ds[0] if len(ds) == 1 else f"(.pair {ds[0]} {self.nest(ds[1:])})"

    def named(self, name):
        if name in ID_TYPES:
            if not re.search(r"id_type!\(\s*pub " + name + r"\b", strip_attrs(self.source(ID_TYPES[name]))):
                self.problems.append(f"id_type!(pub {name} …) not found in {ID_TYPES[name]}")
            return f'(.struct "{name}" (.field "0" (.seq .u8)))'
        if name not in TYPES:
            self.problems.append(f"type {name} is not in the translator's table")
            return ".unit"
        d = find_def(self.source(TYPES[name]), name)
        if d is None:
            self.problems.append(f"#[derive(ContentHash)] definition of {name} not found in {TYPES[name]}")
            return ".unit"
        kind, items = d
        if kind == "enum":
            return f'(.struct "{name}" (.enumUnit [{", ".join(chr(34) + v + chr(34) for v in items)}]))'
        if kind == "tuple":
            items = [(str(i), t) for i, t in enumerate(items)]
        if not items:
            return f'(.struct "{name}" .unit)'
        return f'(.struct "{name}" {self.nest([f"(.field {chr(34)}{f}{chr(34)} {self.ty(t)})" for f, t in items])})'

    def ty(self, t):
        t = re.sub(r"\s+", "", t)
        m = re.fullmatch(r"([A-Za-z_][\w:]*?)(?:<(.*)>)?", t)
        if not m:
            self.problems.append(f"cannot parse type {t}")
            return ".unit"
        head, args = m.group(1).split("::")[-1], split_top(m.group(2)) if m.group(2) else []
        if head in BUILTIN:
            arity, build, pat = BUILTIN[head]
            if arity != len(args):
                self.problems.append(f"type {t}: expected {arity} parameters")
                return ".unit"
            if not re.search(pat, self.source(CONTENT_HASH)):
                self.problems.append(f"content_hash.rs: the impl for {head} no longer has the modelled shape")
            return build(*[self.ty(a) for a in args])
        if args:
            self.problems.append(f"generic type {t} is not in the translator's table")
            return ".unit"
        return self.named(head)


def run(repo, outdir, write_if_changed):
    r = Resolver(repo)
    for rel, pat, what in REQUIRED:
        if not re.search(pat, r.source(rel)):
            r.problems.append(f"{rel}: pattern gone ({what})")
    lines = ["-- GENERATED by tools/translate.py (translate_parts/hash_layout.py) from the #[derive(ContentHash)]",
             "-- types of /repo/lib/src/{op_store,backend,ref_name,object_id}.rs — do not edit",
             "import JjModel.Model.Codec",
             "namespace JjModel.Generated.HashLayout",
             "open JjModel.Codec (Desc)", ""]
    for name in EMIT:
        try:
            d = r.named(name)
        except ValueError as e:
            r.problems.append(str(e)); d = ".unit"
        lines += [f"def {name} : Desc :=", f"  {d}", ""]
    lines += ["end JjModel.Generated.HashLayout", ""]
    if not r.problems:
        write_if_changed(os.path.join(outdir, "HashLayout.lean"), "\n".join(lines))
    return r.problems
