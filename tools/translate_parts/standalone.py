"""Runs the stand-alone, table-driven translators in tools/translate_standalone/*.py (each exits
non-zero and names the source file/pattern when something it is tied to has disappeared)."""
import os, subprocess, sys

def run(repo, outdir, write_if_changed):
    d = os.path.join(os.path.dirname(os.path.abspath(__file__)), "..", "translate_standalone")
    problems = []
    for fn in sorted(os.listdir(d)):
        if not fn.endswith(".py"):
            continue
        env = dict(os.environ, JJ_REPO=repo)
        p = subprocess.run([sys.executable, os.path.join(d, fn)], env=env, stdout=subprocess.PIPE,
                           stderr=subprocess.STDOUT, text=True)
        if p.returncode != 0:
            problems.append(f"{fn}: " + " | ".join(p.stdout.strip().splitlines()[-4:]))
    return problems
