#!/usr/bin/env python3
"""Translate constants from the jj source into Lean (run by `check` on every run).

Table-driven: each entry is (source file under /repo, regex with one group capturing a Rust
constant integer expression, Lean name, Lean type, output module).  The captured expression is
evaluated (integer literals, `<<`, `>>`, `*`, `+`, `-`, parentheses only) and written as
`def <name> : <type> := <value>` into `lean/JjModel/Generated/<module>.lean`, namespace
`JjModel.Generated`.  Idempotent (files are rewritten only when their content changes).
Exit status is non-zero when a source file or pattern has disappeared or an expression is not
a constant of the supported form — the model would otherwise silently keep a stale value.

Grammars (C36): the `.pest` files listed in GRAMMARS are parsed (full pest syntax except the stack
operations PUSH/POP/PEEK/DROP, tags and COMMENT rules, which make the translator fail) and written
as Lean data (`JjModel.Peg.Grammar`: list of rules = name, modifier, expression; rule references
are indices into that list) into `lean/JjModel/Generated/Grammars.lean`.  The XID_CONTINUE table of
the pest version pinned in /repo/Cargo.lock is decoded from pest's own source (ucd-trie) into
`lean/JjModel/Generated/UnicodeXid.lean` as a sorted list of code-point ranges.
"""
import ast, glob, os, re, sys

REPO = os.environ.get("JJ_REPO", "/repo")
ROOT = os.path.join(os.path.dirname(os.path.abspath(__file__)), "..", "..", "lean", "JjModel", "Generated")

# (file, regex, lean name, lean type, output module)
TABLE = [
    ("lib/src/eol.rs", r"const\s+PROBE_LIMIT\s*:\s*u64\s*=\s*([^;]+);", "eolProbeLimit", "Nat", "ConstsEol"),
]

# Rule texts that several grammars must share verbatim (one Lean model stands for all of them):
# (rule names, files, Lean name, output module).  The normalised text is written to the module as
# documentation; the translator fails if the files disagree or a rule is missing.
SAME_RULES = [
    (["string_escape", "string_content_char", "string_content", "string_literal",
      "raw_string_content", "raw_string_literal"],
     ["lib/src/revset.pest", "lib/src/fileset.pest", "cli/src/template.pest"],
     "stringLiteralRules", "ConstsDsl"),
]

_OPS = {ast.LShift: lambda a, b: a << b, ast.RShift: lambda a, b: a >> b, ast.Mult: lambda a, b: a * b,
        ast.Add: lambda a, b: a + b, ast.Sub: lambda a, b: a - b}

def const_eval(expr):
    e = re.sub(r"(?<=[0-9a-fA-F])_(?=[0-9a-fA-F])", "", expr.strip())
    e = re.sub(r"\b((?:0x[0-9a-fA-F]+)|(?:[0-9]+))(?:u8|u16|u32|u64|usize|i32|i64|isize)\b", r"\1", e)
    def ev(n):
        if isinstance(n, ast.Expression):
            return ev(n.body)
        if isinstance(n, ast.Constant) and isinstance(n.value, int) and not isinstance(n.value, bool):
            return n.value
        if isinstance(n, ast.BinOp) and type(n.op) in _OPS:
            return _OPS[type(n.op)](ev(n.left), ev(n.right))
        raise ValueError(f"unsupported constant expression: {expr!r}")
    return ev(ast.parse(e, mode="eval"))

def pest_rule(src, name):
    """text of pest rule `name` (up to the next rule / comment / blank line), whitespace-normalised"""
    m = re.search(r"^" + re.escape(name) + r"\s*=.*?(?=^\w+\s*=|^//|^\s*$|\Z)", src, re.S | re.M)
    return None if m is None else " ".join(m.group(0).split())


# ---------------------------------------------------------------------------------------------
# pest grammars -> Lean data (C36)

# (file under /repo, Lean name)
GRAMMARS = [
    ("lib/src/revset.pest", "revsetGrammar"),
    ("lib/src/fileset.pest", "filesetGrammar"),
    ("cli/src/template.pest", "templateGrammar"),
]
# pest built-in rules the model knows: name -> Lean constructor of `JjModel.Peg.PExpr`
BUILTINS = {
    "ANY": ".cls .any", "SOI": ".soi", "EOI": ".eoi",
    "ASCII_DIGIT": ".cls .asciiDigit", "ASCII_NONZERO_DIGIT": ".cls .asciiNonzeroDigit",
    "ASCII_BIN_DIGIT": ".cls .asciiBinDigit", "ASCII_OCT_DIGIT": ".cls .asciiOctDigit",
    "ASCII_HEX_DIGIT": ".cls .asciiHexDigit", "ASCII_ALPHA_LOWER": ".cls .asciiAlphaLower",
    "ASCII_ALPHA_UPPER": ".cls .asciiAlphaUpper", "ASCII_ALPHA": ".cls .asciiAlpha",
    "ASCII_ALPHANUMERIC": ".cls .asciiAlphanumeric", "ASCII": ".cls .ascii",
    "XID_CONTINUE": ".cls .xidContinue",
}
UNSUPPORTED_IDENTS = {"PUSH", "POP", "POP_ALL", "PEEK", "PEEK_ALL", "DROP", "COMMENT", "NEWLINE", "PUSH_LITERAL"}
MODIFIERS = {"": ".normal", "_": ".silent", "@": ".atomic", "$": ".compound", "!": ".nonAtomic"}

class PestError(Exception):
    pass

class PestParser:
    """Recursive-descent parser for the pest grammar language (pest_meta/src/grammars/pest.pest).
    Expression trees: ("str", [cp]), ("insens", [cp]), ("range", lo, hi), ("id", name),
    ("seq", a, b), ("choice", a, b), ("star", e), ("plus", e), ("opt", e), ("not", e), ("and", e),
    ("rep", e, n)."""
    def __init__(self, src, fname):
        self.s, self.i, self.fname = src, 0, fname
    def err(self, msg):
        line = self.s.count("\n", 0, self.i) + 1
        raise PestError(f"{self.fname}:{line}: {msg}")
    def ws(self):
        while self.i < len(self.s):
            if self.s[self.i] in " \t\r\n":
                self.i += 1
            elif self.s.startswith("//", self.i):
                j = self.s.find("\n", self.i)
                self.i = len(self.s) if j < 0 else j
            elif self.s.startswith("/*", self.i):
                j = self.s.find("*/", self.i)
                if j < 0:
                    self.err("unterminated block comment")
                self.i = j + 2
            else:
                break
    def peek(self, tok):
        self.ws()
        return self.s.startswith(tok, self.i)
    def eat(self, tok):
        if self.peek(tok):
            self.i += len(tok)
            return True
        return False
    def expect(self, tok):
        if not self.eat(tok):
            self.err(f"expected {tok!r}, found {self.s[self.i:self.i + 20]!r}")
    def ident(self):
        self.ws()
        m = re.compile(r"[A-Za-z_][A-Za-z0-9_]*").match(self.s, self.i)
        if not m:
            return None
        self.i = m.end()
        return m.group(0)
    def escape(self):
        # after the backslash
        c = self.s[self.i]
        self.i += 1
        simple = {"n": 10, "r": 13, "t": 9, "0": 0, "\\": 92, '"': 34, "'": 39}
        if c in simple:
            return simple[c]
        if c == "x":
            h = self.s[self.i:self.i + 2]
            if not re.fullmatch(r"[0-9a-fA-F]{2}", h):
                self.err("bad \\x escape")
            self.i += 2
            return int(h, 16)
        if c == "u":
            m = re.compile(r"\{([0-9a-fA-F]{2,6})\}").match(self.s, self.i)
            if not m:
                self.err("bad \\u escape")
            self.i = m.end()
            return int(m.group(1), 16)
        self.err(f"unknown escape \\{c}")
    def string(self):
        # at the opening quote
        self.i += 1
        out = []
        while True:
            if self.i >= len(self.s):
                self.err("unterminated string")
            c = self.s[self.i]
            if c == '"':
                self.i += 1
                return out
            if c == "\\":
                self.i += 1
                out.append(self.escape())
            else:
                out.append(ord(c))
                self.i += 1
    def char(self):
        # at the opening apostrophe
        self.i += 1
        c = self.s[self.i]
        if c == "\\":
            self.i += 1
            v = self.escape()
        else:
            v = ord(c)
            self.i += 1
        if self.s[self.i] != "'":
            self.err("unterminated character literal")
        self.i += 1
        return v
    def grammar(self):
        rules = []
        while True:
            self.ws()
            if self.i >= len(self.s):
                return rules
            name = self.ident()
            if name is None:
                self.err(f"expected a rule name, found {self.s[self.i:self.i + 20]!r}")
            self.expect("=")
            self.ws()
            mod = ""
            if self.s[self.i] in "_@$!":
                mod = self.s[self.i]
                self.i += 1
            self.expect("{")
            body = self.expr()
            self.expect("}")
            rules.append((name, mod, body))
    def expr(self):
        self.eat("|")  # optional leading choice operator
        return self.choice()
    def choice(self):
        a = self.seq()
        if self.eat("|"):
            return ("choice", a, self.choice())
        return a
    def seq(self):
        a = self.term()
        if self.eat("~"):
            return ("seq", a, self.seq())
        return a
    def term(self):
        self.ws()
        if self.peek("#"):
            self.err("tags are not supported by the translator")
        if self.eat("!"):
            return ("not", self.term())
        if self.eat("&"):
            return ("and", self.term())
        e = self.node()
        while True:
            self.ws()
            if self.eat("*"):
                e = ("star", e)
            elif self.eat("+"):
                e = ("plus", e)
            elif self.eat("?"):
                e = ("opt", e)
            elif self.peek("{"):
                m = re.compile(r"\{\s*([0-9]+)\s*\}").match(self.s, self.i)
                if not m:
                    self.err("only the exact repetition `{n}` is supported by the translator")
                self.i = m.end()
                n = int(m.group(1))
                if n == 0:
                    self.err("`{0}` is rejected by pest")
                e = ("rep", e, n)
            else:
                return e
    def node(self):
        self.ws()
        if self.i >= len(self.s):
            self.err("unexpected end of file")
        c = self.s[self.i]
        if c == "(":
            self.i += 1
            e = self.expr()
            self.expect(")")
            return e
        if c == '"':
            return ("str", self.string())
        if c == "^":
            self.i += 1
            if not self.peek('"'):
                self.err("expected a string after ^")
            return ("insens", self.string())
        if c == "'":
            lo = self.char()
            self.expect("..")
            self.ws()
            if self.s[self.i] != "'":
                self.err("expected a character literal after ..")
            hi = self.char()
            return ("range", lo, hi)
        name = self.ident()
        if name is None:
            self.err(f"unexpected {self.s[self.i:self.i + 20]!r}")
        if self.peek("[") or (name in UNSUPPORTED_IDENTS and self.peek("(")):
            self.err(f"`{name}` with arguments is not supported by the translator")
        return ("id", name)

def lean_expr(e, index, fname):
    k = e[0]
    if k == "str" or k == "insens":
        return f"(.{k} [{', '.join(map(str, e[1]))}])"
    if k == "range":
        return f"(.range {e[1]} {e[2]})"
    if k == "id":
        n = e[1]
        if n in index:
            return f"(.ref {index[n]})"
        if n in BUILTINS:
            return f"({BUILTINS[n]})"
        raise PestError(f"{fname}: `{n}` is neither a rule of the grammar nor a built-in the model knows")
    if k in ("seq", "choice"):
        return f"(.{k} {lean_expr(e[1], index, fname)} {lean_expr(e[2], index, fname)})"
    if k == "rep":
        return f"(.rep {lean_expr(e[1], index, fname)} {e[2]})"
    return f"(.{k} {lean_expr(e[1], index, fname)})"

def translate_grammar(file, lean_name):
    src = open(os.path.join(REPO, file)).read()
    rules = PestParser(src, file).grammar()
    index = {}
    for i, (name, _, _) in enumerate(rules):
        if name in index:
            raise PestError(f"{file}: rule `{name}` defined twice")
        if name in UNSUPPORTED_IDENTS or name in BUILTINS:
            raise PestError(f"{file}: rule name `{name}` is not supported by the translator")
        index[name] = i
    lines = [f"/-- `{file}` ({len(rules)} rules) -/", f"def {lean_name} : Grammar where", "  rules := ["]
    for i, (name, mod, body) in enumerate(rules):
        text = pest_rule(src, name) or ""
        lines.append(f"    -- {i}: {text}")
        lines.append(f'    ⟨"{name}", {MODIFIERS[mod]}, {lean_expr(body, index, file)}⟩' + ("," if i + 1 < len(rules) else ""))
    ws = f"some {index['WHITESPACE']}" if "WHITESPACE" in index else "none"
    lines += ["  ]", f"  whitespace := {ws}", ""]
    return lines, len(rules)

def pest_version():
    lock = open(os.path.join(REPO, "Cargo.lock")).read()
    m = re.search(r'name = "pest"\nversion = "([^"]+)"', lock)
    if not m:
        raise PestError("Cargo.lock: package `pest` not found")
    return m.group(1)

def xid_continue_ranges():
    """decode `pest::unicode::XID_CONTINUE` (a ucd_trie::TrieSet literal) of the pinned pest version"""
    ver = pest_version()
    home = os.environ.get("CARGO_HOME", os.path.expanduser("~/.cargo"))
    cands = sorted(glob.glob(os.path.join(home, "registry", "src", "*", f"pest-{ver}", "src", "unicode", "binary.rs")))
    if not cands:
        raise PestError(f"source of pest {ver} not found under {home}/registry/src (needed for the XID_CONTINUE table)")
    src = open(cands[0]).read()
    m = re.search(r"pub const XID_CONTINUE: &'static ::ucd_trie::TrieSet = &::ucd_trie::TrieSet \{(.*?)\n\};", src, re.S)
    if not m:
        raise PestError(f"{cands[0]}: XID_CONTINUE trie literal not found")
    fields = {}
    for name in ["tree1_level1", "tree2_level1", "tree2_level2", "tree3_level1", "tree3_level2", "tree3_level3"]:
        fm = re.search(name + r": &\[(.*?)\]", m.group(1), re.S)
        if not fm:
            raise PestError(f"{cands[0]}: field {name} of XID_CONTINUE not found")
        fields[name] = [int(x, 0) for x in re.findall(r"0x[0-9A-Fa-f]+|[0-9]+", fm.group(1))]
    def contains(cp):  # ucd-trie `TrieSetSlice::contains`
        bit = cp & 63
        if cp < 0x800:
            return (fields["tree1_level1"][cp >> 6] >> bit) & 1 == 1
        if cp < 0x10000:
            i = (cp >> 6) - 0x20
            if i >= len(fields["tree2_level1"]):
                return False
            return (fields["tree2_level2"][fields["tree2_level1"][i]] >> bit) & 1 == 1
        i = (cp >> 12) - 0x10
        if i >= len(fields["tree3_level1"]):
            return False
        j = fields["tree3_level1"][i] * 64 + ((cp >> 6) & 63)
        return (fields["tree3_level3"][fields["tree3_level2"][j]] >> bit) & 1 == 1
    ranges, start = [], None
    for cp in range(0x110000):
        if contains(cp):
            if start is None:
                start = cp
        elif start is not None:
            ranges.append((start, cp - 1))
            start = None
    if start is not None:
        ranges.append((start, 0x10FFFF))
    # sanity: the ASCII part is fixed by the definition of XID_Continue
    if ranges[:4] != [(48, 57), (65, 90), (95, 95), (97, 122)]:
        raise PestError(f"decoded XID_CONTINUE table looks wrong: starts with {ranges[:4]}")
    return ver, ranges

def translate_grammars():
    """returns (errors, {module: text})"""
    errors, out = [], {}
    try:
        ver, ranges = xid_continue_ranges()
        lines = ["-- GENERATED by tools/translate.py from the jj source — do not edit", "namespace JjModel.Generated", "",
                 f"/-- `XID_CONTINUE` of pest {ver} (the version pinned in /repo/Cargo.lock), decoded from",
                 "`pest::unicode::XID_CONTINUE`: sorted, disjoint, inclusive code-point ranges -/",
                 "def xidContinueRanges : List (Nat × Nat) := ["]
        for k in range(0, len(ranges), 6):
            chunk = ", ".join(f"({a}, {b})" for a, b in ranges[k:k + 6])
            lines.append("  " + chunk + ("," if k + 6 < len(ranges) else ""))
        lines += ["]", "", "end JjModel.Generated", ""]
        out["UnicodeXid"] = ("\n".join(lines), f"{len(ranges)} ranges")
    except (PestError, OSError) as e:
        errors.append(str(e))
    lines = ["-- GENERATED by tools/translate.py from the jj source — do not edit", "import JjModel.Model.Peg",
             "namespace JjModel.Generated", "open JjModel.Peg", ""]
    total = 0
    for file, lean_name in GRAMMARS:
        try:
            ls, n = translate_grammar(file, lean_name)
            lines += ls
            total += n
        except (PestError, OSError) as e:
            errors.append(str(e))
    lines += ["end JjModel.Generated", ""]
    out["Grammars"] = ("\n".join(lines), f"{len(GRAMMARS)} grammars, {total} rules")
    return errors, out

def write_if_changed(path, text):
    try:
        if open(path).read() == text:
            return False
    except FileNotFoundError:
        pass
    os.makedirs(os.path.dirname(path), exist_ok=True)
    with open(path, "w") as f:
        f.write(text)
    return True

def main():
    errors, modules = [], {}
    for file, rx, name, ty, module in TABLE:
        path = os.path.join(REPO, file)
        try:
            src = open(path).read()
        except OSError as e:
            errors.append(f"{file}: cannot read ({e})")
            continue
        ms = re.findall(rx, src)
        if len(ms) != 1:
            errors.append(f"{file}: pattern for {name} matched {len(ms)} times (expected 1): {rx}")
            continue
        try:
            val = const_eval(ms[0])
        except (ValueError, SyntaxError) as e:
            errors.append(f"{file}: {name}: {e}")
            continue
        if ty == "Nat" and val < 0:
            errors.append(f"{file}: {name}: negative value {val} for Nat")
            continue
        modules.setdefault(module, []).append((file, ms[0].strip(), name, ty, val))
    texts = {}
    for rules, files, name, module in SAME_RULES:
        per_file = {}
        for file in files:
            try:
                src = open(os.path.join(REPO, file)).read()
            except OSError as e:
                errors.append(f"{file}: cannot read ({e})")
                continue
            got = [pest_rule(src, r) for r in rules]
            if None in got:
                errors.append(f"{file}: rule(s) missing: {[r for r, g in zip(rules, got) if g is None]}")
                continue
            per_file[file] = "\n".join(got)
        if len(per_file) == len(files):
            if len(set(per_file.values())) != 1:
                errors.append(f"rules {rules} differ between {files}: the shared model {name} no longer stands for all of them")
            else:
                texts.setdefault(module, []).append((files, name, per_file[files[0]]))
    g_errors, g_modules = translate_grammars()
    errors += g_errors
    if errors:
        for e in errors:
            print("translate: ERROR " + e)
        return 1
    for module, (text, what) in sorted(g_modules.items()):
        changed = write_if_changed(os.path.join(ROOT, module + ".lean"), text)
        print(f"translate: {module}.lean {'updated' if changed else 'unchanged'} ({what})")
    for module, entries in sorted(modules.items()):
        lines = ["-- GENERATED by tools/translate.py from the jj source — do not edit", "namespace JjModel.Generated", ""]
        for file, expr, name, ty, val in entries:
            lines += [f"/-- `{file}`: `{expr}` -/", f"def {name} : {ty} := {val}", ""]
        lines += ["end JjModel.Generated", ""]
        changed = write_if_changed(os.path.join(ROOT, module + ".lean"), "\n".join(lines))
        print(f"translate: {module}.lean {'updated' if changed else 'unchanged'} ({len(entries)} constant(s))")
    for module, entries in sorted(texts.items()):
        lines = ["-- GENERATED by tools/translate.py from the jj source — do not edit", "namespace JjModel.Generated", ""]
        for files, name, text in entries:
            lit = text.replace("\\", "\\\\").replace('"', '\\"').replace("\n", "\\n")
            lines += [f"/-- rule text shared verbatim by {', '.join('`' + f + '`' for f in files)} -/", f'def {name} : String := "{lit}"', ""]
        lines += ["end JjModel.Generated", ""]
        changed = write_if_changed(os.path.join(ROOT, module + ".lean"), "\n".join(lines))
        print(f"translate: {module}.lean {'updated' if changed else 'unchanged'} ({len(entries)} shared rule group(s))")
    return 0

if __name__ == "__main__":
    sys.exit(main())
