#!/usr/bin/env python3
"""Translate constants of the jj source into Lean (`lean/JjModel/Generated/*.lean`).

`./check` runs this on every invocation.  The script is

* table driven: `TABLE` maps an output module to a list of entries
  `(source file relative to /repo, regex with ONE capture group, lean name, kind)`;
  builders add rows, nothing else needs to change;
* idempotent: a file is written only when its content changes (keeps lake's incremental build quiet);
* strict: when a pattern does not match exactly once, or the captured text cannot be converted,
  it prints a message naming the source file and the pattern and exits non-zero (the check then
  reports a broken translator obligation instead of silently proving theorems about stale constants).

Kinds
  nat      decimal integer literal (underscores allowed)                → `def n : Nat := 7`
  byte     Rust byte literal  b'x' / b'\\\\' / b'\\n' (group = the part between the quotes) → `def c : UInt8 := 60`
  string   Rust string literal body (group = text between the double quotes, simple escapes)
           → `def s : List UInt8 := [..]`  (UTF-8 bytes)
"""
import os
import re
import sys

REPO = os.environ.get("JJ_REPO", "/repo")
ROOT = os.path.join(os.path.dirname(os.path.abspath(__file__)), "..", "..", "lean", "JjModel", "Generated")

CONFLICTS = "lib/src/conflicts.rs"

# module name -> (doc comment, [(file, regex, lean name, kind)])
TABLE = {
    "Consts": (
        "Constants extracted from the jj sources.",
        [
            # --- lib/src/conflicts.rs (C05/C06) ---
            (CONFLICTS, r"^pub const MIN_CONFLICT_MARKER_LEN: usize = ([0-9_]+);", "MIN_CONFLICT_MARKER_LEN", "nat"),
            (CONFLICTS, r"^const CONFLICT_MARKER_LEN_INCREMENT: usize = ([0-9_]+);", "CONFLICT_MARKER_LEN_INCREMENT", "nat"),
            (CONFLICTS, r'^const NO_ENDING_EOL_COMMENT: &str = "((?:[^"\\]|\\.)*)";', "NO_ENDING_EOL_COMMENT", "string"),
            (CONFLICTS, r"^\s*ConflictStart = b'((?:[^'\\]|\\.)+)',", "MARKER_CONFLICT_START", "byte"),
            (CONFLICTS, r"^\s*ConflictEnd = b'((?:[^'\\]|\\.)+)',", "MARKER_CONFLICT_END", "byte"),
            (CONFLICTS, r"^\s*Add = b'((?:[^'\\]|\\.)+)',", "MARKER_ADD", "byte"),
            (CONFLICTS, r"^\s*Remove = b'((?:[^'\\]|\\.)+)',", "MARKER_REMOVE", "byte"),
            (CONFLICTS, r"^\s*Diff = b'((?:[^'\\]|\\.)+)',", "MARKER_DIFF", "byte"),
            (CONFLICTS, r"^\s*Note = b'((?:[^'\\]|\\.)+)',", "MARKER_NOTE", "byte"),
            (CONFLICTS, r"^\s*GitAncestor = b'((?:[^'\\]|\\.)+)',", "MARKER_GIT_ANCESTOR", "byte"),
            (CONFLICTS, r"^\s*GitSeparator = b'((?:[^'\\]|\\.)+)',", "MARKER_GIT_SEPARATOR", "byte"),
            # the parse table must use the same bytes as the enum discriminants
            (CONFLICTS, r"^\s*b'((?:[^'\\]|\\.)+)' => Some\(Self::ConflictStart\),", "PARSE_CONFLICT_START", "byte"),
            (CONFLICTS, r"^\s*b'((?:[^'\\]|\\.)+)' => Some\(Self::ConflictEnd\),", "PARSE_CONFLICT_END", "byte"),
            (CONFLICTS, r"^\s*b'((?:[^'\\]|\\.)+)' => Some\(Self::Add\),", "PARSE_ADD", "byte"),
            (CONFLICTS, r"^\s*b'((?:[^'\\]|\\.)+)' => Some\(Self::Remove\),", "PARSE_REMOVE", "byte"),
            (CONFLICTS, r"^\s*b'((?:[^'\\]|\\.)+)' => Some\(Self::Diff\),", "PARSE_DIFF", "byte"),
            (CONFLICTS, r"^\s*b'((?:[^'\\]|\\.)+)' => Some\(Self::Note\),", "PARSE_NOTE", "byte"),
            (CONFLICTS, r"^\s*b'((?:[^'\\]|\\.)+)' => Some\(Self::GitAncestor\),", "PARSE_GIT_ANCESTOR", "byte"),
            (CONFLICTS, r"^\s*b'((?:[^'\\]|\\.)+)' => Some\(Self::GitSeparator\),", "PARSE_GIT_SEPARATOR", "byte"),
        ],
    ),
}

ESCAPES = {"n": 10, "r": 13, "t": 9, "0": 0, "\\": 92, "'": 39, '"': 34}


class TranslateError(Exception):
    pass


def unescape(body):
    """bytes of a Rust (byte-)string/char literal body with simple escapes"""
    out, i = [], 0
    while i < len(body):
        c = body[i]
        if c == "\\":
            if i + 1 >= len(body):
                raise TranslateError(f"dangling backslash in literal {body!r}")
            e = body[i + 1]
            if e == "x":
                out.append(int(body[i + 2:i + 4], 16)); i += 4; continue
            if e not in ESCAPES:
                raise TranslateError(f"unsupported escape \\{e} in literal {body!r}")
            out.append(ESCAPES[e]); i += 2; continue
        out.extend(c.encode("utf-8")); i += 1
    return out


def convert(kind, text):
    if kind == "nat":
        return "Nat", str(int(text.replace("_", "")))
    if kind == "byte":
        b = unescape(text)
        if len(b) != 1:
            raise TranslateError(f"byte literal b'{text}' is not a single byte")
        return "UInt8", str(b[0])
    if kind == "string":
        b = unescape(text)
        return "List UInt8", "[" + ", ".join(str(x) for x in b) + "]"
    raise TranslateError(f"unknown kind {kind}")


def write_if_changed(path, text):
    try:
        if open(path).read() == text:
            return False
    except FileNotFoundError:
        pass
    os.makedirs(os.path.dirname(path), exist_ok=True)
    with open(path, "w") as f:
        f.write(text)
    return True


def main():
    cache, errors = {}, []
    for module, (doc, rows) in sorted(TABLE.items()):
        lines = ["-- GENERATED by tools/translate.py from the jj sources — do not edit",
                 f"/-! {doc} -/",
                 "namespace JjModel.Generated", ""]
        for (rel, pattern, name, kind) in rows:
            path = os.path.join(REPO, rel)
            if path not in cache:
                try:
                    cache[path] = open(path, encoding="utf-8").read()
                except OSError as e:
                    cache[path] = None
                    errors.append(f"{rel}: cannot read source file ({e})")
            src = cache[path]
            if src is None:
                continue
            found = re.findall(pattern, src, re.M)
            if len(found) != 1:
                errors.append(f"{rel}: pattern for {name} matched {len(found)} times (expected exactly 1): {pattern}")
                continue
            try:
                ty, val = convert(kind, found[0])
            except (TranslateError, ValueError) as e:
                errors.append(f"{rel}: {name}: {e}")
                continue
            lines.append(f"/-- `{rel}`: `{pattern}` -/")
            lines.append(f"def {name} : {ty} := {val}")
            lines.append("")
        lines += ["end JjModel.Generated", ""]
        if not errors:
            write_if_changed(os.path.join(ROOT, module + ".lean"), "\n".join(lines))
    if errors:
        print("translate.py: source patterns the model is tied to have disappeared or changed shape:")
        for e in errors:
            print("  " + e)
        return 1
    print("translate.py: ok")
    return 0


if __name__ == "__main__":
    sys.exit(main())
