#!/usr/bin/env python3
"""Regenerate MANIFEST.json from props/Cxx.json (claimed properties) and props/not_applicable.json."""
import json, os, glob
VERIF = os.path.join(os.path.dirname(os.path.abspath(__file__)), "..")
def main():
    checks = []
    claimed = set()
    for path in sorted(glob.glob(os.path.join(VERIF, "props", "C*.json"))):
        m = json.load(open(path))
        if not m.get("claimed", True):
            continue
        pid = m["id"]
        assert m.get("level", "proof") in ("exploration", "fault_enumeration", "model_checking", "proof", "translation_validation", "other"), (pid, m.get("level"))
        claimed.add(pid)
        checks.append({
            "property_id": pid,
            "quick_cmd": f"./check {pid} --tier quick",
            **({} if m.get("no_thorough") else {"thorough_cmd": f"./check {pid} --tier thorough"}),
            "evidence_file": f"/verif/evidence/{pid}.json",
            "replay_cmd_template": f"./check {pid} --replay {{path}}",
            "engine": "lean4-proof+correspondence",
            "level_claimed": {"category": m.get("level", "proof"), "text": m["text"], "design_ref": m.get("design_ref", "DESIGN.md §6")},
            "level_note": m["level_note"],
            "technique": m["technique"],
        })
    na_path = os.path.join(VERIF, "props", "not_applicable.json")
    na_all = json.load(open(na_path)) if os.path.exists(na_path) else {}
    allp = [json.loads(l)["id"] for l in open(os.path.join(VERIF, "properties.jsonl"))]
    na = []
    for pid in allp:
        if pid not in claimed:
            na.append({"property_id": pid, "reason": na_all.get(pid, "not yet claimed: model/theorems/correspondence for this property are not finished in this revision (see DESIGN.md §6 for the plan); not switched to another technique")})
    man = {
        "version": 1,
        "setup_cmd": "./setup.sh",
        "hooks": {
            "guard": "jj_vcs_jj_verif",
            "enable": "RUSTFLAGS='--cfg jj_vcs_jj_verif' (set in /verif/harness/.cargo/config.toml; the harness crates depend on /repo/lib, /repo/cli by path and are rebuilt from the working tree by every check)",
            "baseline_off_cmd": "cd /repo && cargo nextest run --workspace --no-fail-fast --offline || cargo test --workspace --no-fail-fast --offline",
            "source_commits": json.load(open(os.path.join(VERIF, "props", "hooks.json")))["source_commits"] if os.path.exists(os.path.join(VERIF, "props", "hooks.json")) else [],
            "add_only": True
        },
        "engines": [
            {"name": "lean4-proof+correspondence", "path": "/verif/lean + /verif/harness + /verif/check",
             "serves_properties": sorted(claimed),
             "kind_free_text": "Lean 4 theorems about a hand-written executable model (lean/JjModel/Model, Props); the model's executable definitions are compiled into the driver `jjmodel` and compared with the real jj code (harness/jjverif, rebuilt from /repo on every run) on the same request lines; translated constants regenerated from source by tools/translate.py"}
        ],
        "checks": checks,
        "not_applicable": na,
        "notes": "All checks: ./check Cxx --tier quick|thorough; honours VERIF_SEED and VERIF_TIER; writes evidence/Cxx.json; known findings in known_findings.json."
    }
    json.dump(man, open(os.path.join(VERIF, "MANIFEST.json"), "w"), indent=1, ensure_ascii=False)
    print(f"MANIFEST.json: {len(checks)} checks, {len(na)} not claimed")
if __name__ == "__main__":
    main()
