#!/bin/sh
# tools/mkworktree.sh <name>: scratch worktree of /verif for a builder (branch <name>), with warm build caches
set -e
name="$1"
dir="/tmp/vw/$name"
mkdir -p /tmp/vw
git -C /verif worktree add -q -b "$name" "$dir" HEAD
mkdir -p "$dir/harness" "$dir/lean"
cp -a /verif/harness/target "$dir/harness/target"
cp -a /verif/lean/.lake "$dir/lean/.lake"
cp /verif/harness/Cargo.lock "$dir/harness/Cargo.lock" 2>/dev/null || true
echo "$dir"
