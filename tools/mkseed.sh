#!/bin/sh
# tools/mkseed.sh <id>: scratch worktree of /repo for a seeding agent (outside /repo and /verif), warm target dir
set -e
id="$1"
dir="/tmp/seed/$id"
mkdir -p /tmp/seed
git -C /repo worktree add -q --detach "$dir" HEAD
cp -a /repo/target "$dir/target"
echo "$dir"
