#!/bin/sh
# tools/merge_branch.sh <branch>: merge a builder branch into main; generated files are regenerated, not merged
set -e
cd /verif
b="$1"
git merge --no-commit --no-ff "$b" >/dev/null 2>&1 || true
for f in MANIFEST.json lean/JjModel.lean lean/Driver/Registry.lean tools/translate.py; do
  git checkout --ours -- "$f" 2>/dev/null || true
done
python3 tools/merge_kf.py "$b"
# evidence files: take theirs (run results); they are rewritten by every check anyway
for f in $(git diff --name-only --diff-filter=U | grep '^evidence/' || true); do git checkout --theirs -- "$f"; done
# Cargo.toml dependency lists: keep both sides' lines
for f in harness/jjverif/Cargo.toml harness/jjverif-cli/Cargo.toml; do
  if grep -q '^<<<<<<< ' "$f" 2>/dev/null; then sed -i '/^<<<<<<< /d;/^=======$/d;/^>>>>>>> /d' "$f"; fi
done
if git diff --name-only --diff-filter=U | grep -v -e '^MANIFEST.json$' -e '^lean/JjModel.lean$' -e '^lean/Driver/Registry.lean$' -e '^tools/translate.py$' -e '^known_findings.json$' -e '^evidence/' -e 'Cargo.toml$' | grep -q .; then
  echo "UNRESOLVED (merge left in progress):"; git diff --name-only --diff-filter=U; exit 1
fi
python3 tools/gen_registry.py
python3 tools/gen_manifest.py
git add -A
if git diff --name-only --diff-filter=U | grep -q .; then echo "UNRESOLVED:"; git diff --name-only --diff-filter=U; exit 1; fi
git commit -qm "merge builder branch $b"
echo merged "$b"
