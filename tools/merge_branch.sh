#!/bin/sh
# tools/merge_branch.sh <branch>: merge a builder branch into main; generated files are regenerated, not merged
set -e
cd /verif
b="$1"
git merge --no-commit --no-ff "$b" >/dev/null 2>&1 || true
for f in MANIFEST.json lean/JjModel.lean lean/Driver/Registry.lean; do
  git checkout --ours -- "$f" 2>/dev/null || true
done
# evidence files: take theirs (run results); they are rewritten by every check anyway
for f in $(git diff --name-only --diff-filter=U | grep '^evidence/' || true); do git checkout --theirs -- "$f"; done
python3 tools/gen_registry.py
python3 tools/gen_manifest.py
git add -A
if git diff --name-only --diff-filter=U | grep -q .; then echo "UNRESOLVED:"; git diff --name-only --diff-filter=U; exit 1; fi
git commit -qm "merge builder branch $b"
echo merged "$b"
