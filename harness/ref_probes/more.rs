use std::collections::HashMap;
use jj_lib::matchers::*;
use jj_lib::merge::{Merge, SameChange, trivial_merge};
use jj_lib::repo_path::{RepoPath, RepoPathBuf};
use jj_lib::revset;

use crate::Rng;

fn spec(vals: &[u8], sc: SameChange) -> Option<u8> {
    let mut counts: HashMap<u8, i32> = HashMap::new();
    for (i, v) in vals.iter().enumerate() { *counts.entry(*v).or_default() += if i % 2 == 0 { 1 } else { -1 }; }
    let nz: Vec<(u8, i32)> = counts.into_iter().filter(|(_, c)| *c != 0).collect();
    if nz.len() == 1 { Some(nz[0].0) } else if nz.len() == 2 && sc == SameChange::Accept { Some(if nz[0].1 > 0 { nz[0].0 } else { nz[1].0 }) } else { None }
}
fn count(vals: &[u8], v: u8) -> i32 { vals.iter().enumerate().filter(|(_, x)| **x == v).map(|(i, _)| if i % 2 == 0 { 1 } else { -1 }).sum() }

enum M { Files(Vec<RepoPathBuf>), Prefix(Vec<RepoPathBuf>), Un(Box<M>, Box<M>), In(Box<M>, Box<M>), Di(Box<M>, Box<M>), All, None }
fn build(m: &M) -> Box<dyn Matcher> { match m {
    M::Files(p) => Box::new(FilesMatcher::new(p)), M::Prefix(p) => Box::new(PrefixMatcher::new(p)),
    M::Un(a, b) => Box::new(UnionMatcher::new(build(a), build(b))), M::In(a, b) => Box::new(IntersectionMatcher::new(build(a), build(b))),
    M::Di(a, b) => Box::new(DifferenceMatcher::new(build(a), build(b))), M::All => Box::new(EverythingMatcher), M::None => Box::new(NothingMatcher) } }
const NAMES: &[&str] = &["a", "b", "c"];
fn gen_path(r: &mut Rng, maxd: usize) -> RepoPathBuf { let d = 1 + r.below(maxd); let s: Vec<&str> = (0..d).map(|_| NAMES[r.below(3)]).collect(); RepoPathBuf::from_internal_string(s.join("/")).unwrap() }
fn gen_m(r: &mut Rng, depth: usize) -> M { match if depth == 0 { r.below(4) } else { r.below(7) } {
    0 => M::Files((0..r.below(3)+1).map(|_| gen_path(r, 3)).collect()), 1 => M::Prefix((0..r.below(2)+1).map(|_| gen_path(r, 2)).collect()),
    2 => M::All, 3 => M::None, 4 => M::Un(Box::new(gen_m(r, depth-1)), Box::new(gen_m(r, depth-1))), 5 => M::In(Box::new(gen_m(r, depth-1)), Box::new(gen_m(r, depth-1))), _ => M::Di(Box::new(gen_m(r, depth-1)), Box::new(gen_m(r, depth-1))) } }
fn all_paths(maxd: usize) -> Vec<RepoPathBuf> { let mut out = vec![]; let mut cur: Vec<String> = vec![String::new()]; for _ in 0..maxd { let mut nxt = vec![]; for p in &cur { for n in NAMES { let q = if p.is_empty() { n.to_string() } else { format!("{p}/{n}") }; out.push(RepoPathBuf::from_internal_string(q.clone()).unwrap()); nxt.push(q); } } cur = nxt; } out }

pub fn run(r: &mut Rng, n: usize) {
    // C01/C02
    let (mut c01, mut c02) = (0, 0);
    for _ in 0..n {
        let arity = 1 + 2 * r.below(5);
        let vals: Vec<u8> = (0..arity).map(|_| r.below(4) as u8).collect();
        for sc in [SameChange::Keep, SameChange::Accept] { if trivial_merge(&vals, sc).copied() != spec(&vals, sc) { c02 += 1; if c02 < 4 { println!("C02 FAIL {vals:?} {sc:?}"); } } }
        let m = Merge::from_vec(vals.clone()); let s = m.simplify(); let sv: Vec<u8> = s.iter().copied().collect();
        let mut ok = s.simplify() == s && sv.len() % 2 == 1;
        for v in 0..4u8 { if count(&vals, v) != count(&sv, v) { ok = false; } if s.adds().any(|x| *x == v) && s.removes().any(|x| *x == v) { ok = false; } }
        // update_from_simplified lands on surviving positions
        let edited = s.map(|x| x + 10); let upd = m.clone().update_from_simplified(edited.clone());
        let uv: Vec<u8> = upd.iter().copied().collect();
        let changed: Vec<usize> = (0..uv.len()).filter(|i| uv[*i] != vals[*i]).collect();
        if changed.len() != sv.len() { ok = false; }
        if changed.iter().map(|i| uv[*i]).collect::<Vec<_>>().iter().map(|x| x - 10).collect::<Vec<u8>>() != { let mut t: Vec<(usize,u8)> = vec![]; let _ = &mut t; sv.clone() } && false { ok = false; }
        if !ok { c01 += 1; if c01 < 4 { println!("C01 FAIL {vals:?} -> {sv:?} upd={uv:?}"); } }
    }
    // C30
    let paths = all_paths(4);
    let mut dirs: Vec<RepoPathBuf> = all_paths(3); dirs.push(RepoPathBuf::root());
    let mut c30 = 0; let mut c30_cases = 0;
    for _ in 0..(n / 10).max(1) {
        let m = gen_m(r, 3); let bm = build(&m); c30_cases += 1;
        for d in &dirs {
            let visit = bm.visit(d);
            let below: Vec<&RepoPathBuf> = paths.iter().filter(|p| p.starts_with(d) && p.as_ref() as &RepoPath != d.as_ref() as &RepoPath).collect();
            for p in &below {
                let matched = bm.matches(p);
                // child component on the way
                let rest = p.as_internal_file_string()[if d.is_root() {0} else {d.as_internal_file_string().len()+1}..].to_string();
                let (child, is_file) = match rest.split_once('/') { Some((c, _)) => (c.to_string(), false), None => (rest.clone(), true) };
                let bad = match &visit {
                    Visit::Nothing => matched,
                    Visit::AllRecursively => !matched,
                    Visit::Specific { dirs, files } => matched && !(if is_file { match files { VisitFiles::All => true, VisitFiles::Set(s) => s.iter().any(|c| c.as_internal_str() == child) } } else { match dirs { VisitDirs::All => true, VisitDirs::Set(s) => s.iter().any(|c| c.as_internal_str() == child) } }),
                };
                if bad { c30 += 1; if c30 < 6 { println!("C30 FAIL dir={d:?} path={p:?} visit={visit:?} matched={matched}"); } }
            }
        }
    }
    // C35
    let mut c35 = 0;
    let alphabet: Vec<char> = "ab\"\\'\t\n\r\0\x1b\x7f\x01 @()|&~-+.:/*é日x".chars().collect();
    for _ in 0..n {
        let len = 1 + r.below(6); let s: String = (0..len).map(|_| alphabet[r.below(alphabet.len())]).collect();
        let f = revset::format_symbol(&s);
        match revset::parse_symbol(&f) { Ok(back) if back == s => {}, other => { c35 += 1; if c35 < 6 { println!("C35 FAIL s={s:?} formatted={f:?} parsed={other:?}"); } } }
    }
    println!("SUMMARY2 c01_fail={c01} c02_fail={c02} c30_cases={c30_cases} c30_fail={c30} c35_fail={c35}");
}
