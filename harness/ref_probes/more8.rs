use std::io::Write as _;
use std::process::{Command, Stdio};
use jj_lib::gitignore::GitIgnoreFile;
use jj_lib::repo_path::RepoPath;
use crate::Rng;

const PCOMP: &[&str] = &["a", "b", "ab", "*", "?", "a*", "*b", "*.c", "[ab]", "[!a]", "**", "x.c", "a?", "\\a", "a\\*", "[a-b]b", "c "];
const NAMES: &[&str] = &["a", "b", "ab", "x.c", "c", "a*", "bb"];
fn gen_pattern(r: &mut Rng) -> String {
    match r.below(14) { 0 => return "# comment".into(), 1 => return "".into(), _ => {} }
    let k = 1 + r.below(3); let comps: Vec<&str> = (0..k).map(|_| PCOMP[r.below(PCOMP.len())]).collect();
    let mut s = comps.join("/");
    if r.below(4) == 0 { s.insert(0, '/'); } if r.below(4) == 0 { s.push('/'); } if r.below(5) == 0 { s.insert(0, '!'); }
    if r.below(12) == 0 { s.push(' '); } if r.below(20) == 0 { s.push_str("\\ "); }
    s
}
fn jj_ignored(files: &[(String, std::sync::Arc<GitIgnoreFile>)], root: &std::sync::Arc<GitIgnoreFile>, path: &str, is_dir: bool) -> bool {
    // emulate snapshot walk: chain ignore files of each ancestor dir as we descend; stop at first ignored dir
    let comps: Vec<&str> = path.split('/').collect();
    let mut chain = root.clone();
    for k in 1..=comps.len() {
        let sub = comps[..k].join("/"); let rp = RepoPath::from_internal_string(&sub).unwrap();
        let last = k == comps.len();
        if last && !is_dir { return chain.matches_file(rp); }
        if chain.matches_dir(rp) { return true; }
        if last { return false; }
        // entering directory `sub`: chain its .gitignore if any
        if let Some((_, f)) = files.iter().find(|(d, _)| *d == sub) { chain = f.clone(); /* placeholder replaced below */ }
    }
    false
}
pub fn run(r: &mut Rng, cases: usize) {
    let dir = tempfile::tempdir().unwrap(); let repo = dir.path();
    assert!(Command::new("git").arg("init").arg("-q").arg(repo).status().unwrap().success());
    let (mut diff, mut total, mut ignored_cnt) = (0, 0, 0);
    for case in 0..cases {
        // root .gitignore and optional a/.gitignore
        let root_txt: String = (0..1 + r.below(4)).map(|_| gen_pattern(r) + "\n").collect();
        let sub_txt: Option<String> = if r.below(3) == 0 { Some((0..1 + r.below(3)).map(|_| gen_pattern(r) + "\n").collect()) } else { None };
        std::fs::write(repo.join(".gitignore"), &root_txt).unwrap();
        for e in std::fs::read_dir(repo).unwrap() { let e = e.unwrap(); if e.file_name() == ".git" { continue; } if e.path().is_dir() { std::fs::remove_dir_all(e.path()).unwrap(); } else { std::fs::remove_file(e.path()).unwrap(); } }
        std::fs::write(repo.join(".gitignore"), &root_txt).unwrap();
        if let Some(t) = &sub_txt { std::fs::create_dir_all(repo.join("a")).unwrap(); std::fs::write(repo.join("a/.gitignore"), t).unwrap(); }
        let root = GitIgnoreFile::empty().chain(RepoPath::root(), &repo.join(".gitignore"), root_txt.as_bytes()).unwrap();
        let sub = sub_txt.as_ref().map(|t| root.chain(RepoPath::from_internal_string("a").unwrap(), &repo.join("a/.gitignore"), t.as_bytes()).unwrap());
        // queries
        let mut queries: Vec<(String, bool)> = vec![];
        for _ in 0..12 { let k = 1 + r.below(3); let p: Vec<&str> = (0..k).map(|_| NAMES[r.below(NAMES.len())]).collect(); let q = p.join("/");
            // skip if q is a prefix-dir of an existing query or an existing query is a dir-prefix of q, or collides with dir `a` holding .gitignore
            let clash = queries.iter().any(|(o, _): &(String, bool)| o.starts_with(&format!("{q}/")) || q.starts_with(&format!("{o}/")) || *o == q) || (sub_txt.is_some() && q == "a");
            if !clash { queries.push((q, false)); } }
        // materialize files
        for (q, _) in &queries { let fp = repo.join(q); std::fs::create_dir_all(fp.parent().unwrap()).unwrap(); std::fs::write(&fp, "").unwrap(); }
        let mut child = Command::new("git").current_dir(repo).args(["check-ignore", "--no-index", "--stdin"]).stdin(Stdio::piped()).stdout(Stdio::piped()).stderr(Stdio::null()).spawn().unwrap();
        { let mut si = child.stdin.take().unwrap(); for (p, d) in &queries { writeln!(si, "{}{}", p, if *d { "/" } else { "" }).unwrap(); } }
        let out = child.wait_with_output().unwrap(); let out = String::from_utf8_lossy(&out.stdout).to_string();
        let git_set: std::collections::HashSet<&str> = out.lines().collect();
        for (p, d) in &queries {
            let q = format!("{}{}", p, if *d { "/" } else { "" });
            let git = git_set.contains(q.as_str());
            // jj composite walk
            let comps: Vec<&str> = p.split('/').collect(); let mut chain = root.clone(); let mut jj = false;
            for k in 1..=comps.len() { let subp = comps[..k].join("/"); let rp = RepoPath::from_internal_string(&subp).unwrap(); let last = k == comps.len();
                if last && !*d { jj = chain.matches_file(rp); break; }
                if chain.matches_dir(rp) { jj = true; break; }
                if last { break; }
                if subp == "a" { if let Some(s) = &sub { chain = s.clone(); } } }
            total += 1; if git { ignored_cnt += 1; }
            if git != jj { diff += 1; if diff <= 12 { println!("C28 DIFF case={case} query={q:?} git={git} jj={jj}\n  root .gitignore={root_txt:?}\n  a/.gitignore={sub_txt:?}"); } }
        }
    }
    println!("SUMMARY9 c28_queries={total} git_ignored={ignored_cnt} diffs={diff}");
    let _ = jj_ignored;
}
