use jj_lib::backend::TreeValue;
use jj_lib::files;
use jj_lib::merge::{Merge, SameChange};
use jj_lib::merged_tree::MergedTree;
use jj_lib::repo::Repo;
use jj_lib::repo_path::RepoPathBuf;
use pollster::FutureExt as _;
use testutils::{TestRepo, TestTreeBuilder, repo_path};
use crate::Rng;

const CONTENTS: &[&str] = &["a\nb\nc\n", "a\nB\nc\n", "a\nb\nC\n", "A\nb\nc\n", "x\n", ""];
// layouts: each slot is a path; "d" may be a file or a dir with children d/x d/y d/e/z
fn gen_tree(r: &mut Rng, store: &std::sync::Arc<jj_lib::store::Store>) -> MergedTree {
    let mut b = TestTreeBuilder::new(store.clone());
    let mut put = |b: &mut TestTreeBuilder, r: &mut Rng, p: &str| { match r.below(8) { 0 => {}, 1 => { b.symlink(repo_path(p), ["t1","t2"][r.below(2)]); }, _ => { let c = CONTENTS[r.below(CONTENTS.len())]; let ex = r.below(4) == 0; let _ = b.file(repo_path(p), c).executable(ex); } } };
    put(&mut b, r, "f"); put(&mut b, r, "g");
    if r.below(4) == 0 { put(&mut b, r, "d"); } else { put(&mut b, r, "d/x"); put(&mut b, r, "d/y"); if r.below(3)==0 { put(&mut b, r, "d/e"); } else { put(&mut b, r, "d/e/z"); } }
    b.write_merged_tree()
}
const PATHS: &[&str] = &["f", "g", "d", "d/x", "d/y", "d/e", "d/e/z"];

pub fn run(r: &mut Rng, n: usize) {
    let test_repo = TestRepo::init(); let repo = &test_repo.repo; let store = repo.store();
    let opts = store.merge_options().clone();
    let (mut fail, mut conflicted, mut rebase_fail) = (0, 0, 0);
    for it in 0..n {
        let sides = 2 + r.below(2);
        let trees: Vec<MergedTree> = (0..2*sides-1).map(|_| gen_tree(r, store)).collect();
        let merged = MergedTree::merge(Merge::from_vec(trees.iter().map(|t| (t.clone(), String::from("l"))).collect::<Vec<_>>())).block_on().unwrap();
        if merged.has_conflict() { conflicted += 1; }
        let mut any_conflict_path = false;
        let clash_above = |p: &str, trees: &Vec<MergedTree>| -> bool {
            let comps: Vec<&str> = p.split('/').collect();
            for k in 1..comps.len() { let q = comps[..k].join("/"); let qp = repo_path(&q);
                let vals: Vec<Option<TreeValue>> = trees.iter().map(|t| t.path_value(qp).block_on().unwrap().into_resolved().unwrap()).collect();
                let m = Merge::from_vec(vals);
                match m.resolve_trivial(opts.same_change) { Some(Some(TreeValue::Tree(_))) => {}, Some(_) => return true, None => { if !m.iter().all(|v| matches!(v, None | Some(TreeValue::Tree(_)))) { return true; } } } }
            false };
        for p in PATHS {
            if clash_above(p, &trees) { continue; }
            let path = repo_path(p);
            let vals: Vec<Option<TreeValue>> = trees.iter().map(|t| t.path_value(path).block_on().unwrap().into_resolved().unwrap()).collect();
            let m = Merge::from_vec(vals.clone());
            // expected per-path
            let expected: Merge<Option<TreeValue>> = if let Some(v) = m.resolve_trivial(opts.same_change) { Merge::resolved(v.clone()) } else {
                let s = m.simplify();
                let all_files = s.iter().all(|v| matches!(v, Some(TreeValue::File{..})));
                let mut res = None;
                if all_files {
                    let execs = s.map(|v| match v { Some(TreeValue::File{executable,..}) => *executable, _ => unreachable!() });
                    let ids = s.map(|v| match v { Some(TreeValue::File{id,..}) => id.clone(), _ => unreachable!() });
                    if let Some(ex) = execs.resolve_trivial(SameChange::Accept) {
                        if let Some(id) = ids.resolve_trivial(opts.same_change) { let copy = match s.first() { Some(TreeValue::File{copy_id,..}) => copy_id.clone(), _ => unreachable!() }; res = Some(TreeValue::File{ id: id.clone(), executable: *ex, copy_id: copy }); }
                        else { let ids2 = ids.simplify(); let contents = ids2.map(|id| testutils::read_file(store, path, id));
                            if let Some(c) = files::try_merge(&contents, &opts) { let id = testutils::write_file(store, path, std::str::from_utf8(&c).unwrap()); let copy = match s.first() { Some(TreeValue::File{copy_id,..}) => copy_id.clone(), _ => unreachable!() }; res = Some(TreeValue::File{ id, executable: *ex, copy_id: copy }); } }
                    }
                }
                match res { Some(v) => Merge::normal(v), None => s }
            };
            let actual = merged.path_value(path).block_on().unwrap();
            let norm = |m: &Merge<Option<TreeValue>>| -> Merge<Option<TreeValue>> { if let Some(v) = m.resolve_trivial(opts.same_change) { Merge::resolved(v.clone()) } else { m.simplify() } };
            // Tree ids inside values differ (subtree merged) -> compare only non-tree values; for trees compare "is tree"
            let strip = |m: Merge<Option<TreeValue>>| m.map(|v| match v { Some(TreeValue::Tree(_)) => Some(TreeValue::Tree(store.empty_tree_id().clone())), o => o.clone() });
            let (a, e) = (strip(norm(&actual)), strip(norm(&expected)));
            if !a.is_resolved() { any_conflict_path = true; }
            // for tree-valued paths the conflict arity may differ after stripping ids; only compare when no term is a tree
            let has_tree = a.iter().chain(e.iter()).any(|v| matches!(v, Some(TreeValue::Tree(_))));
            if !has_tree && a != e { fail += 1; if fail < 6 { println!("C07 FAIL it={it} path={p} vals={vals:?}\n actual={actual:?}\n expected={expected:?}"); } }
        }
        let _ = any_conflict_path;
        // C08-style: rebase law via merge [new_base, old_base, commit]: paths commit didn't change take new base
        if sides == 2 {
            let (nb, ob, c) = (&trees[0], &trees[1], &trees[2]);
            for p in PATHS { if clash_above(p, &trees) { continue; } let path = repo_path(p);
                let (vn, vo, vc) = (nb.path_value(path).block_on().unwrap(), ob.path_value(path).block_on().unwrap(), c.path_value(path).block_on().unwrap());
                let act = merged.path_value(path).block_on().unwrap();
                let is_tree = |m: &Merge<Option<TreeValue>>| m.iter().any(|v| matches!(v, Some(TreeValue::Tree(_))));
                if is_tree(&vn) || is_tree(&vo) || is_tree(&vc) { continue; }
                let actn = if let Some(v) = act.resolve_trivial(opts.same_change) { Merge::resolved(v.clone()) } else { act.clone() };
                if vc == vo && actn != vn { rebase_fail += 1; if rebase_fail < 4 { println!("C08 FAIL(untouched) path={p} vn={vn:?} vo={vo:?} vc={vc:?} act={act:?}"); } }
                if vn == vo && actn != vc { rebase_fail += 1; if rebase_fail < 4 { println!("C08 FAIL(agree) path={p} vn={vn:?} vo={vo:?} vc={vc:?} act={act:?}"); } }
            }
        }
    }
    println!("SUMMARY5 n={n} merged_conflicted={conflicted} c07_fail={fail} c08_fail={rebase_fail}");
    let _ = RepoPathBuf::root();
}
