use std::path::PathBuf;
use std::time::{Duration, SystemTime};
use jj_lib::config::{ConfigLayer, ConfigSource};
use jj_lib::repo::Repo;
use jj_lib::repo_path::RepoPathBuf;
use jj_lib::settings::UserSettings;
use pollster::FutureExt as _;
use testutils::{TestRepoBackend, TestTreeBuilder, TestWorkspace, commit_with_tree, repo_path};
use crate::Rng;

fn settings(extra: &str) -> UserSettings { let mut c = testutils::base_user_config(); c.add_layer(ConfigLayer::parse(ConfigSource::User, extra).unwrap()); UserSettings::from_config(c).unwrap() }
fn set_mtime(p: &std::path::Path, t: SystemTime) { let f = std::fs::OpenOptions::new().write(true).open(p).unwrap(); f.set_modified(t).unwrap(); }

pub fn c29(r: &mut Rng, n: usize) {
    let s = settings("working-copy.eol-conversion = \"input-output\"\n");
    let mut tw = TestWorkspace::init_with_backend_and_settings(TestRepoBackend::Git, &s); let root: PathBuf = tw.workspace.workspace_root().to_owned(); let store = tw.repo.store().clone();
    let limit = 8192usize; let (mut fail, mut binary, mut text, mut crlf_on_disk_bad) = (0, 0, 0, 0);
    let empty = commit_with_tree(&store, TestTreeBuilder::new(store.clone()).write_merged_tree());
    for it in 0..n {
        // content without CRLF; sizes around the probe limit; lone CR / NUL placed around the boundary
        let size = match r.below(4) { 0 => r.below(40), 1 => limit - 3 + r.below(6), 2 => limit + r.below(200), _ => r.below(3000) };
        let mut x: Vec<u8> = (0..size).map(|_| match r.below(12) { 0 => b'\n', _ => b'a' + (r.below(3) as u8) }).collect();
        match r.below(5) { 0 if size > 0 => { let p = if r.below(2) == 0 { r.below(size) } else { (limit - 2 + r.below(4)).min(size - 1) }; x[p] = b'\r'; } 1 if size > 0 => { let p = if r.below(2) == 0 { r.below(size) } else { (limit - 2 + r.below(4)).min(size - 1) }; x[p] = 0; } _ => {} }
        // remove accidental CRLF
        for i in 1..x.len() { if x[i] == b'\n' && x[i - 1] == b'\r' { x[i - 1] = b'b'; } }
        let mut b = TestTreeBuilder::new(store.clone()); let _ = b.file(repo_path("f"), &x); let tree = b.write_merged_tree(); let commit = commit_with_tree(&store, tree.clone());
        tw.workspace.check_out(tw.repo.op_id().clone(), None, &empty).block_on().unwrap();
        tw.workspace.check_out(tw.repo.op_id().clone(), None, &commit).block_on().unwrap();
        let disk = std::fs::read(root.join("f")).unwrap();
        let is_bin = disk == x && x.contains(&b'\n'); // passthrough with LFs present => binary classification (or no LF at all)
        if is_bin { binary += 1; } else { text += 1; }
        if !is_bin { // every LF preceded by CR, and removing those CRs gives x
            let mut back = vec![]; let mut ok = true; let mut i = 0; while i < disk.len() { if disk[i] == b'\r' && i + 1 < disk.len() && disk[i + 1] == b'\n' { i += 1; continue; } if disk[i] == b'\n' && (i == 0 || disk[i - 1] != b'\r') { ok = false; } back.push(disk[i]); i += 1; }
            if !ok || back != x { crlf_on_disk_bad += 1; if crlf_on_disk_bad < 3 { println!("C29 disk form unexpected it={it} size={size}"); } } }
        let snap = tw.snapshot().unwrap();
        if snap.tree_ids() != tree.tree_ids() { fail += 1; if fail < 5 { let v = snap.path_value(repo_path("f")).block_on().unwrap(); println!("C29 FAIL it={it} size={size} first_cr={:?} first_nul={:?} lf_count={} disk_len={} value={v:?}", x.iter().position(|b| *b == b'\r'), x.iter().position(|b| *b == 0), x.iter().filter(|b| **b == b'\n').count(), disk.len()); } }
    }
    println!("SUMMARY15 c29_cases={n} text={text} binary_or_nolf={binary} roundtrip_fail={fail} disk_form_bad={crlf_on_disk_bad}");
}

pub fn c26(r: &mut Rng, n: usize) {
    let (mut missed_in_scope, mut missed_out_of_scope, mut detected, mut cases) = (0, 0, 0, [0usize; 3]);
    let st = testutils::user_settings();
    for _ in 0..n {
        let mut tw = TestWorkspace::init(); let root: PathBuf = tw.workspace.workspace_root().to_owned(); let store = tw.repo.store().clone();
        let mut b = TestTreeBuilder::new(store.clone()); let _ = b.file(repo_path("f"), "aaaa"); let tree = b.write_merged_tree(); let commit = commit_with_tree(&store, tree.clone());
        tw.workspace.check_out(tw.repo.op_id().clone(), None, &commit).block_on().unwrap();
        let _ = tw.snapshot().unwrap();
        let state = root.join(".jj/working_copy/tree_state"); let f = root.join("f");
        let fm = std::fs::metadata(&f).unwrap().modified().unwrap();
        std::fs::write(&f, "bbbb").unwrap(); set_mtime(&f, fm);   // same size, mtime forced back to the recorded one
        let rel = r.below(3); cases[rel] += 1;
        let sm = match rel { 0 => fm, 1 => fm - Duration::from_secs(5), _ => fm + Duration::from_secs(5) }; set_mtime(&state, sm);
        // fresh process view: reload the workspace so own_mtime is read from the state file
        let ws = jj_lib::workspace::Workspace::load(&st, &root, &tw.env.default_backend_factories(), &jj_lib::default_backend_factories::default_working_copy_factories()).unwrap();
        let mut tw2 = TestWorkspace { env: tw.env, workspace: ws, repo: tw.repo };
        let snap = tw2.snapshot().unwrap();
        let changed = snap.tree_ids() != tree.tree_ids();
        if changed { detected += 1; } else if rel == 2 { missed_out_of_scope += 1; } else { missed_in_scope += 1; println!("C26 MISSED in-scope rel={rel}"); }
    }
    println!("SUMMARY15 c26 cases(state==file, state<file, state>file)={cases:?} detected={detected} missed_in_scope={missed_in_scope} missed_when_state_newer(out of scope)={missed_out_of_scope}");
    let _ = RepoPathBuf::root();
}
