use bstr::{BString, ByteSlice};
use jj_lib::conflict_labels::ConflictLabels;
use jj_lib::conflicts::{self, ConflictMarkerStyle, ConflictMaterializeOptions};
use jj_lib::diff::{ContentDiff, DiffHunkKind};
use jj_lib::files::{self, FileMergeHunkLevel, MergeResult};
use jj_lib::merge::{Merge, SameChange};
use jj_lib::tree_merge::MergeOptions;

mod more;
mod more2;
mod more3;
mod more4;
mod more5;
mod more6;
mod c21dbg;
mod more7;
mod more8;
mod more9;
mod more10;
mod more11;
mod more12;
mod more13;
mod more14;
pub struct Rng(pub u64);
impl Rng {
    pub fn next(&mut self) -> u64 { self.0 = self.0.wrapping_add(0x9E3779B97F4A7C15); let mut z = self.0; z = (z ^ (z >> 30)).wrapping_mul(0xBF58476D1CE4E5B9); z = (z ^ (z >> 27)).wrapping_mul(0x94D049BB133111EB); z ^ (z >> 31) }
    pub fn below(&mut self, n: usize) -> usize { (self.next() % n as u64) as usize }
}
const POOL: &[&[u8]] = &[b"a\n", b"b\n", b"c\n", b"\n", b"<<<<<<< x\n", b"+++++++ y\n", b"------ z\n", b"%%%%%%%%\n", b">>>>>>>\n", b"=======\n", b"|||||||\n", b"a\r\n", b"b\r\n", b"\\\\\\\\\\\\\\ n\n", b"-a\n", b" a\n"];
fn gen_text(r: &mut Rng, crlf_bias: bool) -> Vec<u8> {
    let n = r.below(6);
    let mut v = vec![];
    for _ in 0..n { let mut i = r.below(POOL.len()); if crlf_bias && r.below(2) == 0 { i = 11 + r.below(2); } v.extend_from_slice(POOL[i]); }
    match r.below(6) { 0 => { if v.last() == Some(&b'\n') { v.pop(); if v.last() == Some(&b'\r') && r.below(2)==0 { v.pop(); } } } 1 => { v.extend_from_slice(b"tail"); } 2 => { v.extend_from_slice(b"x\r"); } _ => {} }
    v
}
fn main() {
    let seed: u64 = std::env::args().nth(1).map(|s| s.parse().unwrap()).unwrap_or(1);
    let n: usize = std::env::args().nth(2).map(|s| s.parse().unwrap()).unwrap_or(20000);
    if std::env::args().nth(3).as_deref() == Some("c17") { let mut r = Rng(seed); more7::c17(&mut r, n); return; }
    if std::env::args().nth(3).as_deref() == Some("c28") { let mut r = Rng(seed); more8::run(&mut r, n); return; }
    if std::env::args().nth(3).as_deref() == Some("c19") { let mut r = Rng(seed); more9::run(&mut r, n, 150); return; }
    if std::env::args().nth(3).as_deref() == Some("wc") { let mut r = Rng(seed); more10::run(&mut r, n); return; }
    if std::env::args().nth(3).as_deref() == Some("c13") { let mut r = Rng(seed); more11::run(&mut r, n); return; }
    if std::env::args().nth(3).as_deref() == Some("c36") { let mut r = Rng(seed); more12::run(&mut r, n); return; }
    if std::env::args().nth(3).as_deref() == Some("c36deep") {
        let kind = std::env::args().nth(4).unwrap_or_default();
        let text = match kind.as_str() { "postfix" => format!("@{}", "-".repeat(n)), "prefix" => format!("{}@", "~".repeat(n)), "union" => vec!["a"; n].join("|"), "inter" => vec!["a"; n].join("&"), "func" => format!("{}a{}", "f(".repeat(n), ")".repeat(n)), _ => format!("{}a{}", "(".repeat(n), ")".repeat(n)) };
        let h = std::thread::Builder::new().stack_size(8 << 20).spawn(move || { let r = jj_lib::revset::parse_program(&text); let ok = r.is_ok(); drop(r); ok }).unwrap();
        println!("c36deep kind={kind} n={n} parsed_ok={:?}", h.join().map_err(|_| "panic"));
        return;
    }
    if std::env::args().nth(3).as_deref() == Some("c29") { let mut r = Rng(seed); more13::c29(&mut r, n); return; }
    if std::env::args().nth(3).as_deref() == Some("c26") { let mut r = Rng(seed); more13::c26(&mut r, n); return; }
    if std::env::args().nth(3).as_deref() == Some("sparse") { let mut r = Rng(seed); more14::run(&mut r, n); return; }
    if std::env::args().nth(3).as_deref() == Some("c21") { c21dbg::run(seed); return; }
    let mut r = Rng(seed);
    let styles = [ConflictMarkerStyle::Diff, ConflictMarkerStyle::DiffExperimental, ConflictMarkerStyle::Snapshot, ConflictMarkerStyle::Git];
    let (mut c05_cases, mut c05_conf, mut c05_fail) = (0, 0, 0);
    let (mut c03_fail, mut c04_fail, mut f5_fail, mut f5_cases) = (0, 0, 0, 0);
    for it in 0..n {
        // ---- C03/C04/C05 on one merge input
        let sides = 2 + r.below(3);
        let crlf = r.below(4) == 0;
        let terms: Vec<BString> = (0..2 * sides - 1).map(|_| BString::from(gen_text(&mut r, crlf))).collect();
        let m = Merge::from_vec(terms.clone());
        let opts = MergeOptions { hunk_level: if r.below(2) == 0 { FileMergeHunkLevel::Line } else { FileMergeHunkLevel::Word }, same_change: if r.below(2) == 0 { SameChange::Keep } else { SameChange::Accept } };
        // C03
        {
            let inputs: Vec<&[u8]> = terms.iter().map(|t| t.as_slice()).collect();
            let d = ContentDiff::by_line(inputs.iter().copied());
            let hunks: Vec<_> = d.hunks().collect();
            let mut ok = true;
            for i in 0..inputs.len() { let cat: Vec<u8> = hunks.iter().flat_map(|h| h.contents[i].to_vec()).collect(); if cat != inputs[i] { ok = false; } }
            for w in hunks.windows(2) { if w[0].kind == w[1].kind { ok = false; } }
            for h in &hunks { if h.contents.iter().all(|c| c.is_empty()) { ok = false; } if h.kind == DiffHunkKind::Matching && !h.contents.iter().all(|c| *c == h.contents[0]) { ok = false; } }
            let d2 = ContentDiff::by_line(inputs.iter().copied());
            if d2.hunk_ranges().collect::<Vec<_>>() != d.hunk_ranges().collect::<Vec<_>>() { ok = false; }
            if !ok { c03_fail += 1; if c03_fail <= 3 { println!("C03 FAIL it={it} inputs={:?}", terms); } }
        }
        // C04 identity: [a,b,b] -> a ; [b,b,a] -> a ; identical sides
        {
            let a = terms[0].clone(); let b = terms[1].clone();
            for (mm, want) in [(Merge::from_vec(vec![a.clone(), b.clone(), b.clone()]), a.clone()), (Merge::from_vec(vec![b.clone(), b.clone(), a.clone()]), a.clone()), (Merge::from_vec(vec![a.clone(), b.clone(), b.clone(), b.clone(), b.clone()]), a.clone())] {
                let got = files::merge(&mm, &opts);
                if got != Merge::resolved(want.clone()) { c04_fail += 1; if c04_fail <= 3 { println!("C04 FAIL it={it} m={:?} got={:?}", mm, got); } }
            }
            if opts.same_change == SameChange::Accept { let mm = Merge::from_vec(vec![a.clone(), b.clone(), a.clone()]); let got = files::merge(&mm, &opts); if got != Merge::resolved(a.clone()) { c04_fail += 1; if c04_fail <= 3 { println!("C04 FAIL same-change it={it} m={:?} got={:?}", mm, got); } } }
        }
        // C05
        {
            c05_cases += 1;
            if let MergeResult::Conflict(hunks) = files::merge_hunks(&m, &opts) {
                c05_conf += 1;
                for style in styles {
                    let marker_len = conflicts::choose_materialized_conflict_marker_len(&m);
                    let mo = ConflictMaterializeOptions { marker_style: style, marker_len: Some(marker_len), merge: opts.clone() };
                    let labels = if r.below(2) == 0 { ConflictLabels::unlabeled() } else { ConflictLabels::from_vec((0..2*sides-1).map(|i| format!("label {i}")).collect()) };
                    let bytes = conflicts::materialize_merge_result_to_bytes(&m, &labels, &mo);
                    let parsed = conflicts::parse_conflict(&bytes, sides, marker_len);
                    if parsed.as_ref() != Some(&hunks) {
                        c05_fail += 1;
                        if c05_fail <= 6 { println!("C05 FAIL it={it} style={style:?} len={marker_len} opts={opts:?}\n terms={:?}\n mat={:?}\n want={:?}\n got={:?}", terms, bytes.as_bstr(), hunks, parsed); }
                    }
                }
            }
        }
        // F5: simplify(flatten [P,P,C]) == C ?
        {
            let arity = 1 + 2 * r.below(3);
            let p: Vec<u8> = (0..arity).map(|_| r.below(3) as u8).collect();
            let c: Vec<u8> = (0..arity).map(|_| r.below(3) as u8).collect();
            let pm = Merge::from_vec(p.clone()); let cm = Merge::from_vec(c.clone());
            let res = Merge::from_vec(vec![pm.clone(), pm.clone(), cm.clone()]).flatten().simplify();
            f5_cases += 1;
            if res != cm.simplify() { /* compare with simplified C first */ f5_fail += 1; if f5_fail <= 5 { println!("F5 note: P={p:?} C={c:?} simplify(flatten[P,P,C])={res:?} simplify(C)={:?}", cm.simplify()); } }
        }
    }
    more::run(&mut r, n);
    more2::c16(&mut r, n/10);
    more2::c12(&mut r, n);
    more2::c33(&mut r, n);
    more2::c32(&mut r, n);
    more3::run(&mut r, (n/100).max(5));
    more4::run(&mut r, n/10);
    more5::run(&mut r, (n/200).max(5));
    more6::c21(&mut r, (n/100).max(5));
    more6::c06(&mut r, n/10);
    more6::c37(&mut r, (n/100).max(5));
    more6::c38(&mut r, (n/100).max(5));
    println!("SUMMARY seed={seed} n={n} c03_fail={c03_fail} c04_fail={c04_fail} c05_cases={c05_cases} c05_conflicts={c05_conf} c05_fail={c05_fail} f5_cases={f5_cases} f5_diff={f5_fail}");
}
