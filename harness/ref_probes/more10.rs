use std::collections::BTreeMap;
use std::os::unix::fs::PermissionsExt as _;
use std::path::{Path, PathBuf};
use jj_lib::backend::TreeValue;
use jj_lib::commit::Commit;
use jj_lib::merged_tree::MergedTree;
use jj_lib::repo::Repo;
use pollster::FutureExt as _;
use testutils::{TestTreeBuilder, TestWorkspace, commit_with_tree, repo_path};
use crate::Rng;

#[derive(Clone, Debug, PartialEq, Eq)]
enum Ent { File(Vec<u8>, bool), Link(String) }
type Disk = BTreeMap<String, Ent>;
const CONT: &[&str] = &["a\n", "b\n", "ab\n", "", "x"];
const PATHS: &[&str] = &["f", "g", "d/x", "d/y", "d/e/z", "d", "d/e", "h/i"];
fn gen_disk(r: &mut Rng) -> Disk { let mut d = Disk::new(); for p in PATHS { if r.below(2) == 0 { continue; }
    // avoid file/dir conflicts: skip if a prefix is a file or p is prefix of existing
    if d.keys().any(|k| k.starts_with(&format!("{p}/")) || p.starts_with(&format!("{k}/"))) { continue; }
    let e = if r.below(6) == 0 { Ent::Link(["f", "nowhere"][r.below(2)].into()) } else { Ent::File(CONT[r.below(CONT.len())].as_bytes().to_vec(), r.below(4) == 0) }; d.insert(p.to_string(), e); } d }
fn tree_of(store: &std::sync::Arc<jj_lib::store::Store>, d: &Disk) -> MergedTree { let mut b = TestTreeBuilder::new(store.clone()); for (p, e) in d { match e { Ent::File(c, x) => { let _ = b.file(repo_path(p), c).executable(*x); } Ent::Link(t) => b.symlink(repo_path(p), t) } } b.write_merged_tree() }
fn scan(root: &Path) -> Disk { let mut out = Disk::new(); fn rec(root: &Path, dir: &Path, out: &mut Disk) { for e in std::fs::read_dir(dir).unwrap() { let e = e.unwrap(); let p = e.path(); let name = e.file_name(); if dir == root && (name == ".jj" || name == ".git") { continue; } let rel = p.strip_prefix(root).unwrap().to_str().unwrap().to_string(); let md = std::fs::symlink_metadata(&p).unwrap();
        if md.file_type().is_symlink() { out.insert(rel, Ent::Link(std::fs::read_link(&p).unwrap().to_str().unwrap().into())); } else if md.is_dir() { rec(root, &p, out); } else { out.insert(rel, Ent::File(std::fs::read(&p).unwrap(), md.permissions().mode() & 0o111 != 0)); } } } rec(root, root, &mut out); out }
fn disk_of_tree(tree: &MergedTree) -> Disk { let mut d = Disk::new(); for (p, v) in tree.entries() { let v = v.unwrap(); let s = p.as_internal_file_string().to_string(); match v.into_resolved().unwrap() { Some(TreeValue::File { id, executable, .. }) => { d.insert(s.clone(), Ent::File(testutils::read_file(tree.store(), &p, &id), executable)); } Some(TreeValue::Symlink(id)) => { d.insert(s, Ent::Link(tree.store().read_symlink(&p, &id).block_on().unwrap())); } _ => {} } } d }
fn apply(root: &Path, d: &Disk) { // make the disk equal to d (outside .jj)
    let cur = scan(root); for k in cur.keys() { let p = root.join(k); let _ = std::fs::remove_file(&p); }
    // remove empty dirs
    fn prune(root: &Path, dir: &Path) { for e in std::fs::read_dir(dir).unwrap() { let e = e.unwrap(); let p = e.path(); if dir == root && e.file_name() == ".jj" { continue; } if p.is_dir() && !std::fs::symlink_metadata(&p).unwrap().file_type().is_symlink() { prune(root, &p); let _ = std::fs::remove_dir(&p); } } } prune(root, root);
    for (k, e) in d { let p = root.join(k); std::fs::create_dir_all(p.parent().unwrap()).unwrap(); match e { Ent::File(c, x) => { std::fs::write(&p, c).unwrap(); std::fs::set_permissions(&p, std::fs::Permissions::from_mode(if *x { 0o755 } else { 0o644 })).unwrap(); } Ent::Link(t) => { std::os::unix::fs::symlink(t, &p).unwrap(); } } } }
pub fn run(r: &mut Rng, rounds: usize) {
    let (mut c23, mut c24a, mut c24b, mut steps) = (0, 0, 0, 0);
    for _ in 0..rounds {
        let mut tw = TestWorkspace::init(); let root: PathBuf = tw.workspace.workspace_root().to_owned(); let store = tw.repo.store().clone();
        for _ in 0..5 {
            steps += 1;
            // C24: check out a random tree, compare disk, snapshot -> same tree
            let want = gen_disk(r); let tree = tree_of(&store, &want); let commit: Commit = commit_with_tree(&store, tree.clone());
            tw.workspace.check_out(tw.repo.op_id().clone(), None, &commit).block_on().unwrap();
            let got = scan(&root); if got != want { c24a += 1; if c24a < 4 { println!("C24 FAIL disk!=tree\n want={want:?}\n got ={got:?}"); } }
            let snap = tw.snapshot().unwrap(); if snap.tree_ids() != tree.tree_ids() { c24b += 1; if c24b < 4 { println!("C24 FAIL snapshot after checkout differs: want={want:?} snap={:?}", disk_of_tree(&snap)); } }
            // C23: random edit of the disk, snapshot, compare
            let edited = gen_disk(r); apply(&root, &edited);
            let snap = tw.snapshot().unwrap(); let rec = disk_of_tree(&snap);
            if rec != edited { c23 += 1; if c23 < 4 { println!("C23 FAIL snapshot!=disk\n disk={edited:?}\n snap={rec:?}\n before={want:?}"); } }
        }
    }
    println!("SUMMARY11 wc_rounds={rounds} steps={steps} c23_fail={c23} c24_disk_fail={c24a} c24_resnapshot_fail={c24b}");
}
