import os, random, subprocess, sys, tempfile, shutil, json
JJ="/repo/target/debug/jj"
def run(cwd, *args, check=False):
    env=dict(os.environ, JJ_CONFIG=CFG, HOME=HOME)
    p=subprocess.run([JJ,"--no-pager",*args],cwd=cwd,env=env,capture_output=True,text=True,timeout=120)
    if check and p.returncode!=0: raise RuntimeError((args,p.stderr))
    return p
def state(cwd, at_op=None):
    extra=["--at-op",at_op,"--ignore-working-copy"] if at_op else ["--ignore-working-copy"]
    log=run(cwd,"log","-r","all()","--no-graph","-T",'commit_id ++ " " ++ parents.map(|p| p.commit_id()).join(",") ++ "\n"',*extra).stdout
    vis=sorted(log.split("\n"))
    bm=run(cwd,"bookmark","list","--all-remotes","-T",'name ++ "@" ++ remote ++ " " ++ if(conflict, "CONFLICT", normal_target.commit_id()) ++ "\n"',*extra).stdout
    wc=run(cwd,"log","-r","@","--no-graph","-T",'commit_id',*extra).stdout
    return (tuple(vis),bm,wc)
def cur_op(cwd): return run(cwd,"op","log","--no-graph","-n","1","-T",'id.short(20)',"--ignore-working-copy").stdout.strip()
def commits(cwd): return [l for l in run(cwd,"log","-r","mutable()","--no-graph","-T",'change_id.short(12) ++ "\n"',"--ignore-working-copy").stdout.split()]
seed=int(sys.argv[1]); rounds=int(sys.argv[2]); rnd=random.Random(seed)
base=tempfile.mkdtemp(prefix="cliprobe"); HOME=base; CFG=os.path.join(base,"cfg.toml")
open(CFG,"w").write('[user]\nname="t"\nemail="t@e"\n[ui]\ncolor="never"\n')
undo_fail=restore_fail=redo_fail=steps=0
try:
  for rd in range(rounds):
    repo=os.path.join(base,f"r{rd}"); run(base,"git","init",repo,check=True)
    hist=[]  # (op_id, state) after each command
    hist.append((cur_op(repo),state(repo)))
    for k in range(8):
        cs=commits(repo); c=rnd.choice(cs) if cs else "@"
        kind=rnd.randrange(9)
        if kind==0: open(os.path.join(repo,f"f{rnd.randrange(3)}"),"w").write(f"{rd}-{k}\n"); args=["status"]
        elif kind==1: args=["new",c]
        elif kind==2: args=["describe","-r",c,"-m",f"m{k}"]
        elif kind==3: args=["commit","-m",f"c{k}"]
        elif kind==4: args=["bookmark","set","-B",f"b{rnd.randrange(2)}","-r",c]
        elif kind==5: args=["abandon",c]
        elif kind==6: args=["squash"]
        elif kind==7: d=rnd.choice(cs) if cs else "@"; args=["rebase","-r",c,"-d",d]
        else: args=["bookmark","delete",f"b{rnd.randrange(2)}"]
        before_op=cur_op(repo)
        p=run(repo,*args)
        after_op=cur_op(repo)
        if after_op==before_op: continue
        st=state(repo); hist.append((after_op,st)); steps+=1
        # C41 undo: state must equal the state before this command... but a command may create 2 ops (snapshot + op); compare with state at the parent of the latest op
        if rnd.randrange(3)==0:
            parent=run(repo,"op","log","--no-graph","-n","2","-T",'id.short(20) ++ "\n"',"--ignore-working-copy").stdout.split()[1]
            want=state(repo,at_op=parent)
            u=run(repo,"undo")
            if u.returncode==0:
                got=state(repo)
                if got!=want:
                    undo_fail+=1
                    if undo_fail<4: print("C41 UNDO FAIL after",args,"\n want",want,"\n got ",got, u.stderr[:300])
                r=run(repo,"redo")
                if r.returncode==0:
                    got2=state(repo)
                    if got2!=st:
                        redo_fail+=1
                        if redo_fail<4: print("C41 REDO FAIL after",args,"\n want",st,"\n got ",got2)
        if rnd.randrange(4)==0 and len(hist)>2:
            op,want=rnd.choice(hist[:-1]); want=state(repo,at_op=op)
            rr=run(repo,"op","restore",op)
            if rr.returncode==0:
                got=state(repo)
                if got!=want:
                    restore_fail+=1
                    if restore_fail<4: print("C41 RESTORE FAIL to",op,"\n want",want,"\n got ",got,rr.stderr[:300])
                hist.append((cur_op(repo),got))
  print(f"SUMMARY17 rounds={rounds} ops={steps} undo_fail={undo_fail} redo_fail={redo_fail} restore_fail={restore_fail}")
finally:
    shutil.rmtree(base,ignore_errors=True)
