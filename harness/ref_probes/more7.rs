use std::collections::HashSet;
use jj_lib::backend::{self, ChangeId, CommitId, MillisSinceEpoch, Signature, Timestamp, TreeId};
use jj_lib::merge::Merge;
use jj_lib::object_id::ObjectId as _;
use jj_lib::repo::Repo;
use pollster::FutureExt as _;
use testutils::{TestRepo, TestRepoBackend, create_random_tree};
use crate::Rng;

pub fn c17(r: &mut Rng, n: usize) {
    for (backend, bname) in [(TestRepoBackend::Git, "git"), (TestRepoBackend::Simple, "simple")] {
        let test_repo = TestRepo::init_with_backend(backend); let repo = &test_repo.repo; let store = repo.store();
        let trees: Vec<TreeId> = (0..4).map(|_| create_random_tree(repo).into_tree_ids().into_resolved().unwrap()).collect();
        let mut parents_pool: Vec<CommitId> = vec![store.root_commit_id().clone()];
        let names = ["", "A U Thor", "é日本", "x", "name with  spaces", "JJ_EMPTY_STRING"];
        let descs = ["", "msg", "multi\nline\n", "no newline", "ünï\n", "\n\nleading"];
        let mut ids_seen: std::collections::HashMap<Vec<u8>, backend::Commit> = Default::default();
        let (mut fail, mut fail_ms_only, mut clash, mut rejected) = (0, 0, 0, 0);
        let mut reasons: HashSet<String> = HashSet::new();
        for _ in 0..n {
            let sig = |r: &mut Rng| Signature { name: names[r.below(names.len())].into(), email: names[r.below(names.len())].into(),
                timestamp: Timestamp { timestamp: MillisSinceEpoch(match r.below(4) { 0 => -(r.below(100000) as i64) * 1000, 1 => r.below(2_000_000_000) as i64 * 1000 + r.below(1000) as i64, _ => r.below(2_000_000_000) as i64 * 1000 }), tz_offset: (r.below(1561) as i32) - 720 } };
            let np = 1 + r.below(2); let mut ps: Vec<CommitId> = vec![]; for _ in 0..np { let p = parents_pool[r.below(parents_pool.len())].clone(); if !ps.contains(&p) { ps.push(p); } }
            if ps.len() > 1 { ps.retain(|p| p != store.root_commit_id()); }
            let conflicted = r.below(3) == 0;
            let (root_tree, labels) = if conflicted { let k = 3 + 2 * r.below(2); (Merge::from_vec((0..k).map(|_| trees[r.below(trees.len())].clone()).collect::<Vec<_>>()), if r.below(2)==0 { Merge::from_vec((0..k).map(|i| format!("label {i} é")).collect::<Vec<_>>()) } else { Merge::resolved(String::new()) }) } else { (Merge::resolved(trees[r.below(trees.len())].clone()), Merge::resolved(String::new())) };
            let c = backend::Commit { parents: ps, predecessors: if r.below(3)==0 { vec![parents_pool[r.below(parents_pool.len())].clone()] } else { vec![] }, root_tree, conflict_labels: labels,
                change_id: ChangeId::new((0..16).map(|_| r.below(256) as u8).collect()), description: descs[r.below(descs.len())].into(), author: sig(r), committer: sig(r), secure_sig: None };
            let written = match store.write_commit(c.clone(), None).block_on() { Ok(w) => w, Err(e) => { rejected += 1; reasons.insert(format!("{e}").chars().take(60).collect()); continue; } };
            let returned = written.store_commit().clone();
            let read = store.backend().read_commit(written.id()).block_on().unwrap();
            if *returned != read {
                let mut r2 = (*returned).clone(); r2.author.timestamp.timestamp = MillisSinceEpoch(r2.author.timestamp.timestamp.0.div_euclid(1000) * 1000);
                if r2 == read { fail_ms_only += 1; } else { fail += 1;
                    let mut why = vec![]; if returned.parents != read.parents { why.push("parents"); } if returned.predecessors != read.predecessors { why.push("predecessors"); } if returned.root_tree != read.root_tree { why.push("root_tree"); } if returned.conflict_labels != read.conflict_labels { why.push("labels"); } if returned.change_id != read.change_id { why.push("change_id"); } if returned.description != read.description { why.push("description"); } if returned.author != read.author { why.push("author"); } if returned.committer != read.committer { why.push("committer"); }
                    if reasons.insert(format!("DIFF {why:?}")) { println!("C17[{bname}] FAIL fields={why:?}\n returned={returned:?}\n read    ={read:?}"); } }
            }
            // distinctness: same id must mean same commit (as read back)
            if let Some(prev) = ids_seen.get(&written.id().to_bytes()) { if *prev != read { clash += 1; } } else { ids_seen.insert(written.id().to_bytes(), read.clone()); }
            if r.below(2) == 0 { parents_pool.push(written.id().clone()); }
        }
        println!("SUMMARY8 c17[{bname}] n={n} rejected={rejected} fail_other={fail} fail_author_ms_only={fail_ms_only} id_clash={clash} notes={reasons:?}");
    }
}
