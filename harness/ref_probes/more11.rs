use std::collections::{HashMap, HashSet};
use std::sync::Arc;
use jj_lib::backend::CommitId;
use jj_lib::commit::Commit;
use jj_lib::object_id::ObjectId as _;
use jj_lib::op_store::RefTarget;
use jj_lib::repo::{ReadonlyRepo, Repo};
use pollster::FutureExt as _;
use testutils::{TestRepo, create_random_commit, write_random_commit_with_parents};
use crate::Rng;

fn visible(repo: &ReadonlyRepo) -> HashMap<CommitId, Commit> { let mut out = HashMap::new(); let mut st: Vec<CommitId> = repo.view().heads().iter().cloned().collect(); while let Some(id) = st.pop() { if out.contains_key(&id) { continue; } let c = repo.store().get_commit(&id).unwrap(); for p in c.parent_ids() { st.push(p.clone()); } out.insert(id, c); } out }
struct Side { repo: Arc<ReadonlyRepo>, created: Vec<Commit>, rewritten: HashSet<CommitId>, abandoned: HashSet<CommitId>, bm_set: HashMap<String, RefTarget> }
fn run_side(r: &mut Rng, base: &Arc<ReadonlyRepo>, tag: &str) -> Side {
    let vis = visible(base); let root = base.store().root_commit_id().clone(); let nonroot: Vec<&Commit> = vis.values().filter(|c| *c.id() != root).collect();
    let mut tx = base.start_transaction(); let mut created = vec![]; let mut rewritten = HashSet::new(); let mut abandoned = HashSet::new(); let mut bm_set = HashMap::new();
    let mut sorted: Vec<&Commit> = nonroot.clone(); sorted.sort_by_key(|c| c.id().hex());
    for k in 0..(1 + r.below(3)) { match r.below(5) {
        0 | 1 => { let p = sorted[r.below(sorted.len())]; if rewritten.contains(p.id()) || abandoned.contains(p.id()) { continue; } let c = create_random_commit(tx.repo_mut()).set_parents(vec![p.id().clone()]).set_description(format!("{tag}{k}")).write().block_on().unwrap(); created.push(c); }
        2 => { let c = sorted[r.below(sorted.len())]; if rewritten.contains(c.id()) || abandoned.contains(c.id()) { continue; } let n = tx.repo_mut().rewrite_commit(c).set_description(format!("{tag}rw{k}")).write().block_on().unwrap(); rewritten.insert(c.id().clone()); created.push(n); }
        3 => { let c = sorted[r.below(sorted.len())]; if rewritten.contains(c.id()) || abandoned.contains(c.id()) { continue; } tx.repo_mut().record_abandoned_commit(c); abandoned.insert(c.id().clone()); }
        _ => { let name = ["b1", "b2", "b3"][r.below(3)]; let t = if r.below(5) == 0 { RefTarget::absent() } else { let c = sorted[r.below(sorted.len())]; if rewritten.contains(c.id()) || abandoned.contains(c.id()) { continue; } RefTarget::normal(c.id().clone()) }; tx.repo_mut().set_local_bookmark_target(name.as_ref(), t.clone()); bm_set.insert(name.to_string(), t); } } }
    tx.repo_mut().rebase_descendants().block_on().unwrap();
    let repo = tx.commit(format!("side {tag}")).block_on().unwrap();
    Side { repo, created, rewritten, abandoned, bm_set }
}
pub fn run(r: &mut Rng, rounds: usize) {
    let (mut lost, mut resurrect, mut bm_fail, mut bm_checked, mut heads_bad) = (0, 0, 0, 0, 0);
    for round in 0..rounds {
        let test_repo = TestRepo::init(); let repo0 = &test_repo.repo; let root = repo0.store().root_commit();
        let mut tx = repo0.start_transaction(); let mut cs: Vec<Commit> = vec![];
        for i in 0..(3 + r.below(4)) { let p: Vec<&Commit> = if cs.is_empty() { vec![&root] } else { vec![&cs[r.below(cs.len())]] }; let c = write_random_commit_with_parents(tx.repo_mut(), &p); cs.push(c); let _ = i; }
        tx.repo_mut().set_local_bookmark_target("b1".as_ref(), RefTarget::normal(cs[0].id().clone())); tx.repo_mut().set_local_bookmark_target("b2".as_ref(), RefTarget::normal(cs[cs.len() - 1].id().clone()));
        let base = tx.commit("base").block_on().unwrap();
        let a = run_side(r, &base, "A"); std::thread::sleep(std::time::Duration::from_millis(2)); let b = run_side(r, &base, "B");
        let merged = test_repo.env.load_repo_at_head(&testutils::user_settings(), test_repo.repo_path());
        let vis = visible(&merged); let vis_changes: HashSet<Vec<u8>> = vis.values().map(|c| c.change_id().to_bytes()).collect();
        // (1) no lost commits
        for side in [&a, &b] { let side_vis = visible(&side.repo); for c in &side.created { if side_vis.contains_key(c.id()) && !vis_changes.contains(&c.change_id().to_bytes()) {
            // acceptable only if the other side abandoned an ancestor chain making it ... (never acceptable per property)
            lost += 1; if lost < 4 { println!("C13 LOST round={round}: change of created commit {:?} not visible after merge", c.id()); } } } }
        // (2) rewritten/abandoned stay hidden
        for id in a.rewritten.iter().chain(a.abandoned.iter()).chain(b.rewritten.iter()).chain(b.abandoned.iter()) { if vis.contains_key(id) {
            // exception: abandoned by one side but the other side created a child on it (child keeps it visible? no: child gets rebased) -> count
            resurrect += 1; if resurrect < 4 { println!("C13 RESURRECT round={round}: {id:?} visible after merge (A.rw={} A.ab={} B.rw={} B.ab={})", a.rewritten.contains(id), a.abandoned.contains(id), b.rewritten.contains(id), b.abandoned.contains(id)); } } }
        // (3) bookmarks changed by exactly one side to a target the other side did not touch
        let touched_by = |s: &Side, id: &CommitId| s.rewritten.contains(id) || s.abandoned.contains(id) || { // ancestors touched -> rebased
            let mut st = vec![id.clone()]; let mut seen = HashSet::new(); let mut t = false; while let Some(i) = st.pop() { if !seen.insert(i.clone()) { continue; } if s.rewritten.contains(&i) || s.abandoned.contains(&i) { t = true; break; } if let Ok(c) = base.store().get_commit(&i) { for p in c.parent_ids() { st.push(p.clone()); } } } t };
        for name in ["b1", "b2", "b3"] { let in_a = a.bm_set.get(name); let in_b = b.bm_set.get(name); let got = merged.view().get_local_bookmark(name.as_ref()).clone();
            let base_t = base.view().get_local_bookmark(name.as_ref()).clone();
            match (in_a, in_b) { (Some(t), None) | (None, Some(t)) => { let (this, other) = if in_a.is_some() { (&a, &b) } else { (&b, &a) };
                    // other side must not have moved it implicitly (base target touched by other) and target untouched by both
                    let base_touched = base_t.added_ids().any(|id| touched_by(other, id) || touched_by(this, id)); let tgt_touched = t.added_ids().any(|id| touched_by(other, id) || touched_by(this, id));
                    if !base_touched && !tgt_touched { bm_checked += 1; if got != *t { bm_fail += 1; if bm_fail < 4 { println!("C13 BOOKMARK round={round} {name}: one side set {t:?}, merged {got:?}, base {base_t:?}"); } } } }
                (Some(ta), Some(tb)) if ta == tb => { let tt = ta.added_ids().any(|id| touched_by(&a, id) || touched_by(&b, id)); if !tt { bm_checked += 1; if got != *ta { bm_fail += 1; println!("C13 BOOKMARK both-same {name}: {ta:?} merged {got:?}"); } } }
                _ => {} } }
        // heads normalized
        let heads: Vec<CommitId> = merged.view().heads().iter().cloned().collect(); for h in &heads { let c = &vis[h]; let _ = c; }
        for x in &heads { for y in &heads { if x != y { let mut st = vec![y.clone()]; let mut seen = HashSet::new(); while let Some(i) = st.pop() { if !seen.insert(i.clone()) { continue; } if i == *x { heads_bad += 1; break; } for p in vis[&i].parent_ids() { st.push(p.clone()); } } } } }
    }
    println!("SUMMARY12 c13_rounds={rounds} lost={lost} resurrected={resurrect} bookmark_checked={bm_checked} bookmark_fail={bm_fail} heads_bad={heads_bad}");
}
