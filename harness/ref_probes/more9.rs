use std::collections::{BTreeSet, HashMap, HashSet};
use std::sync::Arc;
use futures::TryStreamExt as _;
use jj_lib::backend::CommitId;
use jj_lib::commit::Commit;
use jj_lib::repo::Repo;
use jj_lib::revset::{ResolvedRevsetExpression, RevsetExpression};
use pollster::FutureExt as _;
use testutils::{TestRepo, write_random_commit_with_parents};
use crate::Rng;

type S = BTreeSet<usize>;
struct G { parents: Vec<Vec<usize>>, children: Vec<Vec<usize>>, n: usize }
impl G {
    fn gens_up(&self, from: &S, first_only: bool) -> Vec<BTreeSet<u64>> { // for each node: set of path lengths (capped) from any source going to parents
        let mut gens: Vec<BTreeSet<u64>> = vec![BTreeSet::new(); self.n];
        let mut frontier: Vec<(usize, u64)> = from.iter().map(|s| (*s, 0)).collect();
        while let Some((c, g)) = frontier.pop() { if g > self.n as u64 + 2 || !gens[c].insert(g) { continue; } let ps: Vec<usize> = if first_only { self.parents[c].iter().take(1).cloned().collect() } else { self.parents[c].clone() }; for p in ps { frontier.push((p, g + 1)); } }
        gens }
    fn gens_down(&self, from: &S) -> Vec<BTreeSet<u64>> {
        let mut gens: Vec<BTreeSet<u64>> = vec![BTreeSet::new(); self.n];
        let mut frontier: Vec<(usize, u64)> = from.iter().map(|s| (*s, 0)).collect();
        while let Some((c, g)) = frontier.pop() { if g > self.n as u64 + 2 || !gens[c].insert(g) { continue; } for p in &self.children[c] { frontier.push((*p, g + 1)); } }
        gens }
    fn anc(&self, s: &S) -> S { self.gens_up(s, false).iter().enumerate().filter(|(_, g)| !g.is_empty()).map(|(i, _)| i).collect() }
    fn desc(&self, s: &S) -> S { self.gens_down(s).iter().enumerate().filter(|(_, g)| !g.is_empty()).map(|(i, _)| i).collect() }
    fn in_range(g: &BTreeSet<u64>, lo: u64, hi: u64) -> bool { g.iter().any(|x| *x >= lo && *x < hi) }
    fn heads(&self, s: &S) -> S { s.iter().filter(|c| { let a = self.desc(&[**c].into_iter().collect()); !s.iter().any(|d| d != *c && a.contains(d)) }).cloned().collect() }
    fn roots(&self, s: &S) -> S { s.iter().filter(|c| { let a = self.anc(&[**c].into_iter().collect()); !s.iter().any(|d| d != *c && a.contains(d)) }).cloned().collect() }
}
enum E { Set(S), Anc(Box<E>, u64, u64), FirstAnc(Box<E>, u64, u64), Desc(Box<E>, u64, u64), Heads(Box<E>), Roots(Box<E>), Range(Box<E>, Box<E>), Dag(Box<E>, Box<E>), Conn(Box<E>), Reach(Box<E>, Box<E>), Fork(Box<E>), Un(Box<E>, Box<E>), In(Box<E>, Box<E>), Mi(Box<E>, Box<E>), Not(Box<E>), Coal(Box<E>, Box<E>), All, None }
const INF: u64 = u64::MAX;
fn gen_e(r: &mut Rng, d: usize, n: usize) -> E {
    let leaf = d == 0 || r.below(4) == 0;
    if leaf { return match r.below(8) { 0 => E::All, 1 => E::None, _ => E::Set((0..1 + r.below(3)).map(|_| r.below(n)).collect()) }; }
    let mut sub = |r: &mut Rng| Box::new(gen_e(r, d - 1, n));
    let rng = |r: &mut Rng| -> (u64, u64) { match r.below(4) { 0 => (0, INF), 1 => { let a = r.below(3) as u64; (a, a + 1) } 2 => (0, 1 + r.below(3) as u64), _ => { let a = r.below(3) as u64; (a, a + 1 + r.below(3) as u64) } } };
    match r.below(16) { 0 => { let (a, b) = rng(r); E::Anc(sub(r), a, b) } 1 => { let (a, b) = rng(r); E::Desc(sub(r), a, b) } 2 => E::Heads(sub(r)), 3 => E::Roots(sub(r)), 4 => E::Range(sub(r), sub(r)), 5 => E::Dag(sub(r), sub(r)), 6 => E::Conn(sub(r)), 7 => E::Reach(sub(r), sub(r)), 8 => E::Fork(sub(r)), 9 => E::Un(sub(r), sub(r)), 10 => E::In(sub(r), sub(r)), 11 => E::Mi(sub(r), sub(r)), 12 => E::Not(sub(r)), 13 => E::Coal(sub(r), sub(r)), 14 => { let (a, b) = rng(r); E::FirstAnc(sub(r), a, b) } _ => E::Anc(sub(r), 0, INF) }
}
fn brute(g: &G, e: &E) -> S { let all: S = (0..g.n).collect(); match e {
    E::Set(s) => s.clone(), E::All => all, E::None => S::new(),
    E::Anc(x, a, b) => { let s = brute(g, x); g.gens_up(&s, false).iter().enumerate().filter(|(_, gs)| G::in_range(gs, *a, *b)).map(|(i, _)| i).collect() }
    E::FirstAnc(x, a, b) => { let s = brute(g, x); g.gens_up(&s, true).iter().enumerate().filter(|(_, gs)| G::in_range(gs, *a, *b)).map(|(i, _)| i).collect() }
    E::Desc(x, a, b) => { let s = brute(g, x); g.gens_down(&s).iter().enumerate().filter(|(_, gs)| G::in_range(gs, *a, *b)).map(|(i, _)| i).collect() }
    E::Heads(x) => g.heads(&brute(g, x)), E::Roots(x) => g.roots(&brute(g, x)),
    E::Range(rt, h) => { let a = g.anc(&brute(g, h)); let b = g.anc(&brute(g, rt)); a.difference(&b).cloned().collect() }
    E::Dag(rt, h) => { let a = g.desc(&brute(g, rt)); let b = g.anc(&brute(g, h)); a.intersection(&b).cloned().collect() }
    E::Conn(x) => { let s = brute(g, x); let a = g.desc(&s); let b = g.anc(&s); a.intersection(&b).cloned().collect() }
    E::Reach(src, dom) => { let s = brute(g, src); let d = brute(g, dom); let mut seen: S = s.intersection(&d).cloned().collect(); let mut st: Vec<usize> = seen.iter().cloned().collect();
        while let Some(c) = st.pop() { for nb in g.parents[c].iter().chain(g.children[c].iter()) { if d.contains(nb) && seen.insert(*nb) { st.push(*nb); } } } seen }
    E::Fork(x) => { let s = brute(g, x); if s.is_empty() { return S::new(); } let mut common: S = (0..g.n).collect(); for c in &s { common = common.intersection(&g.anc(&[*c].into_iter().collect())).cloned().collect(); } g.heads(&common) }
    E::Un(a, b) => brute(g, a).union(&brute(g, b)).cloned().collect(), E::In(a, b) => brute(g, a).intersection(&brute(g, b)).cloned().collect(), E::Mi(a, b) => brute(g, a).difference(&brute(g, b)).cloned().collect(),
    E::Not(x) => { let s = brute(g, x); (0..g.n).filter(|c| !s.contains(c)).collect() }
    E::Coal(a, b) => { let s = brute(g, a); if s.is_empty() { brute(g, b) } else { s } } } }
fn build(e: &E, ids: &[CommitId]) -> Arc<ResolvedRevsetExpression> { let b = |x: &E| build(x, ids); match e {
    E::Set(s) => RevsetExpression::commits(s.iter().map(|i| ids[*i].clone()).collect()), E::All => RevsetExpression::all(), E::None => RevsetExpression::none(),
    E::Anc(x, a, bb) => b(x).ancestors_range(*a..*bb), E::FirstAnc(x, a, bb) => b(x).first_ancestors_range(*a..*bb), E::Desc(x, a, bb) => b(x).descendants_range(*a..*bb),
    E::Heads(x) => b(x).heads(), E::Roots(x) => b(x).roots(), E::Range(r, h) => b(r).range(&b(h)), E::Dag(r, h) => b(r).dag_range_to(&b(h)), E::Conn(x) => b(x).connected(), E::Reach(s, d) => b(s).reachable(&b(d)), E::Fork(x) => b(x).fork_point(),
    E::Un(x, y) => b(x).union(&b(y)), E::In(x, y) => b(x).intersection(&b(y)), E::Mi(x, y) => b(x).minus(&b(y)), E::Not(x) => b(x).negated(), E::Coal(x, y) => RevsetExpression::coalesce(&[b(x), b(y)]) } }
fn show(e: &E) -> String { match e { E::Set(s) => format!("{s:?}"), E::All => "all".into(), E::None => "none".into(), E::Anc(x, a, b) => format!("anc({},{a}..{})", show(x), if *b == INF { "inf".into() } else { b.to_string() }), E::FirstAnc(x, a, b) => format!("fanc({},{a}..{})", show(x), if *b == INF { "inf".into() } else { b.to_string() }), E::Desc(x, a, b) => format!("desc({},{a}..{})", show(x), if *b == INF { "inf".into() } else { b.to_string() }),
    E::Heads(x) => format!("heads({})", show(x)), E::Roots(x) => format!("roots({})", show(x)), E::Range(a, b) => format!("({}..{})", show(a), show(b)), E::Dag(a, b) => format!("({}::{})", show(a), show(b)), E::Conn(x) => format!("conn({})", show(x)), E::Reach(a, b) => format!("reach({},{})", show(a), show(b)), E::Fork(x) => format!("fork({})", show(x)),
    E::Un(a, b) => format!("({}|{})", show(a), show(b)), E::In(a, b) => format!("({}&{})", show(a), show(b)), E::Mi(a, b) => format!("({}~{})", show(a), show(b)), E::Not(x) => format!("~{}", show(x)), E::Coal(a, b) => format!("coal({},{})", show(a), show(b)) } }
pub fn run(r: &mut Rng, graphs: usize, exprs: usize) {
    let (mut fail, mut total, mut nonempty, mut optdiff) = (0, 0, 0, 0);
    for gi in 0..graphs {
        let test_repo = TestRepo::init(); let repo0 = &test_repo.repo; let root = repo0.store().root_commit();
        let mut tx = repo0.start_transaction(); let mut cs: Vec<Commit> = vec![root.clone()]; let n = 4 + r.below(8);
        let mut parents: Vec<Vec<usize>> = vec![vec![]];
        for _ in 1..n { let np = 1 + r.below(3); let mut ps: Vec<usize> = vec![]; for _ in 0..np { let k = r.below(cs.len()); if !ps.contains(&k) { ps.push(k); } } if ps.len() > 1 { ps.retain(|k| *k != 0); }
            let pc: Vec<&Commit> = ps.iter().map(|k| &cs[*k]).collect(); let c = write_random_commit_with_parents(tx.repo_mut(), &pc); cs.push(c); parents.push(ps); }
        let repo = tx.commit("t").block_on().unwrap();
        let mut children = vec![vec![]; n]; for (c, ps) in parents.iter().enumerate() { for p in ps { children[*p].push(c); } }
        let g = G { parents, children, n }; let ids: Vec<CommitId> = cs.iter().map(|c| c.id().clone()).collect(); let pos: HashMap<CommitId, usize> = ids.iter().cloned().enumerate().map(|(i, c)| (c, i)).collect();
        for _ in 0..exprs {
            let e = gen_e(r, 3, n); let want = brute(&g, &e); total += 1; if !want.is_empty() { nonempty += 1; }
            let expr = build(&e, &ids);
            let eval = |opt: bool| -> Result<Vec<usize>, String> { let rs = if opt { expr.clone().evaluate(repo.as_ref()) } else { expr.evaluate_unoptimized(repo.as_ref()) }.map_err(|e| format!("{e}"))?; let v: Vec<CommitId> = rs.stream().try_collect().block_on().map_err(|e| format!("{e}"))?; Ok(v.iter().map(|c| pos[c]).collect()) };
            let (o, u) = (eval(true), eval(false));
            if o != u { optdiff += 1; if optdiff < 4 { println!("C19 OPT!=UNOPT g={gi} e={} opt={o:?} unopt={u:?}", show(&e)); } }
            match o { Ok(v) => { let sorted_desc = v.windows(2).all(|w| w[0] > w[1]); let set: S = v.iter().cloned().collect(); if !sorted_desc || set != want { fail += 1; if fail < 8 { println!("C19 FAIL g={gi} e={} got={v:?} want={want:?} parents={:?}", show(&e), g.parents); } } } Err(er) => { fail += 1; if fail < 8 { println!("C19 ERR {er} e={}", show(&e)); } } }
        }
    }
    println!("SUMMARY10 c19_graphs={graphs} exprs={total} nonempty={nonempty} fail={fail} opt_vs_unopt_diff={optdiff}");
    let _: HashSet<u8> = HashSet::new();
}
