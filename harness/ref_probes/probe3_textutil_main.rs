use jj_cli::text_util::{elide_end, elide_start};
use unicode_width::{UnicodeWidthChar as _, UnicodeWidthStr as _};
struct Rng(u64);
impl Rng { fn next(&mut self) -> u64 { self.0 = self.0.wrapping_add(0x9E3779B97F4A7C15); let mut z = self.0; z = (z ^ (z >> 30)).wrapping_mul(0xBF58476D1CE4E5B9); z = (z ^ (z >> 27)).wrapping_mul(0x94D049BB133111EB); z ^ (z >> 31) } fn below(&mut self, n: usize) -> usize { (self.next() % n as u64) as usize } }
fn cw(s: &str) -> usize { s.chars().map(|c| c.width().unwrap_or(0)).sum() }
fn main() {
    let n: usize = std::env::args().nth(1).map(|s| s.parse().unwrap()).unwrap_or(100000);
    let mut r = Rng(7);
    let alphabet: Vec<char> = "ab 日本é\u{0301}\u{200d}👩\u{1f3fd}\u{fe0f}\u{fe0e}✈\t\u{7}x❤".chars().collect();
    let (mut over_char, mut over_str, mut changed_fit, mut widthmis, mut strdiff) = (0, 0, 0, 0, 0);
    for _ in 0..n {
        let s: String = (0..r.below(8)).map(|_| alphabet[r.below(alphabet.len())]).collect();
        let e: String = (0..r.below(3)).map(|_| ['.', '…', '日'][r.below(3)]).collect();
        let w = r.below(8);
        if cw(&s) != s.width() { strdiff += 1; }
        for (name, (out, ow)) in [("end", elide_end(&s, &e, w)), ("start", elide_start(&s, &e, w))] {
            if cw(&out) > w { over_char += 1; if over_char < 4 { println!("C44 over(char) {name} s={s:?} e={e:?} w={w} out={out:?}"); } }
            if out.width() > w { over_str += 1; if over_str < 6 { println!("C44 over(str.width) {name} s={s:?} e={e:?} w={w} out={out:?} strw={} charw={}", out.width(), cw(&out)); } }
            if cw(&s) <= w && out != s { changed_fit += 1; if changed_fit < 4 { println!("C44 changed-but-fits {name} s={s:?} w={w} out={out:?}"); } }
            if ow != cw(&out) { widthmis += 1; if widthmis < 4 { println!("C44 reported width {ow} != char-sum {} {name} s={s:?} out={out:?}", cw(&out)); } }
        }
    }
    println!("SUMMARY13 n={n} str_vs_char_width_differs={strdiff} over_by_char_sum={over_char} over_by_str_width={over_str} changed_though_fits={changed_fit} reported_width_mismatch={widthmis}");
}
