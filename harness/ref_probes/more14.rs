use std::collections::BTreeMap;
use std::path::PathBuf;
use jj_lib::repo::Repo;
use jj_lib::repo_path::RepoPathBuf;
use pollster::FutureExt as _;
use testutils::{TestTreeBuilder, TestWorkspace, commit_with_tree, repo_path};
use crate::Rng;

const PATHS: &[&str] = &["f", "g", "d/x", "d/y", "d/e/z", "h/i", "h/j/k"];
const PATS: &[&str] = &["", "d", "d/e", "h", "f", "h/j", "g"];
fn scan(root: &std::path::Path) -> BTreeMap<String, Vec<u8>> { let mut out = BTreeMap::new(); fn rec(root: &std::path::Path, dir: &std::path::Path, out: &mut BTreeMap<String, Vec<u8>>) { for e in std::fs::read_dir(dir).unwrap() { let e = e.unwrap(); let p = e.path(); if dir == root && e.file_name() == ".jj" { continue; } if p.is_dir() { rec(root, &p, out); } else { out.insert(p.strip_prefix(root).unwrap().to_str().unwrap().to_string(), std::fs::read(&p).unwrap()); } } } rec(root, root, &mut out); out }
pub fn run(r: &mut Rng, rounds: usize) {
    let (mut c27, mut c27tree, mut c25, mut steps, mut skipped_seen) = (0, 0, 0, 0, 0);
    for _ in 0..rounds {
        let mut tw = TestWorkspace::init(); let root: PathBuf = tw.workspace.workspace_root().to_owned(); let store = tw.repo.store().clone();
        let mut files: BTreeMap<String, Vec<u8>> = BTreeMap::new(); let mut b = TestTreeBuilder::new(store.clone());
        for p in PATHS { if r.below(4) != 0 { let c = format!("{p}-{}\n", r.below(3)); let _ = b.file(repo_path(p), &c); files.insert(p.to_string(), c.into_bytes()); } }
        let tree = b.write_merged_tree(); let commit = commit_with_tree(&store, tree.clone());
        tw.workspace.check_out(tw.repo.op_id().clone(), None, &commit).block_on().unwrap();
        let mut cur: Vec<String> = vec!["".into()];
        for _ in 0..4 { steps += 1;
            let newp: Vec<String> = { let k = 1 + r.below(3); let mut v: Vec<String> = (0..k).map(|_| PATS[r.below(PATS.len())].to_string()).collect(); v.sort(); v.dedup(); v };
            let mut lws = tw.workspace.start_working_copy_mutation().block_on().unwrap();
            lws.locked_wc().set_sparse_patterns(newp.iter().map(|p| if p.is_empty() { RepoPathBuf::root() } else { repo_path(p).to_owned() }).collect()).block_on().unwrap();
            lws.finish(tw.repo.op_id().clone()).block_on().unwrap();
            let inpat = |p: &str, pats: &Vec<String>| pats.iter().any(|q| q.is_empty() || p == q || p.starts_with(&format!("{q}/")));
            let want: BTreeMap<String, Vec<u8>> = files.iter().filter(|(p, _)| inpat(p, &newp)).map(|(p, c)| (p.clone(), c.clone())).collect();
            let got = scan(&root);
            if got != want { c27 += 1; if c27 < 4 { println!("C27 FAIL disk after sparse {cur:?} -> {newp:?}\n want={:?}\n got ={:?}", want.keys().collect::<Vec<_>>(), got.keys().collect::<Vec<_>>()); } }
            let snap = tw.snapshot().unwrap(); if snap.tree_ids() != tree.tree_ids() { c27tree += 1; if c27tree < 4 { println!("C27 FAIL tree changed after sparse {cur:?} -> {newp:?}"); } }
            cur = newp;
        }
        // C25: untracked file in the way of a checkout
        let mut lws = tw.workspace.start_working_copy_mutation().block_on().unwrap(); lws.locked_wc().set_sparse_patterns(vec![RepoPathBuf::root()]).block_on().unwrap(); lws.finish(tw.repo.op_id().clone()).block_on().unwrap();
        let empty = commit_with_tree(&store, TestTreeBuilder::new(store.clone()).write_merged_tree());
        tw.workspace.check_out(tw.repo.op_id().clone(), None, &empty).block_on().unwrap();
        // place untracked files at some of the tree's paths and an unrelated one
        let mut untracked: BTreeMap<String, Vec<u8>> = BTreeMap::new();
        for p in files.keys() { if r.below(3) == 0 { let fp = root.join(p); std::fs::create_dir_all(fp.parent().unwrap()).unwrap(); let c = format!("UNTRACKED {p}").into_bytes(); std::fs::write(&fp, &c).unwrap(); untracked.insert(p.clone(), c); } }
        std::fs::write(root.join("zz-unrelated"), b"keep").unwrap(); untracked.insert("zz-unrelated".into(), b"keep".to_vec());
        let stats = tw.workspace.check_out(tw.repo.op_id().clone(), None, &commit).block_on().unwrap();
        if stats.skipped_files > 0 { skipped_seen += 1; }
        let got = scan(&root);
        for (p, c) in &untracked { if got.get(p) != Some(c) { c25 += 1; if c25 < 4 { println!("C25 FAIL untracked {p} overwritten/removed: now {:?}", got.get(p).map(|v| String::from_utf8_lossy(v).to_string())); } } }
        if stats.skipped_files as usize != untracked.len() - 1 { c25 += 1; if c25 < 4 { println!("C25 FAIL skipped_files={} expected {}", stats.skipped_files, untracked.len() - 1); } }
    }
    println!("SUMMARY16 rounds={rounds} sparse_steps={steps} c27_disk_fail={c27} c27_tree_fail={c27tree} c25_fail={c25} checkouts_with_skips={skipped_seen}");
}
