use std::collections::{BTreeMap, HashSet};
use std::sync::Arc;
use jj_lib::stacked_table::{ReadonlyTable, TableSegment as _, TableStore};
use crate::Rng;

fn chain(t: &Arc<ReadonlyTable>) -> String { t.ancestor_segments().map(|s| format!("{}({})", &s.name()[..6], s.segment_num_entries())).collect::<Vec<_>>().join(" <- ") }
pub fn run(seed: u64) {
    // search for a small failing sequence
    for maxops in 2..=12usize { for s in 0..600u64 {
        let mut r = Rng(seed.wrapping_add(s * 7919 + maxops as u64));
        let dir = tempfile::tempdir().unwrap(); let path = dir.path().to_path_buf();
        let _ = TableStore::init(path.clone(), 2);
        let stores: Vec<TableStore> = (0..3).map(|_| TableStore::load(path.clone(), 2)).collect();
        let mut heads: Vec<Option<Arc<ReadonlyTable>>> = vec![None, None, None];
        let mut expected: BTreeMap<Vec<u8>, HashSet<Vec<u8>>> = BTreeMap::new();
        let mut log: Vec<String> = vec![];
        let nops = maxops;
        for _ in 0..nops {
            let st = r.below(3); let stale = r.below(2) == 0 && heads[st].is_some();
            let base = if stale { heads[st].clone().unwrap() } else { stores[st].get_head().unwrap() };
            let mut m = base.start_mutation(); let mut ents = vec![];
            for _ in 0..(1 + r.below(2)) { let k = vec![0u8, r.below(6) as u8]; let v = vec![r.below(250) as u8]; m.add_entry(k.clone(), v.clone()); expected.entry(k.clone()).or_default().insert(v.clone()); ents.push((k[1], v[0])); }
            let t = stores[st].save_table(m).unwrap();
            log.push(format!("store{st} stale={stale} base=[{}] add={ents:?} -> [{}]", chain(&base), chain(&t)));
            heads[st] = Some(t);
            if r.below(3) == 0 { let f = TableStore::load(path.clone(), 2); let nh = std::fs::read_dir(path.join("heads")).unwrap().count(); let h = f.get_head().unwrap(); log.push(format!("RELOAD heads_before={nh} -> [{}]", chain(&h))); }
        }
        let fresh = TableStore::load(path.clone(), 2);
        let nheads = std::fs::read_dir(path.join("heads")).unwrap().count();
        let h = fresh.get_head().unwrap();
        let missing: Vec<_> = expected.keys().filter(|k| h.get_value(k).is_none()).cloned().collect();
        if !missing.is_empty() {
            println!("C21 REPRO seed_off={s} heads_before_merge={nheads} missing={missing:?}\n  {}\n  final=[{}]", log.join("\n  "), chain(&h));
            return;
        }
    } }
    println!("C21 no small repro");
}
