use std::collections::{HashMap, HashSet};
use futures::TryStreamExt as _;
use jj_lib::backend::CommitId;
use jj_lib::commit::Commit;
use jj_lib::evolution::walk_predecessors;
use jj_lib::op_store::RefTarget;
use jj_lib::repo::{ReadonlyRepo, Repo};
use pollster::FutureExt as _;
use testutils::{TestRepo, create_random_commit};
use crate::Rng;

fn visible(repo: &ReadonlyRepo) -> Vec<Commit> {
    let mut seen = HashSet::new(); let mut out = vec![]; let mut stack: Vec<CommitId> = repo.view().heads().iter().cloned().collect();
    while let Some(id) = stack.pop() { if !seen.insert(id.clone()) { continue; } let c = repo.store().get_commit(&id).unwrap(); for p in c.parent_ids() { stack.push(p.clone()); } out.push(c); }
    out
}
fn ancestors(repo: &ReadonlyRepo, id: &CommitId) -> HashSet<CommitId> {
    let mut seen = HashSet::new(); let mut stack = vec![id.clone()];
    while let Some(i) = stack.pop() { if !seen.insert(i.clone()) { continue; } let c = repo.store().get_commit(&i).unwrap(); for p in c.parent_ids() { stack.push(p.clone()); } }
    seen
}
pub fn run(r: &mut Rng, histories: usize) {
    let (mut c10, mut c11, mut c46, mut steps) = (0, 0, 0, 0);
    for h in 0..histories {
        let test_repo = TestRepo::init(); let mut repo = test_repo.repo.clone();
        let root = repo.store().root_commit_id().clone();
        let mut rewrites: HashMap<CommitId, Vec<CommitId>> = HashMap::new(); // new -> preds recorded by us
        for opn in 0..8 {
            let vis = visible(&repo); let nonroot: Vec<&Commit> = vis.iter().filter(|c| *c.id() != root).collect();
            let mut tx = repo.start_transaction();
            let mut touched: HashSet<CommitId> = HashSet::new();
            let nacts = 1 + r.below(3);
            for _ in 0..nacts {
                match r.below(5) {
                    0 | 1 => { let np = 1 + r.below(2); let mut ps: Vec<CommitId> = vec![]; for _ in 0..np { let c = &vis[r.below(vis.len())]; if !ps.contains(c.id()) && !touched.contains(c.id()) { ps.push(c.id().clone()); } } if ps.is_empty() { ps.push(root.clone()); }
                              if ps.len() > 1 { ps.retain(|p| *p != root); }
                              let c = create_random_commit(tx.repo_mut()).set_parents(ps).write().block_on().unwrap(); rewrites.insert(c.id().clone(), vec![]); }
                    2 => { if let Some(c) = nonroot.get(r.below(nonroot.len().max(1))) { if touched.insert(c.id().clone()) { let n = tx.repo_mut().rewrite_commit(c).set_description(format!("d{h}-{opn}-{}", r.below(1000))).write().block_on().unwrap(); rewrites.insert(n.id().clone(), vec![c.id().clone()]); } } }
                    3 => { if let Some(c) = nonroot.get(r.below(nonroot.len().max(1))) { if touched.insert(c.id().clone()) { tx.repo_mut().record_abandoned_commit(c); } } }
                    _ => { let c = &vis[r.below(vis.len())]; if !touched.contains(c.id()) { tx.repo_mut().set_local_bookmark_target(["b1", "b2"][r.below(2)].as_ref(), RefTarget::normal(c.id().clone())); } }
                }
            }
            tx.repo_mut().rebase_descendants().block_on().unwrap();
            repo = tx.commit(format!("op{opn}")).block_on().unwrap(); steps += 1;
            // C10
            let heads: Vec<CommitId> = repo.view().heads().iter().cloned().collect();
            let mut ok10 = !heads.is_empty();
            for a in &heads { for b in &heads { if a != b && ancestors(&repo, b).contains(a) { ok10 = false; } } }
            if heads.contains(&root) && heads.len() > 1 { ok10 = false; }
            let vis2: HashSet<CommitId> = visible(&repo).iter().map(|c| c.id().clone()).collect();
            for (_, t) in repo.view().local_bookmarks() { for id in t.added_ids() { if !vis2.contains(id) { ok10 = false; } } }
            if !ok10 { c10 += 1; if c10 < 4 { println!("C10 FAIL history={h} op={opn} heads={heads:?}"); } }
            // C11: no visible commit descends from a touched (rewritten/abandoned) commit
            for t in &touched { if vis2.contains(t) { c11 += 1; if c11 < 4 { println!("C11 FAIL history={h} op={opn}: rewritten/abandoned commit {t:?} still visible"); } } }
            // change ids unique among visible
            let mut chg: HashMap<Vec<u8>, usize> = HashMap::new(); use jj_lib::object_id::ObjectId as _;
            for c in visible(&repo) { *chg.entry(c.change_id().to_bytes()).or_default() += 1; }
            if chg.values().any(|n| *n > 1) { c11 += 1; if c11 < 4 { println!("C11 FAIL history={h} op={opn}: duplicate visible change id"); } }
            // C46
            for head in &heads {
                let entries: Vec<_> = match walk_predecessors(&repo, std::slice::from_ref(head)).try_collect::<Vec<_>>().block_on() { Ok(e) => e, Err(e) => { c46 += 1; println!("C46 ERR {e:?}"); continue; } };
                let ids: Vec<CommitId> = entries.iter().map(|e| e.commit.id().clone()).collect();
                let set: HashSet<_> = ids.iter().cloned().collect();
                let mut ok = set.len() == ids.len();
                // order: each commit appears before its predecessors
                let pos: HashMap<&CommitId, usize> = ids.iter().enumerate().map(|(i, c)| (c, i)).collect();
                for e in &entries { for p in e.predecessor_ids() { if let Some(pp) = pos.get(p) { if *pp <= pos[e.commit.id()] { ok = false; } } else { ok = false; } } }
                if !ok { c46 += 1; if c46 < 4 { println!("C46 FAIL history={h} op={opn} head={head:?} ids={ids:?}"); } }
            }
        }
    }
    println!("SUMMARY4 histories={histories} steps={steps} c10_fail={c10} c11_fail={c11} c46_fail={c46}");
}
