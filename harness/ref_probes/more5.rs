use std::collections::{HashMap, HashSet};
use futures::TryStreamExt as _;
use jj_lib::backend::CommitId;
use jj_lib::commit::Commit;
use jj_lib::graph::GraphEdgeType;
use jj_lib::object_id::{HexPrefix, ObjectId as _, PrefixResolution};
use jj_lib::repo::{ReadonlyRepo, Repo};
use jj_lib::revset::RevsetExpression;
use pollster::FutureExt as _;
use std::sync::Arc;
use testutils::{TestRepo, write_random_commit_with_parents};
use crate::Rng;

fn anc_set(parents: &HashMap<CommitId, Vec<CommitId>>, id: &CommitId) -> HashSet<CommitId> {
    let mut seen = HashSet::new(); let mut st = vec![id.clone()];
    while let Some(i) = st.pop() { if !seen.insert(i.clone()) { continue; } for p in &parents[&i] { st.push(p.clone()); } } seen
}
pub fn run(r: &mut Rng, graphs: usize) {
    let (mut c18, mut c20, mut c39, mut cases) = (0, 0, 0, 0);
    for g in 0..graphs {
        let test_repo = TestRepo::init(); let mut repo: Arc<ReadonlyRepo> = test_repo.repo.clone();
        let root = repo.store().root_commit(); let mut commits: Vec<Commit> = vec![root.clone()];
        // build over several transactions (-> several index segments)
        for _t in 0..(2 + r.below(4)) {
            let mut tx = repo.start_transaction();
            for _ in 0..(1 + r.below(5)) {
                let np = 1 + r.below(3); let mut ps: Vec<&Commit> = vec![];
                for _ in 0..np { let c = &commits[r.below(commits.len())]; if !ps.iter().any(|p| p.id() == c.id()) { ps.push(c); } }
                if ps.len() > 1 { ps.retain(|p| p.id() != root.id()); }
                let c = write_random_commit_with_parents(tx.repo_mut(), &ps); commits.push(c);
            }
            repo = tx.commit("t").block_on().unwrap();
        }
        // reload from disk
        let repo = test_repo.env.load_repo_at_head(&testutils::user_settings(), test_repo.repo_path());
        let index = repo.index();
        let parents: HashMap<CommitId, Vec<CommitId>> = commits.iter().map(|c| (c.id().clone(), c.parent_ids().to_vec())).collect();
        let ancs: HashMap<CommitId, HashSet<CommitId>> = commits.iter().map(|c| (c.id().clone(), anc_set(&parents, c.id()))).collect();
        // C18
        for _ in 0..40 {
            cases += 1;
            let a = commits[r.below(commits.len())].id().clone(); let b = commits[r.below(commits.len())].id().clone();
            if index.is_ancestor(&a, &b).block_on().unwrap() != ancs[&b].contains(&a) { c18 += 1; if c18 < 4 { println!("C18 FAIL is_ancestor g={g}"); } }
            let k1 = 1 + r.below(3); let k2 = 1 + r.below(3);
            let s1: Vec<CommitId> = (0..k1).map(|_| commits[r.below(commits.len())].id().clone()).collect();
            let s2: Vec<CommitId> = (0..k2).map(|_| commits[r.below(commits.len())].id().clone()).collect();
            let got: HashSet<CommitId> = index.common_ancestors(&s1, &s2).block_on().unwrap().into_iter().collect();
            let a1: HashSet<CommitId> = s1.iter().flat_map(|i| ancs[i].iter().cloned()).collect(); let a2: HashSet<CommitId> = s2.iter().flat_map(|i| ancs[i].iter().cloned()).collect();
            let common: HashSet<CommitId> = a1.intersection(&a2).cloned().collect();
            let want: HashSet<CommitId> = common.iter().filter(|c| !common.iter().any(|d| d != *c && ancs[d].contains(*c))).cloned().collect();
            if got != want { c18 += 1; if c18 < 4 { println!("C18 FAIL common_ancestors g={g} got={} want={}", got.len(), want.len()); } }
            let hs: HashSet<CommitId> = index.heads(&mut s1.iter().chain(s2.iter())).block_on().unwrap().into_iter().collect();
            let all: HashSet<CommitId> = s1.iter().chain(s2.iter()).cloned().collect();
            let wanth: HashSet<CommitId> = all.iter().filter(|c| !all.iter().any(|d| d != *c && ancs[d].contains(*c))).cloned().collect();
            if hs != wanth { c18 += 1; if c18 < 4 { println!("C18 FAIL heads g={g}"); } }
        }
        // C20 commit id prefixes (whole index)
        let hexes: Vec<String> = commits.iter().map(|c| c.id().hex()).collect();
        for (i, c) in commits.iter().enumerate() {
            let len = index.shortest_unique_commit_id_prefix_len(c.id()).block_on().unwrap();
            let matches = |n: usize| hexes.iter().filter(|h| h.starts_with(&hexes[i][..n])).count();
            let mut ok = len <= hexes[i].len() && matches(len) == 1 && (len <= 1 || matches(len - 1) > 1);
            if let Some(pfx) = HexPrefix::try_from_hex(&hexes[i][..len]) { match index.resolve_commit_id_prefix(&pfx).block_on().unwrap() { PrefixResolution::SingleMatch(id) if id == *c.id() => {}, _ => ok = false } }
            if !ok { c20 += 1; if c20 < 4 { println!("C20 FAIL g={g} id={} len={len}", hexes[i]); } }
        }
        // C39 graph edges on random subset
        let subset: Vec<CommitId> = commits.iter().filter(|_| r.below(2) == 0).map(|c| c.id().clone()).collect();
        if !subset.is_empty() {
            let sset: HashSet<CommitId> = subset.iter().cloned().collect();
            let revset = RevsetExpression::commits(subset.clone()).evaluate(repo.as_ref()).unwrap();
            let nodes: Vec<(CommitId, Vec<jj_lib::graph::GraphEdge<CommitId>>)> = revset.stream_graph().try_collect().block_on().unwrap();
            let mut ok = nodes.len() == sset.len();
            let order: HashMap<&CommitId, usize> = nodes.iter().enumerate().map(|(i, (c, _))| (c, i)).collect();
            for (c, _) in &nodes { for d in &sset { if d != c && ancs[c].contains(d) && order.get(d).map_or(true, |od| *od <= order[c]) { ok = false; } } }
            let mut reach: HashMap<CommitId, HashSet<CommitId>> = HashMap::new();
            for (c, edges) in nodes.iter().rev() {
                let mut s = HashSet::new();
                for e in edges { match e.edge_type { GraphEdgeType::Direct => { if !parents[c].contains(&e.target) || !sset.contains(&e.target) { ok = false; } }
                    GraphEdgeType::Indirect => { if !sset.contains(&e.target) || !ancs[c].contains(&e.target) || parents[c].contains(&e.target) && false { ok = false; } }
                    GraphEdgeType::Missing => { if sset.contains(&e.target) { ok = false; } continue; } }
                    s.insert(e.target.clone()); if let Some(rs) = reach.get(&e.target) { s.extend(rs.iter().cloned()); } }
                reach.insert(c.clone(), s);
            }
            for c in &sset { let want: HashSet<CommitId> = ancs[c].iter().filter(|a| *a != c && sset.contains(*a)).cloned().collect(); if reach.get(c) != Some(&want) { ok = false; } }
            if !ok { c39 += 1; if c39 < 4 { println!("C39 FAIL g={g} subset={}", sset.len()); } }
        }
    }
    println!("SUMMARY6 graphs={graphs} c18_cases={cases} c18_fail={c18} c20_fail={c20} c39_fail={c39}");
    let _ = |x: Box<dyn Iterator<Item=CommitId>>| x.count();
}
